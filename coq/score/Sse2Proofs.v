(* Lemmas about the SSE2 kernel model and the dispatcher (SimdModel.v): cell by cell
   the SSE2 kernel computes what the generic kernel computes, provided the
   addition has the two properties of IEEE addition the kernel relies on (it adds
   a +0.0 for every symbol that is not the one in the sequence):
     - x + zero = x for every x of a class P ("not the negative zero"),
     - the class P contains zero and every sum x + y with x in P.            *)
From Coq Require Import List Arith Bool Lia NArith.
From LMBase Require Import Res ListX.
From LMScore Require Import ScoreModel SimdModel ScoreProofs SimdProofs.
Import ListNotations.

Lemma skipn_add {A} a b (l : list A) : skipn (a + b) l = skipn b (skipn a l).
Proof.
  revert l. induction a as [|a IH]; intros l; simpl; auto.
  destruct l; [rewrite skipn_nil; reflexivity|]. apply IH.
Qed.

Lemma store_at_twice {A} off off2 (r1 r2 row : list A) :
  off2 = off + length r1 -> off2 + length r2 <= length row ->
  store_at off2 r2 (store_at off r1 row) = store_at off (r1 ++ r2) row.
Proof.
  intros -> H. unfold store_at.
  assert (Hl : length (firstn off row ++ r1) = off + length r1).
  { rewrite app_length, firstn_length. lia. }
  rewrite (app_assoc (firstn off row) r1).
  rewrite (firstn_app_exact _ _ _ Hl).
  rewrite (skipn_add (off + length r1) (length r2)).
  rewrite (skipn_app_exact _ _ _ Hl).
  rewrite <- skipn_add. rewrite app_length.
  rewrite <- !app_assoc. rewrite Nat.add_assoc. reflexivity.
Qed.


Lemma store_at_block {A} off o (r pre blk post : list A) :
  length pre = off -> o + length r <= length blk ->
  store_at (off + o) r (pre ++ blk ++ post) = pre ++ store_at o r blk ++ post.
Proof.
  intros Hpre Hb. unfold store_at.
  rewrite firstn_app, Hpre. replace (off + o - off) with o by lia.
  rewrite (firstn_all2 pre) by lia.
  rewrite firstn_app. replace (o - length blk) with 0 by lia. rewrite firstn_O, app_nil_r.
  rewrite skipn_app, Hpre. replace (off + o + length r - off) with (o + length r) by lia.
  rewrite (skipn_all2 pre) by lia.
  rewrite skipn_app. replace (o + length r - length blk) with 0 by lia. cbn [skipn app].
  rewrite <- !app_assoc. reflexivity.
Qed.

Lemma fold_store_block {A} off (pre post : list A) :
  forall (l : list (nat * list A)) blk,
    length pre = off ->
    (forall o r, In (o, r) l -> o + length r <= length blk) ->
    fold_left (fun row ro => store_at (off + fst ro) (snd ro) row) l (pre ++ blk ++ post) =
    pre ++ fold_left (fun row ro => store_at (fst ro) (snd ro) row) l blk ++ post.
Proof.
  induction l as [|[o r] l IH]; intros blk Hpre Hl; cbn [fold_left fst snd]; auto.
  rewrite store_at_block by (auto; apply Hl; left; reflexivity).
  apply IH; auto.
  intros o' r' Hin. rewrite store_at_length by (apply Hl; left; reflexivity).
  apply Hl. right. exact Hin.
Qed.

Lemma map_add_seq off : forall n s, map (fun k => off + k) (seq s n) = seq (off + s) n.
Proof.
  induction n as [|n IH]; intros s; cbn [seq map]; auto.
  rewrite IH. rewrite Nat.add_succ_r. reflexivity.
Qed.

Lemma map_nth_seq {A} (x : list A) d : map (fun k => nth k x d) (seq 0 (length x)) = x.
Proof.
  apply (nth_ext_len _ _ d).
  - rewrite map_length, seq_length. reflexivity.
  - intros i Hi. rewrite map_length, seq_length in Hi.
    rewrite (map_nth_in _ _ _ 0) by (rewrite seq_length; auto). rewrite seq_nth by auto. reflexivity.
Qed.

Lemma interleave_map {A B} (f : A -> B) : forall a b,
  interleave (map f a) (map f b) = map f (interleave a b).
Proof. induction a as [|x a IH]; intros [|y b]; cbn [map interleave]; auto. rewrite IH. reflexivity. Qed.

(* ---------- interleaving paths as index selections ---------- *)

Lemma zip_path_sel (x : list N) p : forall sel,
  zip_path zero128 p (map (pick x) sel) = map (pick x) (zip_path (repeat None 16) p sel).
Proof.
  assert (Ez : zero128 = map (pick x) (repeat None 16)) by reflexivity.
  induction p as [|h t IH]; intros sel; cbn [zip_path]; auto.
  rewrite <- IH. f_equal. rewrite Ez.
  destruct h; rewrite ?skipn_map, ?firstn_map; apply interleave_map.
Qed.

Lemma lane4_widen_spec cs kss (x : list N) :
  lane4_cols cs = Some kss -> length x = 16 ->
  lane4_widen cs x = map (fun ks => map (fun k => nth k x 0%N) ks) kss.
Proof.
  intros Hk Hx. unfold lane4_widen, lane4_cols in *.
  apply (Forall2_map_eq (fun p ks => epi32_sel (zip_path (repeat None 16) p (map Some (seq 0 16))) = Some ks)).
  - apply all_some_Forall2. exact Hk.
  - intros p ks Hp.
    assert (Ex : x = map (pick x) (map Some (seq 0 16))).
    { rewrite map_map. cbn [pick]. rewrite <- Hx. symmetry. apply map_nth_seq. }
    rewrite Ex at 1. rewrite zip_path_sel.
    eapply epi32_sel_spec; eauto.
Qed.

(* what the reflection check establishes *)
Lemma lane4_layout_facts cs :
  lane4_layout_ok cs = true ->
  exists kss,
    lane4_cols cs = Some kss /\
    (forall ks k, In ks kss -> In k ks -> k < 16) /\
    (forall ks, In ks kss -> length ks = 4) /\
    (forall o, In o (l4_store cs) -> o + 4 <= 16) /\
    length kss = length (l4_store cs) /\
    lane4_final_cols cs kss = seq 0 16.
Proof.
  unfold lane4_layout_ok. destruct (lane4_cols cs) as [kss|]; [|discriminate].
  intros H. exists kss. split; [reflexivity|].
  apply andb_true_iff in H. destruct H as [H H4]. apply andb_true_iff in H. destruct H as [H H3].
  apply andb_true_iff in H. destruct H as [H1 H2].
  rewrite forallb_forall in H1. rewrite forallb_forall in H2.
  repeat split.
  - intros ks k Hks Hk. specialize (H1 ks Hks). apply andb_true_iff in H1. destruct H1 as [_ H1].
    rewrite forallb_forall in H1. apply Nat.ltb_lt. apply H1. exact Hk.
  - intros ks Hks. specialize (H1 ks Hks). apply andb_true_iff in H1. destruct H1 as [H1 _].
    apply Nat.eqb_eq. exact H1.
  - intros o Ho. apply Nat.leb_le. apply H2. exact Ho.
  - apply Nat.eqb_eq. exact H3.
  - apply list_nat_eqb_eq. exact H4.
Qed.

(* ---------- the kernel ---------- *)

Section Lane4Proofs.
  Context {T : Type}.
  Variable add : T -> T -> T.
  Variable zero : T.
  Variable C K : nat.
  Notation Nw := (K - 1).

  (* what the kernel needs of the addition (IEEE: P x := x is not -0.0) *)
  Variable P : T -> Prop.
  Hypothesis P_zero : P zero.
  Hypothesis P_add : forall x y, P x -> P (add x y).
  Hypothesis add_zero : forall x, P x -> add x zero = x.

  (* the constants of the kernel and the facts established by [lane4_layout_ok] *)
  Variable cs : lane4_consts.
  Variable kss : list (list nat).
  Hypothesis Hkss : lane4_cols cs = Some kss.
  Hypothesis Hk16 : forall ks k, In ks kss -> In k ks -> k < 16.
  Hypothesis Hk4 : forall ks, In ks kss -> length ks = 4.
  Hypothesis Hst16 : forall o, In o (l4_store cs) -> o + 4 <= 16.
  Hypothesis Hlen : length kss = length (l4_store cs).
  Hypothesis Hfinal : lane4_final_cols cs kss = seq 0 16.

  (* the columns held by the lanes of the accumulators at column offset off *)
  Definition acols (off : nat) : list (list nat) := map (map (fun k => off + k)) kss.

  Lemma acols_range off ks c : In ks (acols off) -> In c ks -> off <= c < off + 16.
  Proof.
    unfold acols. intros Hks Hc. apply in_map_iff in Hks. destruct Hks as [ks0 [<- Hks0]].
    apply in_map_iff in Hc. destruct Hc as [k [<- Hk]]. pose proof (Hk16 ks0 k Hks0 Hk). lia.
  Qed.

  Lemma lane4_widen_row (xrow : list nat) off :
    off + 16 <= length xrow ->
    lane4_widen cs (map N.of_nat (firstn 16 (skipn off xrow))) =
    map (fun ks => map (fun c => N.of_nat (nth c xrow 0)) ks) (acols off).
  Proof.
    intros H. rewrite (lane4_widen_spec cs kss) by (auto; rewrite map_length, firstn_length, skipn_length; lia).
    unfold acols. rewrite map_map. apply map_ext_in. intros ks Hks.
    rewrite map_map. apply map_ext_in. intros k Hk.
    pose proof (Hk16 ks k Hks Hk) as Hk'.
    change 0%N with (N.of_nat 0). rewrite map_nth.
    rewrite nth_firstn_lt by lia. rewrite nth_skipn. reflexivity.
  Qed.

  (* one lane of `for k in 0..K { s = s + (lut_k & (x == k)) }` *)
  Fixpoint lane_fold (k : nat) (cells : list T) (s : nat) (a : T) : T :=
    match cells with
    | [] => a
    | lut :: rest => lane_fold (S k) rest s (add a (if s =? k then lut else zero))
    end.

  Lemma sse2_symbols_lanes cells :
    forall k (cols : list (list nat)) (sym : nat -> nat) (g : nat -> T),
      sse2_symbols add zero k cells
        (map (fun ks => map (fun c => N.of_nat (sym c)) ks) cols) (map (map g) cols) =
      map (map (fun c => lane_fold k cells (sym c) (g c))) cols.
  Proof.
    induction cells as [|lut rest IH]; intros k cols sym g; cbn [sse2_symbols lane_fold].
    - reflexivity.
    - rewrite map_map.
      assert (E : map2 (add_ps add) (map (map g) cols)
                    (map (fun ks => and_cmpeq zero lut (map (fun c => N.of_nat (sym c)) ks) (N.of_nat k)) cols) =
                  map (map (fun c => add (g c) (if sym c =? k then lut else zero))) cols).
      { rewrite map2_map_map. apply map_ext. intros ks. unfold add_ps, and_cmpeq.
        rewrite map_map. rewrite map2_map_map. apply map_ext. intros c.
        rewrite N_eqb_of_nat. reflexivity. }
      rewrite E. apply IH.
  Qed.

  Lemma lane_fold_lt cells : forall k s a, P a -> s < k -> lane_fold k cells s a = a.
  Proof.
    induction cells as [|lut rest IH]; intros k s a Ha Hs; cbn [lane_fold]; auto.
    replace (s =? k) with false by (symmetry; apply Nat.eqb_neq; lia).
    rewrite add_zero by auto. apply IH; auto.
  Qed.

  Lemma lane_fold_ge cells : forall k s a, P a -> k <= s < k + length cells ->
    lane_fold k cells s a = add a (nth (s - k) cells zero).
  Proof.
    induction cells as [|lut rest IH]; intros k s a Ha Hs; cbn [lane_fold length] in *; [lia|].
    destruct (Nat.eqb_spec s k) as [->|Hne].
    - rewrite lane_fold_lt by (auto; lia). rewrite Nat.sub_diag. reflexivity.
    - rewrite add_zero by auto. rewrite IH by (auto; lia).
      replace (s - k) with (S (s - S k)) by lia. reflexivity.
  Qed.

  Lemma lane4_inner_ok off :
    off + 16 <= C ->
    forall pr sr g,
      pssm_wf K pr -> length pr <= length sr ->
      (forall j, j < length pr -> length (nth j sr []) = C /\ Forall (fun x => x < K) (nth j sr [])) ->
      (forall c, P (g c)) ->
      lane4_inner add zero cs off pr sr (map (map g) (acols off)) =
      Ok (map (map (fun c => fold_left add (terms_from zero 0 pr (fun j => nth c (nth j sr []) Nw)) (g c)))
              (acols off)).
  Proof.
    intros Hoff. induction pr as [|prow rest IH]; intros sr g Hp Hl Hsr Hg.
    - reflexivity.
    - pose proof (Forall_inv Hp) as Hk. pose proof (Forall_inv_tail Hp) as Hrest. cbv beta in Hk.
      destruct sr as [|xrow sr']; [simpl in Hl; lia|].
      cbn [lane4_inner].
      destruct (Hsr 0 ltac:(simpl; lia)) as [HxC HxK]. cbn [nth] in HxC, HxK.
      rewrite lane4_widen_row by lia.
      rewrite (sse2_symbols_lanes prow 0 (acols off) (fun c => nth c xrow 0) g).
      set (g' := fun c => add (g c) (nth (nth c xrow Nw) prow zero)).
      assert (E : map (map (fun c => lane_fold 0 prow (nth c xrow 0) (g c))) (acols off) =
                  map (map g') (acols off)).
      { apply map_ext_in. intros ks Hks. apply map_ext_in. intros c Hc.
        pose proof (acols_range off ks c Hks Hc) as Hc16.
        assert (Hsym : nth c xrow 0 < K).
        { rewrite Forall_forall in HxK. apply HxK. apply nth_In. lia. }
        rewrite lane_fold_ge by (auto; lia). rewrite Nat.sub_0_r. unfold g'.
        rewrite (nth_indep xrow 0 Nw) by lia. reflexivity. }
      rewrite E. rewrite IH; auto.
      + f_equal. apply map_ext. intros ks. apply map_ext. intros c.
        cbn [terms_from fold_left nth]. rewrite terms_from_succ. cbn [nth]. reflexivity.
      + simpl in Hl. lia.
      + intros j Hj. apply (Hsr (S j)). simpl. lia.
      + intros c. unfold g'. apply P_add. auto.
  Qed.

  Lemma lane4_store_ok off (G : nat -> T) (old : list T) :
    off + 16 <= length old ->
    lane4_store cs off (map (map G) (acols off)) old = store_at off (map G (seq off 16)) old.
  Proof.
    intros Hold.
    set (pre := firstn off old). set (blk := firstn 16 (skipn off old)). set (post := skipn (off + 16) old).
    assert (Eold : old = pre ++ blk ++ post).
    { unfold pre, blk, post. rewrite (skipn_add off 16). rewrite firstn_skipn. rewrite firstn_skipn. reflexivity. }
    assert (Hpre : length pre = off) by (unfold pre; rewrite firstn_length; lia).
    assert (Hblk : length blk = 16) by (unfold blk; rewrite firstn_length, skipn_length; lia).
    set (Goff := fun k => G (off + k)).
    set (G' := fun k => if k <? 16 then Goff k else nth (k - 16) blk zero).
    assert (Hacc : map (map G) (acols off) = map (map G') kss).
    { unfold acols. rewrite map_map. apply map_ext_in. intros ks Hks.
      rewrite map_map. apply map_ext_in. intros k Hk. unfold G', Goff.
      replace (k <? 16) with true; auto. symmetry. apply Nat.ltb_lt. eapply Hk16; eauto. }
    assert (Hrow : blk = map G' (seq 16 16)).
    { apply (nth_ext_len _ _ zero).
      - rewrite map_length, seq_length. auto.
      - intros i Hi. rewrite (map_nth_in _ _ _ 0) by (rewrite seq_length; lia).
        rewrite seq_nth by lia. unfold G'.
        replace (16 + i <? 16) with false by (symmetry; apply Nat.ltb_ge; lia).
        f_equal. lia. }
    unfold lane4_store. rewrite Eold at 1.
    rewrite (fold_store_block off pre post); auto.
    - rewrite Hacc. rewrite Hrow at 1. rewrite combine_map_r. rewrite fold_store_map.
      fold (lane4_final_cols cs kss). rewrite Hfinal.
      unfold store_at. rewrite map_length, seq_length. fold pre. fold post.
      f_equal. f_equal.
      replace (seq off 16) with (map (fun k => off + k) (seq 0 16))
        by (rewrite map_add_seq, Nat.add_0_r; reflexivity).
      rewrite map_map.
      apply map_ext_in. intros k Hk. apply in_seq in Hk. unfold G', Goff.
      replace (k <? 16) with true; auto. symmetry. apply Nat.ltb_lt. lia.
    - intros o r Hin. rewrite Hblk.
      pose proof (in_combine_l _ _ _ _ Hin) as Ho. pose proof (in_combine_r _ _ _ _ Hin) as Hr.
      apply in_map_iff in Hr. destruct Hr as [ks0 [<- Hks0]].
      unfold acols in Hks0. apply in_map_iff in Hks0. destruct Hks0 as [ks1 [<- Hks1]].
      rewrite !map_length. rewrite (Hk4 ks1 Hks1). apply Hst16. exact Ho.
  Qed.

  Lemma paths_length : length (l4_paths cs) = length kss.
  Proof.
    unfold lane4_cols in Hkss. pose proof (all_some_Forall2 _ _ _ Hkss) as H.
    clear -H. induction H; simpl; auto.
  Qed.

  Lemma lane4_acc0 off :
    repeat (repeat zero 4) (length (l4_paths cs)) = map (map (fun _ : nat => zero)) (acols off).
  Proof.
    rewrite paths_length. unfold acols. rewrite map_map. symmetry.
    rewrite (map_ext_in _ (fun _ => repeat zero 4)).
    - apply map_const_repeat. auto.
    - intros ks Hks. rewrite map_map. rewrite <- (Hk4 ks Hks). apply map_const_repeat. auto.
  Qed.

  Lemma lane4_row_ok off pssm m i old :
    off + 16 <= C ->
    mat_wf C K m -> pssm_wf K pssm -> i + length pssm <= length m -> i < length m ->
    length old = C ->
    lane4_row add zero cs off pssm m i old =
    Ok (store_at off (map (cell_of add zero K pssm m i) (seq off 16)) old).
  Proof.
    intros Hoff Hm Hp Hi Hi' Hold. unfold lane4_row.
    replace (length m <=? i) with false by (symmetry; apply Nat.leb_gt; lia).
    rewrite (lane4_acc0 off).
    rewrite lane4_inner_ok; auto.
    - cbn [rbind]. f_equal.
      rewrite (lane4_store_ok off (fun c => fold_left add
                 (terms_from zero 0 pssm (fun j => nth c (nth j (skipn i m) []) Nw)) zero)) by lia.
      f_equal. apply map_ext. intros c. unfold cell_of. f_equal.
      apply terms_from_shift. intros j Hj. rewrite nth_skipn. reflexivity.
    - rewrite skipn_length. lia.
    - intros j Hj. rewrite nth_skipn. apply Hm. lia.
  Qed.

  (* the buffer after the column blocks below k have been written *)
  Definition sse2_partial (pssm : list (list T)) (m : list (list nat)) (idx : list nat)
             (buf0 : list (list T)) (k : nat) : list (list T) :=
    map (fun j => map (cell_of add zero K pssm m (nth j idx 0)) (seq 0 k) ++ skipn k (nth j buf0 []))
        (seq 0 (length idx)).

  Lemma lane4_block_ok pssm m idx buf0 off :
    off + 16 <= C -> mat_wf C K m -> pssm_wf K pssm ->
    length idx = length buf0 ->
    (forall j, j < length idx -> nth j idx 0 + length pssm <= length m /\ nth j idx 0 < length m) ->
    (forall j, j < length buf0 -> length (nth j buf0 []) = C) ->
    rows_update (lane4_row add zero cs off pssm m) 0 idx (sse2_partial pssm m idx buf0 off) =
    Ok (sse2_partial pssm m idx buf0 (off + 16)).
  Proof.
    intros Hoff Hm Hp Hlenb Hidx Hbuf.
    assert (Hpl : forall k, length (sse2_partial pssm m idx buf0 k) = length idx).
    { intros k. unfold sse2_partial. rewrite map_length, seq_length. reflexivity. }
    assert (Hpn : forall k j, j < length idx ->
               nth j (sse2_partial pssm m idx buf0 k) [] =
               map (cell_of add zero K pssm m (nth j idx 0)) (seq 0 k) ++ skipn k (nth j buf0 [])).
    { intros k j Hj. unfold sse2_partial.
      rewrite (map_nth_in _ _ _ 0) by (rewrite seq_length; auto).
      rewrite seq_nth by auto. reflexivity. }
    destruct (rows_update_ok (lane4_row add zero cs off pssm m)
                (fun i old => store_at off (map (cell_of add zero K pssm m i) (seq off 16)) old)
                idx 0 (sse2_partial pssm m idx buf0 off)) as [res [Hres [Hrl [_ Hin]]]].
    - rewrite Hpl. lia.
    - intros j Hj. cbn [Nat.add]. destruct (Hidx j Hj) as [H1 H2].
      apply lane4_row_ok; auto.
      rewrite Hpn by auto. rewrite app_length, map_length, seq_length, skipn_length.
      rewrite Hbuf by lia. lia.
    - rewrite Hres. f_equal. apply (nth_ext_len _ _ []).
      + rewrite Hrl, !Hpl. reflexivity.
      + intros j Hj. rewrite Hrl, Hpl in Hj. specialize (Hin j Hj). cbn [Nat.add] in Hin.
        rewrite Hin. rewrite !Hpn by auto.
        set (cell := cell_of add zero K pssm m (nth j idx 0)).
        assert (Hlo : length (map cell (seq 0 off)) = off) by (rewrite map_length, seq_length; auto).
        unfold store_at. rewrite (firstn_app_exact _ _ _ Hlo).
        rewrite map_length, seq_length. rewrite (skipn_add off 16).
        rewrite (skipn_app_exact _ _ _ Hlo). rewrite <- !skipn_add.
        rewrite app_assoc. rewrite <- map_app. rewrite <- seq_app. reflexivity.
  Qed.

  Lemma lane4_blocks_ok pssm m idx buf0 :
    mat_wf C K m -> pssm_wf K pssm ->
    length idx = length buf0 ->
    (forall j, j < length idx -> nth j idx 0 + length pssm <= length m /\ nth j idx 0 < length m) ->
    (forall j, j < length buf0 -> length (nth j buf0 []) = C) ->
    forall n i0, (i0 + n) * 16 <= C ->
      foldM (fun buf' off => rows_update (lane4_row add zero cs off pssm m) 0 idx buf')
            (map (fun i => i * 16) (seq i0 n)) (sse2_partial pssm m idx buf0 (i0 * 16)) =
      Ok (sse2_partial pssm m idx buf0 ((i0 + n) * 16)).
  Proof.
    intros Hm Hp Hlenb Hidx Hbuf. induction n as [|n IH]; intros i0 Hn.
    - rewrite Nat.add_0_r. reflexivity.
    - cbn [seq map foldM]. rewrite lane4_block_ok by (auto; lia). cbn [rbind].
      replace (i0 * 16 + 16) with (S i0 * 16) by lia.
      rewrite IH by lia. f_equal. f_equal. lia.
  Qed.

  (* the kernel fills the buffer with the generic cells whenever every row it reads exists *)
  Lemma lane4_kernel_ok pssm q a b buf :
    C mod 16 = 0 ->
    mat_wf C K (sq_mat q) -> pssm_wf K pssm -> 1 <= length pssm ->
    a < b -> b + length pssm - 1 <= length (sq_mat q) ->
    length buf = b - a -> (forall r, r < length buf -> length (nth r buf []) = C) ->
    lane4_kernel add zero cs C pssm q a b buf =
    Ok (map (fun r => map (cell_of add zero K pssm (sq_mat q) r) (seq 0 C)) (seq a (b - a))).
  Proof.
    intros HC Hm Hp HM Hab Hb Hlenb Hrows. unfold lane4_kernel.
    destruct buf as [|b0 buf'] eqn:Ebuf; [simpl in Hlenb; lia|]. rewrite <- Ebuf in *. clear Ebuf b0 buf'.
    destruct pssm as [|p0 pssm'] eqn:Ep; [simpl in HM; lia|]. rewrite <- Ep in *. clear Ep p0 pssm'.
    assert (HC16 : C / 16 * 16 = C).
    { pose proof (Nat.div_mod C 16 ltac:(lia)) as E. lia. }
    assert (Hidx : forall j, j < length (seq a (b - a)) ->
               nth j (seq a (b - a)) 0 + length pssm <= length (sq_mat q) /\
               nth j (seq a (b - a)) 0 < length (sq_mat q)).
    { intros j Hj. rewrite seq_length in Hj. rewrite seq_nth by auto. lia. }
    assert (E0 : buf = sse2_partial pssm (sq_mat q) (seq a (b - a)) buf (0 * 16)).
    { unfold sse2_partial. cbn [Nat.mul seq map app skipn]. rewrite seq_length, <- Hlenb.
      apply (nth_ext_len _ _ []).
      - rewrite map_length, seq_length. reflexivity.
      - intros j Hj. rewrite (map_nth_in _ _ _ 0) by (rewrite seq_length; auto).
        rewrite seq_nth by auto. reflexivity. }
    rewrite E0 at 1.
    rewrite (lane4_blocks_ok pssm (sq_mat q) (seq a (b - a)) buf Hm Hp) ; auto.
    - f_equal. cbn [Nat.add]. rewrite HC16. unfold sse2_partial. rewrite seq_length.
      apply (nth_ext_len _ _ []).
      + rewrite !map_length, !seq_length. reflexivity.
      + intros j Hj. rewrite map_length, seq_length in Hj.
        rewrite (map_nth_in _ _ _ 0) by (rewrite seq_length; auto).
        rewrite (map_nth_in _ _ _ 0) by (rewrite seq_length; auto).
        rewrite (seq_nth 0 0 Hj). cbn [Nat.add]. rewrite seq_nth by lia.
        rewrite skipn_all2 by (rewrite Hrows by lia; lia). apply app_nil_r.
    - rewrite seq_length. auto.
    - cbn [Nat.add]. lia.
  Qed.
End Lane4Proofs.

(* ---------- SSE2 and NEON wrappers ---------- *)

Section Lane4Eq.
  Context {T : Type}.
  Variable add : T -> T -> T.
  Variable zero : T.
  Variable C K : nat.
  Variable P : T -> Prop.
  Hypothesis P_zero : P zero.
  Hypothesis P_add : forall x y, P x -> P (add x y).
  Hypothesis add_zero : forall x, P x -> add x zero = x.

  Theorem sse2_equiv cs pssm q a b old :
    lane4_layout_ok cs = true ->
    0 < C -> C mod 16 = 0 ->
    mat_wf C K (sq_mat q) -> pssm_wf K pssm -> sc_wf C old ->
    1 <= length pssm -> length pssm - 1 <= sq_wrap q ->
    res_equiv (sse2_rows_into add zero cs C pssm q a b old)
              (generic_rows_into add zero C pssm q a b old).
  Proof.
    intros Hlay HC HC16 Hm Hp Hw HM Hwrap.
    destruct (lane4_layout_facts cs Hlay) as [kss [H1 [H2 [H3 [H4 [H5 H6]]]]]].
    unfold sse2_rows_into. apply (simd_guard_equiv add zero C K); auto.
    intros Hab Hb HL buf Hlenb Hrows.
    apply (lane4_kernel_ok add zero C K P P_zero P_add add_zero cs kss); auto.
  Qed.

  (* the NEON wrapper: same guards, same kernel shape *)
  Theorem neon_equiv cs pssm q a b old :
    lane4_layout_ok cs = true ->
    0 < C -> C mod 16 = 0 ->
    mat_wf C K (sq_mat q) -> pssm_wf K pssm -> sc_wf C old ->
    1 <= length pssm -> length pssm - 1 <= sq_wrap q ->
    res_equiv (neon_rows_into add zero cs C pssm q a b old)
              (generic_rows_into add zero C pssm q a b old).
  Proof.
    intros Hlay HC HC16 Hm Hp Hw HM Hwrap.
    destruct (lane4_layout_facts cs Hlay) as [kss [H1 [H2 [H3 [H4 [H5 H6]]]]]].
    unfold neon_rows_into. apply (simd_guard_equiv add zero C K); auto.
    intros Hab Hb HL buf Hlenb Hrows.
    apply (lane4_kernel_ok add zero C K P P_zero P_add add_zero cs kss); auto.
  Qed.
End Lane4Eq.

(* ---------- the dispatcher ---------- *)

Lemma rows_update_ok_or_panic {T} (f : nat -> list T -> res (list T)) :
  (forall i old, ok_or_panic (f i old)) ->
  forall idx k buf, ok_or_panic (rows_update f k idx buf).
Proof.
  intros Hf. induction idx as [|i rest IH]; intros k buf; simpl; auto.
  destruct (nth_error buf k) as [old|]; simpl; auto.
  pose proof (Hf i old) as H. destruct (f i old); simpl in *; auto.
Qed.

Lemma generic_rows_into_ok_or_panic {T} (add : T -> T -> T) zero C pssm q a b old :
  ok_or_panic (generic_rows_into add zero C pssm q a b old).
Proof.
  unfold generic_rows_into. destruct (_ || _); simpl; auto.
  pose proof (rows_update_ok_or_panic (fun i (_ : list T) => gen_row add zero C pssm (sq_mat q) i)
                (fun i _ => gen_row_ok_or_panic add zero C pssm (sq_mat q) i)
                (seq a (b - a)) 0 (m_resize (repeat zero C) (sc_mat old) (b - a))) as H.
  destruct (rows_update _ _ _ _); simpl in *; auto.
Qed.

Lemma res_equiv_refl {A} (x : res A) : ok_or_panic x -> res_equiv x x.
Proof. destruct x; simpl; auto. Qed.

Lemma res_equiv_ok {A} (x : res A) v : res_equiv x (Ok v) -> x = Ok v.
Proof. destruct x; simpl; intros H; try contradiction. subst. reflexivity. Qed.

Lemma res_equiv_eq_ok {A} (x y : res A) v : res_equiv x y -> y = Ok v -> x = Ok v.
Proof. intros H E. subst y. apply res_equiv_ok. exact H. Qed.

Lemma res_equiv_panic {A} (x y : res A) : res_equiv x y -> is_panic y = true -> is_panic x = true.
Proof. destruct x, y; simpl; intros H E; try contradiction; try discriminate; auto. Qed.

Section DispatchProofs.
  Context {T : Type}.
  Variable add : T -> T -> T.
  Variable zero : T.
  Variable K : nat.
  Variable P : T -> Prop.
  Hypothesis P_zero : P zero.
  Hypothesis P_add : forall x y, P x -> P (add x y).
  Hypothesis add_zero : forall x, P x -> add x zero = x.

  (* whatever kernel the table selects for an arm, the result is that of the generic kernel *)
  Theorem dispatch_equiv (table : arm -> kernel_id) csp csg cs2 pssm pads ar q a b old :
    avx2_layout_ok csp = true -> avx2_layout_ok csg = true -> lane4_layout_ok cs2 = true ->
    mat_wf 32 K (sq_mat q) -> pssm_wf K pssm -> sc_wf 32 old ->
    1 <= length pssm -> length pssm - 1 <= sq_wrap q ->
    res_equiv (dispatch_rows_into add zero table csp csg cs2 K pssm pads ar q a b old)
              (generic_rows_into add zero 32 pssm q a b old).
  Proof.
    intros Hcp Hcg Hc2 Hm Hp Hw HM Hwrap. unfold dispatch_rows_into.
    destruct (table ar).
    - apply res_equiv_refl. apply generic_rows_into_ok_or_panic.
    - apply (sse2_equiv add zero 32 K P); auto. lia.
    - apply avx2_equiv; auto.
  Qed.
  (* the dispatcher as compiled on arm / aarch64 hosts (16 columns, arms Generic / Neon) *)
  Theorem dispatch_arm_equiv (table : neon_arm -> neon_kernel_id) csn pssm ar q a b old :
    lane4_layout_ok csn = true ->
    mat_wf 16 K (sq_mat q) -> pssm_wf K pssm -> sc_wf 16 old ->
    1 <= length pssm -> length pssm - 1 <= sq_wrap q ->
    res_equiv (dispatch_rows_into_arm add zero table csn pssm ar q a b old)
              (generic_rows_into add zero 16 pssm q a b old).
  Proof.
    intros Hcn Hm Hp Hw HM Hwrap. unfold dispatch_rows_into_arm.
    destruct (table ar).
    - apply res_equiv_refl. apply generic_rows_into_ok_or_panic.
    - apply (neon_equiv add zero 16 K P); auto. lia.
  Qed.
End DispatchProofs.

(* full scans: Score::score through any score_rows_into *)
Lemma score_with_equiv {T} (f g : sseq -> nat -> nat -> sscores T -> res (sscores T)) q :
  (forall a b, res_equiv (f q a b sc_empty) (g q a b sc_empty)) ->
  res_equiv (score_with f q) (score_with g q).
Proof.
  intros H. unfold score_with, score_into, seq_rows. destruct (_ <? _); simpl; auto.
Qed.

Lemma score_with_eq_generic {T} (add : T -> T -> T) zero C
      (f : sseq -> nat -> nat -> sscores T -> res (sscores T)) pssm q sc :
  (forall a b, res_equiv (f q a b sc_empty) (generic_rows_into add zero C pssm q a b sc_empty)) ->
  generic_score add zero C pssm q = Ok sc ->
  score_with f q = Ok sc.
Proof.
  intros H E. apply res_equiv_ok. rewrite <- E. unfold generic_score.
  apply score_with_equiv. exact H.
Qed.

Lemma sc_wf_empty {T} C : sc_wf C (@sc_empty T).
Proof. intros r Hr. simpl in Hr. lia. Qed.
