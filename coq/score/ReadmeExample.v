(* The example of /repo/README.md as data: the scoring matrix (bit patterns of the
   binary32 log-odds computed by the library, printed by `score readme`) and the
   64-nt target sequence as symbol indices (A C T G N = 0 1 2 3 4). *)
From Coq Require Import ZArith List.
From LMBase Require Import IEEE.
Import ListNotations.

Definition readme_pssm_bits : list (list Z) :=
  [[0xc0257006; 0xc0257006; 0xc0257006; 0x3fe75768; 0xff800000];
   [0xc0257006; 0xc0257006; 0x3fe75768; 0xc0257006; 0xff800000];
   [0xc0257006; 0xc0257006; 0x3fe75768; 0xc0257006; 0xff800000];
   [0xc0257006; 0xc0257006; 0xc0257006; 0x3fe75768; 0xff800000];
   [0x3fe7576a; 0xc0257005; 0xc0257005; 0xc0257005; 0xff800000];
   [0xc0257007; 0x3f5fdd34; 0x3f5fdd34; 0xc0257007; 0xff800000];
   [0xc0257005; 0x3fe7576a; 0xc0257005; 0xc0257005; 0xff800000];
   [0xc0257007; 0x3f5fdd34; 0x3f5fdd34; 0xc0257007; 0xff800000];
   [0x3f5fdd34; 0xc0257007; 0x3f5fdd34; 0xc0257007; 0xff800000];
   [0x3f5fdd34; 0xc0257007; 0xc0257007; 0x3f5fdd34; 0xff800000];
   [0xc0257006; 0xc0257006; 0x3fe75768; 0xc0257006; 0xff800000];
   [0xc0257005; 0x3fe7576a; 0xc0257005; 0xc0257005; 0xff800000];
   [0x3fe7576a; 0xc0257005; 0xc0257005; 0xc0257005; 0xff800000];
   [0x3fe7576a; 0xc0257005; 0xc0257005; 0xc0257005; 0xff800000];
   [0xc0257005; 0x3fe7576a; 0xc0257005; 0xc0257005; 0xff800000]]%Z.

Definition readme_pssm : list (list f32) := map (map F32.of_bits) readme_pssm_bits.

Definition readme_seq : list nat :=
  [0; 2; 3; 2; 1; 1; 1; 0; 0; 1; 0; 0; 1; 3; 0; 2; 0; 1; 1; 1; 1; 3; 0; 3; 1; 1; 1; 0; 2; 1; 3; 1;
   1; 3; 2; 1; 0; 2; 1; 3; 3; 1; 2; 1; 3; 3; 1; 0; 2; 3; 1; 0; 3; 0; 2; 2; 1; 1; 1; 0; 3; 3; 1; 3].
