(* Scoring a striped sequence with arbitrary padding (states built by StripedSequence::new /
   ::sample and then configured): lemmas.  [Padded s q]: q holds s followed by SOME padding that
   fills its R = rows - wrap sequence rows; len() = |s|.  [Striped] is the special case of
   R = ceil(|s| / C) and wildcard padding. *)
From Coq Require Import List Arith Bool Lia.
From LMBase Require Import Res ListX.
From Coq Require Import ZArith.
From LMBase Require Import IEEE.
From LMScore Require Import ScoreModel ScorePadModel ScoreProofs ScoreCheck F32Proofs CheckProofs.
Import ListNotations.

Definition Padded (C N : nat) (s : list nat) (q : sseq) : Prop :=
  sq_len q = length s /\
  exists pad, Striped C N (s ++ pad) (full_len C q) /\ length (s ++ pad) = pad_R q * C.

Lemma seq_R_mul C R : 0 < C -> seq_R C (R * C) = R.
Proof.
  intros HC. unfold seq_R. symmetry. apply (Nat.div_unique _ _ _ (C - 1)); lia.
Qed.

Section Pad.
  Context {T : Type}.
  Variable add : T -> T -> T.
  Variable zero : T.
  Variable C K : nat.
  Hypothesis HC : 0 < C.

  Notation N := (K - 1).
  Notation score_def := (score_def add zero N).

  Lemma Striped_Padded s q : Striped C N s q -> Padded C N s q.
  Proof.
    intros [Hlen [Hrows [Hrl Hcell]]]. split; [exact Hlen|].
    destruct (seq_R_bound C (length s) HC) as [HB _].
    assert (HR : pad_R q = seq_R C (length s)) by (unfold pad_R; lia).
    exists (repeat N (pad_R q * C - length s)).
    assert (Hl : length (s ++ repeat N (pad_R q * C - length s)) = pad_R q * C).
    { rewrite app_length, repeat_length. rewrite HR. lia. }
    split; [|exact Hl].
    unfold Striped, full_len. cbn [sq_len sq_wrap sq_mat]. rewrite Hl, (seq_R_mul C _ HC).
    split; [reflexivity|]. split; [lia|]. split; [exact Hrl|].
    intros r c Hr Hc. rewrite Hcell by auto. rewrite HR.
    set (i := c * seq_R C (length s) + r).
    destruct (lt_dec i (length s)) as [Hi|Hi].
    - rewrite app_nth1 by auto. reflexivity.
    - rewrite (nth_overflow s) by lia. rewrite app_nth2 by lia.
      destruct (lt_dec (i - length s) (seq_R C (length s) * C - length s)) as [Hj|Hj].
      + rewrite nth_repeat_lt by auto. reflexivity.
      + rewrite nth_overflow; [reflexivity|]. rewrite repeat_length. lia.
  Qed.

  (* the defined score of a position whose window lies inside s does not see what follows s *)
  Lemma score_def_app (pssm : list (list T)) s pad i :
    i + length pssm <= length s -> score_def pssm (s ++ pad) i = score_def pssm s i.
  Proof.
    intros Hi. unfold ScoreModel.score_def, score_terms. f_equal.
    apply terms_from_shift. intros j Hj. rewrite app_nth1 by lia. reflexivity.
  Qed.

  Section One.
    Variable pssm : list (list T).
    Variable s pad : list nat.
    Variable q : sseq.
    Hypothesis Hm : mat_wf C K (sq_mat q).
    Hypothesis Hp : pssm_wf K pssm.
    Hypothesis Hlen : sq_len q = length s.
    Hypothesis Hst : Striped C N (s ++ pad) (full_len C q).
    Hypothesis Hfill : length (s ++ pad) = pad_R q * C.
    Hypothesis HM : 1 <= length pssm.
    Hypothesis Hw : length pssm - 1 <= sq_wrap q.

    Let t := s ++ pad.

    Lemma pad_rows : length (sq_mat q) = pad_R q + sq_wrap q.
    Proof.
      destruct Hst as [_ [Hrows _]]. cbn [full_len sq_mat sq_wrap] in Hrows.
      rewrite Hfill, (seq_R_mul C _ HC) in Hrows. exact Hrows.
    Qed.

    Lemma pad_seq_R : seq_R C (length t) = pad_R q.
    Proof. unfold t. rewrite Hfill. apply seq_R_mul; auto. Qed.

    Lemma pad_len_le : length s <= pad_R q * C.
    Proof. rewrite <- Hfill, app_length. lia. Qed.

    (* a call on any row range that stays inside the matrix: cell (k, c) of the result is the defined
       score of position c*R + a + k of the sequence FOLLOWED BY ITS PADDING *)
    Lemma generic_rows_padded a b old :
      length pssm <= length s -> a < b -> b + length pssm - 1 <= length (sq_mat q) ->
      generic_rows_into add zero C pssm q a b old =
      Ok (mkScores (map (fun r => map (fun c => score_def pssm t (c * pad_R q + r)) (seq 0 C)) (seq a (b - a)))
                   (length s + 1 - length pssm)).
    Proof.
      intros HL Hab Hb.
      rewrite (generic_rows_into_ok add zero C K); auto; try lia.
      rewrite Hlen. f_equal. f_equal.
      apply map_ext_in. intros r Hr. apply in_seq in Hr.
      apply map_ext_in. intros c Hc. apply in_seq in Hc.
      rewrite <- pad_seq_R.
      apply (striped_cell_of add zero C K pssm t (full_len C q)); auto; cbn [full_len sq_mat]; lia.
    Qed.

    Lemma generic_score_padded :
      length pssm <= length s ->
      generic_score add zero C pssm q =
      Ok (mkScores (full_mat add zero C K pssm t) (length s + 1 - length pssm)).
    Proof.
      intros HL. pose proof pad_rows as Hrows. pose proof pad_len_le as Hle.
      unfold generic_score, score_with, score_into, seq_rows.
      replace (length (sq_mat q) <? sq_wrap q) with false by (symmetry; apply Nat.ltb_ge; lia).
      cbn [rbind]. fold (pad_R q).
      assert (HR : 0 < pad_R q) by (destruct (pad_R q); simpl in *; lia).
      rewrite generic_rows_padded by lia.
      unfold full_mat. rewrite pad_seq_R, Nat.sub_0_r. reflexivity.
    Qed.

    Lemma generic_score_padded_short :
      length s < length pssm -> generic_score add zero C pssm q = Ok (mkScores [] 0).
    Proof.
      intros HL. pose proof pad_rows as Hrows.
      unfold generic_score, score_with, score_into, seq_rows.
      replace (length (sq_mat q) <? sq_wrap q) with false by (symmetry; apply Nat.ltb_ge; lia).
      cbn [rbind]. apply generic_rows_into_empty. left. lia.
    Qed.

    Lemma unstripe_padded :
      rbind (generic_score add zero C pssm q) (sc_unstripe C) =
      Ok (map (score_def pssm s) (seq 0 (length s + 1 - length pssm))).
    Proof.
      destruct (le_lt_dec (length pssm) (length s)) as [HL|HL].
      - rewrite generic_score_padded by auto. cbn [rbind].
        unfold sc_unstripe. cbn [sc_mat sc_max]. rewrite full_mat_length, pad_seq_R.
        pose proof pad_len_le as Hle. rewrite Nat.min_l by lia.
        apply mapM_ok. intros i Hi. apply in_seq in Hi.
        rewrite (sc_get_full add zero C K) by (auto; rewrite pad_seq_R; lia).
        f_equal. apply score_def_app. lia.
      - rewrite generic_score_padded_short by auto. cbn [rbind].
        replace (length s + 1 - length pssm) with 0 by lia. reflexivity.
    Qed.


    (* every cell of the sequence rows of a full scan, as coded: the padding symbols are scored like
       sequence symbols (only a window running past cell R*C - 1 reads the wildcard) *)
    Lemma generic_score_padded_cells :
      length pssm <= length s ->
      exists sc, generic_score add zero C pssm q = Ok sc /\
        length (sc_mat sc) = pad_R q /\ sc_max sc = length s + 1 - length pssm /\
        (forall r, r < pad_R q -> length (nth r (sc_mat sc) []) = C) /\
        (forall r c, r < pad_R q -> c < C ->
           nth c (nth r (sc_mat sc) []) zero = score_def pssm (s ++ pad) (c * pad_R q + r)) /\
        (forall i, i < pad_R q * C -> sc_get sc i = Ok (score_def pssm (s ++ pad) i)) /\
        (forall i, i < length s + 1 - length pssm -> sc_get sc i = Ok (score_def pssm s i)).
    Proof.
      intros HL. eexists. split; [apply generic_score_padded; auto|]. cbn [sc_mat sc_max].
      rewrite full_mat_length, pad_seq_R. split; [reflexivity|]. split; [reflexivity|].
      pose proof pad_len_le as Hle.
      split; [|split; [|split]].
      - intros r Hr. unfold full_mat. rewrite pad_seq_R.
        rewrite (map_nth_in _ _ _ 0) by (rewrite seq_length; auto).
        rewrite map_length, seq_length. reflexivity.
      - intros r c Hr Hc.
        rewrite (full_mat_cell add zero C K pssm t r c) by (auto; rewrite pad_seq_R; auto).
        rewrite pad_seq_R. reflexivity.
      - intros i Hi. apply (sc_get_full add zero C K pssm t); auto. rewrite pad_seq_R. exact Hi.
      - intros i Hi. rewrite (sc_get_full add zero C K pssm t) by (auto; rewrite pad_seq_R; lia).
        f_equal. apply score_def_app. lia.
    Qed.
  End One.

  Lemma lin_cells_length q : length (lin_cells C N q) = pad_R q * C.
  Proof. unfold lin_cells. rewrite map_length, seq_length. reflexivity. Qed.

  (* the executable check used by the driver on the matrices of src=new / src=sample cases *)
  Lemma padded_b_sound q :
    padded_b C N q = true -> Padded C N (logical_seq C N q) q.
  Proof.
    unfold padded_b. intros H.
    apply andb_true_iff in H. destruct H as [H H3].
    apply andb_true_iff in H. destruct H as [H1 H2].
    apply Nat.leb_le in H1. apply Nat.leb_le in H2.
    apply (striped_b_sound C K) in H3.
    unfold logical_seq. split.
    - rewrite firstn_length, lin_cells_length. lia.
    - exists (padding_of C N q). unfold padding_of. rewrite firstn_skipn.
      split; [exact H3|apply lin_cells_length].
  Qed.

  (* ... and [Padded] determines the sequence: it is what Index<usize> reads *)
  Lemma padded_logical s q : Padded C N s q -> s = logical_seq C N q.
  Proof.
    intros [Hlen [pad [[_ [Hrows [Hrl Hcell]]] Hfill]]].
    cbn [full_len sq_mat sq_wrap sq_len] in *.
    rewrite Hfill, (seq_R_mul C _ HC) in *.
    unfold logical_seq. rewrite Hlen.
    assert (E : lin_cells C N q = s ++ pad).
    { apply (nth_ext_len _ _ N); [rewrite lin_cells_length; auto|].
      intros i Hi. rewrite lin_cells_length in Hi. unfold lin_cells.
      rewrite (map_nth_in _ _ _ 0) by (rewrite seq_length; auto). rewrite seq_nth by auto. cbn [Nat.add].
      assert (HR : 0 < pad_R q) by (destruct (pad_R q); simpl in *; lia).
      assert (Hm : i mod pad_R q < pad_R q) by (apply Nat.mod_upper_bound; lia).
      assert (Hd : i / pad_R q < C) by (apply Nat.div_lt_upper_bound; lia).
      rewrite Hcell by lia. rewrite div_mod_cell; auto. }
    rewrite E. rewrite firstn_app, Nat.sub_diag, firstn_all. cbn [firstn]. rewrite app_nil_r. reflexivity.
  Qed.
End Pad.

(* ---------- L < M on the iterator and Index ---------- *)

Section Short.
  Context {T : Type}.
  Variable C : nat.

  Lemma iter_run_none (sc : sscores T) ops lo hi :
    hi <= lo -> sc_iter_run sc ops lo hi = Ok (repeat None (length ops)).
  Proof.
    intros H. induction ops as [|b r IH]; cbn [sc_iter_run repeat length]; auto.
    replace (lo <? hi) with false by (symmetry; apply Nat.ltb_ge; lia).
    rewrite IH. reflexivity.
  Qed.

  Lemma empty_scores_api ops i :
    sc_iter_end C (@mkScores T [] 0) = 0 /\
    sc_iter_ops C (@mkScores T [] 0) ops = Ok (repeat None (length ops)) /\
    sc_unstripe C (@mkScores T [] 0) = Ok [] /\
    sc_get (@mkScores T [] 0) i = Panic 20.
  Proof.
    split; [reflexivity|]. split; [apply iter_run_none; cbn; lia|]. split; reflexivity.
  Qed.
End Short.

(* ---------- the defined binary32 scores meet the property on real numbers ---------- *)

Lemma defined_scores_hold N pssm s :
  (Z.of_nat (length pssm) <= 2 ^ 23)%Z ->
  Holds_C01 N pssm s (map (score_def F32.add F32.zero N pssm s) (seq 0 (length s + 1 - length pssm))).
Proof.
  intros HM23. unfold Holds_C01. rewrite map_length, seq_length. split; [reflexivity|].
  intros i Hi. rewrite (map_nth_in _ _ _ 0) by (rewrite seq_length; auto).
  rewrite seq_nth by auto. cbn [Nat.add].
  apply defined_sum_holds. unfold f32_terms, score_terms.
  rewrite (terms_from_length F32.zero). exact HM23.
Qed.
