(* Facts about IEEE-754 binary32 addition (Flocq, BinarySingleNaN) that the scoring
   kernels rely on, and the rounding-error bound of the left-to-right sum. *)
From Coq Require Import ZArith Reals List Bool Lia Lra.
From Flocq Require Import Core BinarySingleNaN Plus_error Relative.
From LMBase Require Import IEEE.
Import ListNotations.

Local Open Scope R_scope.

Notation fexp32 := (FLT_exp (3 - 128 - 24) 24).

(* ---------- signed zeros ---------- *)

Definition not_nzero (x : f32) : Prop := x <> B754_zero true.

Lemma f32_zero_not_nzero : not_nzero F32.zero.
Proof. discriminate. Qed.

(* x + (+0) = x unless x is -0 *)
Lemma f32_add_zero x : not_nzero x -> F32.add x F32.zero = x.
Proof.
  destruct x as [[|]|[|]| |s m e H]; intros Hx; try reflexivity.
  exfalso. apply Hx. reflexivity.
Qed.

Lemma B2R_finite_neg m e H : B2R (B754_finite true m e H : f32) < 0.
Proof. simpl. apply F2R_lt_0. simpl. lia. Qed.

Lemma B2R_finite_pos m e H : 0 < B2R (B754_finite false m e H : f32).
Proof. simpl. apply F2R_gt_0. simpl. lia. Qed.

(* a sum is -0 only if both operands are: a sum whose left operand is not -0 is not -0 *)
Lemma f32_add_not_nzero x y : not_nzero x -> not_nzero (F32.add x y).
Proof.
  unfold not_nzero. intros Hx.
  destruct x as [[|]|[|]| |sx mx ex Hbx]; destruct y as [[|]|[|]| |sy my ey Hby];
    try discriminate; try (exfalso; apply Hx; reflexivity).
  intros E.
  pose proof (Bplus_correct 24 128 _ _ mode_NE (B754_finite sx mx ex Hbx) (B754_finite sy my ey Hby)
                eq_refl eq_refl) as H.
  change (Bplus mode_NE (B754_finite sx mx ex Hbx) (B754_finite sy my ey Hby)) with
    (F32.add (B754_finite sx mx ex Hbx) (B754_finite sy my ey Hby)) in H.
  rewrite E in H.
  destruct (Rlt_bool _ _).
  - destruct H as [HR [_ Hs]]. cbn [B2R Bsign] in HR, Hs.
    symmetry in HR.
    apply (round_plus_eq_0 radix2 fexp32 (round_mode mode_NE)) in HR;
      [ | apply (generic_format_B2R 24 128 (B754_finite sx mx ex Hbx))
        | apply (generic_format_B2R 24 128 (B754_finite sy my ey Hby)) ].
    rewrite (Rcompare_Eq _ _ HR) in Hs.
    destruct sx, sy; try discriminate.
    pose proof (B2R_finite_neg mx ex Hbx). pose proof (B2R_finite_neg my ey Hby).
    cbn [B2R] in *. lra.
  - destruct H as [H _]. simpl in H. destruct sx; discriminate.
Qed.

(* ---------- -inf ---------- *)

Definition no_pinf_nan (x : f32) : Prop := x <> B754_infinity false /\ x <> B754_nan.

Lemma f32_add_ninf_r x : no_pinf_nan x -> F32.add x F32.ninf = F32.ninf.
Proof.
  intros [H1 H2]. destruct x as [[|]|[|]| |s m e H]; try reflexivity; exfalso; auto.
Qed.

Lemma f32_add_ninf_l y : no_pinf_nan y -> F32.add F32.ninf y = F32.ninf.
Proof.
  intros [H1 H2]. destruct y as [[|]|[|]| |s m e H]; try reflexivity; exfalso; auto.
Qed.

Lemma f32_sum_ninf l : Forall no_pinf_nan l -> fold_left F32.add l F32.ninf = F32.ninf.
Proof.
  induction l as [|y l IH]; intros H; cbn [fold_left]; auto.
  rewrite f32_add_ninf_l by (inversion H; auto). apply IH. inversion H; auto.
Qed.

(* as soon as one term is -inf the sum is -inf, provided no term is +inf / NaN and
   the partial sum before it has not overflowed to +inf / NaN *)
Theorem neg_inf_absorbs l1 l2 :
  no_pinf_nan (fold_left F32.add l1 F32.zero) -> Forall no_pinf_nan l2 ->
  fold_left F32.add (l1 ++ F32.ninf :: l2) F32.zero = F32.ninf.
Proof.
  intros H1 H2. rewrite fold_left_app. cbn [fold_left].
  rewrite f32_add_ninf_r by auto. apply f32_sum_ninf. auto.
Qed.

(* ---------- rounding error of the left-to-right sum ---------- *)

Notation finite32 := (@BinarySingleNaN.is_finite 24 128).

Definition u32 : R := bpow radix2 (-24).            (* unit roundoff of binary32 *)

Definition rsum (l : list f32) : R := fold_right (fun x a => B2R x + a) 0 l.
Definition rabs_sum (l : list f32) : R := fold_right (fun x a => Rabs (B2R x) + a) 0 l.

(* "no intermediate overflow": every term and every partial sum is finite *)
Fixpoint sums_finite (acc : f32) (l : list f32) : bool :=
  match l with
  | [] => finite32 acc
  | x :: r => finite32 acc && finite32 x && sums_finite (F32.add acc x) r
  end.

Lemma u32_pos : 0 < u32.
Proof. apply bpow_gt_0. Qed.

Lemma u32_u_ro : u_ro radix2 24 = u32.
Proof.
  unfold u_ro, u32. change (/ 2) with (bpow radix2 (-1)). rewrite <- bpow_plus. reflexivity.
Qed.

(* one addition: the standard model, valid down to the subnormal range because
   additions of binary floating-point numbers do not underflow *)
Lemma f32_add_rel a x :
  finite32 a = true -> finite32 x = true -> finite32 (F32.add a x) = true ->
  exists eps, Rabs eps <= u32 /\ B2R (F32.add a x) = (B2R a + B2R x) * (1 + eps).
Proof.
  intros Ha Hx Hax.
  pose proof (Bplus_correct 24 128 _ _ mode_NE a x Ha Hx) as H.
  change (Bplus mode_NE a x) with (F32.add a x) in H.
  destruct (Rlt_bool _ _).
  - destruct H as [HR _]. rewrite HR.
    destruct (FLT_plus_error_N_ex radix2 (3 - 128 - 24) 24 (fun x => negb (Z.even x)) (B2R a) (B2R x))
      as [eps [Heps E]]; try apply (generic_format_B2R 24 128).
    exists eps. split; [|exact E].
    eapply Rle_trans; [exact Heps|]. rewrite <- u32_u_ro. apply u_rod1pu_ro_le_u_ro.
  - destruct H as [H _]. exfalso.
    destruct (F32.add a x); simpl in *; try discriminate.
Qed.

Lemma error_step_real d e S' A A' E u :
  0 <= u -> 0 <= E -> 0 <= A <= A' -> Rabs e <= u -> Rabs d <= E * A -> Rabs S' <= A' ->
  Rabs (d * (1 + e) + S' * e) <= ((E + 1) * (1 + u) - 1) * A'.
Proof.
  intros Hu HE [HA HA'] He Hd HS.
  assert (H1 : Rabs (d * (1 + e)) <= (E * A') * (1 + u)).
  { rewrite Rabs_mult. apply Rmult_le_compat; try apply Rabs_pos.
    - eapply Rle_trans; [exact Hd|]. apply Rmult_le_compat_l; auto.
    - eapply Rle_trans; [apply Rabs_triang|]. rewrite Rabs_R1. lra. }
  assert (H2 : Rabs (S' * e) <= A' * u).
  { rewrite Rabs_mult. apply Rmult_le_compat; try apply Rabs_pos; auto. }
  eapply Rle_trans; [apply Rabs_triang|].
  replace (((E + 1) * (1 + u) - 1) * A') with (E * A' * (1 + u) + A' * u) by ring.
  lra.
Qed.

Lemma pow_1u_ge1 k : 1 <= (1 + u32) ^ k.
Proof. apply pow_R1_Rle. pose proof u32_pos. lra. Qed.

Lemma fsum_error_gen l : forall acc S A k,
  sums_finite acc l = true ->
  Rabs S <= A ->
  Rabs (B2R acc - S) <= ((1 + u32) ^ k - 1) * A ->
  Rabs (B2R (fold_left F32.add l acc) - (S + rsum l)) <=
  ((1 + u32) ^ (k + length l) - 1) * (A + rabs_sum l).
Proof.
  induction l as [|x r IH]; intros acc S A k Hfin HS Hacc.
  - cbn [fold_left rsum rabs_sum fold_right length]. rewrite Nat.add_0_r, !Rplus_0_r. exact Hacc.
  - cbn [sums_finite] in Hfin.
    apply andb_true_iff in Hfin. destruct Hfin as [Hfin Hr].
    apply andb_true_iff in Hfin. destruct Hfin as [Ha Hx].
    assert (Hax : finite32 (F32.add acc x) = true).
    { destruct r; cbn [sums_finite] in Hr; auto.
      apply andb_true_iff in Hr. destruct Hr as [Hr _].
      apply andb_true_iff in Hr. destruct Hr as [Hr _]. exact Hr. }
    destruct (f32_add_rel acc x Ha Hx Hax) as [e [He E]].
    cbn [fold_left rsum rabs_sum fold_right length].
    fold (rsum r). fold (rabs_sum r).
    replace (S + (B2R x + rsum r)) with ((S + B2R x) + rsum r) by ring.
    replace (A + (Rabs (B2R x) + rabs_sum r)) with ((A + Rabs (B2R x)) + rabs_sum r) by ring.
    replace (k + Datatypes.S (length r))%nat with (Datatypes.S k + length r)%nat by lia.
    assert (HA : 0 <= A) by (eapply Rle_trans; [apply Rabs_pos|exact HS]).
    apply IH; auto.
    + eapply Rle_trans; [apply Rabs_triang|]. lra.
    + rewrite E.
      replace ((B2R acc + B2R x) * (1 + e) - (S + B2R x))
        with ((B2R acc - S) * (1 + e) + (S + B2R x) * e) by ring.
      replace ((1 + u32) ^ Datatypes.S k - 1) with ((((1 + u32) ^ k - 1) + 1) * (1 + u32) - 1)
        by (simpl; ring).
      pose proof (pow_1u_ge1 k). pose proof u32_pos. pose proof (Rabs_pos (B2R x)).
      apply error_step_real with (A := A); auto; try lra.
      eapply Rle_trans; [apply Rabs_triang|]. lra.
Qed.

(* C01, "within floating-point summation error of the exact sum": with no
   intermediate overflow, | fl-sum - sum | <= ((1 + u)^n - 1) * sum |t_j|, u = 2^-24 *)
Theorem fsum_error_bound l :
  sums_finite F32.zero l = true ->
  Rabs (B2R (fold_left F32.add l F32.zero) - rsum l) <=
  ((1 + u32) ^ (length l) - 1) * rabs_sum l.
Proof.
  intros H.
  pose proof (fsum_error_gen l F32.zero 0 0 0 H) as G.
  rewrite !Rplus_0_l in G. cbn [Nat.add] in G. apply G.
  - rewrite Rabs_R0. lra.
  - simpl. rewrite Rminus_0_r, Rabs_R0. lra.
Qed.

(* (1 + u)^n - 1 <= 2 n u as long as 2 n u <= 1 *)
Lemma pow_1u_le n : 2 * INR n * u32 <= 1 -> (1 + u32) ^ n <= 1 + 2 * INR n * u32.
Proof.
  pose proof u32_pos as Hu.
  induction n as [|n IH]; intros H.
  - simpl. lra.
  - rewrite S_INR in *. assert (H' : 2 * INR n * u32 <= 1) by nra.
    specialize (IH H'). cbn [pow].
    assert (0 <= INR n) by apply pos_INR.
    eapply Rle_trans; [apply Rmult_le_compat_l; [lra|exact IH]|]. nra.
Qed.

Lemma u32_val : u32 = / 16777216.
Proof. unfold u32. cbn. reflexivity. Qed.

Corollary fsum_error_tol l :
  (Z.of_nat (length l) <= 2 ^ 23)%Z -> sums_finite F32.zero l = true ->
  Rabs (B2R (fold_left F32.add l F32.zero) - rsum l) <=
  INR (length l) * bpow radix2 (-23) * rabs_sum l.
Proof.
  intros Hn H. eapply Rle_trans; [apply fsum_error_bound; exact H|].
  assert (HA : 0 <= rabs_sum l).
  { clear. induction l; simpl; [lra|]. pose proof (Rabs_pos (B2R a)). fold (rabs_sum l). lra. }
  apply Rmult_le_compat_r; auto.
  assert (E : bpow radix2 (-23) = 2 * u32).
  { unfold u32. change (-23)%Z with (1 + -24)%Z. rewrite bpow_plus. reflexivity. }
  rewrite E.
  assert (H2 : 2 * INR (length l) * u32 <= 1).
  { rewrite INR_IZR_INZ. apply IZR_le in Hn. change (2 ^ 23)%Z with 8388608%Z in Hn.
    rewrite u32_val. lra. }
  pose proof (pow_1u_le (length l) H2). lra.
Qed.

(* ---------- a computable sufficient condition for "no intermediate overflow" ---------- *)

Lemma rabs_sum_pos l : 0 <= rabs_sum l.
Proof. induction l; simpl; [lra|]. pose proof (Rabs_pos (B2R a)). fold (rabs_sum l). lra. Qed.

Lemma sums_finite_final l : forall acc,
  sums_finite acc l = true -> finite32 (fold_left F32.add l acc) = true.
Proof.
  induction l as [|x r IH]; intros acc H; cbn [sums_finite fold_left] in *; auto.
  apply andb_true_iff in H. destruct H as [_ H]. apply IH. exact H.
Qed.

Lemma format_bpow_127 : generic_format radix2 fexp32 (bpow radix2 127).
Proof. apply generic_format_bpow. unfold FLT_exp. simpl. lia. Qed.

(* |a + x| <= 2^127  =>  the sum is finite *)
Lemma f32_add_finite a x :
  finite32 a = true -> finite32 x = true -> Rabs (B2R a + B2R x) <= bpow radix2 127 ->
  finite32 (F32.add a x) = true.
Proof.
  intros Ha Hx Hb.
  pose proof (Bplus_correct 24 128 _ _ mode_NE a x Ha Hx) as H.
  change (Bplus mode_NE a x) with (F32.add a x) in H.
  rewrite Rlt_bool_true in H.
  - destruct H as [_ [H _]]. exact H.
  - eapply Rle_lt_trans.
    + apply (abs_round_le_generic radix2 fexp32 (round_mode mode_NE)); [apply format_bpow_127|exact Hb].
    + apply bpow_lt. lia.
Qed.

Lemma sums_finite_gen l : forall acc S A k,
  finite32 acc = true -> Forall (fun x => finite32 x = true) l ->
  Rabs S <= A ->
  Rabs (B2R acc - S) <= ((1 + u32) ^ k - 1) * A ->
  (1 + u32) ^ (k + length l) <= 2 ->
  A + rabs_sum l <= bpow radix2 126 ->
  sums_finite acc l = true.
Proof.
  induction l as [|x r IH]; intros acc S A k Ha Hl HS Hacc Hk HA.
  - exact Ha.
  - pose proof (Forall_inv Hl) as Hx. pose proof (Forall_inv_tail Hl) as Hr. cbv beta in Hx.
    cbn [rabs_sum fold_right length] in *. fold (rabs_sum r) in *.
    pose proof (rabs_sum_pos r) as Hrp. pose proof (Rabs_pos (B2R x)) as Hxp.
    pose proof (pow_1u_ge1 k) as Hk1. pose proof u32_pos as Hu.
    assert (HA0 : 0 <= A) by (eapply Rle_trans; [apply Rabs_pos|exact HS]).
    assert (Hk2 : (1 + u32) ^ k <= 2).
    { eapply Rle_trans; [|exact Hk]. apply Rle_pow; [lra|lia]. }
    assert (Hb : Rabs (B2R acc + B2R x) <= bpow radix2 127).
    { replace (B2R acc + B2R x) with ((B2R acc - S) + S + B2R x) by ring.
      eapply Rle_trans; [apply Rabs_triang|]. eapply Rle_trans; [apply Rplus_le_compat_r, Rabs_triang|].
      change (bpow radix2 127) with (2 * bpow radix2 126). nra. }
    pose proof (f32_add_finite acc x Ha Hx Hb) as Hax.
    cbn [sums_finite]. rewrite Ha, Hx. cbn [andb].
    destruct (f32_add_rel acc x Ha Hx Hax) as [e [He E]].
    apply (IH (F32.add acc x) (S + B2R x) (A + Rabs (B2R x)) (Datatypes.S k)); auto.
    + eapply Rle_trans; [apply Rabs_triang|]. lra.
    + rewrite E.
      replace ((B2R acc + B2R x) * (1 + e) - (S + B2R x))
        with ((B2R acc - S) * (1 + e) + (S + B2R x) * e) by ring.
      replace ((1 + u32) ^ Datatypes.S k - 1) with ((((1 + u32) ^ k - 1) + 1) * (1 + u32) - 1)
        by (simpl; ring).
      apply error_step_real with (A := A); auto; try lra.
      eapply Rle_trans; [apply Rabs_triang|]. lra.
    + replace (Datatypes.S k + length r)%nat with (k + Datatypes.S (length r))%nat by lia. exact Hk.
    + lra.
Qed.

(* at most 2^23 finite terms with sum |t_j| <= 2^126: no intermediate overflow *)
Theorem sums_finite_bound l :
  (Z.of_nat (length l) <= 2 ^ 23)%Z -> Forall (fun x => finite32 x = true) l ->
  rabs_sum l <= bpow radix2 126 ->
  sums_finite F32.zero l = true.
Proof.
  intros Hn Hl HA.
  apply (sums_finite_gen l F32.zero 0 0 0); auto.
  - rewrite Rabs_R0. lra.
  - simpl. rewrite Rminus_0_r, Rabs_R0. lra.
  - cbn [Nat.add].
    assert (H2 : 2 * INR (length l) * u32 <= 1).
    { rewrite INR_IZR_INZ. apply IZR_le in Hn. change (2 ^ 23)%Z with 8388608%Z in Hn.
      rewrite u32_val. lra. }
    pose proof (pow_1u_le (length l) H2). lra.
  - lra.
Qed.
