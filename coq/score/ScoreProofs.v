(* Lemmas about the scalar scoring model (ScoreModel.v). *)
From Coq Require Import List Arith Bool Lia.
From LMBase Require Import Res ListX.
From LMScore Require Import ScoreModel.
Import ListNotations.

(* ---------- list facts missing from the standard library ---------- *)

Lemma nth_firstn_lt {A} (l : list A) n i d : i < n -> nth i (firstn n l) d = nth i l d.
Proof.
  revert n i. induction l as [|x r IH]; intros [|n] [|i] H; simpl; auto; try lia.
  apply IH. lia.
Qed.

Lemma nth_skipn {A} (l : list A) n i d : nth i (skipn n l) d = nth (n + i) l d.
Proof.
  revert l. induction n as [|n IH]; intros [|x r]; simpl; auto.
  destruct i; reflexivity.
Qed.

Lemma map_nth_in {A B} (f : A -> B) l i d d' : i < length l -> nth i (map f l) d' = f (nth i l d).
Proof. revert i; induction l; intros [|i] H; simpl in *; try lia; auto. apply IHl; lia. Qed.

Lemma skipn_S_tail {A} (l : list A) j x r : skipn j l = x :: r -> skipn (S j) l = r /\ nth j l x = x.
Proof.
  revert l. induction j as [|j IH]; intros [|y l] H; simpl in *; try discriminate.
  - inversion H; subst. split; reflexivity.
  - apply IH. exact H.
Qed.

(* ---------- monadic map / fold ---------- *)

Lemma mapM_ok {A B} (f : A -> res B) (g : A -> B) (l : list A) :
  (forall x, In x l -> f x = Ok (g x)) -> mapM f l = Ok (map g l).
Proof.
  induction l as [|x r IH]; intros H; simpl; auto.
  rewrite (H x (or_introl eq_refl)). simpl. rewrite IH; auto.
  intros y Hy. apply H. right; auto.
Qed.

Lemma mapM_ok_inv {A B} (f : A -> res B) (l : list A) (ys : list B) :
  mapM f l = Ok ys ->
  length ys = length l /\ forall i d e, i < length l -> f (nth i l d) = Ok (nth i ys e).
Proof.
  revert ys. induction l as [|x r IH]; intros ys H; simpl in H.
  - inversion H; subst. split; auto. intros i d e Hi. simpl in Hi. lia.
  - destruct (f x) as [y| | |] eqn:Hx; simpl in H; try discriminate.
    destruct (mapM f r) as [ys'| | |] eqn:Hr; simpl in H; try discriminate.
    inversion H; subst. destruct (IH ys' eq_refl) as [Hl Hn]. split.
    + simpl. lia.
    + intros [|i] d e Hi; simpl; auto. apply Hn. simpl in Hi. lia.
Qed.

(* a res value that is either Ok or a Panic *)
Definition ok_or_panic {A} (x : res A) : Prop :=
  match x with Ok _ | Panic _ => True | _ => False end.

Lemma mapM_panic {A B} (f : A -> res B) (l : list A) :
  (forall x, In x l -> ok_or_panic (f x)) ->
  (exists x, In x l /\ is_panic (f x) = true) ->
  is_panic (mapM f l) = true.
Proof.
  induction l as [|x r IH]; intros Hall [y [Hy Hp]]; simpl in *; [tauto|].
  pose proof (Hall x (or_introl eq_refl)) as Hx.
  destruct (f x) as [v| | |] eqn:E; simpl in *; try tauto.
  destruct Hy as [->|Hy]; [rewrite E in Hp; discriminate|].
  assert (Hr : is_panic (mapM f r) = true).
  { apply IH; [intros z Hz; apply Hall; auto | exists y; auto]. }
  destruct (mapM f r); simpl in *; auto; discriminate.
Qed.

(* ---------- resize ---------- *)

Lemma m_resize_length {A} (d : list A) m n : length (m_resize d m n) = n.
Proof.
  unfold m_resize. rewrite app_length, firstn_length, repeat_length. lia.
Qed.

Lemma m_resize_row_length {A} (d : list A) m n c r :
  length d = c -> (forall i, i < length m -> length (nth i m []) = c) ->
  r < n -> length (nth r (m_resize d m n) []) = c.
Proof.
  intros Hd Hm Hr. unfold m_resize.
  destruct (lt_dec r (length (firstn n m))) as [Hlt|Hge].
  - rewrite app_nth1 by auto. rewrite firstn_length in Hlt.
    rewrite nth_firstn_lt by lia. apply Hm. lia.
  - rewrite app_nth2 by lia. rewrite firstn_length in *.
    rewrite nth_repeat_lt; auto. lia.
Qed.

(* ---------- rows_update ---------- *)

Section RowsUpdate.
  Context {T : Type}.

  Lemma rows_update_ok (f : nat -> list T -> res (list T)) (g : nat -> list T -> list T) :
    forall idx k buf,
      k + length idx <= length buf ->
      (forall j, j < length idx ->
         f (nth j idx 0) (nth (k + j) buf []) = Ok (g (nth j idx 0) (nth (k + j) buf []))) ->
      exists m, rows_update f k idx buf = Ok m /\ length m = length buf /\
                (forall r, r < k \/ k + length idx <= r -> nth r m [] = nth r buf []) /\
                (forall j, j < length idx ->
                   nth (k + j) m [] = g (nth j idx 0) (nth (k + j) buf [])).
  Proof.
    induction idx as [|i rest IH]; intros k buf Hlen Hf; simpl in *.
    - exists buf. repeat split; auto. intros j Hj. lia.
    - assert (Hk : k < length buf) by lia.
      destruct (nth_error buf k) as [old|] eqn:E; [|apply nth_error_None in E; lia].
      assert (Hold : old = nth k buf []) by (symmetry; apply nth_error_nth; auto).
      pose proof (Hf 0 ltac:(lia)) as H0. simpl in H0. rewrite Nat.add_0_r in H0.
      rewrite Hold, H0. simpl.
      set (new := g i (nth k buf [])).
      destruct (IH (S k) (upd k new buf)) as [m [Hm [Hl [Hout Hin]]]].
      + rewrite upd_length. lia.
      + intros j Hj. rewrite nth_upd_other by lia.
        pose proof (Hf (S j) ltac:(lia)) as Hj'. simpl in Hj'.
        replace (S k + j) with (k + S j) by lia. exact Hj'.
      + exists m. rewrite upd_length in Hl. repeat split; auto.
        * intros r Hr. rewrite Hout by lia. apply nth_upd_other. lia.
        * intros [|j] Hj.
          -- rewrite Nat.add_0_r. rewrite Hout by lia. simpl. apply nth_upd_same. lia.
          -- replace (k + S j) with (S k + j) by lia. rewrite Hin by lia.
             rewrite nth_upd_other by lia. reflexivity.
  Qed.

  (* all rows of the buffer are rewritten *)
  Lemma rows_update_all (f : nat -> list T -> res (list T)) (g : nat -> list T -> list T) idx buf :
    length idx = length buf ->
    (forall j, j < length idx ->
       f (nth j idx 0) (nth j buf []) = Ok (g (nth j idx 0) (nth j buf []))) ->
    rows_update f 0 idx buf = Ok (map (fun jo => g (fst jo) (snd jo)) (combine idx buf)).
  Proof.
    intros Hl Hf.
    destruct (rows_update_ok f g idx 0 buf) as [m [Hm [Hlm [_ Hin]]]]; [lia|exact Hf|].
    rewrite Hm. f_equal.
    apply (nth_ext_len _ _ []).
    - rewrite map_length, combine_length. lia.
    - intros j Hj. rewrite Hlm, <- Hl in Hj. pose proof (Hin j Hj) as E. simpl in E. rewrite E.
      rewrite (map_nth_in _ _ _ (0, [])) by (rewrite combine_length; lia).
      rewrite combine_nth by auto. reflexivity.
  Qed.

  Lemma rows_update_panic (f : nat -> list T -> res (list T)) :
    forall idx k buf,
      k + length idx <= length buf ->
      (forall i old, In i idx -> ok_or_panic (f i old)) ->
      (exists i, In i idx /\ forall old, is_panic (f i old) = true) ->
      is_panic (rows_update f k idx buf) = true.
  Proof.
    induction idx as [|i rest IH]; intros k buf Hlen Hall [y [Hy Hp]]; simpl in *; [tauto|].
    destruct (nth_error buf k) as [old|] eqn:E; [|apply nth_error_None in E; lia].
    pose proof (Hall i old (or_introl eq_refl)) as Hi.
    destruct (f i old) as [v| | |] eqn:E2; simpl in *; try tauto.
    destruct Hy as [->|Hy]; [specialize (Hp old); rewrite E2 in Hp; discriminate|].
    apply IH.
    - rewrite upd_length. lia.
    - intros; apply Hall; auto.
    - exists y; auto.
  Qed.
End RowsUpdate.

(* ---------- the generic kernel ---------- *)

Section Generic.
  Context {T : Type}.
  Variable add : T -> T -> T.
  Variable zero : T.
  Variable C : nat.
  Variable K : nat.     (* alphabet size; the wildcard is K - 1 *)

  Notation N := (K - 1).
  Notation score_def := (score_def add zero N).
  Notation Striped := (Striped C N).
  Notation seq_R := (seq_R C).

  (* matrix well-formedness: rows of exactly C symbols below K *)
  Definition mat_wf (m : list (list nat)) : Prop :=
    forall r, r < length m -> length (nth r m []) = C /\ Forall (fun x => x < K) (nth r m []).

  Definition pssm_wf (pssm : list (list T)) : Prop := Forall (fun row => length row = K) pssm.

  Lemma striped_mat_wf s q :
    0 < K -> Forall (fun x => x < K) s -> Striped s q -> mat_wf (sq_mat q).
  Proof.
    intros HK Hs [_ [_ [Hrow Hcell]]] r Hr. split; [apply Hrow; auto|].
    apply Forall_forall. intros x Hx.
    destruct (In_nth _ _ N Hx) as [c [Hc <-]].
    rewrite Hrow in Hc by auto. rewrite Hcell by auto.
    apply Forall_nth_default; auto. lia.
  Qed.

  Lemma terms_from_shift (pr : list (list T)) f g j :
    (forall j', j <= j' < j + length pr -> f j' = g j') ->
    terms_from zero j pr f = terms_from zero j pr g.
  Proof.
    revert j. induction pr as [|prow rest IH]; intros j H; simpl; auto.
    rewrite H by (simpl; lia). f_equal. apply IH. intros j' Hj. apply H. simpl. lia.
  Qed.

  Lemma terms_from_map (pssm : list (list T)) f :
    forall pr j, j + length pr = length pssm -> pr = skipn j pssm ->
    terms_from zero j pr f = map (fun j' => nth (f j') (nth j' pssm []) zero) (seq j (length pr)).
  Proof.
    induction pr as [|prow rest IH]; intros j Hl Hp; simpl; auto.
    assert (Hj : j < length pssm) by (simpl in Hl; lia).
    destruct (skipn_S_tail pssm j prow rest (eq_sym Hp)) as [Hs Hn].
    assert (Hrow : nth j pssm [] = prow) by (rewrite (nth_indep _ [] prow); auto).
    rewrite Hrow. f_equal. apply IH.
    - simpl in Hl. lia.
    - symmetry. exact Hs.
  Qed.

  Lemma score_terms_map pssm s i :
    score_terms zero N pssm s i =
    map (fun j => nth (nth (i + j) s N) (nth j pssm []) zero) (seq 0 (length pssm)).
  Proof. unfold score_terms. apply (terms_from_map pssm); auto. Qed.

  Lemma terms_from_length j pr f : length (terms_from zero j pr f) = length pr.
  Proof. revert j; induction pr; intros; simpl; auto. Qed.

  (* one cell: the j-loop returns the left-to-right sum of the selected cells *)
  Lemma gen_cell_ok (m : list (list nat)) seq_row col :
    mat_wf m -> col < C ->
    forall pr j acc,
      pssm_wf pr -> seq_row + j + length pr <= length m ->
      gen_cell add pr m seq_row col j acc =
      Ok (fold_left add (terms_from zero j pr (fun j' => nth col (nth (seq_row + j') m []) N)) acc).
  Proof.
    intros Hm Hc. induction pr as [|prow rest IH]; intros j acc Hp Hl; simpl in *; auto.
    inversion Hp as [|? ? Hk Hrest]; subst.
    assert (Hr : seq_row + j < length m) by lia.
    destruct (Hm _ Hr) as [Hlen Hsym].
    rewrite (nth_error_nth' m [] Hr).
    rewrite (nth_error_nth' (nth (seq_row + j) m []) N) by lia.
    assert (Hs : nth col (nth (seq_row + j) m []) N < length prow).
    { rewrite Hk. rewrite Forall_forall in Hsym. apply Hsym. apply nth_In. lia. }
    rewrite (nth_error_nth' prow zero Hs).
    rewrite IH; auto. lia.
  Qed.

  Lemma gen_cell_ok_or_panic (m : list (list nat)) seq_row col :
    forall pr j acc, ok_or_panic (gen_cell add pr m seq_row col j acc).
  Proof.
    induction pr as [|prow rest IH]; intros j acc; simpl; auto.
    destruct (nth_error m (seq_row + j)); simpl; auto.
    destruct (nth_error l col); simpl; auto.
    destruct (nth_error prow n); simpl; auto.
  Qed.

  (* the row index runs past the matrix: the cell panics *)
  Lemma gen_cell_panic (m : list (list nat)) seq_row col :
    mat_wf m -> col < C ->
    forall pr j acc,
      pssm_wf pr -> 1 <= length pr -> length m < seq_row + j + length pr ->
      is_panic (gen_cell add pr m seq_row col j acc) = true.
  Proof.
    intros Hm Hc. induction pr as [|prow rest IH]; intros j acc Hp H1 Hl; simpl in *; [lia|].
    inversion Hp as [|? ? Hk Hrest]; subst.
    destruct (le_lt_dec (length m) (seq_row + j)) as [Hge|Hr].
    - apply nth_error_None in Hge. rewrite Hge. reflexivity.
    - destruct (Hm _ Hr) as [Hlen Hsym].
      rewrite (nth_error_nth' m [] Hr).
      rewrite (nth_error_nth' (nth (seq_row + j) m []) N) by lia.
      assert (Hs : nth col (nth (seq_row + j) m []) N < length prow).
      { rewrite Hk. rewrite Forall_forall in Hsym. apply Hsym. apply nth_In. lia. }
      rewrite (nth_error_nth' prow zero Hs).
      apply IH; auto; destruct rest; simpl in *; lia.
  Qed.

  Definition cell_of (pssm : list (list T)) (m : list (list nat)) (r c : nat) : T :=
    fold_left add (terms_from zero 0 pssm (fun j => nth c (nth (r + j) m []) N)) zero.

  Lemma gen_row_ok pssm m seq_row :
    mat_wf m -> pssm_wf pssm -> seq_row + length pssm <= length m ->
    gen_row add zero C pssm m seq_row = Ok (map (cell_of pssm m seq_row) (seq 0 C)).
  Proof.
    intros Hm Hp Hl. unfold gen_row. apply mapM_ok. intros col Hc. apply in_seq in Hc.
    rewrite gen_cell_ok; auto; lia.
  Qed.

  Lemma gen_row_ok_or_panic pssm m seq_row : ok_or_panic (gen_row add zero C pssm m seq_row).
  Proof.
    unfold gen_row. generalize (seq 0 C). induction l as [|c r IH]; simpl; auto.
    pose proof (gen_cell_ok_or_panic m seq_row c pssm 0 zero) as H.
    destruct (gen_cell add pssm m seq_row c 0 zero); simpl in *; try tauto.
    destruct (mapM _ r); simpl in *; tauto.
  Qed.

  Lemma gen_row_panic pssm m seq_row :
    0 < C -> mat_wf m -> pssm_wf pssm -> 1 <= length pssm -> length m < seq_row + length pssm ->
    is_panic (gen_row add zero C pssm m seq_row) = true.
  Proof.
    intros HC Hm Hp H1 Hl. unfold gen_row. apply mapM_panic.
    - intros c _. apply gen_cell_ok_or_panic.
    - exists 0. split; [apply in_seq; lia|]. apply gen_cell_panic; auto. lia.
  Qed.

  (* closed form of a successful generic call on any well-formed matrix *)
  Lemma generic_rows_into_ok pssm q a b old :
    mat_wf (sq_mat q) -> pssm_wf pssm ->
    length pssm <= sq_len q -> a < b -> b + length pssm - 1 <= length (sq_mat q) -> 1 <= length pssm ->
    generic_rows_into add zero C pssm q a b old =
    Ok (mkScores (map (fun r => map (cell_of pssm (sq_mat q) r) (seq 0 C)) (seq a (b - a)))
                 (sq_len q + 1 - length pssm)).
  Proof.
    intros Hm Hp HL Hab Hb HM. unfold generic_rows_into.
    replace (sq_len q <? length pssm) with false by (symmetry; apply Nat.ltb_ge; lia).
    replace (a <? b) with true by (symmetry; apply Nat.ltb_lt; lia). simpl.
    rewrite (rows_update_all _ (fun i _ => map (cell_of pssm (sq_mat q) i) (seq 0 C))).
    - simpl. f_equal. f_equal.
      set (buf := m_resize _ _ _).
      assert (Hl : length buf = length (seq a (b - a))) by (unfold buf; rewrite m_resize_length, seq_length; auto).
      clearbody buf. revert buf Hl. generalize (seq a (b - a)).
      induction l as [|x r IH]; intros [|y buf] Hl; simpl in *; try discriminate; auto.
      f_equal. apply IH. lia.
    - rewrite m_resize_length, seq_length. reflexivity.
    - intros j Hj. rewrite seq_length in Hj. rewrite seq_nth by auto.
      apply gen_row_ok; auto. lia.
  Qed.

  (* the generic kernel panics exactly when the range needs rows past the matrix *)
  Lemma generic_rows_into_panic pssm q a b old :
    0 < C -> mat_wf (sq_mat q) -> pssm_wf pssm ->
    length pssm <= sq_len q -> a < b -> length (sq_mat q) < b + length pssm - 1 -> 1 <= length pssm ->
    is_panic (generic_rows_into add zero C pssm q a b old) = true.
  Proof.
    intros HC Hm Hp HL Hab Hb HM. unfold generic_rows_into.
    replace (sq_len q <? length pssm) with false by (symmetry; apply Nat.ltb_ge; lia).
    replace (a <? b) with true by (symmetry; apply Nat.ltb_lt; lia). simpl.
    assert (H : is_panic (rows_update (fun i _ => gen_row add zero C pssm (sq_mat q) i) 0 (seq a (b - a))
                   (m_resize (repeat zero C) (sc_mat old) (b - a))) = true).
    { apply rows_update_panic.
      - rewrite m_resize_length, seq_length. lia.
      - intros i o _. apply gen_row_ok_or_panic.
      - exists (b - 1). split; [apply in_seq; lia|]. intros _. apply gen_row_panic; auto. lia. }
    destruct (rows_update _ _ _ _); simpl in *; auto; discriminate.
  Qed.

  Lemma generic_rows_into_empty pssm q a b old :
    sq_len q < length pssm \/ b <= a ->
    generic_rows_into add zero C pssm q a b old = Ok (mkScores [] 0).
  Proof.
    intros H. unfold generic_rows_into.
    replace ((sq_len q <? length pssm) || negb (a <? b)) with true.
    - unfold sc_resize, m_resize. simpl. reflexivity.
    - symmetry. apply orb_true_iff. destruct H as [H|H].
      + left. apply Nat.ltb_lt. auto.
      + right. apply negb_true_iff. apply Nat.ltb_ge. auto.
  Qed.

  (* ---------- striped sequences ---------- *)

  Lemma striped_cell_of pssm s q r c :
    Striped s q -> c < C -> r + length pssm <= length (sq_mat q) ->
    cell_of pssm (sq_mat q) r c = score_def pssm s (c * seq_R (length s) + r).
  Proof.
    intros [_ [_ [_ Hcell]]] Hc Hr. unfold cell_of, ScoreModel.score_def, score_terms.
    f_equal. apply terms_from_shift. intros j Hj. rewrite Hcell by (auto; lia).
    f_equal. lia.
  Qed.

  Lemma seq_R_bound L : 0 < C -> L <= seq_R L * C /\ (0 < L -> 0 < seq_R L).
  Proof.
    intros HC. unfold ScoreModel.seq_R.
    pose proof (Nat.div_mod (L + (C - 1)) C ltac:(lia)) as E.
    pose proof (Nat.mod_upper_bound (L + (C - 1)) C ltac:(lia)) as B.
    split; [nia|]. intros HL.
    destruct ((L + (C - 1)) / C) eqn:D; [|lia]. nia.
  Qed.

  Lemma div_mod_cell R i : 0 < R -> (i / R) * R + i mod R = i.
  Proof. intros HR. pose proof (Nat.div_mod i R ltac:(lia)). lia. Qed.

  (* full scan of a striped sequence *)
  Lemma generic_score_striped pssm s q :
    0 < C -> 0 < K -> Forall (fun x => x < K) s -> pssm_wf pssm -> Striped s q ->
    1 <= length pssm -> length pssm - 1 <= sq_wrap q -> length pssm <= length s ->
    generic_score add zero C pssm q =
    Ok (mkScores (map (fun r => map (fun c => score_def pssm s (c * seq_R (length s) + r)) (seq 0 C))
                      (seq 0 (seq_R (length s))))
                 (length s + 1 - length pssm)).
  Proof.
    intros HC HK Hs Hp Hst HM Hw HL.
    pose proof (striped_mat_wf s q HK Hs Hst) as Hm.
    destruct Hst as [Hlen [Hrows Hrest]].
    unfold generic_score, score_with, score_into, seq_rows.
    replace (length (sq_mat q) <? sq_wrap q) with false by (symmetry; apply Nat.ltb_ge; lia).
    simpl. rewrite Hrows. replace (seq_R (length s) + sq_wrap q - sq_wrap q) with (seq_R (length s)) by lia.
    destruct (seq_R_bound (length s) HC) as [_ HRpos].
    rewrite generic_rows_into_ok; auto; try lia.
    - rewrite Hlen. f_equal. f_equal. rewrite Nat.sub_0_r.
      apply map_ext_in. intros r Hr. apply in_seq in Hr.
      apply map_ext_in. intros c Hc. apply in_seq in Hc.
      apply striped_cell_of; [repeat split; auto; apply Hrest| lia | lia].
  Qed.

  Lemma generic_score_short pssm s q :
    Striped s q -> length s < length pssm ->
    generic_score add zero C pssm q = Ok (mkScores [] 0).
  Proof.
    intros [Hlen [Hrows _]] HL. unfold generic_score, score_with, score_into, seq_rows.
    replace (length (sq_mat q) <? sq_wrap q) with false by (symmetry; apply Nat.ltb_ge; lia).
    simpl. apply generic_rows_into_empty. left. lia.
  Qed.

  (* a call on a sub-range of rows (possibly reaching into the look-ahead rows) *)
  Lemma generic_rows_striped pssm s q a b old :
    0 < C -> 0 < K -> Forall (fun x => x < K) s -> pssm_wf pssm -> Striped s q ->
    1 <= length pssm -> length pssm <= length s ->
    a < b -> b + length pssm - 1 <= length (sq_mat q) ->
    generic_rows_into add zero C pssm q a b old =
    Ok (mkScores (map (fun r => map (fun c => score_def pssm s (c * seq_R (length s) + r)) (seq 0 C))
                      (seq a (b - a)))
                 (length s + 1 - length pssm)).
  Proof.
    intros HC HK Hs Hp Hst HM HL Hab Hb.
    pose proof (striped_mat_wf s q HK Hs Hst) as Hm.
    pose proof Hst as [Hlen [Hrows Hrest]].
    rewrite generic_rows_into_ok; auto; try lia.
    rewrite Hlen. f_equal. f_equal.
    apply map_ext_in. intros r Hr. apply in_seq in Hr.
    apply map_ext_in. intros c Hc. apply in_seq in Hc.
    apply striped_cell_of; auto; lia.
  Qed.

  (* ---------- unstripe / Index ---------- *)

  Definition full_mat (pssm : list (list T)) (s : list nat) : list (list T) :=
    map (fun r => map (fun c => score_def pssm s (c * seq_R (length s) + r)) (seq 0 C))
        (seq 0 (seq_R (length s))).

  Lemma full_mat_length pssm s : length (full_mat pssm s) = seq_R (length s).
  Proof. unfold full_mat. rewrite map_length, seq_length. reflexivity. Qed.

  Lemma full_mat_cell pssm s r c :
    r < seq_R (length s) -> c < C ->
    nth c (nth r (full_mat pssm s) []) zero = score_def pssm s (c * seq_R (length s) + r).
  Proof.
    intros Hr Hc. unfold full_mat.
    rewrite (map_nth_in _ _ _ 0) by (rewrite seq_length; auto).
    rewrite seq_nth by auto. simpl.
    rewrite (map_nth_in _ _ _ 0) by (rewrite seq_length; auto).
    rewrite seq_nth by auto. reflexivity.
  Qed.

  Lemma sc_get_full pssm s maxi i :
    0 < C -> i < seq_R (length s) * C ->
    sc_get (mkScores (full_mat pssm s) maxi) i = Ok (score_def pssm s i).
  Proof.
    intros HC Hi. unfold sc_get. cbn [sc_mat]. rewrite full_mat_length.
    set (R := seq_R (length s)) in *.
    assert (HR : 0 < R) by (destruct R; lia).
    replace (R =? 0) with false by (symmetry; apply Nat.eqb_neq; lia).
    assert (Hm : i mod R < R) by (apply Nat.mod_upper_bound; lia).
    assert (Hd : i / R < C) by (apply Nat.div_lt_upper_bound; lia).
    rewrite (nth_error_nth' _ []) by (rewrite full_mat_length; auto).
    assert (Hrl : length (nth (i mod R) (full_mat pssm s) []) = C).
    { unfold full_mat. fold R.
      rewrite (map_nth_in _ _ _ 0) by (rewrite seq_length; auto).
      rewrite map_length, seq_length. reflexivity. }
    rewrite (nth_error_nth' _ zero) by lia.
    rewrite full_mat_cell; auto. fold R. rewrite div_mod_cell; auto.
  Qed.

  Lemma sc_get_full_out pssm s maxi i :
    0 < C -> seq_R (length s) * C <= i ->
    is_panic (sc_get (mkScores (full_mat pssm s) maxi) i) = true.
  Proof.
    intros HC Hi. unfold sc_get. cbn [sc_mat]. rewrite full_mat_length.
    set (R := seq_R (length s)) in *.
    destruct (Nat.eqb_spec R 0) as [E|E]; [reflexivity|].
    assert (Hm : i mod R < R) by (apply Nat.mod_upper_bound; lia).
    assert (Hd : C <= i / R) by (apply Nat.div_le_lower_bound; lia).
    rewrite (nth_error_nth' _ []) by (rewrite full_mat_length; auto).
    assert (Hrl : length (nth (i mod R) (full_mat pssm s) []) = C).
    { unfold full_mat. fold R.
      rewrite (map_nth_in _ _ _ 0) by (rewrite seq_length; auto).
      rewrite map_length, seq_length. reflexivity. }
    assert (En : nth_error (nth (i mod R) (full_mat pssm s) []) (i / R) = None).
    { apply nth_error_None. lia. }
    rewrite En. reflexivity.
  Qed.

  (* any interleaving of next / next_back on the iterator of a full scan *)
  Lemma iter_run_full pssm s maxi ops :
    0 < C -> forall lo hi, hi <= seq_R (length s) * C ->
    sc_iter_run (mkScores (full_mat pssm s) maxi) ops lo hi = Ok (iter_spec (score_def pssm s) ops lo hi).
  Proof.
    intros HC. induction ops as [|back r IH]; intros lo hi Hhi; cbn [sc_iter_run iter_spec]; auto.
    destruct (Nat.ltb_spec lo hi) as [Hlt|Hge].
    - rewrite sc_get_full by (auto; destruct back; lia). cbn [rbind].
      rewrite IH by (destruct back; lia). reflexivity.
    - rewrite IH by auto. reflexivity.
  Qed.

  Lemma iter_spec_front (f : nat -> T) : forall n lo hi, lo + n <= hi ->
    iter_spec f (repeat false n) lo hi = map (fun i => Some (f i)) (seq lo n).
  Proof.
    induction n as [|n IH]; intros lo hi H; cbn [repeat iter_spec seq map]; auto.
    replace (lo <? hi) with true by (symmetry; apply Nat.ltb_lt; lia).
    rewrite IH by lia. reflexivity.
  Qed.

  Lemma iter_spec_back (f : nat -> T) : forall n lo hi, lo + n <= hi ->
    iter_spec f (repeat true n) lo hi = map (fun i => Some (f (hi - 1 - i))) (seq 0 n).
  Proof.
    induction n as [|n IH]; intros lo hi H; cbn [repeat iter_spec seq map]; auto.
    replace (lo <? hi) with true by (symmetry; apply Nat.ltb_lt; lia).
    rewrite IH by lia. rewrite Nat.sub_0_r. f_equal.
    rewrite <- seq_shift, map_map. apply map_ext. intros i. do 2 f_equal. lia.
  Qed.

  Lemma unstripe_full pssm s :
    0 < C -> 1 <= length pssm ->
    sc_unstripe C (mkScores (full_mat pssm s) (length s + 1 - length pssm)) =
    Ok (map (score_def pssm s) (seq 0 (length s + 1 - length pssm))).
  Proof.
    intros HC HM. unfold sc_unstripe. cbn [sc_mat sc_max]. rewrite full_mat_length.
    destruct (seq_R_bound (length s) HC) as [HB _].
    rewrite Nat.min_l by lia.
    apply mapM_ok. intros i Hi. apply in_seq in Hi. apply sc_get_full; auto. lia.
  Qed.

  (* ---------- score_position ---------- *)

  Lemma sq_index_striped s q i :
    0 < C -> Striped s q -> i < seq_R (length s) * C ->
    sq_index q i = Ok (nth i s N).
  Proof.
    intros HC [Hlen [Hrows [Hrl Hcell]]] Hi. unfold sq_index, seq_rows.
    replace (length (sq_mat q) <? sq_wrap q) with false by (symmetry; apply Nat.ltb_ge; lia).
    simpl. rewrite Hrows.
    replace (seq_R (length s) + sq_wrap q - sq_wrap q) with (seq_R (length s)) by lia.
    set (R := seq_R (length s)) in *.
    assert (HR : 0 < R) by (destruct R; lia).
    replace (R =? 0) with false by (symmetry; apply Nat.eqb_neq; lia).
    assert (Hm : i mod R < R) by (apply Nat.mod_upper_bound; lia).
    assert (Hd : i / R < C) by (apply Nat.div_lt_upper_bound; lia).
    rewrite (nth_error_nth' _ []) by lia.
    rewrite (nth_error_nth' _ N) by (rewrite Hrl; lia).
    rewrite Hcell by lia. rewrite div_mod_cell; auto.
  Qed.

  Lemma score_position_go_ok s q pos :
    0 < C -> 0 < K -> Forall (fun x => x < K) s -> Striped s q ->
    forall pr j acc,
      pssm_wf pr -> pos + j + length pr <= seq_R (length s) * C ->
      score_position_go add pr q pos j acc =
      Ok (fold_left add (terms_from zero j pr (fun j' => nth (pos + j') s N)) acc).
  Proof.
    intros HC HK Hs Hst. induction pr as [|prow rest IH]; intros j acc Hp Hl; simpl in *; auto.
    inversion Hp as [|? ? Hk Hrest]; subst.
    rewrite (sq_index_striped s q) by (auto; lia). simpl.
    assert (Hsym : nth (pos + j) s N < length prow).
    { rewrite Hk. apply Forall_nth_default; auto. lia. }
    rewrite (nth_error_nth' prow zero Hsym). apply IH; auto. lia.
  Qed.

  Lemma score_position_striped pssm s q pos :
    0 < C -> 0 < K -> Forall (fun x => x < K) s -> pssm_wf pssm -> Striped s q ->
    pos + length pssm <= seq_R (length s) * C ->
    score_position add zero pssm q pos = Ok (score_def pssm s pos).
  Proof.
    intros HC HK Hs Hp Hst Hl. unfold score_position.
    rewrite (score_position_go_ok s q pos); auto. lia.
  Qed.

  (* ---------- the executable Striped check ---------- *)

  Lemma striped_b_sound s q : striped_b C N s q = true -> Striped s q.
  Proof.
    unfold striped_b, ScoreModel.Striped. intros H.
    apply andb_true_iff in H. destruct H as [H H3].
    apply andb_true_iff in H. destruct H as [H1 H2].
    apply Nat.eqb_eq in H1. apply Nat.eqb_eq in H2.
    rewrite forallb_forall in H3.
    assert (Hrow : forall r, r < length (sq_mat q) ->
              length (nth r (sq_mat q) []) = C /\
              forall c, c < C -> nth c (nth r (sq_mat q) []) N = nth (c * seq_R (length s) + r) s N).
    { intros r Hr.
      specialize (H3 (r, nth r (sq_mat q) [])).
      assert (Hin : In (r, nth r (sq_mat q) []) (combine (seq 0 (length (sq_mat q))) (sq_mat q))).
      { replace (r, nth r (sq_mat q) []) with (nth r (combine (seq 0 (length (sq_mat q))) (sq_mat q)) (0, [])).
        - apply nth_In. rewrite combine_length, seq_length. lia.
        - rewrite combine_nth by (rewrite seq_length; auto). rewrite seq_nth by auto. reflexivity. }
      specialize (H3 Hin). cbn [fst snd] in H3.
      apply andb_true_iff in H3. destruct H3 as [Hl Hc]. apply Nat.eqb_eq in Hl.
      split; auto. intros c Hc'. rewrite forallb_forall in Hc.
      specialize (Hc (c, nth c (nth r (sq_mat q) []) N)).
      assert (Hin2 : In (c, nth c (nth r (sq_mat q) []) N) (combine (seq 0 C) (nth r (sq_mat q) []))).
      { replace (c, nth c (nth r (sq_mat q) []) N) with (nth c (combine (seq 0 C) (nth r (sq_mat q) [])) (0, N)).
        - apply nth_In. rewrite combine_length, seq_length. lia.
        - rewrite combine_nth by (rewrite seq_length; auto). rewrite seq_nth by auto. reflexivity. }
      specialize (Hc Hin2). cbn [fst snd] in Hc. apply Nat.eqb_eq in Hc. exact Hc. }
    repeat split; auto.
    - intros r Hr. apply Hrow; auto.
    - intros r c Hr Hc. apply Hrow; auto.
  Qed.

  (* the hypothesis [Striped] is satisfiable for every sequence and every wrap *)
  Lemma stripe_of_striped s w : Striped s (stripe_of C N s w).
  Proof.
    unfold ScoreModel.Striped, stripe_of. cbn [sq_len sq_wrap sq_mat].
    rewrite map_length, seq_length. repeat split; auto.
    - intros r Hr. rewrite (map_nth_in _ _ _ 0) by (rewrite seq_length; auto).
      rewrite map_length, seq_length. reflexivity.
    - intros r c Hr Hc. rewrite (map_nth_in _ _ _ 0) by (rewrite seq_length; auto).
      rewrite seq_nth by auto. cbn [Nat.add].
      rewrite (map_nth_in _ _ _ 0) by (rewrite seq_length; auto).
      rewrite seq_nth by auto. reflexivity.
  Qed.

End Generic.

(* ---------- presentation lemmas used by C01.v ---------- *)

Section Present.
  Context {T : Type}.
  Variable add : T -> T -> T.
  Variable zero : T.
  Variable C : nat.
  Variable K : nat.

  Notation N := (K - 1).

  Lemma score_def_fold pssm s i :
    score_def add zero N pssm s i =
    fold_left add (map (fun j => nth (nth (i + j) s N) (nth j pssm []) zero) (seq 0 (length pssm))) zero.
  Proof. unfold score_def. rewrite (score_terms_map zero K). reflexivity. Qed.

  Lemma sub_rows_map {A} (f : nat -> A) R a b :
    a <= b -> b <= R ->
    firstn (b - a) (skipn a (map f (seq 0 R))) = map f (seq a (b - a)).
  Proof.
    intros Hab Hb.
    assert (Hl : length (firstn (b - a) (skipn a (map f (seq 0 R)))) = b - a).
    { rewrite firstn_length, skipn_length, map_length, seq_length. lia. }
    destruct (Nat.eq_dec (b - a) 0) as [E|E].
    - rewrite E. reflexivity.
    - apply (nth_ext_len _ _ (f 0)).
      + rewrite Hl, map_length, seq_length. reflexivity.
      + intros i Hi. rewrite Hl in Hi.
        rewrite nth_firstn_lt by auto. rewrite nth_skipn.
        rewrite (map_nth_in _ _ _ 0) by (rewrite seq_length; lia).
        rewrite (map_nth_in _ _ _ 0) by (rewrite seq_length; lia).
        rewrite !seq_nth by lia. reflexivity.
  Qed.
End Present.
