(* Property C01, continued: composition with the striping model of property C04
   (coq/stripe).  Kept in its own file because it is the only part of the development
   that depends on another model group. *)
From Coq Require Import List Arith Bool Lia ZArith.
From LMBase Require Import Res ListX IEEE.
From LMScore Require Import ScoreModel SimdModel GenAvx2 GenLane4 ScoreProofs SimdProofs Sse2Proofs
     ReadmeExample StripeBridge ScorePadModel ScorePad StripePadBridge C01.
From LMStripe Require NetModel StripeModel StripeAvx2 StripeSpec PadModel PadProofs PadHistory PliT Mode Avx2Proofs C04.
Import ListNotations.

(* Composition with the striping model of property C04 (coq/stripe): the hypothesis
   [Striped] is discharged for the state reached by ANY history of stripe / stripe_into /
   configure / configure_wrap calls (any pipelines that exist for C) starting from
   StripedSequence::default().  s = the sequence striped last; the history must have left
   at least M - 1 look-ahead rows (e.g. by a final configure(&pssm)). *)

Theorem C01_history_scan :
  forall (T : Type) (add : T -> T -> T) (zero : T) (K C : nat)
         (ops : list LMStripe.StripeAvx2.op) (pssm : list (list T)),
    0 < C -> 0 < K -> forallb (LMStripe.StripeAvx2.op_typed C) ops = true ->
    Forall (fun x => x < K) (LMStripe.StripeAvx2.last_seq [] ops) ->
    pssm_wf K pssm -> 1 <= length pssm ->
    length pssm - 1 <= LMStripe.StripeAvx2.wrap_after 0 ops ->
    exists st,
      LMStripe.StripeAvx2.run K C LMStripe.StripeModel.s_default ops = Ok st /\
      rbind (generic_score add zero C pssm (of_stripe st)) (sc_unstripe C) =
      Ok (map (score_def add zero (K - 1) pssm (LMStripe.StripeAvx2.last_seq [] ops))
              (seq 0 (length (LMStripe.StripeAvx2.last_seq [] ops) + 1 - length pssm))).
Proof.
  intros T add zero K C ops pssm HC HK Ht Hs Hp HM Hw.
  destruct (history_striped K C ops HC Ht) as [st [Hrun [Hst Hwrap]]].
  exists st. split; [exact Hrun|].
  apply (C01_score_unstripe T add zero C K pssm _ (of_stripe st)); auto.
  rewrite Hwrap. exact Hw.
Qed.

Theorem C01_history_backends :
  forall (K : nat) (ops : list LMStripe.StripeAvx2.op) (pssm : list (list f32))
         (pads : nat -> list f32) (ar : arm),
    0 < K -> forallb (LMStripe.StripeAvx2.op_typed 32) ops = true ->
    Forall (fun x => x < K) (LMStripe.StripeAvx2.last_seq [] ops) ->
    pssm_wf K pssm -> 1 <= length pssm ->
    length pssm - 1 <= LMStripe.StripeAvx2.wrap_after 0 ops ->
    length pssm <= length (LMStripe.StripeAvx2.last_seq [] ops) ->
    exists st sc,
      LMStripe.StripeAvx2.run K 32 LMStripe.StripeModel.s_default ops = Ok st /\
      generic_score F32.add F32.zero 32 pssm (of_stripe st) = Ok sc /\
      score_with (avx2_rows_into F32.add F32.zero avx2_permute_consts avx2_gather_consts K pssm pads)
                 (of_stripe st) = Ok sc /\
      score_with (sse2_rows_into F32.add F32.zero sse2_consts 32 pssm) (of_stripe st) = Ok sc /\
      score_with (dispatch_rows_into F32.add F32.zero dispatch_score_f32 avx2_permute_consts
                                     avx2_gather_consts sse2_consts K pssm pads ar) (of_stripe st) = Ok sc /\
      rbind (Ok sc) (sc_unstripe 32) =
      Ok (map (score_def F32.add F32.zero (K - 1) pssm (LMStripe.StripeAvx2.last_seq [] ops))
              (seq 0 (length (LMStripe.StripeAvx2.last_seq [] ops) + 1 - length pssm))).
Proof.
  intros K ops pssm pads ar HK Ht Hs Hp HM Hw HL.
  destruct (history_striped K 32 ops ltac:(lia) Ht) as [st [Hrun [Hst Hwrap]]].
  rewrite <- Hwrap in Hw.
  destruct (C01_backends_full_scan K pssm pads _ (of_stripe st) ar HK Hs Hp Hst HM Hw HL)
    as [sc [E1 [E2 [E3 [E4 _]]]]].
  exists st, sc. repeat split; auto.
  rewrite <- E1.
  apply (C01_score_unstripe f32 F32.add F32.zero 32 K pssm _ (of_stripe st)); auto. lia.
Qed.


(* ---------- round 3, wave 3 (review finding 4): the bridge itself, audited ---------- *)

(* any history of stripe / stripe_into / configure / configure_wrap calls of the C04 model from
   StripedSequence::default(): never fails; the state satisfies [Striped] for the sequence striped
   last; its wrap is what the configure calls since then demand.  (Was the unaudited lemma
   StripeBridge.history_striped; every `Striped C (K-1) s q` hypothesis of C01.v can be discharged
   with it, not only the two full-scan compositions above.) *)
Theorem C01_history_striped :
  forall (K C : nat) (ops : list LMStripe.StripeAvx2.op),
    0 < C -> forallb (LMStripe.StripeAvx2.op_typed C) ops = true ->
    exists st,
      LMStripe.StripeAvx2.run K C LMStripe.StripeModel.s_default ops = Ok st /\
      Striped C (K - 1) (LMStripe.StripeAvx2.last_seq [] ops) (of_stripe st) /\
      sq_wrap (of_stripe st) = LMStripe.StripeAvx2.wrap_after 0 ops.
Proof. exact history_striped. Qed.

(* ... starting from ANY buffer (stale contents, stale len / wrap) when the history begins with a stripe_into *)
Theorem C01_history_striped_stale_start :
  forall (K C : nat) (b : LMStripe.StripeAvx2.backend) (s0 : list nat)
         (ops : list LMStripe.StripeAvx2.op) (old : LMStripe.StripeModel.sseq),
    0 < C -> LMStripe.StripeSpec.wf_matrix C (LMStripe.StripeModel.mat old) ->
    forallb (LMStripe.StripeAvx2.op_typed C) (LMStripe.StripeAvx2.OStripeInto b s0 :: ops) = true ->
    exists st,
      LMStripe.StripeAvx2.run K C old (LMStripe.StripeAvx2.OStripeInto b s0 :: ops) = Ok st /\
      Striped C (K - 1) (LMStripe.StripeAvx2.last_seq s0 ops) (of_stripe st) /\
      sq_wrap (of_stripe st) = LMStripe.StripeAvx2.wrap_after 0 ops.
Proof.
  intros K C b s0 ops old HC Hwf Ht.
  destruct (LMStripe.C04.C04_history_stale_start K C b s0 ops old HC Hwf Ht) as [st [Hrun [Hst Hw]]].
  exists st. split; [exact Hrun|]. split; [apply striped_bridge; exact Hst|exact Hw].
Qed.

(* ---------- padded states: histories that contain StripedSequence::sample / ::new ---------- *)

(* [StripedPad] of C04 is [Padded] of C01 *)
Theorem C01_padded_bridge :
  forall (K C : nat) (s : list nat) (st : LMStripe.StripeModel.sseq),
    LMStripe.PadProofs.StripedPad K C s st -> Padded C (K - 1) s (of_stripe st).
Proof. exact padded_bridge. Qed.

(* After ANY history mixing sample / new / stripe / stripe_into / configure / configure_wrap (C04's
   run2, from any padded state, e.g. StripedSequence::default()): never fails, and a scan of the final
   state with a motif it is configured for unstripes to exactly L - M + 1 defined scores of the
   sequence the buffer then holds -- whatever the padding holds.  (mat_wf: every cell is a symbol;
   the draws of `sample` and the matrix given to `new` are typed A::Symbol in the code, plain nat in
   C04's model.) *)
Theorem C01_pad_history_scan :
  forall (T : Type) (add : T -> T -> T) (zero : T) (K C : nat)
         (ops : list LMStripe.PadHistory.op2) (s : list nat) (st : LMStripe.StripeModel.sseq)
         (pssm : list (list T)),
    0 < C -> LMStripe.PadProofs.StripedPad K C s st ->
    forallb (LMStripe.PadHistory.op2_ok C) ops = true ->
    exists st',
      LMStripe.PadHistory.run2 K C st ops = Ok st' /\
      Padded C (K - 1) (LMStripe.PadHistory.seq_after K C s ops) (of_stripe st') /\
      (mat_wf C K (sq_mat (of_stripe st')) -> pssm_wf K pssm ->
       1 <= length pssm -> length pssm - 1 <= sq_wrap (of_stripe st') ->
       rbind (generic_score add zero C pssm (of_stripe st')) (sc_unstripe C) =
       Ok (map (score_def add zero (K - 1) pssm (LMStripe.PadHistory.seq_after K C s ops))
               (seq 0 (length (LMStripe.PadHistory.seq_after K C s ops) + 1 - length pssm)))).
Proof.
  intros T add zero K C ops s st pssm HC Hpad Hok.
  destruct (LMStripe.C04.C04_pad_history K C ops s st HC Hpad Hok) as [st' [Hrun Hpad']].
  exists st'. split; [exact Hrun|].
  pose proof (padded_bridge K C _ st' Hpad') as HP. split; [exact HP|].
  intros Hm Hp HM Hw.
  exact (C01_score_unstripe_padded T add zero C K pssm _ (of_stripe st') HC Hm Hp HP HM Hw).
Qed.

(* ... and on every pipeline (binary32, 32 columns) *)
Theorem C01_pad_history_backends :
  forall (K : nat) (ops : list LMStripe.PadHistory.op2) (s : list nat) (st : LMStripe.StripeModel.sseq)
         (pssm : list (list f32)) (pads : nat -> list f32) (ar : arm),
    LMStripe.PadProofs.StripedPad K 32 s st ->
    forallb (LMStripe.PadHistory.op2_ok 32) ops = true ->
    exists st',
      LMStripe.PadHistory.run2 K 32 st ops = Ok st' /\
      (mat_wf 32 K (sq_mat (of_stripe st')) -> pssm_wf K pssm ->
       1 <= length pssm -> length pssm - 1 <= sq_wrap (of_stripe st') -> (Z.of_nat (length pssm) <= 2 ^ 23)%Z ->
       exists sc vals,
         generic_score F32.add F32.zero 32 pssm (of_stripe st') = Ok sc /\
         score_with (avx2_rows_into F32.add F32.zero avx2_permute_consts avx2_gather_consts K pssm pads)
                    (of_stripe st') = Ok sc /\
         score_with (sse2_rows_into F32.add F32.zero sse2_consts 32 pssm) (of_stripe st') = Ok sc /\
         score_with (dispatch_rows_into F32.add F32.zero dispatch_score_f32 avx2_permute_consts
                                        avx2_gather_consts sse2_consts K pssm pads ar) (of_stripe st') = Ok sc /\
         sc_unstripe 32 sc = Ok vals /\
         vals = map (score_def F32.add F32.zero (K - 1) pssm (LMStripe.PadHistory.seq_after K 32 s ops))
                    (seq 0 (length (LMStripe.PadHistory.seq_after K 32 s ops) + 1 - length pssm))).
Proof.
  intros K ops s st pssm pads ar Hpad Hok.
  destruct (LMStripe.C04.C04_pad_history K 32 ops s st ltac:(lia) Hpad Hok) as [st' [Hrun Hpad']].
  exists st'. split; [exact Hrun|]. intros Hm Hp HM Hw HM23.
  destruct (C01_every_backend_padded K pssm pads _ (of_stripe st') ar Hm Hp (padded_bridge K 32 _ st' Hpad') HM Hw HM23)
    as [sc [vals [E1 [E2 [E3 [E4 [E5 [E6 _]]]]]]]].
  exists sc, vals. repeat split; auto.
Qed.

(* non-vacuity, on StripedSequence::sample AS IT WAS BEFORE /repo 740d563 (C04's PadHistory.run2 keeps that
   function: the padding cells hold further draws): sample (len = 6, all 8 cells drawn), then configure for
   a 2-column motif, at C = 4: the history is well-formed, runs, and ends in a state that is NOT [Striped]
   (only [Padded]).  The repaired sample pads with the wildcard: see C01_sample_scan / C01_mode_history_scan
   below, where the sampled state satisfies [Striped] itself. *)
Example C01_pad_history_example :
  let ops := [LMStripe.PadHistory.OSample [0; 2; 0; 1; 1; 3; 1; 2] 6;
              LMStripe.PadHistory.O1 (LMStripe.StripeAvx2.OConfigure 2)] in
  forallb (LMStripe.PadHistory.op2_ok 4) ops = true /\
  LMStripe.PadHistory.run2 5 4 LMStripe.StripeModel.s_default ops =
    Ok (LMStripe.StripeModel.mkS [[0; 2; 0; 1]; [1; 3; 1; 2]; [2; 0; 1; 4]] 6 1) /\
  LMStripe.PadHistory.seq_after 5 4 [] ops = [0; 1; 2; 3; 0; 1].
Proof. vm_compute. repeat split; reflexivity. Qed.

(* ---------- StripedSequence::sample as repaired in /repo 740d563, and histories in wildcard mode ---------- *)

(* the repaired sample (C04's PliT.striped_sample_fix, translated from seq.rs) overwrites its padding with
   the wildcard: the sampled state satisfies [Striped] for the drawn sequence, with no look-ahead rows *)
Theorem C01_sample_striped :
  forall (K C : nat) (stream : nat -> nat) (len : nat),
    0 < C ->
    exists st,
      LMStripe.PliT.striped_sample_fix K C stream len = Ok st /\
      Striped C (K - 1) (LMStripe.PadModel.sample_seq C stream len) (of_stripe st) /\
      sq_wrap (of_stripe st) = 0 /\ sq_len (of_stripe st) = len.
Proof.
  intros K C stream len HC.
  destruct (LMStripe.C04.C04_sample_striped K C stream len HC) as [st [E [Hst [Hw [Hl _]]]]].
  exists st. split; [exact E|]. split; [apply striped_bridge; exact Hst|]. split; [exact Hw|exact Hl].
Qed.

(* After ANY history of C04's op3 (sample as repaired, new, stripe, stripe_into, configure, configure_wrap,
   clone, From<EncodedSequence>, DenseMatrix::from + new) from StripedSequence::default() that ends in
   wildcard mode (Mode.pad_after = false: no `new` on a hand-filled matrix since the last stripe / sample):
   never fails, the final state is [Striped] for the sequence the buffer then holds, and a scan with a motif
   it is configured for unstripes to exactly L - M + 1 defined scores. *)
Theorem C01_mode_history_scan :
  forall (T : Type) (add : T -> T -> T) (zero : T) (K C : nat)
         (ops : list LMStripe.PliT.op3) (pssm : list (list T)),
    0 < C -> 0 < K ->
    forallb (LMStripe.PliT.op3_ok C) ops = true ->
    LMStripe.Mode.pad_after K C false LMStripe.StripeModel.s_default ops = false ->
    let s := LMStripe.PliT.seq_after3 K C [] LMStripe.StripeModel.s_default ops in
    exists st',
      LMStripe.PliT.run3 K C LMStripe.StripeModel.s_default ops = Ok st' /\
      Striped C (K - 1) s (of_stripe st') /\
      (Forall (fun x => x < K) s -> pssm_wf K pssm ->
       1 <= length pssm -> length pssm - 1 <= sq_wrap (of_stripe st') ->
       rbind (generic_score add zero C pssm (of_stripe st')) (sc_unstripe C) =
       Ok (map (score_def add zero (K - 1) pssm s) (seq 0 (length s + 1 - length pssm)))).
Proof.
  intros T add zero K C ops pssm HC HK Hok Hmode s.
  destruct (LMStripe.C04.C04_mode_history K C ops [] LMStripe.StripeModel.s_default false HC
              (fun _ => LMStripe.Avx2Proofs.Striped_default K C HC)
              (LMStripe.PadProofs.Striped_StripedPad K C HC [] _ (LMStripe.Avx2Proofs.Striped_default K C HC)) Hok)
    as [st' [Hrun [_ Hst]]].
  exists st'. split; [exact Hrun|].
  pose proof (striped_bridge K C _ st' (Hst Hmode)) as HS. split; [exact HS|].
  intros Hs Hp HM Hw.
  exact (C01_score_unstripe T add zero C K pssm s (of_stripe st') HC HK Hs Hp HS HM Hw).
Qed.

(* non-vacuity: the repaired sample (len = 6 at C = 4, 8 draws), clone, configure for a 2-column motif: the
   history is in wildcard mode, runs, and the padding cells hold the wildcard 4 *)
Example C01_mode_history_example :
  let ops := [LMStripe.PliT.O2 (LMStripe.PadHistory.OSample [0; 2; 0; 1; 1; 3; 1; 2] 6); LMStripe.PliT.OClone;
              LMStripe.PliT.O2 (LMStripe.PadHistory.O1 (LMStripe.StripeAvx2.OConfigure 2))] in
  forallb (LMStripe.PliT.op3_ok 4) ops = true /\
  LMStripe.Mode.pad_after 5 4 false LMStripe.StripeModel.s_default ops = false /\
  LMStripe.PliT.run3 5 4 LMStripe.StripeModel.s_default ops =
    Ok (LMStripe.StripeModel.mkS [[0; 2; 0; 4]; [1; 3; 1; 4]; [2; 0; 4; 4]] 6 1) /\
  LMStripe.PliT.seq_after3 5 4 [] LMStripe.StripeModel.s_default ops = [0; 1; 2; 3; 0; 1].
Proof. vm_compute. repeat split; reflexivity. Qed.

(* the README calls as a history: to_striped() (dispatching pipeline) then configure(&pssm) *)
Example C01_readme_history :
  let ops := [LMStripe.StripeAvx2.OStripe (LMStripe.StripeAvx2.BDispatch LMStripe.NetModel.AAvx2) readme_seq;
              LMStripe.StripeAvx2.OConfigure (length readme_pssm)] in
  forallb (LMStripe.StripeAvx2.op_typed 32) ops = true /\
  LMStripe.StripeAvx2.last_seq [] ops = readme_seq /\
  length readme_pssm - 1 <= LMStripe.StripeAvx2.wrap_after 0 ops /\
  length readme_pssm <= length (LMStripe.StripeAvx2.last_seq [] ops).
Proof. vm_compute. repeat split; lia. Qed.
