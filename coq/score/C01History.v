(* Property C01, continued: composition with the striping model of property C04
   (coq/stripe).  Kept in its own file because it is the only part of the development
   that depends on another model group. *)
From Coq Require Import List Arith Bool Lia ZArith.
From LMBase Require Import Res ListX IEEE.
From LMScore Require Import ScoreModel SimdModel GenAvx2 GenLane4 ScoreProofs SimdProofs Sse2Proofs
     ReadmeExample StripeBridge C01.
From LMStripe Require NetModel StripeModel StripeAvx2.
Import ListNotations.

(* Composition with the striping model of property C04 (coq/stripe): the hypothesis
   [Striped] is discharged for the state reached by ANY history of stripe / stripe_into /
   configure / configure_wrap calls (any pipelines that exist for C) starting from
   StripedSequence::default().  s = the sequence striped last; the history must have left
   at least M - 1 look-ahead rows (e.g. by a final configure(&pssm)). *)

Theorem C01_history_scan :
  forall (T : Type) (add : T -> T -> T) (zero : T) (K C : nat)
         (ops : list LMStripe.StripeAvx2.op) (pssm : list (list T)),
    0 < C -> 0 < K -> forallb (LMStripe.StripeAvx2.op_typed C) ops = true ->
    Forall (fun x => x < K) (LMStripe.StripeAvx2.last_seq [] ops) ->
    pssm_wf K pssm -> 1 <= length pssm ->
    length pssm - 1 <= LMStripe.StripeAvx2.wrap_after 0 ops ->
    exists st,
      LMStripe.StripeAvx2.run K C LMStripe.StripeModel.s_default ops = Ok st /\
      rbind (generic_score add zero C pssm (of_stripe st)) (sc_unstripe C) =
      Ok (map (score_def add zero (K - 1) pssm (LMStripe.StripeAvx2.last_seq [] ops))
              (seq 0 (length (LMStripe.StripeAvx2.last_seq [] ops) + 1 - length pssm))).
Proof.
  intros T add zero K C ops pssm HC HK Ht Hs Hp HM Hw.
  destruct (history_striped K C ops HC Ht) as [st [Hrun [Hst Hwrap]]].
  exists st. split; [exact Hrun|].
  apply (C01_score_unstripe T add zero C K pssm _ (of_stripe st)); auto.
  rewrite Hwrap. exact Hw.
Qed.

Theorem C01_history_backends :
  forall (K : nat) (ops : list LMStripe.StripeAvx2.op) (pssm : list (list f32))
         (pads : nat -> list f32) (ar : arm),
    0 < K -> forallb (LMStripe.StripeAvx2.op_typed 32) ops = true ->
    Forall (fun x => x < K) (LMStripe.StripeAvx2.last_seq [] ops) ->
    pssm_wf K pssm -> 1 <= length pssm ->
    length pssm - 1 <= LMStripe.StripeAvx2.wrap_after 0 ops ->
    length pssm <= length (LMStripe.StripeAvx2.last_seq [] ops) ->
    exists st sc,
      LMStripe.StripeAvx2.run K 32 LMStripe.StripeModel.s_default ops = Ok st /\
      generic_score F32.add F32.zero 32 pssm (of_stripe st) = Ok sc /\
      score_with (avx2_rows_into F32.add F32.zero avx2_permute_consts avx2_gather_consts K pssm pads)
                 (of_stripe st) = Ok sc /\
      score_with (sse2_rows_into F32.add F32.zero sse2_consts 32 pssm) (of_stripe st) = Ok sc /\
      score_with (dispatch_rows_into F32.add F32.zero dispatch_score_f32 avx2_permute_consts
                                     avx2_gather_consts sse2_consts K pssm pads ar) (of_stripe st) = Ok sc /\
      rbind (Ok sc) (sc_unstripe 32) =
      Ok (map (score_def F32.add F32.zero (K - 1) pssm (LMStripe.StripeAvx2.last_seq [] ops))
              (seq 0 (length (LMStripe.StripeAvx2.last_seq [] ops) + 1 - length pssm))).
Proof.
  intros K ops pssm pads ar HK Ht Hs Hp HM Hw HL.
  destruct (history_striped K 32 ops ltac:(lia) Ht) as [st [Hrun [Hst Hwrap]]].
  rewrite <- Hwrap in Hw.
  destruct (C01_backends_full_scan K pssm pads _ (of_stripe st) ar HK Hs Hp Hst HM Hw HL)
    as [sc [E1 [E2 [E3 [E4 _]]]]].
  exists st, sc. repeat split; auto.
  rewrite <- E1.
  apply (C01_score_unstripe f32 F32.add F32.zero 32 K pssm _ (of_stripe st)); auto. lia.
Qed.


(* the README calls as a history: to_striped() (dispatching pipeline) then configure(&pssm) *)
Example C01_readme_history :
  let ops := [LMStripe.StripeAvx2.OStripe (LMStripe.StripeAvx2.BDispatch LMStripe.NetModel.AAvx2) readme_seq;
              LMStripe.StripeAvx2.OConfigure (length readme_pssm)] in
  forallb (LMStripe.StripeAvx2.op_typed 32) ops = true /\
  LMStripe.StripeAvx2.last_seq [] ops = readme_seq /\
  length readme_pssm - 1 <= LMStripe.StripeAvx2.wrap_after 0 ops /\
  length readme_pssm <= length (LMStripe.StripeAvx2.last_seq [] ops).
Proof. vm_compute. repeat split; lia. Qed.
