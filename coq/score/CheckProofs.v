(* Soundness of the executable checker of ScoreCheck.v with respect to the
   property stated on real numbers, and the proof that the defined binary32
   score itself meets the property. *)
From Coq Require Import ZArith Reals List Bool Arith Lia Lra.
From Flocq Require Import Core BinarySingleNaN.
From LMBase Require Import IEEE.
From LMScore Require Import ScoreModel ScoreCheck F32Proofs.
Import ListNotations.

Local Open Scope R_scope.

Notation finite32 := (@BinarySingleNaN.is_finite 24 128).

(* What C01 says of one scored position, on real numbers: with terms t_1..t_n
   (the selected matrix cells), the value v is
     - finite and within n * 2^-23 * sum|t_j| of the exact sum when all terms are finite,
     - -inf when a term is -inf,
   for matrices in the property's quantifier (no +inf / NaN cell) whose terms are
   small enough to exclude an intermediate overflow (sum|t_j| < 2^126). *)
Definition Holds_value (terms : list f32) (v : f32) : Prop :=
  match classify terms with
  | Outside => True
  | AllFinite =>
      rabs_sum terms < bpow radix2 126 ->
      finite32 v = true /\
      Rabs (B2R v - rsum terms) <= INR (length terms) * bpow radix2 (-23) * rabs_sum terms
  | HasNegInf => rabs_sum terms < bpow radix2 126 -> v = F32.ninf
  end.

(* a scan: exactly L - M + 1 values (none when L < M), each meeting the above *)
Definition Holds_C01 (N : nat) (pssm : list (list f32)) (s : list nat) (vals : list f32) : Prop :=
  length vals = (length s + 1 - length pssm)%nat /\
  forall i, (i < length vals)%nat -> Holds_value (f32_terms N pssm s i) (nth i vals F32.nan).

(* ---------- scaled integers and reals ---------- *)

Lemma bounded_emin m e : SpecFloat.bounded 24 128 m e = true -> (-149 <= e)%Z.
Proof.
  unfold SpecFloat.bounded, SpecFloat.canonical_mantissa, SpecFloat.fexp, SpecFloat.emin.
  intros H. apply andb_true_iff in H. destruct H as [H _].
  apply Zeq_bool_eq in H. lia.
Qed.

Lemma scaled0_R (x : f32) : IZR (scaled0 x) = B2R x * bpow radix2 149.
Proof.
  destruct x as [s|s| |s m e H]; unfold scaled0; cbn [fin_scaled B2R]; try (simpl; ring).
  pose proof (bounded_emin m e H) as He.
  rewrite Z.shiftl_mul_pow2 by lia.
  rewrite mult_IZR. rewrite (IZR_Zpower radix2) by lia.
  unfold F2R. cbn [Fnum Fexp]. rewrite bpow_plus. ring.
Qed.

Lemma exact_sum_gen l : forall a,
  IZR (fold_left (fun a x => (a + scaled0 x)%Z) l a) = IZR a + rsum l * bpow radix2 149.
Proof.
  induction l as [|x r IH]; intros a; cbn [fold_left rsum fold_right].
  - ring.
  - rewrite IH. rewrite plus_IZR, scaled0_R. fold (rsum r). ring.
Qed.

Lemma exact_sum_R l : IZR (exact_sum l) = rsum l * bpow radix2 149.
Proof. unfold exact_sum. rewrite exact_sum_gen. simpl. ring. Qed.

Lemma abs_sum_gen l : forall a,
  IZR (fold_left (fun a x => (a + Z.abs (scaled0 x))%Z) l a) = IZR a + rabs_sum l * bpow radix2 149.
Proof.
  induction l as [|x r IH]; intros a; cbn [fold_left rabs_sum fold_right].
  - ring.
  - rewrite IH. rewrite plus_IZR, abs_IZR, scaled0_R. fold (rabs_sum r).
    rewrite Rabs_mult. rewrite (Rabs_pos_eq (bpow radix2 149)) by apply bpow_ge_0. ring.
Qed.

Lemma abs_sum_R l : IZR (abs_sum l) = rabs_sum l * bpow radix2 149.
Proof. unfold abs_sum. rewrite abs_sum_gen. simpl. ring. Qed.

Lemma fin_scaled_some v z : fin_scaled v = Some z -> finite32 v = true /\ IZR z = B2R v * bpow radix2 149.
Proof.
  intros H. pose proof (scaled0_R v) as E. unfold scaled0 in E. rewrite H in E.
  split; [|exact E]. destruct v; simpl in *; auto; discriminate.
Qed.

Lemma feqb_ninf v : feqb v F32.ninf = true -> v = F32.ninf.
Proof. destruct v as [[|]|[|]| |]; simpl; intros H; try discriminate; reflexivity. Qed.

Lemma no_overflow_branch l :
  rabs_sum l < bpow radix2 126 -> (overflow_limit <=? abs_sum l)%Z = false.
Proof.
  intros H. apply Z.leb_gt. apply lt_IZR. rewrite abs_sum_R.
  unfold overflow_limit. change (2 ^ 275)%Z with (Zpower radix2 275).
  rewrite (IZR_Zpower radix2) by lia.
  change 275%Z with (126 + 149)%Z. rewrite bpow_plus.
  apply Rmult_lt_compat_r; [apply bpow_gt_0|exact H].
Qed.

Lemma within_tol_R l z (v : f32) :
  IZR z = B2R v * bpow radix2 149 -> within_tol l z = true ->
  Rabs (B2R v - rsum l) <= INR (length l) * bpow radix2 (-23) * rabs_sum l.
Proof.
  intros Hz H. unfold within_tol in H. apply Z.leb_le in H. apply IZR_le in H.
  rewrite !mult_IZR, abs_IZR, minus_IZR, Hz, exact_sum_R, abs_sum_R in H.
  change (2 ^ 23)%Z with (Zpower radix2 23) in H. rewrite (IZR_Zpower radix2) in H by lia.
  rewrite <- INR_IZR_INZ in H.
  replace (B2R v * bpow radix2 149 - rsum l * bpow radix2 149)
    with ((B2R v - rsum l) * bpow radix2 149) in H by ring.
  rewrite Rabs_mult, (Rabs_pos_eq (bpow radix2 149)) in H by apply bpow_ge_0.
  pose proof (bpow_gt_0 radix2 149) as H149. pose proof (bpow_gt_0 radix2 23) as H23.
  assert (E : bpow radix2 (-23) = / bpow radix2 23) by (apply (bpow_opp radix2 23)).
  rewrite E.
  apply (Rmult_le_reg_r (bpow radix2 149 * bpow radix2 23)); [nra|].
  replace (INR (length l) * / bpow radix2 23 * rabs_sum l * (bpow radix2 149 * bpow radix2 23))
    with (INR (length l) * (rabs_sum l * bpow radix2 149)) by (field; lra).
  lra.
Qed.

(* ---------- soundness ---------- *)

Theorem check_value_sound terms d v :
  passes (check_value terms d v) = true -> Holds_value terms v.
Proof.
  unfold check_value, Holds_value. destruct (classify terms); auto.
  - intros H Hb. rewrite (no_overflow_branch terms Hb) in H.
    destruct (fin_scaled v) as [z|] eqn:Ez; [|discriminate].
    destruct (fin_scaled_some v z Ez) as [Hfin Hz]. split; auto.
    destruct (within_tol terms z) eqn:Et; [|discriminate].
    apply (within_tol_R terms z v Hz Et).
  - intros H Hb. rewrite (no_overflow_branch terms Hb) in H.
    destruct (feqb v F32.ninf) eqn:E; [|discriminate]. apply feqb_ninf. exact E.
Qed.

Lemma passes_worse a b : passes (worse a b) = true -> passes a = true /\ passes b = true.
Proof. destruct a, b; simpl; auto; discriminate. Qed.

Lemma tl_skipn {A} (l : list A) i : tl (skipn i l) = skipn (S i) l.
Proof.
  revert l. induction i as [|i IH]; intros l.
  - destruct l; reflexivity.
  - destruct l as [|x l]; [reflexivity|]. cbn [skipn]. rewrite IH. reflexivity.
Qed.

Lemma nth_skipn' {A} (l : list A) n i d : nth i (skipn n l) d = nth (n + i) l d.
Proof.
  revert l. induction n as [|n IH]; intros [|x r]; cbn [skipn Nat.add nth]; auto.
  destruct i; reflexivity.
Qed.

Lemma f32_terms_skipn N pssm s i : f32_terms N pssm (skipn i s) 0 = f32_terms N pssm s i.
Proof.
  unfold f32_terms, score_terms. generalize 0%nat at 1 3. revert i.
  induction pssm as [|prow rest IH]; intros i j; cbn [terms_from]; auto.
  rewrite nth_skipn'. cbn [Nat.add]. rewrite IH. reflexivity.
Qed.

Lemma check_values_from_sound N pssm s : forall vals i0,
  passes (check_values_from N pssm (skipn i0 s) vals) = true ->
  forall i, (i < length vals)%nat -> Holds_value (f32_terms N pssm s (i0 + i)) (nth i vals F32.nan).
Proof.
  induction vals as [|v r IH]; intros i0 H i Hi; cbn [length] in Hi; [lia|].
  cbn [check_values_from] in H. apply passes_worse in H. destruct H as [H1 H2].
  rewrite f32_terms_skipn in H1. rewrite tl_skipn in H2.
  destruct i as [|i].
  - rewrite Nat.add_0_r. cbn [nth]. eapply check_value_sound. exact H1.
  - cbn [nth]. replace (i0 + S i)%nat with (S i0 + i)%nat by lia. apply IH; auto. lia.
Qed.

(* the checker behind the driver's PROPFAIL decision is sound *)
Theorem check_values_sound N pssm s vals :
  check_C01 N pssm s vals = true -> Holds_C01 N pssm s vals.
Proof.
  unfold check_C01, check_values, Holds_C01.
  destruct (Nat.eqb_spec (length vals) (length s + 1 - length pssm)) as [E|E]; [|discriminate].
  intros H. split; auto. intros i Hi.
  apply (check_values_from_sound N pssm s vals 0 H i Hi).
Qed.

(* ---------- the defined score meets the property ---------- *)

Lemma classify_allfinite l : classify l = AllFinite -> Forall (fun x => finite32 x = true) l.
Proof.
  induction l as [|x r IH]; intros H; [constructor|].
  cbn [classify] in H. destruct x as [sx|[|]| |sx m e Hb]; try discriminate.
  - constructor; auto.
  - destruct (classify r); discriminate.
  - constructor; auto.
Qed.

Lemma classify_not_outside l : classify l <> Outside -> Forall no_pinf_nan l.
Proof.
  induction l as [|x r IH]; intros H; [constructor|].
  cbn [classify] in H.
  destruct x as [sx|[|]| |sx m e Hb]; try (exfalso; apply H; reflexivity).
  - constructor; [split; discriminate|auto].
  - constructor; [split; discriminate|]. apply IH. intros E. rewrite E in H. apply H. reflexivity.
  - constructor; [split; discriminate|auto].
Qed.

(* split at the first -inf *)
Lemma classify_hasneginf l :
  classify l = HasNegInf ->
  exists l1 l2, l = l1 ++ F32.ninf :: l2 /\ Forall (fun x => finite32 x = true) l1 /\ Forall no_pinf_nan l2.
Proof.
  induction l as [|x r IH]; intros H; [discriminate|].
  cbn [classify] in H. destruct x as [sx|[|]| |sx m e Hb]; try discriminate.
  - destruct (IH H) as [l1 [l2 [E [H1 H2]]]]. exists (B754_zero sx :: l1), l2. subst. repeat split; auto.
  - exists [], r. repeat split; auto. apply classify_not_outside.
    intros E. rewrite E in H. discriminate.
  - destruct (IH H) as [l1 [l2 [E [H1 H2]]]]. exists (B754_finite sx m e Hb :: l1), l2. subst. repeat split; auto.
Qed.

Lemma rabs_sum_app l1 l2 : rabs_sum (l1 ++ l2) = rabs_sum l1 + rabs_sum l2.
Proof. induction l1; simpl; [lra|]. fold (rabs_sum (l1 ++ l2)). fold (rabs_sum l1). lra. Qed.

Lemma finite_no_pinf_nan (x : f32) : finite32 x = true -> no_pinf_nan x.
Proof. destruct x; simpl; intros H; try discriminate; split; discriminate. Qed.

(* C01 for the value every backend is proved to compute: the left-to-right binary32
   sum from +0.0 of at most 2^23 terms satisfies the property *)
Theorem defined_sum_holds terms :
  (Z.of_nat (length terms) <= 2 ^ 23)%Z -> Holds_value terms (f32_sum terms).
Proof.
  intros Hn. unfold Holds_value, f32_sum.
  destruct (classify terms) eqn:Ec; auto.
  - intros Hb. pose proof (classify_allfinite terms Ec) as Hfin.
    assert (Hs : sums_finite F32.zero terms = true).
    { apply sums_finite_bound; auto. lra. }
    split.
    + apply sums_finite_final. exact Hs.
    + apply fsum_error_tol; auto.
  - intros Hb. destruct (classify_hasneginf terms Ec) as [l1 [l2 [E [H1 H2]]]]. subst terms.
    apply neg_inf_absorbs; auto.
    apply finite_no_pinf_nan. apply sums_finite_final. apply sums_finite_bound; auto.
    + rewrite app_length in Hn. eapply Z.le_trans; [|exact Hn]. apply Nat2Z.inj_le. apply Nat.le_add_r.
    + rewrite rabs_sum_app in Hb. pose proof (rabs_sum_pos (F32.ninf :: l2)). lra.
Qed.

(* ---------- completeness on the model: the defined scores pass the checker ---------- *)

Lemma feqb_refl v : feqb v v = true.
Proof.
  destruct v as [s|s| |s m e H]; simpl; auto; try (destruct s; reflexivity).
  rewrite eqb_reflx, Pos.eqb_refl, Z.eqb_refl. reflexivity.
Qed.

Lemma fin_scaled_finite (v : f32) : finite32 v = true -> exists z, fin_scaled v = Some z.
Proof. destruct v; simpl; intros H; try discriminate; eauto. Qed.

Lemma overflow_branch_dec l :
  (overflow_limit <=? abs_sum l)%Z = false -> rabs_sum l < bpow radix2 126.
Proof.
  intros H. apply Z.leb_gt in H. apply IZR_lt in H. rewrite abs_sum_R in H.
  unfold overflow_limit in H. change (2 ^ 275)%Z with (Zpower radix2 275) in H.
  rewrite (IZR_Zpower radix2) in H by lia.
  change 275%Z with (126 + 149)%Z in H. rewrite bpow_plus in H.
  apply (Rmult_lt_reg_r (bpow radix2 149)); [apply bpow_gt_0|exact H].
Qed.

Lemma within_tol_complete l z (v : f32) :
  IZR z = B2R v * bpow radix2 149 ->
  Rabs (B2R v - rsum l) <= INR (length l) * bpow radix2 (-23) * rabs_sum l ->
  within_tol l z = true.
Proof.
  intros Hz H. unfold within_tol. apply Z.leb_le. apply le_IZR.
  rewrite !mult_IZR, abs_IZR, minus_IZR, Hz, exact_sum_R, abs_sum_R.
  change (2 ^ 23)%Z with (Zpower radix2 23). rewrite (IZR_Zpower radix2) by lia.
  rewrite <- INR_IZR_INZ.
  replace (B2R v * bpow radix2 149 - rsum l * bpow radix2 149)
    with ((B2R v - rsum l) * bpow radix2 149) by ring.
  rewrite Rabs_mult, (Rabs_pos_eq (bpow radix2 149)) by apply bpow_ge_0.
  pose proof (bpow_gt_0 radix2 149) as H149. pose proof (bpow_gt_0 radix2 23) as H23.
  assert (E : bpow radix2 (-23) = / bpow radix2 23) by (apply (bpow_opp radix2 23)).
  rewrite E in H.
  apply (Rmult_le_compat_r (bpow radix2 149 * bpow radix2 23)) in H; [|nra].
  replace (INR (length l) * / bpow radix2 23 * rabs_sum l * (bpow radix2 149 * bpow radix2 23))
    with (INR (length l) * (rabs_sum l * bpow radix2 149)) in H by (field; lra).
  lra.
Qed.

(* the checker never rejects the defined sum: no false alarm on what the model computes *)
Theorem defined_sum_passes terms :
  (Z.of_nat (length terms) <= 2 ^ 23)%Z ->
  check_value terms (f32_sum terms) (f32_sum terms) = VExact.
Proof.
  intros Hn. pose proof (defined_sum_holds terms Hn) as H.
  unfold Holds_value in H. unfold check_value. rewrite feqb_refl.
  destruct (classify terms); auto.
  - destruct (overflow_limit <=? abs_sum terms)%Z eqn:Eo; auto.
    destruct (H (overflow_branch_dec terms Eo)) as [Hfin Hb].
    destruct (fin_scaled_finite _ Hfin) as [z Ez]. unfold f32_sum in *. rewrite Ez.
    destruct (fin_scaled_some _ z Ez) as [_ Hz].
    rewrite (within_tol_complete terms z _ Hz Hb). reflexivity.
  - destruct (overflow_limit <=? abs_sum terms)%Z eqn:Eo; auto.
    unfold f32_sum in *. rewrite (H (overflow_branch_dec terms Eo)). reflexivity.
Qed.

Lemma check_values_from_model N pssm s :
  (Z.of_nat (length pssm) <= 2 ^ 23)%Z ->
  forall n i0,
    check_values_from N pssm (skipn i0 s) (map (score_def F32.add F32.zero N pssm s) (seq i0 n)) = VExact.
Proof.
  intros HM. induction n as [|n IH]; intros i0; cbn [seq map check_values_from]; auto.
  rewrite tl_skipn, IH. rewrite f32_terms_skipn.
  change (score_def F32.add F32.zero N pssm s i0) with (f32_sum (f32_terms N pssm s i0)).
  rewrite defined_sum_passes; auto.
  unfold f32_terms, score_terms.
  assert (E : forall j f, length (terms_from F32.zero j pssm f) = length pssm).
  { clear. induction pssm; intros; simpl; auto. }
  rewrite E. exact HM.
Qed.

(* model_passes_C01: the scores the model returns always pass the property checker *)
Theorem model_passes_C01 N pssm s :
  (Z.of_nat (length pssm) <= 2 ^ 23)%Z ->
  check_C01 N pssm s (map (score_def F32.add F32.zero N pssm s) (seq 0 (length s + 1 - length pssm))) = true.
Proof.
  intros HM. unfold check_C01, check_values. rewrite map_length, seq_length, Nat.eqb_refl.
  rewrite (check_values_from_model N pssm s HM _ 0); auto.
Qed.

(* ---------- soundness of the equality checkers ---------- *)

Lemma row_eqb_eq a b : row_eqb a b = true -> a = b.
Proof.
  revert b. induction a as [|x a IH]; intros [|y b] H; simpl in H; try discriminate; auto.
  apply andb_true_iff in H. destruct H as [H1 H2]. apply Z.eqb_eq in H1. f_equal; auto.
Qed.

Lemma rows_eqb_eq a b : rows_eqb a b = true -> a = b.
Proof.
  revert b. induction a as [|x a IH]; intros [|y b] H; simpl in H; try discriminate; auto.
  apply andb_true_iff in H. destruct H as [H1 H2]. apply row_eqb_eq in H1. f_equal; auto.
Qed.

Lemma obs_eqb_eq (a b : obs) : obs_eqb a b = true -> a = b.
Proof.
  destruct a as [[m1 r1]|], b as [[m2 r2]|]; simpl; intros H; try discriminate; auto.
  apply andb_true_iff in H. destruct H as [H1 H2].
  apply Nat.eqb_eq in H1. apply rows_eqb_eq in H2. subst. reflexivity.
Qed.

Theorem check_same_results_sound g others :
  check_same_results g others = true -> Forall (fun o => o = g) others.
Proof.
  unfold check_same_results. intros H. rewrite forallb_forall in H.
  apply Forall_forall. intros o Ho. symmetry. apply obs_eqb_eq. apply H. exact Ho.
Qed.

Theorem check_subrange_sound full sub a b :
  check_subrange full sub a b = true ->
  exists m r1 r2, full = Some (m, r1) /\ sub = Some (m, r2) /\ r2 = firstn (b - a) (skipn a r1).
Proof.
  unfold check_subrange. destruct full as [[m1 r1]|], sub as [[m2 r2]|]; try discriminate.
  intros H. apply andb_true_iff in H. destruct H as [H1 H2].
  apply Nat.eqb_eq in H1. apply rows_eqb_eq in H2. subst. exists m2, r1, (firstn (b - a) (skipn a r1)). auto.
Qed.
