(* Model of the SIMD scoring kernels of lightmotif (property C01), executable
   definitions only:

     pli/platform/avx2.rs  score_f32_avx2_permute, score_f32_avx2_gather,
                           Avx2::score_f32_rows_into{,_permute,_gather}
     pli/platform/sse2.rs  score_sse2, Sse2::score_rows_into
     pli/platform/neon.rs  score_f32_neon, Neon::score_f32_rows_into (not compiled on x86:
                           tied by the translator and the proofs only)
     pli/dispatch.rs       impl Score<f32, A, Lanes> for Pipeline<A, Dispatch>

   Registers are lists: a __m256i / __m128i is the list of its 32 / 16 bytes
   (binary naturals [N], lowest address first), a __m256 / __m128 is the list of
   its 8 / 4 lanes of the carrier T.  The intrinsics are given lane-wise
   semantics (trusted, exercised by the correspondence run).

   The AVX2 kernels are parameterised by the constants that the translator
   translate/score_avx2.py re-extracts from avx2.rs on every run (GenAvx2.v):
   the four byte-shuffle masks, the permute2f128 operands/immediates and the
   store offsets.  The SSE2 and NEON kernels (same shape: widen 16 symbols to
   4 x 4 lanes by byte interleaving with zero, compare-and-mask per symbol,
   store 16 cells) are parameterised by the interleaving paths and the store
   offsets that translate/score_lane4.py re-extracts from sse2.rs / neon.rs
   (GenLane4.v).

   Result codes besides those of ScoreModel.v:
     Panic 30  pssm.rows() - 1 underflows (M = 0; in release the comparison
               `wrap < usize::MAX` then panics as well)
     Panic 31  "not enough wrapping rows"
     Panic 32  "row range reaches past the end of the striped sequence matrix"
     Panic 33  seq.matrix()[i] (unreachable after the guards)
     Panic 34  data[0] / pssm[0] (unreachable after the guards)
     Err 66    a raw-pointer load past the sequence matrix: undefined behaviour
               in the code; the theorems show the guards exclude it            *)
From Coq Require Import List Arith Bool Lia NArith.
From LMBase Require Import Res ListX.
From LMScore Require Import ScoreModel.
Import ListNotations.

Fixpoint map2 {A B D} (f : A -> B -> D) (l1 : list A) (l2 : list B) : list D :=
  match l1, l2 with
  | x :: r1, y :: r2 => f x y :: map2 f r1 r2
  | _, _ => []
  end.

Fixpoint interleave {A} (a b : list A) : list A :=
  match a, b with
  | x :: a', y :: b' => x :: y :: interleave a' b'
  | _, _ => []
  end.

(* ---------- integer registers as byte lists ---------- *)

(* view a byte list as little-endian 32-bit lanes *)
Fixpoint as_epi32 (bs : list N) : list N :=
  match bs with
  | b0 :: b1 :: b2 :: b3 :: r => (b0 + 256 * b1 + 65536 * b2 + 16777216 * b3)%N :: as_epi32 r
  | _ => []
  end.

Definition u32_bytes (e : N) : list N :=
  [N.land e 255; N.land (N.shiftr e 8) 255; N.land (N.shiftr e 16) 255; N.land (N.shiftr e 24) 255].

(* _mm256_set_epi32(e7, ..., e0): arguments are given from the highest lane down *)
Definition set_epi32 (es : list N) : list N := flat_map u32_bytes (rev es).

(* PSHUFB on one 128-bit lane: a selector byte with its high bit set gives 0,
   otherwise its low 4 bits index the bytes of the same lane of [a] *)
Definition shuffle_lane (a b : list N) : list N :=
  map (fun i => if N.testbit i 7 then 0%N else nth (N.to_nat (N.land i 15)) a 0%N) b.

(* _mm256_shuffle_epi8(a, b): PSHUFB on each 128-bit lane separately *)
Definition shuffle_epi8 (a b : list N) : list N :=
  shuffle_lane (firstn 16 a) (firstn 16 b) ++ shuffle_lane (skipn 16 a) (skipn 16 b).

(* _mm_unpacklo_epi8 / _mm_unpackhi_epi8 *)
Definition unpacklo_epi8 (a b : list N) : list N := interleave (firstn 8 a) (firstn 8 b).
Definition unpackhi_epi8 (a b : list N) : list N := interleave (skipn 8 a) (skipn 8 b).

(* _mm256_permute2f128_ps(a, b, imm) on 8-lane registers; [z] is the value of a zeroed lane *)
Definition permute2f128 {A} (z : A) (a b : list A) (imm : N) : list A :=
  let half sel :=
    match N.to_nat (N.land sel 3) with
    | 0 => firstn 4 a
    | 1 => skipn 4 a
    | 2 => firstn 4 b
    | _ => skipn 4 b
    end in
  (if N.testbit imm 3 then repeat z 4 else half imm) ++
  (if N.testbit imm 7 then repeat z 4 else half (N.shiftr imm 4)).

(* a store of the lanes of r at element offset off of a row *)
Definition store_at {A} (off : nat) (r : list A) (row : list A) : list A :=
  firstn off row ++ r ++ skipn (off + length r) row.

(* constants of one AVX2 f32 kernel, as written in the source *)
Record avx2_consts := mkAvx2Consts {
  ac_masks : list (list N);        (* m1..m4: arguments of _mm256_set_epi32, e7 first *)
  ac_perm : list (nat * nat * N);  (* r_k = permute2f128(s_a, s_b, imm): (a-1, b-1, imm) *)
  ac_store : list nat              (* r_k is stored at rowptr.add(off_k) *)
}.

(* constants of one SSE2 / NEON f32 kernel: per accumulator the path of halves
   (false = low, true = high) of the byte interleavings with zero from the loaded
   row to the register compared for it, and the element offset of its store *)
Record lane4_consts := mkLane4 {
  l4_paths : list (list bool);
  l4_store : list nat
}.

(* _mm_unpack{lo,hi}_epi8(x, zero) / vzipq_u8(x, 0).{0,1}, applied along a path; [z] is
   the zero register *)
Fixpoint zip_path {A} (z : list A) (p : list bool) (x : list A) : list A :=
  match p with
  | [] => x
  | h :: t =>
      zip_path z t (if h then interleave (skipn 8 x) (skipn 8 z)
                    else interleave (firstn 8 x) (firstn 8 z))
  end.

(* the wrapper guards shared by Avx2::score_f32_rows_into_{permute,gather} and
   Sse2::score_rows_into *)
Definition simd_guard {T} (zero : T) (C M : nat) (q : sseq) (a b : nat) (old : sscores T)
           (kernel : list (list T) -> res (list (list T))) : res (sscores T) :=
  if M =? 0 then Panic 30
  else if sq_wrap q <? M - 1 then Panic 31
  else if (sq_len q <? M) || negb (a <? b) then Ok (sc_resize zero C old 0 0)
  else if length (sq_mat q) <? b + M - 1 then Panic 32
  else
    let sc := sc_resize zero C old (b - a) ((sq_len q + 1) - M) in
    rbind (kernel (sc_mat sc)) (fun m => Ok (mkScores m (sc_max sc))).

(* Neon::score_f32_rows_into BEFORE the repair of /repo commit 9cd9b52: the same guards
   without the row-range assertion (kept for the witness C01_neon_range_unguarded_old_refuted;
   the current wrapper has the assertion and uses [simd_guard]) *)
Definition neon_guard_old {T} (zero : T) (C M : nat) (q : sseq) (a b : nat) (old : sscores T)
           (kernel : list (list T) -> res (list (list T))) : res (sscores T) :=
  if M =? 0 then Panic 30
  else if sq_wrap q <? M - 1 then Panic 31
  else if (sq_len q <? M) || negb (a <? b) then Ok (sc_resize zero C old 0 0)
  else
    let sc := sc_resize zero C old (b - a) ((sq_len q + 1) - M) in
    rbind (kernel (sc_mat sc)) (fun m => Ok (mkScores m (sc_max sc))).

(* arms of `enum Dispatch` (x86-64) and the kernels they can select *)
Inductive kernel_id := KGeneric | KSse2 | KAvx2.
Inductive arm := ArmGeneric | ArmSse2 | ArmAvx2.

(* `enum Dispatch` as compiled on arm / aarch64 hosts, where the dispatching pipeline runs on
   16 columns (Lanes = <Neon as Backend>::Lanes) *)
Inductive neon_kernel_id := NKGeneric | NKNeon.
Inductive neon_arm := NArmGeneric | NArmNeon.

(* the steps of a safe scoring wrapper that the translators recognise in the source; the order
   that [simd_guard] models is [simd_guard_steps] *)
Inductive wrapper_step := WWrapGuard | WShortReturn | WRangeGuard | WResize | WKernel | WOther.
Definition simd_guard_steps : list wrapper_step :=
  [WWrapGuard; WShortReturn; WRangeGuard; WResize; WKernel].

Section Simd.
  Context {T : Type}.
  Variable add : T -> T -> T.     (* one lane of _mm256_add_ps / _mm_add_ps *)
  Variable zero : T.              (* one lane of _mm256_setzero_ps / _mm_setzero_ps: +0.0 *)

  Definition add_ps : list T -> list T -> list T := map2 add.

  (* ---------- AVX2 ---------- *)

  (* _mm256_permutevar8x32_ps(t, idx): lane i = t[idx_i & 7] *)
  Definition permutevar8x32 (t : list T) (idx : list N) : list T :=
    map (fun i => nth (N.to_nat (N.land i 7)) t zero) idx.

  (* _mm256_i32gather_ps(base, idx, 4): lane i = base[idx_i]; the indices are
     zero-extended bytes here, so never negative *)
  Definition i32gather (mem : list T) (idx : list N) : list T :=
    map (fun i => nth (N.to_nat i) mem zero) idx.

  (* the look-up of the permute kernel: t = _mm256_load_ps(pssmptr) reads 8 floats
     (the K <= 8 cells of the row and the padding of the aligned row) *)
  Definition lookup_permute (mem : list T) (idx : list N) : list T :=
    permutevar8x32 (firstn 8 mem) idx.
  Definition lookup_gather (mem : list T) (idx : list N) : list T := i32gather mem idx.

  Section Kernel.
    Variable cs : avx2_consts.
    Variable lookup : list T -> list N -> list T.

    (* the loop `for _ in 0..pssm.rows()`: pm = memory readable from pssmptr for each
       remaining pssm row (cells ++ padding), sr = sequence rows from seqptr on,
       acc = [s1; s2; s3; s4] *)
    Fixpoint avx2_inner (pm : list (list T)) (sr : list (list nat)) (acc : list (list T))
      : res (list (list T)) :=
      match pm with
      | [] => Ok acc
      | mem :: pm' =>
          match sr with
          | [] => Err 66
          | xrow :: sr' =>
              let x := map N.of_nat xrow in                                     (* _mm256_load_si256 *)
              let xs := map (fun m => as_epi32 (shuffle_epi8 x (set_epi32 m))) (ac_masks cs) in
              let bs := map (lookup mem) xs in
              avx2_inner pm' sr' (map2 add_ps acc bs)
          end
      end.

    (* permute2f128 un-permutation and the four streaming stores into one result row *)
    Definition avx2_store (acc : list (list T)) (old : list T) : list T :=
      let rs := map (fun p => match p with (ia, ib, imm) =>
                   permute2f128 zero (nth ia acc []) (nth ib acc []) imm end) (ac_perm cs) in
      fold_left (fun row ro => store_at (fst ro) (snd ro) row) (combine (ac_store cs) rs) old.

    Definition avx2_row (pm : list (list T)) (m : list (list nat)) (i : nat) (old : list T)
      : res (list T) :=
      if length m <=? i then Panic 33
      else rbind (avx2_inner pm (skipn i m) (repeat (repeat zero 8) (length (ac_masks cs))))
                 (fun acc => Ok (avx2_store acc old)).

    Definition avx2_kernel (pm : list (list T)) (q : sseq) (a b : nat) (buf : list (list T))
      : res (list (list T)) :=
      match buf, pm with
      | [], _ | _, [] => Panic 34
      | _, _ => rows_update (avx2_row pm (sq_mat q)) 0 (seq a (b - a)) buf
      end.
  End Kernel.

  (* pssm rows as seen through pssmptr: the K cells of row j followed by whatever the
     padding of the aligned row holds (pads j) *)
  Definition pssm_mem_from (j0 : nat) (pssm : list (list T)) (pads : nat -> list T) : list (list T) :=
    map (fun jr => snd jr ++ pads (fst jr)) (combine (seq j0 (length pssm)) pssm).
  Definition pssm_mem := pssm_mem_from 0.

  Definition avx2_permute_rows_into (cs : avx2_consts) (pssm : list (list T)) (pads : nat -> list T) (q : sseq)
             (a b : nat) (old : sscores T) : res (sscores T) :=
    simd_guard zero 32 (length pssm) q a b old
               (avx2_kernel cs lookup_permute (pssm_mem pssm pads) q a b).

  Definition avx2_gather_rows_into (cs : avx2_consts) (pssm : list (list T)) (pads : nat -> list T) (q : sseq)
             (a b : nat) (old : sscores T) : res (sscores T) :=
    simd_guard zero 32 (length pssm) q a b old
               (avx2_kernel cs lookup_gather (pssm_mem pssm pads) q a b).

  (* Avx2::score_f32_rows_into: A::K::USIZE <= 8 selects the permute kernel *)
  Definition avx2_rows_into (csp csg : avx2_consts) (K : nat) (pssm : list (list T)) (pads : nat -> list T)
             (q : sseq) (a b : nat) (old : sscores T) : res (sscores T) :=
    if K <=? 8 then avx2_permute_rows_into csp pssm pads q a b old
    else avx2_gather_rows_into csg pssm pads q a b old.

  (* ---------- SSE2 / NEON ---------- *)

  Definition zero128 : list N := repeat 0%N 16.

  (* the broadcast of 16 bytes to the registers of 4 32-bit lanes compared for each accumulator *)
  Definition lane4_widen (cs : lane4_consts) (x : list N) : list (list N) :=
    map (fun p => as_epi32 (zip_path zero128 p x)) (l4_paths cs).

  (* _mm_and_ps(lut, _mm_castsi128_ps(_mm_cmpeq_epi32(x, sym))): an all-ones lane
     keeps the value, an all-zero lane gives the bit pattern 0 = +0.0 *)
  Definition and_cmpeq (lut : T) (x : list N) (k : N) : list T :=
    map (fun xi => if N.eqb xi k then lut else zero) x.

  (* for k in 0..K: s_i = s_i + (lut_k & (x_i == k)) *)
  Fixpoint sse2_symbols (k : nat) (cells : list T) (xs : list (list N)) (acc : list (list T))
    : list (list T) :=
    match cells with
    | [] => acc
    | lut :: rest =>
        sse2_symbols (S k) rest xs
                     (map2 add_ps acc (map (fun x => and_cmpeq lut x (N.of_nat k)) xs))
    end.

  Section Lane4.
    Variable cs : lane4_consts.

    Fixpoint lane4_inner (off : nat) (pssm : list (list T)) (sr : list (list nat)) (acc : list (list T))
      : res (list (list T)) :=
      match pssm with
      | [] => Ok acc
      | prow :: pr' =>
          match sr with
          | [] => Err 66
          | xrow :: sr' =>
              let x := map N.of_nat (firstn 16 (skipn off xrow)) in     (* _mm_load_si128 / vld1q_u8 *)
              lane4_inner off pr' sr' (sse2_symbols 0 prow (lane4_widen cs x) acc)
          end
      end.

    (* _mm_stream_ps(rowptr.add(o_i), s_i) / vst1q_f32_x4(rowptr, s) *)
    Definition lane4_store (off : nat) (acc : list (list T)) (old : list T) : list T :=
      fold_left (fun row ro => store_at (off + fst ro) (snd ro) row) (combine (l4_store cs) acc) old.

    Definition lane4_row (off : nat) (pssm : list (list T)) (m : list (list nat)) (i : nat) (old : list T)
      : res (list T) :=
      if length m <=? i then Panic 33
      else rbind (lane4_inner off pssm (skipn i m) (repeat (repeat zero 4) (length (l4_paths cs))))
                 (fun acc => Ok (lane4_store off acc old)).

    (* for offset in (0..C/16).map(|i| i * 16) { for i in rows.clone() { ... } } *)
    Definition lane4_kernel (C : nat) (pssm : list (list T)) (q : sseq) (a b : nat) (buf : list (list T))
      : res (list (list T)) :=
      match buf, pssm with
      | [], _ | _, [] => if C / 16 =? 0 then Ok buf else Panic 34
      | _, _ =>
          foldM (fun buf' off => rows_update (lane4_row off pssm (sq_mat q)) 0 (seq a (b - a)) buf')
                (map (fun i => i * 16) (seq 0 (C / 16))) buf
      end.
  End Lane4.

  (* Sse2::score_rows_into *)
  Definition sse2_rows_into (cs : lane4_consts) (C : nat) (pssm : list (list T)) (q : sseq) (a b : nat)
             (old : sscores T) : res (sscores T) :=
    simd_guard zero C (length pssm) q a b old (lane4_kernel cs C pssm q a b).

  (* Neon::score_f32_rows_into (with the row-range assertion of commit 9cd9b52) *)
  Definition neon_rows_into (cs : lane4_consts) (C : nat) (pssm : list (list T)) (q : sseq) (a b : nat)
             (old : sscores T) : res (sscores T) :=
    simd_guard zero C (length pssm) q a b old (lane4_kernel cs C pssm q a b).

  (* the wrapper as it was before that commit *)
  Definition neon_rows_into_old (cs : lane4_consts) (C : nat) (pssm : list (list T)) (q : sseq) (a b : nat)
             (old : sscores T) : res (sscores T) :=
    neon_guard_old zero C (length pssm) q a b old (lane4_kernel cs C pssm q a b).

  (* ---------- dispatcher ---------- *)

  (* the table `match self.backend` of impl Score<f32, ..> for Pipeline<A, Dispatch>,
     re-extracted from dispatch.rs by the translator *)
  Definition dispatch_rows_into (table : arm -> kernel_id) (csp csg : avx2_consts) (cs2 : lane4_consts) (K : nat)
             (pssm : list (list T)) (pads : nat -> list T) (ar : arm) (q : sseq) (a b : nat) (old : sscores T)
    : res (sscores T) :=
    match table ar with
    | KAvx2 => avx2_rows_into csp csg K pssm pads q a b old
    | KSse2 => sse2_rows_into cs2 32 pssm q a b old
    | KGeneric => generic_rows_into add zero 32 pssm q a b old
    end.

  (* the same `match self.backend` as compiled on arm / aarch64 hosts: 16 columns, arms Generic / Neon *)
  Definition dispatch_rows_into_arm (table : neon_arm -> neon_kernel_id) (csn : lane4_consts)
             (pssm : list (list T)) (ar : neon_arm) (q : sseq) (a b : nat) (old : sscores T)
    : res (sscores T) :=
    match table ar with
    | NKNeon => neon_rows_into csn 16 pssm q a b old
    | NKGeneric => generic_rows_into add zero 16 pssm q a b old
    end.

End Simd.

(* ---------- data-independent part of the AVX2 lane bookkeeping ---------- *)

(* which source byte each result byte of a shuffle takes (None = zeroed) *)
Definition shuffle_sel_lane (base : nat) (b : list N) : list (option nat) :=
  map (fun i => if N.testbit i 7 then None else Some (base + N.to_nat (N.land i 15))) b.
Definition shuffle_sel (b : list N) : list (option nat) :=
  shuffle_sel_lane 0 (firstn 16 b) ++ shuffle_sel_lane 16 (skipn 16 b).

(* a byte selection that is a zero-extension of one byte per 32-bit lane *)
Fixpoint epi32_sel (sel : list (option nat)) : option (list nat) :=
  match sel with
  | [] => Some []
  | Some k :: None :: None :: None :: r =>
      match epi32_sel r with Some ks => Some (k :: ks) | None => None end
  | _ => None
  end.

(* the columns whose symbols land in the 8 lanes of accumulator i *)
Definition mask_cols (m : list N) : option (list nat) :=
  if length (set_epi32 m) =? 32 then epi32_sel (shuffle_sel (set_epi32 m)) else None.

Fixpoint all_some {A} (l : list (option A)) : option (list A) :=
  match l with
  | [] => Some []
  | Some x :: r => match all_some r with Some xs => Some (x :: xs) | None => None end
  | None :: _ => None
  end.

(* the column held by each cell of a result row after the un-permutation and the
   stores, starting from a row of markers 32.. (old contents) *)
Definition avx2_final_cols (cs : avx2_consts) (kss : list (list nat)) : list nat :=
  let rs := map (fun p => match p with (ia, ib, imm) =>
               permute2f128 999 (nth ia kss []) (nth ib kss []) imm end) (ac_perm cs) in
  fold_left (fun row ro => store_at (fst ro) (snd ro) row) (combine (ac_store cs) rs) (seq 32 32).

Fixpoint list_nat_eqb (a b : list nat) : bool :=
  match a, b with
  | [], [] => true
  | x :: a', y :: b' => (x =? y) && list_nat_eqb a' b'
  | _, _ => false
  end.

(* the reflection check: every mask is a zero-extending byte broadcast, no
   permute2f128 zeroes a half, and after the stores cell c of the row holds the
   accumulator lane that was fed with column c *)
Definition avx2_layout_ok (cs : avx2_consts) : bool :=
  match all_some (map mask_cols (ac_masks cs)) with
  | None => false
  | Some kss =>
      forallb (fun ks => (length ks =? 8) && forallb (fun k => k <? 32) ks) kss &&
      forallb (fun p => match p with (ia, ib, imm) =>
                 (ia <? length kss) && (ib <? length kss) &&
                 negb (N.testbit imm 3) && negb (N.testbit imm 7) end) (ac_perm cs) &&
      (length (ac_perm cs) =? length (ac_store cs)) &&
      list_nat_eqb (avx2_final_cols cs kss) (seq 0 32)
  end.

(* ---------- data-independent part of the SSE2 / NEON lane bookkeeping ---------- *)

(* the columns (relative to the block of 16) held by the 4 lanes of each accumulator *)
Definition lane4_cols (cs : lane4_consts) : option (list (list nat)) :=
  all_some (map (fun p => epi32_sel (zip_path (repeat None 16) p (map Some (seq 0 16)))) (l4_paths cs)).

(* the column held by each cell of a block of 16 after the stores, starting from markers 16.. *)
Definition lane4_final_cols (cs : lane4_consts) (kss : list (list nat)) : list nat :=
  fold_left (fun row ro => store_at (fst ro) (snd ro) row) (combine (l4_store cs) kss) (seq 16 16).

(* the reflection check: every path is a zero-extending widening of 4 of the 16 bytes, every
   store stays inside the block, and after the stores cell c of the block holds the accumulator
   lane that was fed with column c *)
Definition lane4_layout_ok (cs : lane4_consts) : bool :=
  match lane4_cols cs with
  | None => false
  | Some kss =>
      forallb (fun ks => (length ks =? 4) && forallb (fun k => k <? 16) ks) kss &&
      forallb (fun o => o + 4 <=? 16) (l4_store cs) &&
      (length kss =? length (l4_store cs)) &&
      list_nat_eqb (lane4_final_cols cs kss) (seq 0 16)
  end.
