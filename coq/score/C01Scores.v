(* Property C01, part "result length bookkeeping (max_index = L+1-M) and striped->linear
   iteration" (scores.rs): theorems only.

   1. the statement skeleton of scores.rs read by translate/score_scores.py on every run
      (GenScores.v) is the hand-written model of ScoreModel.v that every other theorem uses;
   2. histories on ONE reused StripedScores buffer: whatever sequence of score_into /
      score_rows_into (any pipeline, any motif, any sequence, any alphabet, any row range),
      resize, clone, Default and matrix_mut().fill(v) calls the buffer has been through, and whatever it held before,
      a scoring call leaves in it exactly what the generic pipeline writes into a fresh buffer;
      after a full scan its logical content (len, is_empty, unstripe) is that of the last
      call: L - M + 1 values, the defined scores of positions 0 .. L - M.

   Notation as in C01.v.  [call_on C c s]: call c (pipeline, alphabet size, scoring matrix,
   padding, striped sequence) is a call on the configured striped matrix of the sequence s
   (Striped, at least M - 1 look-ahead rows, M >= 1, K cells per matrix row, symbols < K; AVX2
   and the dispatcher only for C = 32).  [hop_ok]: the scoring calls of a history are such calls
   (resize / clone / Default steps are unconstrained).  A history that panics (a row range
   past the look-ahead rows, an unconfigured sequence) has no final state to speak about; the
   theorems are stated for every initial content [old] of the buffer, so they cover the state
   a caught panic leaves behind as well. *)
From Coq Require Import List Arith Bool Lia ZArith.
From LMBase Require Import Res ListX IEEE.
From LMScore Require Import ScoreModel SimdModel GenAvx2 GenLane4 GenScores ScoresModel ScoreCheck
     ScoreProofs SimdProofs Sse2Proofs F32Proofs ScoresProofs ScorePadModel ScorePad ScoresProofsWf ReadmeExample.
Import ListNotations.

(* resize, empty / Default, is_empty, offset, Index<usize>, Iter::new / get, unstripe as
   written in scores.rs (expressions regenerated into GenScores.v on every run) are the model
   functions.  Swapping `/` and `%`, indexing data[col][row], another bound than
   min(max_index, rows * columns), a resize that does not store max_index, ... break this. *)
Theorem C01_scores_skeleton_as_modelled :
  forall (T : Type) (zero : T) (C : nat) (sc : sscores T) (rows maxi i r c : nat),
    sk_empty zero C = sc_empty /\
    sk_is_empty sc = sc_is_empty sc /\
    sk_resize zero C sc rows maxi = sc_resize zero C sc rows maxi /\
    sk_offset sc r c = sc_offset sc r c /\
    sk_index sc i = sc_get sc i /\
    sk_iter_get sc i = sc_get sc i /\
    sk_iter_lo C sc = 0 /\
    sk_iter_end C sc = sc_iter_end C sc /\
    sk_unstripe C sc = sc_unstripe C sc.
Proof.
  intros. repeat apply conj.
  - apply sk_empty_eq.
  - apply sk_is_empty_eq.
  - apply sk_resize_eq.
  - apply sk_offset_eq.
  - apply sk_index_eq.
  - apply sk_iter_get_eq.
  - apply sk_iter_lo_eq.
  - apply sk_iter_end_eq.
  - apply sk_unstripe_eq.
Qed.

(* the default body of Score::score_rows_into never reads the buffer it is given: outcome
   (result or panic) is the same for every previous content, any carrier, any addition *)
Theorem C01_score_rows_into_ignores_buffer :
  forall (T : Type) (add : T -> T -> T) (zero : T) (C : nat) (pssm : list (list T)) (q : sseq)
         (a b : nat) (old old' : sscores T),
    generic_rows_into add zero C pssm q a b old = generic_rows_into add zero C pssm q a b old'.
Proof. exact @generic_rows_into_indep. Qed.

(* after ANY history h on the buffer (started from any content old), a scoring call -- through
   any pipeline -- gives what the generic pipeline gives on a fresh buffer (same matrix and
   max_index, or both panic); and the buffer stays well formed along the way *)
Theorem C01_scores_history :
  forall (C : nat) (h : list hop) (old : sscores f32) (last : hop) (mid : sscores f32),
    0 < C -> C mod 16 = 0 ->
    sc_wf C old -> Forall (hop_ok C) h -> is_scoring last -> hop_ok C last ->
    f_hrun C h old = Ok mid ->
    sc_wf C mid /\ res_equiv (f_hstep C last mid) (ref_call C last).
Proof. intros C h old last mid HC HC16. apply scores_history; auto. Qed.

(* two histories that end with the same scoring call end in the same buffer state *)
Theorem C01_scores_history_last_call_only :
  forall (C : nat) (h1 h2 : list hop) (old1 old2 : sscores f32) (last : hop) (r1 r2 : sscores f32),
    0 < C -> C mod 16 = 0 ->
    sc_wf C old1 -> sc_wf C old2 -> Forall (hop_ok C) h1 -> Forall (hop_ok C) h2 ->
    is_scoring last -> hop_ok C last ->
    f_hrun C (h1 ++ [last]) old1 = Ok r1 -> f_hrun C (h2 ++ [last]) old2 = Ok r2 -> r1 = r2.
Proof. intros C h1 h2 old1 old2 last r1 r2 HC HC16. apply scores_history_last_call_only; auto. Qed.

(* the logical content after a full scan (score_into) that ends any history: it never panics,
   max_index = L - M + 1 (0 when L < M), ceil(L / C) rows (none when L < M), is_empty iff L < M,
   len() = L - M + 1 and unstripe() = the defined scores of positions 0 .. L - M of THIS call's
   sequence and motif -- nothing of the earlier calls (other lengths with the same number of
   rows, larger or smaller results, empty results) shows through *)
Theorem C01_scores_history_content :
  forall (C : nat) (h : list hop) (old : sscores f32) (c : call) (s : list nat) (mid : sscores f32),
    0 < C -> C mod 16 = 0 ->
    sc_wf C old -> Forall (hop_ok C) h -> call_on C c s -> f_hrun C h old = Ok mid ->
    let L := length s in let M := length (c_pssm c) in
    exists r,
      f_hstep C (HScoreInto c) mid = Ok r /\
      sc_max r = (if L <? M then 0 else L + 1 - M) /\
      length (sc_mat r) = (if L <? M then 0 else seq_R C L) /\
      sc_is_empty r = (L <? M) /\
      sc_len C r = L + 1 - M /\
      sc_unstripe C r = Ok (map (score_def F32.add F32.zero (c_K c - 1) (c_pssm c) s) (seq 0 (L + 1 - M))).
Proof. intros C h old c s mid HC HC16. apply scores_history_content; auto. Qed.

(* a sub-range call (a < b <= R, L >= M) that ends any history returns rows a..b of the full scan of
   THIS call's sequence and motif, with max_index = L - M + 1 *)
Theorem C01_scores_history_sub_range :
  forall (C : nat) (h : list hop) (old : sscores f32) (c : call) (s : list nat) (a b : nat) (mid : sscores f32),
    0 < C -> C mod 16 = 0 ->
    sc_wf C old -> Forall (hop_ok C) h -> call_on C c s -> f_hrun C h old = Ok mid ->
    length (c_pssm c) <= length s -> a < b -> b <= seq_R C (length s) ->
    exists full sub,
      generic_score F32.add F32.zero C (c_pssm c) (c_seq c) = Ok full /\
      f_hstep C (HRowsInto c a b) mid = Ok sub /\
      sc_mat sub = firstn (b - a) (skipn a (sc_mat full)) /\
      sc_max sub = length s + 1 - length (c_pssm c).
Proof. intros C h old c s a b mid HC HC16. apply scores_history_sub_range; auto. Qed.

(* -0.0 cells: the defined score (sum from +0.0, left to right) is never -0.0, whatever the cells
   are -- a motif of -0.0 cells scores +0.0 on every pipeline (the SSE2 kernel adds K - 1 masked
   +0.0 per row, the AVX2 kernels start from setzero).  A kernel that starts its accumulator from
   the first term instead of +0.0 returns -0.0 there: a different bit pattern. *)
Theorem C01_score_never_negative_zero :
  forall (N : nat) (pssm : list (list f32)) (s : list nat) (i : nat),
    score_def F32.add F32.zero N pssm s i <> F32.nzero /\
    (Forall (Forall (fun x => x = F32.nzero \/ x = F32.zero)) pssm ->
     score_def F32.add F32.zero N pssm s i = F32.zero).
Proof.
  intros N pssm s i. split.
  - unfold score_def. apply fold_add_not_nzero. exact f32_zero_not_nzero.
  - apply score_def_zero_cells.
Qed.

(* ---------- round 3, wave 3: the same under the weakest hypothesis on the sequences ----------

   [call_wf C c]: the sequence matrix of the call is well formed (rows of C symbols < K) and has at least
   M - 1 look-ahead rows, M >= 1, K cells per scoring-matrix row, AVX2 / dispatcher only for C = 32 -- NO
   [Striped]: the sequences may come from StripedSequence::new / ::sample (any padding, any number of rows).
   [hop_wf]: the scoring calls of a history are such calls.  [hop_ok] implies [hop_wf], so the theorems
   above are instances. *)
Theorem C01_hop_ok_implies_wf :
  forall (C : nat) (op : hop), hop_ok C op -> hop_wf C op.
Proof. exact hop_ok_wf. Qed.

Theorem C01_scores_history_wf :
  forall (C : nat) (h : list hop) (old : sscores f32) (last : hop) (mid : sscores f32),
    0 < C -> C mod 16 = 0 ->
    sc_wf C old -> Forall (hop_wf C) h -> is_scoring last -> hop_wf C last ->
    f_hrun C h old = Ok mid ->
    sc_wf C mid /\ res_equiv (f_hstep C last mid) (ref_call C last).
Proof. intros C h old last mid HC HC16. apply scores_history_wf; auto. Qed.

Theorem C01_scores_history_last_call_only_wf :
  forall (C : nat) (h1 h2 : list hop) (old1 old2 : sscores f32) (last : hop) (r1 r2 : sscores f32),
    0 < C -> C mod 16 = 0 ->
    sc_wf C old1 -> sc_wf C old2 -> Forall (hop_wf C) h1 -> Forall (hop_wf C) h2 ->
    is_scoring last -> hop_wf C last ->
    f_hrun C (h1 ++ [last]) old1 = Ok r1 -> f_hrun C (h2 ++ [last]) old2 = Ok r2 -> r1 = r2.
Proof. intros C h1 h2 old1 old2 last r1 r2 HC HC16. apply scores_history_last_call_only_wf; auto. Qed.

(* the logical content after a full scan of a PADDED state (new / sample, then configure) that ends any
   history: never panics, max_index = L - M + 1, R = rows - wrap rows (none when L < M), is_empty iff
   L < M, len() = L - M + 1, unstripe() = the defined scores of the logical sequence: neither the
   earlier calls nor the padding show through *)
Theorem C01_scores_history_content_padded :
  forall (C : nat) (h : list hop) (old : sscores f32) (c : call) (s : list nat) (mid : sscores f32),
    0 < C -> C mod 16 = 0 ->
    sc_wf C old -> Forall (hop_wf C) h -> call_wf C c -> Padded C (c_K c - 1) s (c_seq c) ->
    f_hrun C h old = Ok mid ->
    let L := length s in let M := length (c_pssm c) in
    exists r,
      f_hstep C (HScoreInto c) mid = Ok r /\
      sc_max r = (if L <? M then 0 else L + 1 - M) /\
      length (sc_mat r) = (if L <? M then 0 else pad_R (c_seq c)) /\
      sc_is_empty r = (L <? M) /\
      sc_len C r = L + 1 - M /\
      sc_unstripe C r = Ok (map (score_def F32.add F32.zero (c_K c - 1) (c_pssm c) s) (seq 0 (L + 1 - M))).
Proof. intros C h old c s mid HC HC16. apply scores_history_content_padded; auto. Qed.

(* ---------- statement pins ---------- *)

Check C01_scores_history_last_call_only :
  forall (C : nat) (h1 h2 : list hop) (old1 old2 : sscores f32) (last : hop) (r1 r2 : sscores f32),
    0 < C -> C mod 16 = 0 ->
    sc_wf C old1 -> sc_wf C old2 -> Forall (hop_ok C) h1 -> Forall (hop_ok C) h2 ->
    is_scoring last -> hop_ok C last ->
    f_hrun C (h1 ++ [last]) old1 = Ok r1 -> f_hrun C (h2 ++ [last]) old2 = Ok r2 -> r1 = r2.

(* ---------- non-vacuity ---------- *)

(* a history on the README data (32 columns): generic full scan, public resize to a shape with
   stale rows, SSE2 sub-range call, Default, AVX2 full scan of a 3-symbol sequence with the
   15-column motif (empty result), clone: every scoring call satisfies hop_ok, the history runs
   to the end, and a final dispatched full scan gives the 50 README scores again *)
Example C01_scores_history_readme :
  let q := stripe_of 32 4 readme_seq 14 in
  let nopad : nat -> list f32 := fun _ => [F32.nan; F32.nan; F32.nan] in
  let c be := mkCall be 5 readme_pssm nopad q in
  let short := mkCall BAvx2 5 readme_pssm nopad (stripe_of 32 4 [0; 1; 2] 14) in
  let h := [HScoreInto (c BGeneric); HResize 3 7; HRowsInto (c BSse2) 1 2; HFill F32.nan; HDefault;
            HScoreInto short; HClone] in
  Forall (hop_ok 32) h /\ call_on 32 (c (BDispatch ArmAvx2)) readme_seq /\
  (exists mid, f_hrun 32 h sc_empty = Ok mid /\ sc_is_empty mid = true) /\
  rbind (f_hrun 32 (h ++ [HScoreInto (c (BDispatch ArmAvx2))]) sc_empty)
        (fun r => rbind (sc_unstripe 32 r) (fun v => Ok (sc_max r, length v, sc_is_empty r))) = Ok (50, 50, false).
Proof.
  assert (Hp : pssm_wf 5 readme_pssm)
    by (unfold readme_pssm, pssm_wf; cbn [map readme_pssm_bits]; repeat constructor).
  assert (Hs : Forall (fun x => x < 5) readme_seq) by (unfold readme_seq; repeat constructor).
  assert (Hon : forall be, backend_ok 32 be ->
            call_on 32 (mkCall be 5 readme_pssm (fun _ => [F32.nan; F32.nan; F32.nan]) (stripe_of 32 4 readme_seq 14)) readme_seq).
  { intros be Hbe. unfold call_on. cbn [c_K c_pssm c_seq c_be].
    split; [lia|]. split; [exact Hs|]. split; [exact Hp|].
    split; [apply (stripe_of_striped 32 5)|]. split; [vm_compute; lia|]. split; [vm_compute; lia|exact Hbe]. }
  cbv zeta. split; [|split; [|split]].
  - repeat constructor; cbn [hop_ok]; try (eexists; apply Hon; exact I).
    exists [0; 1; 2]. unfold call_on. cbn [c_K c_pssm c_seq c_be].
    split; [lia|]. split; [repeat constructor; lia|]. split; [exact Hp|].
    split; [apply (stripe_of_striped 32 5)|]. split; [vm_compute; lia|]. split; [vm_compute; lia|reflexivity].
  - apply Hon. reflexivity.
  - eexists. split; vm_compute; reflexivity.
  - vm_compute. reflexivity.
Qed.
