(* Striped sequences whose padding cells are NOT the wildcard (model definitions only).

   seq.rs  StripedSequence::new(matrix, length)   accepts ANY matrix with rows * C >= length: the
                                                  rows may be more than ceil(length / C) and the cells
                                                  of linear index >= length hold whatever the matrix held
           StripedSequence::sample(rng, bg, len)  ceil(len / C) rows; up to /repo a1b1f91 EVERY cell was
                                                  drawn from the background (padding never the wildcard);
                                                  since the fix 740d563 the cells of linear index >= len
                                                  are overwritten with the wildcard, i.e. the state is
                                                  [Striped] (a special case of [Padded])

   Such a state followed by configure / configure_wrap is what the scoring code may be given.
   With R = matrix().rows() - wrap() (the divisor used by Index and by score_into) the cell (r, c)
   of a sequence row holds the symbol of linear index c * R + r; the logical sequence is the first
   len() of them. *)
From Coq Require Import List Arith Bool.
From LMScore Require Import ScoreModel.
Import ListNotations.

Section PadModel.
  Variable C : nat.     (* columns *)
  Variable N : nat.     (* the wildcard symbol, K - 1 *)

  (* s.matrix().rows() - s.wrap(): the rows that hold the sequence *)
  Definition pad_R (q : sseq) : nat := length (sq_mat q) - sq_wrap q.

  (* all R * C cells of the sequence rows in linear (position) order: index i is cell (i mod R, i / R) *)
  Definition lin_cells (q : sseq) : list nat :=
    map (fun i => nth (i / pad_R q) (nth (i mod pad_R q) (sq_mat q) []) N) (seq 0 (pad_R q * C)).

  (* what Index<usize> returns for 0 <= i < len() *)
  Definition logical_seq (q : sseq) : list nat := firstn (sq_len q) (lin_cells q).

  (* the padding: the cells of linear index len() .. R*C - 1 *)
  Definition padding_of (q : sseq) : list nat := skipn (sq_len q) (lin_cells q).

  (* the same matrix and look-ahead rows, read as a striped sequence of R * C symbols *)
  Definition full_len (q : sseq) : sseq := mkSeq (pad_R q * C) (sq_wrap q) (sq_mat q).

  (* executable: the sequence rows are rows of C cells, len() fits, and the look-ahead rows are
     the first rows shifted by one column with the wildcard in the last column *)
  Definition padded_b (q : sseq) : bool :=
    (sq_wrap q <=? length (sq_mat q)) && (sq_len q <=? pad_R q * C) &&
    striped_b C N (lin_cells q) (full_len q).
End PadModel.
