(* Property C01 — every backend computes the defined PSSM score at every position.
   This file contains only the property theorems (closed by lemmas of ScoreProofs /
   SimdProofs / F32Proofs), statement pins and non-vacuity examples.

   Notation: L = length s, M = length pssm, R = seq_R C L = ceil(L / C), N = K - 1. *)
From Coq Require Import List Arith Bool Lia.
From LMBase Require Import Res ListX.
From LMScore Require Import ScoreModel ScoreProofs.
Import ListNotations.

(* Every cell (r, c) of the generic pipeline's full scan is the defined score of
   position c*R + r: the sum of pssm[j][s[c*R+r+j]] for j = 0 .. M-1, added left to
   right starting from zero (symbols past the end of the sequence read as the
   wildcard N).  Holds for any carrier and any addition, so for IEEE addition as it is. *)
Theorem C01_score_generic_cell :
  forall (T : Type) (add : T -> T -> T) (zero : T) (C K : nat)
         (pssm : list (list T)) (s : list nat) (q : sseq),
    0 < C -> 0 < K -> Forall (fun x => x < K) s -> pssm_wf K pssm ->
    Striped C (K - 1) s q ->
    1 <= length pssm -> length pssm - 1 <= sq_wrap q -> length pssm <= length s ->
    exists sc,
      generic_score add zero C pssm q = Ok sc /\
      length (sc_mat sc) = seq_R C (length s) /\
      sc_max sc = length s + 1 - length pssm /\
      forall r c, r < seq_R C (length s) -> c < C ->
        nth c (nth r (sc_mat sc) []) zero =
        fold_left add
          (map (fun j => nth (nth (c * seq_R C (length s) + r + j) s (K - 1)) (nth j pssm []) zero)
               (seq 0 (length pssm)))
          zero.
Proof.
  intros T add zero C K pssm s q HC HK Hs Hp Hst HM Hw HL.
  eexists. split; [exact (generic_score_striped add zero C K pssm s q HC HK Hs Hp Hst HM Hw HL)|].
  cbn [sc_mat sc_max]. split; [exact (full_mat_length add zero C K pssm s)|]. split; [reflexivity|].
  intros r c Hr Hc. pose proof (full_mat_cell add zero C K pssm s r c Hr Hc) as E.
  unfold full_mat in E. rewrite E. apply score_def_fold.
Qed.

(* unstripe() of a scan gives exactly L - M + 1 values, value i being the defined
   score of position i; none when L < M. *)
Theorem C01_score_unstripe :
  forall (T : Type) (add : T -> T -> T) (zero : T) (C K : nat)
         (pssm : list (list T)) (s : list nat) (q : sseq),
    0 < C -> 0 < K -> Forall (fun x => x < K) s -> pssm_wf K pssm ->
    Striped C (K - 1) s q ->
    1 <= length pssm -> length pssm - 1 <= sq_wrap q ->
    rbind (generic_score add zero C pssm q) (sc_unstripe C) =
    Ok (map (score_def add zero (K - 1) pssm s) (seq 0 (length s + 1 - length pssm))).
Proof.
  intros T add zero C K pssm s q HC HK Hs Hp Hst HM Hw.
  destruct (le_lt_dec (length pssm) (length s)) as [HL|HL].
  - rewrite (generic_score_striped add zero C K pssm s q HC HK Hs Hp Hst HM Hw HL). simpl.
    exact (unstripe_full add zero C K pssm s HC HM).
  - rewrite (generic_score_short add zero C K pssm s q Hst HL). simpl.
    replace (length s + 1 - length pssm) with 0 by lia. reflexivity.
Qed.

Corollary C01_score_count :
  forall (T : Type) (add : T -> T -> T) (zero : T) (C K : nat)
         (pssm : list (list T)) (s : list nat) (q : sseq) (vals : list T),
    0 < C -> 0 < K -> Forall (fun x => x < K) s -> pssm_wf K pssm ->
    Striped C (K - 1) s q ->
    1 <= length pssm -> length pssm - 1 <= sq_wrap q ->
    rbind (generic_score add zero C pssm q) (sc_unstripe C) = Ok vals ->
    length vals = length s + 1 - length pssm /\
    (length s < length pssm -> vals = []).
Proof.
  intros T add zero C K pssm s q vals HC HK Hs Hp Hst HM Hw H.
  rewrite (C01_score_unstripe T add zero C K pssm s q HC HK Hs Hp Hst HM Hw) in H.
  inversion H; subst. rewrite map_length, seq_length. split; auto.
  intros HL. replace (length s + 1 - length pssm) with 0 by lia. reflexivity.
Qed.

(* A call on rows a..b (a < b <= R) returns rows a..b of the full scan, whatever
   the previous contents of the score buffer. *)
Theorem C01_score_rows_sub :
  forall (T : Type) (add : T -> T -> T) (zero : T) (C K : nat)
         (pssm : list (list T)) (s : list nat) (q : sseq) (a b : nat) (old : sscores T),
    0 < C -> 0 < K -> Forall (fun x => x < K) s -> pssm_wf K pssm ->
    Striped C (K - 1) s q ->
    1 <= length pssm -> length pssm - 1 <= sq_wrap q -> length pssm <= length s ->
    a < b -> b <= seq_R C (length s) ->
    exists full sub,
      generic_score add zero C pssm q = Ok full /\
      generic_rows_into add zero C pssm q a b old = Ok sub /\
      sc_mat sub = firstn (b - a) (skipn a (sc_mat full)) /\
      sc_max sub = sc_max full.
Proof.
  intros T add zero C K pssm s q a b old HC HK Hs Hp Hst HM Hw HL Hab Hb.
  do 2 eexists.
  split; [exact (generic_score_striped add zero C K pssm s q HC HK Hs Hp Hst HM Hw HL)|].
  split.
  - apply (generic_rows_striped add zero C K pssm s q a b old HC HK Hs Hp Hst HM HL Hab).
    destruct Hst as [_ [Hrows _]]. lia.
  - cbn [sc_mat sc_max]. split; [|reflexivity].
    symmetry. apply sub_rows_map; lia.
Qed.

(* ScoringMatrix::score_position agrees with the scan at every scored position. *)
Theorem C01_score_position :
  forall (T : Type) (add : T -> T -> T) (zero : T) (C K : nat)
         (pssm : list (list T)) (s : list nat) (q : sseq) (i : nat),
    0 < C -> 0 < K -> Forall (fun x => x < K) s -> pssm_wf K pssm ->
    Striped C (K - 1) s q -> 1 <= length pssm ->
    i < length s + 1 - length pssm ->
    score_position add zero pssm q i = Ok (score_def add zero (K - 1) pssm s i).
Proof.
  intros T add zero C K pssm s q i HC HK Hs Hp Hst HM Hi.
  apply (score_position_striped add zero C K); auto.
  destruct (seq_R_bound C (length s) HC) as [HB _]. lia.
Qed.
