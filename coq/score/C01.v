(* Property C01 — every backend computes the defined PSSM score at every position.
   This file contains only the property theorems (closed by lemmas of ScoreProofs /
   SimdProofs / Sse2Proofs / F32Proofs / CheckProofs), statement pins and
   non-vacuity examples.

   Notation: L = length s, M = length pssm, R = seq_R C L = ceil(L / C), N = K - 1.
     Striped C N s q  :=  len q = L, rows q = R + wrap q, every row has C symbols,
                          cell r c = nth (c*R + r) s N for all r < R + wrap q, c < C
     pssm_wf K pssm   :=  every row of the scoring matrix has K cells
     sc_wf C old      :=  every row of the (reused) score buffer has C cells
     score_def add zero N pssm s i := fold_left add [pssm[j][nth (i+j) s N] | j < M] zero

   Contents
     1. generic pipeline, any carrier and addition: cell, unstripe/count, sub-range,
        score_position, Index
     2. AVX2 permute / gather kernels, AVX2 wrapper, SSE2 kernel, dispatcher = generic
        (every row range, every buffer content, every padding content)
     3. binary32 corollaries on striped sequences: full scans, sub-ranges, L < M, guards,
        16- and 32-column layouts
     4. IEEE-754 facts from Flocq: -inf absorbs, summation error bound, no-overflow condition
     5. the checker behind PROPFAIL: soundness, completeness on the model, end-to-end statement
     6. round 3 wave 3: the `_wf` statements (mat_wf instead of Striped) precede each kernel equality;
        padded states (StripedSequence::new / ::sample), L < M on iter / Index, look-ahead sub-ranges, shape
     7. statement pins, non-vacuity examples (README data)
   (the composition with the striping model of C04 is in C01History.v) *)
From Coq Require Import List Arith Bool Lia ZArith Reals.
From Flocq Require Import Core BinarySingleNaN.
From LMBase Require Import Res ListX IEEE.
From LMScore Require Import ScoreModel ScorePadModel SimdModel GenAvx2 GenLane4 ScoreCheck ScoreProofs SimdProofs Sse2Proofs
     F32Proofs CheckProofs ScorePad ReadmeExample.
Import ListNotations.

(* Every cell (r, c) of the generic pipeline's full scan is the defined score of
   position c*R + r: the sum of pssm[j][s[c*R+r+j]] for j = 0 .. M-1, added left to
   right starting from zero (symbols past the end of the sequence read as the
   wildcard N).  Holds for any carrier and any addition, so for IEEE addition as it is. *)
Theorem C01_score_generic_cell :
  forall (T : Type) (add : T -> T -> T) (zero : T) (C K : nat)
         (pssm : list (list T)) (s : list nat) (q : sseq),
    0 < C -> 0 < K -> Forall (fun x => x < K) s -> pssm_wf K pssm ->
    Striped C (K - 1) s q ->
    1 <= length pssm -> length pssm - 1 <= sq_wrap q -> length pssm <= length s ->
    exists sc,
      generic_score add zero C pssm q = Ok sc /\
      length (sc_mat sc) = seq_R C (length s) /\
      sc_max sc = length s + 1 - length pssm /\
      forall r c, r < seq_R C (length s) -> c < C ->
        nth c (nth r (sc_mat sc) []) zero =
        fold_left add
          (map (fun j => nth (nth (c * seq_R C (length s) + r + j) s (K - 1)) (nth j pssm []) zero)
               (seq 0 (length pssm)))
          zero.
Proof.
  intros T add zero C K pssm s q HC HK Hs Hp Hst HM Hw HL.
  eexists. split; [exact (generic_score_striped add zero C K pssm s q HC HK Hs Hp Hst HM Hw HL)|].
  cbn [sc_mat sc_max]. split; [exact (full_mat_length add zero C K pssm s)|]. split; [reflexivity|].
  intros r c Hr Hc. pose proof (full_mat_cell add zero C K pssm s r c Hr Hc) as E.
  unfold full_mat in E. rewrite E. apply score_def_fold.
Qed.

(* unstripe() of a scan gives exactly L - M + 1 values, value i being the defined
   score of position i; none when L < M. *)
Theorem C01_score_unstripe :
  forall (T : Type) (add : T -> T -> T) (zero : T) (C K : nat)
         (pssm : list (list T)) (s : list nat) (q : sseq),
    0 < C -> 0 < K -> Forall (fun x => x < K) s -> pssm_wf K pssm ->
    Striped C (K - 1) s q ->
    1 <= length pssm -> length pssm - 1 <= sq_wrap q ->
    rbind (generic_score add zero C pssm q) (sc_unstripe C) =
    Ok (map (score_def add zero (K - 1) pssm s) (seq 0 (length s + 1 - length pssm))).
Proof.
  intros T add zero C K pssm s q HC HK Hs Hp Hst HM Hw.
  destruct (le_lt_dec (length pssm) (length s)) as [HL|HL].
  - rewrite (generic_score_striped add zero C K pssm s q HC HK Hs Hp Hst HM Hw HL). simpl.
    exact (unstripe_full add zero C K pssm s HC HM).
  - rewrite (generic_score_short add zero C K pssm s q Hst HL). simpl.
    replace (length s + 1 - length pssm) with 0 by lia. reflexivity.
Qed.

Corollary C01_score_count :
  forall (T : Type) (add : T -> T -> T) (zero : T) (C K : nat)
         (pssm : list (list T)) (s : list nat) (q : sseq) (vals : list T),
    0 < C -> 0 < K -> Forall (fun x => x < K) s -> pssm_wf K pssm ->
    Striped C (K - 1) s q ->
    1 <= length pssm -> length pssm - 1 <= sq_wrap q ->
    rbind (generic_score add zero C pssm q) (sc_unstripe C) = Ok vals ->
    length vals = length s + 1 - length pssm /\
    (length s < length pssm -> vals = []).
Proof.
  intros T add zero C K pssm s q vals HC HK Hs Hp Hst HM Hw H.
  rewrite (C01_score_unstripe T add zero C K pssm s q HC HK Hs Hp Hst HM Hw) in H.
  inversion H; subst. rewrite map_length, seq_length. split; auto.
  intros HL. replace (length s + 1 - length pssm) with 0 by lia. reflexivity.
Qed.

(* A call on rows a..b (a < b <= R) returns rows a..b of the full scan, whatever
   the previous contents of the score buffer. *)
Theorem C01_score_rows_sub :
  forall (T : Type) (add : T -> T -> T) (zero : T) (C K : nat)
         (pssm : list (list T)) (s : list nat) (q : sseq) (a b : nat) (old : sscores T),
    0 < C -> 0 < K -> Forall (fun x => x < K) s -> pssm_wf K pssm ->
    Striped C (K - 1) s q ->
    1 <= length pssm -> length pssm - 1 <= sq_wrap q -> length pssm <= length s ->
    a < b -> b <= seq_R C (length s) ->
    exists full sub,
      generic_score add zero C pssm q = Ok full /\
      generic_rows_into add zero C pssm q a b old = Ok sub /\
      sc_mat sub = firstn (b - a) (skipn a (sc_mat full)) /\
      sc_max sub = sc_max full.
Proof.
  intros T add zero C K pssm s q a b old HC HK Hs Hp Hst HM Hw HL Hab Hb.
  do 2 eexists.
  split; [exact (generic_score_striped add zero C K pssm s q HC HK Hs Hp Hst HM Hw HL)|].
  split.
  - apply (generic_rows_striped add zero C K pssm s q a b old HC HK Hs Hp Hst HM HL Hab).
    destruct Hst as [_ [Hrows _]]. lia.
  - cbn [sc_mat sc_max]. split; [|reflexivity].
    symmetry. apply sub_rows_map; lia.
Qed.

(* ScoringMatrix::score_position agrees with the scan at every scored position. *)
Theorem C01_score_position :
  forall (T : Type) (add : T -> T -> T) (zero : T) (C K : nat)
         (pssm : list (list T)) (s : list nat) (q : sseq) (i : nat),
    0 < C -> 0 < K -> Forall (fun x => x < K) s -> pssm_wf K pssm ->
    Striped C (K - 1) s q -> 1 <= length pssm ->
    i < length s + 1 - length pssm ->
    score_position add zero pssm q i = Ok (score_def add zero (K - 1) pssm s i).
Proof.
  intros T add zero C K pssm s q i HC HK Hs Hp Hst HM Hi.
  apply (score_position_striped add zero C K); auto.
  destruct (seq_R_bound C (length s) HC) as [HB _]. lia.
Qed.

(* Index<usize> of the score matrix: index i < R*C reads the defined score of position i
   (for i > L - M these are the padding cells, scored with wildcards past the end of the
   sequence); an index >= R*C panics. *)
Theorem C01_score_index :
  forall (T : Type) (add : T -> T -> T) (zero : T) (C K : nat)
         (pssm : list (list T)) (s : list nat) (q : sseq) (i : nat),
    0 < C -> 0 < K -> Forall (fun x => x < K) s -> pssm_wf K pssm ->
    Striped C (K - 1) s q ->
    1 <= length pssm -> length pssm - 1 <= sq_wrap q -> length pssm <= length s ->
    (i < seq_R C (length s) * C ->
     rbind (generic_score add zero C pssm q) (fun sc => sc_get sc i) =
     Ok (score_def add zero (K - 1) pssm s i)) /\
    (seq_R C (length s) * C <= i ->
     is_panic (rbind (generic_score add zero C pssm q) (fun sc => sc_get sc i)) = true).
Proof.
  intros T add zero C K pssm s q i HC HK Hs Hp Hst HM Hw HL.
  rewrite (generic_score_striped add zero C K pssm s q HC HK Hs Hp Hst HM Hw HL). cbn [rbind].
  split; intros Hi.
  - apply (sc_get_full add zero C K); auto.
  - apply (sc_get_full_out add zero C K); auto.
Qed.

(* StripedScores::iter as a double-ended, exact-size, fused iterator over a full scan: any
   interleaving of next() (false) and next_back() (true) yields, from the front, the defined
   scores of positions 0, 1, .. and, from the back, those of positions L-M, L-M-1, ..; each
   position at most once; None once the two ends have met.  In particular n calls of next()
   give unstripe() and n calls of next_back() give its reverse; len() = L - M + 1. *)
Theorem C01_scores_iter_double_ended :
  forall (T : Type) (add : T -> T -> T) (zero : T) (C K : nat)
         (pssm : list (list T)) (s : list nat) (q : sseq) (ops : list bool),
    0 < C -> 0 < K -> Forall (fun x => x < K) s -> pssm_wf K pssm ->
    Striped C (K - 1) s q ->
    1 <= length pssm -> length pssm - 1 <= sq_wrap q -> length pssm <= length s ->
    let n := length s + 1 - length pssm in
    exists sc,
      generic_score add zero C pssm q = Ok sc /\
      sc_iter_end C sc = n /\
      sc_iter_ops C sc ops = Ok (iter_spec (score_def add zero (K - 1) pssm s) ops 0 n) /\
      iter_spec (score_def add zero (K - 1) pssm s) (repeat false n) 0 n =
        map (fun i => Some (score_def add zero (K - 1) pssm s i)) (seq 0 n) /\
      iter_spec (score_def add zero (K - 1) pssm s) (repeat true n) 0 n =
        map (fun i => Some (score_def add zero (K - 1) pssm s (n - 1 - i))) (seq 0 n).
Proof.
  intros T add zero C K pssm s q ops HC HK Hs Hp Hst HM Hw HL n.
  exists (mkScores (full_mat add zero C K pssm s) n).
  split; [exact (generic_score_striped add zero C K pssm s q HC HK Hs Hp Hst HM Hw HL)|].
  destruct (seq_R_bound C (length s) HC) as [HB _].
  assert (E : sc_iter_end C (mkScores (full_mat add zero C K pssm s) n) = n).
  { unfold sc_iter_end. cbn [sc_max sc_mat]. rewrite full_mat_length. unfold n. apply Nat.min_l. lia. }
  split; [exact E|]. split.
  - unfold sc_iter_ops. rewrite E. apply (iter_run_full add zero C K); auto. unfold n. lia.
  - split; [apply iter_spec_front|apply iter_spec_back]; lia.
Qed.

(* offset(MatrixCoordinates { row, col }) is the index that Index<usize> maps back to that cell:
   scores[offset(r, c)] is the defined score of position c*R + r *)
Theorem C01_scores_offset :
  forall (T : Type) (add : T -> T -> T) (zero : T) (C K : nat)
         (pssm : list (list T)) (s : list nat) (q : sseq) (r c : nat),
    0 < C -> 0 < K -> Forall (fun x => x < K) s -> pssm_wf K pssm ->
    Striped C (K - 1) s q ->
    1 <= length pssm -> length pssm - 1 <= sq_wrap q -> length pssm <= length s ->
    r < seq_R C (length s) -> c < C ->
    rbind (generic_score add zero C pssm q) (fun sc => sc_get sc (sc_offset sc r c)) =
    Ok (score_def add zero (K - 1) pssm s (c * seq_R C (length s) + r)).
Proof.
  intros T add zero C K pssm s q r c HC HK Hs Hp Hst HM Hw HL Hr Hc.
  rewrite (generic_score_striped add zero C K pssm s q HC HK Hs Hp Hst HM Hw HL). cbn [rbind].
  unfold sc_offset. cbn [sc_mat]. rewrite map_length, seq_length.
  apply (sc_get_full add zero C K pssm s); auto. nia.
Qed.

(* ====================================================================== *)
(* SIMD kernels and the dispatcher.

   [res_equiv x y]: both are [Ok] with the same score matrix and max_index, or both
   panic (the generic kernel panics by a slice index, the SIMD wrappers by their
   assertion).  Every statement is for ALL row ranges a..b (inside the sequence
   rows, reaching into or past the look-ahead rows, empty, inverted), ALL previous
   contents [old] of the reused score buffer and ALL contents [pads] of the padding
   of the aligned scoring-matrix rows.  The lane tables ([avx2_*_consts], [sse2_consts],
   [neon_consts]) and the dispatcher's arm table ([dispatch_score_f32]) are regenerated
   from avx2.rs / sse2.rs / neon.rs / dispatch.rs by the translators on every run; the
   reflection checks [avx2_layout_ok] / [lane4_layout_ok] are re-evaluated here by
   computation ([vm_compute; reflexivity] inside each proof). *)

(* The equalities need of the sequence matrix only [mat_wf C K (sq_mat q)]: every row has C cells
   and every cell is a symbol (< K) -- the type invariant of DenseMatrix<A::Symbol, C>.  The `_wf`
   statements therefore cover EVERY StripedSequence the API can build, whatever its cells hold:
   Stripe::stripe / stripe_into and StripedSequence::sample (wildcard padding, [Striped]; sample drew its
   padding like the sequence before /repo 740d563) and StripedSequence::new on any matrix (any padding,
   any number of rows with rows * C >= len), before or after any configure / configure_wrap.  The statements with
   [Striped] that follow each of them are corollaries (kept under their round-2 names). *)
Theorem C01_score_avx2_permute_eq_wf :
  forall (T : Type) (add : T -> T -> T) (zero : T) (K : nat)
         (pssm : list (list T)) (pads : nat -> list T) (q : sseq)
         (a b : nat) (old : sscores T),
    K <= 8 -> mat_wf 32 K (sq_mat q) -> pssm_wf K pssm -> sc_wf 32 old ->
    1 <= length pssm -> length pssm - 1 <= sq_wrap q ->
    res_equiv (avx2_permute_rows_into add zero avx2_permute_consts pssm pads q a b old)
              (generic_rows_into add zero 32 pssm q a b old).
Proof.
  intros T add zero K pssm pads q a b old HK8 Hm Hp Hw HM Hwrap.
  apply avx2_permute_equiv with (K := K); auto; try (vm_compute; reflexivity).
Qed.

Corollary C01_score_avx2_permute_eq :
  forall (T : Type) (add : T -> T -> T) (zero : T) (K : nat)
         (pssm : list (list T)) (pads : nat -> list T) (s : list nat) (q : sseq)
         (a b : nat) (old : sscores T),
    0 < K -> K <= 8 -> Forall (fun x => x < K) s -> pssm_wf K pssm ->
    Striped 32 (K - 1) s q -> sc_wf 32 old ->
    1 <= length pssm -> length pssm - 1 <= sq_wrap q ->
    res_equiv (avx2_permute_rows_into add zero avx2_permute_consts pssm pads q a b old)
              (generic_rows_into add zero 32 pssm q a b old).
Proof.
  intros T add zero K pssm pads s q a b old HK HK8 Hs Hp Hst Hw HM Hwrap.
  apply (C01_score_avx2_permute_eq_wf T add zero K); auto. eapply striped_mat_wf; eauto.
Qed.

Theorem C01_score_avx2_gather_eq_wf :
  forall (T : Type) (add : T -> T -> T) (zero : T) (K : nat)
         (pssm : list (list T)) (pads : nat -> list T) (q : sseq)
         (a b : nat) (old : sscores T),
    mat_wf 32 K (sq_mat q) -> pssm_wf K pssm -> sc_wf 32 old ->
    1 <= length pssm -> length pssm - 1 <= sq_wrap q ->
    res_equiv (avx2_gather_rows_into add zero avx2_gather_consts pssm pads q a b old)
              (generic_rows_into add zero 32 pssm q a b old).
Proof.
  intros T add zero K pssm pads q a b old Hm Hp Hw HM Hwrap.
  apply avx2_gather_equiv with (K := K); auto; try (vm_compute; reflexivity).
Qed.

Corollary C01_score_avx2_gather_eq :
  forall (T : Type) (add : T -> T -> T) (zero : T) (K : nat)
         (pssm : list (list T)) (pads : nat -> list T) (s : list nat) (q : sseq)
         (a b : nat) (old : sscores T),
    0 < K -> Forall (fun x => x < K) s -> pssm_wf K pssm ->
    Striped 32 (K - 1) s q -> sc_wf 32 old ->
    1 <= length pssm -> length pssm - 1 <= sq_wrap q ->
    res_equiv (avx2_gather_rows_into add zero avx2_gather_consts pssm pads q a b old)
              (generic_rows_into add zero 32 pssm q a b old).
Proof.
  intros T add zero K pssm pads s q a b old HK Hs Hp Hst Hw HM Hwrap.
  apply (C01_score_avx2_gather_eq_wf T add zero K); auto. eapply striped_mat_wf; eauto.
Qed.

(* Avx2::score_f32_rows_into: permute kernel for K <= 8 (DNA), gather kernel otherwise (protein) *)
Theorem C01_score_avx2_eq_wf :
  forall (T : Type) (add : T -> T -> T) (zero : T) (K : nat)
         (pssm : list (list T)) (pads : nat -> list T) (q : sseq)
         (a b : nat) (old : sscores T),
    mat_wf 32 K (sq_mat q) -> pssm_wf K pssm -> sc_wf 32 old ->
    1 <= length pssm -> length pssm - 1 <= sq_wrap q ->
    res_equiv (avx2_rows_into add zero avx2_permute_consts avx2_gather_consts K pssm pads q a b old)
              (generic_rows_into add zero 32 pssm q a b old).
Proof.
  intros T add zero K pssm pads q a b old Hm Hp Hw HM Hwrap.
  apply avx2_equiv; auto; try (vm_compute; reflexivity).
Qed.

Corollary C01_score_avx2_eq :
  forall (T : Type) (add : T -> T -> T) (zero : T) (K : nat)
         (pssm : list (list T)) (pads : nat -> list T) (s : list nat) (q : sseq)
         (a b : nat) (old : sscores T),
    0 < K -> Forall (fun x => x < K) s -> pssm_wf K pssm ->
    Striped 32 (K - 1) s q -> sc_wf 32 old ->
    1 <= length pssm -> length pssm - 1 <= sq_wrap q ->
    res_equiv (avx2_rows_into add zero avx2_permute_consts avx2_gather_consts K pssm pads q a b old)
              (generic_rows_into add zero 32 pssm q a b old).
Proof.
  intros T add zero K pssm pads s q a b old HK Hs Hp Hst Hw HM Hwrap.
  apply (C01_score_avx2_eq_wf T add zero K); auto. eapply striped_mat_wf; eauto.
Qed.

(* SSE2 (any number of columns that is a multiple of 16).  The kernel adds
   lut_k & (x == k) for EVERY symbol k, i.e. K - 1 extra additions of +0.0 per
   matrix row: it equals the generic kernel for every addition such that
   x + zero = x on a class P of values that contains zero and is closed under
   x + _ (IEEE: P = "not -0.0", instantiated below). *)
Theorem C01_score_sse2_eq_wf :
  forall (T : Type) (add : T -> T -> T) (zero : T) (P : T -> Prop) (C K : nat)
         (pssm : list (list T)) (q : sseq) (a b : nat) (old : sscores T),
    P zero -> (forall x y, P x -> P (add x y)) -> (forall x, P x -> add x zero = x) ->
    0 < C -> C mod 16 = 0 ->
    mat_wf C K (sq_mat q) -> pssm_wf K pssm -> sc_wf C old ->
    1 <= length pssm -> length pssm - 1 <= sq_wrap q ->
    res_equiv (sse2_rows_into add zero sse2_consts C pssm q a b old)
              (generic_rows_into add zero C pssm q a b old).
Proof.
  intros T add zero P C K pssm q a b old P0 Pa Pz HC HC16 Hm Hp Hw HM Hwrap.
  apply (sse2_equiv add zero C K P); auto; try (vm_compute; reflexivity).
Qed.

Corollary C01_score_sse2_eq :
  forall (T : Type) (add : T -> T -> T) (zero : T) (P : T -> Prop) (C K : nat)
         (pssm : list (list T)) (s : list nat) (q : sseq) (a b : nat) (old : sscores T),
    P zero -> (forall x y, P x -> P (add x y)) -> (forall x, P x -> add x zero = x) ->
    0 < C -> C mod 16 = 0 ->
    0 < K -> Forall (fun x => x < K) s -> pssm_wf K pssm ->
    Striped C (K - 1) s q -> sc_wf C old ->
    1 <= length pssm -> length pssm - 1 <= sq_wrap q ->
    res_equiv (sse2_rows_into add zero sse2_consts C pssm q a b old)
              (generic_rows_into add zero C pssm q a b old).
Proof.
  intros T add zero P C K pssm s q a b old P0 Pa Pz HC HC16 HK Hs Hp Hst Hw HM Hwrap.
  apply (C01_score_sse2_eq_wf T add zero P C K); auto. eapply striped_mat_wf; eauto.
Qed.

(* binary32: the two facts about IEEE addition are theorems of Flocq's model *)
Theorem C01_f32_add_zero_facts :
  not_nzero F32.zero /\
  (forall x y, not_nzero x -> not_nzero (F32.add x y)) /\
  (forall x, not_nzero x -> F32.add x F32.zero = x).
Proof.
  split; [exact f32_zero_not_nzero|]. split; [exact f32_add_not_nzero|exact f32_add_zero].
Qed.

Theorem C01_score_sse2_eq_f32_wf :
  forall (C K : nat) (pssm : list (list f32)) (q : sseq) (a b : nat) (old : sscores f32),
    0 < C -> C mod 16 = 0 ->
    mat_wf C K (sq_mat q) -> pssm_wf K pssm -> sc_wf C old ->
    1 <= length pssm -> length pssm - 1 <= sq_wrap q ->
    res_equiv (sse2_rows_into F32.add F32.zero sse2_consts C pssm q a b old)
              (generic_rows_into F32.add F32.zero C pssm q a b old).
Proof.
  intros C K pssm q a b old HC HC16 Hm Hp Hw HM Hwrap.
  apply (C01_score_sse2_eq_wf f32 F32.add F32.zero not_nzero C K pssm q a b old
           f32_zero_not_nzero f32_add_not_nzero f32_add_zero); auto.
Qed.

Corollary C01_score_sse2_eq_f32 :
  forall (C K : nat) (pssm : list (list f32)) (s : list nat) (q : sseq) (a b : nat) (old : sscores f32),
    0 < C -> C mod 16 = 0 ->
    0 < K -> Forall (fun x => x < K) s -> pssm_wf K pssm ->
    Striped C (K - 1) s q -> sc_wf C old ->
    1 <= length pssm -> length pssm - 1 <= sq_wrap q ->
    res_equiv (sse2_rows_into F32.add F32.zero sse2_consts C pssm q a b old)
              (generic_rows_into F32.add F32.zero C pssm q a b old).
Proof.
  intros C K pssm s q a b old HC HC16 HK Hs Hp Hst Hw HM Hwrap.
  apply (C01_score_sse2_eq f32 F32.add F32.zero not_nzero C K pssm s q a b old
           f32_zero_not_nzero f32_add_not_nzero f32_add_zero); auto.
Qed.

(* NEON (neon.rs is not compiled on an x86 host: this model is tied to the source by the
   translator only -- kernel lane bookkeeping and the three wrapper guards --, its intrinsics
   semantics is never exercised).  Same kernel shape and same guards as SSE2. *)
Theorem C01_score_neon_eq_wf :
  forall (T : Type) (add : T -> T -> T) (zero : T) (P : T -> Prop) (C K : nat)
         (pssm : list (list T)) (q : sseq) (a b : nat) (old : sscores T),
    P zero -> (forall x y, P x -> P (add x y)) -> (forall x, P x -> add x zero = x) ->
    0 < C -> C mod 16 = 0 ->
    mat_wf C K (sq_mat q) -> pssm_wf K pssm -> sc_wf C old ->
    1 <= length pssm -> length pssm - 1 <= sq_wrap q ->
    res_equiv (neon_rows_into add zero neon_consts C pssm q a b old)
              (generic_rows_into add zero C pssm q a b old).
Proof.
  intros T add zero P C K pssm q a b old P0 Pa Pz HC HC16 Hm Hp Hw HM Hwrap.
  apply (neon_equiv add zero C K P); auto; try (vm_compute; reflexivity).
Qed.

Corollary C01_score_neon_eq :
  forall (T : Type) (add : T -> T -> T) (zero : T) (P : T -> Prop) (C K : nat)
         (pssm : list (list T)) (s : list nat) (q : sseq) (a b : nat) (old : sscores T),
    P zero -> (forall x y, P x -> P (add x y)) -> (forall x, P x -> add x zero = x) ->
    0 < C -> C mod 16 = 0 ->
    0 < K -> Forall (fun x => x < K) s -> pssm_wf K pssm ->
    Striped C (K - 1) s q -> sc_wf C old ->
    1 <= length pssm -> length pssm - 1 <= sq_wrap q ->
    res_equiv (neon_rows_into add zero neon_consts C pssm q a b old)
              (generic_rows_into add zero C pssm q a b old).
Proof.
  intros T add zero P C K pssm s q a b old P0 Pa Pz HC HC16 HK Hs Hp Hst Hw HM Hwrap.
  apply (C01_score_neon_eq_wf T add zero P C K); auto. eapply striped_mat_wf; eauto.
Qed.

(* The wrapper as it was BEFORE /repo commit 9cd9b52 (no row-range assertion) violated this: a
   range reaching past the look-ahead rows made the NEON kernel load through a raw pointer past
   the sequence matrix (undefined behaviour, [Err 66]) where the generic kernel panics on the slice
   index and the SSE2 / AVX2 wrappers panic on their assertion.  Witness: L = 3, C = 16, M = 2,
   configure() (one look-ahead row), rows 0..2; the repaired wrapper panics like SSE2. *)
Theorem C01_neon_range_unguarded_old_refuted :
  let pssm := [[1; 2; 3; 4; 5]; [6; 7; 8; 9; 10]] in
  let q := stripe_of 16 4 [0; 1; 2] 1 in
  Striped 16 4 [0; 1; 2] q /\ pssm_wf 5 pssm /\ length pssm - 1 <= sq_wrap q /\
  neon_rows_into_old Nat.add 0 neon_consts 16 pssm q 0 2 sc_empty = Err 66 /\
  neon_rows_into Nat.add 0 neon_consts 16 pssm q 0 2 sc_empty = Panic 32 /\
  sse2_rows_into Nat.add 0 sse2_consts 16 pssm q 0 2 sc_empty = Panic 32 /\
  generic_rows_into Nat.add 0 16 pssm q 0 2 sc_empty = Panic 1.
Proof.
  split; [apply (stripe_of_striped 16 5)|].
  split; [repeat constructor|]. vm_compute. repeat split; lia.
Qed.

(* the runtime dispatcher, for every arm (and, in fact, every arm -> kernel table) *)
Theorem C01_score_dispatch_eq_wf :
  forall (T : Type) (add : T -> T -> T) (zero : T) (P : T -> Prop) (K : nat)
         (pssm : list (list T)) (pads : nat -> list T) (q : sseq)
         (ar : arm) (a b : nat) (old : sscores T),
    P zero -> (forall x y, P x -> P (add x y)) -> (forall x, P x -> add x zero = x) ->
    mat_wf 32 K (sq_mat q) -> pssm_wf K pssm -> sc_wf 32 old ->
    1 <= length pssm -> length pssm - 1 <= sq_wrap q ->
    res_equiv (dispatch_rows_into add zero dispatch_score_f32 avx2_permute_consts avx2_gather_consts sse2_consts
                                  K pssm pads ar q a b old)
              (generic_rows_into add zero 32 pssm q a b old).
Proof.
  intros T add zero P K pssm pads q ar a b old P0 Pa Pz Hm Hp Hw HM Hwrap.
  apply (dispatch_equiv add zero K P); auto; try (vm_compute; reflexivity).
Qed.

Corollary C01_score_dispatch_eq :
  forall (T : Type) (add : T -> T -> T) (zero : T) (P : T -> Prop) (K : nat)
         (pssm : list (list T)) (pads : nat -> list T) (s : list nat) (q : sseq)
         (ar : arm) (a b : nat) (old : sscores T),
    P zero -> (forall x y, P x -> P (add x y)) -> (forall x, P x -> add x zero = x) ->
    0 < K -> Forall (fun x => x < K) s -> pssm_wf K pssm ->
    Striped 32 (K - 1) s q -> sc_wf 32 old ->
    1 <= length pssm -> length pssm - 1 <= sq_wrap q ->
    res_equiv (dispatch_rows_into add zero dispatch_score_f32 avx2_permute_consts avx2_gather_consts sse2_consts
                                  K pssm pads ar q a b old)
              (generic_rows_into add zero 32 pssm q a b old).
Proof.
  intros T add zero P K pssm pads s q ar a b old P0 Pa Pz HK Hs Hp Hst Hw HM Hwrap.
  apply (C01_score_dispatch_eq_wf T add zero P K); auto. eapply striped_mat_wf; eauto.
Qed.

Theorem C01_score_dispatch_eq_f32_wf :
  forall (K : nat) (pssm : list (list f32)) (pads : nat -> list f32) (q : sseq)
         (ar : arm) (a b : nat) (old : sscores f32),
    mat_wf 32 K (sq_mat q) -> pssm_wf K pssm -> sc_wf 32 old ->
    1 <= length pssm -> length pssm - 1 <= sq_wrap q ->
    res_equiv (dispatch_rows_into F32.add F32.zero dispatch_score_f32 avx2_permute_consts
                                  avx2_gather_consts sse2_consts K pssm pads ar q a b old)
              (generic_rows_into F32.add F32.zero 32 pssm q a b old).
Proof.
  intros K pssm pads q ar a b old Hm Hp Hw HM Hwrap.
  apply (C01_score_dispatch_eq_wf f32 F32.add F32.zero not_nzero K pssm pads q ar a b old
           f32_zero_not_nzero f32_add_not_nzero f32_add_zero); auto.
Qed.

Corollary C01_score_dispatch_eq_f32 :
  forall (K : nat) (pssm : list (list f32)) (pads : nat -> list f32) (s : list nat) (q : sseq)
         (ar : arm) (a b : nat) (old : sscores f32),
    0 < K -> Forall (fun x => x < K) s -> pssm_wf K pssm ->
    Striped 32 (K - 1) s q -> sc_wf 32 old ->
    1 <= length pssm -> length pssm - 1 <= sq_wrap q ->
    res_equiv (dispatch_rows_into F32.add F32.zero dispatch_score_f32 avx2_permute_consts
                                  avx2_gather_consts sse2_consts K pssm pads ar q a b old)
              (generic_rows_into F32.add F32.zero 32 pssm q a b old).
Proof.
  intros K pssm pads s q ar a b old HK Hs Hp Hst Hw HM Hwrap.
  apply (C01_score_dispatch_eq f32 F32.add F32.zero not_nzero K pssm pads s q ar a b old
           f32_zero_not_nzero f32_add_not_nzero f32_add_zero); auto.
Qed.

(* the same dispatcher as compiled on arm / aarch64 hosts: `Dispatch` has the arms Generic and
   Neon there and the dispatching pipeline runs on 16 columns (Lanes = <Neon as Backend>::Lanes);
   [dispatch_score_f32_arm] is read from the cfg(any(arm, aarch64)) and unconditional arms of the
   same `match` (translator + proof only: nothing of this can be executed on this host) *)
Theorem C01_score_dispatch_arm_eq_wf :
  forall (T : Type) (add : T -> T -> T) (zero : T) (P : T -> Prop) (K : nat)
         (pssm : list (list T)) (q : sseq)
         (ar : neon_arm) (a b : nat) (old : sscores T),
    P zero -> (forall x y, P x -> P (add x y)) -> (forall x, P x -> add x zero = x) ->
    mat_wf 16 K (sq_mat q) -> pssm_wf K pssm -> sc_wf 16 old ->
    1 <= length pssm -> length pssm - 1 <= sq_wrap q ->
    res_equiv (dispatch_rows_into_arm add zero dispatch_score_f32_arm neon_consts pssm ar q a b old)
              (generic_rows_into add zero 16 pssm q a b old).
Proof.
  intros T add zero P K pssm q ar a b old P0 Pa Pz Hm Hp Hw HM Hwrap.
  apply (dispatch_arm_equiv add zero K P); auto; try (vm_compute; reflexivity).
Qed.

Corollary C01_score_dispatch_arm_eq :
  forall (T : Type) (add : T -> T -> T) (zero : T) (P : T -> Prop) (K : nat)
         (pssm : list (list T)) (s : list nat) (q : sseq)
         (ar : neon_arm) (a b : nat) (old : sscores T),
    P zero -> (forall x y, P x -> P (add x y)) -> (forall x, P x -> add x zero = x) ->
    0 < K -> Forall (fun x => x < K) s -> pssm_wf K pssm ->
    Striped 16 (K - 1) s q -> sc_wf 16 old ->
    1 <= length pssm -> length pssm - 1 <= sq_wrap q ->
    res_equiv (dispatch_rows_into_arm add zero dispatch_score_f32_arm neon_consts pssm ar q a b old)
              (generic_rows_into add zero 16 pssm q a b old).
Proof.
  intros T add zero P K pssm s q ar a b old P0 Pa Pz HK Hs Hp Hst Hw HM Hwrap.
  apply (C01_score_dispatch_arm_eq_wf T add zero P K); auto. eapply striped_mat_wf; eauto.
Qed.

Theorem C01_score_dispatch_arm_eq_f32_wf :
  forall (K : nat) (pssm : list (list f32)) (q : sseq)
         (ar : neon_arm) (a b : nat) (old : sscores f32),
    mat_wf 16 K (sq_mat q) -> pssm_wf K pssm -> sc_wf 16 old ->
    1 <= length pssm -> length pssm - 1 <= sq_wrap q ->
    res_equiv (dispatch_rows_into_arm F32.add F32.zero dispatch_score_f32_arm neon_consts pssm ar q a b old)
              (generic_rows_into F32.add F32.zero 16 pssm q a b old).
Proof.
  intros K pssm q ar a b old Hm Hp Hw HM Hwrap.
  apply (C01_score_dispatch_arm_eq_wf f32 F32.add F32.zero not_nzero K pssm q ar a b old
           f32_zero_not_nzero f32_add_not_nzero f32_add_zero); auto.
Qed.

Corollary C01_score_dispatch_arm_eq_f32 :
  forall (K : nat) (pssm : list (list f32)) (s : list nat) (q : sseq)
         (ar : neon_arm) (a b : nat) (old : sscores f32),
    0 < K -> Forall (fun x => x < K) s -> pssm_wf K pssm ->
    Striped 16 (K - 1) s q -> sc_wf 16 old ->
    1 <= length pssm -> length pssm - 1 <= sq_wrap q ->
    res_equiv (dispatch_rows_into_arm F32.add F32.zero dispatch_score_f32_arm neon_consts pssm ar q a b old)
              (generic_rows_into F32.add F32.zero 16 pssm q a b old).
Proof.
  intros K pssm s q ar a b old HK Hs Hp Hst Hw HM Hwrap.
  apply (C01_score_dispatch_arm_eq f32 F32.add F32.zero not_nzero K pssm s q ar a b old
           f32_zero_not_nzero f32_add_not_nzero f32_add_zero); auto.
Qed.

(* the safe wrappers of the five SIMD score kernels establish, in this order, exactly the steps
   that [simd_guard] models: wrap guard, `L < M || rows.is_empty()` early return, row-range
   assertion, resize, kernel call -- read from avx2.rs (f32 permute, f32 gather, u8 shuffle),
   sse2.rs and neon.rs on every run; and Avx2::score_f32_rows_into picks the permute kernel
   for K <= 8 as [avx2_rows_into] does.  Removing, duplicating or reordering a guard, or adding
   another early exit, changes a generated list. *)
Theorem C01_wrapper_guards_as_modelled :
  avx2_permute_wrapper = simd_guard_steps /\ avx2_gather_wrapper = simd_guard_steps /\
  avx2_u8_wrapper = simd_guard_steps /\ sse2_wrapper = simd_guard_steps /\
  neon_wrapper = simd_guard_steps /\ avx2_permute_max_k = 8.
Proof. repeat split; reflexivity. Qed.

(* ====================================================================== *)
(* What the equalities give on a configured striped sequence (binary32). *)

(* full scans: AVX2, SSE2 and every arm of the dispatcher return the score matrix of
   the generic pipeline, whose cell (r, c) is the defined score of position c*R + r *)
Theorem C01_backends_full_scan :
  forall (K : nat) (pssm : list (list f32)) (pads : nat -> list f32) (s : list nat) (q : sseq) (ar : arm),
    0 < K -> Forall (fun x => x < K) s -> pssm_wf K pssm ->
    Striped 32 (K - 1) s q ->
    1 <= length pssm -> length pssm - 1 <= sq_wrap q -> length pssm <= length s ->
    exists sc,
      generic_score F32.add F32.zero 32 pssm q = Ok sc /\
      score_with (avx2_rows_into F32.add F32.zero avx2_permute_consts avx2_gather_consts K pssm pads) q = Ok sc /\
      score_with (sse2_rows_into F32.add F32.zero sse2_consts 32 pssm) q = Ok sc /\
      score_with (dispatch_rows_into F32.add F32.zero dispatch_score_f32 avx2_permute_consts
                                     avx2_gather_consts sse2_consts K pssm pads ar) q = Ok sc /\
      sc_max sc = length s + 1 - length pssm /\
      forall r c, r < seq_R 32 (length s) -> c < 32 ->
        nth c (nth r (sc_mat sc) []) F32.zero =
        score_def F32.add F32.zero (K - 1) pssm s (c * seq_R 32 (length s) + r).
Proof.
  intros K pssm pads s q ar HK Hs Hp Hst HM Hwrap HL.
  pose proof (generic_score_striped F32.add F32.zero 32 K pssm s q ltac:(lia) HK Hs Hp Hst HM Hwrap HL) as E.
  eexists. split; [exact E|].
  split; [|split; [|split]].
  - apply (score_with_eq_generic F32.add F32.zero 32 _ pssm q); auto. intros a b.
    apply (C01_score_avx2_eq f32 F32.add F32.zero K pssm pads s q a b sc_empty); auto. apply sc_wf_empty.
  - apply (score_with_eq_generic F32.add F32.zero 32 _ pssm q); auto. intros a b.
    apply (C01_score_sse2_eq_f32 32 K pssm s q a b sc_empty); auto. lia. apply sc_wf_empty.
  - apply (score_with_eq_generic F32.add F32.zero 32 _ pssm q); auto. intros a b.
    apply (C01_score_dispatch_eq_f32 K pssm pads s q ar a b sc_empty); auto. apply sc_wf_empty.
  - cbn [sc_max sc_mat]. split; [reflexivity|]. intros r c Hr Hc.
    apply (full_mat_cell F32.add F32.zero 32 K pssm s r c Hr Hc).
Qed.

(* sub-ranges, per backend: a call on rows a..b (a < b <= R) of any backend returns rows
   a..b of the full scan and the same max_index, whatever the buffer held before *)
Theorem C01_backends_sub_range :
  forall (K : nat) (pssm : list (list f32)) (pads : nat -> list f32) (s : list nat) (q : sseq) (ar : arm)
         (a b : nat) (old : sscores f32),
    0 < K -> Forall (fun x => x < K) s -> pssm_wf K pssm ->
    Striped 32 (K - 1) s q -> sc_wf 32 old ->
    1 <= length pssm -> length pssm - 1 <= sq_wrap q -> length pssm <= length s ->
    a < b -> b <= seq_R 32 (length s) ->
    exists full sub,
      generic_score F32.add F32.zero 32 pssm q = Ok full /\
      sc_mat sub = firstn (b - a) (skipn a (sc_mat full)) /\ sc_max sub = sc_max full /\
      generic_rows_into F32.add F32.zero 32 pssm q a b old = Ok sub /\
      avx2_rows_into F32.add F32.zero avx2_permute_consts avx2_gather_consts K pssm pads q a b old = Ok sub /\
      sse2_rows_into F32.add F32.zero sse2_consts 32 pssm q a b old = Ok sub /\
      dispatch_rows_into F32.add F32.zero dispatch_score_f32 avx2_permute_consts avx2_gather_consts sse2_consts
                         K pssm pads ar q a b old = Ok sub.
Proof.
  intros K pssm pads s q ar a b old HK Hs Hp Hst Hw HM Hwrap HL Hab Hb.
  destruct (C01_score_rows_sub f32 F32.add F32.zero 32 K pssm s q a b old ltac:(lia) HK Hs Hp Hst HM Hwrap HL Hab Hb)
    as [full [sub [E1 [E2 [E3 E4]]]]].
  exists full, sub. repeat split; auto.
  - eapply res_equiv_eq_ok; [apply (C01_score_avx2_eq f32 F32.add F32.zero K pssm pads s q a b old); auto|exact E2].
  - eapply res_equiv_eq_ok; [apply (C01_score_sse2_eq_f32 32 K pssm s q a b old); auto; lia|exact E2].
  - eapply res_equiv_eq_ok; [apply (C01_score_dispatch_eq_f32 K pssm pads s q ar a b old); auto|exact E2].
Qed.

(* L < M: every backend returns an empty result (no rows, max_index = 0) *)
Theorem C01_backends_short_sequence :
  forall (K : nat) (pssm : list (list f32)) (pads : nat -> list f32) (s : list nat) (q : sseq) (ar : arm)
         (a b : nat) (old : sscores f32),
    0 < K -> Forall (fun x => x < K) s -> pssm_wf K pssm ->
    Striped 32 (K - 1) s q -> sc_wf 32 old ->
    1 <= length pssm -> length pssm - 1 <= sq_wrap q -> length s < length pssm ->
    generic_rows_into F32.add F32.zero 32 pssm q a b old = Ok (mkScores [] 0) /\
    avx2_rows_into F32.add F32.zero avx2_permute_consts avx2_gather_consts K pssm pads q a b old = Ok (mkScores [] 0) /\
    sse2_rows_into F32.add F32.zero sse2_consts 32 pssm q a b old = Ok (mkScores [] 0) /\
    dispatch_rows_into F32.add F32.zero dispatch_score_f32 avx2_permute_consts avx2_gather_consts sse2_consts
                       K pssm pads ar q a b old = Ok (mkScores [] 0).
Proof.
  intros K pssm pads s q ar a b old HK Hs Hp Hst Hw HM Hwrap HL.
  assert (E : generic_rows_into F32.add F32.zero 32 pssm q a b old = Ok (mkScores [] 0)).
  { apply generic_rows_into_empty. left. destruct Hst as [Hlen _]. rewrite Hlen. exact HL. }
  repeat split; auto.
  - eapply res_equiv_eq_ok; [apply (C01_score_avx2_eq f32 F32.add F32.zero K pssm pads s q a b old); auto|exact E].
  - eapply res_equiv_eq_ok; [apply (C01_score_sse2_eq_f32 32 K pssm s q a b old); auto; lia|exact E].
  - eapply res_equiv_eq_ok; [apply (C01_score_dispatch_eq_f32 K pssm pads s q ar a b old); auto|exact E].
Qed.

(* the wrapper guard: a sequence with fewer than M - 1 look-ahead rows is rejected by the
   SIMD wrappers before any load (the kernels read rows i .. i+M-1 through raw pointers) *)
Theorem C01_simd_guard_unconfigured :
  forall (T : Type) (add : T -> T -> T) (zero : T) (K C : nat)
         (pssm : list (list T)) (pads : nat -> list T) (q : sseq) (a b : nat) (old : sscores T),
    1 <= length pssm -> sq_wrap q < length pssm - 1 ->
    avx2_rows_into add zero avx2_permute_consts avx2_gather_consts K pssm pads q a b old = Panic 31 /\
    sse2_rows_into add zero sse2_consts C pssm q a b old = Panic 31.
Proof.
  intros T add zero K C pssm pads q a b old HM Hw. split.
  - unfold avx2_rows_into, avx2_permute_rows_into, avx2_gather_rows_into.
    destruct (K <=? 8); apply simd_guard_unconfigured; auto.
  - unfold sse2_rows_into. apply simd_guard_unconfigured; auto.
Qed.

(* 16- and 32-column layouts: in both, the generic and the SSE2 pipelines return the same
   matrix, and unstripe() lists the defined scores of positions 0 .. L-M in order *)
Theorem C01_score_layouts_16_32 :
  forall (C K : nat) (pssm : list (list f32)) (s : list nat) (q : sseq),
    C = 16 \/ C = 32 ->
    0 < K -> Forall (fun x => x < K) s -> pssm_wf K pssm ->
    Striped C (K - 1) s q ->
    1 <= length pssm -> length pssm - 1 <= sq_wrap q ->
    res_equiv (score_with (sse2_rows_into F32.add F32.zero sse2_consts C pssm) q)
              (generic_score F32.add F32.zero C pssm q) /\
    rbind (generic_score F32.add F32.zero C pssm q) (sc_unstripe C) =
    Ok (map (score_def F32.add F32.zero (K - 1) pssm s) (seq 0 (length s + 1 - length pssm))).
Proof.
  intros C K pssm s q HC HK Hs Hp Hst HM Hwrap.
  assert (HC0 : 0 < C /\ C mod 16 = 0) by (destruct HC; subst; split; auto; lia).
  destruct HC0 as [HC0 HC16]. split.
  - unfold generic_score. apply score_with_equiv. intros a b.
    apply (C01_score_sse2_eq_f32 C K pssm s q a b sc_empty); auto. apply sc_wf_empty.
  - apply (C01_score_unstripe f32 F32.add F32.zero C K pssm s q); auto.
Qed.

(* ====================================================================== *)
(* IEEE-754 binary32 facts (Flocq) *)

(* as soon as one term is -inf the sum is -inf, when no later term is +inf / NaN and the
   partial sum before it has not become +inf / NaN *)
Theorem C01_neg_inf_absorbs :
  forall l1 l2 : list f32,
    no_pinf_nan (fold_left F32.add l1 F32.zero) -> Forall no_pinf_nan l2 ->
    fold_left F32.add (l1 ++ F32.ninf :: l2) F32.zero = F32.ninf.
Proof. exact neg_inf_absorbs. Qed.

(* summation error: no intermediate overflow =>
   | fl(sum) - sum | <= ((1 + u)^n - 1) * sum |t_j|,  u = 2^-24 *)
Theorem C01_fsum_error_bound :
  forall l : list f32,
    sums_finite F32.zero l = true ->
    (Rabs (B2R (fold_left F32.add l F32.zero) - rsum l) <=
     ((1 + bpow radix2 (-24)) ^ (length l) - 1) * rabs_sum l)%R.
Proof. exact fsum_error_bound. Qed.

(* a computable sufficient condition for "no intermediate overflow" *)
Theorem C01_no_intermediate_overflow :
  forall l : list f32,
    (Z.of_nat (length l) <= 2 ^ 23)%Z ->
    Forall (fun x => BinarySingleNaN.is_finite x = true) l ->
    (rabs_sum l <= bpow radix2 126)%R ->
    sums_finite F32.zero l = true.
Proof. exact sums_finite_bound. Qed.

(* the defined binary32 score (left-to-right sum from +0.0 of at most 2^23 cells) meets the
   property: -inf as soon as one term is, otherwise finite and within n * 2^-23 * sum|t_j| of
   the exact sum -- for matrices without +inf / NaN cells and sum|t_j| < 2^126 *)
Theorem C01_defined_sum_holds :
  forall terms : list f32,
    (Z.of_nat (length terms) <= 2 ^ 23)%Z -> Holds_value terms (fold_left F32.add terms F32.zero).
Proof. exact defined_sum_holds. Qed.

(* the executable checker used by the driver for PROPFAIL is sound for [Holds_C01] *)
Theorem check_C01_sound :
  forall (N : nat) (pssm : list (list f32)) (s : list nat) (vals : list f32),
    check_C01 N pssm s vals = true -> Holds_C01 N pssm s vals.
Proof. exact check_values_sound. Qed.

(* the two other decisions behind PROPFAIL -- "identical values on every pipeline / arm" and
   "a sub-range call returns rows a..b of the full scan" -- are extracted equality tests *)
Theorem check_C01_backends_sound :
  forall (g : obs) (others : list obs),
    check_same_results g others = true -> Forall (fun o => o = g) others.
Proof. exact check_same_results_sound. Qed.

Theorem check_C01_subrange_sound :
  forall (full sub : obs) (a b : nat),
    check_subrange full sub a b = true ->
    exists m r1 r2, full = Some (m, r1) /\ sub = Some (m, r2) /\ r2 = firstn (b - a) (skipn a r1).
Proof. exact check_subrange_sound. Qed.

(* ... and never rejects what the model computes (no false alarm on the model; the model is
   compared with the implementation bit for bit on every run) *)
Theorem C01_model_passes_checker :
  forall (N : nat) (pssm : list (list f32)) (s : list nat),
    (Z.of_nat (length pssm) <= 2 ^ 23)%Z ->
    check_C01 N pssm s (map (score_def F32.add F32.zero N pssm s) (seq 0 (length s + 1 - length pssm))) = true.
Proof. exact model_passes_C01. Qed.

(* end to end: the values every backend returns for a configured striped sequence are exactly
   L - M + 1 in number (none when L < M) and each meets the property on real numbers *)
Theorem C01_scan_values_hold :
  forall (C K : nat) (pssm : list (list f32)) (s : list nat) (q : sseq),
    0 < C -> 0 < K -> Forall (fun x => x < K) s -> pssm_wf K pssm ->
    Striped C (K - 1) s q ->
    1 <= length pssm -> length pssm - 1 <= sq_wrap q -> (Z.of_nat (length pssm) <= 2 ^ 23)%Z ->
    exists vals,
      rbind (generic_score F32.add F32.zero C pssm q) (sc_unstripe C) = Ok vals /\
      Holds_C01 (K - 1) pssm s vals.
Proof.
  intros C K pssm s q HC HK Hs Hp Hst HM Hwrap HM23.
  eexists. split; [apply (C01_score_unstripe f32 F32.add F32.zero C K pssm s q); auto|].
  unfold Holds_C01. rewrite map_length, seq_length. split; [reflexivity|].
  intros i Hi. rewrite (map_nth_in _ _ _ 0) by (rewrite seq_length; auto).
  rewrite seq_nth by auto. cbn [Nat.add].
  apply defined_sum_holds. unfold f32_terms, score_terms.
  rewrite (terms_from_length F32.zero). exact HM23.
Qed.

(* The headline statement, 32 columns, binary32: on a configured striped sequence the generic,
   AVX2, SSE2 and dispatched (every arm) pipelines all return the same score matrix; its
   unstripe() is the list of the defined scores of positions 0 .. L - M (exactly L - M + 1
   values, none when L < M), and every value meets the property on real numbers. *)
Theorem C01_every_backend_defined_score :
  forall (K : nat) (pssm : list (list f32)) (pads : nat -> list f32) (s : list nat) (q : sseq) (ar : arm),
    0 < K -> Forall (fun x => x < K) s -> pssm_wf K pssm ->
    Striped 32 (K - 1) s q ->
    1 <= length pssm -> length pssm - 1 <= sq_wrap q -> (Z.of_nat (length pssm) <= 2 ^ 23)%Z ->
    exists sc vals,
      generic_score F32.add F32.zero 32 pssm q = Ok sc /\
      score_with (avx2_rows_into F32.add F32.zero avx2_permute_consts avx2_gather_consts K pssm pads) q = Ok sc /\
      score_with (sse2_rows_into F32.add F32.zero sse2_consts 32 pssm) q = Ok sc /\
      score_with (dispatch_rows_into F32.add F32.zero dispatch_score_f32 avx2_permute_consts
                                     avx2_gather_consts sse2_consts K pssm pads ar) q = Ok sc /\
      sc_unstripe 32 sc = Ok vals /\
      vals = map (score_def F32.add F32.zero (K - 1) pssm s) (seq 0 (length s + 1 - length pssm)) /\
      Holds_C01 (K - 1) pssm s vals.
Proof.
  intros K pssm pads s q ar HK Hs Hp Hst HM Hwrap HM23.
  destruct (C01_scan_values_hold 32 K pssm s q ltac:(lia) HK Hs Hp Hst HM Hwrap HM23) as [vals [Hv Hh]].
  pose proof (C01_score_unstripe f32 F32.add F32.zero 32 K pssm s q ltac:(lia) HK Hs Hp Hst HM Hwrap) as Hu.
  assert (Ev : vals = map (score_def F32.add F32.zero (K - 1) pssm s) (seq 0 (length s + 1 - length pssm))).
  { pose proof (eq_trans (eq_sym Hv) Hu) as E. inversion E. reflexivity. }
  assert (Hgen : exists sc, generic_score F32.add F32.zero 32 pssm q = Ok sc).
  { destruct (generic_score F32.add F32.zero 32 pssm q) as [sc| | |] eqn:E; try discriminate. exists sc. reflexivity. }
  destruct Hgen as [sc Hsc]. exists sc, vals.
  assert (Hsame : forall f,
             (forall a b, res_equiv (f q a b sc_empty) (generic_rows_into F32.add F32.zero 32 pssm q a b sc_empty)) ->
             score_with f q = Ok sc).
  { intros f Hf. apply (score_with_eq_generic F32.add F32.zero 32 f pssm q sc Hf Hsc). }
  split; [exact Hsc|]. split; [|split; [|split; [|split; [|split]]]]; auto.
  - apply Hsame. intros a b.
    apply (C01_score_avx2_eq f32 F32.add F32.zero K pssm pads s q a b sc_empty); auto. apply sc_wf_empty.
  - apply Hsame. intros a b.
    apply (C01_score_sse2_eq_f32 32 K pssm s q a b sc_empty); auto. lia. apply sc_wf_empty.
  - apply Hsame. intros a b.
    apply (C01_score_dispatch_eq_f32 K pssm pads s q ar a b sc_empty); auto. apply sc_wf_empty.
  - rewrite Hsc in Hv. exact Hv.
Qed.

(* ====================================================================== *)
(* Sequences with arbitrary padding: StripedSequence::new / ::sample, then configure.

   [Padded C N s q]  :=  len q = |s|  and, for SOME list pad with |s ++ pad| = R*C where
                         R = rows q - wrap q, the matrix of q is the striped form of s ++ pad
                         with wrap q look-ahead rows ([Striped] read with len = R*C).
   `StripedSequence::new(m, len)` accepts any matrix with rows*C >= len (R may exceed
   ceil(len/C), the cells of linear index >= len hold anything); `StripedSequence::sample` drew
   EVERY cell of its ceil(len/C) rows from the background up to /repo a1b1f91 (padding never the
   wildcard: finding of this round, see notes/score.md) and pads with the wildcard since the fix
   740d563, which makes it [Striped].  Property C04 proves [StripedPad] (the same predicate
   in coq/stripe) for every history of sample / new / stripe / stripe_into / configure /
   configure_wrap calls (C04_pad_history; bridged in C01History.v).  [Striped] is the special
   case R = ceil(|s|/C), pad = wildcards. *)

Theorem C01_padded_generalises_striped :
  forall (C K : nat) (s : list nat) (q : sseq),
    0 < C -> Striped C (K - 1) s q -> Padded C (K - 1) s q.
Proof. intros C K s q HC. exact (Striped_Padded C K HC s q). Qed.

(* the sequence of a padded state is determined by the matrix: it is what Index<usize> reads at 0 .. len-1 *)
Theorem C01_padded_sequence_unique :
  forall (C K : nat) (s : list nat) (q : sseq),
    0 < C -> Padded C (K - 1) s q -> s = logical_seq C (K - 1) q.
Proof. intros C K s q HC. exact (padded_logical C K HC s q). Qed.

(* the executable check the driver applies to the matrix the library built in src=new / src=sample cases *)
Theorem check_padded_sound :
  forall (C K : nat) (q : sseq),
    0 < C -> padded_b C (K - 1) q = true -> Padded C (K - 1) (logical_seq C (K - 1) q) q.
Proof. intros C K q HC. exact (padded_b_sound C K HC q). Qed.

(* unstripe() of a scan of ANY padded state: exactly L - M + 1 values, value i the defined score of
   position i of s -- the padding is never seen (positions i <= L - M read cells of linear index < L
   only); none when L < M.  Any carrier, any addition. *)
Theorem C01_score_unstripe_padded :
  forall (T : Type) (add : T -> T -> T) (zero : T) (C K : nat)
         (pssm : list (list T)) (s : list nat) (q : sseq),
    0 < C -> mat_wf C K (sq_mat q) -> pssm_wf K pssm ->
    Padded C (K - 1) s q ->
    1 <= length pssm -> length pssm - 1 <= sq_wrap q ->
    rbind (generic_score add zero C pssm q) (sc_unstripe C) =
    Ok (map (score_def add zero (K - 1) pssm s) (seq 0 (length s + 1 - length pssm))).
Proof.
  intros T add zero C K pssm s q HC Hm Hp [Hlen [pad [Hst Hfill]]] HM Hw.
  exact (unstripe_padded add zero C K HC pssm s pad q Hm Hp Hlen Hst Hfill HM Hw).
Qed.

(* The score matrix of such a scan AS CODED: R = rows - wrap rows of C cells, max_index = L - M + 1,
   and cell (r, c) -- Index c*R + r -- is the defined score of position c*R + r of s FOLLOWED BY ITS
   PADDING: the padding symbols are scored like sequence symbols, only a window running past
   cell R*C - 1 reads the wildcard.  So the cells of index 0 .. L-M are the defined scores of s, and the
   cells of index L-M+1 .. R*C-1 ("past the last valid position") depend on the padding: after
   Stripe::stripe (and ::sample since 740d563) they are scores of windows of wildcards (-inf for a -inf
   wildcard column), after ::new on a matrix with other padding (and ::sample before 740d563) they are
   scores of windows of ordinary symbols (see the witness below). *)
Theorem C01_score_cells_padded :
  forall (T : Type) (add : T -> T -> T) (zero : T) (C K : nat)
         (pssm : list (list T)) (s pad : list nat) (q : sseq),
    0 < C -> mat_wf C K (sq_mat q) -> pssm_wf K pssm ->
    sq_len q = length s -> Striped C (K - 1) (s ++ pad) (full_len C q) -> length (s ++ pad) = pad_R q * C ->
    1 <= length pssm -> length pssm - 1 <= sq_wrap q -> length pssm <= length s ->
    exists sc,
      generic_score add zero C pssm q = Ok sc /\
      length (sc_mat sc) = pad_R q /\ sc_max sc = length s + 1 - length pssm /\
      (forall r, r < pad_R q -> length (nth r (sc_mat sc) []) = C) /\
      (forall r c, r < pad_R q -> c < C ->
         nth c (nth r (sc_mat sc) []) zero = score_def add zero (K - 1) pssm (s ++ pad) (c * pad_R q + r)) /\
      (forall i, i < pad_R q * C -> sc_get sc i = Ok (score_def add zero (K - 1) pssm (s ++ pad) i)) /\
      (forall i, i < length s + 1 - length pssm -> sc_get sc i = Ok (score_def add zero (K - 1) pssm s i)).
Proof.
  intros T add zero C K pssm s pad q HC Hm Hp Hlen Hst Hfill HM Hw HL.
  exact (generic_score_padded_cells add zero C K HC pssm s pad q Hm Hp Hlen Hst Hfill HM Hw HL).
Qed.

(* "Index i < R*C reads the defined score of position i of s (wildcards past the end)" -- the second
   clause of C01_score_index -- does NOT extend to padded states.  Witness: C = 4, DNA, the 6 symbols
   ACTGAC in a 2-row matrix whose two padding cells hold C and T (StripedSequence::new, then
   configure_wrap(1)), a 2-column motif with cells 1.0 and a -inf wildcard column: max_index = 5, but
   Index 5 (window: s[5] and the first padding symbol) is 2.0 where the defined score of s is -inf. *)
Theorem C01_score_index_padded_refuted :
  let one := F32.of_bits 0x3f800000 in
  let pssm := [[one; one; one; one; F32.ninf]; [one; one; one; one; F32.ninf]] in
  let q := mkSeq 6 1 [[0; 2; 0; 1]; [1; 3; 1; 2]; [2; 0; 1; 4]] in
  let s := [0; 1; 2; 3; 0; 1] in
  Padded 4 4 s q /\ mat_wf 4 5 (sq_mat q) /\ pssm_wf 5 pssm /\ ~ Striped 4 4 s q /\
  let r := generic_score F32.add F32.zero 4 pssm q in
  rbind r (fun sc => Ok (sc_max sc)) = Ok 5 /\
  rbind r (fun sc => rbind (sc_get sc 5) (fun v => Ok (F32.to_bits v))) = Ok 0x40000000%Z /\
  F32.to_bits (score_def F32.add F32.zero 4 pssm s 5) = 0xff800000%Z /\
  rbind r (fun sc => rbind (sc_unstripe 4 sc) (fun v => Ok (map F32.to_bits v))) =
    Ok (map (fun i => F32.to_bits (score_def F32.add F32.zero 4 pssm s i)) (seq 0 5)).
Proof.
  cbv zeta. split.
  - assert (E : [0; 1; 2; 3; 0; 1] = logical_seq 4 4 (mkSeq 6 1 [[0; 2; 0; 1]; [1; 3; 1; 2]; [2; 0; 1; 4]]))
      by (vm_compute; reflexivity).
    rewrite E. apply (padded_b_sound 4 5); [lia|]. vm_compute. reflexivity.
  - split; [intros r Hr; cbn [sq_mat length] in Hr;
            destruct r as [|[|[|r]]]; [| | |lia]; (split; [reflexivity|repeat constructor])|].
    split; [repeat constructor|]. split.
    + intros [_ [_ [_ Hcell]]]. specialize (Hcell 0 3 ltac:(cbn; lia) ltac:(lia)). vm_compute in Hcell. discriminate.
    + vm_compute. repeat split; reflexivity.
Qed.

(* binary32, 32 columns, every pipeline, on ANY padded state (the headline statement without the
   wildcard-padding restriction): the generic, AVX2, SSE2 and dispatched (every arm) pipelines return
   the same score matrix; unstripe() is the list of the defined scores of positions 0 .. L - M of s
   (exactly L - M + 1 values, none when L < M); every value meets the property on real numbers. *)
Theorem C01_every_backend_padded :
  forall (K : nat) (pssm : list (list f32)) (pads : nat -> list f32) (s : list nat) (q : sseq) (ar : arm),
    mat_wf 32 K (sq_mat q) -> pssm_wf K pssm ->
    Padded 32 (K - 1) s q ->
    1 <= length pssm -> length pssm - 1 <= sq_wrap q -> (Z.of_nat (length pssm) <= 2 ^ 23)%Z ->
    exists sc vals,
      generic_score F32.add F32.zero 32 pssm q = Ok sc /\
      score_with (avx2_rows_into F32.add F32.zero avx2_permute_consts avx2_gather_consts K pssm pads) q = Ok sc /\
      score_with (sse2_rows_into F32.add F32.zero sse2_consts 32 pssm) q = Ok sc /\
      score_with (dispatch_rows_into F32.add F32.zero dispatch_score_f32 avx2_permute_consts
                                     avx2_gather_consts sse2_consts K pssm pads ar) q = Ok sc /\
      sc_unstripe 32 sc = Ok vals /\
      vals = map (score_def F32.add F32.zero (K - 1) pssm s) (seq 0 (length s + 1 - length pssm)) /\
      Holds_C01 (K - 1) pssm s vals.
Proof.
  intros K pssm pads s q ar Hm Hp Hpad HM Hwrap HM23.
  pose proof (C01_score_unstripe_padded _ F32.add F32.zero 32 K pssm s q ltac:(lia) Hm Hp Hpad HM Hwrap) as Hu.
  revert Hu. destruct (generic_score F32.add F32.zero 32 pssm q) as [sc| | |] eqn:Hsc;
    intros Hu; cbn [rbind] in Hu; try discriminate.
  eexists sc, _.
  assert (Hsame : forall f,
             (forall a b, res_equiv (f q a b sc_empty) (generic_rows_into F32.add F32.zero 32 pssm q a b sc_empty)) ->
             score_with f q = Ok sc).
  { intros f Hf. apply (score_with_eq_generic F32.add F32.zero 32 f pssm q sc Hf Hsc). }
  split; [reflexivity|]. split; [|split; [|split; [|split; [exact Hu|split; [reflexivity|]]]]].
  - apply Hsame. intros a b.
    apply (C01_score_avx2_eq_wf f32 F32.add F32.zero K pssm pads q a b sc_empty); auto. apply sc_wf_empty.
  - apply Hsame. intros a b.
    apply (C01_score_sse2_eq_f32_wf 32 K pssm q a b sc_empty); auto. lia. apply sc_wf_empty.
  - apply Hsame. intros a b.
    apply (C01_score_dispatch_eq_f32_wf K pssm pads q ar a b sc_empty); auto. apply sc_wf_empty.
  - exact (defined_scores_hold (K - 1) pssm s HM23).
Qed.

(* sub-ranges on a padded state (any pipeline, any reused buffer): rows a..b of the cells above, for
   every range inside the matrix, look-ahead rows included (b + M - 1 <= rows) *)
Theorem C01_backends_sub_range_padded :
  forall (K : nat) (pssm : list (list f32)) (pads : nat -> list f32) (s pad : list nat) (q : sseq) (ar : arm)
         (a b : nat) (old : sscores f32),
    mat_wf 32 K (sq_mat q) -> pssm_wf K pssm -> sc_wf 32 old ->
    sq_len q = length s -> Striped 32 (K - 1) (s ++ pad) (full_len 32 q) -> length (s ++ pad) = pad_R q * 32 ->
    1 <= length pssm -> length pssm - 1 <= sq_wrap q -> length pssm <= length s ->
    a < b -> b + length pssm - 1 <= length (sq_mat q) ->
    let sub := mkScores (map (fun r => map (fun c => score_def F32.add F32.zero (K - 1) pssm (s ++ pad) (c * pad_R q + r))
                                           (seq 0 32)) (seq a (b - a)))
                        (length s + 1 - length pssm) in
    generic_rows_into F32.add F32.zero 32 pssm q a b old = Ok sub /\
    avx2_rows_into F32.add F32.zero avx2_permute_consts avx2_gather_consts K pssm pads q a b old = Ok sub /\
    sse2_rows_into F32.add F32.zero sse2_consts 32 pssm q a b old = Ok sub /\
    dispatch_rows_into F32.add F32.zero dispatch_score_f32 avx2_permute_consts avx2_gather_consts sse2_consts
                       K pssm pads ar q a b old = Ok sub.
Proof.
  intros K pssm pads s pad q ar a b old Hm Hp Hw Hlen Hst Hfill HM Hwrap HL Hab Hb sub.
  assert (E : generic_rows_into F32.add F32.zero 32 pssm q a b old = Ok sub).
  { exact (generic_rows_padded F32.add F32.zero 32 K ltac:(lia) pssm s pad q Hm Hp Hlen Hst Hfill HM Hwrap a b old HL Hab Hb). }
  repeat split; auto.
  - eapply res_equiv_eq_ok; [apply (C01_score_avx2_eq_wf f32 F32.add F32.zero K pssm pads q a b old); auto|exact E].
  - eapply res_equiv_eq_ok; [apply (C01_score_sse2_eq_f32_wf 32 K pssm q a b old); auto; lia|exact E].
  - eapply res_equiv_eq_ok; [apply (C01_score_dispatch_eq_f32_wf K pssm pads q ar a b old); auto|exact E].
Qed.

(* ====================================================================== *)
(* L < M on every entry point that reads the result (review finding 2): whatever the matrix holds
   (no [Striped] / [Padded] hypothesis at all), a scan of a sequence shorter than the motif is the
   empty score matrix on every pipeline; its iterator yields None for every next() / next_back(),
   len() = 0, unstripe() = [] and Index<usize> panics for EVERY index (`index / self.data.rows()` with 0 rows:
   division by zero, panic site 20). *)
Theorem C01_scores_short_iter_index :
  forall (T : Type) (add : T -> T -> T) (zero : T) (C : nat)
         (pssm : list (list T)) (q : sseq) (ops : list bool) (i : nat),
    sq_wrap q <= length (sq_mat q) -> sq_len q < length pssm ->
    generic_score add zero C pssm q = Ok (mkScores [] 0) /\
    sc_iter_end C (@mkScores T [] 0) = 0 /\
    sc_iter_ops C (@mkScores T [] 0) ops = Ok (repeat None (length ops)) /\
    sc_unstripe C (@mkScores T [] 0) = Ok [] /\
    sc_get (@mkScores T [] 0) i = Panic 20.
Proof.
  intros T add zero C pssm q ops i Hw HL. split; [|exact (empty_scores_api C ops i)].
  unfold generic_score, score_with, score_into, seq_rows.
  replace (length (sq_mat q) <? sq_wrap q) with false by (symmetry; apply Nat.ltb_ge; lia).
  cbn [rbind]. apply generic_rows_into_empty. left. exact HL.
Qed.

(* ... on every pipeline, every row range, every reused buffer (mat_wf instead of Striped) *)
Theorem C01_backends_short_sequence_wf :
  forall (K : nat) (pssm : list (list f32)) (pads : nat -> list f32) (q : sseq) (ar : arm)
         (a b : nat) (old : sscores f32),
    mat_wf 32 K (sq_mat q) -> pssm_wf K pssm -> sc_wf 32 old ->
    1 <= length pssm -> length pssm - 1 <= sq_wrap q -> sq_len q < length pssm ->
    generic_rows_into F32.add F32.zero 32 pssm q a b old = Ok (mkScores [] 0) /\
    avx2_rows_into F32.add F32.zero avx2_permute_consts avx2_gather_consts K pssm pads q a b old = Ok (mkScores [] 0) /\
    sse2_rows_into F32.add F32.zero sse2_consts 32 pssm q a b old = Ok (mkScores [] 0) /\
    dispatch_rows_into F32.add F32.zero dispatch_score_f32 avx2_permute_consts avx2_gather_consts sse2_consts
                       K pssm pads ar q a b old = Ok (mkScores [] 0).
Proof.
  intros K pssm pads q ar a b old Hm Hp Hw HM Hwrap HL.
  assert (E : generic_rows_into F32.add F32.zero 32 pssm q a b old = Ok (mkScores [] 0)).
  { apply generic_rows_into_empty. left. exact HL. }
  repeat split; auto.
  - eapply res_equiv_eq_ok; [apply (C01_score_avx2_eq_wf f32 F32.add F32.zero K pssm pads q a b old); auto|exact E].
  - eapply res_equiv_eq_ok; [apply (C01_score_sse2_eq_f32_wf 32 K pssm q a b old); auto; lia|exact E].
  - eapply res_equiv_eq_ok; [apply (C01_score_dispatch_eq_f32_wf K pssm pads q ar a b old); auto|exact E].
Qed.

(* ====================================================================== *)
(* review findings 3 and 5 *)

(* a row range reaching into the look-ahead rows (a < b, b + M - 1 <= R + wrap: more look-ahead rows
   than the motif needs): row k of the result holds the defined scores of positions c*R + a + k --
   for a + k >= R these are the positions (c+1)*R + (a + k - R), i.e. row a + k - R shifted by one
   column, the last column scoring windows of wildcards *)
Theorem C01_score_rows_lookahead :
  forall (T : Type) (add : T -> T -> T) (zero : T) (C K : nat)
         (pssm : list (list T)) (s : list nat) (q : sseq) (a b : nat) (old : sscores T),
    0 < C -> 0 < K -> Forall (fun x => x < K) s -> pssm_wf K pssm ->
    Striped C (K - 1) s q ->
    1 <= length pssm -> length pssm <= length s ->
    a < b -> b + length pssm - 1 <= seq_R C (length s) + sq_wrap q ->
    exists sub,
      generic_rows_into add zero C pssm q a b old = Ok sub /\
      length (sc_mat sub) = b - a /\ sc_max sub = length s + 1 - length pssm /\
      forall k c, k < b - a -> c < C ->
        nth c (nth k (sc_mat sub) []) zero =
        score_def add zero (K - 1) pssm s (c * seq_R C (length s) + a + k).
Proof.
  intros T add zero C K pssm s q a b old HC HK Hs Hp Hst HM HL Hab Hb.
  eexists. split.
  - apply (generic_rows_striped add zero C K pssm s q a b old HC HK Hs Hp Hst HM HL Hab).
    destruct Hst as [_ [Hrows _]]. lia.
  - cbn [sc_mat sc_max]. rewrite map_length, seq_length. split; [reflexivity|]. split; [reflexivity|].
    intros k c Hk Hc.
    rewrite (map_nth_in _ _ _ 0) by (rewrite seq_length; auto). rewrite seq_nth by auto.
    rewrite (map_nth_in _ _ _ 0) by (rewrite seq_length; auto). rewrite seq_nth by auto.
    cbn [Nat.add]. f_equal. lia.
Qed.

(* the shape of the score matrix of a full scan: R rows of exactly C cells (so that `nth c (nth r ..)`
   in C01_score_generic_cell never reads a default; what C07's padding theorem needs of C01) *)
Theorem C01_score_generic_shape :
  forall (T : Type) (add : T -> T -> T) (zero : T) (C K : nat)
         (pssm : list (list T)) (s : list nat) (q : sseq),
    0 < C -> 0 < K -> Forall (fun x => x < K) s -> pssm_wf K pssm ->
    Striped C (K - 1) s q ->
    1 <= length pssm -> length pssm - 1 <= sq_wrap q -> length pssm <= length s ->
    exists sc,
      generic_score add zero C pssm q = Ok sc /\
      length (sc_mat sc) = seq_R C (length s) /\
      sc_max sc = length s + 1 - length pssm /\
      sc_wf C sc /\
      (forall r, r < seq_R C (length s) -> length (nth r (sc_mat sc) []) = C) /\
      forall r c, r < seq_R C (length s) -> c < C ->
        nth c (nth r (sc_mat sc) []) zero = score_def add zero (K - 1) pssm s (c * seq_R C (length s) + r).
Proof.
  intros T add zero C K pssm s q HC HK Hs Hp Hst HM Hw HL.
  eexists. split; [exact (generic_score_striped add zero C K pssm s q HC HK Hs Hp Hst HM Hw HL)|].
  cbn [sc_mat sc_max]. split; [exact (full_mat_length add zero C K pssm s)|]. split; [reflexivity|].
  assert (Hrow : forall r, r < seq_R C (length s) -> length (nth r (full_mat add zero C K pssm s) []) = C).
  { intros r Hr. unfold full_mat. rewrite (map_nth_in _ _ _ 0) by (rewrite seq_length; auto).
    rewrite map_length, seq_length. reflexivity. }
  split; [intros r Hr; cbn [sc_mat] in Hr; rewrite map_length, seq_length in Hr; exact (Hrow r Hr)|].
  split; [exact Hrow|].
  intros r c Hr Hc. exact (full_mat_cell add zero C K pssm s r c Hr Hc).
Qed.

(* ====================================================================== *)
(* statement pins *)

Check C01_score_avx2_eq :
  forall (T : Type) (add : T -> T -> T) (zero : T) (K : nat)
         (pssm : list (list T)) (pads : nat -> list T) (s : list nat) (q : sseq)
         (a b : nat) (old : sscores T),
    0 < K -> Forall (fun x => x < K) s -> pssm_wf K pssm ->
    Striped 32 (K - 1) s q -> sc_wf 32 old ->
    1 <= length pssm -> length pssm - 1 <= sq_wrap q ->
    res_equiv (avx2_rows_into add zero avx2_permute_consts avx2_gather_consts K pssm pads q a b old)
              (generic_rows_into add zero 32 pssm q a b old).

Check C01_score_sse2_eq_f32 :
  forall (C K : nat) (pssm : list (list f32)) (s : list nat) (q : sseq) (a b : nat) (old : sscores f32),
    0 < C -> C mod 16 = 0 ->
    0 < K -> Forall (fun x => x < K) s -> pssm_wf K pssm ->
    Striped C (K - 1) s q -> sc_wf C old ->
    1 <= length pssm -> length pssm - 1 <= sq_wrap q ->
    res_equiv (sse2_rows_into F32.add F32.zero sse2_consts C pssm q a b old)
              (generic_rows_into F32.add F32.zero C pssm q a b old).

Check C01_score_unstripe :
  forall (T : Type) (add : T -> T -> T) (zero : T) (C K : nat)
         (pssm : list (list T)) (s : list nat) (q : sseq),
    0 < C -> 0 < K -> Forall (fun x => x < K) s -> pssm_wf K pssm ->
    Striped C (K - 1) s q ->
    1 <= length pssm -> length pssm - 1 <= sq_wrap q ->
    rbind (generic_score add zero C pssm q) (sc_unstripe C) =
    Ok (map (score_def add zero (K - 1) pssm s) (seq 0 (length s + 1 - length pssm))).

Check C01_fsum_error_bound :
  forall l : list f32,
    sums_finite F32.zero l = true ->
    (Rabs (B2R (fold_left F32.add l F32.zero) - rsum l) <=
     ((1 + bpow radix2 (-24)) ^ (length l) - 1) * rabs_sum l)%R.

Check check_C01_sound :
  forall (N : nat) (pssm : list (list f32)) (s : list nat) (vals : list f32),
    check_C01 N pssm s vals = true -> Holds_C01 N pssm s vals.

Check C01_score_avx2_eq_wf :
  forall (T : Type) (add : T -> T -> T) (zero : T) (K : nat)
         (pssm : list (list T)) (pads : nat -> list T) (q : sseq)
         (a b : nat) (old : sscores T),
    mat_wf 32 K (sq_mat q) -> pssm_wf K pssm -> sc_wf 32 old ->
    1 <= length pssm -> length pssm - 1 <= sq_wrap q ->
    res_equiv (avx2_rows_into add zero avx2_permute_consts avx2_gather_consts K pssm pads q a b old)
              (generic_rows_into add zero 32 pssm q a b old).

Check C01_score_sse2_eq_f32_wf :
  forall (C K : nat) (pssm : list (list f32)) (q : sseq) (a b : nat) (old : sscores f32),
    0 < C -> C mod 16 = 0 ->
    mat_wf C K (sq_mat q) -> pssm_wf K pssm -> sc_wf C old ->
    1 <= length pssm -> length pssm - 1 <= sq_wrap q ->
    res_equiv (sse2_rows_into F32.add F32.zero sse2_consts C pssm q a b old)
              (generic_rows_into F32.add F32.zero C pssm q a b old).

Check C01_score_unstripe_padded :
  forall (T : Type) (add : T -> T -> T) (zero : T) (C K : nat)
         (pssm : list (list T)) (s : list nat) (q : sseq),
    0 < C -> mat_wf C K (sq_mat q) -> pssm_wf K pssm ->
    Padded C (K - 1) s q ->
    1 <= length pssm -> length pssm - 1 <= sq_wrap q ->
    rbind (generic_score add zero C pssm q) (sc_unstripe C) =
    Ok (map (score_def add zero (K - 1) pssm s) (seq 0 (length s + 1 - length pssm))).

Check C01_scores_short_iter_index :
  forall (T : Type) (add : T -> T -> T) (zero : T) (C : nat)
         (pssm : list (list T)) (q : sseq) (ops : list bool) (i : nat),
    sq_wrap q <= length (sq_mat q) -> sq_len q < length pssm ->
    generic_score add zero C pssm q = Ok (mkScores [] 0) /\
    sc_iter_end C (@mkScores T [] 0) = 0 /\
    sc_iter_ops C (@mkScores T [] 0) ops = Ok (repeat None (length ops)) /\
    sc_unstripe C (@mkScores T [] 0) = Ok [] /\
    sc_get (@mkScores T [] 0) i = Panic 20.

(* ====================================================================== *)
(* non-vacuity *)

(* [Striped] is satisfiable for every sequence, every column count and every wrap *)
Example C01_striped_satisfiable :
  forall (C K : nat) (s : list nat) (w : nat), Striped C (K - 1) s (stripe_of C (K - 1) s w).
Proof. intros. apply stripe_of_striped. Qed.

(* the README example (15-column motif, 64-nt sequence, DNA, 32 columns, configure()):
   all hypotheses of the theorems above hold ... *)
Example C01_readme_hypotheses :
  0 < 5 /\ Forall (fun x => x < 5) readme_seq /\ pssm_wf 5 readme_pssm /\
  Striped 32 (5 - 1) readme_seq (stripe_of 32 4 readme_seq 14) /\
  sc_wf 32 (@sc_empty f32) /\
  1 <= length readme_pssm /\ length readme_pssm - 1 <= sq_wrap (stripe_of 32 4 readme_seq 14) /\
  length readme_pssm <= length readme_seq /\ (Z.of_nat (length readme_pssm) <= 2 ^ 23)%Z.
Proof.
  split; [lia|]. split; [unfold readme_seq; repeat constructor|].
  split; [unfold readme_pssm, pssm_wf; cbn [map readme_pssm_bits]; repeat constructor|].
  split; [apply (stripe_of_striped 32 5)|]. split; [apply sc_wf_empty|].
  vm_compute. repeat split; try lia; discriminate.
Qed.

(* ... the first score is the value asserted in the README, -23.07094 = 0xc1b89149, on the
   generic, AVX2 (permute) and SSE2 models, and position 50 = L - M + 1 is not a score *)
Example C01_readme_scores :
  let q := stripe_of 32 4 readme_seq 14 in
  let bits (r : res (sscores f32)) i :=
    rbind r (fun sc => rbind (sc_get sc i) (fun v => Ok (F32.to_bits v))) in
  bits (generic_score F32.add F32.zero 32 readme_pssm q) 0 = Ok 0xc1b89149%Z /\
  bits (score_with (avx2_rows_into F32.add F32.zero avx2_permute_consts avx2_gather_consts 5
                                   readme_pssm (fun _ => [F32.nan; F32.nan; F32.nan])) q) 0 = Ok 0xc1b89149%Z /\
  bits (score_with (sse2_rows_into F32.add F32.zero sse2_consts 32 readme_pssm) q) 0 = Ok 0xc1b89149%Z /\
  rbind (rbind (generic_score F32.add F32.zero 32 readme_pssm q) (sc_unstripe 32))
        (fun v => Ok (length v)) = Ok 50.
Proof. vm_compute. repeat split; reflexivity. Qed.

(* the checker accepts the defined scores of the README example and rejects a wrong count
   and a perturbed value *)
Example C01_readme_checker :
  let vals := map (score_def F32.add F32.zero 4 readme_pssm readme_seq) (seq 0 50) in
  check_C01 4 readme_pssm readme_seq vals = true /\
  check_C01 4 readme_pssm readme_seq (tl vals) = false /\
  check_C01 4 readme_pssm readme_seq (F32.of_bits 0xc1b8914b :: tl vals) = true /\
  check_C01 4 readme_pssm readme_seq (F32.of_bits 0xc1b89249 :: tl vals) = false.
Proof. vm_compute. repeat split; reflexivity. Qed.

(* the premises of the IEEE theorems are satisfiable *)
Example C01_ieee_premises :
  sums_finite F32.zero [F32.of_bits 0x3fc00000; F32.of_bits 0xc0257006; F32.of_bits 0x3f5fdd34] = true /\
  no_pinf_nan (fold_left F32.add [F32.of_bits 0x3fc00000] F32.zero) /\
  classify [F32.of_bits 0x3fc00000; F32.ninf; F32.of_bits 0xc0257006] = HasNegInf.
Proof. vm_compute. repeat split; try reflexivity; discriminate. Qed.
