(* Extraction of the executable scoring models (instantiated at IEEE binary32,
   LMBase.IEEE on Flocq) and of the property checker, for the correspondence run.
   Only ExtrOcamlBasic is used: nat, N, Z, positive stay the extracted inductives. *)
From Coq Require Import List ZArith NArith Extraction ExtrOcamlBasic.
From LMBase Require Import Res ListX IEEE.
From LMScore Require Import ScoreModel ScorePadModel SimdModel GenAvx2 GenLane4 ScoreCheck GenScores ScoresModel.

Definition x_of_bits : Z -> f32 := F32.of_bits.
Definition x_to_bits : f32 -> Z := F32.to_bits.

Definition x_striped_b : nat -> nat -> list nat -> sseq -> bool := striped_b.
(* states built by StripedSequence::new / ::sample (ScorePadModel.v): the executable [Padded] check and
   the logical sequence read off the matrix *)
Definition x_padded_b : nat -> nat -> sseq -> bool := padded_b.
Definition x_logical_seq : nat -> nat -> sseq -> list nat := logical_seq.
Definition x_score_def (N : nat) := @score_def f32 F32.add F32.zero N.

Definition x_generic_rows_into (C : nat) := @generic_rows_into f32 F32.add F32.zero C.
Definition x_avx2_rows_into (K : nat) :=
  @avx2_rows_into f32 F32.add F32.zero avx2_permute_consts avx2_gather_consts K.
Definition x_sse2_rows_into (C : nat) := @sse2_rows_into f32 F32.add F32.zero sse2_consts C.
Definition x_dispatch_rows_into (K : nat) :=
  @dispatch_rows_into f32 F32.add F32.zero dispatch_score_f32 avx2_permute_consts avx2_gather_consts
                      sse2_consts K.
Definition x_score_with := @score_with f32.
Definition x_unstripe (C : nat) := @sc_unstripe f32 C.
Definition x_sc_get := @sc_get f32.
Definition x_iter_ops (C : nat) := @sc_iter_ops f32 C.
Definition x_offset := @sc_offset f32.
Definition x_score_position := @score_position f32 F32.add F32.zero.
Definition x_layout_ok : bool :=
  andb (andb (avx2_layout_ok avx2_permute_consts) (avx2_layout_ok avx2_gather_consts))
       (lane4_layout_ok sse2_consts).

(* histories on one reused StripedScores buffer (ScoresModel.v); the logical content is read through
   the functions written from the statement skeleton of scores.rs (GenScores.v) *)
Definition x_hstep : nat -> hop -> sscores f32 -> res (sscores f32) := f_hstep.
Definition x_ref_call : nat -> hop -> res (sscores f32) := ref_call.
Definition x_sk_unstripe (C : nat) := @sk_unstripe f32 C.
Definition x_sk_index := @sk_index f32.
Definition x_sk_is_empty := @sk_is_empty f32.
Definition x_sk_iter_end (C : nat) := @sk_iter_end f32 C.
Definition x_sk_resize (C : nat) := @sk_resize f32 F32.zero C.
Definition x_sk_empty (C : nat) := @sk_empty f32 F32.zero C.

Extraction Language OCaml.
Extraction "score_model.ml"
  x_of_bits x_to_bits x_striped_b x_padded_b x_logical_seq x_score_def x_generic_rows_into x_avx2_rows_into
  x_sse2_rows_into x_dispatch_rows_into x_score_with x_unstripe x_sc_get x_iter_ops x_offset x_score_position
  x_layout_ok x_hstep x_ref_call x_sk_unstripe x_sk_index x_sk_is_empty x_sk_iter_end x_sk_resize x_sk_empty check_value check_values check_C01 check_same_results check_subrange passes f32_terms f32_sum feqb seq_R.
