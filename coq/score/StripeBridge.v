(* Bridge to the striping model of property C04 (coq/stripe): the state that the
   model of Stripe::stripe / stripe_into / configure / configure_wrap reaches after
   ANY history of such calls satisfies the hypothesis [Striped] of the scoring
   theorems.  This turns the assumption "the sequence matrix is the striped form
   of s" into a theorem about the modelled library code. *)
From Coq Require Import List Arith Bool Lia.
From LMBase Require Import Res ListX.
From LMStripe Require StripeModel StripeAvx2 StripeSpec C04.
From LMScore Require Import ScoreModel ScoreProofs.
Import ListNotations.

(* the same StripedSequence, in the record of the scoring model *)
Definition of_stripe (st : LMStripe.StripeModel.sseq) : sseq :=
  mkSeq (LMStripe.StripeModel.slen st) (LMStripe.StripeModel.swrap st) (LMStripe.StripeModel.mat st).

Lemma striped_bridge K C s st :
  LMStripe.StripeSpec.Striped K C s st -> Striped C (K - 1) s (of_stripe st).
Proof.
  intros [Hwf [Hrows [Hlen Hcell]]].
  unfold Striped, of_stripe. cbn [sq_len sq_wrap sq_mat].
  split; [exact Hlen|]. split; [exact Hrows|]. split.
  - intros r Hr. unfold LMStripe.StripeSpec.wf_matrix in Hwf.
    rewrite Forall_forall in Hwf. apply Hwf. apply nth_In. exact Hr.
  - intros r c Hr Hc. rewrite Hrows in Hr. exact (Hcell r c Hr Hc).
Qed.

(* any history of striping / configuration calls starting from StripedSequence::default() *)
Lemma history_striped K C (ops : list LMStripe.StripeAvx2.op) :
  0 < C -> forallb (LMStripe.StripeAvx2.op_typed C) ops = true ->
  exists st,
    LMStripe.StripeAvx2.run K C (LMStripe.StripeModel.s_default) ops = Ok st /\
    Striped C (K - 1) (LMStripe.StripeAvx2.last_seq [] ops) (of_stripe st) /\
    sq_wrap (of_stripe st) = LMStripe.StripeAvx2.wrap_after 0 ops.
Proof.
  intros HC Ht.
  destruct (LMStripe.C04.C04_history_from_default K C ops (length ops) HC Ht) as [st [Hrun [Hst Hw]]].
  rewrite firstn_all in *. exists st. split; [exact Hrun|]. split.
  - apply striped_bridge. exact Hst.
  - exact Hw.
Qed.
