(* Model of the rest of scores.rs and of HISTORIES of calls on one reused StripedScores buffer
   (property C01, "result length bookkeeping (max_index = L+1-M) and striped->linear
   iteration").  Executable definitions only.

   1. the StripedScores functions written from the statement skeleton that
      translate/score_scores.py reads from scores.rs on every run (GenScores.v): resize, empty /
      Default, is_empty, offset, Index<usize>, Iter::new / get (so iter, unstripe,
      From<StripedScores> for Vec, len); C01Scores.C01_scores_skeleton_as_modelled states that
      they are the hand-written functions of ScoreModel.v which all the other theorems use;
   2. operations on one buffer `scores: StripedScores<f32, C>` that a caller can interleave:
        HScoreInto  c        pli.score_into(&pssm, &seq, &mut scores)
        HRowsInto   c a b    pli.score_rows_into(&pssm, &seq, a..b, &mut scores)
        HResize     r m      scores.resize(r, m)
        HClone               scores = scores.clone()
        HDefault             scores = Default::default()   (= StripedScores::empty())
        HFill       v        scores.matrix_mut().fill(v)   (the caller scribbles over the buffer)
      where a call c names the pipeline (generic, SSE2, AVX2, an arm of the dispatcher), the
      alphabet size, the scoring matrix (+ the contents of its padding) and the striped sequence:
      different calls of one history may use different motifs, sequences and alphabets;
   3. the logical content of a buffer: len (= iter().len() = unstripe().len()), unstripe,
      is_empty, Index.                                                                        *)
From Coq Require Import List Arith Bool.
From LMBase Require Import Res ListX.
From LMScore Require Import ScoreModel SimdModel GenScores.
Import ListNotations.

Section Skel.
  Context {T : Type}.
  Variable zero : T.
  Variable C : nat.

  (* a `/ rows` or `% rows` with rows = 0 panics (site 20, as in ScoreModel.sc_get) *)
  Definition sk_cell (sc : sscores T) (row col : nat) : res T :=
    match nth_error (sc_mat sc) row with
    | None => Panic 21
    | Some r => match nth_error r col with None => Panic 22 | Some v => Ok v end
    end.

  Definition sk_empty : sscores T := mkScores (m_resize (repeat zero C) [] em_rows) em_max.

  Definition sk_is_empty (sc : sscores T) : bool :=
    ie_lhs (length (sc_mat sc)) (sc_max sc) =? ie_rhs (length (sc_mat sc)) (sc_max sc).

  Definition sk_resize (old : sscores T) (rows maxi : nat) : sscores T :=
    mkScores (m_resize (repeat zero C) (sc_mat old) (rs_rows rows maxi)) (rs_max rows maxi).

  Definition sk_offset (sc : sscores T) (row col : nat) : nat := of_expr row col (length (sc_mat sc)).

  Definition sk_index (sc : sscores T) (i : nat) : res T :=
    let drows := length (sc_mat sc) in
    if drows =? 0 then Panic 20
    else sk_cell sc (ix_row i drows) (ix_col i drows).

  Definition sk_iter_get (sc : sscores T) (i : nat) : res T :=
    let drows := length (sc_mat sc) in
    if drows =? 0 then Panic 20
    else sk_cell sc (ig_row i drows) (ig_col i drows).

  Definition sk_iter_lo (sc : sscores T) : nat := it_lo (sc_max sc) (length (sc_mat sc)) C.
  Definition sk_iter_end (sc : sscores T) : nat :=
    Nat.min (it_end_a (sc_max sc) (length (sc_mat sc)) C) (it_end_b (sc_max sc) (length (sc_mat sc)) C).

  (* iter().cloned().collect() *)
  Definition sk_unstripe (sc : sscores T) : res (list T) :=
    mapM (sk_iter_get sc) (seq (sk_iter_lo sc) (sk_iter_end sc - sk_iter_lo sc)).
End Skel.

(* the pipelines a call can go through *)
Inductive backend := BGeneric | BSse2 | BAvx2 | BDispatch (ar : arm).

Section Hist.
  Context {T : Type}.
  Variable add : T -> T -> T.
  Variable zero : T.
  Variable C : nat.
  Variables csp csg : avx2_consts.
  Variable cs2 : lane4_consts.
  Variable table : arm -> kernel_id.

  Record call := mkCall {
    c_be : backend;
    c_K : nat;                     (* alphabet size of this call *)
    c_pssm : list (list T);
    c_pads : nat -> list T;        (* padding of the aligned scoring-matrix rows *)
    c_seq : sseq }.

  (* Score::score_rows_into of the pipeline (AVX2 and the dispatcher exist for 32 columns only) *)
  Definition call_rows_into (c : call) (a b : nat) (old : sscores T) : res (sscores T) :=
    match c_be c with
    | BGeneric => generic_rows_into add zero C (c_pssm c) (c_seq c) a b old
    | BSse2 => sse2_rows_into add zero cs2 C (c_pssm c) (c_seq c) a b old
    | BAvx2 => avx2_rows_into add zero csp csg (c_K c) (c_pssm c) (c_pads c) (c_seq c) a b old
    | BDispatch ar => dispatch_rows_into add zero table csp csg cs2 (c_K c) (c_pssm c) (c_pads c) ar (c_seq c) a b old
    end.

  Inductive hop :=
  | HScoreInto (c : call)
  | HRowsInto (c : call) (a b : nat)
  | HResize (rows maxi : nat)
  | HClone
  | HDefault
  | HFill (v : T).

  Definition hstep (op : hop) (buf : sscores T) : res (sscores T) :=
    match op with
    | HScoreInto c => score_into (fun _ => call_rows_into c) (c_seq c) buf
    | HRowsInto c a b => call_rows_into c a b buf
    | HResize rows maxi => Ok (sc_resize zero C buf rows maxi)
    | HClone => Ok buf
    | HDefault => Ok sc_empty
    | HFill v => Ok (mkScores (map (map (fun _ => v)) (sc_mat buf)) (sc_max buf))
    end.

  Definition hrun (ops : list hop) (buf : sscores T) : res (sscores T) :=
    foldM (fun b op => hstep op b) ops buf.

  (* logical content *)
  Definition sc_len (sc : sscores T) : nat := sc_iter_end C sc.
  Definition sc_is_empty (sc : sscores T) : bool := length (sc_mat sc) =? 0.
End Hist.

(* ---------- instances at IEEE binary32 with the generated lane / dispatch tables ---------- *)
From LMBase Require Import IEEE.
From LMScore Require Import GenAvx2 GenLane4.

Definition f_call_rows_into (C : nat) :=
  @call_rows_into f32 F32.add F32.zero C avx2_permute_consts avx2_gather_consts sse2_consts dispatch_score_f32.
Definition f_hstep (C : nat) :=
  @hstep f32 F32.add F32.zero C avx2_permute_consts avx2_gather_consts sse2_consts dispatch_score_f32.
Definition f_hrun (C : nat) :=
  @hrun f32 F32.add F32.zero C avx2_permute_consts avx2_gather_consts sse2_consts dispatch_score_f32.

(* the reference for a scoring call: the generic pipeline on a FRESH (empty) buffer *)
Definition ref_call (C : nat) (op : hop (T := f32)) : res (sscores f32) :=
  match op with
  | HScoreInto c => generic_score F32.add F32.zero C (c_pssm c) (c_seq c)
  | HRowsInto c a b => generic_rows_into F32.add F32.zero C (c_pssm c) (c_seq c) a b sc_empty
  | _ => Ok sc_empty
  end.
