(* Lemmas behind C01Scores.v: the skeleton of scores.rs read by the translator is the
   hand-written model; a scoring call does not depend on the previous contents of the reused
   buffer; histories of calls on one buffer. *)
From Coq Require Import List Arith Bool Lia ZArith.
From LMBase Require Import Res ListX IEEE.
From LMScore Require Import ScoreModel SimdModel GenAvx2 GenLane4 GenScores ScoresModel ScoreCheck
     ScoreProofs SimdProofs Sse2Proofs F32Proofs CheckProofs C01.
Import ListNotations.

(* ---------- skeleton = hand-written model ---------- *)

Lemma mapM_ext {A B} (f g : A -> res B) l : (forall x, f x = g x) -> mapM f l = mapM g l.
Proof. intros H. induction l as [|x r IH]; simpl; auto. rewrite H, IH. reflexivity. Qed.

(* the proofs below tolerate the harmless rewrites the translator accepts: commuted operands of
   `+`, `*`, `==` and `min`, the two `let`s of index / get in either order *)
Lemma sk_cell_eq {T} (sc : sscores T) row col row' col' :
  row = row' -> col = col' -> sk_cell sc row col = sk_cell sc row' col'.
Proof. intros -> ->. reflexivity. Qed.

Lemma sk_index_eq {T} (sc : sscores T) i : sk_index sc i = sc_get sc i.
Proof.
  unfold sk_index, sc_get. destruct (_ =? 0); [reflexivity|].
  change (match nth_error (sc_mat sc) (i mod length (sc_mat sc)) with
          | Some row => match nth_error row (i / length (sc_mat sc)) with Some v => Ok v | None => Panic 22 end
          | None => Panic 21 end)
    with (sk_cell sc (i mod length (sc_mat sc)) (i / length (sc_mat sc))).
  apply sk_cell_eq; unfold ix_row, ix_col; reflexivity.
Qed.

Lemma sk_iter_get_eq {T} (sc : sscores T) i : sk_iter_get sc i = sc_get sc i.
Proof.
  unfold sk_iter_get, sc_get. destruct (_ =? 0); [reflexivity|].
  change (match nth_error (sc_mat sc) (i mod length (sc_mat sc)) with
          | Some row => match nth_error row (i / length (sc_mat sc)) with Some v => Ok v | None => Panic 22 end
          | None => Panic 21 end)
    with (sk_cell sc (i mod length (sc_mat sc)) (i / length (sc_mat sc))).
  apply sk_cell_eq; unfold ig_row, ig_col; reflexivity.
Qed.

Lemma sk_iter_end_eq {T} C (sc : sscores T) : sk_iter_end C sc = sc_iter_end C sc.
Proof. unfold sk_iter_end, sc_iter_end, it_end_a, it_end_b. lia. Qed.

Lemma sk_iter_lo_eq {T} C (sc : sscores T) : sk_iter_lo C sc = 0.
Proof. reflexivity. Qed.

Lemma sk_unstripe_eq {T} C (sc : sscores T) : sk_unstripe C sc = sc_unstripe C sc.
Proof.
  unfold sk_unstripe, sc_unstripe. rewrite sk_iter_lo_eq, Nat.sub_0_r.
  change (Nat.min (sc_max sc) (length (sc_mat sc) * C)) with (sc_iter_end C sc).
  rewrite sk_iter_end_eq. apply mapM_ext. intros x. apply sk_iter_get_eq.
Qed.

Lemma sk_is_empty_eq {T} (sc : sscores T) : sk_is_empty sc = sc_is_empty sc.
Proof. unfold sk_is_empty, sc_is_empty, ie_lhs, ie_rhs. first [reflexivity | apply Nat.eqb_sym]. Qed.

Lemma sk_offset_eq {T} (sc : sscores T) r c : sk_offset sc r c = sc_offset sc r c.
Proof. unfold sk_offset, sc_offset, of_expr. lia. Qed.

Lemma sk_resize_eq {T} (zero : T) C (sc : sscores T) rows maxi :
  sk_resize zero C sc rows maxi = sc_resize zero C sc rows maxi.
Proof. reflexivity. Qed.

Lemma sk_empty_eq {T} (zero : T) C : sk_empty zero C = sc_empty.
Proof. reflexivity. Qed.

(* ---------- a generic call rewrites every row of the resized buffer ---------- *)

Lemma firstn_upd_S {A} (v : A) : forall k l, k < length l -> firstn (S k) (upd k v l) = firstn k l ++ [v].
Proof.
  induction k as [|k IH]; intros [|x l] Hk; simpl in *; try lia; auto.
  f_equal. apply IH. lia.
Qed.

Lemma rows_update_indep {T} (f : nat -> res (list T)) : forall idx k buf buf',
  length buf = length buf' -> k + length idx = length buf -> firstn k buf = firstn k buf' ->
  rows_update (fun i _ => f i) k idx buf = rows_update (fun i _ => f i) k idx buf'.
Proof.
  induction idx as [|i rest IH]; intros k buf buf' Hl Hk Hf; simpl in *.
  - f_equal. rewrite <- (firstn_all buf), <- (firstn_all buf'). rewrite <- Hl.
    replace (length buf) with k by lia. exact Hf.
  - destruct (nth_error buf k) eqn:E1; [|apply nth_error_None in E1; lia].
    destruct (nth_error buf' k) eqn:E2; [|apply nth_error_None in E2; lia].
    destruct (f i) as [new| | |]; simpl; auto.
    apply IH; rewrite ?upd_length; try lia.
    rewrite !firstn_upd_S by lia. rewrite Hf. reflexivity.
Qed.

(* Score::score_rows_into (default body): the outcome does not depend on what the buffer held *)
Lemma generic_rows_into_indep {T} (add : T -> T -> T) zero C pssm q a b (old old' : sscores T) :
  generic_rows_into add zero C pssm q a b old = generic_rows_into add zero C pssm q a b old'.
Proof.
  unfold generic_rows_into. destruct (_ || _); [reflexivity|].
  cbn [sc_resize sc_mat sc_max].
  rewrite (rows_update_indep (fun i => gen_row add zero C pssm (sq_mat q) i) (seq a (b - a)) 0
             (m_resize (repeat zero C) (sc_mat old) (b - a)) (m_resize (repeat zero C) (sc_mat old') (b - a)));
    auto; rewrite ?m_resize_length, ?seq_length; auto.
Qed.

Lemma sc_wf_map_rows {T} C (g : nat -> nat -> T) l maxi :
  sc_wf C (mkScores (map (fun r => map (g r) (seq 0 C)) l) maxi).
Proof.
  intros r Hr. cbn [sc_mat] in *. rewrite map_length in Hr.
  rewrite (map_nth_in _ _ _ 0) by auto. rewrite map_length, seq_length. reflexivity.
Qed.

Lemma sc_wf_resize {T} (zero : T) C old rows maxi : sc_wf C old -> sc_wf C (sc_resize zero C old rows maxi).
Proof.
  intros Hw r Hr. cbn [sc_resize sc_mat] in *. rewrite m_resize_length in Hr.
  apply m_resize_row_length; auto. apply repeat_length.
Qed.

Lemma generic_ok_wf {T} (add : T -> T -> T) zero C K pssm s q a b old r :
  0 < C -> 0 < K -> Forall (fun x => x < K) s -> pssm_wf K pssm -> Striped C (K - 1) s q ->
  1 <= length pssm ->
  generic_rows_into add zero C pssm q a b old = Ok r -> sc_wf C r.
Proof.
  intros HC HK Hs Hp Hst HM E.
  pose proof (striped_mat_wf C K s q HK Hs Hst) as Hm.
  destruct (Nat.ltb_spec (sq_len q) (length pssm)) as [HL|HL].
  { rewrite generic_rows_into_empty in E by auto. inversion E. apply sc_wf_empty. }
  destruct (Nat.ltb_spec a b) as [Hab|Hab].
  2:{ rewrite generic_rows_into_empty in E by auto. inversion E. apply sc_wf_empty. }
  destruct (le_lt_dec (b + length pssm - 1) (length (sq_mat q))) as [Hb|Hb].
  - rewrite (generic_rows_into_ok add zero C K) in E by auto. inversion E. apply sc_wf_map_rows.
  - pose proof (generic_rows_into_panic add zero C K pssm q a b old HC Hm Hp HL Hab Hb HM) as P.
    rewrite E in P. discriminate.
Qed.

(* a sum started from +0.0 is never -0.0 *)
Lemma fold_add_not_nzero : forall (l : list f32) x, not_nzero x -> not_nzero (fold_left F32.add l x).
Proof. induction l as [|y l IH]; intros x Hx; simpl; auto. apply IH. apply f32_add_not_nzero. exact Hx. Qed.

Definition is_zero_cell (x : f32) : Prop := x = F32.nzero \/ x = F32.zero.

Lemma fold_add_zero_cells : forall l : list f32, Forall is_zero_cell l -> fold_left F32.add l F32.zero = F32.zero.
Proof.
  induction l as [|y l IH]; intros H; cbn [fold_left]; auto. inversion H as [|? ? Hy Hl]; subst.
  destruct Hy as [->| ->].
  - assert (E : F32.add F32.zero F32.nzero = F32.zero) by (vm_compute; reflexivity). rewrite E. auto.
  - assert (E : F32.add F32.zero F32.zero = F32.zero) by (vm_compute; reflexivity). rewrite E. auto.
Qed.

Lemma terms_from_zero_cells (pr : list (list f32)) : forall j f,
  Forall (Forall is_zero_cell) pr -> Forall is_zero_cell (terms_from F32.zero j pr f).
Proof.
  induction pr as [|row pr IH]; intros j f H; cbn [terms_from]; constructor; inversion H; subst; auto.
  destruct (nth_in_or_default (f j) row F32.zero) as [Hin|E]; [|right; exact E].
  match goal with Hr : Forall is_zero_cell row |- _ => exact (proj1 (Forall_forall _ _) Hr _ Hin) end.
Qed.

Lemma score_def_zero_cells N pssm s i :
  Forall (Forall is_zero_cell) pssm -> score_def F32.add F32.zero N pssm s i = F32.zero.
Proof. intros H. unfold score_def, score_terms. apply fold_add_zero_cells. apply terms_from_zero_cells. exact H. Qed.

(* ---------- histories ---------- *)

Lemma foldM_app {A B} (f : B -> A -> res B) l1 l2 b :
  foldM f (l1 ++ l2) b = rbind (foldM f l1 b) (foldM f l2).
Proof.
  revert b. induction l1 as [|x r IH]; intros b; simpl; auto.
  destruct (f b x); simpl; auto.
Qed.

Section HistProofs.
  Variable C : nat.
  Hypothesis HC : 0 < C.
  Hypothesis HC16 : C mod 16 = 0.

  (* AVX2 and the runtime dispatcher exist for 32 columns only *)
  Definition backend_ok (be : backend) : Prop :=
    match be with BAvx2 | BDispatch _ => C = 32 | _ => True end.

  (* a call on a configured striped sequence *)
  Definition call_on (c : call (T := f32)) (s : list nat) : Prop :=
    0 < c_K c /\ Forall (fun x => x < c_K c) s /\ pssm_wf (c_K c) (c_pssm c) /\
    Striped C (c_K c - 1) s (c_seq c) /\ 1 <= length (c_pssm c) /\
    length (c_pssm c) - 1 <= sq_wrap (c_seq c) /\ backend_ok (c_be c).

  Definition call_ok (c : call (T := f32)) : Prop := exists s, call_on c s.

  Definition hop_ok (op : hop (T := f32)) : Prop :=
    match op with HScoreInto c | HRowsInto c _ _ => call_ok c | _ => True end.

  Definition is_scoring (op : hop (T := f32)) : Prop :=
    match op with HScoreInto _ | HRowsInto _ _ _ => True | _ => False end.

  Lemma call_equiv c a b old :
    call_ok c -> sc_wf C old ->
    res_equiv (f_call_rows_into C c a b old)
              (generic_rows_into F32.add F32.zero C (c_pssm c) (c_seq c) a b old).
  Proof.
    destruct c as [be K pssm pads q]. intros [s [HK [Hs [Hp [Hst [HM [Hw Hbe]]]]]]] Hwf.
    cbn [c_be c_K c_pssm c_pads c_seq] in *.
    unfold f_call_rows_into, call_rows_into. cbn [c_be c_K c_pssm c_pads c_seq].
    destruct be as [| | |ar]; cbn [backend_ok] in Hbe.
    - apply res_equiv_refl. apply generic_rows_into_ok_or_panic.
    - apply (C01_score_sse2_eq_f32 C K pssm s q a b old); auto.
    - subst C. apply (C01_score_avx2_eq f32 F32.add F32.zero K pssm pads s q a b old); auto.
    - subst C. apply (C01_score_dispatch_eq_f32 K pssm pads s q ar a b old); auto.
  Qed.

  Lemma call_rows_wf c a b old r :
    call_ok c -> sc_wf C old -> f_call_rows_into C c a b old = Ok r -> sc_wf C r.
  Proof.
    intros Hc Hwf E. pose proof (call_equiv c a b old Hc Hwf) as Q. rewrite E in Q.
    destruct Hc as [s [HK [Hs [Hp [Hst [HM [Hw Hbe]]]]]]].
    destruct (generic_rows_into F32.add F32.zero C (c_pssm c) (c_seq c) a b old) as [g| | |] eqn:G;
      simpl in Q; try contradiction. subst g.
    eapply (generic_ok_wf F32.add F32.zero C (c_K c)); eauto.
  Qed.

  Lemma hstep_wf op buf r : hop_ok op -> sc_wf C buf -> f_hstep C op buf = Ok r -> sc_wf C r.
  Proof.
    destruct op as [c|c a b|rows maxi| | |v]; cbn [hop_ok]; intros Hok Hwf E;
      unfold f_hstep, hstep in E.
    - unfold score_into in E. destruct (seq_rows (c_seq c)) as [n| | |]; simpl in E; try discriminate.
      eapply call_rows_wf; eauto.
    - eapply call_rows_wf; eauto.
    - inversion E. apply sc_wf_resize. auto.
    - inversion E; subst; auto.
    - inversion E. apply sc_wf_empty.
    - inversion E. intros r0 Hr. cbn [sc_mat] in *. rewrite map_length in Hr.
      rewrite (map_nth_in _ _ _ []) by auto. rewrite map_length. apply Hwf. exact Hr.
  Qed.

  Lemma hrun_cons op h old : f_hrun C (op :: h) old = rbind (f_hstep C op old) (f_hrun C h).
  Proof. reflexivity. Qed.

  Lemma hrun_wf : forall h old mid,
    Forall hop_ok h -> sc_wf C old -> f_hrun C h old = Ok mid -> sc_wf C mid.
  Proof.
    induction h as [|op h IH]; intros old mid Hh Hwf E.
    - inversion E; subst; auto.
    - inversion Hh; subst. rewrite hrun_cons in E.
      destruct (f_hstep C op old) as [b| | |] eqn:S1; simpl in E; try discriminate.
      apply (IH b mid H2); [|exact E]. apply (hstep_wf op old b H1 Hwf). exact S1.
  Qed.

  (* a scoring call on any well-formed buffer = the generic pipeline on a fresh buffer *)
  Lemma hstep_scoring_ref op buf :
    is_scoring op -> hop_ok op -> sc_wf C buf -> res_equiv (f_hstep C op buf) (ref_call C op).
  Proof.
    destruct op as [c|c a b|rows maxi| | |v]; cbn [is_scoring hop_ok]; intros Hs Hok Hwf; try contradiction;
      unfold f_hstep, hstep, ref_call.
    - unfold generic_score, score_with, score_into, seq_rows.
      destruct (_ <? _); simpl; auto.
      rewrite (generic_rows_into_indep F32.add F32.zero C (c_pssm c) (c_seq c) 0 _ sc_empty buf).
      apply call_equiv; auto.
    - rewrite (generic_rows_into_indep F32.add F32.zero C (c_pssm c) (c_seq c) a b sc_empty buf).
      apply call_equiv; auto.
  Qed.

  Lemma scores_history h old last mid :
    sc_wf C old -> Forall hop_ok h -> is_scoring last -> hop_ok last ->
    f_hrun C h old = Ok mid ->
    sc_wf C mid /\ res_equiv (f_hstep C last mid) (ref_call C last).
  Proof.
    intros Hwf Hh Hs Hok E. pose proof (hrun_wf h old mid Hh Hwf E) as Hm.
    split; auto. apply hstep_scoring_ref; auto.
  Qed.

  Lemma hrun_snoc h last old r :
    f_hrun C (h ++ [last]) old = Ok r -> exists mid, f_hrun C h old = Ok mid /\ f_hstep C last mid = Ok r.
  Proof.
    unfold f_hrun, hrun. rewrite foldM_app. intros E.
    destruct (foldM _ h old) as [mid| | |]; simpl in E; try discriminate.
    exists mid. split; auto. unfold f_hstep.
    destruct (hstep _ _ _ _ _ _ _ last mid); simpl in E; try discriminate. exact E.
  Qed.

  Lemma scores_history_last_call_only h1 h2 old1 old2 last r1 r2 :
    sc_wf C old1 -> sc_wf C old2 -> Forall hop_ok h1 -> Forall hop_ok h2 ->
    is_scoring last -> hop_ok last ->
    f_hrun C (h1 ++ [last]) old1 = Ok r1 -> f_hrun C (h2 ++ [last]) old2 = Ok r2 -> r1 = r2.
  Proof.
    intros W1 W2 H1 H2 Hs Hok E1 E2.
    destruct (hrun_snoc h1 last old1 r1 E1) as [m1 [R1 S1]].
    destruct (hrun_snoc h2 last old2 r2 E2) as [m2 [R2 S2]].
    destruct (scores_history h1 old1 last m1 W1 H1 Hs Hok R1) as [_ Q1].
    destruct (scores_history h2 old2 last m2 W2 H2 Hs Hok R2) as [_ Q2].
    rewrite S1 in Q1. rewrite S2 in Q2.
    destruct (ref_call C last); simpl in *; try contradiction. congruence.
  Qed.

  (* the logical content after a full scan that ends any history *)
  Lemma scores_history_content h old c s mid :
    sc_wf C old -> Forall hop_ok h -> call_on c s -> f_hrun C h old = Ok mid ->
    let L := length s in let M := length (c_pssm c) in
    exists r,
      f_hstep C (HScoreInto c) mid = Ok r /\
      sc_max r = (if L <? M then 0 else L + 1 - M) /\
      length (sc_mat r) = (if L <? M then 0 else seq_R C L) /\
      sc_is_empty r = (L <? M) /\
      sc_len C r = L + 1 - M /\
      sc_unstripe C r = Ok (map (score_def F32.add F32.zero (c_K c - 1) (c_pssm c) s) (seq 0 (L + 1 - M))).
  Proof.
    intros Hwf Hh Hon E L M.
    assert (Hok : call_ok c) by (exists s; exact Hon).
    destruct (scores_history h old (HScoreInto c) mid Hwf Hh I Hok E) as [Hm Q].
    destruct Hon as [HK [Hs [Hp [Hst [HM [Hw Hbe]]]]]].
    pose proof (C01_score_unstripe f32 F32.add F32.zero C (c_K c) (c_pssm c) s (c_seq c) HC HK Hs Hp Hst HM Hw) as U.
    cbn [ref_call] in Q.
    set (g := generic_score (T := f32) F32.add F32.zero C (c_pssm c) (c_seq c)) in *.
    change (res_equiv (f_hstep C (HScoreInto c) mid) g) in Q.
    destruct (Nat.ltb_spec L M) as [HL|HL].
    - assert (G : g = Ok (mkScores [] 0))
        by exact (generic_score_short F32.add F32.zero C (c_K c) (c_pssm c) s (c_seq c) Hst HL).
      rewrite G in Q, U.
      apply res_equiv_ok in Q. eexists. split; [exact Q|].
      cbn [sc_max sc_mat length]. repeat split; auto.
      + unfold sc_len, sc_iter_end. cbn [sc_max sc_mat length]. unfold L, M in *. simpl. lia.
    - assert (G : g = Ok (mkScores (map (fun r => map (fun c0 => score_def F32.add F32.zero (c_K c - 1) (c_pssm c) s
                                                                   (c0 * seq_R C (length s) + r)) (seq 0 C))
                                        (seq 0 (seq_R C (length s))))
                                   (length s + 1 - length (c_pssm c))))
        by exact (generic_score_striped F32.add F32.zero C (c_K c) (c_pssm c) s (c_seq c) HC HK Hs Hp Hst HM Hw HL).
      rewrite G in Q, U.
      apply res_equiv_ok in Q. eexists. split; [exact Q|].
      destruct (seq_R_bound C (length s) HC) as [HB HR].
      cbn [sc_max sc_mat]. rewrite map_length, seq_length. repeat split; auto.
      + unfold sc_is_empty. cbn [sc_mat]. rewrite map_length, seq_length.
        apply Nat.eqb_neq. unfold L, M in *. lia.
      + unfold sc_len, sc_iter_end. cbn [sc_max sc_mat]. rewrite map_length, seq_length.
        apply Nat.min_l. unfold L, M in *. lia.
  Qed.
  (* a sub-range call that ends any history: rows a..b of the full scan of THIS call *)
  Lemma scores_history_sub_range h old c s a b mid :
    sc_wf C old -> Forall hop_ok h -> call_on c s -> f_hrun C h old = Ok mid ->
    length (c_pssm c) <= length s -> a < b -> b <= seq_R C (length s) ->
    exists full sub,
      generic_score F32.add F32.zero C (c_pssm c) (c_seq c) = Ok full /\
      f_hstep C (HRowsInto c a b) mid = Ok sub /\
      sc_mat sub = firstn (b - a) (skipn a (sc_mat full)) /\
      sc_max sub = length s + 1 - length (c_pssm c).
  Proof.
    intros Hwf Hh Hon E HL Hab Hb.
    assert (Hok : call_ok c) by (exists s; exact Hon).
    destruct (scores_history h old (HRowsInto c a b) mid Hwf Hh I Hok E) as [_ Q].
    destruct Hon as [HK [Hs [Hp [Hst [HM [Hw Hbe]]]]]].
    destruct (C01_score_rows_sub f32 F32.add F32.zero C (c_K c) (c_pssm c) s (c_seq c) a b sc_empty
                HC HK Hs Hp Hst HM Hw HL Hab Hb) as [full [sub [E1 [E2 [E3 E4]]]]].
    exists full, sub. cbn [ref_call] in Q.
    split; [exact E1|]. split; [exact (res_equiv_eq_ok _ _ _ Q E2)|]. split; [exact E3|].
    rewrite E4.
    pose proof (generic_score_striped F32.add F32.zero C (c_K c) (c_pssm c) s (c_seq c) HC HK Hs Hp Hst HM Hw HL) as G.
    pose proof (eq_trans (eq_sym E1) G) as EE. inversion EE. reflexivity.
  Qed.
End HistProofs.
