(* Histories on one reused score buffer (ScoresProofs.v) under the WEAKEST hypothesis on the scored
   sequences: [call_wf] asks of the striped sequence only that its matrix is well formed (rows of C
   symbols) and configured for the motif -- no [Striped].  So the history theorems cover sequences
   built by StripedSequence::new / ::sample (arbitrary padding, any number of rows) as well.
   [call_ok] (round 3, [Striped]) implies [call_wf]. *)
From Coq Require Import List Arith Bool Lia ZArith.
From LMBase Require Import Res ListX IEEE.
From LMScore Require Import ScoreModel ScorePadModel SimdModel GenAvx2 GenLane4 GenScores ScoresModel ScoreCheck
     ScoreProofs SimdProofs Sse2Proofs F32Proofs CheckProofs ScorePad C01 ScoresProofs.
Import ListNotations.

Lemma generic_ok_wf' {T} (add : T -> T -> T) zero C K pssm q a b old r :
  0 < C -> mat_wf C K (sq_mat q) -> pssm_wf K pssm -> 1 <= length pssm ->
  generic_rows_into add zero C pssm q a b old = Ok r -> sc_wf C r.
Proof.
  intros HC Hm Hp HM E.
  destruct (Nat.ltb_spec (sq_len q) (length pssm)) as [HL|HL].
  { rewrite generic_rows_into_empty in E by auto. inversion E. apply sc_wf_empty. }
  destruct (Nat.ltb_spec a b) as [Hab|Hab].
  2:{ rewrite generic_rows_into_empty in E by auto. inversion E. apply sc_wf_empty. }
  destruct (le_lt_dec (b + length pssm - 1) (length (sq_mat q))) as [Hb|Hb].
  - rewrite (generic_rows_into_ok add zero C K) in E by auto. inversion E. apply sc_wf_map_rows.
  - pose proof (generic_rows_into_panic add zero C K pssm q a b old HC Hm Hp HL Hab Hb HM) as P.
    rewrite E in P. discriminate.
Qed.

Section HistWf.
  Variable C : nat.
  Hypothesis HC : 0 < C.
  Hypothesis HC16 : C mod 16 = 0.

  Definition call_wf (c : call (T := f32)) : Prop :=
    mat_wf C (c_K c) (sq_mat (c_seq c)) /\ pssm_wf (c_K c) (c_pssm c) /\
    1 <= length (c_pssm c) /\ length (c_pssm c) - 1 <= sq_wrap (c_seq c) /\ backend_ok C (c_be c).

  Definition hop_wf (op : hop (T := f32)) : Prop :=
    match op with HScoreInto c | HRowsInto c _ _ => call_wf c | _ => True end.

  Lemma call_ok_wf c : call_ok C c -> call_wf c.
  Proof.
    intros [s [HK [Hs [Hp [Hst [HM [Hw Hbe]]]]]]]. unfold call_wf.
    split; [exact (striped_mat_wf C (c_K c) s (c_seq c) HK Hs Hst)|]. auto.
  Qed.

  Lemma hop_ok_wf op : hop_ok C op -> hop_wf op.
  Proof. destruct op; cbn [hop_ok hop_wf]; auto using call_ok_wf. Qed.

  Lemma call_equiv_wf c a b old :
    call_wf c -> sc_wf C old ->
    res_equiv (f_call_rows_into C c a b old)
              (generic_rows_into F32.add F32.zero C (c_pssm c) (c_seq c) a b old).
  Proof.
    destruct c as [be K pssm pads q]. intros [Hm [Hp [HM [Hw Hbe]]]] Hwf.
    cbn [c_be c_K c_pssm c_pads c_seq] in *.
    unfold f_call_rows_into, call_rows_into. cbn [c_be c_K c_pssm c_pads c_seq].
    destruct be as [| | |ar]; cbn [backend_ok] in Hbe.
    - apply res_equiv_refl. apply generic_rows_into_ok_or_panic.
    - apply (C01_score_sse2_eq_f32_wf C K pssm q a b old); auto.
    - subst C. apply (C01_score_avx2_eq_wf f32 F32.add F32.zero K pssm pads q a b old); auto.
    - subst C. apply (C01_score_dispatch_eq_f32_wf K pssm pads q ar a b old); auto.
  Qed.

  Lemma call_rows_wf_wf c a b old r :
    call_wf c -> sc_wf C old -> f_call_rows_into C c a b old = Ok r -> sc_wf C r.
  Proof.
    intros Hc Hwf E. pose proof (call_equiv_wf c a b old Hc Hwf) as Q. rewrite E in Q.
    destruct Hc as [Hm [Hp [HM [Hw Hbe]]]].
    destruct (generic_rows_into F32.add F32.zero C (c_pssm c) (c_seq c) a b old) as [g| | |] eqn:G;
      simpl in Q; try contradiction. subst g.
    eapply (generic_ok_wf' F32.add F32.zero C (c_K c)); eauto.
  Qed.

  Lemma hstep_wf_wf op buf r : hop_wf op -> sc_wf C buf -> f_hstep C op buf = Ok r -> sc_wf C r.
  Proof.
    destruct op as [c|c a b|rows maxi| | |v]; cbn [hop_wf]; intros Hok Hwf E;
      unfold f_hstep, hstep in E.
    - unfold score_into in E. destruct (seq_rows (c_seq c)) as [n| | |]; simpl in E; try discriminate.
      eapply call_rows_wf_wf; eauto.
    - eapply call_rows_wf_wf; eauto.
    - inversion E. apply sc_wf_resize. auto.
    - inversion E; subst; auto.
    - inversion E. apply sc_wf_empty.
    - inversion E. intros r0 Hr. cbn [sc_mat] in *. rewrite map_length in Hr.
      rewrite (map_nth_in _ _ _ []) by auto. rewrite map_length. apply Hwf. exact Hr.
  Qed.

  Lemma hrun_wf_wf : forall h old mid,
    Forall hop_wf h -> sc_wf C old -> f_hrun C h old = Ok mid -> sc_wf C mid.
  Proof.
    induction h as [|op h IH]; intros old mid Hh Hwf E.
    - inversion E; subst; auto.
    - inversion Hh; subst. rewrite hrun_cons in E.
      destruct (f_hstep C op old) as [b| | |] eqn:S1; simpl in E; try discriminate.
      apply (IH b mid H2); [|exact E]. apply (hstep_wf_wf op old b H1 Hwf). exact S1.
  Qed.

  Lemma hstep_scoring_ref_wf op buf :
    is_scoring op -> hop_wf op -> sc_wf C buf -> res_equiv (f_hstep C op buf) (ref_call C op).
  Proof.
    destruct op as [c|c a b|rows maxi| | |v]; cbn [is_scoring hop_wf]; intros Hs Hok Hwf; try contradiction;
      unfold f_hstep, hstep, ref_call.
    - unfold generic_score, score_with, score_into, seq_rows.
      destruct (_ <? _); simpl; auto.
      rewrite (generic_rows_into_indep F32.add F32.zero C (c_pssm c) (c_seq c) 0 _ sc_empty buf).
      apply call_equiv_wf; auto.
    - rewrite (generic_rows_into_indep F32.add F32.zero C (c_pssm c) (c_seq c) a b sc_empty buf).
      apply call_equiv_wf; auto.
  Qed.

  Lemma scores_history_wf h old last mid :
    sc_wf C old -> Forall hop_wf h -> is_scoring last -> hop_wf last ->
    f_hrun C h old = Ok mid ->
    sc_wf C mid /\ res_equiv (f_hstep C last mid) (ref_call C last).
  Proof.
    intros Hwf Hh Hs Hok E. pose proof (hrun_wf_wf h old mid Hh Hwf E) as Hm.
    split; auto. apply hstep_scoring_ref_wf; auto.
  Qed.

  Lemma scores_history_last_call_only_wf h1 h2 old1 old2 last r1 r2 :
    sc_wf C old1 -> sc_wf C old2 -> Forall hop_wf h1 -> Forall hop_wf h2 ->
    is_scoring last -> hop_wf last ->
    f_hrun C (h1 ++ [last]) old1 = Ok r1 -> f_hrun C (h2 ++ [last]) old2 = Ok r2 -> r1 = r2.
  Proof.
    intros W1 W2 H1 H2 Hs Hok E1 E2.
    destruct (hrun_snoc C h1 last old1 r1 E1) as [m1 [R1 S1]].
    destruct (hrun_snoc C h2 last old2 r2 E2) as [m2 [R2 S2]].
    destruct (scores_history_wf h1 old1 last m1 W1 H1 Hs Hok R1) as [_ Q1].
    destruct (scores_history_wf h2 old2 last m2 W2 H2 Hs Hok R2) as [_ Q2].
    rewrite S1 in Q1. rewrite S2 in Q2.
    destruct (ref_call C last); simpl in *; try contradiction. congruence.
  Qed.

  (* the logical content after a full scan of a PADDED state that ends any history *)
  Lemma scores_history_content_padded h old c s mid :
    sc_wf C old -> Forall hop_wf h -> call_wf c -> Padded C (c_K c - 1) s (c_seq c) ->
    f_hrun C h old = Ok mid ->
    let L := length s in let M := length (c_pssm c) in
    exists r,
      f_hstep C (HScoreInto c) mid = Ok r /\
      sc_max r = (if L <? M then 0 else L + 1 - M) /\
      length (sc_mat r) = (if L <? M then 0 else pad_R (c_seq c)) /\
      sc_is_empty r = (L <? M) /\
      sc_len C r = L + 1 - M /\
      sc_unstripe C r = Ok (map (score_def F32.add F32.zero (c_K c - 1) (c_pssm c) s) (seq 0 (L + 1 - M))).
  Proof.
    intros Hwf Hh Hok [Hlen [pad [Hst Hfill]]] E L M.
    destruct (scores_history_wf h old (HScoreInto c) mid Hwf Hh I Hok E) as [Hmid Q].
    destruct Hok as [Hm [Hp [HM [Hw Hbe]]]].
    pose proof (unstripe_padded (T := f32) F32.add F32.zero C (c_K c) HC (c_pssm c) s pad (c_seq c) Hm Hp Hlen Hst Hfill HM Hw) as U.
    cbn [ref_call] in Q.
    set (g := generic_score (T := f32) F32.add F32.zero C (c_pssm c) (c_seq c)) in *.
    change (res_equiv (f_hstep C (HScoreInto c) mid) g) in Q.
    destruct (Nat.ltb_spec L M) as [HL|HL].
    - assert (G : g = Ok (mkScores [] 0))
        by exact (generic_score_padded_short (T := f32) F32.add F32.zero C (c_K c) HC (c_pssm c) s pad (c_seq c) Hlen Hst Hfill HM Hw HL).
      rewrite G in Q, U.
      apply res_equiv_ok in Q. eexists. split; [exact Q|].
      cbn [sc_max sc_mat length]. repeat split; auto.
      unfold sc_len, sc_iter_end. cbn [sc_max sc_mat length]. unfold L, M in *. simpl. lia.
    - assert (G : g = Ok (mkScores (full_mat F32.add F32.zero C (c_K c) (c_pssm c) (s ++ pad))
                                   (length s + 1 - length (c_pssm c))))
        by exact (generic_score_padded (T := f32) F32.add F32.zero C (c_K c) HC (c_pssm c) s pad (c_seq c) Hm Hp Hlen Hst Hfill HM Hw HL).
      rewrite G in Q, U.
      apply res_equiv_ok in Q. eexists. split; [exact Q|].
      assert (HR : seq_R C (length (s ++ pad)) = pad_R (c_seq c)) by (rewrite Hfill; apply seq_R_mul; auto).
      assert (Hle : length s <= pad_R (c_seq c) * C) by (rewrite <- Hfill, app_length; lia).
      cbn [sc_max sc_mat]. rewrite full_mat_length, HR. repeat split; auto.
      + unfold sc_is_empty. cbn [sc_mat]. rewrite full_mat_length, HR.
        apply Nat.eqb_neq. unfold L, M in *. intros E0. rewrite E0 in Hle. simpl in Hle. lia.
      + unfold sc_len, sc_iter_end. cbn [sc_max sc_mat]. rewrite full_mat_length, HR.
        apply Nat.min_l. unfold L, M in *. lia.
  Qed.
End HistWf.
