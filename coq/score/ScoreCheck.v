(* Executable checker of property C01 on observed binary32 values (definitions
   only; soundness is in CheckProofs.v).

   For one scored position the property says: the value is the sum over j of
   matrix[j][sequence[i+j]], negative infinity as soon as one term is, within
   floating-point summation error of the exact sum.  [check_value] decides this
   for an observed value v given the list of terms:
     - VExact   v is bit-identical to the left-to-right binary32 sum from +0
                (what every backend is proved to compute);
     - VClose   not bit-identical, but within the stated tolerance
                |v - S| <= n * 2^-23 * sum |t_j|  of the exact sum S (all terms
                finite), resp. v = -inf when a term is -inf and no term is
                +inf/NaN: a reordering of the additions, not a wrong score;
     - VUnknown the case is outside the property's quantifier (a +inf or NaN
                cell) or the terms are so large (sum |t_j| >= 2^126) that an
                intermediate overflow is possible: nothing is claimed;
     - VBad     the property is violated.
   Exact sums are computed in Z, in units of 2^-149 (the smallest subnormal). *)
From Coq Require Import ZArith List Bool Arith.
From Flocq Require Import Core BinarySingleNaN.
From LMBase Require Import IEEE.
From LMScore Require Import ScoreModel.
Import ListNotations.

Local Open Scope Z_scope.

Definition feqb (a b : f32) : bool :=
  match a, b with
  | B754_zero s1, B754_zero s2 => Bool.eqb s1 s2
  | B754_infinity s1, B754_infinity s2 => Bool.eqb s1 s2
  | B754_nan, B754_nan => true
  | B754_finite s1 m1 e1 _, B754_finite s2 m2 e2 _ =>
      Bool.eqb s1 s2 && Pos.eqb m1 m2 && Z.eqb e1 e2
  | _, _ => false
  end.

(* value of a finite float in units of 2^-149 *)
Definition fin_scaled (x : f32) : option Z :=
  match x with
  | B754_zero _ => Some 0
  | B754_finite s m e _ => Some (Z.shiftl (cond_Zopp s (Zpos m)) (e + 149))   (* m * 2^(e+149), e >= -149 *)
  | _ => None
  end.

Inductive term_class := AllFinite | HasNegInf | Outside.

Fixpoint classify (l : list f32) : term_class :=
  match l with
  | [] => AllFinite
  | x :: r =>
      match x with
      | B754_nan | B754_infinity false => Outside
      | B754_infinity true => match classify r with Outside => Outside | _ => HasNegInf end
      | _ => classify r
      end
  end.

Definition scaled0 (x : f32) : Z := match fin_scaled x with Some z => z | None => 0 end.

Definition exact_sum (l : list f32) : Z := fold_left (fun a x => a + scaled0 x) l 0.
Definition abs_sum (l : list f32) : Z := fold_left (fun a x => a + Z.abs (scaled0 x)) l 0.

(* sum |t_j| < 2^126: no partial sum of the left-to-right evaluation can overflow
   (F32Proofs.sums_finite_bound); beyond it nothing is claimed *)
Definition overflow_limit : Z := 2 ^ 275.

Inductive verdict := VExact | VClose | VUnknown | VBad (code : nat).

Definition within_tol (terms : list f32) (z : Z) : bool :=
  Z.abs (z - exact_sum terms) * 2 ^ 23 <=? Z.of_nat (length terms) * abs_sum terms.

(* [d] is the defined sum (only used to tell "bit-identical" from "close"); whether
   the property holds of [v] never depends on it *)
Definition check_value (terms : list f32) (d v : f32) : verdict :=
  let same := if feqb v d then VExact else VClose in
  let unknown := if feqb v d then VExact else VUnknown in
  match classify terms with
  | Outside => unknown
  | AllFinite =>
      if overflow_limit <=? abs_sum terms then unknown
      else match fin_scaled v with
           | None => VBad 1
           | Some z => if within_tol terms z then same else VBad 2
           end
  | HasNegInf =>
      if overflow_limit <=? abs_sum terms then unknown
      else if feqb v F32.ninf then same else VBad 3
  end.

Definition passes (x : verdict) : bool := match x with VBad _ => false | _ => true end.

Definition worse (a b : verdict) : verdict :=
  match a, b with
  | VBad c, _ => VBad c
  | _, VBad c => VBad c
  | VUnknown, _ | _, VUnknown => VUnknown
  | VClose, _ | _, VClose => VClose
  | VExact, VExact => VExact
  end.

(* the defined binary32 score and its terms (ScoreModel.score_def at F32) *)
Definition f32_terms (N : nat) (pssm : list (list f32)) (s : list nat) (i : nat) : list f32 :=
  score_terms F32.zero N pssm s i.
Definition f32_sum (l : list f32) : f32 := fold_left F32.add l F32.zero.

(* all values of one scan: the count must be L + 1 - M and every value must pass.
   [st] is the part of the sequence from the current position on (the terms of position i
   are read from [skipn i s] at offset 0, which keeps the walk linear in L) *)
Fixpoint check_values_from (N : nat) (pssm : list (list f32)) (st : list nat)
         (vals : list f32) : verdict :=
  match vals with
  | [] => VExact
  | v :: r =>
      let t := f32_terms N pssm st 0 in
      worse (check_value t (f32_sum t) v) (check_values_from N pssm (tl st) r)
  end.

Definition check_values (N : nat) (pssm : list (list f32)) (s : list nat) (vals : list f32) : verdict :=
  if Nat.eqb (length vals) (length s + 1 - length pssm)
  then check_values_from N pssm s vals
  else VBad 9.

(* the property checker behind the driver's PROPFAIL decision *)
Definition check_C01 (N : nat) (pssm : list (list f32)) (s : list nat) (vals : list f32) : bool :=
  passes (check_values N pssm s vals).

(* ---------- identical results across pipelines, arms and sub-range calls ---------- *)

(* the observed result of one call: None = panic, Some (max_index, rows of 32-bit patterns) *)
Definition obs : Type := option (nat * list (list Z)).

Fixpoint row_eqb (a b : list Z) : bool :=
  match a, b with
  | [], [] => true
  | x :: a', y :: b' => Z.eqb x y && row_eqb a' b'
  | _, _ => false
  end.

Fixpoint rows_eqb (a b : list (list Z)) : bool :=
  match a, b with
  | [], [] => true
  | x :: a', y :: b' => row_eqb x y && rows_eqb a' b'
  | _, _ => false
  end.

Definition obs_eqb (a b : obs) : bool :=
  match a, b with
  | None, None => true
  | Some (m1, r1), Some (m2, r2) => Nat.eqb m1 m2 && rows_eqb r1 r2
  | _, _ => false
  end.

(* every other pipeline / arm returned what the generic pipeline returned *)
Definition check_same_results (g : obs) (others : list obs) : bool := forallb (obs_eqb g) others.

(* a call on rows a..b returned rows a..b of the full scan and the same max_index *)
Definition check_subrange (full sub : obs) (a b : nat) : bool :=
  match full, sub with
  | Some (m1, r1), Some (m2, r2) => Nat.eqb m1 m2 && rows_eqb r2 (firstn (b - a) (skipn a r1))
  | _, _ => false
  end.
