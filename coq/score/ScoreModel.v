(* Model of the scalar scoring path of lightmotif (property C01), executable
   definitions only:

     pli/mod.rs   Score::{score_rows_into (default body), score_into, score}
     scores.rs    StripedScores::{resize, empty, iter/unstripe, Index<usize>, max_index}
     seq.rs       StripedSequence::{Index<usize>} (used by score_position)
     pwm/mod.rs   ScoringMatrix::score_position

   Conventions
   - a striped sequence is (len, wrap, matrix) with the matrix a list of rows of
     C symbols (nat, the value of `Symbol::as_index`);
   - a scoring matrix is a list of M rows of K cells of an arbitrary carrier T
     with an arbitrary [add] and [zero] (f32: IEEE addition, +0.0);
   - every place where the Rust code can panic is a [Panic site]:
       1  seq.matrix()[seq_row + j]        row index out of range (generic kernel)
       2  ..[col]                          column index (unreachable: col < C)
       3  pssm_row[symbol.as_index()]      (unreachable: symbols are < K by type)
       9  matrix().rows() - wrap()         underflow (unreachable: wrap <= rows)
      10  index / rows                     division by zero (StripedSequence::index)
      11,12  data[row][col]                StripedSequence::index out of range
      13  row[symbol]                      score_position (unreachable)
      20  index / rows                     division by zero (StripedScores::index, iter)
      21,22  data[row][col]                StripedScores::index out of range
      40  result[res_row]                  (unreachable: buffer was resized)        *)
From Coq Require Import List Arith Bool Lia.
From LMBase Require Import Res ListX.
Import ListNotations.

Fixpoint mapM {A B} (f : A -> res B) (l : list A) : res (list B) :=
  match l with
  | [] => Ok []
  | x :: r => rbind (f x) (fun y => rbind (mapM f r) (fun ys => Ok (y :: ys)))
  end.

Fixpoint foldM {A B} (f : B -> A -> res B) (l : list A) (b : B) : res B :=
  match l with
  | [] => Ok b
  | x :: r => rbind (f b x) (fun b' => foldM f r b')
  end.

(* StripedSequence<A, C> *)
Record sseq := mkSeq { sq_len : nat; sq_wrap : nat; sq_mat : list (list nat) }.

(* StripedScores<T, C> *)
Record sscores (T : Type) := mkScores { sc_mat : list (list T); sc_max : nat }.
Arguments mkScores {T}. Arguments sc_mat {T}. Arguments sc_max {T}.

(* DenseMatrix::resize(rows): keep the first rows, append default rows *)
Definition m_resize {A} (dflt : list A) (m : list (list A)) (n : nat) : list (list A) :=
  firstn n m ++ repeat dflt (n - length m).

Section Score.
  Context {T : Type}.
  Variable add : T -> T -> T.     (* Accumulate::accumulate for floats: += *)
  Variable zero : T.              (* T::default() *)
  Variable C : nat.               (* C::USIZE, columns of the striped matrices *)

  (* ---------- StripedScores ---------- *)

  Definition sc_empty : sscores T := mkScores [] 0.

  Definition sc_resize (old : sscores T) (rows maxi : nat) : sscores T :=
    mkScores (m_resize (repeat zero C) (sc_mat old) rows) maxi.

  (* &self.data[index % rows][index / rows]  (Index<usize> and Iter::get) *)
  Definition sc_get (sc : sscores T) (i : nat) : res T :=
    let rows := length (sc_mat sc) in
    if rows =? 0 then Panic 20
    else match nth_error (sc_mat sc) (i mod rows) with
         | None => Panic 21
         | Some row => match nth_error row (i / rows) with
                       | None => Panic 22
                       | Some v => Ok v
                       end
         end.

  (* iter()/unstripe(): indices 0 .. min(max_index, rows * columns) *)
  Definition sc_unstripe (sc : sscores T) : res (list T) :=
    mapM (sc_get sc) (seq 0 (Nat.min (sc_max sc) (length (sc_mat sc) * C))).

  (* offset(MatrixCoordinates { row, col }) = col * rows + row *)
  Definition sc_offset (sc : sscores T) (row col : nat) : nat := col * length (sc_mat sc) + row.

  (* Iter::new: the index range 0 .. min(max_index, rows * columns) *)
  Definition sc_iter_end (sc : sscores T) : nat := Nat.min (sc_max sc) (length (sc_mat sc) * C).

  (* one iterator driven by a list of calls (false = next, true = next_back) from the index
     range lo..hi: each call yields Some value or None (exhausted, fused) *)
  Fixpoint sc_iter_run (sc : sscores T) (ops : list bool) (lo hi : nat) : res (list (option T)) :=
    match ops with
    | [] => Ok []
    | back :: r =>
        if lo <? hi then
          rbind (sc_get sc (if back then hi - 1 else lo)) (fun x =>
          rbind (sc_iter_run sc r (if back then lo else S lo) (if back then hi - 1 else hi)) (fun rest =>
          Ok (Some x :: rest)))
        else rbind (sc_iter_run sc r lo hi) (fun rest => Ok (None :: rest))
    end.

  Definition sc_iter_ops (sc : sscores T) (ops : list bool) : res (list (option T)) :=
    sc_iter_run sc ops 0 (sc_iter_end sc).

  (* ---------- StripedSequence ---------- *)

  (* s.matrix().rows() - s.wrap() *)
  Definition seq_rows (q : sseq) : res nat :=
    if length (sq_mat q) <? sq_wrap q then Panic 9 else Ok (length (sq_mat q) - sq_wrap q).

  (* Index<usize> for StripedSequence *)
  Definition sq_index (q : sseq) (i : nat) : res nat :=
    rbind (seq_rows q) (fun rows =>
    if rows =? 0 then Panic 10
    else match nth_error (sq_mat q) (i mod rows) with
         | None => Panic 11
         | Some row => match nth_error row (i / rows) with
                       | None => Panic 12
                       | Some s => Ok s
                       end
         end).

  (* ---------- generic kernel ---------- *)

  (* the j-loop of one cell: pr = remaining pssm rows, j = index of the first of them *)
  Fixpoint gen_cell (pr : list (list T)) (m : list (list nat)) (seq_row col j : nat) (acc : T) : res T :=
    match pr with
    | [] => Ok acc
    | prow :: rest =>
        match nth_error m (seq_row + j) with
        | None => Panic 1
        | Some srow =>
            match nth_error srow col with
            | None => Panic 2
            | Some sym =>
                match nth_error prow sym with
                | None => Panic 3
                | Some v => gen_cell rest m seq_row col (S j) (add acc v)
                end
            end
        end
    end.

  Definition gen_row (pssm : list (list T)) (m : list (list nat)) (seq_row : nat) : res (list T) :=
    mapM (fun col => gen_cell pssm m seq_row col 0 zero) (seq 0 C).

  (* for (res_row, seq_row) in rows.enumerate() { result[res_row] <- f seq_row result[res_row] } *)
  Fixpoint rows_update (f : nat -> list T -> res (list T)) (k : nat) (idx : list nat)
           (buf : list (list T)) : res (list (list T)) :=
    match idx with
    | [] => Ok buf
    | i :: rest =>
        match nth_error buf k with
        | None => Panic 40
        | Some old => rbind (f i old) (fun new => rows_update f (S k) rest (upd k new buf))
        end
    end.

  (* Score::score_rows_into, default body (Pipeline<A, Generic>) *)
  Definition generic_rows_into (pssm : list (list T)) (q : sseq) (a b : nat) (old : sscores T)
    : res (sscores T) :=
    if (sq_len q <? length pssm) || negb (a <? b) then Ok (sc_resize old 0 0)
    else
      let sc := sc_resize old (b - a) ((sq_len q + 1) - length pssm) in
      rbind (rows_update (fun i _ => gen_row pssm (sq_mat q) i) 0 (seq a (b - a)) (sc_mat sc))
            (fun m => Ok (mkScores m (sc_max sc))).

  (* Score::score_into / Score::score, for any implementation of score_rows_into *)
  Definition score_into (rows_into : sseq -> nat -> nat -> sscores T -> res (sscores T))
             (q : sseq) (old : sscores T) : res (sscores T) :=
    rbind (seq_rows q) (fun rows => rows_into q 0 rows old).

  Definition score_with (rows_into : sseq -> nat -> nat -> sscores T -> res (sscores T)) (q : sseq)
    : res (sscores T) := score_into rows_into q sc_empty.

  Definition generic_score (pssm : list (list T)) (q : sseq) : res (sscores T) :=
    score_with (generic_rows_into pssm) q.

  (* ScoringMatrix::score_position *)
  Fixpoint score_position_go (pr : list (list T)) (q : sseq) (pos j : nat) (acc : T) : res T :=
    match pr with
    | [] => Ok acc
    | prow :: rest =>
        rbind (sq_index q (pos + j)) (fun sym =>
        match nth_error prow sym with
        | None => Panic 13
        | Some v => score_position_go rest q pos (S j) (add acc v)
        end)
    end.

  Definition score_position (pssm : list (list T)) (q : sseq) (pos : nat) : res T :=
    score_position_go pssm q pos 0 zero.

  (* ---------- specification ---------- *)

  Variable N : nat.    (* the wildcard symbol, K - 1 *)

  (* terms pssm[j][f j], j = j0 .. *)
  Fixpoint terms_from (j : nat) (pr : list (list T)) (f : nat -> nat) : list T :=
    match pr with
    | [] => []
    | prow :: rest => nth (f j) prow zero :: terms_from (S j) rest f
    end.

  (* the defined score of position i: sum over j of pssm[j][s[i+j]], left to right from zero *)
  Definition score_terms (pssm : list (list T)) (s : list nat) (i : nat) : list T :=
    terms_from 0 pssm (fun j => nth (i + j) s N).

  Definition score_def (pssm : list (list T)) (s : list nat) (i : nat) : T :=
    fold_left add (score_terms pssm s i) zero.

  (* what a double-ended iterator over the values f lo .. f (hi - 1) yields for a list of calls *)
  Fixpoint iter_spec (f : nat -> T) (ops : list bool) (lo hi : nat) : list (option T) :=
    match ops with
    | [] => []
    | back :: r =>
        if lo <? hi then
          Some (f (if back then hi - 1 else lo))
          :: iter_spec f r (if back then lo else S lo) (if back then hi - 1 else hi)
        else None :: iter_spec f r lo hi
    end.

  (* rows of the striped matrix of a sequence of length L *)
  Definition seq_R (L : nat) : nat := (L + (C - 1)) / C.

  (* DESIGN section 3: the closed form of a striped sequence with look-ahead rows *)
  Definition Striped (s : list nat) (q : sseq) : Prop :=
    sq_len q = length s /\
    length (sq_mat q) = seq_R (length s) + sq_wrap q /\
    (forall r, r < length (sq_mat q) -> length (nth r (sq_mat q) []) = C) /\
    (forall r c, r < length (sq_mat q) -> c < C ->
       nth c (nth r (sq_mat q) []) N = nth (c * seq_R (length s) + r) s N).

  (* the striped matrix of s with w look-ahead rows, by the closed form (what
     Stripe::stripe followed by configure_wrap builds: property C04) *)
  Definition stripe_of (s : list nat) (w : nat) : sseq :=
    let R := seq_R (length s) in
    mkSeq (length s) w (map (fun r => map (fun c => nth (c * R + r) s N) (seq 0 C)) (seq 0 (R + w))).

  (* executable version of [Striped] (used by the driver on the matrix the library built) *)
  Definition striped_b (s : list nat) (q : sseq) : bool :=
    let R := seq_R (length s) in
    (sq_len q =? length s) && (length (sq_mat q) =? R + sq_wrap q) &&
    forallb (fun rr => (length (snd rr) =? C) &&
                       forallb (fun cc => snd cc =? nth (fst cc * R + fst rr) s N)
                               (combine (seq 0 C) (snd rr)))
            (combine (seq 0 (length (sq_mat q))) (sq_mat q)).

End Score.
