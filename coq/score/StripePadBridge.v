(* Bridge to the padded-state model of property C04 (coq/stripe PadModel / PadProofs / PadHistory):
   [LMStripe.PadProofs.StripedPad] (the state reached by any history mixing StripedSequence::sample,
   ::new, Stripe::stripe / stripe_into, configure, configure_wrap) is the hypothesis [Padded] of the
   scoring theorems for padded states. *)
From Coq Require Import List Arith Bool Lia.
From LMBase Require Import Res ListX.
From LMStripe Require StripeModel StripeSpec PadModel PadProofs.
From LMScore Require Import ScoreModel ScorePadModel ScoreProofs ScorePad StripeBridge.
Import ListNotations.

Lemma padded_bridge K C s st :
  LMStripe.PadProofs.StripedPad K C s st -> Padded C (K - 1) s (of_stripe st).
Proof.
  intros [Hlen [pad [Hst Hfill]]]. split; [exact Hlen|]. exists pad.
  apply striped_bridge in Hst.
  unfold of_stripe, LMStripe.PadModel.set_len in Hst. cbn in Hst.
  unfold full_len, pad_R, of_stripe. cbn [sq_len sq_wrap sq_mat].
  split; [rewrite <- Hfill; exact Hst|exact Hfill].
Qed.
