(* The round trip in binary32/binary64 itself: whenever the computable predicate
   [f64_roundtrip_pred d] holds (scale(unscale(i)) = i on every index of the table, table
   non-increasing in [0,1] and flat below min_score), converting a p-value in (0,1) to a score
   and back never yields a larger p-value -- for the bit-exact model, f32 unscale included.
   The known finding C11-unscale-inexact is exactly "the predicate is false". *)
From Coq Require Import Reals ZArith List Bool Lia Lra.
From Flocq Require Import Core BinarySingleNaN.
From LMBase Require Import Res ListX IEEE.
From LMDist Require Import DistModel DistInst DistProofs DistCheckProofs DistIEEE.
Import ListNotations.
Local Open Scope R_scope.

Notation is_finite := (@BinarySingleNaN.is_finite 53 1024).
Notation B2R := (@BinarySingleNaN.B2R 53 1024).

Notation fz := (n_zero F64Ops).

Lemma cmp_R : forall a b : F64.t, is_finite a = true -> is_finite b = true ->
  n_cmp F64Ops a b = Some (Rcompare (B2R a) (B2R b)).
Proof. intros a b Ha Hb. cbn [n_cmp F64Ops]. unfold F64.cmp, fcmp. apply Bcompare_correct; assumption. Qed.

Lemma in01_fin : forall x : F64.t, in01 F64Ops f64_leP x ->
  is_finite x = true /\ 0 <= B2R x <= 1.
Proof.
  intros x [H0 H1]. unfold f64_leP, le_n in *.
  assert (is_finite x = true) as Hf.
  { destruct x as [s|[|]| |s m e pf]; try reflexivity; exfalso.
    - vm_compute in H0. discriminate.
    - vm_compute in H1. discriminate.
    - vm_compute in H0. discriminate. }
  split; [exact Hf|]. destruct f64_one_R as [F1 E1].
  rewrite (cmp_R fz x eq_refl Hf) in H0. rewrite (cmp_R x (n_one F64Ops) Hf F1) in H1.
  change (B2R fz) with 0 in H0. change (n_one F64Ops) with f64_one in H1. rewrite E1 in H1.
  destruct (Rcompare_spec 0 (B2R x)); try discriminate;
  destruct (Rcompare_spec (B2R x) 1); try discriminate; lra.
Qed.

Lemma open01_fin : forall p : F64.t, in_open01 F64Ops p = true ->
  is_finite p = true /\ 0 < B2R p < 1.
Proof.
  intros p H. unfold in_open01 in H.
  destruct (n_cmp F64Ops (n_zero F64Ops) p) as [[| |]|] eqn:E0; try discriminate.
  destruct (n_cmp F64Ops p (n_one F64Ops)) as [[| |]|] eqn:E1; try discriminate.
  assert (is_finite p = true) as Hf.
  { destruct p as [s|[|]| |s m e pf]; try reflexivity; exfalso.
    - vm_compute in E1. discriminate.
    - vm_compute in E0. discriminate.
    - vm_compute in E0. discriminate. }
  split; [exact Hf|]. destruct f64_one_R as [F1 R1].
  rewrite (cmp_R fz p eq_refl Hf) in E0. rewrite (cmp_R p (n_one F64Ops) Hf F1) in E1.
  change (B2R fz) with 0 in E0. change (n_one F64Ops) with f64_one in E1. rewrite R1 in E1.
  destruct (Rcompare_spec 0 (B2R p)); try discriminate.
  destruct (Rcompare_spec (B2R p) 1); try discriminate. lra.
Qed.

(* ---------- the table as reals ---------- *)

Section Table.
  Variable sf : list F64.t.
  Hypothesis Hn : noninc f64_leP sf.
  Hypothesis Hf : Forall (in01 F64Ops f64_leP) sf.

  Lemma sf_fin : forall i, (i < length sf)%nat -> is_finite (nth i sf fz) = true /\ 0 <= B2R (nth i sf fz) <= 1.
  Proof. intros i Hi. apply in01_fin. rewrite Forall_forall in Hf. apply Hf, nth_In, Hi. Qed.

  Lemma sf_adj : forall l : list F64.t, noninc f64_leP l -> Forall (in01 F64Ops f64_leP) l ->
    forall j, (S j < length l)%nat -> B2R (nth (S j) l fz) <= B2R (nth j l fz).
  Proof.
    induction l as [|x l IH]; intros Hnl Hfl j Hj; [cbn in Hj; lia|].
    destruct l as [|y l]; [cbn in Hj; lia|]. destruct Hnl as [Hyx Hnl]. inversion Hfl as [|? ? Hx Hfl']; subst.
    destruct j.
    - cbn [nth]. inversion Hfl' as [|? ? Hy _]; subst.
      destruct (in01_fin x Hx) as [Fx _]. destruct (in01_fin y Hy) as [Fy _].
      unfold f64_leP, le_n in Hyx. rewrite (cmp_R y x Fy Fx) in Hyx.
      destruct (Rcompare_spec (B2R y) (B2R x)); try discriminate; lra.
    - change (nth (S (S j)) (x :: y :: l) fz) with (nth (S j) (y :: l) fz).
      change (nth (S j) (x :: y :: l) fz) with (nth j (y :: l) fz).
      apply IH; auto. cbn [length] in *. lia.
  Qed.

  Lemma sf_mono : forall i j, (i <= j < length sf)%nat -> B2R (nth j sf fz) <= B2R (nth i sf fz).
  Proof.
    intros i j [Hij Hj]. induction Hij as [|j Hij IH]; [lra|].
    eapply Rle_trans; [apply (sf_adj sf Hn Hf j Hj)|]. apply IH. lia.
  Qed.

  (* ---------- binary search ---------- *)
  Variable p : F64.t.
  Hypothesis Hp : is_finite p = true.

  Definition bsF_inv (base size : nat) : Prop :=
    forall i, (base + size <= i < length sf)%nat -> B2R (nth i sf fz) < B2R p.

  Lemma bs_loop_spec_F : forall fuel base size b,
    bsF_inv base size -> bs_loop F64Ops sf p fuel base size = Ok b ->
    forall i, (b + 1 <= i < length sf)%nat -> B2R (nth i sf fz) < B2R p.
  Proof.
    induction fuel as [|f IH]; intros base size b Hinv H.
    - cbn [bs_loop] in H. destruct (size <=? 1)%nat eqn:E; [|discriminate]. inversion H; subst.
      apply Nat.leb_le in E. intros i Hi. apply Hinv. lia.
    - cbn [bs_loop] in H. destruct (size <=? 1)%nat eqn:E.
      + inversion H; subst. apply Nat.leb_le in E. intros i Hi. apply Hinv. lia.
      + apply Nat.leb_gt in E.
        destruct (nth_error sf (base + size / 2)) as [x|] eqn:En; [|discriminate].
        assert (nth (base + size / 2) sf fz = x) as Ex by (apply nth_error_nth; exact En).
        assert (base + size / 2 < length sf)%nat as Hlt by (apply nth_error_Some; congruence).
        assert (1 <= size / 2)%nat as Hhalf by (apply Nat.div_le_lower_bound; lia).
        assert (size / 2 <= size - size / 2)%nat as Hh2.
        { pose proof (Nat.div_mod size 2 ltac:(lia)). lia. }
        destruct (sf_fin _ Hlt) as [Fx _]. rewrite Ex in Fx.
        rewrite (cmp_R p x Hp Fx) in H.
        destruct (Rcompare_spec (B2R p) (B2R x)) as [Hc|Hc|Hc]; refine (IH _ _ _ _ H).
        * intros i Hi. apply Hinv. lia.
        * intros i Hi. apply Hinv. lia.
        * intros i Hi. eapply Rle_lt_trans; [apply (sf_mono (base + size / 2)%nat i); lia|]. rewrite Ex. exact Hc.
  Qed.

  Lemma bsearch_spec_F : forall x, bsearch F64Ops sf p = Ok x ->
    (x <= length sf)%nat /\ ((x < length sf)%nat -> B2R (nth x sf fz) <= B2R p).
  Proof.
    intros x H. unfold bsearch in H. destruct sf as [|y l] eqn:Esf.
    - inversion H; subst. cbn. split; [lia|]. intros C. lia.
    - rewrite <- Esf in *. apply rbind_ok in H. destruct H as (b & Hb & H).
      assert (bsF_inv 0 (length sf)) as H0 by (intros i Hi; lia).
      pose proof (bs_loop_spec_F _ _ _ _ H0 Hb) as Hsp.
      destruct (nth_error sf b) as [v|] eqn:En; [|discriminate].
      assert (nth b sf fz = v) as Ev by (apply nth_error_nth; exact En).
      assert (b < length sf)%nat as Hlt by (apply nth_error_Some; congruence).
      destruct (sf_fin _ Hlt) as [Fv _]. rewrite Ev in Fv.
      rewrite (cmp_R p v Hp Fv) in H.
      destruct (Rcompare_spec (B2R p) (B2R v)) as [Hc|Hc|Hc]; inversion H; subst x.
      + split; [lia|]. intros Hl. apply Rlt_le. apply Hsp. lia.
      + split; [lia|]. intros _. rewrite Ev. lra.
      + split; [lia|]. intros _. rewrite Ev. lra.
  Qed.
End Table.

(* ---------- the predicate ---------- *)

Lemma exact_on_index : forall d i, (i <= length (d_sf d))%nat ->
  f64_unscale_exact_on (d_scale_f d) (d_offset d) (d_rows d) (length (d_sf d)) = true ->
  exists s, d_unscale F64Ops d (Z.of_nat i) = Ok s /\ d_scale F64Ops d s = Ok (Z.of_nat i).
Proof.
  intros d i Hi H. unfold f64_unscale_exact_on in H. rewrite forallb_forall in H.
  specialize (H i ltac:(apply in_seq; lia)). unfold f64_index_exact in H.
  unfold d_unscale, d_scale, d_wo in *. cbn [d_scale_f d_offset d_rows] in H.
  eexists. split; [reflexivity|]. cbn [rbind] in H. apply Z.eqb_eq in H. rewrite H. reflexivity.
Qed.

Theorem roundtrip_F64 : forall (d : dist F64.t) p s q,
  f64_roundtrip_pred d = true -> in_open01 F64Ops p = true ->
  d_score F64Ops d p = Ok s -> d_pvalue F64Ops d s = Ok q ->
  le_n F64Ops q p = true.
Proof.
  intros d p s q Hpred Hp Hs Hq.
  unfold f64_roundtrip_pred in Hpred.
  apply andb_true_iff in Hpred. destruct Hpred as [Hpred Hex].
  apply andb_true_iff in Hpred. destruct Hpred as [Hpred Hflat].
  apply andb_true_iff in Hpred. destruct Hpred as [Htab Hmin]. apply Z.leb_le in Hmin.
  assert (f64_chk_table (d_sf d) = 0%nat) as Htab0 by (destruct (f64_chk_table (d_sf d)); [reflexivity|discriminate]).
  destruct (chk_table_sound F64Ops (d_sf d) Htab0) as [Hn Hf].
  change (noninc f64_leP (d_sf d)) in Hn. change (Forall (in01 F64Ops f64_leP) (d_sf d)) in Hf.
  destruct (open01_fin p Hp) as [Fp [Hp0 Hp1]].
  (* score(p) = unscale(x) *)
  unfold d_score in Hs.
  assert (ge_n F64Ops p (n_one F64Ops) = false) as Eg.
  { unfold ge_n. destruct f64_one_R as [F1 R1]. change (n_one F64Ops) with f64_one. rewrite (cmp_R p _ Fp F1). rewrite R1.
    destruct (Rcompare_spec (B2R p) 1); try reflexivity; lra. }
  assert (le_n F64Ops p (n_zero F64Ops) = false) as El.
  { unfold le_n. rewrite (cmp_R p fz Fp eq_refl). change (B2R fz) with 0.
    destruct (Rcompare_spec (B2R p) 0); try reflexivity; lra. }
  rewrite Eg, El in Hs. apply rbind_ok in Hs. destruct Hs as (x & Hx & Hs).
  destruct (bsearch_spec_F (d_sf d) Hn Hf p Fp x Hx) as [Hxl Hxp].
  destruct (exact_on_index d x Hxl Hex) as (s' & Hu & Hsc).
  rewrite Hu in Hs. inversion Hs; subst s'. clear Hs.
  (* pvalue of that score *)
  unfold d_pvalue in Hq. rewrite Hsc in Hq. cbn [rbind] in Hq.
  assert (forall v : F64.t, is_finite v = true -> B2R v <= B2R p -> le_n F64Ops v p = true) as Hle.
  { intros v Fv Hv. unfold le_n. rewrite (cmp_R v p Fv Fp).
    destruct (Rcompare_spec (B2R v) (B2R p)); try reflexivity; lra. }
  assert (is_finite (nth x (d_sf d) fz) = true /\ B2R (nth x (d_sf d) fz) <= B2R p) as [Fv Hv].
  { destruct (Nat.lt_ge_cases x (length (d_sf d))) as [H|H].
    - split; [apply (sf_fin (d_sf d) Hf x H)|apply Hxp, H].
    - rewrite nth_overflow by lia. split; [reflexivity|]. change (B2R fz) with 0. lra. }
  destruct (Z.of_nat x <? d_min d)%Z eqn:E1.
  - (* below min_score: sf[0], which the flat part of the predicate makes equal to sf[x] *)
    apply Z.ltb_lt in E1. destruct (d_sf d) as [|y l] eqn:Esf; [discriminate|]. rewrite <- Esf in *.
    inversion Hq; subst q. clear Hq.
    assert (y = nth 0 (d_sf d) fz) as Ey by (rewrite Esf; reflexivity).
    assert (0 < length (d_sf d))%nat as Hl0 by (rewrite Esf; cbn; lia).
    destruct (sf_fin (d_sf d) Hf 0%nat Hl0) as [F0 _].
    unfold f64_flat_below_min in Hflat. rewrite forallb_forall in Hflat.
    specialize (Hflat x ltac:(apply in_seq; lia)).
    unfold F64.eq, feq in Hflat.
    change (fcmp 53 1024 (nth x (d_sf d) F64.zero) (nth 0 (d_sf d) F64.zero))
      with (n_cmp F64Ops (nth x (d_sf d) fz) (nth 0 (d_sf d) fz)) in Hflat.
    rewrite (cmp_R _ _ Fv F0) in Hflat.
    destruct (Rcompare_spec (B2R (nth x (d_sf d) fz)) (B2R (nth 0 (d_sf d) fz))) as [Hc|Hc|Hc]; try discriminate.
    rewrite Ey. apply Hle; [exact F0|]. rewrite <- Hc. exact Hv.
  - apply Z.ltb_ge in E1.
    assert (as_usize (Z.of_nat x) = Z.of_nat x) as Eu.
    { unfold as_usize. destruct (Z.of_nat x <? 0)%Z eqn:E; [apply Z.ltb_lt in E; lia|reflexivity]. }
    rewrite Eu in Hq. destruct (Z.of_nat (length (d_sf d)) <=? Z.of_nat x)%Z eqn:E2.
    + inversion Hq; subst q. apply Hle; [reflexivity|]. apply Rlt_le. exact Hp0.
    + inversion Hq; subst q. rewrite Nat2Z.id. apply Hle; assumption.
Qed.
