(* The zip formulation of the inner k-loop of the pdf convolution (DistModel.add_symbol)
   is the straightforward rendering of the Rust loop
       for k in 0..=max { let old = pdf_old[k]; if old != 0.0 { pdf_new[k + s] += old * b } }
   with functional updates (DistModel.naive_k), for EVERY numeric carrier: in particular the
   binary64 additions happen in the same order with the same operands. *)
From Coq Require Import List ZArith Bool Arith Lia.
From LMBase Require Import Res ListX.
From LMDist Require Import DistModel.
Import ListNotations.

Section Naive.
  Context {T : Type} (N : NumOps T).
  Notation zero := (n_zero N).

  Definition cterm (old : list T) (b : T) (k : nat) : option T :=
    if nonzero N (nth k old zero) then Some (n_mul N (nth k old zero) b) else None.
  Definition cfrom (old : list T) (b : T) (ks : list nat) : list (option T) := map (cterm old b) ks.

  Lemma map_firstn_seq : forall (B : Type) (f : T -> B) (l : list T) n, (n <= length l)%nat ->
    map f (firstn n l) = map (fun k => f (nth k l zero)) (seq 0 n).
  Proof.
    intros B f l. induction l as [|x l IH]; intros n H.
    - cbn in H. assert (n = 0)%nat by lia. subst. reflexivity.
    - destruct n as [|n]; [reflexivity|]. cbn [firstn map seq nth length] in *.
      f_equal. rewrite <- seq_shift, map_map. apply IH. lia.
  Qed.

  Lemma contrib_cfrom : forall old maxk b, (S maxk <= length old)%nat ->
    contrib N old maxk b = cfrom old b (seq 0 (S maxk)).
  Proof.
    intros old maxk b H. unfold contrib, cfrom, cterm.
    apply (map_firstn_seq _ (fun o => if nonzero N o then Some (n_mul N o b) else None)). exact H.
  Qed.

  Lemma zip_add_nil : forall c : list (option T), zip_add N c [] = if any_some c then Panic 3 else Ok [].
  Proof. intros [|o c]; reflexivity. Qed.

  Lemma skipn_upd_after : forall n v (l : list T), skipn (S n) (upd n v l) = skipn (S n) l.
  Proof.
    induction n as [|n IH]; intros v [|x l]; try reflexivity.
    cbn [upd]. change (skipn (S (S n)) (x :: upd n v l)) with (skipn (S n) (upd n v l)).
    change (skipn (S (S n)) (x :: l)) with (skipn (S n) l). apply IH.
  Qed.

  Lemma firstn_upd_at : forall n v (l : list T), (n < length l)%nat ->
    firstn (S n) (upd n v l) = firstn n l ++ [v].
  Proof.
    induction n as [|n IH]; intros v [|x l] H; cbn [length] in H; try lia.
    - reflexivity.
    - cbn [upd]. change (firstn (S (S n)) (x :: upd n v l)) with (x :: firstn (S n) (upd n v l)).
      rewrite IH by lia. reflexivity.
  Qed.

  Lemma skipn_cons_nth : forall n (l : list T), (n < length l)%nat ->
    skipn n l = nth n l zero :: skipn (S n) l.
  Proof.
    induction n as [|n IH]; intros [|x l] H; cbn [length] in H; try lia; [reflexivity|].
    change (skipn (S n) (x :: l)) with (skipn n l). rewrite (IH l) by lia. reflexivity.
  Qed.

  Lemma firstn_S_nth : forall n (l : list T), (n < length l)%nat ->
    firstn (S n) l = firstn n l ++ [nth n l zero].
  Proof.
    induction n as [|n IH]; intros [|x l] H; cbn [length] in H; try lia; [reflexivity|].
    change (firstn (S (S n)) (x :: l)) with (x :: firstn (S n) l). rewrite (IH l) by lia. reflexivity.
  Qed.

  Lemma naive_zip : forall n j sn b old new,
    naive_k N old sn b (seq j n) new =
    (r <- zip_add N (cfrom old b (seq j n)) (skipn (j + sn) new) ;; Ok (firstn (j + sn) new ++ r)).
  Proof.
    induction n as [|n IH]; intros j sn b old new.
    - cbn [seq naive_k cfrom map zip_add rbind]. rewrite firstn_skipn. reflexivity.
    - cbn [seq naive_k cfrom map]. fold (cfrom old b (seq (S j) n)). unfold cterm at 1.
      destruct (nonzero N (nth j old zero)) eqn:Enz.
      + destruct (j + sn <? length new)%nat eqn:Elt.
        * apply Nat.ltb_lt in Elt. rewrite IH.
          replace (S j + sn)%nat with (S (j + sn)) by lia.
          rewrite skipn_upd_after, (firstn_upd_at _ _ _ Elt).
          rewrite (skipn_cons_nth (j + sn) new Elt). cbn [zip_add].
          destruct (zip_add N (cfrom old b (seq (S j) n)) (skipn (S (j + sn)) new)) as [r| | |]; cbn [rbind]; try reflexivity.
          rewrite <- app_assoc. reflexivity.
        * apply Nat.ltb_ge in Elt. rewrite (skipn_all2 new) by lia. reflexivity.
      + rewrite IH. replace (S j + sn)%nat with (S (j + sn)) by lia.
        destruct (Nat.lt_ge_cases (j + sn) (length new)) as [Hlt|Hge].
        * rewrite (skipn_cons_nth (j + sn) new Hlt). cbn [zip_add].
          destruct (zip_add N (cfrom old b (seq (S j) n)) (skipn (S (j + sn)) new)) as [r| | |]; cbn [rbind]; try reflexivity.
          rewrite (firstn_S_nth _ _ Hlt), <- app_assoc. reflexivity.
        * rewrite (skipn_all2 new) by lia. rewrite (skipn_all2 new (n := j + sn)) by lia.
          rewrite !zip_add_nil. cbn [any_some existsb orb].
          fold (any_some (cfrom old b (seq (S j) n))).
          destruct (any_some (cfrom old b (seq (S j) n))); cbn [rbind]; [reflexivity|].
          rewrite !firstn_all2 by lia. reflexivity.
  Qed.

  (* the model's add_symbol is the Rust loop, whenever the loop's reads are in bounds
     (S maxk <= length old: always the case, the buffers have M*1000+1 cells) and the cell is
     a non-negative index (a negative cell wraps to a huge usize and is handled apart) *)
  Theorem add_symbol_naive_eq : forall old maxk s b new,
    (S maxk <= length old)%nat -> (0 <= s)%Z -> s <> i32_min ->
    add_symbol N old maxk s b new = naive_k N old (Z.to_nat s) b (seq 0 (S maxk)) new.
  Proof.
    intros old maxk s b new Hold Hs Hmin. unfold add_symbol.
    replace (s =? i32_min)%Z with false by (symmetry; apply Z.eqb_neq; exact Hmin).
    replace (s <? 0)%Z with false by (symmetry; apply Z.ltb_ge; lia). cbn [orb].
    rewrite naive_zip, <- (contrib_cfrom old maxk b Hold). cbn [Nat.add].
    destruct (Z.of_nat (length new) <=? s)%Z eqn:E.
    - apply Z.leb_le in E. rewrite (skipn_all2 new) by lia. rewrite zip_add_nil.
      destruct (any_some (contrib N old maxk b)); cbn [rbind]; [reflexivity|].
      rewrite firstn_all2 by lia. rewrite app_nil_r. reflexivity.
    - reflexivity.
  Qed.
End Naive.
