(* p-values of a BUILT distribution are non-increasing in the score in binary64 itself: the table part
   of DistMonoIEEE.f64_mono_pred (non-increasing in [0,1], non-empty, min_score >= 0) is derived here
   from the construction (DistPdfIEEE.table_F64_built + the survival loop), so that only the scale part
   (w*offset finite, scale finite and positive: [f64_scale_pred]) is left as a computable predicate.
   Also: the construction on a matrix without any non-infinite cell (no row at all, or only -inf cells)
   is the panic `min_by(..).unwrap()` (dist.rs:139), for every numeric carrier. *)
From Coq Require Import Reals ZArith List Bool Lia Lra.
From Flocq Require Import Core BinarySingleNaN.
From LMBase Require Import Res ListX IEEE.
From LMDist Require Import DistModel DistInst DistGridModel DistStrictModel DistProofs DistCheckProofs DistIEEE DistMonoIEEE DistPdfIEEE.
Import ListNotations.

Section Gen.
  Context {T : Type} (N : NumOps T).
  Local Open Scope Z_scope.

  Lemma sf_loop_min_nonneg : forall revrest i next acc mn mx sf mn' mx',
    i = Z.of_nat (length revrest) - 1 -> 0 <= mn ->
    sf_loop N i revrest next acc mn mx = (sf, mn', mx') -> 0 <= mn' /\ (acc <> [] -> sf <> []).
  Proof.
    induction revrest as [|p r IH]; intros i next acc mn mx sf mn' mx' Hi Hmn H.
    - cbn in H. inversion H; subst. split; [assumption|]. intros Hne. exact Hne.
    - cbn [sf_loop] in H. cbn [length] in Hi. rewrite Nat2Z.inj_succ in Hi.
      apply IH in H.
      + destruct H as [H0 H1]. split; [exact H0|]. intros _. apply H1. discriminate.
      + lia.
      + destruct (gt0 N p); lia.
  Qed.

  Lemma survival_min_nonempty : forall pdf sf mn mx,
    survival N pdf = Ok (sf, mn, mx) -> 0 <= mn /\ sf <> [].
  Proof.
    intros pdf sf mn mx H. unfold survival in H.
    destruct (rev pdf) as [|lst revrest] eqn:E; [discriminate|].
    destruct revrest as [|y r]; [discriminate|].
    inversion H as [Hrun]. clear H.
    assert (Z.of_nat (length pdf) - 2 = Z.of_nat (length (y :: r)) - 1) as Hi.
    { rewrite <- (rev_length pdf), E. cbn [length]. lia. }
    destruct (sf_loop_min_nonneg (y :: r) _ _ _ 0 0 sf mn mx Hi (Z.le_refl 0) Hrun) as [H0 H1].
    split; [exact H0|]. apply H1. discriminate.
  Qed.

  (* no non-infinite cell (M = 0, or every cell infinite): `min_by(..).unwrap()` panics -- site 1 *)
  Theorem build_no_finite_cell : forall m bg,
    forallb (fun row : list (cell T) => (length row =? length bg)%nat) m = true ->
    finite_cells N m = [] -> build N m bg = Panic 1.
  Proof.
    intros m bg Hl Hc. unfold build. rewrite Hl. cbn [negb]. unfold stage_a, small_of. rewrite Hc. reflexivity.
  Qed.

  Corollary build_empty : forall bg, build N [] bg = Panic 1.
  Proof. intros bg. apply build_no_finite_cell; reflexivity. Qed.

End Gen.

Local Open Scope R_scope.

Theorem pvalue_monotone_F64_built : forall m bg (d : dist F64.t) s1 s2 p1 p2,
  f64_bg_ok bg = true -> f64_dims_ok (length bg) (length m) = true ->
  f64_build m bg = Ok d -> f64_scale_pred d = true ->
  F64.le s1 s2 = true ->
  d_pvalue F64Ops d s1 = Ok p1 -> d_pvalue F64Ops d s2 = Ok p2 ->
  le_n F64Ops p2 p1 = true.
Proof.
  intros m bg d s1 s2 p1 p2 Hbg Hdim Hb Hp Hle H1 H2.
  destruct (table_F64_built m bg d Hbg Hdim Hb) as (Hn & Hf & _).
  destruct (build_inv_generic _ F64Ops m bg d Hb) as (pdf & _ & Hs).
  destruct (survival_min_nonempty F64Ops pdf _ _ _ Hs) as [Hmin Hne].
  unfold f64_scale_pred in Hp.
  apply andb_true_iff in Hp. destruct Hp as [Hp Hlt]. apply andb_true_iff in Hp. destruct Hp as [Fw Fs].
  pose proof (f64_lt_zero_R _ Fs Hlt) as Hpos.
  rewrite (d_pvalue_idx F64Ops) in H1, H2 by exact Hne.
  apply rbind_ok in H1. destruct H1 as (r1 & Hr1 & E1). inversion E1; subst p1.
  apply rbind_ok in H2. destruct H2 as (r2 & Hr2 & E2). inversion E2; subst p2.
  pose proof (scale_mono_F64 d s1 s2 r1 r2 Fw Fs Hpos Hle Hr1 Hr2) as Hr.
  apply (pv_idx_mono F64Ops f64_leP f64_leP_trans); auto.
  - intros x Hx. apply leF_leP. apply leF_leP in Hx. apply leF_refl. exact (proj2 (leF_nn _ _ Hx)).
  - reflexivity.
Qed.

(* ... and the whole predicate of DistMonoIEEE.pvalue_monotone_F64 follows from the scale part *)
Lemma chk_table_complete : forall sf,
  noninc f64_leP sf -> Forall (in01 F64Ops f64_leP) sf -> f64_chk_table sf = 0%nat.
Proof.
  induction sf as [|x r IH]; intros Hn Hf; [reflexivity|].
  inversion Hf as [|? ? [H0 H1] Hf']; subst.
  unfold f64_chk_table. cbn [chk_table]. unfold leb_n. unfold f64_leP in H0, H1. rewrite H0, H1. cbn [andb negb].
  destruct r as [|y r']; [reflexivity|]. destruct Hn as [Hyx Hn]. unfold f64_leP in Hyx. rewrite Hyx.
  apply IH; assumption.
Qed.

Theorem mono_pred_built : forall m bg d,
  f64_bg_ok bg = true -> f64_dims_ok (length bg) (length m) = true ->
  f64_build m bg = Ok d -> f64_mono_pred d = f64_scale_pred d.
Proof.
  intros m bg d Hbg Hdim Hb.
  destruct (table_F64_built m bg d Hbg Hdim Hb) as (Hn & Hf & _).
  destruct (build_inv_generic _ F64Ops m bg d Hb) as (pdf & _ & Hs).
  destruct (survival_min_nonempty F64Ops pdf _ _ _ Hs) as [Hmin Hne].
  unfold f64_mono_pred, f64_scale_pred. rewrite (chk_table_complete _ Hn Hf).
  apply Z.leb_le in Hmin. rewrite Hmin.
  destruct (d_sf d); [contradiction|]. cbn [andb]. reflexivity.
Qed.
