(* The table has M*1000 + 1 entries for EVERY numeric carrier (the bit-exact binary64 model included):
   the two buffers of the convolution keep their length through zip_add / add_symbol / row_step, and
   the survival loop returns as many entries as the pdf has. *)
From Coq Require Import List ZArith Bool Arith Lia.
From LMBase Require Import Res ListX.
From LMDist Require Import DistModel.
Import ListNotations.

Section LenGen.
  Context {T : Type} (N : NumOps T).

  Lemma zip_add_length : forall c new r, zip_add N c new = Ok r -> length r = length new.
  Proof.
    induction c as [|o c IH]; intros new r H.
    - cbn in H. inversion H; reflexivity.
    - cbn [zip_add] in H. destruct new as [|x n'].
      + destruct (any_some (o :: c)); [discriminate|]. inversion H; reflexivity.
      + apply rbind_ok in H. destruct H as (r' & Hr' & E). inversion E; subst r. cbn [length]. f_equal. eapply IH; eassumption.
  Qed.

  Lemma add_symbol_length : forall old maxk s b new r,
    add_symbol N old maxk s b new = Ok r -> length r = length new.
  Proof.
    intros old maxk s b new r H. unfold add_symbol in H.
    destruct (s =? i32_min)%Z; [inversion H; reflexivity|].
    destruct ((s <? 0)%Z || (Z.of_nat (length new) <=? s)%Z).
    - destruct (any_some _); [discriminate|]. inversion H; reflexivity.
    - apply rbind_ok in H. destruct H as (r' & Hr' & E). inversion E; subst r. clear E.
      apply zip_add_length in Hr'. rewrite app_length, Hr', <- app_length, firstn_skipn. reflexivity.
  Qed.

  Lemma add_symbols_length : forall old maxk rowbg new r,
    add_symbols N old maxk rowbg new = Ok r -> length r = length new.
  Proof.
    intros old maxk rowbg. induction rowbg as [|[s b] rb IH]; intros new r H.
    - cbn in H. inversion H; reflexivity.
    - cbn [add_symbols] in H. apply rbind_ok in H. destruct H as (new' & Hs & H).
      apply IH in H. apply add_symbol_length in Hs. congruence.
  Qed.

  Lemma row_step_length : forall bg i row st st' n,
    length (fst st) = n -> length (snd st) = n ->
    row_step N bg i row st = Ok st' -> length (fst st') = n /\ length (snd st') = n.
  Proof.
    intros bg i row [pold pnew] st' n Ho Hn H. cbn [fst snd] in *. unfold row_step in H.
    destruct (length pold <? i * cdf_range + cdf_range + 1)%nat eqn:E; [discriminate|].
    apply Nat.ltb_ge in E.
    apply rbind_ok in H. destruct H as (new' & Hs & H). inversion H; subst st'. cbn [fst snd].
    split; [exact Hn|]. apply add_symbols_length in Hs. rewrite Hs.
    rewrite app_length, repeat_length, skipn_length. lia.
  Qed.

  Lemma pdf_rows_length : forall bg rows i st st' n,
    length (fst st) = n -> length (snd st) = n ->
    pdf_rows N bg i rows st = Ok st' -> length (snd st') = n.
  Proof.
    intros bg rows. induction rows as [|row rows IH]; intros i st st' n Ho Hn H.
    - cbn in H. inversion H; subst. exact Hn.
    - cbn [pdf_rows] in H. apply rbind_ok in H. destruct H as (st1 & H1 & H).
      destruct (row_step_length bg i row st st1 n Ho Hn H1) as [Ho1 Hn1].
      eapply IH; eassumption.
  Qed.

  Theorem pdf_of_length : forall bg data pdf,
    pdf_of N bg data = Ok pdf -> length pdf = (length data * cdf_range + 1)%nat.
  Proof.
    intros bg data pdf H. unfold pdf_of in H. apply rbind_ok in H. destruct H as (st & Hst & H).
    inversion H; subst pdf. eapply pdf_rows_length; [| |exact Hst]; cbn [fst snd length].
    - apply repeat_length.
    - rewrite repeat_length. lia.
  Qed.

  Lemma sf_loop_length : forall revrest i next acc mn mx sf mn' mx',
    sf_loop N i revrest next acc mn mx = (sf, mn', mx') -> length sf = (length revrest + length acc)%nat.
  Proof.
    induction revrest as [|p r IH]; intros i next acc mn mx sf mn' mx' H.
    - cbn in H. inversion H; reflexivity.
    - cbn [sf_loop] in H. apply IH in H. cbn [length] in *. lia.
  Qed.

  Theorem survival_length : forall pdf sf mn mx,
    survival N pdf = Ok (sf, mn, mx) -> length sf = length pdf.
  Proof.
    intros pdf sf mn mx H. unfold survival in H.
    destruct (rev pdf) as [|lst revrest] eqn:E; [discriminate|].
    destruct revrest as [|y r]; [discriminate|].
    inversion H as [Hrun]. apply sf_loop_length in Hrun. rewrite Hrun.
    rewrite <- (rev_length pdf), E. cbn [length]. lia.
  Qed.

  Theorem build_table_length : forall m bg d,
    build N m bg = Ok d -> length (d_sf d) = (length m * cdf_range + 1)%nat.
  Proof.
    intros m bg d H. unfold build in H.
    destruct (negb (forallb (fun row : list (cell T) => (length row =? length bg)%nat) m)); [discriminate|].
    apply rbind_ok in H. destruct H as ([offset scale] & Ha & H).
    apply rbind_ok in H. destruct H as (pdf & Hp & H).
    apply rbind_ok in H. destruct H as ([[sf mn] mx] & Hs & H). inversion H; subst d; clear H. cbn [d_sf].
    rewrite (survival_length pdf sf mn mx Hs), (pdf_of_length bg _ pdf Hp), map_length. reflexivity.
  Qed.
End LenGen.
