(* The survival table is non-increasing with values in [0,1] in IEEE binary64 arithmetic
   itself (not only over the rationals): for every pdf of finite non-negative doubles
   whose last entry is at most 1.  From Flocq: rounding is monotone and keeps
   representable numbers, so b <= min(fl(a + b), 1) whenever 0 <= a, 0 <= b <= 1. *)
From Coq Require Import Reals ZArith List Bool Lia Lra.
From Flocq Require Import Core BinarySingleNaN.
From LMBase Require Import Res ListX IEEE.
From LMDist Require Import DistModel DistInst DistProofs DistCheckProofs.
Import ListNotations.
Local Open Scope R_scope.

Notation is_finite := (@BinarySingleNaN.is_finite 53 1024).
Notation is_nan := (@BinarySingleNaN.is_nan 53 1024).
Notation B2R := (@BinarySingleNaN.B2R 53 1024).
Notation Bsign := (@BinarySingleNaN.Bsign 53 1024).

Definition leR (a b : F64.t) : Prop :=
  is_finite a = true /\ is_finite b = true /\ B2R a <= B2R b.

Lemma leR_trans : forall a b c, leR a b -> leR b c -> leR a c.
Proof. intros a b c (Ha & Hb & H1) (_ & Hc & H2). repeat split; auto. lra. Qed.

Lemma f64_one_Bone : f64_one = Bone.
Proof. apply B2SF_inj. vm_compute. reflexivity. Qed.

Lemma f64_one_R : is_finite f64_one = true /\ B2R f64_one = 1.
Proof. rewrite f64_one_Bone. split; [apply is_finite_Bone|apply Bone_correct]. Qed.

Lemma finite_not_nan : forall x : F64.t, is_finite x = true -> is_nan x = false.
Proof. intros x H. destruct x; simpl in *; congruence. Qed.

Lemma neg_sign_nonpos : forall x : F64.t, is_finite x = true -> Bsign x = true -> B2R x <= 0.
Proof.
  intros x Hf Hs. destruct x as [s|s| |s m e pf]; simpl in *; try discriminate; try lra.
  subst s. apply Rlt_le. apply F2R_lt_0. simpl. lia.
Qed.

Lemma leR_cmp : forall a b, leR a b -> le_n F64Ops a b = true.
Proof.
  intros a b (Ha & Hb & H). unfold le_n. cbn [n_cmp F64Ops]. unfold F64.cmp, fcmp.
  rewrite (Bcompare_correct _ _ a b Ha Hb).
  destruct (Rcompare_spec (B2R a) (B2R b)); try reflexivity. lra.
Qed.

Lemma cmp_leR : forall a b, is_finite a = true -> is_finite b = true -> F64.le a b = true -> leR a b.
Proof.
  intros a b Ha Hb H. repeat split; auto. unfold F64.le, fle, fcmp in H.
  rewrite (Bcompare_correct _ _ a b Ha Hb) in H.
  destruct (Rcompare_spec (B2R a) (B2R b)); try discriminate; lra.
Qed.

Lemma plus_min1 : forall a b : F64.t,
  leR F64.zero a -> leR F64.zero b -> leR b f64_one ->
  leR b (F64.min (F64.add a b) f64_one) /\ leR (F64.min (F64.add a b) f64_one) f64_one.
Proof.
  intros a b (_ & Fa & Ha) (_ & Fb & Hb) (_ & F1 & Hb1).
  destruct f64_one_R as [_ E1]. change (B2R F64.zero) with 0 in *.
  assert (leR b f64_one) as Hb1' by (repeat split; auto).
  assert (leR f64_one f64_one) as H11 by (repeat split; auto; lra).
  assert (is_nan f64_one = false) as Hn1 by (apply finite_not_nan; exact F1).
  unfold F64.min, fmin, F64.add, fadd.
  pose proof (Bplus_correct 53 1024 _ _ mode_NE a b Fa Fb) as Hplus.
  set (S := Bplus mode_NE a b) in *.
  destruct (Rlt_bool (Rabs (round radix2 (SpecFloat.fexp 53 1024) (round_mode mode_NE) (B2R a + B2R b))) (bpow radix2 1024)) eqn:Eov.
  - destruct Hplus as (HR & HF & _).
    assert (B2R b <= B2R S) as HbS.
    { rewrite HR. apply round_ge_generic; [apply fexp_correct; reflexivity|apply valid_rnd_N|apply generic_format_B2R|lra]. }
    unfold IEEE.is_nan. rewrite (finite_not_nan S HF), Hn1.
    unfold flt, fcmp. rewrite (Bcompare_correct _ _ f64_one S F1 HF).
    destruct (Rcompare_spec (B2R f64_one) (B2R S)) as [H|H|H].
    + split; assumption.
    + split; repeat split; auto; lra.
    + split; repeat split; auto; lra.
  - destruct Hplus as (HSF & Hsign).
    assert (Bsign a = false) as Hsa.
    { destruct (Bsign a) eqn:Es; [exfalso|reflexivity].
      pose proof (neg_sign_nonpos a Fa Es) as Ha0. symmetry in Hsign.
      pose proof (neg_sign_nonpos b Fb Hsign) as Hb0.
      assert (B2R a + B2R b = 0) as E0 by lra. rewrite E0, round_0, Rabs_R0 in Eov by apply valid_rnd_N.
      rewrite Rlt_bool_true in Eov; [discriminate|apply bpow_gt_0]. }
    rewrite Hsa in HSF.
    assert (S = B754_infinity false) as ES.
    { apply B2SF_inj. rewrite HSF. reflexivity. }
    rewrite ES. unfold IEEE.is_nan. simpl is_nan at 1. rewrite Hn1.
    assert (flt 53 1024 f64_one (B754_infinity false) = true) as Efl by (vm_compute; reflexivity).
    rewrite Efl. split; assumption.
Qed.

Lemma min1_rangeR : forall p : F64.t, leR F64.zero p ->
  leR F64.zero (F64.min p f64_one) /\ leR (F64.min p f64_one) f64_one.
Proof.
  intros p (F0 & Fp & Hp). destruct f64_one_R as [F1 E1]. change (B2R F64.zero) with 0 in *.
  assert (is_nan f64_one = false) as Hn1 by (apply finite_not_nan; exact F1).
  unfold F64.min, fmin. unfold IEEE.is_nan. rewrite (finite_not_nan p Fp), Hn1.
  unfold flt, fcmp. rewrite (Bcompare_correct _ _ f64_one p F1 Fp).
  destruct (Rcompare_spec (B2R f64_one) (B2R p)) as [H|H|H]; split; repeat split; auto;
    change (B2R F64.zero) with 0; lra.
Qed.

Lemma noninc_impl : forall (le1 le2 : F64.t -> F64.t -> Prop) l,
  (forall a b, le1 a b -> le2 a b) -> noninc le1 l -> noninc le2 l.
Proof.
  intros le1 le2 l H. induction l as [|x l IH]; intros Hn; [exact I|].
  destruct l as [|y l]; [exact I|]. destruct Hn as [Hyx Hn]. split; [apply H, Hyx|apply IH, Hn].
Qed.

Theorem sf_monotone_range_F64 : forall pdf sf mn mx,
  Forall (fun x => F64.is_finite x = true /\ F64.le F64.zero x = true) pdf ->
  survival F64Ops pdf = Ok (sf, mn, mx) ->
  length sf = length pdf /\ noninc f64_leP sf /\ Forall (in01 F64Ops f64_leP) sf /\
  Forall (fun x => F64.is_finite x = true) sf.
Proof.
  intros pdf sf mn mx Hpdf Hs.
  assert (Forall (leR (n_zero F64Ops)) pdf) as Hpos.
  { eapply Forall_impl; [|exact Hpdf]. intros x [Hf Hx]. apply cmp_leR; auto. }
  destruct (survival_monotone_range F64Ops leR leR_trans
              (fun a b H0 H1 H2 => proj2 (plus_min1 a b H0 H1 H2))
              min1_rangeR
              (fun a b H0 H1 H2 => proj1 (plus_min1 a b H0 H1 H2))
              pdf sf mn mx Hpos Hs) as (Hlen & Hn & Hf).
  split; [exact Hlen|]. split; [|split].
  - eapply noninc_impl; [|exact Hn]. intros a b H. apply leR_cmp, H.
  - eapply Forall_impl; [|exact Hf]. intros x [H0 H1]. split; apply leR_cmp; assumption.
  - eapply Forall_impl; [|exact Hf]. intros x [(_ & Hx & _) _]. exact Hx.
Qed.

(* the same for the table of a built distribution (any carrier: decomposition of build) *)
Lemma build_inv_generic : forall (T : Type) (N : NumOps T) m bg d, build N m bg = Ok d ->
  exists pdf, pdf_of N bg (d_data d) = Ok pdf /\ survival N pdf = Ok (d_sf d, d_min d, d_max d).
Proof.
  intros T N m bg d H. unfold build in H.
  destruct (negb (forallb (fun row : list (cell T) => (length row =? length bg)%nat) m)); [discriminate|].
  apply rbind_ok in H. destruct H as ([offset scale] & Ha & H).
  apply rbind_ok in H. destruct H as (pdf & Hp & H).
  apply rbind_ok in H. destruct H as ([[sf mn] mx] & Hs & H). inversion H; subst d; clear H. cbn.
  exists pdf. split; assumption.
Qed.

Theorem table_F64 : forall m bg d,
  f64_build m bg = Ok d ->
  (forall pdf, pdf_of F64Ops bg (d_data d) = Ok pdf ->
     Forall (fun x => F64.is_finite x = true /\ F64.le F64.zero x = true) pdf) ->
  noninc f64_leP (d_sf d) /\ Forall (in01 F64Ops f64_leP) (d_sf d) /\
  Forall (fun x => F64.is_finite x = true) (d_sf d).
Proof.
  intros m bg d H Hpdf. destruct (build_inv_generic _ F64Ops m bg d H) as (pdf & Hp & Hs).
  destruct (sf_monotone_range_F64 pdf _ _ _ (Hpdf pdf Hp) Hs) as (_ & Hn & Hf & Hfin). auto.
Qed.
