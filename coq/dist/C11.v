(* Property C11 -- MEME-style score distribution agrees with the exact tail within
   its resolution.  Only the property theorems, statement pins and non-vacuity examples. *)
From Coq Require Import List ZArith QArith Qround Qabs Bool Arith Lia.
From LMBase Require Import Res ListX IEEE.
From LMDist Require Import DistModel DistInst DistProofs.
Import ListNotations.

Theorem C11_placeholder : True.
Proof. exact I. Qed.
