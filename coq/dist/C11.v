(* Property C11 -- MEME-style score distribution agrees with the exact tail within
   its resolution.  Only the property theorems, statement pins and non-vacuity examples.

   Model: DistModel.build / d_pvalue / d_score (From<ScoringMatrix> for ScoreDistribution,
   pvalue, score of lightmotif/src/pwm/dist.rs) over a numeric carrier.  The theorems are
   about the exact-rational instance [QOps] (probabilities are rationals; every panic site
   of the code is a [Panic] result, so "[... = Ok d]" means: the code did not panic);
   the [_refuted] lemma and the regression examples are about the bit-exact binary64
   instance [F64Ops] on inputs given as f32 bit patterns, and are replayed on the
   implementation by corpus/C11/witnesses.txt.  The model follows the code after the four
   repairs of dist.rs (last table entry clipped, sf[0] below the minimum score, fractional
   scale for ranges above 1000, f64 offset).

   Specification side (DistInst): [tail_words m bg t] = P(S >= t) as the finite sum over all
   K^M words of (product of the background weights of the word's symbols) * [S(word) >= t];
   [tail_exact] is the same probability by recursion over the rows
   (C11_tail_is_word_sum).  [tail_exact m bg t] = P(S >= t) and
   [tailD data bg k] = P(D >= k), [pmfD] = P(D = k), for independent symbols drawn with
   the weights [bg]; S = sum of the selected cells of the scoring matrix (a -inf cell is
   never reached), D = sum of the selected discretised cells (i32::MIN = skipped). *)
From Coq Require Import List ZArith QArith Qround Qabs Bool Arith Lia.
From LMBase Require Import Res ListX IEEE.
From LMDist Require Import GenDist DistSkel DistModel DistInst DistProofs DistConv DistTail DistBuild DistThms
  DistDyadic DistCheckProofs DistStretch DistIEEE DistTotal DistNaive DistWords DistRound DistGridModel DistGrid DistBest DistMonoIEEE DistMaxGen
  DistStrictModel DistPdfIEEE DistMonoBuilt DistStrict DistTight DistScaleIEEE DistLenGen.
Import ListNotations.
Local Open Scope Q_scope.

(* ====================================================================== *)
(* First pass                                                             *)
(* ====================================================================== *)

(* The tabulated survival function has M*1000+1 entries, is non-increasing and stays in
   [0,1], for every matrix and every background of non-negative weights (whatever their
   sum: every entry, the last one included, is clipped). *)
Theorem C11_sf_monotone_range : forall m bg d,
  bg_nonneg bg -> build QOps m bg = Ok d ->
  length (d_sf d) = (length m * cdf_range + 1)%nat /\ noninc Qle (d_sf d) /\ Forall Qin01 (d_sf d) /\
  (0 <= d_min d)%Z.
Proof. exact sf_monotone_range_Q. Qed.

(* The same in IEEE binary64 arithmetic itself (Flocq): for every pdf of finite non-negative
   doubles the table computed by the survival loop with round-to-nearest additions and
   min(.,1.0) is non-increasing, inside [0,1] and finite -- because rounding is monotone and
   keeps representable numbers: b <= min(fl(a+b), 1). *)
Theorem C11_sf_monotone_range_ieee : forall pdf sf mn mx,
  Forall (fun x => F64.is_finite x = true /\ F64.le F64.zero x = true) pdf ->
  survival F64Ops pdf = Ok (sf, mn, mx) ->
  length sf = length pdf /\ noninc f64_leP sf /\ Forall (in01 F64Ops f64_leP) sf /\
  Forall (fun x => F64.is_finite x = true) sf.
Proof. exact sf_monotone_range_F64. Qed.

(* ... in particular for the table of the bit-exact model of a built distribution, whenever
   its pdf is finite and non-negative *)
Theorem C11_table_ieee : forall m bg d,
  f64_build m bg = Ok d ->
  (forall pdf, pdf_of F64Ops bg (d_data d) = Ok pdf ->
     Forall (fun x => F64.is_finite x = true /\ F64.le F64.zero x = true) pdf) ->
  noninc f64_leP (d_sf d) /\ Forall (in01 F64Ops f64_leP) (d_sf d) /\
  Forall (fun x => F64.is_finite x = true) (d_sf d).
Proof. exact table_F64. Qed.

(* |D(w) - (S(w) - M*offset)*scale| <= M/2 for every word w through finite cells, and D(w)
   is inside the table. *)
Theorem C11_discretisation_error : forall m offset scale w s,
  stage_a QOps m = Ok (offset, scale) -> word_S m w = Some s ->
  exists k, word_D (map (map (disc_cell QOps offset scale)) m) w = Some k /\
    (0 <= k <= 1000 * Z.of_nat (length m))%Z /\
    Qabs (inject_Z k - (s - inject_Z (Z.of_nat (length m)) * offset) * scale)
      <= inject_Z (Z.of_nat (length m)) / 2.
Proof. exact discretisation_error_Q. Qed.

(* p-values are non-increasing in the score (all scores, including below the minimum and
   above the maximum). *)
Theorem C11_pvalue_monotone : forall m bg d s1 s2 p1 p2,
  bg_nonneg bg -> build QOps m bg = Ok d -> s1 <= s2 ->
  d_pvalue QOps d s1 = Ok p1 -> d_pvalue QOps d s2 = Ok p2 -> p2 <= p1.
Proof. exact pvalue_monotone_Q. Qed.

(* inside the domain (rows as long as the background, at least one finite cell) no panic
   site is reached: the conditional theorems are about every such input *)
Theorem C11_build_total : forall m bg,
  Forall (fun row : list (cell Q) => length row = length bg) m ->
  finite_cells QOps m <> [] ->
  exists d, build QOps m bg = Ok d.
Proof. exact build_Q_total. Qed.

(* ... and so are pvalue and score on the built distribution (the binary search of score()
   terminates inside the table, no unwrap fails): C11_pvalue_monotone, the brackets and the
   round trip speak about every score and every p *)
Theorem C11_methods_total : forall m bg d s p,
  bg_nonneg bg -> build QOps m bg = Ok d ->
  (exists q, d_pvalue QOps d s = Ok q) /\ (exists sc, d_score QOps d p = Ok sc).
Proof. intros m bg d s p Hbg H. apply methods_Q_total. exact (sf_nonempty m bg d Hbg H). Qed.

(* `Distribution<f32>::sample` (feature "sampling") is score() of the uniform draw: never panics on a
   built distribution, and for a draw p in (0,1) the sampled score s has pvalue(s) <= p
   (C11_score_pvalue_roundtrip applies to it verbatim). *)
Theorem C11_sample_is_score : forall m bg d p,
  bg_nonneg bg -> build QOps m bg = Ok d ->
  exists s, d_sample QOps d p = Ok s /\ d_score QOps d p = Ok s.
Proof. intros m bg d p Hbg H. apply sample_Q_total. exact (sf_nonempty m bg d Hbg H). Qed.

(* ====================================================================== *)
(* Stretch                                                                *)
(* ====================================================================== *)

(* pdf[k] = P(D = k): the convolution loop (two buffers, swap, partial fill, skipped
   symbols, zero entries skipped) computes the exact distribution of the discretised
   score, for any background. *)
Theorem C11_pdf_is_distribution : forall m bg d,
  build QOps m bg = Ok d ->
  exists pdf, pdf_of QOps bg (d_data d) = Ok pdf /\
    length pdf = (length m * cdf_range + 1)%nat /\
    (forall j, (j < length pdf)%nat -> nth j pdf 0 == pmfD (d_data d) bg (Z.of_nat j)) /\
    (forall k, (k < 0 \/ Z.of_nat (length m * cdf_range) < k)%Z -> pmfD (d_data d) bg k == 0).
Proof. exact pdf_is_distribution_Q. Qed.

(* the table is the exact tail of the discretised score: sf[j] = P(D >= j) *)
Theorem C11_sf_is_tail : forall m bg d,
  bg_nonneg bg -> Qsum bg <= 1 -> build QOps m bg = Ok d ->
  forall j, (j < length (d_sf d))%nat -> nth j (d_sf d) 0 == tailD (d_data d) bg (Z.of_nat j).
Proof. intros m bg d Hbg Hm H. exact (proj1 (proj2 (build_Q_table m bg d Hbg Hm H))). Qed.

(* P(S >= s + d) <= pvalue(s) <= P(S >= s - d), d = (M/2 + 1) discretisation steps, for
   non-negative weights of total mass at most 1 (wildcard mass allowed) and a table length
   inside i32. *)
Theorem C11_pvalue_brackets_exact : forall m bg d offset scale s p,
  bg_nonneg bg -> Qsum bg <= 1 ->
  build QOps m bg = Ok d -> stage_a QOps m = Ok (offset, scale) ->
  (Z.of_nat (length m) * 1000 < i32_max)%Z ->
  d_pvalue QOps d s = Ok p ->
  let dd := (inject_Z (Z.of_nat (length m)) / 2 + 1) / scale in
  tail_exact m bg (s + dd) <= p /\ p <= tail_exact m bg (s - dd).
Proof. exact pvalue_brackets_exact_Q. Qed.

(* Converting a p-value in (0,1) to a score and back never yields a larger p-value (exact
   arithmetic: unscale is exact; for the f32 unscale of the code see
   C11_unscale_inexact_refuted). *)
Theorem C11_score_pvalue_roundtrip : forall m bg d p s q,
  bg_nonneg bg -> Qsum bg <= 1 -> build QOps m bg = Ok d ->
  (Z.of_nat (length m) * 1000 < i32_max)%Z ->
  0 < p -> p < 1 ->
  d_score QOps d p = Ok s -> d_pvalue QOps d s = Ok q -> q <= p.
Proof. exact score_pvalue_roundtrip_Q. Qed.

(* ---------- the top of the table: max_score, min_pvalue, the best words ---------- *)

(* max_score (the field behind min_pvalue() and score(p <= 0)) is the largest discretised score of
   positive probability: no word of positive weight scores above it, and when the words carry any
   weight at all some word of positive weight reaches it exactly.  (A convolution that drops small
   partial densities, or a wrong sentinel in the survival loop, breaks this.) *)
Theorem C11_max_score_is_best_word : forall m bg d,
  bg_nonneg bg -> Qsum bg <= 1 -> build QOps m bg = Ok d ->
  (0 <= d_max d <= Z.of_nat (length m) * 1000)%Z /\
  (forall w k, In w (all_words (length bg) (length (d_data d))) -> word_D (d_data d) w = Some k ->
     (d_max d < k)%Z -> word_weight bg w == 0) /\
  (0 < tailD_words (d_data d) bg 0 ->
     exists w, In w (all_words (length bg) (length (d_data d))) /\ word_D (d_data d) w = Some (d_max d) /\
               0 < word_weight bg w).
Proof.
  intros m bg d Hbg Hm H. split; [exact (proj1 (max_score_Q m bg d Hbg Hm H))|].
  exact (max_score_words_Q m bg d Hbg Hm H).
Qed.

(* min_pvalue() never panics on a built distribution and is the probability of the best words in
   exact arithmetic: the total weight of the words whose discretised score reaches max_score
   (= P(D = max_score): nothing lies above), positive whenever the words carry weight *)
Theorem C11_min_pvalue_is_best : forall m bg d,
  bg_nonneg bg -> Qsum bg <= 1 -> build QOps m bg = Ok d ->
  exists q, d_min_pvalue d = Ok q /\
    q == tailD_words (d_data d) bg (d_max d) /\
    tailD_words (d_data d) bg (d_max d + 1) == 0 /\
    q == pmfD (d_data d) bg (d_max d) /\
    (0 < tailD_words (d_data d) bg 0 -> 0 < q).
Proof. exact min_pvalue_is_best_Q. Qed.

(* p-values at the top: a score whose scaled value r = scale(s) lies above max_score has p-value 0;
   up to max_score the p-value is at least min_pvalue (so positive: the far upper tail is not cut
   off); at r = max_score (the best attainable discretised score) it is min_pvalue itself *)
Theorem C11_best_score_tail : forall m bg d s r p q,
  bg_nonneg bg -> Qsum bg <= 1 -> build QOps m bg = Ok d ->
  d_min_pvalue d = Ok q -> d_scale QOps d s = Ok r -> d_pvalue QOps d s = Ok p ->
  ((d_max d < r)%Z -> p == 0) /\ ((r <= d_max d)%Z -> q <= p) /\ (r = d_max d -> (d_min d <= r)%Z -> p == q).
Proof. exact best_score_tail_Q. Qed.

(* score(p) for 0 < p < min_pvalue, as coded: the binary search ends at an index x above max_score,
   the returned score unscale(x) lies strictly above unscale(max_score), and its p-value is 0 *)
Theorem C11_score_below_min_pvalue : forall m bg d p q s r,
  bg_nonneg bg -> Qsum bg <= 1 -> build QOps m bg = Ok d ->
  (Z.of_nat (length m) * 1000 < i32_max)%Z ->
  d_min_pvalue d = Ok q -> 0 < p -> p < q ->
  d_score QOps d p = Ok s -> d_pvalue QOps d s = Ok r ->
  r == 0 /\
  exists x : nat, (d_max d < Z.of_nat x <= Z.of_nat (length m) * 1000 + 1)%Z /\
    s == inject_Z (Z.of_nat x) / d_scale_f d + inject_Z (d_rows d) * d_offset d /\
    inject_Z (d_max d) / d_scale_f d + inject_Z (d_rows d) * d_offset d < s.
Proof. exact score_below_min_pvalue_Q. Qed.

(* Nothing of the far upper tail is lost: the p-value of any score at least d below the score of a
   word w is at least the probability of w itself -- for every word, down to the single best one
   (whose probability may be 2^-800).  A convolution that drops small partial densities, or a table
   cut off below the best attainable score, violates this. *)
Theorem C11_no_word_lost : forall m bg d offset scale w sw s p,
  bg_nonneg bg -> Qsum bg <= 1 ->
  build QOps m bg = Ok d -> stage_a QOps m = Ok (offset, scale) ->
  (Z.of_nat (length m) * 1000 < i32_max)%Z ->
  In w (all_words (length bg) (length m)) -> word_S m w = Some sw ->
  s <= sw - (inject_Z (Z.of_nat (length m)) / 2 + 1) / scale ->
  d_pvalue QOps d s = Ok p ->
  word_weight bg w <= p.
Proof. exact no_word_lost_Q. Qed.

(* The specification itself: the recursive tail used in the theorems above is literally
   the probability that a word of independent background-distributed symbols scores at
   least t -- the sum over all K^M words of their weight. *)
Theorem C11_tail_is_word_sum : forall m bg t,
  Forall (fun row : list (cell Q) => length row = length bg) m ->
  tail_exact m bg t == tail_words m bg t.
Proof. exact tail_exact_is_word_sum. Qed.

(* ... and so is the distribution of the discretised score that the pdf and the table hold
   (C11_pdf_is_distribution, C11_sf_is_tail): P(D >= k) is the weight of the words whose
   discretised score is defined (no skipped symbol) and at least k. *)
Theorem C11_tailD_is_word_sum : forall data bg k,
  Forall (fun row : list Z => length row = length bg) data ->
  tailD data bg k == tailD_words data bg k.
Proof. exact tailD_is_word_sum. Qed.

(* ====================================================================== *)
(* The checker used on the implementation's observations is sound, and the *)
(* exact tails it computes are the specification's.                        *)
(* ====================================================================== *)

Theorem check_C11_sound : forall m bg sf pv br rt,
  check_C11 m bg sf pv br rt = true -> Holds_C11 m bg sf pv br rt.
Proof. exact check_C11_sound_lemma. Qed.

Theorem C11_tail_dyadic_correct : forall k j, (0 <= k)%Z -> (0 <= j)%Z ->
  forall (cz : list (list (option Z))) (bgz : list Z) t,
  tail_exact (map (map (qcell k)) cz) (map (qweight j) bgz) t ==
  tail_dy (word_tableZ cz bgz) k j (Z.of_nat (length cz)) t.
Proof. exact tail_dyadic_correct. Qed.

(* the dyadic matrix the checker enumerates has exactly the values of the floats *)
Theorem C11_dyadic_values : forall (m : list (list F64.t)) (bg : list F64.t),
  c11_in_scope m bg = true ->
  Forall2 (Forall2 cell_equiv) (c11_qm m) (map (map f64_cell) m) /\
  Forall2 Qeq (c11_qbg bg) (map f64_to_Q bg).
Proof. exact dyadic_values. Qed.

(* hence the tails the checker brackets p-values with are those of the float matrix itself *)
Theorem C11_checker_tails : forall (m : list (list F64.t)) (bg : list F64.t),
  c11_in_scope m bg = true ->
  forall t, tail_exact (c11_qm m) (c11_qbg bg) t == tail_exact (map (map f64_cell) m) (map f64_to_Q bg) t.
Proof. exact c11_tail_values. Qed.

(* Long motifs (more than 70000 words): the exact tails are computed on the integer grid of the
   scores -- one table entry per distinct word score, the integer weights of the words sharing it
   added up row after row (DistGridModel.conv_tableZ).  That table has the tails of the table of all
   words for every matrix (no grid assumption: on a matrix without coinciding scores it simply is as
   long), so the same exact probability of the specification ... *)
Theorem C11_tail_grid_correct : forall k j, (0 <= k)%Z -> (0 <= j)%Z ->
  forall (cz : list (list (option Z))) (bgz : list Z) t,
  tail_exact (map (map (qcell k)) cz) (map (qweight j) bgz) t ==
  tail_dy (conv_tableZ cz bgz) k j (Z.of_nat (length cz)) t.
Proof. exact tail_grid_correct. Qed.

(* ... and the checker the driver uses for them is the checker through the table of all words, as
   a function: it fails exactly when that one would (if it could be run) *)
Theorem C11_grid_checker_eq : forall m bg sf pv br rt,
  check_C11_grid_fails m bg sf pv br rt = check_C11_fails m bg sf pv br rt.
Proof. exact check_C11_grid_eq. Qed.

(* what the driver actually runs: the same bracket check with the power of two that all integer
   weights share divided out (the weights are frequencies times 2^j with j >= 54 even for the uniform
   background: 54*M-bit integers otherwise), per word or per distinct score: again check_C11_fails
   as a function, so check_C11_sound applies to its verdicts *)
Theorem C11_red_checker_eq : forall grid m bg sf pv br rt,
  check_C11_red_fails grid m bg sf pv br rt = check_C11_fails m bg sf pv br rt.
Proof. exact check_C11_red_eq. Qed.

Theorem check_C11_grid_sound : forall m bg sf pv br rt,
  check_C11_grid m bg sf pv br rt = true -> Holds_C11 m bg sf pv br rt.
Proof. exact check_C11_grid_sound_lemma. Qed.

(* the driver runs the construction with a linear-time list reversal ([rev_append] for [rev] in the
   survival loop): the same function, for every carrier *)
Theorem C11_build_fast_eq : forall (T : Type) (N : NumOps T) m bg, build_fast N m bg = build N m bg.
Proof. exact build_fast_eq. Qed.

(* The model's formulation of the inner loop of the convolution is the Rust loop
     for k in 0..=max { let old = pdf_old[k]; if old != 0.0 { pdf_new[k + s] += old * b } }
   rendered with functional updates ([naive_k]), for every numeric carrier -- so the binary64
   additions happen in the same order on the same operands (index out of bounds = Panic 3). *)
Theorem C11_kloop_is_rust_loop : forall (T : Type) (N : NumOps T) old maxk s b new,
  (S maxk <= length old)%nat -> (0 <= s)%Z -> s <> i32_min ->
  add_symbol N old maxk s b new = naive_k N old (Z.to_nat s) b (seq 0 (S maxk)) new.
Proof. exact @add_symbol_naive_eq. Qed.

(* The round trip in binary32/binary64 itself (f32 unscale included): under the computable
   predicate [f64_roundtrip_pred d] -- scale(unscale(i)) = i for every index 0..len of the table
   (a function of scale, offset, M only: f64_unscale_exact_on), table non-increasing in [0,1] and
   flat below min_score -- converting a p-value in (0,1) to a score and back never yields a larger
   p-value, for the bit-exact model.  The known finding C11-unscale-inexact is "predicate false"
   (the driver evaluates the predicate on the model of the failing case). *)
Theorem C11_roundtrip_binary64 : forall (d : dist F64.t) p s q,
  f64_roundtrip_pred d = true -> in_open01 F64Ops p = true ->
  d_score F64Ops d p = Ok s -> d_pvalue F64Ops d s = Ok q ->
  le_n F64Ops q p = true.
Proof. exact roundtrip_F64. Qed.

(* max_score / min_pvalue for EVERY numeric carrier, the bit-exact binary64 model included (no
   arithmetic fact is used, only the loop's own comparisons `> 0.0`): the survival loop leaves in
   max_score the largest table index >= 1 whose entry is > 0, or 0 when there is none ... *)
Theorem C11_max_score_structural : forall (T : Type) (N : NumOps T) pdf sf mn mx,
  survival N pdf = Ok (sf, mn, mx) ->
  (mx = 0%Z /\ forall k, (1 <= k < length sf)%nat -> gt0 N (nth k sf (n_zero N)) = false) \/
  ((1 <= Z.to_nat mx < length sf)%nat /\ (0 < mx)%Z /\ gt0 N (nth (Z.to_nat mx) sf (n_zero N)) = true /\
   forall k, (Z.to_nat mx < k < length sf)%nat -> gt0 N (nth k sf (n_zero N)) = false).
Proof. exact @survival_max_gen. Qed.

(* ... so min_pvalue() of a built distribution never panics (any carrier, any input for which the
   construction itself succeeds), equals sf[max_score], is > 0 whenever max_score <> 0, and no table
   entry above max_score is > 0: in binary64 itself the far upper tail ends exactly at max_score *)
Theorem C11_min_pvalue_structural : forall (T : Type) (N : NumOps T) m bg d,
  build N m bg = Ok d ->
  exists q, d_min_pvalue d = Ok q /\ q = nth (Z.to_nat (d_max d)) (d_sf d) (n_zero N) /\ (0 <= d_max d)%Z /\
    (d_max d <> 0%Z -> gt0 N q = true) /\
    (forall k, (Z.to_nat (d_max d) < k < length (d_sf d))%nat -> (1 <= k)%nat ->
       gt0 N (nth k (d_sf d) (n_zero N)) = false).
Proof. exact @min_pvalue_gen. Qed.

(* Monotonicity in binary64 itself: scale(s) = f64::round((s - w*offset) * scale) as i32 is
   non-decreasing in s for ALL doubles s1 <= s2 (infinities included, overflow of the difference or
   of the product included) because every step is monotone in IEEE arithmetic (Flocq: rounding to
   nearest is monotone, an overflow yields the infinity of the right sign, f64::round and the
   saturating cast are monotone), for a finite w*offset and a finite positive scale ... *)
Theorem C11_scale_monotone_binary64 : forall (d : dist F64.t) s1 s2 r1 r2,
  F64.is_finite (d_wo F64Ops d) = true -> F64.is_finite (d_scale_f d) = true ->
  F64.lt F64.zero (d_scale_f d) = true -> F64.le s1 s2 = true ->
  d_scale F64Ops d s1 = Ok r1 -> d_scale F64Ops d s2 = Ok r2 -> (r1 <= r2)%Z.
Proof.
  intros d s1 s2 r1 r2 Fw Fs Hlt Hle H1 H2. refine (scale_mono_F64 d s1 s2 r1 r2 Fw Fs _ Hle H1 H2).
  exact (f64_lt_zero_R _ Fs Hlt).
Qed.

(* ... hence p-values are non-increasing in the score for the bit-exact model, under the computable
   predicate [f64_mono_pred d] (table non-increasing in [0,1] and non-empty, min_score >= 0, w*offset
   finite, scale finite and positive -- evaluated on a model instance in ex_mono_pred) *)
Theorem C11_pvalue_monotone_binary64 : forall (d : dist F64.t) s1 s2 p1 p2,
  f64_mono_pred d = true -> F64.le s1 s2 = true ->
  d_pvalue F64Ops d s1 = Ok p1 -> d_pvalue F64Ops d s2 = Ok p2 ->
  le_n F64Ops p2 p1 = true.
Proof. exact pvalue_monotone_F64. Qed.

(* ====================================================================== *)
(* Round 3, wave 3 (review of 2026-10-02): binary64 without hypotheses about *)
(* the pdf or the table; the domain at M = 0; a checker that cannot fail open *)
(* ====================================================================== *)

(* The density computed by the convolution loop is finite and non-negative in binary64 itself: for a
   background of finite doubles in [0,1] ([f64_bg_ok]: what `Background::new` / `from_counts` guarantee;
   NO assumption on its sum) and dimensions with c * M <= 1023, c = ceil(log2(K+1)) <= 52
   ([f64_dims_ok]: M <= 341 for DNA, M <= 204 for proteins) every entry of the pdf is a finite double
   >= 0 -- no NaN, no infinity, no negative entry: a product old*b with 0 <= b <= 1 rounds into
   [0, old], a partial sum of t such products is at most t * 2^(c*i), a representable number below the
   overflow threshold.  This is the hypothesis that C11_table_ieee leaves open. *)
Theorem C11_pdf_binary64 : forall bg data pdf,
  f64_bg_ok bg = true -> f64_dims_ok (length bg) (length data) = true ->
  pdf_of F64Ops bg data = Ok pdf ->
  Forall (fun x => F64.is_finite x = true /\ F64.le F64.zero x = true) pdf.
Proof. exact pdf_F64_finite_nonneg. Qed.

(* Hence the tabulated survival function of EVERY distribution built by the bit-exact model is
   non-increasing with values in [0,1] and finite -- in IEEE binary64 arithmetic, for every matrix (any
   cells for which the construction answers: the cells only select positions), nothing assumed about
   the pdf or the table. *)
Theorem C11_table_binary64 : forall m bg d,
  f64_bg_ok bg = true -> f64_dims_ok (length bg) (length m) = true ->
  f64_build m bg = Ok d ->
  noninc f64_leP (d_sf d) /\ Forall (in01 F64Ops f64_leP) (d_sf d) /\
  Forall (fun x => F64.is_finite x = true) (d_sf d).
Proof. exact table_F64_built. Qed.

(* p-values of a built distribution are non-increasing in the score in binary64 itself: the table part of
   f64_mono_pred (non-increasing in [0,1], non-empty, min_score >= 0) is derived from the construction;
   what remains is [f64_scale_pred d]: w*offset finite, scale finite and positive -- a function of
   (scale, offset, M) only, evaluated by the driver on every case.  It is NOT implied by the domain:
   ex_scale_pred_not_derivable (a constant matrix 2^60: large - 1.0 == large in binary64, scale = +inf). *)
Theorem C11_pvalue_monotone_binary64_built : forall m bg (d : dist F64.t) s1 s2 p1 p2,
  f64_bg_ok bg = true -> f64_dims_ok (length bg) (length m) = true ->
  f64_build m bg = Ok d -> f64_scale_pred d = true ->
  F64.le s1 s2 = true ->
  d_pvalue F64Ops d s1 = Ok p1 -> d_pvalue F64Ops d s2 = Ok p2 ->
  le_n F64Ops p2 p1 = true.
Proof. exact pvalue_monotone_F64_built. Qed.

(* ... and on a built distribution the predicate of C11_pvalue_monotone_binary64 IS its scale part *)
Theorem C11_mono_pred_built : forall m bg d,
  f64_bg_ok bg = true -> f64_dims_ok (length bg) (length m) = true ->
  f64_build m bg = Ok d -> f64_mono_pred d = f64_scale_pred d.
Proof. exact mono_pred_built. Qed.

(* The scale part DERIVED for the matrices that occur in practice: cells given as f32 bit patterns (what
   `ScoringMatrix<A>` holds), no NaN, and either two different non-infinite cells ([f32_matrix_ok]) or a constant
   matrix of magnitude at most 2^52 ([f32_matrix_ok_const]) -- [f32_matrix_ok_any], computable on the bit
   patterns -- and at most 2^53 rows.  In binary64 itself: small0 <= large are cells; for small0 < large the offset
   floor(small0) is a finite integer below large; for a constant matrix large - 1.0 stays strictly below large (the
   integer ceil(large) - 1 lies in [large - 1, large) and is a double) and so does its floor; large - offset is a
   positive multiple of 2^-149 (every finite f32 widened to f64 is on that grid: DistScaleIEEE.of_f32_G149), at most
   2^130; 1000 / it lies in [2^-121, 2^159]; so the scale is finite and positive and w*offset is finite. *)
Theorem C11_scale_pred_f32 : forall mb bg d,
  f32_matrix_ok_any mb = true -> (Z.of_nat (length mb) <= 2 ^ 53)%Z ->
  f64_build (map (map f32_cell) mb) bg = Ok d -> f64_scale_pred d = true.
Proof. exact scale_pred_f32_any. Qed.

(* ... hence p-values are non-increasing in the score in binary64 itself with NO hypothesis about the
   distribution object: for every NaN-free f32 matrix with a finite cell that is not a constant beyond 2^52, every
   background inside [0,1], dimensions inside f64_dims_ok, all doubles s1 <= s2 (infinities included).  The only
   in-domain matrices left out are the constant ones with |cell| > 2^52, where the claim about the scale is FALSE
   (ex_scale_pred_not_derivable: scale = +inf at 2^60). *)
Theorem C11_pvalue_monotone_binary64_f32 : forall mb bg (d : dist F64.t) s1 s2 p1 p2,
  f32_matrix_ok_any mb = true -> f64_bg_ok bg = true -> f64_dims_ok (length bg) (length mb) = true ->
  f64_build (map (map f32_cell) mb) bg = Ok d ->
  F64.le s1 s2 = true ->
  d_pvalue F64Ops d s1 = Ok p1 -> d_pvalue F64Ops d s2 = Ok p2 ->
  le_n F64Ops p2 p1 = true.
Proof. exact pvalue_monotone_F64_f32. Qed.

(* The table has M*1000 + 1 entries for EVERY numeric carrier (binary64 included): the buffers of the convolution
   keep their length, the survival loop returns as many entries as the pdf has. *)
Theorem C11_table_length_structural : forall (T : Type) (N : NumOps T) m bg d,
  build N m bg = Ok d -> length (d_sf d) = (length m * cdf_range + 1)%nat.
Proof. exact @build_table_length. Qed.

(* The domain at its lower edge.  A matrix without any non-infinite cell -- no row at all (M = 0), or
   only -inf cells -- makes `to_score_distribution` panic: `min_by(..).unwrap()` on an empty iterator
   (dist.rs:139), site 1 of the model, for every numeric carrier.  The property's d = (M/2+1)
   "discretisation steps" presupposes a step, i.e. a range of finite cells: such matrices are outside
   C11's quantifier (c11_in_scope demands a row; C11_build_total demands a finite cell), the panic is
   replayed bit-faithfully (corpus e0, e1) and `lightmotif-py` refuses them (a1b1f91). *)
Theorem C11_no_finite_cell_panics : forall (T : Type) (N : NumOps T) m bg,
  forallb (fun row : list (cell T) => (length row =? length bg)%nat) m = true ->
  finite_cells N m = [] -> build N m bg = Panic 1.
Proof. exact @build_no_finite_cell. Qed.

Theorem C11_empty_matrix_panics : forall (T : Type) (N : NumOps T) bg, build N [] bg = Panic 1.
Proof. exact @build_empty. Qed.

(* The bracket with the TIGHT half width d = (M/2 + 1/2) steps = (M+1)/2 discretisation steps (|D - y| <= M/2 for the
   word, |round(t) - t| <= 1/2 for the probe): for odd M exactly the integer reading floor(M/2)+1 of the property
   text, for even M half a step narrower.  C11_pvalue_brackets_exact (d = M/2 + 1, rational) is the weaker
   statement kept for the callers in coq/e2e. *)
Theorem C11_pvalue_brackets_tight : forall m bg d offset scale s p,
  bg_nonneg bg -> Qsum bg <= 1 ->
  build QOps m bg = Ok d -> stage_a QOps m = Ok (offset, scale) ->
  (Z.of_nat (length m) * 1000 < i32_max)%Z ->
  d_pvalue QOps d s = Ok p ->
  let dd := (inject_Z (Z.of_nat (length m)) / 2 + (1 # 2)) / scale in
  tail_exact m bg (s + dd) <= p /\ p <= tail_exact m bg (s - dd).
Proof. exact pvalue_brackets_tight_Q. Qed.

(* ... and with the property text's d read literally: (M/2 + 1) steps, M/2 the INTEGER quotient *)
Theorem C11_pvalue_brackets_integer_d : forall m bg d offset scale s p,
  bg_nonneg bg -> Qsum bg <= 1 ->
  build QOps m bg = Ok d -> stage_a QOps m = Ok (offset, scale) ->
  (Z.of_nat (length m) * 1000 < i32_max)%Z ->
  d_pvalue QOps d s = Ok p ->
  let dd := inject_Z (Z.of_nat (length m) / 2 + 1) / scale in
  tail_exact m bg (s + dd) <= p /\ p <= tail_exact m bg (s - dd).
Proof. exact pvalue_brackets_integer_d_Q. Qed.

(* The checker cannot fail open.  c11_bracket_fails answers "no failure" when the exact discretisation
   step cannot be established (stage A of the exact model fails / scale <= 0); the strict checker the
   driver runs reports exactly that as failure kind 8.  Inside the domain with at least two symbols it
   never happens ... *)
Theorem C11_bracket_always_judged : forall m bg br,
  c11_in_scope m bg = true -> (2 <= length bg)%nat -> c11_bracket_unjudged m br = false.
Proof. exact bracket_always_judged. Qed.

(* ... so the strict checker is check_C11_fails as a function (no new alarm) ... *)
Theorem C11_strict_checker_eq : forall grid m bg sf pv br rt, (2 <= length bg)%nat ->
  check_C11_strict_fails grid m bg sf pv br rt = check_C11_fails m bg sf pv br rt.
Proof. exact strict_eq_in_scope. Qed.

(* ... and its empty answer establishes Holds_C11 together with the existence of the positive exact
   scale whenever bracket probes were handed over: the bracket clause of Holds_C11 is not vacuous *)
Theorem check_C11_strict_sound : forall grid m bg sf pv br rt,
  check_C11_strict grid m bg sf pv br rt = true -> Holds_C11_strict m bg sf pv br rt.
Proof. exact check_C11_strict_sound_lemma. Qed.

(* ====================================================================== *)
(* Tie of the hand-written model to the source text (regenerated on every   *)
(* run by translate/dist_skel.py into GenDist.v)                            *)
(* ====================================================================== *)

(* the statement skeleton of `From<ScoringMatrix> for ScoreDistribution` and of the methods
   scale/unscale/pvalue/score/min_pvalue/sample is the one the model was written against *)
Theorem C11_source_skeleton :
  gen_from_body = model_from_body /\ gen_methods = model_methods.
Proof. split; vm_compute; reflexivity. Qed.

(* CDF_RANGE (the model's cdf_range IS the regenerated constant), the rounding function of the
   cell discretisation, the bounds of the inner k loop, the skip marker, the fill bound, the
   accumulation, the zero test, the scale fall-back and the two min(1.0) clip sites *)
Theorem C11_source_parameters :
  cdf_range = gen_cdf_range /\ gen_cdf_range = 1000%nat /\
  gen_round_fn = model_round_fn /\
  (gen_kloop_lo, gen_kloop_hi, gen_kloop_inclusive) = (model_kloop_lo, model_kloop_hi, model_kloop_inclusive) /\
  gen_max_def = model_max_def /\ gen_skip_marker = model_skip_marker /\
  gen_fill = model_fill /\ gen_accumulate = model_accumulate /\ gen_nonzero_test = model_nonzero_test /\
  gen_scale_fallback = model_scale_fallback /\ gen_clip_sites = model_clip_sites /\
  gen_sf_loop = model_sf_loop /\ gen_sf_sum = model_sf_sum.
Proof. repeat (split; [vm_compute; reflexivity|]). vm_compute; reflexivity. Qed.

(* ====================================================================== *)
(* Known finding: the round trip is false of the bit-exact model (f32      *)
(* unscale); inputs are f32 bit patterns, 4286578688 = -inf.               *)
(* ====================================================================== *)

Ltac conj_all := match goal with |- _ /\ _ => split; [|conj_all] | _ => idtac end.

Definition ninf32 : Z := 4286578688%Z.
Definition bg_uniform32 : list Z := [1048576000; 1048576000; 1048576000; 1048576000; 0]%Z.

(* cells in [4096, 4096.001], M = 2: one step (0.001) is below the f32 spacing at 8192, so
   scale(unscale(i)) <> i and pvalue(score(0.5)) = 0.5625 > 0.5 *)
Lemma C11_unscale_inexact_refuted :
  exists (m : list (list Z)) (bg : list Z) (p : Z),
    c11_in_scope (map (map f32_val) m) (map f32_val bg) = true /\
    bg_new_ok (map F32.of_bits bg) = true /\
    in_open01 F64Ops (F64.of_bits p) = true /\
    match f64_build (map (map f32_cell) m) (map f32_val bg) with
    | Ok d => match f64_roundtrip d (F64.of_bits p) with Ok r => F64.lt (F64.of_bits p) r | _ => false end
    | _ => false
    end = true.
Proof.
  exists [[1166016512; 1166016512; 1166016513; 1166016514; ninf32];
          [1166016512; 1166016513; 1166016513; 1166016514; ninf32]]%Z, bg_uniform32, 4602678819172646912%Z.
  conj_all; vm_compute; reflexivity.
Qed.

(* ---------- regression examples: the four repaired defects, on the bit-exact model ---------- *)

(* background with wildcard mass 1/8, -inf wildcard column: pvalue(-5.0) is the tabulated
   mass 7/8 (was the literal 1.0), equal to the exact tail *)
Example reg_wildcard_mass :
  let m := [[0; 1065353216; 1073741824; 1077936128; ninf32]]%Z in
  let bg := [1048576000; 1048576000; 1048576000; 1040187392; 1040187392]%Z in
  bg_new_ok (map F32.of_bits bg) = true /\
  match f64_build (map (map f32_cell) m) (map f32_val bg) with
  | Ok d => match f64_pvalue d (f32_val 3231711232) with Ok p => F64.to_bits p | _ => 0%Z end
  | _ => 0%Z
  end = 4606056518893174784%Z /\
  tail_exact (c11_qm (map (map f32_val) m)) (c11_qbg (map f32_val bg))
     (f64_to_Q (f32_val 3231711232) - (inject_Z 1 / 2 + 1) / 333) == 7 # 8.
Proof. cbv zeta. conj_all; vm_compute; reflexivity. Qed.

(* finite cells spanning 1500 > 1000: fractional scale 2/3 (was 0), the round trip of 0.5 holds *)
Example reg_scale_fraction :
  let m := [[3292233728; 0; 1092616192; 1144750080; ninf32]]%Z in
  match q_stage_a (c11_qm (map (map f32_val) m)) with
  | Ok (o, sc) => Qeq_bool o (-750) && Qeq_bool sc (2 # 3) | _ => false end = true /\
  match f64_build (map (map f32_cell) m) (map f32_val bg_uniform32) with
  | Ok d => match f64_roundtrip d (F64.of_bits 4602678819172646912) with
            | Ok r => F64.le r (F64.of_bits 4602678819172646912) | _ => false end
  | _ => false
  end = true.
Proof. cbv zeta. conj_all; vm_compute; reflexivity. Qed.

(* cells near 3e9, M = 2: pvalue answers (was: i32 overflow panic) *)
Example reg_offset_f64 :
  let m := [[1328730206; 1328730208; 1328730210; 1328730207; ninf32];
            [1328730206; 1328730208; 1328730210; 1328730207; ninf32]]%Z in
  match f64_build (map (map f32_cell) m) (map f32_val bg_uniform32) with
  | Ok d => match f64_pvalue d (f32_val 1337118814) with Ok p => F64.le p f64_one | _ => false end
  | _ => false
  end = true.
Proof. cbv zeta. vm_compute. reflexivity. Qed.

(* constant matrix, background 0.33333334 x 3 (f32 sum 1.0, real sum above 1): the last
   table entry is clipped to exactly 1.0 (was 1.00000006) *)
Example reg_last_entry_clipped :
  let m := [[0; 0; 0; 0; ninf32]; [0; 0; 0; 0; ninf32]]%Z in
  let bg := [1051372203; 1051372203; 1051372203; 0; 0]%Z in
  bg_new_ok (map F32.of_bits bg) = true /\
  match f64_build (map (map f32_cell) m) (map f32_val bg) with
  | Ok d => F64.to_bits (last (d_sf d) F64.zero)
  | _ => 0%Z
  end = 4607182418800017408%Z.
Proof. cbv zeta. conj_all; vm_compute; reflexivity. Qed.

(* ====================================================================== *)
(* Statement pins                                                          *)
(* ====================================================================== *)

Check (eq_refl : cdf_range = 1000%nat).

Check C11_sf_monotone_range : forall m bg d,
  bg_nonneg bg -> build QOps m bg = Ok d ->
  length (d_sf d) = (length m * cdf_range + 1)%nat /\ noninc Qle (d_sf d) /\ Forall Qin01 (d_sf d) /\
  (0 <= d_min d)%Z.

Check C11_pvalue_monotone : forall m bg d s1 s2 p1 p2,
  bg_nonneg bg -> build QOps m bg = Ok d -> s1 <= s2 ->
  d_pvalue QOps d s1 = Ok p1 -> d_pvalue QOps d s2 = Ok p2 -> p2 <= p1.

Check C11_pvalue_brackets_exact : forall m bg d offset scale s p,
  bg_nonneg bg -> Qsum bg <= 1 ->
  build QOps m bg = Ok d -> stage_a QOps m = Ok (offset, scale) ->
  (Z.of_nat (length m) * 1000 < i32_max)%Z ->
  d_pvalue QOps d s = Ok p ->
  let dd := (inject_Z (Z.of_nat (length m)) / 2 + 1) / scale in
  tail_exact m bg (s + dd) <= p /\ p <= tail_exact m bg (s - dd).

Check C11_score_pvalue_roundtrip : forall m bg d p s q,
  bg_nonneg bg -> Qsum bg <= 1 -> build QOps m bg = Ok d ->
  (Z.of_nat (length m) * 1000 < i32_max)%Z ->
  0 < p -> p < 1 ->
  d_score QOps d p = Ok s -> d_pvalue QOps d s = Ok q -> q <= p.

Check check_C11_sound : forall m bg sf pv br rt,
  check_C11 m bg sf pv br rt = true -> Holds_C11 m bg sf pv br rt.

Check C11_min_pvalue_is_best : forall m bg d,
  bg_nonneg bg -> Qsum bg <= 1 -> build QOps m bg = Ok d ->
  exists q, d_min_pvalue d = Ok q /\
    q == tailD_words (d_data d) bg (d_max d) /\
    tailD_words (d_data d) bg (d_max d + 1) == 0 /\
    q == pmfD (d_data d) bg (d_max d) /\
    (0 < tailD_words (d_data d) bg 0 -> 0 < q).

Check C11_best_score_tail : forall m bg d s r p q,
  bg_nonneg bg -> Qsum bg <= 1 -> build QOps m bg = Ok d ->
  d_min_pvalue d = Ok q -> d_scale QOps d s = Ok r -> d_pvalue QOps d s = Ok p ->
  ((d_max d < r)%Z -> p == 0) /\ ((r <= d_max d)%Z -> q <= p) /\ (r = d_max d -> (d_min d <= r)%Z -> p == q).

Check C11_pvalue_monotone_binary64 : forall (d : dist F64.t) s1 s2 p1 p2,
  f64_mono_pred d = true -> F64.le s1 s2 = true ->
  d_pvalue F64Ops d s1 = Ok p1 -> d_pvalue F64Ops d s2 = Ok p2 ->
  le_n F64Ops p2 p1 = true.

Check C11_red_checker_eq : forall grid m bg sf pv br rt,
  check_C11_red_fails grid m bg sf pv br rt = check_C11_fails m bg sf pv br rt.

Check C11_table_binary64 : forall m bg d,
  f64_bg_ok bg = true -> f64_dims_ok (length bg) (length m) = true ->
  f64_build m bg = Ok d ->
  noninc f64_leP (d_sf d) /\ Forall (in01 F64Ops f64_leP) (d_sf d) /\
  Forall (fun x => F64.is_finite x = true) (d_sf d).

Check C11_pvalue_monotone_binary64_built : forall m bg (d : dist F64.t) s1 s2 p1 p2,
  f64_bg_ok bg = true -> f64_dims_ok (length bg) (length m) = true ->
  f64_build m bg = Ok d -> f64_scale_pred d = true ->
  F64.le s1 s2 = true ->
  d_pvalue F64Ops d s1 = Ok p1 -> d_pvalue F64Ops d s2 = Ok p2 ->
  le_n F64Ops p2 p1 = true.

Check C11_pvalue_brackets_integer_d : forall m bg d offset scale s p,
  bg_nonneg bg -> Qsum bg <= 1 ->
  build QOps m bg = Ok d -> stage_a QOps m = Ok (offset, scale) ->
  (Z.of_nat (length m) * 1000 < i32_max)%Z ->
  d_pvalue QOps d s = Ok p ->
  let dd := inject_Z (Z.of_nat (length m) / 2 + 1) / scale in
  tail_exact m bg (s + dd) <= p /\ p <= tail_exact m bg (s - dd).

Check C11_pvalue_monotone_binary64_f32 : forall mb bg (d : dist F64.t) s1 s2 p1 p2,
  f32_matrix_ok_any mb = true -> f64_bg_ok bg = true -> f64_dims_ok (length bg) (length mb) = true ->
  f64_build (map (map f32_cell) mb) bg = Ok d ->
  F64.le s1 s2 = true ->
  d_pvalue F64Ops d s1 = Ok p1 -> d_pvalue F64Ops d s2 = Ok p2 ->
  le_n F64Ops p2 p1 = true.

Check C11_empty_matrix_panics : forall (T : Type) (N : NumOps T) bg, build N [] bg = Panic 1.

Check check_C11_strict_sound : forall grid m bg sf pv br rt,
  check_C11_strict grid m bg sf pv br rt = true -> Holds_C11_strict m bg sf pv br rt.

(* ====================================================================== *)
(* Non-vacuity: the hypotheses are satisfiable and the conclusions bite     *)
(* ====================================================================== *)

Definition ex_m : list (list (cell Q)) := [[CFin 0; CFin 1; CFin 2; CFin 3; CNInf]].
Definition ex_bg : list Q := [1 # 4; 1 # 4; 1 # 4; 1 # 4; 0].

Example ex_hyps : bg_nonneg ex_bg /\ Qsum ex_bg <= 1.
Proof.
  split; [unfold bg_nonneg, ex_bg; repeat (apply Forall_cons; [vm_compute; discriminate|]); apply Forall_nil|].
  vm_compute; discriminate.
Qed.

Example ex_build :
  match build QOps ex_m ex_bg with
  | Ok d => d_min d = 0%Z /\ d_max d = 999%Z /\ length (d_sf d) = 1001%nat /\
            nth 333 (d_sf d) 0 == 3 # 4 /\ nth 334 (d_sf d) 0 == 1 # 2 /\ d_scale_f d == 333
  | _ => False
  end.
Proof. vm_compute. conj_all; reflexivity. Qed.

Example ex_stage_a : stage_a QOps ex_m = Ok (0, 333).
Proof. vm_compute. reflexivity. Qed.

(* pvalue(1) = P(D >= 333) = 3/4 = P(S >= 1 - d), above P(S >= 1 + d) = 1/2 *)
Example ex_pvalue :
  match build QOps ex_m ex_bg with
  | Ok d => match d_pvalue QOps d 1 with Ok p => p == 3 # 4 | _ => False end
  | _ => False
  end /\ tail_exact ex_m ex_bg (1 - (inject_Z 1 / 2 + 1) / 333) == 3 # 4
      /\ tail_exact ex_m ex_bg (1 + (inject_Z 1 / 2 + 1) / 333) == 1 # 2.
Proof. conj_all; vm_compute; reflexivity. Qed.

(* score(1/3) followed by pvalue gives 1/4 <= 1/3 *)
Example ex_roundtrip :
  match build QOps ex_m ex_bg with
  | Ok d => match d_score QOps d (1 # 3) with
            | Ok s => match d_pvalue QOps d s with Ok q => q == 1 # 4 | _ => False end
            | _ => False end
  | _ => False
  end.
Proof. vm_compute. reflexivity. Qed.

Example ex_word : word_S ex_m [2%nat] = Some (2 + 0) /\
  word_D (map (map (disc_cell QOps 0 333)) ex_m) [2%nat] = Some 666%Z.
Proof. split; vm_compute; reflexivity. Qed.

(* the checker accepts the exact answers on this matrix and rejects a p-value above the
   upper bracket (1.0 for a score whose exact tail is 3/4) *)
Example ex_checker :
  let m := [[f32_val 0; f32_val 1065353216; f32_val 1073741824; f32_val 1077936128; f32_val ninf32]] in
  let bg := map f32_val bg_uniform32 in
  c11_in_scope m bg = true /\
  check_C11_fails m bg [] [] [(f32_val 1069547520, F64.of_bits 4602678819172646912)] [] = [] /\
  check_C11_fails m bg [] [] [(f32_val 1069547520, F64.of_bits 4607182418800017408)] [] = [(4, 0)%nat].
Proof. cbv zeta. conj_all; vm_compute; reflexivity. Qed.

(* the hypotheses of the IEEE version hold of a concrete pdf: 1/4 four times *)
Example ex_ieee_hyps :
  let q := F64.of_bits 4598175219545276416 in
  forallb (fun x => F64.is_finite x && F64.le F64.zero x) [q; q; q; q] = true /\
  match survival F64Ops [q; q; q; q] with
  | Ok (sf, mn, mx) => map F64.to_bits sf = [4607182418800017408; 4604930618986332160; 4602678819172646912; 4598175219545276416]%Z
  | _ => False
  end.
Proof. cbv zeta. conj_all; vm_compute; reflexivity. Qed.
(* the word sum on the example: 4 words of weight 1/4 (the wildcard word has weight 0 and
   score -inf), P(S >= 3/2) = 1/2 *)
Example ex_word_sum : tail_words ex_m ex_bg (3 # 2) == 1 # 2 /\ length (all_words 5 1) = 5%nat.
Proof. split; vm_compute; reflexivity. Qed.

(* the predicate of C11_roundtrip_binary64 holds on the ordinary example matrix (cells 0,1,2,3)
   and fails on the witness of the known finding (cells in [4096, 4096.001], M = 2) *)
Example ex_roundtrip_pred :
  match f64_build (map (map f32_cell) [[0; 1065353216; 1073741824; 1077936128; ninf32]]%Z) (map f32_val bg_uniform32) with
  | Ok d => f64_roundtrip_pred d | _ => false end = true /\
  match f64_build (map (map f32_cell) [[1166016512; 1166016512; 1166016513; 1166016514; ninf32];
                                       [1166016512; 1166016513; 1166016513; 1166016514; ninf32]]%Z) (map f32_val bg_uniform32) with
  | Ok d => f64_unscale_exact_on (d_scale_f d) (d_offset d) (d_rows d) (length (d_sf d)) | _ => true end = false.
Proof. split; vm_compute; reflexivity. Qed.

(* the grid table of a 30-column matrix with cells 0/1 has 31 entries (the table of all words would
   have 2^30), carries the weights of all of them, and gives P(S >= 30) = 2^-30 *)
Example ex_grid :
  let cz := repeat [Some 0%Z; Some 1%Z] 30 in
  let tab := conv_tableZ cz [1%Z; 1%Z] in
  length tab = 31%nat /\ tail_tabZ tab 0 0 = (2 ^ 30)%Z /\ tail_tabZ tab 30 0 = 1%Z /\
  tail_dy tab 0 1 30 (30 # 1) == 1 # (2 ^ 30).
Proof. cbv zeta. conj_all; vm_compute; reflexivity. Qed.

(* max_score / min_pvalue on the example (cells 0,1,2,3, uniform): max_score = 999 = D(word "3"),
   min_pvalue = 1/4 = its weight; score(1/8) = unscale(1000) > unscale(999), p-value 0 *)
Example ex_best :
  match build QOps ex_m ex_bg with
  | Ok d => d_max d = 999%Z /\
            match d_min_pvalue d with Ok q => q == 1 # 4 | _ => False end /\
            word_D (d_data d) [3%nat] = Some 999%Z /\ word_weight ex_bg [3%nat] == 1 # 4 /\
            match d_score QOps d (1 # 8) with
            | Ok s => s == 1000 # 333 /\ match d_pvalue QOps d s with Ok r => r == 0 | _ => False end
            | _ => False end
  | _ => False
  end.
Proof. vm_compute. conj_all; reflexivity. Qed.

(* the predicate of C11_pvalue_monotone_binary64 holds on the example matrix (cells 0,1,2,3) and on
   the witness of the known finding (cells in [4096, 4096.001]: the f32 unscale is inexact there, but
   p-values are still monotone in the score) *)
Example ex_mono_pred :
  match f64_build (map (map f32_cell) [[0; 1065353216; 1073741824; 1077936128; ninf32]]%Z) (map f32_val bg_uniform32) with
  | Ok d => f64_mono_pred d | _ => false end = true /\
  match f64_build (map (map f32_cell) [[1166016512; 1166016512; 1166016513; 1166016514; ninf32];
                                       [1166016512; 1166016513; 1166016513; 1166016514; ninf32]]%Z) (map f32_val bg_uniform32) with
  | Ok d => f64_mono_pred d | _ => false end = true.
Proof. split; vm_compute; reflexivity. Qed.

(* the reduction on the uniform background: the integer weights 2^52 (j = 54) become 1 (j - t = 2) *)
Example ex_red :
  let bg := map f32_val bg_uniform32 in
  c11_j bg = 54%Z /\ c11_red (c11_j bg) (c11_zb bg) = ([1; 1; 1; 1; 0]%Z, 52%Z).
Proof. cbv zeta. split; vm_compute; reflexivity. Qed.

(* C11_no_word_lost on the example: the word "3" (score 3, weight 1/4); at s = 3 - d the p-value is
   exactly 1/4 *)
Example ex_no_word_lost :
  In [3%nat] (all_words (length ex_bg) (length ex_m)) /\ word_S ex_m [3%nat] = Some (3 + 0) /\
  match build QOps ex_m ex_bg with
  | Ok d => match d_pvalue QOps d (3 - (inject_Z 1 / 2 + 1) / 333) with Ok p => p == 1 # 4 | _ => False end
  | _ => False
  end.
Proof. split; [vm_compute; tauto|]. split; vm_compute; reflexivity. Qed.

(* the hypotheses of the binary64 table theorem: the uniform f32 background is inside [0,1]; the dimension
   bound is M <= 341 for DNA (K = 5, c = 3) and M <= 204 for proteins (K = 21, c = 5); and the theorem
   bites on the example matrix (its table has 1001 entries) *)
Example ex_binary64_hyps :
  f64_bg_ok (map f32_val bg_uniform32) = true /\
  (f64_dims_ok 5 341, f64_dims_ok 5 342, f64_dims_ok 21 204, f64_dims_ok 21 205) = (true, false, true, false) /\
  match f64_build (map (map f32_cell) [[0; 1065353216; 1073741824; 1077936128; ninf32]]%Z) (map f32_val bg_uniform32) with
  | Ok d => (f64_scale_pred d, length (d_sf d)) | _ => (false, 0%nat) end = (true, 1001%nat).
Proof. conj_all; vm_compute; reflexivity. Qed.

(* the scale part is not implied by the domain: a constant matrix with cells 2^60 (finite f32) is inside
   c11_in_scope, the construction answers, and its scale is +inf (large - 1.0 == large in binary64, so
   large - offset = 0): replayed on the real code by corpus line x1 *)
Example ex_scale_pred_not_derivable :
  let m := [[1568669696; 1568669696; 1568669696; 1568669696; ninf32]]%Z in
  c11_in_scope (map (map f32_val) m) (map f32_val bg_uniform32) = true /\
  match f64_build (map (map f32_cell) m) (map f32_val bg_uniform32) with
  | Ok d => (f64_scale_pred d, F64.to_bits (d_scale_f d)) | _ => (true, 0%Z) end = (false, 9218868437227405312%Z).
Proof. cbv zeta. split; vm_compute; reflexivity. Qed.

(* M = 0 and an all -inf row on the bit-exact model: Panic 1 (corpus e0, e1 replay the panic of the code) *)
Example ex_no_finite_cell :
  f64_build [] (map f32_val bg_uniform32) = Panic 1 /\
  f64_build (map (map f32_cell) [[ninf32; ninf32; ninf32; ninf32; ninf32]]) (map f32_val bg_uniform32) = Panic 1 /\
  c11_in_scope [] (map f32_val bg_uniform32) = false /\
  c11_in_scope (map (map f32_val) [[ninf32; ninf32; ninf32; ninf32; ninf32]]) (map f32_val bg_uniform32) = false.
Proof. conj_all; vm_compute; reflexivity. Qed.

(* failure kind 8 exists: a one-symbol alphabet whose only (wildcard) cell is -inf is inside c11_in_scope,
   the old checker answers "no failure" for any bracket probe, the strict one "cannot judge" *)
Example ex_strict_kind8 :
  let m := [[f32_val ninf32]] in let bg := [f32_val 1065353216] in
  c11_in_scope m bg = true /\
  check_C11_fails m bg [] [] [(f32_val 0, f32_val 0)] [] = [] /\
  check_C11_strict_fails false m bg [] [] [(f32_val 0, f32_val 0)] [] = [(8, 0)%nat].
Proof. cbv zeta. conj_all; vm_compute; reflexivity. Qed.

(* the tight bracket on the example (M = 1, scale 333, d = 1/333): pvalue(1) = 3/4 = P(S >= 1 - 1/333), above
   P(S >= 1 + 1/333) = 1/2 -- the upper bound is attained *)
Example ex_tight :
  tail_exact ex_m ex_bg (1 - (inject_Z 1 / 2 + (1 # 2)) / 333) == 3 # 4 /\
  tail_exact ex_m ex_bg (1 + (inject_Z 1 / 2 + (1 # 2)) / 333) == 1 # 2.
Proof. split; vm_compute; reflexivity. Qed.

(* f32_matrix_ok_any holds of the ordinary example matrix (cells 0,1,2,3,-inf), of the witness of the known
   finding and of a constant matrix of zeros (through f32_matrix_ok_const); it fails on the constant matrix 2^60
   and on a matrix with a NaN cell (2143289344) *)
Example ex_f32_matrix_ok :
  f32_matrix_ok [[0; 1065353216; 1073741824; 1077936128; ninf32]]%Z = true /\
  f32_matrix_ok_any [[1166016512; 1166016512; 1166016513; 1166016514; ninf32];
                     [1166016512; 1166016513; 1166016513; 1166016514; ninf32]]%Z = true /\
  (f32_matrix_ok [[0; 0; 0; 0; ninf32]]%Z, f32_matrix_ok_const [[0; 0; 0; 0; ninf32]]%Z) = (false, true) /\
  f32_matrix_ok_any [[1568669696; 1568669696; 1568669696; 1568669696; ninf32]]%Z = false /\
  f32_matrix_ok_any [[0; 2143289344; 1073741824; 1077936128; ninf32]]%Z = false.
Proof. conj_all; vm_compute; reflexivity. Qed.
