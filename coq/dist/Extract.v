(* Extraction of the executable model (binary64 instance), the exact rational
   specification and the checkers.  ExtrOcamlBasic only. *)
From Coq Require Import List ZArith QArith Extraction ExtrOcamlBasic.
From LMBase Require Import Res ListX IEEE.
From LMDist Require Import DistModel DistInst DistGridModel DistStrictModel.

Definition x_f64_of_bits := F64.of_bits.
Definition x_f64_to_bits := F64.to_bits.
Definition x_f32_of_bits := F32.of_bits.
Definition x_f32_to_bits := F32.to_bits.
Definition x_f64_of_f32 := F64.of_f32.
Definition x_f64_to_f32 := F64.to_f32.
Definition f64_le := F64.le.
Definition f64_is_nan := F64.is_nan.
Definition x_f64_is_finite := F64.is_finite.

Extraction Language OCaml.
Extraction "dist_model.ml"
  x_f64_of_bits x_f64_to_bits x_f32_of_bits x_f32_to_bits x_f64_of_f32 x_f64_to_f32 f64_le f64_is_nan x_f64_is_finite
  f64_build f64_build_fast f64_pvalue f64_score f64_scale f64_unscale_m f64_min_pvalue f64_roundtrip f64_sample
  f64_chk_table f64_chk_mono f64_chk_roundtrip
  f64_to_Q f32_to_Q f64_cell q_stage_a f64_ninf_agrees word_table tail_tab chk_bracket mass_defect
  f64_bsearch f64_index_exact f64_unscale_exact_on f64_roundtrip_pred f64_me common_k dy_cells at_k word_tableZ tail_tabZ tail_dy chk_bracket_dy chk_roundtrip_q
  check_C11_fails check_C11 check_C11_grid_fails check_C11_grid check_C11_red_fails c11_red conv_tableZ c11_in_scope c11_k c11_j c11_zc c11_zb c11_qm c11_delta
  check_C11_strict_fails c11_bracket_unjudged c11_has_finite_cell f64_bg_ok f64_dims_ok f64_scale_pred f32_matrix_ok f32_matrix_ok_any
  Qle_bool Qred.
