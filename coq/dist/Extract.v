(* Extraction of the executable model (binary64 instance), the exact rational
   specification and the checkers.  ExtrOcamlBasic only. *)
From Coq Require Import List ZArith QArith Extraction ExtrOcamlBasic.
From LMBase Require Import Res ListX IEEE.
From LMDist Require Import DistModel DistInst.

Definition f64_of_bits := F64.of_bits.
Definition f64_to_bits := F64.to_bits.
Definition f32_of_bits := F32.of_bits.
Definition f32_to_bits := F32.to_bits.
Definition f64_of_f32 := F64.of_f32.
Definition f64_to_f32 := F64.to_f32.
Definition f64_le := F64.le.
Definition f64_is_nan := F64.is_nan.

Extraction Language OCaml.
Extraction "dist_model.ml"
  f64_of_bits f64_to_bits f32_of_bits f32_to_bits f64_of_f32 f64_to_f32 f64_le f64_is_nan
  f64_build f64_pvalue f64_score f64_scale f64_unscale_m f64_min_pvalue f64_roundtrip
  f64_chk_table f64_chk_mono f64_chk_roundtrip
  f64_to_Q f32_to_Q f64_cell q_scale_offset word_table tail_tab chk_bracket mass_defect
  Qle_bool Qred.
