(* The bracket of C11 with the TIGHT half width d = (M/2 + 1/2) discretisation steps = (M+1)/2 steps:
   |D - y| <= M/2 for the word (C11_discretisation_error) and |round(t) - t| <= 1/2 for the probe.  For odd M
   this is the integer reading floor(M/2)+1 of the property text exactly, for even M it is half a step
   narrower; it implies DistStretch.pvalue_brackets_exact_Q (d = M/2 + 1), which is kept.  (Review round 3,
   C11 finding 5: the theorem was half a step wider than the text for odd M.)  Same proof, constants 1/2. *)
From Coq Require Import List ZArith QArith Qround Qabs Bool Arith Lia Lqa.
From LMBase Require Import Res ListX IEEE.
From LMDist Require Import DistModel DistInst DistProofs DistConv DistTail DistBuild DistThms DistDyadic DistStretch.
Import ListNotations.
Local Open Scope Q_scope.

Opaque cdf_range.

Theorem pvalue_brackets_tight_Q : forall m bg d offset scale s p,
  bg_nonneg bg -> Qsum bg <= 1 ->
  build QOps m bg = Ok d -> stage_a QOps m = Ok (offset, scale) ->
  (Z.of_nat (length m) * 1000 < i32_max)%Z ->
  d_pvalue QOps d s = Ok p ->
  let dd := (inject_Z (Z.of_nat (length m)) / 2 + (1 # 2)) / scale in
  tail_exact m bg (s + dd) <= p /\ p <= tail_exact m bg (s - dd).
Proof.
  intros m bg d offset scale s p Hbg Hm Hb Ha Hlen Hp dd.
  destruct (build_Q_table m bg d Hbg Hm Hb) as (Hlsf & Hsf & Hok & Hld & [Hmin0 Hminle] & Hminz).
  pose proof (sf_nonempty m bg d Hbg Hb) as Hne.
  apply build_Q_inv in Hb.
  destruct Hb as (offset' & scale' & pdf & Ha' & _ & Hdata & _ & _ & Hscf & Hdoff & Hrows).
  assert (offset' = offset /\ scale' = scale) as [Eo Es] by (rewrite Ha in Ha'; inversion Ha'; auto).
  rewrite Eo, Es in *. clear Eo Es Ha' offset' scale'.
  pose proof (stage_a_Q m offset scale Ha) as Hspec.
  pose proof (cells_ok_of_spec m offset scale Hspec) as Hcells.
  assert (0 < scale) as Hsc by (destruct Hspec as (_ & H0 & _); exact H0).
  pose proof (tails_coupled offset scale Hsc bg m Hbg Hcells) as [Hanti Hlo Hhi].
  assert (map (map (disc offset scale)) m = d_data d) as Edata by (rewrite Hdata; reflexivity).
  rewrite Edata in Hlo, Hhi.
  pose proof (tailD_facts bg (d_data d) Hbg Hok) as [HTanti HTnn HTlow HThigh]. rewrite Hld in HThigh.
  (* the scaled score *)
  rewrite (d_pvalue_idx QOps) in Hp by exact Hne.
  apply rbind_ok in Hp. destruct Hp as (r & Hr & Ep). inversion Ep; subst p. clear Ep.
  apply d_scale_Q_value in Hr. rename Hr into Er.
  set (Mq := inject_Z (Z.of_nat (length m))) in *.
  set (y := (s - Mq * offset) * scale).
  assert ((s - inject_Z (d_rows d) * d_offset d) * d_scale_f d == y) as Ey.
  { unfold y, Mq. rewrite Hrows, Hdoff, Hscf. reflexivity. }
  set (r0 := Qround_away ((s - inject_Z (d_rows d) * d_offset d) * d_scale_f d)) in *.
  destruct (Qround_away_err ((s - inject_Z (d_rows d) * d_offset d) * d_scale_f d)) as [Hr1 Hr2].
  fold r0 in Hr1, Hr2. rewrite Ey in Hr1, Hr2.
  assert (~ scale == 0) as Hnz by lra.
  assert (s + dd == (y + Mq * (1 # 2) + (1 # 2)) / scale + Mq * offset) as Esp by (unfold dd, y; field; exact Hnz).
  assert (s - dd == (y - Mq * (1 # 2) - (1 # 2)) / scale + Mq * offset) as Esm by (unfold dd, y; field; exact Hnz).
  assert (forall k, inject_Z k <= y + (1 # 2) -> tail_exact m bg (s + dd) <= tailD (d_data d) bg k) as Hlow.
  { intros k Hk. eapply Qle_trans; [|apply Hlo]. apply Hanti. rewrite Esp. unfold lo_arg. fold Mq.
    apply Qplus_le_l. apply Qdiv_le_compat; [exact Hsc|]. lra. }
  assert (forall k, y - (1 # 2) <= inject_Z k -> tailD (d_data d) bg k <= tail_exact m bg (s - dd)) as Hupp.
  { intros k Hk. eapply Qle_trans; [apply Hhi|]. apply Hanti. rewrite Esm. unfold hi_arg. fold Mq.
    apply Qplus_le_l. apply Qdiv_le_compat; [exact Hsc|]. lra. }
  assert (Z.of_nat (length (d_sf d)) = Z.of_nat (length m) * 1000 + 1)%Z as Hlz.
  { rewrite Hlsf. rewrite Nat2Z.inj_add, Nat2Z.inj_mul, cdf_range_Z. reflexivity. }
  assert (0 < length (d_sf d))%nat as Hlen0 by (destruct (d_sf d); [contradiction|cbn; lia]).
  unfold pv_idx. cbn [n_one n_zero QOps].
  destruct (r <? d_min d)%Z eqn:E1.
  - (* below the minimum: sf[0] = P(D >= 0) = P(D >= r + 1) *)
    apply Z.ltb_lt in E1.
    assert (nth 0 (d_sf d) 0 == tailD (d_data d) bg 0) as E0 by (apply (Hsf 0%nat Hlen0)).
    rewrite E0.
    assert (tailD (d_data d) bg (Z.max 0 (r + 1)) == tailD (d_data d) bg 0) as Eflat.
    { destruct (Z.lt_ge_cases r 0) as [Hneg|Hpos].
      - replace (Z.max 0 (r + 1)) with 0%Z by lia. reflexivity.
      - replace (Z.max 0 (r + 1)) with (Z.of_nat (Z.to_nat (r + 1))) by lia.
        apply tail_flat. intros j Hj. apply Hminz. lia. }
    split.
    + destruct (Z.lt_ge_cases r0 0) as [Hneg|Hpos].
      * eapply Qle_trans; [apply (Hlow r0); lra|]. rewrite (HTlow r0) by lia. rewrite (HTlow 0%Z) by lia. apply Qle_refl.
      * eapply Qle_trans; [apply (Hlow r0); lra|]. apply HTanti. exact Hpos.
    + rewrite <- Eflat. apply Hupp.
      assert (r0 <= r)%Z as Hr0.
      { rewrite Er. unfold clamp_i32, i32_min, i32_max in *. lia. }
      assert (inject_Z r0 <= inject_Z (Z.max 0 (r + 1))) by (rewrite <- Zle_Qle; lia). lra.
  - apply Z.ltb_ge in E1. rewrite as_usize_nonneg by lia.
    destruct (Z.of_nat (length (d_sf d)) <=? r)%Z eqn:E2.
    + (* above the table: 0.0 *)
      apply Z.leb_le in E2.
      assert (r <= r0)%Z as Hr0.
      { rewrite Er. unfold clamp_i32, i32_min, i32_max in *. rewrite Er in E2. unfold clamp_i32 in E2. lia. }
      split.
      * assert (tailD (d_data d) bg r == 0) as E by (apply HThigh; rewrite Nat2Z.inj_mul, cdf_range_Z; lia).
        rewrite <- E. apply Hlow.
        assert (inject_Z r <= inject_Z r0) by (rewrite <- Zle_Qle; exact Hr0). lra.
      * apply tail_exact_nonneg. exact Hbg.
    + (* inside the table *)
      apply Z.leb_gt in E2.
      assert (r = r0) as Err.
      { rewrite Er. apply clamp_i32_id. rewrite Er in E1, E2. unfold clamp_i32, i32_min, i32_max in *. lia. }
      assert (nth (Z.to_nat r) (d_sf d) 0 == tailD (d_data d) bg r) as Esf.
      { rewrite Hsf by lia. rewrite Z2Nat.id by lia. reflexivity. }
      rewrite Esf. rewrite Err. split; [apply Hlow; lra|apply Hupp; lra].
Qed.

(* the literal reading of the property text: d = (M/2 + 1) discretisation steps with the INTEGER quotient
   M/2 (floor): floor(M/2) + 1 >= (M+1)/2, and the exact tail is non-increasing *)
Corollary pvalue_brackets_integer_d_Q : forall m bg d offset scale s p,
  bg_nonneg bg -> Qsum bg <= 1 ->
  build QOps m bg = Ok d -> stage_a QOps m = Ok (offset, scale) ->
  (Z.of_nat (length m) * 1000 < i32_max)%Z ->
  d_pvalue QOps d s = Ok p ->
  let dd := inject_Z (Z.of_nat (length m) / 2 + 1) / scale in
  tail_exact m bg (s + dd) <= p /\ p <= tail_exact m bg (s - dd).
Proof.
  intros m bg d offset scale s p Hbg Hm Hb Ha Hlen Hp dd.
  destruct (pvalue_brackets_tight_Q m bg d offset scale s p Hbg Hm Hb Ha Hlen Hp) as [H1 H2].
  assert (0 < scale) as Hsc by (destruct (stage_a_Q m offset scale Ha) as (_ & H0 & _); exact H0).
  set (M := Z.of_nat (length m)) in *.
  assert ((inject_Z M / 2 + (1 # 2)) / scale <= dd) as Hd.
  { unfold dd. apply Qdiv_le_compat; [exact Hsc|].
    assert (M <= 2 * (M / 2) + 1)%Z as Hz by (pose proof (Z.div_mod M 2 ltac:(lia)); pose proof (Z.mod_pos_bound M 2 ltac:(lia)); lia).
    assert (inject_Z M <= 2 * inject_Z (M / 2) + 1) as Hq.
    { rewrite Zle_Qle in Hz. rewrite inject_Z_plus, inject_Z_mult in Hz. exact Hz. }
    rewrite inject_Z_plus. change (inject_Z 1) with 1.
    assert (inject_Z M / 2 == inject_Z M * (1 # 2)) as E2 by field. rewrite E2. lra. }
  pose proof (tail_exact_antitone m bg Hbg) as Hanti.
  split.
  - eapply Qle_trans; [|exact H1]. apply Hanti. lra.
  - eapply Qle_trans; [exact H2|]. apply Hanti. lra.
Qed.
