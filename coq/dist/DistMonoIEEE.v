(* p-values are non-increasing in the score in IEEE binary64 itself (not only over the rationals):
   scale(s) = round((s - w*offset) * scale) as i32 is monotone in s because every step is -- rounding
   to nearest is monotone, overflow goes to the infinity of the right sign, f64::round and the
   saturating cast are monotone -- and the table is non-increasing. *)
From Coq Require Import Reals ZArith List Bool Lia Lra.
From Flocq Require Import Core BinarySingleNaN.
From LMBase Require Import Res ListX IEEE.
From LMDist Require Import DistModel DistInst DistProofs DistCheckProofs DistIEEE.
Import ListNotations.
Local Open Scope R_scope.

Definition leF (a b : F64.t) : Prop := F64.le a b = true.
Definition pinf : F64.t := B754_infinity false.
Definition ninf : F64.t := B754_infinity true.
Definition EM : R := bpow radix2 1024.

Lemma leF_cases : forall a b, leF a b ->
  a = ninf \/ b = pinf \/ leR a b.
Proof.
  intros a b H. destruct (is_finite a) eqn:Fa; destruct (is_finite b) eqn:Fb.
  - right; right. apply cmp_leR; assumption.
  - destruct b as [sb|sb| |sb mb eb pb]; try discriminate.
    all: try (exfalso; destruct a as [sa|sa| |sa ma ea pa]; discriminate).
    destruct sb; [|right; left; reflexivity].
    exfalso. destruct a as [sa|sa| |sa ma ea pa]; try discriminate; destruct sa; discriminate.
  - destruct a as [sa|sa| |sa ma ea pa]; try discriminate.
    destruct sa; [left; reflexivity|].
    exfalso. destruct b as [sb|sb| |sb mb eb pb]; try discriminate; destruct sb; discriminate.
  - destruct a as [sa|sa| |sa ma ea pa]; try discriminate.
    destruct sa; [left; reflexivity|].
    destruct b as [sb|sb| |sb mb eb pb]; try discriminate. destruct sb; [discriminate|right; left; reflexivity].
Qed.

Definition nn (x : F64.t) : Prop := is_nan x = false.

Lemma leF_ninf : forall y, nn y -> leF ninf y.
Proof. intros y H. destruct y as [s|s| |s m e p]; try discriminate; try destruct s; reflexivity. Qed.

Lemma leF_pinf : forall x, nn x -> leF x pinf.
Proof. intros x H. destruct x as [s|s| |s m e p]; try discriminate; try destruct s; reflexivity. Qed.

Lemma leF_of_leR : forall a b, leR a b -> leF a b.
Proof.
  intros a b (Fa & Fb & H). unfold leF, F64.le, fle, fcmp. rewrite (Bcompare_correct _ _ a b Fa Fb).
  destruct (Rcompare_spec (B2R a) (B2R b)); try reflexivity. lra.
Qed.

Lemma leF_leP : forall a b, leF a b <-> f64_leP a b.
Proof. intros a b. unfold leF, f64_leP, le_n, F64.le, fle. cbn [n_cmp F64Ops]. unfold F64.cmp. tauto. Qed.

Lemma EM_pos : 0 < EM.
Proof. apply bpow_gt_0. Qed.

(* X is the float that represents the (already rounded) real r: r itself when it is below the
   overflow threshold, the infinity of its sign otherwise *)
Definition Repr (X : F64.t) (r : R) : Prop :=
  (Rabs r < EM /\ is_finite X = true /\ B2R X = r) \/ (EM <= r /\ X = pinf) \/ (r <= - EM /\ X = ninf).

Lemma Repr_nn : forall X r, Repr X r -> nn X.
Proof.
  intros X r [(_ & F & _)|[(_ & E)|(_ & E)]]; [apply finite_not_nan; exact F|subst; reflexivity|subst; reflexivity].
Qed.

Lemma Repr_mono : forall X Y rx ry, Repr X rx -> Repr Y ry -> rx <= ry -> leF X Y.
Proof.
  intros X Y rx ry HX HY Hle. pose proof EM_pos as Hpos.
  destruct HX as [(Ax & Fx & Ex)|[(Ax & Ex)|(Ax & Ex)]].
  - apply Rabs_def2 in Ax. destruct HY as [(Ay & Fy & Ey)|[(Ay & Ey)|(Ay & Ey)]].
    + apply leF_of_leR. repeat split; auto. lra.
    + subst Y. apply leF_pinf. apply finite_not_nan. exact Fx.
    + exfalso. lra.
  - subst X. destruct HY as [(Ay & Fy & Ey)|[(Ay & Ey)|(Ay & Ey)]].
    + apply Rabs_def2 in Ay. exfalso. lra.
    + subst Y. reflexivity.
    + exfalso. lra.
  - subst X. apply leF_ninf. apply (Repr_nn Y ry HY).
Qed.

Lemma overflow_inf : forall (X : F64.t) s, B2SF X = binary_overflow 53 1024 mode_NE s -> X = B754_infinity s.
Proof. intros X s H. apply B2SF_inj. rewrite H. reflexivity. Qed.

Lemma pos_sign_nonneg : forall x : F64.t, is_finite x = true -> Bsign x = false -> 0 <= B2R x.
Proof.
  intros x Hf Hs. destruct x as [s|s| |s m e pf]; simpl in *; try discriminate; try lra.
  subst s. apply F2R_ge_0. simpl. lia.
Qed.

Lemma pos_has_sign_false : forall x : F64.t, is_finite x = true -> 0 < B2R x -> Bsign x = false.
Proof.
  intros x Hf Hp. destruct (Bsign x) eqn:E; [|reflexivity]. pose proof (neg_sign_nonpos x Hf E). lra.
Qed.

Notation rnd64 := (round radix2 (SpecFloat.fexp 53 1024) (round_mode mode_NE)).

Lemma rnd64_le : forall x y, x <= y -> rnd64 x <= rnd64 y.
Proof. intros x y H. apply round_le; [apply fexp_correct; reflexivity|apply valid_rnd_N|exact H]. Qed.

Lemma rnd64_0 : rnd64 0 = 0.
Proof. apply round_0. apply valid_rnd_N. Qed.

Lemma Repr_of_round : forall (X : F64.t) r s,
  (if Rlt_bool (Rabs r) (bpow radix2 1024) then B2R X = r /\ is_finite X = true
   else B2SF X = binary_overflow 53 1024 mode_NE s /\ (s = true -> r <= 0) /\ (s = false -> 0 <= r)) ->
  Repr X r.
Proof.
  intros X r s H. destruct (Rlt_bool_spec (Rabs r) (bpow radix2 1024)) as [Hlt|Hge].
  - destruct H as [E F]. left. repeat split; assumption.
  - destruct H as (H & Hn & Hp). apply overflow_inf in H. destruct s.
    + right; right. specialize (Hn eq_refl). rewrite Rabs_left1 in Hge by exact Hn. split; [unfold EM; lra|exact H].
    + right; left. specialize (Hp eq_refl). rewrite Rabs_pos_eq in Hge by exact Hp. split; [exact Hge|exact H].
Qed.

(* ---------- x - c ---------- *)

Lemma sub_Repr : forall x c : F64.t, is_finite x = true -> is_finite c = true ->
  Repr (F64.sub x c) (rnd64 (B2R x - B2R c)).
Proof.
  intros x c Fx Fc. unfold F64.sub, fsub.
  pose proof (Bminus_correct 53 1024 _ _ mode_NE x c Fx Fc) as H.
  apply (Repr_of_round _ _ (Bsign x)).
  destruct (Rlt_bool _ _); [destruct H as (HR & HF & _); split; assumption|].
  destruct H as [HS Hsg]. split; [exact HS|]. split; intros Es.
  - rewrite Es in Hsg. assert (Bsign c = false) as Ec by (destruct (Bsign c); [discriminate|reflexivity]).
    pose proof (neg_sign_nonpos x Fx Es). pose proof (pos_sign_nonneg c Fc Ec).
    rewrite <- rnd64_0. apply rnd64_le. lra.
  - rewrite Es in Hsg. assert (Bsign c = true) as Ec by (destruct (Bsign c); [reflexivity|discriminate]).
    pose proof (pos_sign_nonneg x Fx Es). pose proof (neg_sign_nonpos c Fc Ec).
    rewrite <- rnd64_0. apply rnd64_le. lra.
Qed.

Lemma sub_nn : forall y c : F64.t, nn y -> is_finite c = true -> nn (F64.sub y c).
Proof.
  intros y c Hy Fc. destruct (is_finite y) eqn:Fy.
  - apply (Repr_nn _ _ (sub_Repr y c Fy Fc)).
  - destruct y as [s|s| |s m e p]; try discriminate. destruct c as [sc|sc| |sc mc ec pc]; try discriminate; reflexivity.
Qed.

Lemma sub_mono : forall x y c : F64.t, is_finite c = true -> leF x y -> leF (F64.sub x c) (F64.sub y c).
Proof.
  intros x y c Fc H.
  assert (nn x /\ nn y) as [Nx Ny].
  { unfold leF in H. split; [destruct x; try reflexivity; discriminate|].
    destruct y; try reflexivity. destruct x; discriminate. }
  destruct (leF_cases x y H) as [E|[E|(Fx & Fy & Hxy)]].
  - subst x. assert (F64.sub ninf c = ninf) as E by (destruct c as [sc|sc| |sc mc ec pc]; try discriminate; reflexivity).
    rewrite E. apply leF_ninf. apply sub_nn; assumption.
  - subst y. assert (F64.sub pinf c = pinf) as E by (destruct c as [sc|sc| |sc mc ec pc]; try discriminate; reflexivity).
    rewrite E. apply leF_pinf. apply sub_nn; assumption.
  - apply (Repr_mono _ _ _ _ (sub_Repr x c Fx Fc) (sub_Repr y c Fy Fc)). apply rnd64_le. lra.
Qed.

(* ---------- x * c, c finite and positive ---------- *)

Lemma mul_Repr : forall x c : F64.t, is_finite x = true -> is_finite c = true -> 0 < B2R c ->
  Repr (F64.mul x c) (rnd64 (B2R x * B2R c)).
Proof.
  intros x c Fx Fc Hc. unfold F64.mul, fmul.
  pose proof (Bmult_correct 53 1024 _ _ mode_NE x c) as H.
  pose proof (pos_has_sign_false c Fc Hc) as Ec.
  apply (Repr_of_round _ _ (Bsign x)).
  destruct (Rlt_bool _ _).
  - destruct H as (HR & HF & _). split; [exact HR|]. rewrite HF, Fx, Fc. reflexivity.
  - rewrite Ec, xorb_false_r in H. split; [exact H|]. split; intros Es.
    + pose proof (neg_sign_nonpos x Fx Es). rewrite <- rnd64_0. apply rnd64_le. nra.
    + pose proof (pos_sign_nonneg x Fx Es). rewrite <- rnd64_0. apply rnd64_le. nra.
Qed.

Lemma mul_inf : forall (c : F64.t) s, is_finite c = true -> 0 < B2R c -> F64.mul (B754_infinity s) c = B754_infinity s.
Proof.
  intros c s Fc Hc. pose proof (pos_has_sign_false c Fc Hc) as Ec.
  destruct c as [sc|sc| |sc mc ec pc]; try discriminate.
  - simpl in Hc. lra.
  - simpl in Ec. subst sc. destruct s; reflexivity.
Qed.

Lemma mul_nn : forall y c : F64.t, nn y -> is_finite c = true -> 0 < B2R c -> nn (F64.mul y c).
Proof.
  intros y c Hy Fc Hc. destruct (is_finite y) eqn:Fy.
  - apply (Repr_nn _ _ (mul_Repr y c Fy Fc Hc)).
  - destruct y as [s|s| |s m e p]; try discriminate. rewrite mul_inf by assumption. reflexivity.
Qed.

Lemma leF_nn : forall x y, leF x y -> nn x /\ nn y.
Proof.
  intros x y H. unfold leF in H. split; [destruct x; try reflexivity; discriminate|].
  destruct y; try reflexivity. destruct x; discriminate.
Qed.

Lemma mul_mono : forall x y c : F64.t, is_finite c = true -> 0 < B2R c -> leF x y -> leF (F64.mul x c) (F64.mul y c).
Proof.
  intros x y c Fc Hc H. destruct (leF_nn x y H) as [Nx Ny].
  destruct (leF_cases x y H) as [E|[E|(Fx & Fy & Hxy)]].
  - subst x. unfold ninf. rewrite mul_inf by assumption. apply leF_ninf. apply mul_nn; assumption.
  - subst y. unfold pinf. rewrite mul_inf by assumption. apply leF_pinf. apply mul_nn; assumption.
  - apply (Repr_mono _ _ _ _ (mul_Repr x c Fx Fc Hc) (mul_Repr y c Fy Fc Hc)). apply rnd64_le. nra.
Qed.

(* ---------- f64::round ---------- *)

Lemma round_nn : forall x : F64.t, nn x -> nn (F64.round x).
Proof.
  intros x Hx. destruct (is_finite x) eqn:Fx.
  - apply finite_not_nan. unfold F64.round, fround.
    rewrite (proj1 (proj2 (Bnearbyint_correct 53 1024 _ mode_NA x))). exact Fx.
  - destruct x as [s|s| |s m e p]; try discriminate. reflexivity.
Qed.

Lemma round_mono : forall x y : F64.t, leF x y -> leF (F64.round x) (F64.round y).
Proof.
  intros x y H. destruct (leF_nn x y H) as [Nx Ny].
  destruct (leF_cases x y H) as [E|[E|(Fx & Fy & Hxy)]].
  - subst x. change (F64.round ninf) with ninf. apply leF_ninf. apply round_nn. exact Ny.
  - subst y. change (F64.round pinf) with pinf. apply leF_pinf. apply round_nn. exact Nx.
  - apply leF_of_leR. unfold F64.round, fround.
    destruct (Bnearbyint_correct 53 1024 _ mode_NA x) as (Rx & Ffx & _).
    destruct (Bnearbyint_correct 53 1024 _ mode_NA y) as (Ry & Ffy & _).
    repeat split; [rewrite Ffx; exact Fx|rewrite Ffy; exact Fy|].
    rewrite Rx, Ry. apply round_le; [apply FIX_exp_valid|apply valid_rnd_round_mode|exact Hxy].
Qed.

(* ---------- as i32 ---------- *)

Lemma Btrunc_mono : forall x y : F64.t, B2R x <= B2R y -> (Btrunc x <= Btrunc y)%Z.
Proof.
  intros x y H. apply le_IZR. rewrite !(Btrunc_correct 53 1024 eq_refl).
  apply round_le; [apply FIX_exp_valid|apply valid_rnd_ZR|exact H].
Qed.

Lemma to_i32_bounds : forall x : F64.t, (-2147483648 <= F64.to_i32 x <= 2147483647)%Z.
Proof.
  intros x. unfold F64.to_i32, to_i32, cast_sat. destruct x as [s|s| |s m e p]; try destruct s; lia.
Qed.

Lemma to_i32_mono : forall x y : F64.t, leF x y -> (F64.to_i32 x <= F64.to_i32 y)%Z.
Proof.
  intros x y H. destruct (leF_cases x y H) as [E|[E|(Fx & Fy & Hxy)]].
  - subst x. change (F64.to_i32 ninf) with (-2147483648)%Z. apply to_i32_bounds.
  - subst y. change (F64.to_i32 pinf) with 2147483647%Z. apply to_i32_bounds.
  - pose proof (Btrunc_mono x y Hxy) as Ht. unfold F64.to_i32, to_i32, cast_sat, ftruncZ.
    destruct x as [sx|sx| |sx mx ex px]; try discriminate; destruct y as [sy|sy| |sy my ey py]; try discriminate; lia.
Qed.

(* ---------- scale(s) and the p-value ---------- *)

Lemma scale_mono_F64 : forall (d : dist F64.t) s1 s2 r1 r2,
  is_finite (d_wo F64Ops d) = true -> is_finite (d_scale_f d) = true -> 0 < B2R (d_scale_f d) ->
  leF s1 s2 -> d_scale F64Ops d s1 = Ok r1 -> d_scale F64Ops d s2 = Ok r2 -> (r1 <= r2)%Z.
Proof.
  intros d s1 s2 r1 r2 Fw Fs Hs H H1 H2. unfold d_scale in H1, H2. inversion H1; subst r1. inversion H2; subst r2.
  cbn [n_round_i32 n_mul n_sub F64Ops]. apply to_i32_mono. apply round_mono. apply mul_mono; try assumption.
  apply sub_mono; assumption.
Qed.

Lemma leF_trans : forall a b c, leF a b -> leF b c -> leF a c.
Proof.
  intros a b c H1 H2. destruct (leF_nn a b H1) as [Na Nb]. destruct (leF_nn b c H2) as [_ Nc].
  destruct (leF_cases a b H1) as [E|[E|Hab]].
  - subst a. apply leF_ninf. exact Nc.
  - subst b. destruct (leF_cases pinf c H2) as [E|[E|(F & _)]]; [discriminate| |discriminate].
    subst c. apply leF_pinf. exact Na.
  - destruct (leF_cases b c H2) as [E|[E|Hbc]].
    + subst b. destruct Hab as (_ & F & _). discriminate.
    + subst c. apply leF_pinf. exact Na.
    + apply leF_of_leR. exact (leR_trans a b c Hab Hbc).
Qed.

Lemma leF_refl : forall x, nn x -> leF x x.
Proof.
  intros x H. destruct (is_finite x) eqn:F.
  - apply leF_of_leR. repeat split; auto. lra.
  - destruct x as [s|s| |s m e p]; try discriminate. destruct s; reflexivity.
Qed.

Lemma f64_leP_trans : forall a b c, f64_leP a b -> f64_leP b c -> f64_leP a c.
Proof. intros a b c H1 H2. apply leF_leP. apply leF_leP in H1, H2. exact (leF_trans a b c H1 H2). Qed.

(* everything the theorem needs of a distribution object, as a computable predicate (evaluated on
   the model of a case by vm_compute in the Example, a function of the table, min_score, scale,
   offset and the number of rows only) *)
Definition f64_mono_pred (d : dist F64.t) : bool :=
  match f64_chk_table (d_sf d) with O => true | _ => false end &&
  (0 <=? d_min d)%Z &&
  match d_sf d with [] => false | _ => true end &&
  F64.is_finite (d_wo F64Ops d) && F64.is_finite (d_scale_f d) && F64.lt F64.zero (d_scale_f d).

Lemma f64_lt_zero_R : forall x : F64.t, F64.is_finite x = true -> F64.lt F64.zero x = true -> 0 < B2R x.
Proof.
  intros x Fs Hlt. unfold F64.lt, flt, fcmp in Hlt.
  rewrite (Bcompare_correct _ _ F64.zero x eq_refl Fs) in Hlt.
  change (B2R F64.zero) with 0 in Hlt. destruct (Rcompare_spec 0 (B2R x)); try discriminate. assumption.
Qed.

Theorem pvalue_monotone_F64 : forall (d : dist F64.t) s1 s2 p1 p2,
  f64_mono_pred d = true -> F64.le s1 s2 = true ->
  d_pvalue F64Ops d s1 = Ok p1 -> d_pvalue F64Ops d s2 = Ok p2 ->
  le_n F64Ops p2 p1 = true.
Proof.
  intros d s1 s2 p1 p2 Hp Hle H1 H2. unfold f64_mono_pred in Hp.
  repeat (apply andb_true_iff in Hp; destruct Hp as [Hp ?]).
  rename H into Hlt, H0 into Fs, H3 into Fw, H4 into Hne, H5 into Hmin.
  destruct (f64_chk_table (d_sf d)) eqn:Ec; [|discriminate].
  destruct (chk_table_sound F64Ops (d_sf d) Ec) as [Hn Hf].
  assert (d_sf d <> []) as Hne' by (destruct (d_sf d); [discriminate|discriminate]).
  apply Z.leb_le in Hmin.
  assert (0 < B2R (d_scale_f d)) as Hs.
  { unfold F64.lt, flt, fcmp in Hlt.
    rewrite (Bcompare_correct _ _ F64.zero (d_scale_f d) eq_refl Fs) in Hlt.
    change (B2R F64.zero) with 0 in Hlt. destruct (Rcompare_spec 0 (B2R (d_scale_f d))); try discriminate. assumption. }
  rewrite (d_pvalue_idx F64Ops) in H1, H2 by exact Hne'.
  apply rbind_ok in H1. destruct H1 as (r1 & Hr1 & E1). inversion E1; subst p1.
  apply rbind_ok in H2. destruct H2 as (r2 & Hr2 & E2). inversion E2; subst p2.
  pose proof (scale_mono_F64 d s1 s2 r1 r2 Fw Fs Hs Hle Hr1 Hr2) as Hr.
  apply (pv_idx_mono F64Ops f64_leP f64_leP_trans); auto.
  intros x Hx. apply leF_leP. apply leF_leP in Hx. apply leF_refl. exact (proj2 (leF_nn _ _ Hx)).
Qed.
