(* The exact tail P(S >= t) computed from the integer word table equals the
   specification [tail_exact] for a matrix of dyadic cells z / 2^k and dyadic
   background weights n / 2^j  (soundness of the bracket checker). *)
From Coq Require Import List ZArith QArith Qround Qabs Qfield Bool Arith Lia Lqa.
From LMBase Require Import Res ListX IEEE.
From LMDist Require Import DistModel DistInst DistProofs DistConv.
Import ListNotations.
Local Open Scope Q_scope.

(* ---------- floor / ceiling and integers ---------- *)

Lemma Qfloor_unique : forall x a, inject_Z a <= x -> x < inject_Z (a + 1) -> Qfloor x = a.
Proof.
  intros x a H1 H2. apply Z.le_antisymm.
  - assert (inject_Z (Qfloor x) < inject_Z (a + 1)) as H by (eapply Qle_lt_trans; [apply Qfloor_le|exact H2]).
    rewrite <- Zlt_Qlt in H. lia.
  - rewrite <- (Qfloor_Z a). apply Qfloor_resp_le. exact H1.
Qed.

Lemma Qfloor_plus_Z : forall x z, Qfloor (x + inject_Z z) = (Qfloor x + z)%Z.
Proof.
  intros x z. apply Qfloor_unique.
  - rewrite inject_Z_plus. pose proof (Qfloor_le x). lra.
  - pose proof (Qlt_floor x) as H. rewrite !inject_Z_plus in *. lra.
Qed.

Lemma Qceiling_minus_Z : forall x z, Qceiling (x - inject_Z z) = (Qceiling x - z)%Z.
Proof.
  intros x z. unfold Qceiling.
  assert (- (x - inject_Z z) == - x + inject_Z z) as E by ring.
  rewrite E, Qfloor_plus_Z. lia.
Qed.

Lemma Qceiling_le0 : forall x, (Qceiling x <=? 0)%Z = Qle_bool x 0.
Proof.
  intros x. destruct (Qle_bool x 0) eqn:E.
  - apply Qle_bool_true in E. apply Z.leb_le. unfold Qceiling.
    assert (0 <= Qfloor (- x))%Z by (apply Qfloor_nonneg; lra). lia.
  - apply Qle_bool_false in E. apply Z.leb_gt. unfold Qceiling.
    assert (Qfloor (- x) < 0)%Z; [|lia].
    assert (inject_Z (Qfloor (- x)) < inject_Z 0) as H by (eapply Qle_lt_trans; [apply Qfloor_le|change (inject_Z 0) with 0; lra]).
    rewrite <- Zlt_Qlt in H. exact H.
Qed.

(* ---------- sums over Z ---------- *)

Fixpoint Zsum (l : list Z) : Z := match l with [] => 0%Z | x :: r => (x + Zsum r)%Z end.

Lemma Zsum_app : forall a b, Zsum (a ++ b) = (Zsum a + Zsum b)%Z.
Proof. induction a as [|x a IH]; intros b; cbn [app Zsum]; [reflexivity|]. rewrite IH. lia. Qed.

Definition TZ (tab : list (Z * Z)) (thr : Z) : Z := tail_tabZ tab thr 0.

Lemma tail_tabZ_acc : forall tab thr acc, tail_tabZ tab thr acc = (acc + TZ tab thr)%Z.
Proof.
  unfold TZ. induction tab as [|[s p] r IH]; intros thr acc; cbn [tail_tabZ]; [lia|].
  rewrite IH. rewrite (IH thr (if (thr <=? s)%Z then (0 + p)%Z else 0%Z)).
  destruct (thr <=? s)%Z; lia.
Qed.

Lemma TZ_cons : forall s p r thr, TZ ((s, p) :: r) thr = ((if (thr <=? s)%Z then p else 0) + TZ r thr)%Z.
Proof.
  intros. unfold TZ at 1. cbn [tail_tabZ]. rewrite tail_tabZ_acc. destruct (thr <=? s)%Z; lia.
Qed.

Lemma TZ_app : forall a b thr, TZ (a ++ b) thr = (TZ a thr + TZ b thr)%Z.
Proof.
  induction a as [|[s p] a IH]; intros b thr; [reflexivity|].
  cbn [app]. rewrite !TZ_cons, IH. lia.
Qed.

Lemma TZ_shift : forall tab x b thr,
  TZ (map (fun sp : Z * Z => (fst sp + x, b * snd sp)%Z) tab) thr = (b * TZ tab (thr - x))%Z.
Proof.
  induction tab as [|[s p] r IH]; intros x b thr; [cbn; lia|].
  cbn [map fst snd]. rewrite !TZ_cons, IH.
  replace (thr <=? s + x)%Z with (thr - x <=? s)%Z by (apply Bool.eq_true_iff_eq; rewrite !Z.leb_le; lia).
  destruct (thr - x <=? s)%Z; lia.
Qed.

Definition stepZ_term (tab : list (Z * Z)) (thr : Z) (cb : option Z * Z) : Z :=
  match fst cb with Some x => (snd cb * TZ tab (thr - x))%Z | None => 0%Z end.

Lemma TZ_table_stepZ : forall bg tab row thr,
  TZ (table_stepZ bg tab row) thr = Zsum (map (stepZ_term tab thr) (combine row bg)).
Proof.
  intros bg tab row thr. unfold table_stepZ. induction (combine row bg) as [|[c b] l IH]; [reflexivity|].
  cbn [flat_map map Zsum]. rewrite TZ_app, IH. f_equal. unfold stepZ_term. cbn [fst snd].
  destruct c as [x|]; [|reflexivity]. destruct (b =? 0)%Z eqn:E.
  - apply Z.eqb_eq in E. subst b. cbn. reflexivity.
  - apply TZ_shift.
Qed.

(* ---------- the dyadic matrix ---------- *)

Lemma combine_map2 : forall (A B C D : Type) (f : A -> C) (g : B -> D) l1 l2,
  combine (map f l1) (map g l2) = map (fun ab => (f (fst ab), g (snd ab))) (combine l1 l2).
Proof.
  induction l1 as [|a l1 IH]; intros l2; [reflexivity|]. destruct l2 as [|b l2]; [reflexivity|].
  cbn. rewrite IH. reflexivity.
Qed.

Lemma pow2_pos : forall k, (0 < 2 ^ k)%Z \/ (k < 0)%Z.
Proof. intros k. destruct (Z.lt_ge_cases k 0); [right; lia|left; apply Z.pow_pos_nonneg; lia]. Qed.

Lemma inject_pow2_nz : forall k, (0 <= k)%Z -> ~ inject_Z (2 ^ k) == 0.
Proof.
  intros k Hk C. assert (0 < 2 ^ k)%Z as Hp by (apply Z.pow_pos_nonneg; lia).
  change 0 with (inject_Z 0) in C. rewrite inject_Z_injective in C. lia.
Qed.

Lemma Qsum_inject_Z : forall l, Qsum (map inject_Z l) == inject_Z (Zsum l).
Proof.
  induction l as [|x l IH]; cbn [map Qsum Zsum]; [reflexivity|]. rewrite IH, inject_Z_plus. reflexivity.
Qed.

Section Dyadic.
  Variables k j : Z.
  Hypothesis Hk : (0 <= k)%Z.
  Hypothesis Hj : (0 <= j)%Z.

  (* the invariant carried over the rows *)
  Definition Agree (n : nat) (F : Q -> Q) (tab : list (Z * Z)) : Prop :=
    forall t, F t == inject_Z (TZ tab (Qceiling (t * inject_Z (2 ^ k)))) / inject_Z (2 ^ (j * Z.of_nat n)).

  Lemma agree_base : Agree 0 base_tail [(0, 1)%Z].
  Proof.
    intros t. unfold base_tail. rewrite TZ_cons. change (TZ [] _) with 0%Z.
    rewrite Qceiling_le0.
    assert (Qle_bool (t * inject_Z (2 ^ k)) 0 = Qle_bool t 0) as E.
    { assert (0 < inject_Z (2 ^ k)) as Hp.
      { change 0 with (inject_Z 0). rewrite <- Zlt_Qlt. apply Z.pow_pos_nonneg; lia. }
      destruct (Qle_bool t 0) eqn:E1.
      - apply Qle_bool_true in E1. apply Qle_bool_iff.
        assert (t * inject_Z (2 ^ k) <= 0 * inject_Z (2 ^ k)) as Hm by (apply Qmult_le_compat_r; lra).
        rewrite Qmult_0_l in Hm. exact Hm.
      - apply Qle_bool_false in E1. destruct (Qle_bool (t * inject_Z (2 ^ k)) 0) eqn:E2; [|reflexivity].
        apply Qle_bool_true in E2. exfalso.
        assert (0 < t * inject_Z (2 ^ k)) by (apply Qmult_lt_0_compat; assumption). lra. }
    rewrite E. replace (j * Z.of_nat 0)%Z with 0%Z by lia. cbn [Z.pow].
    destruct (Qle_bool t 0); cbn; reflexivity.
  Qed.

  Lemma agree_step : forall n F tab rowz bgz,
    Agree n F tab ->
    Agree (S n) (tail_step (map (qweight j) bgz) F (map (qcell k) rowz)) (table_stepZ bgz tab rowz).
  Proof.
    intros n F tab rowz bgz HA t. unfold tail_step. rewrite combine_map2, map_map.
    rewrite TZ_table_stepZ. rewrite <- Qsum_inject_Z, map_map.
    set (D := inject_Z (2 ^ (j * Z.of_nat (S n)))).
    assert (~ D == 0) as HD by (apply inject_pow2_nz; lia).
    assert (D == inject_Z (2 ^ j) * inject_Z (2 ^ (j * Z.of_nat n))) as ED.
    { unfold D. replace (j * Z.of_nat (S n))%Z with (j + j * Z.of_nat n)%Z by lia.
      rewrite Z.pow_add_r by lia. rewrite inject_Z_mult. reflexivity. }
    pose proof (inject_pow2_nz j Hj) as Hj'. pose proof (inject_pow2_nz k Hk) as Hk'.
    pose proof (inject_pow2_nz (j * Z.of_nat n) ltac:(lia)) as Hjn.
    unfold Qdiv at 1. rewrite <- Qsum_map_scal. apply Qsum_map_ext. intros [c b] _. cbn [fst snd].
    unfold stepZ_term. cbn [fst snd]. destruct c as [x|]; cbn [qcell].
    - rewrite (HA (t - dy_value k x)). unfold dy_value, qweight.
      assert ((t - inject_Z x / inject_Z (2 ^ k)) * inject_Z (2 ^ k) == t * inject_Z (2 ^ k) - inject_Z x) as Et
        by (field; exact Hk').
      rewrite Et, Qceiling_minus_Z. rewrite inject_Z_mult. rewrite ED. field. split; assumption.
    - change (inject_Z 0) with 0. field. exact HD.
  Qed.

  Theorem tail_dyadic_correct : forall (cz : list (list (option Z))) (bgz : list Z) t,
    tail_exact (map (map (qcell k)) cz) (map (qweight j) bgz) t ==
    tail_dy (word_tableZ cz bgz) k j (Z.of_nat (length cz)) t.
  Proof.
    intros cz bgz. unfold tail_exact, word_tableZ, tail_dy.
    assert (forall n F tab, Agree n F tab ->
              Agree (n + length cz) (fold_left (tail_step (map (qweight j) bgz)) (map (map (qcell k)) cz) F)
                    (fold_left (table_stepZ bgz) cz tab)) as H.
    { induction cz as [|row r IH]; intros n F tab HA.
      - cbn [map fold_left length]. rewrite Nat.add_0_r. exact HA.
      - cbn [map fold_left length]. replace (n + S (length r))%nat with (S n + length r)%nat by lia.
        apply IH. apply agree_step. exact HA. }
    intros t. pose proof (H 0%nat base_tail [(0, 1)%Z] agree_base t) as Ht. cbn [Nat.add] in Ht.
    rewrite Ht. fold (TZ (fold_left (table_stepZ bgz) cz [(0%Z, 1%Z)]) (Qceiling (t * inject_Z (2 ^ k)))).
    reflexivity.
  Qed.
End Dyadic.

(* ---------- the dyadic matrix has exactly the values of the floats ---------- *)

Lemma fold_max_ge0 : forall (l : list (option (Z * Z))) a,
  (a <= fold_left (fun a o => match o with Some me => Z.max a (- snd me) | None => a end) l a)%Z.
Proof.
  induction l as [|o l IH]; intros a; cbn [fold_left]; [lia|].
  destruct o as [me|]; [|apply IH]. eapply Z.le_trans; [|apply IH]. lia.
Qed.

Lemma common_k_nonneg : forall l, (0 <= common_k l)%Z.
Proof. intros l. unfold common_k. apply fold_max_ge0. Qed.


Inductive cell_equiv : cell Q -> cell Q -> Prop :=
| ce_fin : forall x y, x == y -> cell_equiv (CFin x) (CFin y)
| ce_ninf : cell_equiv CNInf CNInf.

Lemma fold_max_elem : forall (l : list (option (Z * Z))) a me,
  In (Some me) l ->
  (- snd me <= fold_left (fun a o => match o with Some me => Z.max a (- snd me) | None => a end) l a)%Z.
Proof.
  induction l as [|o l IH]; intros a me Hin; [destruct Hin|]. cbn [fold_left].
  destruct Hin as [E|Hin].
  - subst o. eapply Z.le_trans; [|apply fold_max_ge0]. lia.
  - apply IH. exact Hin.
Qed.

Lemma common_k_elem : forall l me, In (Some me) l -> (- snd me <= common_k l)%Z.
Proof. intros l me H. unfold common_k. apply fold_max_elem. exact H. Qed.

Lemma bsn_value_dyadic : forall (prec emax : Z) (x : Flocq.IEEE754.BinarySingleNaN.binary_float prec emax) me k,
  bsn_me x = Some me -> (0 <= k)%Z -> (- snd me <= k)%Z ->
  bsn_to_Q x == dy_value k (at_k k me).
Proof.
  intros prec emax x me k Hme Hk Hke. unfold dy_value, at_k.
  pose proof (inject_pow2_nz k Hk) as Hk'.
  destruct x as [s| s | |s mm e pf]; cbn in Hme; try discriminate; inversion Hme; subst me; cbn [fst snd] in *.
  - cbn [bsn_to_Q]. rewrite Z.mul_0_l. change (inject_Z 0) with 0. field. exact Hk'.
  - cbn [bsn_to_Q]. set (z := Flocq.Core.Zaux.cond_Zopp s (Z.pos mm)) in *.
    destruct (0 <=? e)%Z eqn:Ee.
    + apply Z.leb_le in Ee. rewrite Z.pow_add_r by lia. rewrite Z.mul_assoc, !inject_Z_mult. field. exact Hk'.
    + apply Z.leb_gt in Ee. rewrite Qred_correct, Qmake_Qdiv.
      assert (0 < 2 ^ (- e))%Z as Hp by (apply Z.pow_pos_nonneg; lia).
      rewrite Z2Pos.id by exact Hp.
      assert (2 ^ k = 2 ^ (e + k) * 2 ^ (- e))%Z as E2.
      { rewrite <- Z.pow_add_r by lia. f_equal. lia. }
      rewrite E2. rewrite !inject_Z_mult.
      assert (~ inject_Z (2 ^ (e + k)) == 0) as H1 by (apply inject_pow2_nz; lia).
      assert (~ inject_Z (2 ^ (- e)) == 0) as H2 by (apply inject_pow2_nz; lia).
      field. split; assumption.
Qed.

Definition scope_cells (m : list (list F64.t)) : Prop :=
  forall row x, In row m -> In x row -> F64.is_finite x = true \/ F64.is_neg_inf x = true.

Lemma Forall2_map_same : forall (A B C : Type) (R : B -> C -> Prop) (f : A -> B) (g : A -> C) l,
  (forall x, In x l -> R (f x) (g x)) -> Forall2 R (map f l) (map g l).
Proof.
  induction l as [|x l IH]; intros H; cbn; constructor.
  - apply H. left. reflexivity.
  - apply IH. intros y Hy. apply H. right. exact Hy.
Qed.

Theorem dyadic_cells_values : forall m, scope_cells m ->
  Forall2 (Forall2 cell_equiv) (c11_qm m) (map (map f64_cell) m).
Proof.
  intros m Hs. unfold c11_qm, c11_zc, dy_cells. rewrite !map_map.
  apply Forall2_map_same. intros row Hrow. rewrite !map_map. apply Forall2_map_same. intros x Hx.
  destruct (Hs row x Hrow Hx) as [Hf|Hn].
  - assert (exists me, f64_me x = Some me) as [me Hme].
    { unfold f64_me, bsn_me. destruct x; try discriminate; eauto. }
    rewrite Hme. cbn [option_map qcell].
    assert (f64_cell x = CFin (f64_to_Q x)) as Ec by (unfold f64_cell; destruct x as [| [|] | |]; try reflexivity; discriminate).
    rewrite Ec. constructor. symmetry. apply bsn_value_dyadic; [exact Hme|apply common_k_nonneg|].
    apply common_k_elem. apply in_concat. exists (map f64_me row). split.
    + apply in_map_iff. exists row. split; [reflexivity|exact Hrow].
    + rewrite <- Hme. apply in_map. exact Hx.
  - destruct x as [| [|] | |]; try discriminate. cbn. constructor.
Qed.

Theorem dyadic_bg_values : forall bg, forallb F64.is_finite bg = true ->
  Forall2 Qeq (c11_qbg bg) (map f64_to_Q bg).
Proof.
  intros bg Hf. unfold c11_qbg, c11_zb. rewrite map_map. apply Forall2_map_same. intros x Hx.
  rewrite forallb_forall in Hf. specialize (Hf x Hx).
  assert (exists me, f64_me x = Some me) as [me Hme].
  { unfold f64_me, bsn_me. destruct x; try discriminate; eauto. }
  rewrite Hme. unfold qweight. symmetry.
  apply (bsn_value_dyadic _ _ x me (c11_j bg) Hme (common_k_nonneg _)).
  apply common_k_elem. rewrite <- Hme. apply in_map. exact Hx.
Qed.

Lemma in_scope_cells : forall m bg, c11_in_scope m bg = true ->
  scope_cells m /\ forallb F64.is_finite bg = true.
Proof.
  intros m bg H. unfold c11_in_scope in H. apply andb_true_iff in H. destruct H as [H Hbg].
  apply andb_true_iff in H. destruct H as [_ Hrows]. split; [|exact Hbg].
  intros row x Hrow Hx. rewrite forallb_forall in Hrows. specialize (Hrows row Hrow).
  unfold scope_row in Hrows. apply andb_true_iff in Hrows. destruct Hrows as [Hr Hlast].
  apply andb_true_iff in Hr. destruct Hr as [_ Hinit].
  destruct row as [|y r]; [destruct Hx|].
  rewrite (app_removelast_last F64.nan (l := y :: r)) in Hx by discriminate.
  apply in_app_or in Hx. destruct Hx as [Hx|[Hx|[]]].
  - left. rewrite forallb_forall in Hinit. apply Hinit, Hx.
  - subst x. apply orb_true_iff in Hlast. exact Hlast.
Qed.

Theorem dyadic_values : forall m bg, c11_in_scope m bg = true ->
  Forall2 (Forall2 cell_equiv) (c11_qm m) (map (map f64_cell) m) /\
  Forall2 Qeq (c11_qbg bg) (map f64_to_Q bg).
Proof.
  intros m bg H. destruct (in_scope_cells m bg H) as [Hc Hb].
  split; [apply dyadic_cells_values; exact Hc|apply dyadic_bg_values; exact Hb].
Qed.

(* ---------- tail_exact only depends on the values of cells and weights ---------- *)

Definition properQ (F : Q -> Q) : Prop := forall t t', t == t' -> F t == F t'.

Lemma base_tail_proper : properQ base_tail.
Proof.
  intros t t' E. unfold base_tail.
  destruct (Qle_bool t 0) eqn:E1; destruct (Qle_bool t' 0) eqn:E2; try reflexivity.
  - apply Qle_bool_true in E1. apply Qle_bool_false in E2. rewrite E in E1. lra.
  - apply Qle_bool_false in E1. apply Qle_bool_true in E2. rewrite E in E1. lra.
Qed.

Lemma tail_step_ext : forall F1 F2 t1 t2, properQ F2 -> (forall t, F1 t == F2 t) -> t1 == t2 ->
  forall r1 r2, Forall2 cell_equiv r1 r2 -> forall b1 b2, Forall2 Qeq b1 b2 ->
  tail_step b1 F1 r1 t1 == tail_step b2 F2 r2 t2.
Proof.
  intros F1 F2 t1 t2 HP HF Et r1 r2 Hr. unfold tail_step.
  induction Hr as [|c1 c2 r1 r2 Hc Hr IH]; intros b1 b2 Hb; [reflexivity|].
  inversion Hb as [|x1 x2 b1' b2' Hx Hb']; subst; [reflexivity|].
  cbn [combine map Qsum fst snd]. rewrite (IH _ _ Hb').
  inversion Hc as [x y Exy|]; subst; [|reflexivity].
  rewrite Hx, (HF (t1 - x)), (HP (t1 - x) (t2 - y)); [reflexivity|]. rewrite Et, Exy. reflexivity.
Qed.

Theorem tail_exact_ext : forall m1 m2 b1 b2,
  Forall2 (Forall2 cell_equiv) m1 m2 -> Forall2 Qeq b1 b2 ->
  forall t, tail_exact m1 b1 t == tail_exact m2 b2 t.
Proof.
  intros m1 m2 b1 b2 Hm Hb. unfold tail_exact.
  assert (forall F1 F2, properQ F1 -> properQ F2 -> (forall t, F1 t == F2 t) ->
            forall t, fold_left (tail_step b1) m1 F1 t == fold_left (tail_step b2) m2 F2 t) as H.
  { induction Hm as [|r1 r2 m1 m2 Hr Hm IH]; intros F1 F2 HP1 HP2 HF t; cbn [fold_left]; [apply HF|].
    assert (Forall2 Qeq b1 b1) as Hb1.
    { clear -Hb. induction Hb; constructor; [reflexivity|assumption]. }
    assert (Forall2 Qeq b2 b2) as Hb2.
    { clear -Hb. induction Hb; constructor; [reflexivity|assumption]. }
    assert (Forall2 cell_equiv r1 r1) as Hr1.
    { clear -Hr. induction Hr as [|c1 c2 ? ? Hc ? IH]; constructor; [|assumption].
      inversion Hc; constructor. reflexivity. }
    assert (Forall2 cell_equiv r2 r2) as Hr2.
    { clear -Hr. induction Hr as [|c1 c2 ? ? Hc ? IH]; constructor; [|assumption].
      inversion Hc; constructor. reflexivity. }
    apply IH.
    - intros u u' E. apply tail_step_ext; auto. intros; reflexivity.
    - intros u u' E. apply tail_step_ext; auto. intros; reflexivity.
    - intros u. apply tail_step_ext; auto. reflexivity. }
  apply H; [exact base_tail_proper|exact base_tail_proper|reflexivity].
Qed.

(* the checker's tails are those of the matrix of float values itself *)
Corollary c11_tail_values : forall m bg, c11_in_scope m bg = true ->
  forall t, tail_exact (c11_qm m) (c11_qbg bg) t == tail_exact (map (map f64_cell) m) (map f64_to_Q bg) t.
Proof.
  intros m bg H. destruct (dyadic_values m bg H) as [Hm Hb]. apply tail_exact_ext; assumption.
Qed.
