(* The pdf loop of dist.rs over exact rationals: every entry of the final buffer is the
   probability mass of the discretised score (pointwise characterisation of
   zip_add / add_symbol / add_symbols / row_step / pdf_rows / pdf_of). *)
From Coq Require Import List ZArith QArith Qround Qabs Bool Arith Lia Lqa.
From LMBase Require Import Res ListX.
From LMDist Require Import DistModel DistInst DistProofs.
Import ListNotations.
Local Open Scope Q_scope.

(* ---------- sums ---------- *)

Lemma Qsum_app : forall a b, Qsum (a ++ b) == Qsum a + Qsum b.
Proof. induction a as [|x a IH]; intros b; cbn; [ring|]. rewrite IH. ring. Qed.

Lemma Qsum_map_ext : forall (A : Type) (f g : A -> Q) l,
  (forall x, In x l -> f x == g x) -> Qsum (map f l) == Qsum (map g l).
Proof.
  induction l as [|x l IH]; intros H; cbn; [reflexivity|].
  rewrite (H x (or_introl eq_refl)), IH; [reflexivity|]. intros y Hy. apply H. right. exact Hy.
Qed.

Lemma Qsum_map_zero : forall (A : Type) (f : A -> Q) l,
  (forall x, In x l -> f x == 0) -> Qsum (map f l) == 0.
Proof.
  induction l as [|x l IH]; intros H; cbn; [reflexivity|].
  rewrite (H x (or_introl eq_refl)), IH; [ring|]. intros y Hy. apply H. right. exact Hy.
Qed.

Lemma Qsum_map_nonneg : forall (A : Type) (f : A -> Q) l,
  (forall x, In x l -> 0 <= f x) -> 0 <= Qsum (map f l).
Proof.
  induction l as [|x l IH]; intros H; cbn; [lra|].
  assert (0 <= f x) by (apply H; left; reflexivity).
  assert (0 <= Qsum (map f l)) by (apply IH; intros y Hy; apply H; right; exact Hy). lra.
Qed.

Lemma Qsum_map_le : forall (A : Type) (f g : A -> Q) l,
  (forall x, In x l -> f x <= g x) -> Qsum (map f l) <= Qsum (map g l).
Proof.
  induction l as [|x l IH]; intros H; cbn; [lra|].
  assert (f x <= g x) by (apply H; left; reflexivity).
  assert (Qsum (map f l) <= Qsum (map g l)) by (apply IH; intros y Hy; apply H; right; exact Hy). lra.
Qed.

Lemma Qsum_map_plus : forall (A : Type) (f g : A -> Q) l,
  Qsum (map (fun x => f x + g x) l) == Qsum (map f l) + Qsum (map g l).
Proof. induction l as [|x l IH]; cbn; [ring|]. rewrite IH. ring. Qed.

Lemma Qsum_map_minus : forall (A : Type) (f g : A -> Q) l,
  Qsum (map (fun x => f x - g x) l) == Qsum (map f l) - Qsum (map g l).
Proof. induction l as [|x l IH]; cbn; [ring|]. rewrite IH. ring. Qed.

Lemma Qsum_map_scal : forall (A : Type) (f : A -> Q) c l,
  Qsum (map (fun x => f x * c) l) == Qsum (map f l) * c.
Proof. induction l as [|x l IH]; intros; cbn; [ring|]. rewrite IH. ring. Qed.

(* ---------- Q facts about the carrier ---------- *)

Lemma nonzero_Q_false : forall o, nonzero QOps o = false -> o == 0.
Proof.
  intros o H. unfold nonzero, eqb_n in H. cbn in H.
  destruct (o ?= 0) eqn:E; cbn in H; try discriminate. apply Qeq_alt. exact E.
Qed.

Lemma gt0_Q : forall a, gt0 QOps a = true <-> 0 < a.
Proof.
  intros a. unfold gt0. cbn. rewrite Qgt_alt. destruct (a ?= 0); split; intros H; congruence.
Qed.

(* ---------- zip_add ---------- *)

Definition copt (c : list (option Q)) (j : nat) : Q :=
  match nth_error c j with Some (Some v) => v | _ => 0 end.

Lemma any_some_false_copt : forall (c : list (option Q)) j, any_some c = false -> copt c j = 0.
Proof.
  induction c as [|o c IH]; intros j H; unfold copt.
  - destruct j; reflexivity.
  - cbn in H. apply orb_false_iff in H. destruct H as [Ho Hc]. destruct j; cbn.
    + destruct o; [discriminate|reflexivity].
    + apply (IH j Hc).
Qed.

Lemma zip_add_nth : forall c new r,
  zip_add QOps c new = Ok r ->
  length r = length new /\ forall j, nth j r 0 == nth j new 0 + copt c j.
Proof.
  induction c as [|o c IH]; intros new r H.
  - cbn in H. inversion H; subst. split; [reflexivity|]. intros j. unfold copt. destruct j; cbn; ring.
  - destruct new as [|x n'].
    + cbn [zip_add] in H. destruct (any_some (o :: c)) eqn:E; [discriminate|]. inversion H; subst.
      split; [reflexivity|]. intros j. rewrite (any_some_false_copt _ j E). destruct j; cbn; ring.
    + cbn [zip_add] in H. apply rbind_ok in H. destruct H as (r' & Hz & Hr). inversion Hr; subst.
      destruct (IH _ _ Hz) as [Hl Hn]. split; [cbn; lia|].
      intros [|j].
      * unfold copt. cbn. destruct o; cbn; ring.
      * cbn [nth]. rewrite Hn. unfold copt. cbn. reflexivity.
Qed.

(* ---------- contributions of one symbol ---------- *)

Lemma copt_contrib : forall old maxk b j,
  copt (contrib QOps old maxk b) j == if (j <=? maxk)%nat then nth j old 0 * b else 0.
Proof.
  intros old maxk b j. unfold copt, contrib.
  rewrite nth_error_map.
  destruct (j <=? maxk)%nat eqn:E.
  - apply Nat.leb_le in E.
    destruct (nth_error (firstn (S maxk) old) j) as [o|] eqn:En; cbn.
    + assert (nth j old 0 = o) as Ho.
      { rewrite <- (firstn_skipn (S maxk) old).
        rewrite app_nth1 by (apply nth_error_Some; congruence).
        apply nth_error_nth. exact En. }
      rewrite Ho. destruct (nonzero QOps o) eqn:Enz; cbn; [reflexivity|].
      apply nonzero_Q_false in Enz. rewrite Enz. ring.
    + apply nth_error_None in En. rewrite firstn_length in En.
      rewrite nth_overflow by lia. ring.
  - apply Nat.leb_gt in E.
    assert (nth_error (firstn (S maxk) old) j = None) as En.
    { apply nth_error_None. rewrite firstn_length. lia. }
    rewrite En. reflexivity.
Qed.

(* term added to cell j by symbol (s, b) *)
Definition conv_term (old : list Q) (maxk : nat) (j : nat) (sb : Z * Q) : Q :=
  if (fst sb =? i32_min)%Z then 0
  else if ((Z.to_nat (fst sb) <=? j) && (j - Z.to_nat (fst sb) <=? maxk))%nat
       then nth (j - Z.to_nat (fst sb)) old 0 * snd sb else 0.

Definition cell_ok (len : nat) (s : Z) : Prop := s = i32_min \/ (0 <= s < Z.of_nat len)%Z.

Lemma add_symbol_nth : forall old maxk s b new new',
  cell_ok (length new) s ->
  add_symbol QOps old maxk s b new = Ok new' ->
  length new' = length new /\
  forall j, nth j new' 0 == nth j new 0 + conv_term old maxk j (s, b).
Proof.
  intros old maxk s b new new' Hok H. unfold add_symbol in H. unfold conv_term. cbn [fst snd].
  destruct (s =? i32_min)%Z eqn:Emin.
  - inversion H; subst. split; [reflexivity|]. intros j. ring.
  - destruct Hok as [Hok|Hok]; [apply Z.eqb_neq in Emin; contradiction|].
    assert ((s <? 0)%Z = false) as E1 by (apply Z.ltb_ge; lia).
    assert ((Z.of_nat (length new) <=? s)%Z = false) as E2 by (apply Z.leb_gt; lia).
    rewrite E1, E2 in H. cbn [orb] in H.
    apply rbind_ok in H. destruct H as (r & Hz & Hr). inversion Hr; subst. clear Hr.
    apply zip_add_nth in Hz. destruct Hz as [Hl Hn].
    set (sn := Z.to_nat s) in *.
    assert (sn < length new)%nat as Hsn by (unfold sn; lia).
    split.
    + rewrite app_length, Hl, firstn_length, skipn_length. lia.
    + intros j. destruct (sn <=? j)%nat eqn:Ej.
      * apply Nat.leb_le in Ej. rewrite app_nth2 by (rewrite firstn_length; lia).
        rewrite firstn_length, Nat.min_l by lia. rewrite Hn.
        rewrite copt_contrib. cbn [andb].
        assert (nth (j - sn) (skipn sn new) 0 = nth j new 0) as Hs.
        { rewrite <- (firstn_skipn sn new) at 2. rewrite app_nth2 by (rewrite firstn_length; lia).
          rewrite firstn_length, Nat.min_l by lia. reflexivity. }
        rewrite Hs. reflexivity.
      * apply Nat.leb_gt in Ej. rewrite app_nth1 by (rewrite firstn_length; lia).
        cbn [andb].
        assert (nth j (firstn sn new) 0 = nth j new 0) as Hs.
        { rewrite <- (firstn_skipn sn new) at 2. rewrite app_nth1 by (rewrite firstn_length; lia). reflexivity. }
        rewrite Hs. ring.
Qed.

Lemma add_symbols_nth : forall old maxk rowbg new new',
  Forall (fun sb => cell_ok (length new) (fst sb)) rowbg ->
  add_symbols QOps old maxk rowbg new = Ok new' ->
  length new' = length new /\
  forall j, nth j new' 0 == nth j new 0 + Qsum (map (conv_term old maxk j) rowbg).
Proof.
  intros old maxk rowbg. induction rowbg as [|[s b] r IH]; intros new new' Hok H.
  - cbn in H. inversion H; subst. split; [reflexivity|]. intros j. cbn. ring.
  - cbn [add_symbols] in H. apply rbind_ok in H. destruct H as (n1 & H1 & H2).
    inversion Hok as [|? ? Hs Hr]; subst. cbn [fst] in Hs.
    apply add_symbol_nth in H1; [|exact Hs]. destruct H1 as [Hl1 Hn1].
    apply IH in H2; [|rewrite Hl1; exact Hr]. destruct H2 as [Hl2 Hn2].
    split; [congruence|]. intros j. rewrite Hn2, Hn1. cbn [map Qsum]. ring.
Qed.

(* ---------- one row, all rows ---------- *)

Definition base_pmf (k : Z) : Q := if (k =? 0)%Z then 1 else 0.

(* P(D = k), by the same recursion as the code (first row first) *)
Definition pmf_of (data : list (list Z)) (bg : list Q) : Z -> Q :=
  fold_left (tailD_step bg) data base_pmf.

Definition row_ok (row : list Z) : Prop :=
  Forall (fun s => s = i32_min \/ (0 <= s <= Z.of_nat cdf_range)%Z) row.

Record Inv (size i : nat) (F : Z -> Q) (st : list Q * list Q) : Prop := {
  inv_lo : length (fst st) = size;
  inv_ln : length (snd st) = size;
  inv_new : forall j, (j < size)%nat -> nth j (snd st) 0 == F (Z.of_nat j);
  inv_sup : forall k, (k < 0 \/ Z.of_nat (i * cdf_range) < k)%Z -> F k == 0;
  inv_old : forall j, (i * cdf_range < j)%nat -> nth j (fst st) 0 == 0
}.

Lemma nth_skipn_Q : forall n (l : list Q) i, nth i (skipn n l) 0 = nth (n + i) l 0.
Proof.
  induction n as [|n IH]; intros l i; [reflexivity|].
  destruct l as [|x l]; [destruct i; reflexivity|]. cbn [skipn]. rewrite IH. reflexivity.
Qed.

Opaque cdf_range.

Lemma row_step_inv : forall bg size i F row st st',
  row_ok row -> Inv size i F st -> row_step QOps bg i row st = Ok st' ->
  Inv size (S i) (tailD_step bg F row) st'.
Proof.
  intros bg size i F row [pold pnew] st' Hrow [Hlo Hln Hnew Hsup Hold] H.
  cbn [fst snd] in *. unfold row_step in H. change (n_zero QOps) with 0 in H.
  set (maxk := (i * cdf_range)%nat) in *.
  set (n0 := (maxk + cdf_range + 1)%nat) in *.
  destruct (length pold <? n0)%nat eqn:En0; [discriminate|]. apply Nat.ltb_ge in En0.
  set (new0 := repeat 0 n0 ++ skipn n0 pold) in *.
  assert (length new0 = size) as Hl0.
  { unfold new0. rewrite app_length, repeat_length, skipn_length. lia. }
  apply rbind_ok in H. destruct H as (new' & Ha & Hst). inversion Hst; subst st'. clear Hst.
  assert (Forall (fun sb : Z * Q => cell_ok (length new0) (fst sb)) (combine row bg)) as Hok.
  { apply Forall_forall. intros [s b] Hin. cbn [fst]. apply in_combine_l in Hin.
    unfold row_ok in Hrow. rewrite Forall_forall in Hrow. destruct (Hrow s Hin) as [E|E]; [left; exact E|right].
    rewrite Hl0. unfold n0 in En0. lia. }
  apply add_symbols_nth in Ha; [|exact Hok]. destruct Ha as [Hl' Hn'].
  assert (forall j, nth j new0 0 == 0) as Hnew0.
  { intros j. unfold new0. destruct (Nat.lt_ge_cases j n0) as [Hj|Hj].
    - rewrite app_nth1 by (rewrite repeat_length; exact Hj). rewrite nth_repeat_lt by exact Hj. reflexivity.
    - rewrite app_nth2 by (rewrite repeat_length; exact Hj). rewrite repeat_length, nth_skipn_Q.
      replace (n0 + (j - n0))%nat with j by lia. apply Hold. unfold n0 in Hj. fold maxk. lia. }
  constructor; cbn [fst snd].
  - exact Hln.
  - rewrite Hl'. exact Hl0.
  - intros j Hj. rewrite (Hn' j), (Hnew0 j). unfold tailD_step. rewrite Qplus_0_l.
    apply Qsum_map_ext. intros [s b] Hin. unfold conv_term. cbn [fst snd].
    destruct (s =? i32_min)%Z eqn:Emin; [reflexivity|].
    apply in_combine_l in Hin. unfold row_ok in Hrow. rewrite Forall_forall in Hrow.
    destruct (Hrow s Hin) as [E|E]; [apply Z.eqb_neq in Emin; contradiction|].
    destruct ((Z.to_nat s <=? j) && (j - Z.to_nat s <=? maxk))%nat eqn:Ec.
    + apply andb_true_iff in Ec. destruct Ec as [E1 E2]. apply Nat.leb_le in E1, E2.
      rewrite Hnew by lia. replace (Z.of_nat (j - Z.to_nat s)) with (Z.of_nat j - s)%Z by lia. ring.
    + rewrite Hsup; [ring|]. apply andb_false_iff in Ec. destruct Ec as [Ec|Ec]; apply Nat.leb_gt in Ec.
      * left. lia.
      * right. fold maxk. lia.
  - intros k Hk. unfold tailD_step. apply Qsum_map_zero. intros [s b] Hin. cbn [fst snd].
    destruct (s =? i32_min)%Z eqn:Emin; [reflexivity|].
    apply in_combine_l in Hin. unfold row_ok in Hrow. rewrite Forall_forall in Hrow.
    destruct (Hrow s Hin) as [E|E]; [apply Z.eqb_neq in Emin; contradiction|].
    rewrite Hsup; [ring|]. destruct Hk as [Hk|Hk]; [left; lia|right]. fold maxk. lia.
  - intros j Hj. destruct (Nat.lt_ge_cases j size) as [Hjs|Hjs].
    + rewrite Hnew by exact Hjs. apply Hsup. right. lia.
    + rewrite nth_overflow by lia. reflexivity.
Qed.

Lemma pdf_rows_inv : forall bg size rows i F st st',
  Forall row_ok rows -> Inv size i F st -> pdf_rows QOps bg i rows st = Ok st' ->
  Inv size (i + length rows) (fold_left (tailD_step bg) rows F) st'.
Proof.
  intros bg size rows. induction rows as [|row r IH]; intros i F st st' Hrows Hinv H.
  - cbn in H. inversion H; subst. cbn [length fold_left]. rewrite Nat.add_0_r. exact Hinv.
  - cbn [pdf_rows] in H. apply rbind_ok in H. destruct H as (st1 & H1 & H2).
    inversion Hrows as [|? ? Hrow Hr]; subst.
    apply (row_step_inv _ _ _ _ _ _ _ Hrow Hinv) in H1.
    apply (IH _ _ _ _ Hr H1) in H2. cbn [length fold_left].
    replace (i + S (length r))%nat with (S i + length r)%nat by lia. exact H2.
Qed.

Theorem pdf_of_pointwise : forall bg data pdf,
  Forall row_ok data -> pdf_of QOps bg data = Ok pdf ->
  length pdf = (length data * cdf_range + 1)%nat /\
  (forall j, (j < length pdf)%nat -> nth j pdf 0 == pmf_of data bg (Z.of_nat j)) /\
  (forall k, (k < 0 \/ Z.of_nat (length data * cdf_range) < k)%Z -> pmf_of data bg k == 0).
Proof.
  intros bg data pdf Hrows H. unfold pdf_of in H. change (n_zero QOps) with 0 in H. change (n_one QOps) with 1 in H.
  set (size := (length data * cdf_range + 1)%nat) in *.
  apply rbind_ok in H. destruct H as (st & Hst & Hp). inversion Hp; subst pdf. clear Hp.
  assert (Inv size 0 base_pmf (repeat 0 size, 1 :: repeat 0 (size - 1))) as H0.
  { constructor; cbn [fst snd].
    - apply repeat_length.
    - cbn [length]. rewrite repeat_length. unfold size. lia.
    - intros j Hj. unfold base_pmf. destruct j; [reflexivity|]. cbn [nth].
      replace (Z.of_nat (S j) =? 0)%Z with false by (symmetry; apply Z.eqb_neq; lia).
      rewrite nth_repeat_lt by lia. reflexivity.
    - intros k Hk. unfold base_pmf. replace (k =? 0)%Z with false; [reflexivity|].
      symmetry. apply Z.eqb_neq. lia.
    - intros j Hj. destruct (Nat.lt_ge_cases j size) as [Hjs|Hjs].
      + rewrite nth_repeat_lt by exact Hjs. reflexivity.
      + rewrite nth_overflow by (rewrite repeat_length; lia). reflexivity. }
  apply (pdf_rows_inv _ _ _ _ _ _ _ Hrows H0) in Hst. destruct Hst as [Hlo Hln Hnew Hsup Hold].
  cbn [Nat.add] in *. fold (pmf_of data bg) in *.
  split; [exact Hln|]. split; [rewrite Hln; exact Hnew|exact Hsup].
Qed.
