(* The recursive specification [tail_exact] of P(S >= t) is the finite sum over all words
   weighted by the background ([tail_words]): the recursion over the rows is the law of
   total probability for independent symbols, nothing else. *)
From Coq Require Import List ZArith QArith Qround Qabs Bool Arith Lia Lqa.
From LMBase Require Import Res ListX IEEE.
From LMDist Require Import DistModel DistInst DistProofs DistConv DistDyadic.
Import ListNotations.
Local Open Scope Q_scope.

(* ---------- sums ---------- *)

Lemma Qsum_flat_map : forall (A : Type) (f : A -> list Q) l,
  Qsum (flat_map f l) == Qsum (map (fun a => Qsum (f a)) l).
Proof.
  induction l as [|a l IH]; cbn [flat_map map Qsum]; [reflexivity|]. rewrite Qsum_app, IH. reflexivity.
Qed.

Lemma Qsum_map_flat_map : forall (A B : Type) (g : B -> Q) (f : A -> list B) l,
  Qsum (map g (flat_map f l)) == Qsum (map (fun a => Qsum (map g (f a))) l).
Proof.
  induction l as [|a l IH]; cbn [flat_map map Qsum]; [reflexivity|]. rewrite map_app, Qsum_app, IH. reflexivity.
Qed.

Lemma Qsum_map_mult_l : forall (A : Type) (f : A -> Q) c l,
  Qsum (map (fun x => c * f x) l) == c * Qsum (map f l).
Proof. induction l as [|x l IH]; intros; cbn [map Qsum]; [ring|]. rewrite IH. ring. Qed.

Lemma Qsum_swap : forall (A B : Type) (f : A -> B -> Q) l1 l2,
  Qsum (map (fun a => Qsum (map (fun b => f a b) l2)) l1) ==
  Qsum (map (fun b => Qsum (map (fun a => f a b) l1)) l2).
Proof.
  intros A B f l1 l2. induction l1 as [|a l1 IH]; cbn [map Qsum].
  - symmetry. apply Qsum_map_zero. intros b _. reflexivity.
  - rewrite IH. rewrite <- Qsum_map_plus. reflexivity.
Qed.

(* ---------- the steps of the recursion commute ---------- *)

Definition step_term (F : Q -> Q) (t : Q) (cb : cell Q * Q) : Q :=
  match fst cb with CFin x => snd cb * F (t - x) | CNInf => 0 end.

Lemma tail_step_unfold : forall bg F row t,
  tail_step bg F row t = Qsum (map (step_term F t) (combine row bg)).
Proof. reflexivity. Qed.

Lemma tail_step_proper : forall bg F row, properQ F -> properQ (tail_step bg F row).
Proof.
  intros bg F row HF t t' E. rewrite !tail_step_unfold. apply Qsum_map_ext. intros [c b] _.
  unfold step_term. cbn [fst snd]. destruct c as [x|]; [|reflexivity].
  rewrite (HF (t - x) (t' - x)); [reflexivity|]. rewrite E. reflexivity.
Qed.

Lemma tail_step_pointwise : forall bg F G row, (forall t, F t == G t) ->
  forall t, tail_step bg F row t == tail_step bg G row t.
Proof.
  intros bg F G row H t. rewrite !tail_step_unfold. apply Qsum_map_ext. intros [c b] _.
  unfold step_term. cbn [fst snd]. destruct c; [rewrite H|]; reflexivity.
Qed.

Lemma fold_step_pointwise : forall bg rows F G, (forall t, F t == G t) ->
  forall t, fold_left (tail_step bg) rows F t == fold_left (tail_step bg) rows G t.
Proof.
  intros bg rows. induction rows as [|r rows IH]; intros F G H t; cbn [fold_left]; [apply H|].
  apply IH. apply tail_step_pointwise. exact H.
Qed.

Lemma tail_step_comm : forall bg F r1 r2, properQ F ->
  forall t, tail_step bg (tail_step bg F r1) r2 t == tail_step bg (tail_step bg F r2) r1 t.
Proof.
  intros bg F r1 r2 HF t. rewrite (tail_step_unfold bg _ r2), (tail_step_unfold bg _ r1).
  (* both sides: sum over (c2,b2) in r2 and (c1,b1) in r1 of b2 * b1 * F (t - x2 - x1) *)
  set (g := fun (cb2 cb1 : cell Q * Q) =>
              match fst cb2, fst cb1 with
              | CFin x2, CFin x1 => snd cb2 * (snd cb1 * F (t - x2 - x1))
              | _, _ => 0
              end).
  assert (Qsum (map (step_term (tail_step bg F r1) t) (combine r2 bg)) ==
          Qsum (map (fun cb2 => Qsum (map (fun cb1 => g cb2 cb1) (combine r1 bg))) (combine r2 bg))) as E1.
  { apply Qsum_map_ext. intros [c2 b2] _. unfold step_term, g. cbn [fst snd]. destruct c2 as [x2|].
    - rewrite tail_step_unfold, <- Qsum_map_mult_l. apply Qsum_map_ext. intros [c1 b1] _.
      unfold step_term. cbn [fst snd]. destruct c1; [reflexivity|ring].
    - symmetry. apply Qsum_map_zero. intros; reflexivity. }
  assert (Qsum (map (step_term (tail_step bg F r2) t) (combine r1 bg)) ==
          Qsum (map (fun cb1 => Qsum (map (fun cb2 => g cb2 cb1) (combine r2 bg))) (combine r1 bg))) as E2.
  { apply Qsum_map_ext. intros [c1 b1] _. unfold step_term, g. cbn [fst snd]. destruct c1 as [x1|].
    - rewrite tail_step_unfold, <- Qsum_map_mult_l. apply Qsum_map_ext. intros [c2 b2] _.
      unfold step_term. cbn [fst snd]. destruct c2 as [x2|]; [|ring].
      rewrite (HF (t - x1 - x2) (t - x2 - x1)) by ring. ring.
    - symmetry. apply Qsum_map_zero. intros [c2 b2] _. cbn [fst]. destruct c2; reflexivity. }
  rewrite E1, E2. apply Qsum_swap.
Qed.

Lemma fold_step_front : forall bg rows F row, properQ F ->
  forall t, fold_left (tail_step bg) rows (tail_step bg F row) t ==
            tail_step bg (fold_left (tail_step bg) rows F) row t.
Proof.
  intros bg rows. induction rows as [|r rows IH]; intros F row HF t; cbn [fold_left]; [reflexivity|].
  rewrite <- (IH (tail_step bg F r) row (tail_step_proper bg F r HF) t).
  apply fold_step_pointwise. intros u. apply tail_step_comm. exact HF.
Qed.

(* the recursion peels the first row as well as the last *)
Lemma tail_exact_cons : forall bg row m t,
  tail_exact (row :: m) bg t == tail_step bg (tail_exact m bg) row t.
Proof.
  intros bg row m t. unfold tail_exact. cbn [fold_left]. apply fold_step_front. exact base_tail_proper.
Qed.

(* ---------- words ---------- *)

Lemma combine_seq_nth : forall (row : list (cell Q)) (bg : list Q), length row = length bg ->
  combine row bg = map (fun a => (nth a row CNInf, nth a bg 0)) (seq 0 (length bg)).
Proof.
  induction row as [|c row IH]; intros bg H; destruct bg as [|b bg]; cbn [length] in H; try lia; [reflexivity|].
  cbn [combine length seq map nth]. f_equal. rewrite <- seq_shift, map_map. apply IH. lia.
Qed.

Lemma Qle_bool_shift : forall t x s, Qle_bool t (x + s) = Qle_bool (t - x) s.
Proof.
  intros t x s. destruct (Qle_bool (t - x) s) eqn:E.
  - apply Qle_bool_true in E. apply Qle_bool_iff. lra.
  - apply Qle_bool_false in E. destruct (Qle_bool t (x + s)) eqn:E2; [|reflexivity].
    apply Qle_bool_true in E2. lra.
Qed.

Theorem tail_exact_is_word_sum : forall m bg t,
  Forall (fun row : list (cell Q) => length row = length bg) m ->
  tail_exact m bg t == tail_words m bg t.
Proof.
  induction m as [|row m IH]; intros bg t Hlen.
  - unfold tail_exact, tail_words, word_term. cbn. unfold base_tail. destruct (Qle_bool t 0); ring.
  - inversion Hlen as [|? ? Hrow Hm]; subst.
    rewrite tail_exact_cons, tail_step_unfold. unfold tail_words. cbn [length all_words].
    rewrite Qsum_map_flat_map, (combine_seq_nth row bg Hrow), !map_map.
    apply Qsum_map_ext. intros a Ha. apply in_seq in Ha. rewrite map_map.
    unfold step_term. cbn [fst snd].
    assert (nth_error row a = Some (nth a row CNInf)) as En by (apply nth_error_nth'; lia).
    destruct (nth a row CNInf) as [x|] eqn:Ec.
    + rewrite (IH bg (t - x) Hm). unfold tail_words. rewrite <- Qsum_map_mult_l.
      apply Qsum_map_ext. intros w _. unfold word_term. cbn [word_S word_weight]. rewrite En.
      destruct (word_S m w) as [s|]; cbn [option_map]; [|ring].
      rewrite Qle_bool_shift. destruct (Qle_bool (t - x) s); ring.
    + symmetry. apply Qsum_map_zero. intros w _. unfold word_term. cbn [word_S]. rewrite En. reflexivity.
Qed.

(* ====================================================================== *)
(* the same for the discretised score: tailD is the sum over all words     *)
(* ====================================================================== *)

Definition stepD_term (F : Z -> Q) (k : Z) (sb : Z * Q) : Q :=
  if (fst sb =? i32_min)%Z then 0 else snd sb * F (k - fst sb)%Z.

Lemma tailD_step_unfold : forall bg F row k,
  tailD_step bg F row k = Qsum (map (stepD_term F k) (combine row bg)).
Proof. reflexivity. Qed.

Lemma tailD_step_pointwise : forall bg F G row, (forall k, F k == G k) ->
  forall k, tailD_step bg F row k == tailD_step bg G row k.
Proof.
  intros bg F G row H k. rewrite !tailD_step_unfold. apply Qsum_map_ext. intros [s b] _.
  unfold stepD_term. cbn [fst snd]. destruct (s =? i32_min)%Z; [reflexivity|rewrite H; reflexivity].
Qed.

Lemma foldD_pointwise : forall bg rows F G, (forall k, F k == G k) ->
  forall k, fold_left (tailD_step bg) rows F k == fold_left (tailD_step bg) rows G k.
Proof.
  intros bg rows. induction rows as [|r rows IH]; intros F G H k; cbn [fold_left]; [apply H|].
  apply IH. apply tailD_step_pointwise. exact H.
Qed.

Lemma tailD_step_comm : forall bg F r1 r2,
  forall k, tailD_step bg (tailD_step bg F r1) r2 k == tailD_step bg (tailD_step bg F r2) r1 k.
Proof.
  intros bg F r1 r2 k. rewrite (tailD_step_unfold bg _ r2), (tailD_step_unfold bg _ r1).
  set (g := fun (sb2 sb1 : Z * Q) =>
              if (fst sb2 =? i32_min)%Z then 0 else if (fst sb1 =? i32_min)%Z then 0
              else snd sb2 * (snd sb1 * F (k - fst sb2 - fst sb1)%Z)).
  assert (Qsum (map (stepD_term (tailD_step bg F r1) k) (combine r2 bg)) ==
          Qsum (map (fun sb2 => Qsum (map (fun sb1 => g sb2 sb1) (combine r1 bg))) (combine r2 bg))) as E1.
  { apply Qsum_map_ext. intros [s2 b2] _. unfold stepD_term, g. cbn [fst snd].
    destruct (s2 =? i32_min)%Z.
    - symmetry. apply Qsum_map_zero. intros; reflexivity.
    - rewrite tailD_step_unfold, <- Qsum_map_mult_l. apply Qsum_map_ext. intros [s1 b1] _.
      unfold stepD_term. cbn [fst snd]. destruct (s1 =? i32_min)%Z; [ring|reflexivity]. }
  assert (Qsum (map (stepD_term (tailD_step bg F r2) k) (combine r1 bg)) ==
          Qsum (map (fun sb1 => Qsum (map (fun sb2 => g sb2 sb1) (combine r2 bg))) (combine r1 bg))) as E2.
  { apply Qsum_map_ext. intros [s1 b1] _. unfold stepD_term, g. cbn [fst snd].
    destruct (s1 =? i32_min)%Z.
    - symmetry. apply Qsum_map_zero. intros [s2 b2] _. cbn [fst]. destruct (s2 =? i32_min)%Z; reflexivity.
    - rewrite tailD_step_unfold, <- Qsum_map_mult_l. apply Qsum_map_ext. intros [s2 b2] _.
      unfold stepD_term. cbn [fst snd]. destruct (s2 =? i32_min)%Z; [ring|].
      replace (k - s1 - s2)%Z with (k - s2 - s1)%Z by lia. ring. }
  rewrite E1, E2. apply Qsum_swap.
Qed.

Lemma foldD_front : forall bg rows F row,
  forall k, fold_left (tailD_step bg) rows (tailD_step bg F row) k ==
            tailD_step bg (fold_left (tailD_step bg) rows F) row k.
Proof.
  intros bg rows. induction rows as [|r rows IH]; intros F row k; cbn [fold_left]; [reflexivity|].
  rewrite <- (IH (tailD_step bg F r) row k).
  apply foldD_pointwise. intros u. apply tailD_step_comm.
Qed.

Lemma tailD_cons : forall bg row data k,
  tailD (row :: data) bg k == tailD_step bg (tailD data bg) row k.
Proof. intros bg row data k. unfold tailD. cbn [fold_left]. apply foldD_front. Qed.

Lemma combine_seq_nthZ : forall (row : list Z) (bg : list Q), length row = length bg ->
  combine row bg = map (fun a => (nth a row 0%Z, nth a bg 0)) (seq 0 (length bg)).
Proof.
  induction row as [|c row IH]; intros bg H; destruct bg as [|b bg]; cbn [length] in H; try lia; [reflexivity|].
  cbn [combine length seq map nth]. f_equal. rewrite <- seq_shift, map_map. apply IH. lia.
Qed.

Theorem tailD_is_word_sum : forall data bg k,
  Forall (fun row : list Z => length row = length bg) data ->
  tailD data bg k == tailD_words data bg k.
Proof.
  induction data as [|row data IH]; intros bg k Hlen.
  - unfold tailD, tailD_words, word_termD. cbn. unfold base_tailD. destruct (k <=? 0)%Z; ring.
  - inversion Hlen as [|? ? Hrow Hd]; subst.
    rewrite tailD_cons, tailD_step_unfold. unfold tailD_words. cbn [length all_words].
    rewrite Qsum_map_flat_map, (combine_seq_nthZ row bg Hrow), !map_map.
    apply Qsum_map_ext. intros a Ha. apply in_seq in Ha. rewrite map_map.
    unfold stepD_term. cbn [fst snd].
    assert (nth_error row a = Some (nth a row 0%Z)) as En by (apply nth_error_nth'; lia).
    destruct (nth a row 0 =? i32_min)%Z eqn:Emin.
    + symmetry. apply Qsum_map_zero. intros w _. unfold word_termD. cbn [word_D]. rewrite En, Emin. reflexivity.
    + rewrite (IH bg (k - nth a row 0)%Z Hd). unfold tailD_words. rewrite <- Qsum_map_mult_l.
      apply Qsum_map_ext. intros w _. unfold word_termD. cbn [word_D word_weight]. rewrite En, Emin.
      destruct (word_D data w) as [d|]; cbn [option_map]; [|ring].
      replace (k <=? nth a row 0 + d)%Z with (k - nth a row 0 <=? d)%Z
        by (apply Bool.eq_true_iff_eq; rewrite !Z.leb_le; lia).
      destruct (k - nth a row 0 <=? d)%Z; ring.
Qed.
