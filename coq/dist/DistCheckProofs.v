(* Soundness of the executable checker [check_C11]: when it accepts the observations of a
   case inside the property's domain, the observed table is non-increasing with values in
   [0,1] (IEEE order), every bracket-checked p-value lies between the exact tails
   P(S >= s + d) and P(S >= s - d) of the specification [tail_exact] (up to the stated
   tolerances), the observed p-values are non-increasing in the score and no observed round
   trip yields a larger p-value. *)
From Coq Require Import List ZArith QArith Qround Qabs Bool Arith Lia Lqa.
From LMBase Require Import Res ListX IEEE.
From LMDist Require Import DistModel DistInst DistProofs DistConv DistDyadic.
Import ListNotations.
Local Open Scope Q_scope.

Definition f64_leP (a b : F64.t) : Prop := le_n F64Ops a b = true.

Section TableSound.
  Context {T : Type} (N : NumOps T).
  Let leP (a b : T) : Prop := leb_n N a b = true.

  Lemma chk_table_sound : forall sf, chk_table N sf = 0%nat -> noninc leP sf /\ Forall (in01 N leP) sf.
  Proof.
    induction sf as [|x r IH]; intros H; [split; [exact I|constructor]|].
    cbn [chk_table] in H.
    destruct (leb_n N (n_zero N) x && leb_n N x (n_one N)) eqn:E; cbn [negb] in H; [|discriminate].
    apply andb_true_iff in E. destruct E as [E0 E1].
    destruct r as [|y r'].
    - split; [exact I|]. constructor; [split; assumption|constructor].
    - destruct (leb_n N y x) eqn:Eyx; [|discriminate]. destruct (IH H) as [Hn Hf].
      split; [split; assumption|]. constructor; [split; assumption|exact Hf].
  Qed.
End TableSound.

Lemma index_fails_nil : forall codes i, c11_index_fails i codes = [] -> forall c, In c codes -> c = 0%nat.
Proof.
  induction codes as [|c0 r IH]; intros i H c Hin; [destruct Hin|].
  cbn [c11_index_fails] in H. destruct c0; [|discriminate].
  destruct Hin as [E|Hin]; [symmetry; exact E|]. eapply IH; eauto.
Qed.

(* ---------- what the checker establishes ---------- *)

Definition Holds_table (sf : list F64.t) : Prop :=
  noninc f64_leP sf /\ Forall (in01 F64Ops f64_leP) sf.

Definition Holds_brackets (m : list (list F64.t)) (bg : list F64.t) (br : list (F64.t * F64.t)) : Prop :=
  forall off scale, stage_a QOps (c11_qm m) = Ok (off, scale) -> 0 < scale ->
  forall s p, In (s, p) br ->
    F64.is_finite s = true /\ F64.is_finite p = true /\
    let d := (inject_Z (Z.of_nat (length m)) / 2 + 1) / scale in
    let T := tail_exact (c11_qm m) (c11_qbg bg) in
    T (f64_to_Q s + d) * (1 - eps30) - c11_delta m bg <= f64_to_Q p /\
    f64_to_Q p <= T (f64_to_Q s - d) * (1 + eps30) + c11_delta m bg.

Definition Holds_mono (pv : list (F64.t * F64.t)) : Prop :=
  forall a b, In a pv -> In b pv -> f64_leP (fst a) (fst b) -> f64_leP (snd b) (snd a).

Definition Holds_roundtrip (m : list (list F64.t)) (bg : list F64.t) (rt : list (F64.t * F64.t)) : Prop :=
  forall p r, In (p, r) rt -> in_open01 F64Ops p = true ->
    f64_leP r p \/ f64_to_Q r <= f64_to_Q p * (1 + eps30) + c11_delta m bg.

Definition Holds_C11 (m : list (list F64.t)) (bg : list F64.t) (sf : list F64.t)
    (pv br rt : list (F64.t * F64.t)) : Prop :=
  c11_in_scope m bg = true ->
  Holds_table sf /\ Holds_brackets m bg br /\ Holds_mono pv /\ Holds_roundtrip m bg rt.

Lemma bracket_fails_sound : forall m bg br, c11_bracket_fails m bg br = [] -> Holds_brackets m bg br.
Proof.
  intros m bg br H off scale Ha Hsc s p Hin. unfold c11_bracket_fails in H.
  destruct br as [|b0 br']; [destruct Hin|]. set (br := b0 :: br') in *.
  unfold q_stage_a in H. rewrite Ha in H.
  destruct (Qle_bool scale 0) eqn:E; [apply Qle_bool_true in E; lra|].
  pose proof (index_fails_nil _ _ H) as Hall.
  specialize (Hall (c11_bracket_one (word_tableZ (c11_zc m) (c11_zb bg)) (c11_k m) (c11_j bg) scale
                      (Z.of_nat (length m)) (c11_delta m bg) (s, p))).
  specialize (Hall (in_map _ _ _ Hin)). unfold c11_bracket_one in Hall. cbn [fst snd] in Hall.
  destruct (F64.is_finite s); [|discriminate]. destruct (F64.is_finite p); [|discriminate].
  cbn [andb] in Hall. split; [reflexivity|]. split; [reflexivity|].
  unfold chk_bracket_dy in Hall. cbv zeta.
  assert (length (c11_zc m) = length m) as Hlen by (unfold c11_zc, dy_cells; rewrite !map_length; reflexivity).
  pose proof (tail_dyadic_correct (c11_k m) (c11_j bg) (common_k_nonneg _) (common_k_nonneg _) (c11_zc m) (c11_zb bg)) as HT.
  rewrite Hlen in HT. fold (c11_qm m) in HT. fold (c11_qbg bg) in HT.
  set (d := (inject_Z (Z.of_nat (length m)) / 2 + 1) / scale) in *.
  destruct (Qle_bool _ _) eqn:E1 in Hall; [|discriminate].
  destruct (Qle_bool _ _) eqn:E2 in Hall; [|discriminate].
  apply Qle_bool_true in E1, E2. rewrite <- !HT in E1, E2. split; assumption.
Qed.

Lemma chk_mono_sound : forall pv, f64_chk_mono pv = true -> Holds_mono pv.
Proof.
  intros pv H a b Ha Hb Hab. unfold f64_chk_mono, chk_mono in H. rewrite forallb_forall in H.
  specialize (H a Ha). rewrite forallb_forall in H. specialize (H b Hb).
  unfold chk_mono_pair in H. unfold f64_leP in *. unfold leb_n in H. rewrite Hab in H. exact H.
Qed.

Lemma rt_fails_sound : forall m bg rt,
  c11_index_fails 0 (map (c11_rt_one (c11_delta m bg)) rt) = [] -> Holds_roundtrip m bg rt.
Proof.
  intros m bg rt H p r Hin Hp. pose proof (index_fails_nil _ _ H) as Hall.
  specialize (Hall _ (in_map (c11_rt_one (c11_delta m bg)) _ _ Hin)).
  unfold c11_rt_one in Hall. cbn [fst snd] in Hall. rewrite Hp in Hall.
  destruct (leb_n F64Ops r p) eqn:E1; [left; exact E1|right].
  destruct (F64.is_finite r && Qle_bool (f64_to_Q r) (f64_to_Q p * (1 + eps30) + c11_delta m bg)) eqn:E2; [|discriminate].
  apply andb_true_iff in E2. destruct E2 as [_ E2]. apply Qle_bool_true in E2. exact E2.
Qed.

Theorem check_C11_sound_lemma : forall m bg sf pv br rt,
  check_C11 m bg sf pv br rt = true -> Holds_C11 m bg sf pv br rt.
Proof.
  intros m bg sf pv br rt H Hscope. unfold check_C11, check_C11_fails in H. rewrite Hscope in H.
  destruct (c11_table_fails sf ++ c11_bracket_fails m bg br ++
            (if f64_chk_mono pv then [] else [(6%nat, 0%nat)]) ++
            c11_index_fails 0 (map (c11_rt_one (c11_delta m bg)) rt)) eqn:E; [|discriminate].
  apply app_eq_nil in E. destruct E as [Et E]. apply app_eq_nil in E. destruct E as [Eb E].
  apply app_eq_nil in E. destruct E as [Em Er].
  split; [|split; [|split]].
  - unfold c11_table_fails in Et. unfold Holds_table.
    destruct (f64_chk_table sf) as [|[|n]] eqn:Ec; try discriminate. apply (chk_table_sound F64Ops). exact Ec.
  - apply bracket_fails_sound. exact Eb.
  - apply chk_mono_sound. destruct (f64_chk_mono pv); [reflexivity|discriminate].
  - apply rt_fails_sound. exact Er.
Qed.
