(* max_score, min_pvalue and the top of the table, over exact rationals:
   max_score is the largest discretised score of positive probability, min_pvalue = sf[max_score]
   is the total weight of the words reaching it, p-values are positive exactly up to max_score,
   and score(p) for 0 < p < min_pvalue lies above unscale(max_score) with p-value 0. *)
From Coq Require Import List ZArith QArith Qround Qabs Bool Arith Lia Lqa.
From LMBase Require Import Res ListX.
From LMDist Require Import DistModel DistInst DistProofs DistConv DistTail DistBuild DistThms DistStretch DistWords.
Import ListNotations.
Local Open Scope Q_scope.

Opaque cdf_range.

(* what is known about max_score when the loop stands at index i *)
Definition MxInv (G : Z -> Q) (i mx : Z) : Prop :=
  (mx = 0%Z /\ G (i + 2)%Z == 0) \/ ((i + 1 < mx)%Z /\ 0 < G mx /\ G (mx + 1)%Z == 0).

Lemma sf_loop_mx : forall (P G : Z -> Q) revrest i next acc mn mx sf mn' mx',
  (forall k, G k == P k + G (k + 1)%Z) -> (forall k, G k <= 1) -> (forall k, 0 <= G k) ->
  Z.of_nat (length revrest) = (i + 1)%Z ->
  (forall t, (t < length revrest)%nat -> nth t revrest 0 == P (i - Z.of_nat t)%Z) ->
  next == G (i + 1)%Z ->
  MxInv G i mx ->
  sf_loop QOps i revrest next acc mn mx = (sf, mn', mx') ->
  MxInv G (-1) mx'.
Proof.
  intros P G revrest. induction revrest as [|p_i r IH]; intros i next acc mn mx sf mn' mx' HG H1 H0 Hlen Hnth Hnext Hinv H.
  - cbn in H. inversion H; subst. cbn [length] in Hlen. replace i with (-1)%Z in Hinv by lia. exact Hinv.
  - cbn [sf_loop] in H. cbn [length] in Hlen.
    change (n_min1 QOps (n_add QOps p_i next)) with (Qmin1 (p_i + next)) in H.
    assert (p_i == P i) as Hp.
    { pose proof (Hnth 0%nat) as Hn0. cbn [nth length] in Hn0. rewrite Hn0 by lia.
      replace (i - Z.of_nat 0)%Z with i by lia. reflexivity. }
    assert (Qmin1 (p_i + next) == G i) as Hv.
    { assert (p_i + next == G i) as E by (rewrite Hp, Hnext, (HG i); reflexivity).
      rewrite Qmin1_id; [exact E|]. rewrite E. apply H1. }
    refine (IH (i - 1)%Z _ _ _ _ _ _ _ HG H1 H0 _ _ _ _ H).
    + lia.
    + intros t Ht. pose proof (Hnth (S t)) as Hs. cbn [nth length] in Hs. rewrite Hs by lia.
      replace (i - Z.of_nat (S t))%Z with (i - 1 - Z.of_nat t)%Z by lia. reflexivity.
    + replace (i - 1 + 1)%Z with i by lia. exact Hv.
    + destruct Hinv as [[Em Ez]|[Hlt [Hpos Hz]]].
      * subst mx. change (0 =? 0)%Z with true. cbn [andb].
        destruct (gt0 QOps next) eqn:Eg.
        -- apply gt0_Q in Eg. right. split; [lia|]. split.
           ++ rewrite <- Hnext. exact Eg.
           ++ replace (i + 1 + 1)%Z with (i + 2)%Z by lia. exact Ez.
        -- left. split; [reflexivity|]. replace (i - 1 + 2)%Z with (i + 1)%Z by lia.
           assert (~ 0 < next) as Hn by (intros C; apply gt0_Q in C; congruence).
           pose proof (H0 (i + 1)%Z) as Hge. rewrite <- Hnext in Hge. rewrite <- Hnext. lra.
      * right. assert ((mx =? 0)%Z = false) as E by (apply Z.eqb_neq; lia). rewrite E. cbn [andb].
        split; [lia|]. split; assumption.
Qed.

Lemma survival_mx : forall (P G : Z -> Q) pdf sf mn mx,
  (forall k, G k == P k + G (k + 1)%Z) -> (forall k, G k <= 1) -> (forall k, 0 <= G k) ->
  (forall j, (j < length pdf)%nat -> nth j pdf 0 == P (Z.of_nat j)) ->
  G (Z.of_nat (length pdf)) == 0 ->
  survival QOps pdf = Ok (sf, mn, mx) ->
  MxInv G (-1) mx.
Proof.
  intros P G pdf sf mn mx HG H1 H0 Hpdf Hend H. unfold survival in H.
  destruct (rev pdf) as [|lst revrest] eqn:E; [discriminate|].
  destruct revrest as [|y r]; [discriminate|].
  remember (y :: r) as revrest eqn:Erv.
  assert (sf_loop QOps (Z.of_nat (length pdf) - 2) revrest (Qmin1 lst) [Qmin1 lst] 0 0 = (sf, mn, mx)) as Hrun by (cbn [n_min1 QOps] in H; congruence).
  clear H.
  assert (pdf = rev revrest ++ [lst]) as Epdf.
  { rewrite <- (rev_involutive pdf), E. reflexivity. }
  assert (length pdf = S (length revrest)) as Hlen.
  { rewrite Epdf, app_length, rev_length. cbn. lia. }
  assert (Qmin1 lst == G (Z.of_nat (length revrest))) as Hlst.
  { assert (lst == G (Z.of_nat (length revrest))) as Hl0; [|rewrite Qmin1_id; [exact Hl0|rewrite Hl0; apply H1]].
    assert (nth (length revrest) pdf 0 = lst) as En.
    { rewrite Epdf. rewrite app_nth2 by (rewrite rev_length; lia). rewrite rev_length, Nat.sub_diag. reflexivity. }
    rewrite <- En. rewrite (Hpdf (length revrest)) by lia. rewrite (HG (Z.of_nat (length revrest))).
    replace (Z.of_nat (length revrest) + 1)%Z with (Z.of_nat (length pdf)) by lia. rewrite Hend. ring. }
  refine (sf_loop_mx P G revrest _ _ _ _ _ _ _ _ HG H1 H0 _ _ _ _ Hrun).
  - lia.
  - intros t Ht.
    assert (nth (length revrest - S t) pdf 0 = nth t revrest 0) as En.
    { rewrite Epdf. rewrite app_nth1 by (rewrite rev_length; lia). rewrite rev_nth by lia.
      f_equal. lia. }
    rewrite <- En. rewrite (Hpdf (length revrest - S t)%nat) by lia.
    replace (Z.of_nat (length revrest - S t)) with (Z.of_nat (length pdf) - 2 - Z.of_nat t)%Z by lia.
    reflexivity.
  - replace (Z.of_nat (length pdf) - 2 + 1)%Z with (Z.of_nat (length revrest)) by lia. exact Hlst.
  - left. split; [reflexivity|]. replace (Z.of_nat (length pdf) - 2 + 2)%Z with (Z.of_nat (length pdf)) by lia. exact Hend.
Qed.

(* ---------- max_score of a built distribution ---------- *)

Theorem max_score_Q : forall m bg d,
  bg_nonneg bg -> Qsum bg <= 1 -> build QOps m bg = Ok d ->
  (0 <= d_max d <= Z.of_nat (length m) * 1000)%Z /\
  (forall k, (d_max d < k)%Z -> tailD (d_data d) bg k == 0) /\
  (0 < tailD (d_data d) bg 0 -> 0 < tailD (d_data d) bg (d_max d)).
Proof.
  intros m bg d Hbg Hm H.
  destruct (build_Q_table m bg d Hbg Hm H) as (Hlsf & Hsf & Hok & Hld & _ & _).
  apply build_Q_inv in H.
  destruct H as (offset & scale & pdf & Ha & Hlen & Hdata & Hpdf & Hsurv & Hsc & Hoff & Hrows).
  destruct (pdf_of_pointwise bg (d_data d) pdf Hok Hpdf) as (Hlp & Hpw & Hsup).
  rewrite Hld in Hlp, Hsup.
  pose proof (tailD_facts bg (d_data d) Hbg Hok) as [Hanti Hnn Hlow Hhigh]. rewrite Hld in Hhigh.
  assert (Z.of_nat (length pdf) = Z.of_nat (length m) * 1000 + 1)%Z as Hlz.
  { rewrite Hlp. rewrite Nat2Z.inj_add, Nat2Z.inj_mul, cdf_range_Z. reflexivity. }
  assert (MxInv (tailD (d_data d) bg) (-1) (d_max d)) as Hinv.
  { apply (survival_mx (pmf_of (d_data d) bg) (tailD (d_data d) bg) pdf (d_sf d) (d_min d) (d_max d)); auto.
    - intros k. rewrite pmf_of_tailD. unfold pmfD. ring.
    - intros k. apply tailD_le1; assumption.
    - apply Hhigh. rewrite Nat2Z.inj_mul, cdf_range_Z. lia. }
  destruct Hinv as [[Em Ez]|[Hlt [Hpos Hz]]].
  - rewrite Em. split; [lia|]. split.
    + intros k Hk. replace (-1 + 2)%Z with 1%Z in Ez by lia.
      assert (tailD (d_data d) bg k <= tailD (d_data d) bg 1) by (apply Hanti; lia).
      pose proof (Hnn k). lra.
    + intros Hp. exact Hp.
  - split; [|split].
    + split; [lia|].
      destruct (Z.le_gt_cases (d_max d) (Z.of_nat (length m) * 1000)) as [Hle|Hgt]; [exact Hle|].
      exfalso. assert (tailD (d_data d) bg (d_max d) == 0) as E0
        by (apply Hhigh; rewrite Nat2Z.inj_mul, cdf_range_Z; lia). lra.
    + intros k Hk. assert (tailD (d_data d) bg k <= tailD (d_data d) bg (d_max d + 1)) by (apply Hanti; lia).
      pose proof (Hnn k). lra.
    + intros _. exact Hpos.
Qed.

Lemma data_rows_len : forall m bg d, build QOps m bg = Ok d ->
  Forall (fun row : list Z => length row = length bg) (d_data d).
Proof.
  intros m bg d H. apply build_Q_inv in H.
  destruct H as (offset & scale & pdf & _ & Hlen & Hdata & _).
  rewrite Hdata. apply Forall_forall. intros drow Hin. apply in_map_iff in Hin.
  destruct Hin as (row & E & Hrow). subst drow. rewrite map_length.
  rewrite Forall_forall in Hlen. apply Hlen. exact Hrow.
Qed.

(* min_pvalue() = sf[max_score] = the total weight of the words whose discretised score reaches
   max_score; no word of positive weight scores above max_score; positive whenever there is mass *)
Theorem min_pvalue_is_best_Q : forall m bg d,
  bg_nonneg bg -> Qsum bg <= 1 -> build QOps m bg = Ok d ->
  exists q, d_min_pvalue d = Ok q /\
    q == tailD_words (d_data d) bg (d_max d) /\
    tailD_words (d_data d) bg (d_max d + 1) == 0 /\
    q == pmfD (d_data d) bg (d_max d) /\
    (0 < tailD_words (d_data d) bg 0 -> 0 < q).
Proof.
  intros m bg d Hbg Hm H.
  destruct (max_score_Q m bg d Hbg Hm H) as ([Hm0 Hm1] & Habove & Hpos).
  destruct (build_Q_table m bg d Hbg Hm H) as (Hlsf & Hsf & _).
  pose proof (data_rows_len m bg d H) as Hrl.
  assert (Z.of_nat (length (d_sf d)) = Z.of_nat (length m) * 1000 + 1)%Z as Hlz.
  { rewrite Hlsf. rewrite Nat2Z.inj_add, Nat2Z.inj_mul, cdf_range_Z. reflexivity. }
  assert (Z.to_nat (d_max d) < length (d_sf d))%nat as Hlt by lia.
  unfold d_min_pvalue. destruct (nth_error (d_sf d) (Z.to_nat (d_max d))) as [x|] eqn:En.
  - assert ((d_max d <? 0)%Z = false) as E by (apply Z.ltb_ge; lia). rewrite E.
    assert (x == tailD (d_data d) bg (d_max d)) as Ex.
    { rewrite <- (nth_error_nth _ _ 0 En). rewrite Hsf by exact Hlt. rewrite Z2Nat.id by lia. reflexivity. }
    exists x. split; [reflexivity|]. split; [|split; [|split]].
    + rewrite Ex. apply tailD_is_word_sum. exact Hrl.
    + rewrite <- tailD_is_word_sum by exact Hrl. apply Habove. lia.
    + rewrite Ex. unfold pmfD. rewrite (Habove (d_max d + 1)%Z) by lia. ring.
    + intros Hp. rewrite <- tailD_is_word_sum in Hp by exact Hrl. rewrite Ex. apply Hpos. exact Hp.
  - exfalso. apply nth_error_None in En. lia.
Qed.

(* ---------- p-values at the top of the range ---------- *)

(* the p-value of a score whose scaled value r lies above max_score is 0; from min_score up to max_score it is
   at least min_pvalue (positive when there is mass); the p-value of unscale(max_score) is min_pvalue *)
Theorem best_score_tail_Q : forall m bg d s r p q,
  bg_nonneg bg -> Qsum bg <= 1 -> build QOps m bg = Ok d ->
  d_min_pvalue d = Ok q -> d_scale QOps d s = Ok r -> d_pvalue QOps d s = Ok p ->
  ((d_max d < r)%Z -> p == 0) /\ ((r <= d_max d)%Z -> q <= p) /\ (r = d_max d -> (d_min d <= r)%Z -> p == q).
Proof.
  intros m bg d s r p q Hbg Hm Hb Hq Hr Hp.
  destruct (max_score_Q m bg d Hbg Hm Hb) as ([Hm0 Hm1] & Habove & Hpos).
  destruct (build_Q_table m bg d Hbg Hm Hb) as (Hlsf & Hsf & Hok & Hld & [Hmin0 Hminle] & Hminz).
  pose proof (sf_nonempty m bg d Hbg Hb) as Hne.
  pose proof (tailD_facts bg (d_data d) Hbg Hok) as [HTanti HTnn HTlow HThigh].
  assert (Z.of_nat (length (d_sf d)) = Z.of_nat (length m) * 1000 + 1)%Z as Hlz.
  { rewrite Hlsf. rewrite Nat2Z.inj_add, Nat2Z.inj_mul, cdf_range_Z. reflexivity. }
  assert (0 < length (d_sf d))%nat as Hlen0 by (destruct (d_sf d); [contradiction|cbn; lia]).
  assert (q == tailD (d_data d) bg (d_max d)) as Eq.
  { unfold d_min_pvalue in Hq. destruct (nth_error (d_sf d) (Z.to_nat (d_max d))) as [x|] eqn:En; [|discriminate].
    assert ((d_max d <? 0)%Z = false) as E by (apply Z.ltb_ge; lia). rewrite E in Hq. inversion Hq; subst x.
    rewrite <- (nth_error_nth _ _ 0 En). rewrite Hsf by lia. rewrite Z2Nat.id by lia. reflexivity. }
  rewrite (d_pvalue_idx QOps) in Hp by exact Hne. rewrite Hr in Hp. cbn [rbind] in Hp. inversion Hp; subst p. clear Hp.
  unfold pv_idx. cbn [n_one n_zero QOps].
  assert (nth 0 (d_sf d) 0 == tailD (d_data d) bg 0) as E0 by (apply (Hsf 0%nat Hlen0)).
  destruct (r <? d_min d)%Z eqn:E1.
  - apply Z.ltb_lt in E1. split; [|split].
    + (* max_score < r < min_score: no mass at all *)
      intros Hgt. rewrite E0.
      assert (tailD (d_data d) bg (Z.of_nat (Z.to_nat (d_min d))) == tailD (d_data d) bg 0) as Ef
        by (apply tail_flat; intros j Hj; apply Hminz; lia).
      rewrite Z2Nat.id in Ef by lia. rewrite <- Ef. apply Habove. lia.
    + intros _. rewrite E0, Eq. apply HTanti. lia.
    + intros _ C. lia.
  - apply Z.ltb_ge in E1. rewrite as_usize_nonneg by lia.
    destruct (Z.of_nat (length (d_sf d)) <=? r)%Z eqn:E2.
    + apply Z.leb_le in E2. split; [intros _; reflexivity|]. split; intros C; lia.
    + apply Z.leb_gt in E2.
      assert (nth (Z.to_nat r) (d_sf d) 0 == tailD (d_data d) bg r) as Esf.
      { rewrite Hsf by lia. rewrite Z2Nat.id by lia. reflexivity. }
      rewrite Esf. split; [|split].
      * intros Hgt. apply Habove. exact Hgt.
      * intros Hle. rewrite Eq. apply HTanti. exact Hle.
      * intros E _. rewrite Eq, E. reflexivity.
Qed.

(* score(p) for 0 < p < min_pvalue: the binary search ends above max_score, the returned score is
   unscale(x) with x > max_score (strictly above unscale(max_score)), and its p-value is 0 *)
Theorem score_below_min_pvalue_Q : forall m bg d p q s r,
  bg_nonneg bg -> Qsum bg <= 1 -> build QOps m bg = Ok d ->
  (Z.of_nat (length m) * 1000 < i32_max)%Z ->
  d_min_pvalue d = Ok q -> 0 < p -> p < q ->
  d_score QOps d p = Ok s -> d_pvalue QOps d s = Ok r ->
  r == 0 /\
  exists x : nat, (d_max d < Z.of_nat x <= Z.of_nat (length m) * 1000 + 1)%Z /\
    s == inject_Z (Z.of_nat x) / d_scale_f d + inject_Z (d_rows d) * d_offset d /\
    inject_Z (d_max d) / d_scale_f d + inject_Z (d_rows d) * d_offset d < s.
Proof.
  intros m bg d p q s r Hbg Hm Hb Hlen Hq Hp0 Hpq Hs Hr.
  destruct (sf_monotone_range_Q m bg d Hbg Hb) as (Hlsf & Hnoninc & Hin01 & _).
  destruct (max_score_Q m bg d Hbg Hm Hb) as ([Hm0 Hm1] & Habove & Hpos).
  destruct (build_Q_table m bg d Hbg Hm Hb) as (_ & Hsf & Hok & Hld & [Hmin0 Hminle] & Hminz).
  pose proof (sf_nonempty m bg d Hbg Hb) as Hne.
  pose proof (build_Q_scale_pos m bg d Hb) as Hsc.
  assert (Z.of_nat (length (d_sf d)) = Z.of_nat (length m) * 1000 + 1)%Z as Hlz.
  { rewrite Hlsf. rewrite Nat2Z.inj_add, Nat2Z.inj_mul, cdf_range_Z. reflexivity. }
  assert (q == nth (Z.to_nat (d_max d)) (d_sf d) 0) as Eq.
  { unfold d_min_pvalue in Hq. destruct (nth_error (d_sf d) (Z.to_nat (d_max d))) as [x|] eqn:En; [|discriminate].
    assert ((d_max d <? 0)%Z = false) as E by (apply Z.ltb_ge; lia). rewrite E in Hq. inversion Hq; subst x.
    rewrite (nth_error_nth _ _ 0 En). reflexivity. }
  assert (q <= 1) as Hq1.
  { rewrite Eq. assert (Z.to_nat (d_max d) < length (d_sf d))%nat as Hl by lia.
    rewrite Forall_forall in Hin01. apply (Hin01 (nth (Z.to_nat (d_max d)) (d_sf d) 0)). apply nth_In. exact Hl. }
  assert (p < 1) as Hp1 by lra.
  unfold d_score in Hs. cbn [n_one n_zero QOps] in Hs.
  assert (ge_n QOps p 1 = false) as Eg.
  { unfold ge_n. cbn [n_cmp QOps]. rewrite (proj1 (Qlt_alt p 1) Hp1). reflexivity. }
  assert (le_n QOps p 0 = false) as El.
  { unfold le_n. cbn [n_cmp QOps]. rewrite (proj1 (Qgt_alt p 0) Hp0). reflexivity. }
  rewrite Eg, El in Hs. apply rbind_ok in Hs. destruct Hs as (x & Hx & Hs).
  assert (forall i j, (i <= j < length (d_sf d))%nat -> nth j (d_sf d) 0 <= nth i (d_sf d) 0) as Hmono.
  { intros i j Hij.
    assert (Forall (in01 QOps Qle) (d_sf d)) as Hf'.
    { eapply Forall_impl; [|exact Hin01]. intros a Ha0. apply in01_Qin01. exact Ha0. }
    exact (noninc_nth QOps Qle (fun a b c => @Qle_trans a b c) (d_sf d) i j 0
             (fun a _ => Qle_refl a) Hnoninc Hf' Hij). }
  destruct (bsearch_spec (d_sf d) p Hmono x Hx) as [Hxl Hxp].
  (* x lies above max_score *)
  assert (d_max d < Z.of_nat x)%Z as Hxm.
  { destruct (Z.lt_ge_cases (d_max d) (Z.of_nat x)) as [Hlt|Hge]; [exact Hlt|]. exfalso.
    assert (x < length (d_sf d))%nat as Hxlt by lia. specialize (Hxp Hxlt).
    assert (nth (Z.to_nat (d_max d)) (d_sf d) 0 <= nth x (d_sf d) 0) as Hle by (apply Hmono; lia).
    lra. }
  unfold d_unscale in Hs. inversion Hs; subst s. clear Hs. cbn [n_unscale QOps] in Hr. cbn [n_unscale QOps].
  unfold d_wo in *. cbn [n_mul n_of_Z QOps] in *.
  assert (~ d_scale_f d == 0) as Hnz by lra.
  split.
  - (* the scaled score is x again *)
    rewrite (d_pvalue_idx QOps) in Hr by exact Hne.
    apply rbind_ok in Hr. destruct Hr as (r0 & Hr0 & Er). inversion Er; subst r. clear Er.
    apply d_scale_Q_value in Hr0. unfold d_wo in Hr0. cbn [n_mul n_of_Z QOps] in Hr0.
    assert ((inject_Z (Z.of_nat x) / d_scale_f d + inject_Z (d_rows d) * d_offset d - inject_Z (d_rows d) * d_offset d) * d_scale_f d
            == inject_Z (Z.of_nat x)) as Ex by (field; exact Hnz).
    rewrite (Qround_away_comp _ _ Ex), Qround_away_nat in Hr0.
    rewrite clamp_i32_id in Hr0 by (unfold i32_min, i32_max in *; lia). subst r0.
    unfold pv_idx. cbn [n_one n_zero QOps].
    destruct (Z.of_nat x <? d_min d)%Z eqn:E1.
    + (* max_score < x < min_score: the whole table is 0 *)
      apply Z.ltb_lt in E1.
      assert (0 < length (d_sf d))%nat as Hlen0 by lia.
      rewrite (Hsf 0%nat Hlen0).
      assert (tailD (d_data d) bg (Z.of_nat (Z.to_nat (d_min d))) == tailD (d_data d) bg 0) as Ef
        by (apply tail_flat; intros j Hj; apply Hminz; lia).
      rewrite Z2Nat.id in Ef by lia. rewrite <- Ef. apply Habove. lia.
    + apply Z.ltb_ge in E1. rewrite as_usize_nonneg by lia.
      destruct (Z.of_nat (length (d_sf d)) <=? Z.of_nat x)%Z eqn:E2; [reflexivity|].
      apply Z.leb_gt in E2. rewrite Nat2Z.id. rewrite Hsf by lia. apply Habove. exact Hxm.
  - exists x. split; [lia|]. split; [reflexivity|].
    apply Qplus_lt_l. apply Qmult_lt_r; [apply Qinv_lt_0_compat; exact Hsc|].
    rewrite <- Zlt_Qlt. exact Hxm.
Qed.

(* ---------- the same in words: max_score is the best discretised score of a word of positive weight ---------- *)

Lemma Qsum_nonneg_zero : forall l, Forall (fun x => 0 <= x) l -> Qsum l == 0 -> Forall (fun x => x == 0) l.
Proof.
  induction l as [|x l IH]; intros Hn Hs; [constructor|].
  inversion Hn as [|? ? Hx Hl]; subst. cbn [Qsum] in Hs.
  assert (0 <= Qsum l) as Hsl.
  { clear -Hl. induction l as [|y l IH]; cbn [Qsum]; [lra|]. inversion Hl; subst. specialize (IH H2). lra. }
  constructor; [lra|]. apply IH; [exact Hl|lra].
Qed.

Lemma Qsum_pos_exists : forall l, 0 < Qsum l -> exists x, In x l /\ 0 < x.
Proof.
  induction l as [|x l IH]; intros H; cbn [Qsum] in H; [lra|].
  destruct (Qlt_le_dec 0 x) as [Hx|Hx]; [exists x; split; [left; reflexivity|exact Hx]|].
  destruct IH as (y & Hin & Hy); [lra|]. exists y. split; [right; exact Hin|exact Hy].
Qed.

Lemma word_weight_nonneg : forall bg w, bg_nonneg bg -> 0 <= word_weight bg w.
Proof.
  intros bg w Hbg. induction w as [|a w IH]; cbn [word_weight]; [lra|].
  apply Qmult_le_0_compat; [|exact IH].
  destruct (Nat.lt_ge_cases a (length bg)) as [Hlt|Hge].
  - unfold bg_nonneg in Hbg. rewrite Forall_forall in Hbg. apply Hbg. apply nth_In. exact Hlt.
  - rewrite nth_overflow by exact Hge. lra.
Qed.

Lemma word_termD_nonneg : forall data bg k w, bg_nonneg bg -> 0 <= word_termD data bg k w.
Proof.
  intros data bg k w Hbg. unfold word_termD. destruct (word_D data w) as [dv|]; [|lra].
  destruct (k <=? dv)%Z; [apply word_weight_nonneg; exact Hbg|lra].
Qed.

Theorem max_score_words_Q : forall m bg d,
  bg_nonneg bg -> Qsum bg <= 1 -> build QOps m bg = Ok d ->
  (forall w k, In w (all_words (length bg) (length (d_data d))) -> word_D (d_data d) w = Some k ->
     (d_max d < k)%Z -> word_weight bg w == 0) /\
  (0 < tailD_words (d_data d) bg 0 ->
     exists w, In w (all_words (length bg) (length (d_data d))) /\ word_D (d_data d) w = Some (d_max d) /\
               0 < word_weight bg w).
Proof.
  intros m bg d Hbg Hm H.
  destruct (min_pvalue_is_best_Q m bg d Hbg Hm H) as (q & Hq & Eq & Ez & _ & Hpos).
  assert (forall w k, In w (all_words (length bg) (length (d_data d))) -> word_D (d_data d) w = Some k ->
            (d_max d < k)%Z -> word_weight bg w == 0) as Habove.
  { intros w k Hin Hw Hk. unfold tailD_words in Ez.
    apply Qsum_nonneg_zero in Ez.
    - rewrite Forall_forall in Ez. specialize (Ez (word_termD (d_data d) bg (d_max d + 1) w) (in_map _ _ _ Hin)).
      unfold word_termD in Ez. rewrite Hw in Ez.
      assert ((d_max d + 1 <=? k)%Z = true) as E by (apply Z.leb_le; lia). rewrite E in Ez. exact Ez.
    - apply Forall_forall. intros x Hx. apply in_map_iff in Hx. destruct Hx as (w' & E & _). subst x.
      apply word_termD_nonneg. exact Hbg. }
  split; [exact Habove|].
  intros Hmass. specialize (Hpos Hmass). rewrite Eq in Hpos. unfold tailD_words in Hpos.
  apply Qsum_pos_exists in Hpos. destruct Hpos as (x & Hx & Hxp). apply in_map_iff in Hx.
  destruct Hx as (w & E & Hin). subst x. unfold word_termD in Hxp.
  destruct (word_D (d_data d) w) as [k|] eqn:Hw; [|lra].
  destruct (d_max d <=? k)%Z eqn:Ek; [|lra]. apply Z.leb_le in Ek.
  exists w. split; [exact Hin|]. split; [|exact Hxp].
  destruct (Z.eq_dec k (d_max d)) as [E|Hne]; [subst k; exact Hw|].
  exfalso. assert (word_weight bg w == 0) as E0 by (apply (Habove w k Hin Hw); lia). lra.
Qed.

(* ---------- no word's probability is lost in the tail ---------- *)

Lemma Qsum_ge_term : forall l x, Forall (fun y => 0 <= y) l -> In x l -> x <= Qsum l.
Proof.
  induction l as [|y l IH]; intros x Hn Hin; [destruct Hin|].
  inversion Hn as [|? ? Hy Hl]; subst. cbn [Qsum].
  assert (0 <= Qsum l) as Hs.
  { clear -Hl. induction l as [|z l IH]; cbn [Qsum]; [lra|]. inversion Hl; subst. specialize (IH H2). lra. }
  destruct Hin as [E|Hin]; [subst; lra|]. specialize (IH x Hl Hin). lra.
Qed.

Lemma word_term_nonneg : forall m bg t w, bg_nonneg bg -> 0 <= word_term m bg t w.
Proof.
  intros m bg t w Hbg. unfold word_term. destruct (word_S m w) as [s|]; [|lra].
  destruct (Qle_bool t s); [apply word_weight_nonneg; exact Hbg|lra].
Qed.

(* the exact tail at the score of a word is at least the weight of that word *)
Lemma tail_ge_word : forall m bg w s,
  bg_nonneg bg -> Forall (fun row : list (cell Q) => length row = length bg) m ->
  In w (all_words (length bg) (length m)) -> word_S m w = Some s ->
  word_weight bg w <= tail_exact m bg s.
Proof.
  intros m bg w s Hbg Hlen Hin Hw. rewrite tail_exact_is_word_sum by exact Hlen. unfold tail_words.
  assert (word_term m bg s w = word_weight bg w) as E.
  { unfold word_term. rewrite Hw. assert (Qle_bool s s = true) as Er by (apply Qle_bool_iff; apply Qle_refl).
    rewrite Er. reflexivity. }
  rewrite <- E. apply Qsum_ge_term.
  - apply Forall_forall. intros x Hx. apply in_map_iff in Hx. destruct Hx as (w' & Ex & _). subst x.
    apply word_term_nonneg. exact Hbg.
  - apply in_map. exact Hin.
Qed.

(* the p-value of any score within d below the score of a word is at least the probability of that
   word: nothing of the far upper tail is lost, down to the single best word *)
Theorem no_word_lost_Q : forall m bg d offset scale w sw s p,
  bg_nonneg bg -> Qsum bg <= 1 ->
  build QOps m bg = Ok d -> stage_a QOps m = Ok (offset, scale) ->
  (Z.of_nat (length m) * 1000 < i32_max)%Z ->
  In w (all_words (length bg) (length m)) -> word_S m w = Some sw ->
  s <= sw - (inject_Z (Z.of_nat (length m)) / 2 + 1) / scale ->
  d_pvalue QOps d s = Ok p ->
  word_weight bg w <= p.
Proof.
  intros m bg d offset scale w sw s p Hbg Hm Hb Ha Hlen Hin Hw Hs Hp.
  destruct (pvalue_brackets_exact_Q m bg d offset scale s p Hbg Hm Hb Ha Hlen Hp) as [Hlo _].
  cbv zeta in Hlo.
  assert (Forall (fun row : list (cell Q) => length row = length bg) m) as Hrl.
  { apply build_Q_inv in Hb. destruct Hb as (_ & _ & _ & _ & Hl & _). exact Hl. }
  eapply Qle_trans; [apply (tail_ge_word m bg w sw Hbg Hrl Hin Hw)|].
  eapply Qle_trans; [|exact Hlo]. apply (tail_exact_antitone m bg Hbg). lra.
Qed.
