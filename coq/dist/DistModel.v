(* Model of lightmotif/src/pwm/dist.rs (MEME-style score distribution), executable
   definitions only.  The numeric code is written once over a parameterised record
   [NumOps T] and instantiated in DistInst.v with binary64 (bit-exact replay of the
   f64 computation) and with exact rationals (theorems about probabilities).

   Correspondence with the Rust text (lines of dist.rs at the pinned commit):
     From<ScoringMatrix> for ScoreDistribution   ->  [build]
       small / large (min_by / max_by over non-infinite cells)   [finite_cells, min_by, max_by]
       if small == large { small = large - 1 }, offset, scale    [build]
       discretised matrix                                        [disc_cell]
       pdf convolution (two buffers, swap, fill, symbols outer)  [row_step, pdf_rows]
       survival function, min_score, max_score                   [sf_loop, survival]
     ScoreDistribution::{scale, unscale, pvalue, score, min_pvalue}
                                                  ->  [d_scale d_unscale d_pvalue d_score d_min_pvalue]
     core::slice::binary_search_by (toolchain's branch-free loop) -> [bs_loop, bsearch]

   Every place where the Rust code can panic is a [Panic n]:
     1  unwrap() of min_by/max_by on an empty iterator (no non-infinite cell, M = 0)
     2  partial_cmp(..).unwrap() on a NaN cell inside min_by/max_by
     3  pdf_new[k + s as usize]: index out of bounds / usize overflow (debug build)
     4  pdf_new[..=max + range]: slice end out of range (never: size = M*1000+1)
     5  (unused since the repair of the i32 offset: w * self.offset is computed in f64)
     6  pvalue.partial_cmp(x).unwrap() on NaN in score()
     7  get_unchecked(mid) outside the slice (never: invariant of std's loop)
     8  sf.len() - 2 underflow (never: M >= 1 when this point is reached)
     9  self.sf[self.max_score as usize] out of bounds (never)
    10  self.sf[0] on an empty table in pvalue() (never: the table has M*1000+1 entries)
   Err 1 marks an input that the Rust types exclude (a row or the background not of
   length K). *)
From Coq Require Import List ZArith Bool Arith Lia.
From LMBase Require Import Res ListX.
From LMDist Require Import GenDist.
Import ListNotations.
Open Scope Z_scope.

(* ---------- numeric carrier ---------- *)

Record NumOps (T : Type) : Type := {
  n_zero : T;                               (* 0.0 *)
  n_one : T;                                (* 1.0 *)
  n_add : T -> T -> T;
  n_sub : T -> T -> T;
  n_mul : T -> T -> T;
  n_div : T -> T -> T;
  n_of_Z : Z -> T;                          (* integer as f64 *)
  n_floor : T -> T;                         (* f64::floor *)
  n_round_i32 : T -> Z;                     (* f64::round(x) as i32 : half away from zero, saturating, NaN -> 0 *)
  n_to_i32 : T -> Z;                        (* x as i32 *)
  n_is_inf : T -> bool;                     (* f32::is_infinite *)
  n_cmp : T -> T -> option comparison;      (* partial_cmp *)
  n_min1 : T -> T;                          (* p.min(1.0) *)
  n_unscale : Z -> T -> T -> T              (* (i as f32) / (scale as f32) + (wo as f32), as f64; wo = w * offset : f64 *)
}.

Arguments n_zero {T}. Arguments n_one {T}. Arguments n_add {T}. Arguments n_sub {T}.
Arguments n_mul {T}. Arguments n_div {T}. Arguments n_of_Z {T}. Arguments n_floor {T}.
Arguments n_round_i32 {T}. Arguments n_to_i32 {T}. Arguments n_is_inf {T}. Arguments n_cmp {T}.
Arguments n_min1 {T}. Arguments n_unscale {T}.

(* A cell of the scoring matrix.  [CNInf] is f32 negative infinity written
   symbolically (the rational carrier has no infinity); the binary64 instance can
   equally be fed [CFin] of the IEEE value -inf, both give the same result
   (checked on every case by the driver). *)
Inductive cell (T : Type) : Type :=
| CFin (x : T)
| CNInf.
Arguments CFin {T} x.
Arguments CNInf {T}.

Definition i32_min : Z := -2147483648.
Definition i32_max : Z := 2147483647.
(* const CDF_RANGE, re-read from dist.rs on every run (GenDist.v) *)
Definition cdf_range : nat := gen_cdf_range.

Definition in_i32 (z : Z) : bool := (i32_min <=? z) && (z <=? i32_max).

(* i32 as usize *)
Definition as_usize (z : Z) : Z := if z <? 0 then z + 18446744073709551616 else z.

(* The distribution object (private fields of ScoreDistribution that matter). *)
Record dist (T : Type) : Type := {
  d_scale_f : T;          (* scale: f64 *)
  d_offset : T;           (* offset: f64 *)
  d_rows : Z;             (* data.rows() *)
  d_data : list (list Z); (* discretised matrix (i32, i32::MIN = skip) *)
  d_sf : list T;
  d_min : Z;              (* min_score *)
  d_max : Z               (* max_score *)
}.
Arguments d_scale_f {T}. Arguments d_offset {T}. Arguments d_rows {T}. Arguments d_data {T}.
Arguments d_sf {T}. Arguments d_min {T}. Arguments d_max {T}.

Section Model.
  Context {T : Type} (N : NumOps T).

  Notation zero := (n_zero N).
  Notation one := (n_one N).

  Definition eqb_n (a b : T) : bool := match n_cmp N a b with Some Eq => true | _ => false end.
  Definition gt0 (a : T) : bool := match n_cmp N a zero with Some Gt => true | _ => false end.
  (* old != 0.0 *)
  Definition nonzero (a : T) : bool := negb (eqb_n a zero).

  (* ----- small / large ----- *)

  (* pssm.matrix().iter().flatten().filter(|x| !x.is_infinite()) *)
  Definition keep_cell (c : cell T) : list T :=
    match c with
    | CFin x => if n_is_inf N x then [] else [x]
    | CNInf => []
    end.
  Definition finite_cells (m : list (list (cell T))) : list T :=
    flat_map (fun row => flat_map keep_cell row) m.

  (* Iterator::min_by: reduce(|x, y| match compare(&x, &y) { Greater => y, _ => x }) *)
  Fixpoint min_by (acc : T) (l : list T) : res T :=
    match l with
    | [] => Ok acc
    | y :: r =>
        match n_cmp N acc y with
        | None => Panic 2
        | Some Gt => min_by y r
        | Some _ => min_by acc r
        end
    end.

  (* Iterator::max_by: reduce(|x, y| match compare(&x, &y) { Greater => x, _ => y }) *)
  Fixpoint max_by (acc : T) (l : list T) : res T :=
    match l with
    | [] => Ok acc
    | y :: r =>
        match n_cmp N acc y with
        | None => Panic 2
        | Some Gt => max_by acc r
        | Some _ => max_by y r
        end
    end.

  Definition small_of (m : list (list (cell T))) : res T :=
    match finite_cells m with
    | [] => Panic 1
    | x :: r => min_by x r
    end.
  Definition large_of (m : list (list (cell T))) : res T :=
    match finite_cells m with
    | [] => Panic 1
    | x :: r => max_by x r
    end.

  (* ----- discretisation ----- *)

  (* f64::round((-inf - offset) * scale) as i32 for a finite (or NaN) offset:
     -inf for scale > 0 (i32::MIN), +inf for scale < 0 (i32::MAX), NaN for
     scale = 0 or NaN (0). *)
  Definition disc_ninf (scale : T) : Z :=
    match n_cmp N scale zero with
    | Some Gt => i32_min
    | Some Lt => i32_max
    | _ => 0
    end.

  Definition disc_cell (offset scale : T) (c : cell T) : Z :=
    match c with
    | CFin x => n_round_i32 N (n_mul N (n_sub N x offset) scale)
    | CNInf => disc_ninf scale
    end.

  (* ----- pdf ----- *)

  (* contributions of one symbol: old[k] * b for k in 0..=max with old[k] != 0 *)
  Definition contrib (old : list T) (maxk : nat) (b : T) : list (option T) :=
    map (fun o => if nonzero o then Some (n_mul N o b) else None) (firstn (S maxk) old).

  Definition any_some (c : list (option T)) : bool :=
    existsb (fun o => match o with Some _ => true | None => false end) c.

  (* new[j] += c[j] for the aligned lists; a contribution falling behind the end of
     [new] is an index-out-of-bounds panic *)
  Fixpoint zip_add (c : list (option T)) (new : list T) : res (list T) :=
    match c with
    | [] => Ok new
    | o :: c' =>
        match new with
        | [] => if any_some c then Panic 3 else Ok []
        | x :: n' =>
            r <- zip_add c' n' ;;
            Ok (match o with Some v => n_add N x v | None => x end :: r)
        end
    end.

  (* for k in 0..=max { if old[k] != 0 { new[k + s as usize] += old[k] * b } } *)
  Definition add_symbol (old : list T) (maxk : nat) (s : Z) (b : T) (new : list T) : res (list T) :=
    if s =? i32_min then Ok new else
    let c := contrib old maxk b in
    if (s <? 0) || (Z.of_nat (length new) <=? s) then
      (if any_some c then Panic 3 else Ok new)
    else
      let sn := Z.to_nat s in
      r <- zip_add c (skipn sn new) ;;
      Ok (firstn sn new ++ r).

  Fixpoint add_symbols (old : list T) (maxk : nat) (rowbg : list (Z * T)) (new : list T) : res (list T) :=
    match rowbg with
    | [] => Ok new
    | (s, b) :: r => new' <- add_symbol old maxk s b new ;; add_symbols old maxk r new'
    end.

  (* one iteration of `for (i, row) in data.iter().enumerate()`; state = (pdf_old, pdf_new) *)
  Definition row_step (bg : list T) (i : nat) (row : list Z) (st : list T * list T) : res (list T * list T) :=
    let '(pold, pnew) := st in
    let maxk := (i * cdf_range)%nat in
    (* std::mem::swap(&mut pdf_old, &mut pdf_new) *)
    let old := pnew in
    let new := pold in
    (* pdf_new[..=max + range].fill(0.0) *)
    let n0 := (maxk + cdf_range + 1)%nat in
    if (length new <? n0)%nat then Panic 4 else
    let new0 := repeat zero n0 ++ skipn n0 new in
    new' <- add_symbols old maxk (combine row bg) new0 ;;
    Ok (old, new').

  Fixpoint pdf_rows (bg : list T) (i : nat) (rows : list (list Z)) (st : list T * list T) : res (list T * list T) :=
    match rows with
    | [] => Ok st
    | row :: r => st' <- row_step bg i row st ;; pdf_rows bg (S i) r st'
    end.

  Definition pdf_of (bg : list T) (data : list (list Z)) : res (list T) :=
    let size := (length data * cdf_range + 1)%nat in
    let pdf_old := repeat zero size in
    let pdf_new := one :: repeat zero (size - 1) in
    st <- pdf_rows bg 0 data (pdf_old, pdf_new) ;;
    Ok (snd st).

  (* ----- survival function ----- *)

  (* for i in (0..=len-2).rev(): [revrest] = sf[i], sf[i-1], ..., sf[0]; [next] = sf[i+1]
     (already updated); [acc] = sf[i+1..] *)
  Fixpoint sf_loop (i : Z) (revrest : list T) (next : T) (acc : list T) (mn mx : Z) : list T * Z * Z :=
    match revrest with
    | [] => (acc, mn, mx)
    | p_i :: r =>
        let p := n_add N p_i next in
        let v := n_min1 N p in
        let mx' := if (mx =? 0) && gt0 next then i + 1 else mx in
        let mn' := if gt0 p_i then i else mn in
        sf_loop (i - 1) r v (v :: acc) mn' mx'
    end.

  Definition survival (pdf : list T) : res (list T * Z * Z) :=
    match rev pdf with
    | [] => Panic 8
    | [_] => Panic 8
    | last0 :: revrest =>
        (* if let Some(last) = sf.last_mut() { *last = last.min(1.0) } *)
        let last := n_min1 N last0 in
        Ok (sf_loop (Z.of_nat (length pdf) - 2) revrest last [last] 0 0)
    end.

  (* ----- From<ScoringMatrix> ----- *)

  (* (offset, scale) as f64 *)
  Definition stage_a (m : list (list (cell T))) : res (T * T) :=
    small0 <- small_of m ;;
    large <- large_of m ;;
    let small := if eqb_n small0 large then n_sub N large one else small0 in
    let offset := n_floor N small in
    let quot := n_div N (n_of_Z N (Z.of_nat cdf_range)) (n_sub N large offset) in
    let scale0 := n_floor N quot in
    (* if scale == 0.0 { scale = CDF_RANGE / (large - offset) } *)
    let scale := if eqb_n scale0 zero then quot else scale0 in
    Ok (offset, scale).

  Definition build (m : list (list (cell T))) (bg : list T) : res (dist T) :=
    if negb (forallb (fun row => (length row =? length bg)%nat) m) then Err 1 else
    os <- stage_a m ;;
    let '(offset, scale) := os in
    let data := map (map (disc_cell offset scale)) m in
    pdf <- pdf_of bg data ;;
    s <- survival pdf ;;
    let '(sf, mn, mx) := s in
    Ok {| d_scale_f := scale; d_offset := offset; d_rows := Z.of_nat (length m);
          d_data := data; d_sf := sf; d_min := mn; d_max := mx |}.

  (* ----- methods ----- *)

  (* w * self.offset with w = rows as f64 *)
  Definition d_wo (d : dist T) : T := n_mul N (n_of_Z N (d_rows d)) (d_offset d).

  Definition d_scale (d : dist T) (score : T) : res Z :=
    Ok (n_round_i32 N (n_mul N (n_sub N score (d_wo d)) (d_scale_f d))).

  Definition d_unscale (d : dist T) (i : Z) : res T :=
    Ok (n_unscale N i (d_scale_f d) (d_wo d)).

  Definition d_pvalue (d : dist T) (score : T) : res T :=
    scaled <- d_scale d score ;;
    if scaled <? d_min d then (match d_sf d with [] => Panic 10 | x :: _ => Ok x end)
    else if Z.of_nat (length (d_sf d)) <=? as_usize scaled then Ok zero
    else Ok (nth (Z.to_nat scaled) (d_sf d) zero).

  (* core::slice::binary_search_by with f = |x| pvalue.partial_cmp(x).unwrap() *)
  Fixpoint bs_loop (sf : list T) (p : T) (fuel : nat) (base size : nat) : res nat :=
    if (size <=? 1)%nat then Ok base else
    match fuel with
    | O => OutOfFuel
    | S f =>
        let half := (size / 2)%nat in
        let mid := (base + half)%nat in
        match nth_error sf mid with
        | None => Panic 7
        | Some x =>
            match n_cmp N p x with
            | None => Panic 6
            | Some c => bs_loop sf p f (match c with Gt => base | _ => mid end) (size - half)%nat
            end
        end
    end.

  (* the index carried by Ok(x) / Err(x) (score() treats both alike) *)
  Definition bsearch (sf : list T) (p : T) : res nat :=
    match sf with
    | [] => Ok 0%nat
    | _ =>
        base <- bs_loop sf p (length sf) 0%nat (length sf) ;;
        match nth_error sf base with
        | None => Panic 7
        | Some x =>
            match n_cmp N p x with
            | None => Panic 6
            | Some Eq => Ok base
            | Some Lt => Ok (S base)
            | Some Gt => Ok base
            end
        end
    end.

  Definition ge_n (a b : T) : bool := match n_cmp N a b with Some Gt | Some Eq => true | _ => false end.
  Definition le_n (a b : T) : bool := match n_cmp N a b with Some Lt | Some Eq => true | _ => false end.

  Definition d_score (d : dist T) (p : T) : res T :=
    if ge_n p one then d_unscale d (d_min d)
    else if le_n p zero then d_unscale d (d_max d)
    else
      x <- bsearch (d_sf d) p ;;
      d_unscale d (Z.of_nat x).

  Definition d_min_pvalue (d : dist T) : res T :=
    match nth_error (d_sf d) (Z.to_nat (d_max d)) with
    | Some x => if d_max d <? 0 then Panic 9 else Ok x
    | None => Panic 9
    end.

  (* Distribution<f32>::sample (feature "sampling"): `let p = Uniform::new_inclusive(0.0, 1.0).sample(rng);
     self.score(p)` -- the uniform draw p is an input of the model (rand's generator is an oracle) *)
  Definition d_sample (d : dist T) (p : T) : res T := d_score d p.

  (* pvalue(score(p)) *)
  Definition d_roundtrip (d : dist T) (p : T) : res T :=
    s <- d_score d p ;; d_pvalue d s.

  (* ----- the straightforward rendering of the inner loops (functional updates),
     used only to state that the zip formulation above keeps the order of the
     floating-point additions (DistProofs.add_symbol_naive_eq) ----- *)

  Fixpoint naive_k (old : list T) (s : nat) (b : T) (ks : list nat) (new : list T) : res (list T) :=
    match ks with
    | [] => Ok new
    | k :: r =>
        let o := nth k old zero in
        if nonzero o then
          if (k + s <? length new)%nat
          then naive_k old s b r (upd (k + s) (n_add N (nth (k + s) new zero) (n_mul N o b)) new)
          else Panic 3
        else naive_k old s b r new
    end.

End Model.
