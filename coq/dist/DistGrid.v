(* The grid table of DistGridModel.v gives the same tails as the table of all words, hence
   the exact probability of the specification; the checker through it is the checker of
   DistInst.v (equal as a function), so that its soundness is check_C11_sound_lemma. *)
From Coq Require Import List ZArith QArith Qround Qabs Bool Arith Lia.
From LMBase Require Import Res ListX IEEE.
From LMDist Require Import DistModel DistInst DistProofs DistConv DistDyadic DistCheckProofs DistGridModel.
Import ListNotations.
Local Open Scope Z_scope.

Lemma merge_add_nil_l : forall b, merge_add [] b = b.
Proof. destruct b; reflexivity. Qed.

Lemma merge_add_nil_r : forall a, merge_add a [] = a.
Proof. destruct a as [|[s p] a]; reflexivity. Qed.

Lemma merge_add_cons : forall s1 p1 a' s2 p2 b',
  merge_add ((s1, p1) :: a') ((s2, p2) :: b') =
  match s1 ?= s2 with
  | Lt => (s1, p1) :: merge_add a' ((s2, p2) :: b')
  | Eq => (s1, p1 + p2) :: merge_add a' b'
  | Gt => (s2, p2) :: merge_add ((s1, p1) :: a') b'
  end.
Proof. reflexivity. Qed.

(* merging adds the tails (no order needed) *)
Lemma TZ_merge_add : forall a b thr, TZ (merge_add a b) thr = TZ a thr + TZ b thr.
Proof.
  induction a as [|[s1 p1] a' IHa]; intros b thr.
  - rewrite merge_add_nil_l. change (TZ [] thr) with 0. lia.
  - induction b as [|[s2 p2] b' IHb].
    + rewrite merge_add_nil_r. change (TZ [] thr) with 0. lia.
    + rewrite merge_add_cons. destruct (s1 ?= s2) eqn:E.
      * apply Z.compare_eq in E. subst s2. rewrite !TZ_cons, IHa. destruct (thr <=? s1); lia.
      * rewrite !TZ_cons, IHa, TZ_cons. lia.
      * rewrite (TZ_cons s2 p2), IHb, (TZ_cons s2 p2 b'). lia.
Qed.

Definition conv_sym (tab : list (Z * Z)) (acc : list (Z * Z)) (cb : option Z * Z) : list (Z * Z) :=
  match fst cb with
  | Some x =>
      if (snd cb =? 0) then acc
      else merge_add acc (map (fun sp : Z * Z => (fst sp + x, snd cb * snd sp)) tab)
  | None => acc
  end.

Lemma TZ_conv_fold : forall tab l acc thr,
  TZ (fold_left (conv_sym tab) l acc) thr = TZ acc thr + Zsum (map (stepZ_term tab thr) l).
Proof.
  intros tab. induction l as [|[c b] l IH]; intros acc thr; cbn [fold_left map Zsum]; [lia|].
  rewrite IH. set (rest := Zsum (map (stepZ_term tab thr) l)). unfold conv_sym, stepZ_term. cbn [fst snd].
  destruct c as [x|]; [|lia]. destruct (b =? 0) eqn:E.
  - apply Z.eqb_eq in E. subst b. lia.
  - rewrite TZ_merge_add, TZ_shift. lia.
Qed.

Lemma TZ_conv_stepZ : forall bg tab row thr,
  TZ (conv_stepZ bg tab row) thr = Zsum (map (stepZ_term tab thr) (combine row bg)).
Proof.
  intros bg tab row thr. unfold conv_stepZ. change (fun acc cb => _) with (conv_sym tab).
  rewrite TZ_conv_fold. change (TZ [] thr) with 0. lia.
Qed.

Definition same_tail (t1 t2 : list (Z * Z)) : Prop := forall thr, TZ t1 thr = TZ t2 thr.

Lemma Zsum_map_ext : forall (A : Type) (f g : A -> Z) l, (forall a, f a = g a) -> Zsum (map f l) = Zsum (map g l).
Proof. intros A f g l H. induction l as [|a l IH]; cbn [map Zsum]; [reflexivity|]. rewrite H, IH. reflexivity. Qed.

Lemma step_same_tail : forall bg t1 t2 row,
  same_tail t1 t2 -> same_tail (conv_stepZ bg t1 row) (table_stepZ bg t2 row).
Proof.
  intros bg t1 t2 row H thr. rewrite TZ_conv_stepZ, TZ_table_stepZ. apply Zsum_map_ext.
  intros [c b]. unfold stepZ_term. cbn [fst snd]. destruct c as [x|]; [|reflexivity]. rewrite H. reflexivity.
Qed.

(* the grid table has the tails of the table of all words *)
Theorem conv_table_tail : forall cz bgz thr, TZ (conv_tableZ cz bgz) thr = TZ (word_tableZ cz bgz) thr.
Proof.
  intros cz bgz. unfold conv_tableZ, word_tableZ.
  assert (forall t1 t2, same_tail t1 t2 ->
            same_tail (fold_left (conv_stepZ bgz) cz t1) (fold_left (table_stepZ bgz) cz t2)) as H.
  { induction cz as [|row r IH]; intros t1 t2 Ht; cbn [fold_left]; [exact Ht|].
    apply IH. apply step_same_tail. exact Ht. }
  apply H. intros thr. reflexivity.
Qed.

Lemma tail_dy_grid_eq : forall cz bgz k j M t,
  tail_dy (conv_tableZ cz bgz) k j M t = tail_dy (word_tableZ cz bgz) k j M t.
Proof.
  intros. unfold tail_dy.
  change (tail_tabZ (conv_tableZ cz bgz) (Qceiling (t * inject_Z (2 ^ k))) 0)
    with (TZ (conv_tableZ cz bgz) (Qceiling (t * inject_Z (2 ^ k)))).
  rewrite conv_table_tail. reflexivity.
Qed.

(* ... hence the exact probability of the specification *)
Theorem tail_grid_correct : forall k j, (0 <= k)%Z -> (0 <= j)%Z ->
  forall (cz : list (list (option Z))) (bgz : list Z) t,
  (tail_exact (map (map (qcell k)) cz) (map (qweight j) bgz) t ==
   tail_dy (conv_tableZ cz bgz) k j (Z.of_nat (length cz)) t)%Q.
Proof.
  intros k j Hk Hj cz bgz t. rewrite tail_dy_grid_eq. apply tail_dyadic_correct; assumption.
Qed.

Lemma bracket_one_grid_eq : forall cz bgz k j scale M delta sp,
  c11_bracket_one (conv_tableZ cz bgz) k j scale M delta sp =
  c11_bracket_one (word_tableZ cz bgz) k j scale M delta sp.
Proof.
  intros. unfold c11_bracket_one, chk_bracket_dy. rewrite !tail_dy_grid_eq. reflexivity.
Qed.

Lemma bracket_fails_grid_eq : forall m bg br, c11_bracket_fails_grid m bg br = c11_bracket_fails m bg br.
Proof.
  intros m bg br. unfold c11_bracket_fails_grid, c11_bracket_fails.
  destruct br as [|b0 br']; [reflexivity|].
  destruct (q_stage_a (c11_qm m)) as [[o scale]| | |]; try reflexivity.
  destruct (Qle_bool scale 0); [reflexivity|]. cbv zeta. f_equal.
  apply map_ext. intros sp. apply bracket_one_grid_eq.
Qed.

(* the checker through the grid table is the checker through the table of all words *)
Theorem check_C11_grid_eq : forall m bg sf pv br rt,
  check_C11_grid_fails m bg sf pv br rt = check_C11_fails m bg sf pv br rt.
Proof.
  intros. unfold check_C11_grid_fails, check_C11_fails. rewrite bracket_fails_grid_eq. reflexivity.
Qed.

Theorem check_C11_grid_sound_lemma : forall m bg sf pv br rt,
  check_C11_grid m bg sf pv br rt = true -> Holds_C11 m bg sf pv br rt.
Proof.
  intros m bg sf pv br rt H. apply check_C11_sound_lemma. unfold check_C11.
  unfold check_C11_grid in H. rewrite check_C11_grid_eq in H. exact H.
Qed.

(* ---------- the linear-time reversal changes nothing ---------- *)

Lemma survival_fast_eq : forall (T : Type) (N : NumOps T) pdf, survival_fast N pdf = survival N pdf.
Proof. intros. unfold survival_fast, survival. rewrite <- rev_alt. reflexivity. Qed.

Theorem build_fast_eq : forall (T : Type) (N : NumOps T) m bg, build_fast N m bg = build N m bg.
Proof.
  intros. unfold build_fast, build.
  destruct (negb (forallb (fun row : list (cell T) => (length row =? length bg)%nat) m)); [reflexivity|].
  destruct (stage_a N m) as [[offset scale]| | |]; try reflexivity. cbn [rbind].
  destruct (pdf_of N bg (map (map (disc_cell N offset scale)) m)) as [pdf| | |]; try reflexivity. cbn [rbind].
  rewrite survival_fast_eq. reflexivity.
Qed.

(* ---------- dividing the common power of two out of the weights changes no tail ---------- *)

Lemma c11_red_spec : forall j bgz bgz' t, c11_red j bgz = (bgz', t) ->
  0 <= t <= j \/ t = 0 /\ bgz' = bgz.
Proof.
  intros j bgz bgz' t H. unfold c11_red in H. destruct (common_val2 bgz) as [tn|].
  - destruct ((Z.of_nat tn <=? j) && forallb (fun n => n =? 2 ^ Z.of_nat tn * (n / 2 ^ Z.of_nat tn)) bgz) eqn:E.
    + inversion H; subst. apply andb_true_iff in E. destruct E as [E _]. apply Z.leb_le in E. left. lia.
    + inversion H; subst. right. split; reflexivity.
  - inversion H; subst. right. split; reflexivity.
Qed.

Lemma c11_red_scaled : forall j bgz bgz' t, c11_red j bgz = (bgz', t) ->
  0 <= t /\ (t = 0 \/ t <= j) /\ bgz = map (Z.mul (2 ^ t)) bgz'.
Proof.
  intros j bgz bgz' t H. unfold c11_red in H.
  assert (forall l : list Z, l = map (Z.mul (2 ^ 0)) l) as Hid.
  { intros l. induction l as [|x l IH]; [reflexivity|]. cbn [map]. rewrite <- IH. f_equal. change (2 ^ 0) with 1. lia. }
  destruct (common_val2 bgz) as [tn|].
  - destruct ((Z.of_nat tn <=? j) && forallb (fun n => n =? 2 ^ Z.of_nat tn * (n / 2 ^ Z.of_nat tn)) bgz) eqn:E.
    + inversion H; subst. apply andb_true_iff in E. destruct E as [E1 E2]. apply Z.leb_le in E1.
      split; [lia|]. split; [right; exact E1|]. rewrite map_map. rewrite forallb_forall in E2.
      clear -E2. induction bgz as [|x l IH]; [reflexivity|]. cbn [map]. f_equal.
      * apply Z.eqb_eq. apply E2. left. reflexivity.
      * apply IH. intros y Hy. apply E2. right. exact Hy.
    + inversion H; subst. split; [lia|]. split; [left; reflexivity|apply Hid].
  - inversion H; subst. split; [lia|]. split; [left; reflexivity|apply Hid].
Qed.

Lemma Zsum_map_scal : forall (A : Type) (f : A -> Z) c l, Zsum (map (fun a => c * f a) l) = c * Zsum (map f l).
Proof. intros A f c l. induction l as [|a l IH]; cbn [map Zsum]; [lia|]. rewrite IH. lia. Qed.

Lemma combine_map_r : forall (A B C : Type) (f : B -> C) (l1 : list A) (l2 : list B),
  combine l1 (map f l2) = map (fun ab => (fst ab, f (snd ab))) (combine l1 l2).
Proof.
  induction l1 as [|a l1 IH]; intros l2; [reflexivity|]. destruct l2 as [|b l2]; [reflexivity|].
  cbn [map combine fst snd]. rewrite IH. reflexivity.
Qed.

(* scaling all weights by c scales every tail of the table of all words by c^M *)
Lemma word_table_scaled : forall c cz bgz thr,
  TZ (word_tableZ cz (map (Z.mul c) bgz)) thr = c ^ Z.of_nat (length cz) * TZ (word_tableZ cz bgz) thr.
Proof.
  intros c cz bgz. unfold word_tableZ.
  assert (forall n t1 t2, (forall thr, TZ t1 thr = c ^ Z.of_nat n * TZ t2 thr) ->
            forall thr, TZ (fold_left (table_stepZ (map (Z.mul c) bgz)) cz t1) thr =
                        c ^ Z.of_nat (n + length cz) * TZ (fold_left (table_stepZ bgz) cz t2) thr) as H.
  { induction cz as [|row r IH]; intros n t1 t2 Ht thr; cbn [fold_left length].
    - rewrite Nat.add_0_r. apply Ht.
    - replace (n + S (length r))%nat with (S n + length r)%nat by lia. apply IH. clear thr. intros thr.
      rewrite !TZ_table_stepZ. rewrite combine_map_r, map_map. rewrite <- Zsum_map_scal.
      apply Zsum_map_ext. intros [x b]. unfold stepZ_term. cbn [fst snd]. destruct x as [x|]; [|lia].
      rewrite Ht. rewrite Nat2Z.inj_succ, Z.pow_succ_r by lia. ring. }
  intros thr. apply (H 0%nat). intros thr'. change (c ^ Z.of_nat 0) with 1. lia.
Qed.

Lemma tail_dy_red : forall (grid : bool) cz bgz bgz' k j t q,
  0 <= t -> t <= j -> bgz = map (Z.mul (2 ^ t)) bgz' ->
  (tail_dy ((if grid then conv_tableZ else word_tableZ) cz bgz') k (j - t) (Z.of_nat (length cz)) q ==
   tail_dy (word_tableZ cz bgz) k j (Z.of_nat (length cz)) q)%Q.
Proof.
  intros grid cz bgz bgz' k j t q Ht Htj E. unfold tail_dy.
  set (thr := Qceiling (q * inject_Z (2 ^ k))).
  change (tail_tabZ (word_tableZ cz bgz) thr 0) with (TZ (word_tableZ cz bgz) thr).
  assert (tail_tabZ ((if grid then conv_tableZ else word_tableZ) cz bgz') thr 0 = TZ (word_tableZ cz bgz') thr) as E1.
  { destruct grid; [apply conv_table_tail|reflexivity]. }
  rewrite E1, E, word_table_scaled. set (M := Z.of_nat (length cz)). set (T' := TZ (word_tableZ cz bgz') thr).
  assert (0 <= M) as HM by (unfold M; lia).
  assert (2 ^ (j * M) = (2 ^ t) ^ M * 2 ^ ((j - t) * M)) as Ep.
  { rewrite <- Z.pow_mul_r by lia. rewrite <- Z.pow_add_r by nia. f_equal. ring. }
  rewrite Ep. rewrite !inject_Z_mult.
  assert (~ inject_Z ((2 ^ t) ^ M) == 0)%Q as N1.
  { change 0%Q with (inject_Z 0). rewrite inject_Z_injective. apply Z.pow_nonzero; [apply Z.pow_nonzero; lia|lia]. }
  assert (~ inject_Z (2 ^ ((j - t) * M)) == 0)%Q as N2.
  { change 0%Q with (inject_Z 0). rewrite inject_Z_injective. apply Z.pow_nonzero; [lia|nia]. }
  field. split; assumption.
Qed.

Lemma red_bracket_one_eq : forall (grid : bool) cz bgz bgz' k j t scale delta sp,
  0 <= t -> t <= j -> bgz = map (Z.mul (2 ^ t)) bgz' ->
  c11_bracket_one ((if grid then conv_tableZ else word_tableZ) cz bgz') k (j - t) scale (Z.of_nat (length cz)) delta sp =
  c11_bracket_one (word_tableZ cz bgz) k j scale (Z.of_nat (length cz)) delta sp.
Proof.
  intros grid cz bgz bgz' k j t scale delta sp Ht Htj E. unfold c11_bracket_one, chk_bracket_dy.
  rewrite !(tail_dy_red grid cz bgz bgz' k j t _ Ht Htj E). reflexivity.
Qed.

Lemma bracket_fails_red_eq : forall grid m bg br, c11_bracket_fails_red grid m bg br = c11_bracket_fails m bg br.
Proof.
  intros grid m bg br. unfold c11_bracket_fails_red, c11_bracket_fails.
  destruct br as [|b0 br']; [reflexivity|].
  destruct (q_stage_a (c11_qm m)) as [[o scale]| | |]; try reflexivity.
  destruct (Qle_bool scale 0); [reflexivity|].
  destruct (c11_red (c11_j bg) (c11_zb bg)) as [bgz' t] eqn:Er. cbv zeta.
  destruct (c11_red_scaled _ _ _ _ Er) as (Ht & Htj & E).
  assert (length (c11_zc m) = length m) as Hlen by (unfold c11_zc, dy_cells; rewrite !map_length; reflexivity).
  rewrite <- Hlen. f_equal. apply map_ext. intros sp.
  destruct Htj as [E0|Htj].
  - (* nothing divided: t = 0 *)
    subst t. replace (c11_j bg - 0) with (c11_j bg) by lia.
    assert (bgz' = c11_zb bg) as Eb.
    { rewrite E. clear. induction bgz' as [|x l IH]; [reflexivity|]. cbn [map]. rewrite <- IH. f_equal. change (2 ^ 0) with 1. lia. }
    rewrite Eb. destruct grid; [apply bracket_one_grid_eq|reflexivity].
  - apply red_bracket_one_eq; assumption.
Qed.

(* the checker with reduced weights (per word or per distinct score) is check_C11_fails *)
Theorem check_C11_red_eq : forall grid m bg sf pv br rt,
  check_C11_red_fails grid m bg sf pv br rt = check_C11_fails m bg sf pv br rt.
Proof.
  intros. unfold check_C11_red_fails, check_C11_fails. rewrite bracket_fails_red_eq. reflexivity.
Qed.
