(* The exact tail P(S >= t) of a dyadic matrix by convolution on the integer grid of its
   scores (definitions only; proofs in DistGrid.v).

   [word_tableZ] (DistInst.v) lists all K^M words; it is usable up to ~70000 words.  A long
   motif (27..40 columns) whose cells lie on a coarse grid has few *distinct* word scores:
   the table below keeps one entry per distinct score, adding up the integer weights of the
   words that share it, row after row (the way tfm's conv_dy convolves).  The entries are kept
   sorted by score so that the merge is linear; the theorems do not need the order.  It gives
   the same tails as the word table (DistGrid.conv_table_tail), hence the same exact
   probability [tail_exact] of the specification (DistGrid.tail_grid_correct); the bracket
   check through it is [c11_bracket_fails_grid], the checker [check_C11_grid_fails]. *)
From Coq Require Import List ZArith QArith Qround Qabs Bool Arith Lia.
From LMBase Require Import Res ListX IEEE.
From LMDist Require Import DistModel DistInst.
Import ListNotations.
Local Open Scope Z_scope.

(* union of two score tables, weights of equal scores added (a merge of sorted lists) *)
Fixpoint merge_add (a : list (Z * Z)) : list (Z * Z) -> list (Z * Z) :=
  fix go (b : list (Z * Z)) : list (Z * Z) :=
    match a, b with
    | [], _ => b
    | _, [] => a
    | (s1, p1) :: a', (s2, p2) :: b' =>
        match s1 ?= s2 with
        | Lt => (s1, p1) :: merge_add a' b
        | Eq => (s1, p1 + p2) :: merge_add a' b'
        | Gt => (s2, p2) :: go b'
        end
    end.

(* one row: for every symbol with a finite cell x and a non-zero weight w, the table shifted by x
   and scaled by w; all of them merged *)
Definition conv_stepZ (bg : list Z) (tab : list (Z * Z)) (row : list (option Z)) : list (Z * Z) :=
  fold_left (fun acc cb =>
               match fst cb with
               | Some x =>
                   if (snd cb =? 0) then acc
                   else merge_add acc (map (fun sp : Z * Z => (fst sp + x, snd cb * snd sp)) tab)
               | None => acc
               end) (combine row bg) [].

Definition conv_tableZ (m : list (list (option Z))) (bg : list Z) : list (Z * Z) :=
  fold_left (conv_stepZ bg) m [(0, 1)].

(* the bracket check of DistInst.c11_bracket_fails, through the grid table *)
Definition c11_bracket_fails_grid (m : list (list F64.t)) (bg : list F64.t) (br : list (F64.t * F64.t)) : list (nat * nat) :=
  match br with
  | [] => []
  | _ =>
    match q_stage_a (c11_qm m) with
    | Ok (_, scale) =>
        if Qle_bool scale 0 then []
        else
          let tab := conv_tableZ (c11_zc m) (c11_zb bg) in
          c11_index_fails 0 (map (c11_bracket_one tab (c11_k m) (c11_j bg) scale (Z.of_nat (length m)) (c11_delta m bg)) br)
    | _ => []
    end
  end.

(* the checker of property C11 with the brackets decided on the grid table (same failure kinds
   as DistInst.check_C11_fails) *)
Definition check_C11_grid_fails (m : list (list F64.t)) (bg : list F64.t) (sf : list F64.t)
    (pv br rt : list (F64.t * F64.t)) : list (nat * nat) :=
  if c11_in_scope m bg then
    c11_table_fails sf ++ c11_bracket_fails_grid m bg br ++
    (if f64_chk_mono pv then [] else [(6, 0)%nat]) ++
    c11_index_fails 0 (map (c11_rt_one (c11_delta m bg)) rt)
  else [].

Definition check_C11_grid (m : list (list F64.t)) (bg : list F64.t) (sf : list F64.t)
    (pv br rt : list (F64.t * F64.t)) : bool :=
  match check_C11_grid_fails m bg sf pv br rt with [] => true | _ => false end.

(* ---------- the same construction with a linear-time list reversal ----------
   [survival] reverses the pdf with the standard library's [rev] (quadratic: 14 s of the 15 s of
   the replay of a 30-column table).  [survival_fast] / [build_fast] use [rev_append]; they are the
   same functions (DistGrid.build_fast_eq, any carrier), and are what the driver runs. *)
Section Fast.
  Context {T : Type} (N : NumOps T).

  Definition survival_fast (pdf : list T) : res (list T * Z * Z) :=
    match rev_append pdf [] with
    | [] => Panic 8
    | [_] => Panic 8
    | last0 :: revrest =>
        let last := n_min1 N last0 in
        Ok (sf_loop N (Z.of_nat (length pdf) - 2) revrest last [last] 0 0)
    end.

  Definition build_fast (m : list (list (cell T))) (bg : list T) : res (dist T) :=
    if negb (forallb (fun row => (length row =? length bg)%nat) m) then Err 1 else
    os <- stage_a N m ;;
    let '(offset, scale) := os in
    let data := map (map (disc_cell N offset scale)) m in
    pdf <- pdf_of N bg data ;;
    s <- survival_fast pdf ;;
    let '(sf, mn, mx) := s in
    Ok {| d_scale_f := scale; d_offset := offset; d_rows := Z.of_nat (length m);
          d_data := data; d_sf := sf; d_min := mn; d_max := mx |}.
End Fast.

Definition f64_build_fast := build_fast F64Ops.

(* ---------- weights without their common power of two ----------
   The integer weights [c11_zb bg] are the background frequencies times 2^j with j the exponent of the
   finest one AS A FLOAT (53-bit mantissas: j >= 54 even for the uniform background), so the word
   weights have 54*M bits and more.  All of them share a factor 2^t; dividing it out (and using
   j - t for j) changes no tail (DistGrid.red_bracket_one_eq) and makes the integers M*(j-t) bits long
   (2*M for the uniform background).  The division is checked, not trusted: if it is not exact, or
   t > j, nothing is divided. *)
Fixpoint pos_val2 (p : positive) : nat :=
  match p with xO q => S (pos_val2 q) | _ => O end.

Definition common_val2 (l : list Z) : option nat :=
  fold_left (fun acc n =>
               match n with
               | Z0 => acc
               | Zpos p | Zneg p =>
                   match acc with None => Some (pos_val2 p) | Some a => Some (Nat.min a (pos_val2 p)) end
               end) l None.

Definition c11_red (j : Z) (bgz : list Z) : list Z * Z :=
  match common_val2 bgz with
  | None => (bgz, 0)
  | Some tn =>
      let t := Z.of_nat tn in
      let c := 2 ^ t in
      let bgz' := map (fun n => n / c) bgz in
      if (t <=? j) && forallb (fun n => n =? c * (n / c)) bgz then (bgz', t) else (bgz, 0)
  end.

(* the bracket check with reduced weights: [grid] selects the table per distinct score or per word *)
Definition c11_bracket_fails_red (grid : bool) (m : list (list F64.t)) (bg : list F64.t) (br : list (F64.t * F64.t)) : list (nat * nat) :=
  match br with
  | [] => []
  | _ =>
    match q_stage_a (c11_qm m) with
    | Ok (_, scale) =>
        if Qle_bool scale 0 then []
        else
          let '(bgz', t) := c11_red (c11_j bg) (c11_zb bg) in
          let tab := (if grid then conv_tableZ else word_tableZ) (c11_zc m) bgz' in
          c11_index_fails 0 (map (c11_bracket_one tab (c11_k m) (c11_j bg - t) scale (Z.of_nat (length m)) (c11_delta m bg)) br)
    | _ => []
    end
  end.

Definition check_C11_red_fails (grid : bool) (m : list (list F64.t)) (bg : list F64.t) (sf : list F64.t)
    (pv br rt : list (F64.t * F64.t)) : list (nat * nat) :=
  if c11_in_scope m bg then
    c11_table_fails sf ++ c11_bracket_fails_red grid m bg br ++
    (if f64_chk_mono pv then [] else [(6, 0)%nat]) ++
    c11_index_fails 0 (map (c11_rt_one (c11_delta m bg)) rt)
  else [].
