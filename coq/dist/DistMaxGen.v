(* max_score, for every numeric carrier (binary64 included): the survival loop sets it to the
   largest table index >= 1 whose entry is > 0 (its own comparison `p_iplus1 > 0.0`), or leaves it
   0 when no entry above index 0 is > 0.  Purely structural: no arithmetic fact is used, so the
   statement holds of the bit-exact model as it stands. *)
From Coq Require Import List ZArith Bool Arith Lia.
From LMBase Require Import Res ListX.
From LMDist Require Import DistModel.
Import ListNotations.
Local Open Scope Z_scope.

Section MaxGen.
  Context {T : Type} (N : NumOps T).
  Notation z := (n_zero N).

  Definition InvG (i : Z) (acc : list T) (mx : Z) : Prop :=
    (mx = 0 /\ forall n, (1 <= n < length acc)%nat -> gt0 N (nth n acc z) = false) \/
    (exists n, (1 <= n < length acc)%nat /\ mx = i + 1 + Z.of_nat n /\ gt0 N (nth n acc z) = true /\
               forall n', (n < n' < length acc)%nat -> gt0 N (nth n' acc z) = false).

  Lemma sf_loop_mx_gen : forall revrest i next rest mn mx sf mn' mx',
    Z.of_nat (length revrest) = i + 1 ->
    InvG i (next :: rest) mx ->
    sf_loop N i revrest next (next :: rest) mn mx = (sf, mn', mx') ->
    InvG (-1) sf mx'.
  Proof.
    induction revrest as [|p_i r IH]; intros i next rest mn mx sf mn' mx' Hlen Hinv H.
    - cbn in H. inversion H; subst. cbn [length] in Hlen. replace i with (-1) in Hinv by lia. exact Hinv.
    - cbn [sf_loop] in H. cbn [length] in Hlen.
      set (v := n_min1 N (n_add N p_i next)) in *.
      refine (IH (i - 1) v (next :: rest) _ _ _ _ _ _ _ H); [lia|]. clear H IH.
      destruct Hinv as [[Em Hz]|(n & Hn & Em & Hp & Hz)].
      + subst mx. change (0 =? 0) with true. cbn [andb]. destruct (gt0 N next) eqn:Eg.
        * right. exists 1%nat. cbn [length] in *. split; [lia|]. split; [lia|]. split; [exact Eg|].
          intros n' Hn'. destruct n' as [|n'']; [lia|]. cbn [nth]. apply Hz. lia.
        * left. split; [reflexivity|]. intros n Hn. destruct n as [|n']; [lia|]. cbn [nth].
          destruct n' as [|n'']; [exact Eg|]. apply (Hz (S n'')). cbn [length] in *. lia.
      + right. assert ((mx =? 0) = false) as E by (apply Z.eqb_neq; lia). rewrite E. cbn [andb].
        exists (S n). cbn [length] in *. split; [lia|]. split; [lia|]. split; [exact Hp|].
        intros n' Hn'. destruct n' as [|n'']; [lia|]. cbn [nth]. apply Hz. lia.
  Qed.

  Theorem survival_max_gen : forall pdf sf mn mx,
    survival N pdf = Ok (sf, mn, mx) ->
    (mx = 0 /\ forall k, (1 <= k < length sf)%nat -> gt0 N (nth k sf z) = false) \/
    ((1 <= Z.to_nat mx < length sf)%nat /\ 0 < mx /\ gt0 N (nth (Z.to_nat mx) sf z) = true /\
     forall k, (Z.to_nat mx < k < length sf)%nat -> gt0 N (nth k sf z) = false).
  Proof.
    intros pdf sf mn mx H. unfold survival in H.
    destruct (rev pdf) as [|lst revrest] eqn:E; [discriminate|].
    destruct revrest as [|y r]; [discriminate|].
    assert (sf_loop N (Z.of_nat (length pdf) - 2) (y :: r) (n_min1 N lst) [n_min1 N lst] 0 0 = (sf, mn, mx)) as Hrun by congruence.
    clear H.
    assert (length pdf = S (length (y :: r))) as Hl.
    { rewrite <- (rev_length pdf), E. reflexivity. }
    apply sf_loop_mx_gen in Hrun.
    - destruct Hrun as [[Em Hz]|(n & Hn & Em & Hp & Hz)].
      + left. split; assumption.
      + right. assert (mx = Z.of_nat n) as En by lia. rewrite En, Nat2Z.id.
        split; [exact Hn|]. split; [lia|]. split; [exact Hp|exact Hz].
    - lia.
    - left. split; [reflexivity|]. intros n Hn. cbn [length] in Hn. lia.
  Qed.

  (* on a built distribution: min_pvalue() = sf[max_score] answers, is > 0 whenever max_score <> 0, and
     nothing above max_score is > 0; when max_score = 0 no entry above index 0 is > 0 *)
  Theorem min_pvalue_gen : forall m bg d,
    build N m bg = Ok d ->
    exists q, d_min_pvalue d = Ok q /\ q = nth (Z.to_nat (d_max d)) (d_sf d) z /\ 0 <= d_max d /\
      (d_max d <> 0 -> gt0 N q = true) /\
      (forall k, (Z.to_nat (d_max d) < k < length (d_sf d))%nat -> (1 <= k)%nat -> gt0 N (nth k (d_sf d) z) = false).
  Proof.
    intros m bg d H. unfold build in H.
    destruct (negb (forallb (fun row : list (cell T) => (length row =? length bg)%nat) m)); [discriminate|].
    apply rbind_ok in H. destruct H as ([offset scale] & Ha & H).
    apply rbind_ok in H. destruct H as (pdf & Hp & H).
    apply rbind_ok in H. destruct H as ([[sf mn] mx] & Hs & H). inversion H; subst d; clear H. cbn [d_sf d_max].
    assert (sf <> []) as Hne.
    { unfold survival in Hs. destruct (rev pdf) as [|lst [|y r]]; try discriminate.
      inversion Hs as [Hrun]. intros C. subst sf.
      assert (forall revrest i next acc mn0 mx0 mn1 mx1, acc <> [] -> sf_loop N i revrest next acc mn0 mx0 <> ([], mn1, mx1)) as Hnn.
      { induction revrest as [|p rr IHr]; intros i next acc mn0 mx0 mn1 mx1 Hacc Hc.
        - cbn in Hc. inversion Hc. contradiction.
        - cbn [sf_loop] in Hc. eapply IHr; [|exact Hc]. discriminate. }
      eapply Hnn; [|exact Hrun]. discriminate. }
    destruct (survival_max_gen pdf sf mn mx Hs) as [[Em Hz]|(Hn & Hpos & Hp' & Hz)].
    - subst mx. unfold d_min_pvalue. cbn [d_sf d_max]. change (Z.to_nat 0) with 0%nat.
      destruct sf as [|x l]; [contradiction|]. cbn [nth_error nth]. change (0 <? 0) with false.
      exists x. split; [reflexivity|]. split; [reflexivity|]. split; [lia|]. split; [intros C; contradiction|].
      intros k Hk Hk1. apply Hz. lia.
    - unfold d_min_pvalue. cbn [d_sf d_max].
      destruct (nth_error sf (Z.to_nat mx)) as [x|] eqn:En.
      + assert ((mx <? 0) = false) as E by (apply Z.ltb_ge; lia). rewrite E.
        exists x. split; [reflexivity|]. rewrite (nth_error_nth _ _ z En).
        split; [reflexivity|]. split; [lia|]. split; [intros _; rewrite <- (nth_error_nth _ _ z En); exact Hp'|].
        intros k Hk _. apply Hz. exact Hk.
      + exfalso. apply nth_error_None in En. lia.
  Qed.
End MaxGen.
