(* The checker of C11 must not fail open: [c11_bracket_fails] (DistInst.v) answers "no failure" when the
   exact discretisation step cannot be established (stage A of the exact model fails, or a scale <= 0).
   [check_C11_strict_fails] adds failure kind 8 for exactly that situation -- bracket probes were handed
   over for a matrix inside the domain but could not be judged -- and kind 9 is never produced.  By
   DistStrict.bracket_always_judged kind 8 is unreachable for an alphabet of at least two symbols; the
   driver reports it as a broken tie, never as OK.  Definitions only (extracted). *)
From Coq Require Import List ZArith QArith Bool Arith.
From LMBase Require Import Res ListX IEEE.
From LMDist Require Import DistModel DistInst DistGridModel.
Import ListNotations.

Definition c11_bracket_unjudged (m : list (list F64.t)) (br : list (F64.t * F64.t)) : bool :=
  match br with
  | [] => false
  | _ => match q_stage_a (c11_qm m) with
         | Ok (_, scale) => Qle_bool scale 0
         | _ => true
         end
  end.

Definition check_C11_strict_fails (grid : bool) (m : list (list F64.t)) (bg : list F64.t) (sf : list F64.t)
    (pv br rt : list (F64.t * F64.t)) : list (nat * nat) :=
  check_C11_red_fails grid m bg sf pv br rt ++
  (if c11_in_scope m bg && c11_bracket_unjudged m br then [(8, 0)%nat] else []).

Definition check_C11_strict (grid : bool) (m : list (list F64.t)) (bg : list F64.t) (sf : list F64.t)
    (pv br rt : list (F64.t * F64.t)) : bool :=
  match check_C11_strict_fails grid m bg sf pv br rt with [] => true | _ => false end.

(* the matrices of the property's domain that the construction accepts at all: some non-infinite cell
   (M >= 1 and, inside the domain, at least one non-wildcard symbol).  For the others
   `to_score_distribution` is the documented panic of min_by(..).unwrap() (model: Panic 1). *)
Definition c11_has_finite_cell (m : list (list F64.t)) : bool :=
  existsb (existsb F64.is_finite) m.

(* ---------- computable hypotheses of the binary64 theorems (DistPdfIEEE / DistMonoBuilt), evaluated by the
   driver on every case so that the share of cases they cover is reported ---------- *)

(* the background as the Rust type guarantees it (`Background::new`, `from_counts`): finite doubles in [0,1] *)
Definition f64_bg_ok (bg : list F64.t) : bool :=
  forallb (fun b => F64.is_finite b && F64.le F64.zero b && F64.le b f64_one) bg.

(* bits needed for the number of symbols + 1 *)
Definition sym_bits (K : nat) : Z := Z.log2_up (Z.of_nat K + 1).

(* the dimensions for which the crude bound 2^(c*M) on the density stays below the overflow threshold:
   c <= 52, c * M <= 1023 and M <= 1023 (DNA, K = 5: c = 3, M <= 341; protein, K = 21: c = 5, M <= 204) *)
Definition f64_dims_ok (K M : nat) : bool :=
  (sym_bits K <=? 52)%Z && (sym_bits K * Z.of_nat M <=? 1023)%Z && (Z.of_nat M <=? 1023)%Z.

(* what is left of DistMonoIEEE.f64_mono_pred once the table part is derived from the construction: a
   function of scale, offset and the number of rows only *)
Definition f64_scale_pred (d : dist F64.t) : bool :=
  F64.is_finite (d_wo F64Ops d) && F64.is_finite (d_scale_f d) && F64.lt F64.zero (d_scale_f d).

(* ---------- the matrices for which the scale part is DERIVED (DistScaleIEEE.scale_pred_f32): cells given as
   f32 bit patterns (what the harness prints and the driver feeds to the model), no NaN, and at least two
   different non-infinite cells ---------- *)
Definition f32_no_nan (mb : list (list Z)) : bool :=
  forallb (forallb (fun b => negb (F32.is_nan (F32.of_bits b)))) mb.
Definition f64_nonconst (cells : list F64.t) : bool :=
  match cells with [] => false | x :: r => existsb (fun y => negb (F64.eq x y)) r end.
Definition f32_matrix_ok (mb : list (list Z)) : bool :=
  f32_no_nan mb && f64_nonconst (finite_cells F64Ops (map (map f32_cell) mb)).
(* ... or constant with cells of magnitude at most 2^52 (DistScaleIEEE.scale_pred_f32_const) *)
Definition f64_small52 (x : F64.t) : bool := F64.le (F64.abs x) (F64.of_Z (2 ^ 52)).
Definition f32_matrix_ok_const (mb : list (list Z)) : bool :=
  let cells := finite_cells F64Ops (map (map f32_cell) mb) in
  f32_no_nan mb && negb (f64_nonconst cells) && forallb f64_small52 cells &&
  match cells with [] => false | _ => true end.
(* the union: every NaN-free f32 matrix with a finite cell except the constant ones beyond 2^52 *)
Definition f32_matrix_ok_any (mb : list (list Z)) : bool := f32_matrix_ok mb || f32_matrix_ok_const mb.
