(* Stretch lemmas over the exact-rational model: the pdf is the distribution of the
   discretised score, the p-value brackets the exact tail, the round trip. *)
From Coq Require Import List ZArith QArith Qround Qabs Bool Arith Lia Lqa.
From LMBase Require Import Res ListX IEEE.
From LMDist Require Import DistModel DistInst DistProofs DistConv DistTail DistBuild DistThms DistDyadic.
Import ListNotations.
Local Open Scope Q_scope.

Opaque cdf_range.

Theorem pdf_is_distribution_Q : forall m bg d,
  build QOps m bg = Ok d ->
  exists pdf, pdf_of QOps bg (d_data d) = Ok pdf /\
    length pdf = (length m * cdf_range + 1)%nat /\
    (forall j, (j < length pdf)%nat -> nth j pdf 0 == pmfD (d_data d) bg (Z.of_nat j)) /\
    (forall k, (k < 0 \/ Z.of_nat (length m * cdf_range) < k)%Z -> pmfD (d_data d) bg k == 0).
Proof.
  intros m bg d H. apply build_Q_inv in H.
  destruct H as (offset & scale & pdf & Ha & Hlen & Hdata & Hpdf & Hsurv & Hsc & Hoff & Hrows).
  apply stage_a_Q in Ha. pose proof (data_row_ok m offset scale Ha) as Hok. rewrite <- Hdata in Hok.
  assert (length (d_data d) = length m) as Hld by (rewrite Hdata, map_length; reflexivity).
  destruct (pdf_of_pointwise bg (d_data d) pdf Hok Hpdf) as (Hlp & Hpw & Hsup). rewrite Hld in Hlp, Hsup.
  exists pdf. split; [exact Hpdf|]. split; [exact Hlp|]. split.
  - intros j Hj. rewrite (Hpw j Hj). apply pmf_of_tailD.
  - intros k Hk. rewrite <- pmf_of_tailD. apply Hsup, Hk.
Qed.

(* ====================================================================== *)
(* Coupling of the exact tail of S with the exact tail of D:               *)
(*   P(S >= (k + n/2)/scale + n*off) <= P(D >= k) <= P(S >= (k - n/2)/scale + n*off) *)
(* ====================================================================== *)

Definition antitoneQ (F : Q -> Q) : Prop := forall t t', t <= t' -> F t' <= F t.

Lemma antitoneQ_proper : forall F, antitoneQ F -> forall t t', t == t' -> F t == F t'.
Proof.
  intros F HF t t' E. apply Qle_antisym; apply HF; rewrite E; apply Qle_refl.
Qed.

Lemma base_tail_antitone : antitoneQ base_tail.
Proof.
  intros t t' H. unfold base_tail. destruct (Qle_bool t' 0) eqn:E1; destruct (Qle_bool t 0) eqn:E2; try lra.
  apply Qle_bool_true in E1. apply Qle_bool_false in E2. lra.
Qed.

Lemma in_combine_bgQ : forall (row : list (cell Q)) bg c b, bg_nonneg bg -> In (c, b) (combine row bg) -> 0 <= b.
Proof.
  intros row bg c b Hbg Hin. apply in_combine_r in Hin. unfold bg_nonneg in Hbg.
  rewrite Forall_forall in Hbg. apply Hbg. exact Hin.
Qed.

Lemma tail_step_antitone : forall bg F row, bg_nonneg bg -> antitoneQ F -> antitoneQ (tail_step bg F row).
Proof.
  intros bg F row Hbg HF t t' Ht. unfold tail_step. apply Qsum_map_le. intros [c b] Hin. cbn [fst snd].
  destruct c as [x|]; [|lra]. pose proof (in_combine_bgQ _ _ _ _ Hbg Hin) as Hb.
  assert (F (t' - x) <= F (t - x)) as HFx by (apply HF; lra).
  rewrite (Qmult_comm b), (Qmult_comm b). apply Qmult_le_compat_r; assumption.
Qed.

Lemma tail_exact_antitone : forall m bg, bg_nonneg bg -> antitoneQ (tail_exact m bg).
Proof.
  intros m bg Hbg. unfold tail_exact.
  assert (forall rows F, antitoneQ F -> antitoneQ (fold_left (tail_step bg) rows F)) as H.
  { induction rows as [|row r IH]; intros F HF; cbn [fold_left]; [exact HF|].
    apply IH. apply tail_step_antitone; assumption. }
  apply H. exact base_tail_antitone.
Qed.

Lemma Qdiv_le_compat : forall a b s, 0 < s -> a <= b -> a / s <= b / s.
Proof.
  intros a b s Hs Hab. unfold Qdiv. apply Qmult_le_compat_r; [exact Hab|].
  apply Qinv_le_0_compat. lra.
Qed.

Section Coupling.
  Variables (offset scale : Q).
  Hypothesis Hscale : 0 < scale.

  Definition disc (c : cell Q) : Z := disc_cell QOps offset scale c.

  (* every finite cell of the rows considered: not skipped, within half a step *)
  Definition cells_ok (rows : list (list (cell Q))) : Prop :=
    forall row c, In row rows -> In c row ->
      match c with
      | CFin x => disc c <> i32_min /\
                  (x - offset) * scale - (1 # 2) <= inject_Z (disc c) /\
                  inject_Z (disc c) <= (x - offset) * scale + (1 # 2)
      | CNInf => disc c = i32_min
      end.

  Definition lo_arg (n : nat) (k : Z) : Q :=
    (inject_Z k + inject_Z (Z.of_nat n) * (1 # 2)) / scale + inject_Z (Z.of_nat n) * offset.
  Definition hi_arg (n : nat) (k : Z) : Q :=
    (inject_Z k - inject_Z (Z.of_nat n) * (1 # 2)) / scale + inject_Z (Z.of_nat n) * offset.

  Record Coupled (n : nat) (F : Q -> Q) (G : Z -> Q) : Prop := {
    cp_anti : antitoneQ F;
    cp_lo : forall k, F (lo_arg n k) <= G k;
    cp_hi : forall k, G k <= F (hi_arg n k)
  }.

  Lemma combine_map_l : forall (A B C : Type) (f : A -> C) (l1 : list A) (l2 : list B),
    combine (map f l1) l2 = map (fun ab => (f (fst ab), snd ab)) (combine l1 l2).
  Proof.
    induction l1 as [|a l1 IH]; intros l2; [reflexivity|]. destruct l2 as [|b l2]; [reflexivity|].
    cbn. rewrite IH. reflexivity.
  Qed.

  Lemma inject_S : forall n, inject_Z (Z.of_nat (S n)) == inject_Z (Z.of_nat n) + 1.
  Proof. intros n. rewrite Nat2Z.inj_succ. unfold Z.succ. rewrite inject_Z_plus. reflexivity. Qed.

  Lemma coupled_step : forall bg n F G row,
    bg_nonneg bg -> cells_ok [row] -> Coupled n F G ->
    Coupled (S n) (tail_step bg F row) (tailD_step bg G (map disc row)).
  Proof.
    intros bg n F G row Hbg Hok [Ha Hlo Hhi].
    assert (~ scale == 0) as Hnz by lra.
    constructor.
    - apply tail_step_antitone; assumption.
    - intros k. unfold tail_step, tailD_step. rewrite combine_map_l, map_map.
      apply Qsum_map_le. intros [c b] Hin. cbn [fst snd].
      pose proof (in_combine_bgQ _ _ _ _ Hbg Hin) as Hb.
      pose proof (Hok row c (or_introl eq_refl) (in_combine_l _ _ _ _ Hin)) as Hc.
      destruct c as [x|].
      + destruct Hc as (Hne & Hc1 & Hc2). apply Z.eqb_neq in Hne. rewrite Hne.
        rewrite (Qmult_comm b), (Qmult_comm b). apply Qmult_le_compat_r; [|exact Hb].
        eapply Qle_trans; [|apply Hlo]. apply Ha.
        unfold lo_arg. rewrite inject_S. unfold Zminus. rewrite inject_Z_plus, inject_Z_opp.
        set (kx := inject_Z (disc (CFin x))) in *. set (nq := inject_Z (Z.of_nat n)) in *.
        set (kq := inject_Z k) in *. set (y := (x - offset) * scale) in *.
        assert ((kq + (nq + 1) * (1 # 2)) / scale + (nq + 1) * offset - x ==
                (kq + (nq + 1) * (1 # 2) - y) / scale + nq * offset) as E by (unfold y; field; exact Hnz).
        rewrite E. apply Qplus_le_l. apply Qdiv_le_compat; [exact Hscale|]. lra.
      + rewrite Hc. rewrite Z.eqb_refl. lra.
    - intros k. unfold tail_step, tailD_step. rewrite combine_map_l, map_map.
      apply Qsum_map_le. intros [c b] Hin. cbn [fst snd].
      pose proof (in_combine_bgQ _ _ _ _ Hbg Hin) as Hb.
      pose proof (Hok row c (or_introl eq_refl) (in_combine_l _ _ _ _ Hin)) as Hc.
      destruct c as [x|].
      + destruct Hc as (Hne & Hc1 & Hc2). apply Z.eqb_neq in Hne. rewrite Hne.
        rewrite (Qmult_comm b), (Qmult_comm b). apply Qmult_le_compat_r; [|exact Hb].
        eapply Qle_trans; [apply Hhi|]. apply Ha.
        unfold hi_arg. rewrite inject_S. unfold Zminus. rewrite inject_Z_plus, inject_Z_opp.
        set (kx := inject_Z (disc (CFin x))) in *. set (nq := inject_Z (Z.of_nat n)) in *.
        set (kq := inject_Z k) in *. set (y := (x - offset) * scale) in *.
        assert ((kq - (nq + 1) * (1 # 2)) / scale + (nq + 1) * offset - x ==
                (kq - (nq + 1) * (1 # 2) - y) / scale + nq * offset) as E by (unfold y; field; exact Hnz).
        rewrite E. apply Qplus_le_l. apply Qdiv_le_compat; [exact Hscale|]. lra.
      + rewrite Hc. rewrite Z.eqb_refl. lra.
  Qed.

  Lemma coupled_base : Coupled 0 base_tail base_tailD.
  Proof.
    assert (~ scale == 0) as Hnz by lra.
    constructor; [exact base_tail_antitone| |].
    - intros k. unfold lo_arg, base_tail, base_tailD. change (inject_Z (Z.of_nat 0)) with 0.
      assert ((inject_Z k + 0 * (1 # 2)) / scale + 0 * offset == inject_Z k / scale) as E by (field; exact Hnz).
      destruct (Qle_bool _ 0) eqn:E1; destruct (k <=? 0)%Z eqn:E2; try lra.
      apply Qle_bool_true in E1. apply Z.leb_gt in E2. rewrite E in E1. exfalso.
      assert (0 < inject_Z k) as Hk by (change 0 with (inject_Z 0); rewrite <- Zlt_Qlt; lia).
      assert (0 < inject_Z k / scale) by (apply Qlt_shift_div_l; lra). lra.
    - intros k. unfold hi_arg, base_tail, base_tailD. change (inject_Z (Z.of_nat 0)) with 0.
      assert ((inject_Z k - 0 * (1 # 2)) / scale + 0 * offset == inject_Z k / scale) as E by (field; exact Hnz).
      destruct (Qle_bool _ 0) eqn:E1; destruct (k <=? 0)%Z eqn:E2; try lra.
      apply Qle_bool_false in E1. apply Z.leb_le in E2. rewrite E in E1. exfalso.
      assert (inject_Z k <= 0) as Hk by (change 0 with (inject_Z 0); rewrite <- Zle_Qle; lia).
      assert (inject_Z k / scale <= 0 / scale) by (apply Qdiv_le_compat; lra).
      assert (0 / scale == 0) as E0 by (field; exact Hnz). lra.
  Qed.

  Theorem tails_coupled : forall bg m, bg_nonneg bg -> cells_ok m ->
    Coupled (length m) (tail_exact m bg) (tailD (map (map disc) m) bg).
  Proof.
    intros bg m Hbg Hok. unfold tail_exact, tailD.
    assert (forall rows n F G, cells_ok rows -> Coupled n F G ->
              Coupled (n + length rows) (fold_left (tail_step bg) rows F)
                      (fold_left (tailD_step bg) (map (map disc) rows) G)) as H.
    { induction rows as [|row r IH]; intros n F G Hr HC.
      - cbn [map fold_left length]. rewrite Nat.add_0_r. exact HC.
      - cbn [map fold_left length]. replace (n + S (length r))%nat with (S n + length r)%nat by lia.
        apply IH.
        + intros row' c Hrow' Hc. apply (Hr row' c); [right; exact Hrow'|exact Hc].
        + apply coupled_step; [exact Hbg| |exact HC].
          intros row' c [E|[]] Hc. subst row'. apply (Hr row c); [left; reflexivity|exact Hc]. }
    apply (H m 0%nat base_tail base_tailD Hok coupled_base).
  Qed.
End Coupling.

(* ====================================================================== *)
(* p-value brackets                                                        *)
(* ====================================================================== *)

Lemma tail_step_nonneg : forall bg F row, bg_nonneg bg -> (forall t, 0 <= F t) -> forall t, 0 <= tail_step bg F row t.
Proof.
  intros bg F row Hbg HF t. unfold tail_step. apply Qsum_map_nonneg. intros [c b] Hin. cbn [fst snd].
  destruct c as [x|]; [|lra]. apply Qmult_le_0_compat; [eapply in_combine_bgQ; eauto|apply HF].
Qed.

Lemma tail_exact_nonneg : forall m bg t, bg_nonneg bg -> 0 <= tail_exact m bg t.
Proof.
  intros m bg t Hbg. unfold tail_exact.
  assert (forall rows F, (forall t, 0 <= F t) -> forall t, 0 <= fold_left (tail_step bg) rows F t) as H.
  { induction rows as [|row r IH]; intros F HF u; cbn [fold_left]; [apply HF|].
    apply IH. apply tail_step_nonneg; assumption. }
  apply H. intros u. unfold base_tail. destruct (Qle_bool u 0); lra.
Qed.

Lemma Qtrunc_inject_Z : forall z, Qtrunc (inject_Z z) = z.
Proof.
  intros z. unfold Qtrunc. destruct (Qle_bool 0 (inject_Z z)); [apply Qfloor_Z|apply Qceiling_Z].
Qed.

Lemma cells_ok_of_spec : forall m offset scale,
  stage_a_spec m offset scale -> cells_ok offset scale m.
Proof.
  intros m offset scale Hs row c Hrow Hc. destruct c as [x|].
  - destruct (disc_cell_fin m offset scale x Hs (in_finite_cells _ _ _ Hrow Hc)) as [Hk He]. cbv zeta in *.
    unfold disc. apply Qabs_Qle_condition in He. destruct He as [He1 He2].
    split; [unfold i32_min; lia|]. split; lra.
  - unfold disc. cbn [disc_cell]. destruct Hs as (_ & H0 & _). apply disc_ninf_Q. exact H0.
Qed.

Lemma dmass_row_mass : forall offset scale bg row,
  cells_ok offset scale [row] -> dmass bg (map (disc offset scale) row) == row_mass bg row.
Proof.
  intros offset scale bg row Hok. unfold dmass, row_mass. rewrite combine_map_l, map_map.
  apply Qsum_map_ext. intros [c b] Hin. cbn [fst snd].
  pose proof (Hok row c (or_introl eq_refl) (in_combine_l _ _ _ _ Hin)) as Hc. destruct c as [x|].
  - destruct Hc as [Hne _]. apply Z.eqb_neq in Hne. rewrite Hne. reflexivity.
  - rewrite Hc, Z.eqb_refl. reflexivity.
Qed.

Lemma dmass_all_one : forall offset scale bg m,
  cells_ok offset scale m -> Forall (fun row => row_mass bg row == 1) m ->
  dmass_all bg (map (map (disc offset scale)) m) == 1.
Proof.
  intros offset scale bg m. induction m as [|row r IH]; intros Hok Hm; cbn [map dmass_all]; [reflexivity|].
  inversion Hm as [|? ? H1 Hr]; subst. rewrite dmass_row_mass, H1, IH; [ring| |exact Hr|].
  - intros row' c Hrow' Hc. apply (Hok row' c); [right; exact Hrow'|exact Hc].
  - intros row' c [E|[]] Hc. subst row'. apply (Hok row c); [left; reflexivity|exact Hc].
Qed.

(* no mass below n: the tail at n is the tail at 0 *)
Lemma tail_flat : forall data bg (n : nat),
  (forall j, (j < n)%nat -> pmfD data bg (Z.of_nat j) == 0) ->
  tailD data bg (Z.of_nat n) == tailD data bg 0.
Proof.
  intros data bg n. induction n as [|n IH]; intros H; [reflexivity|].
  rewrite Nat2Z.inj_succ. unfold Z.succ.
  assert (pmfD data bg (Z.of_nat n) == 0) as Hn by (apply H; lia). unfold pmfD in Hn.
  rewrite <- IH by (intros j Hj; apply H; lia). lra.
Qed.

(* what d_scale computes *)
Lemma d_scale_Q_value : forall d s r,
  d_scale QOps d s = Ok r ->
  r = clamp_i32 (Qround_away ((s - inject_Z (d_rows d) * d_offset d) * d_scale_f d)).
Proof. intros d s r H. unfold d_scale in H. inversion H; subst. reflexivity. Qed.

Lemma as_usize_nonneg : forall r, (0 <= r)%Z -> as_usize r = r.
Proof. intros r H. unfold as_usize. destruct (r <? 0)%Z eqn:E; [apply Z.ltb_lt in E; lia|reflexivity]. Qed.

Opaque cdf_range.

Theorem pvalue_brackets_exact_Q : forall m bg d offset scale s p,
  bg_nonneg bg -> Qsum bg <= 1 ->
  build QOps m bg = Ok d -> stage_a QOps m = Ok (offset, scale) ->
  (Z.of_nat (length m) * 1000 < i32_max)%Z ->
  d_pvalue QOps d s = Ok p ->
  let dd := (inject_Z (Z.of_nat (length m)) / 2 + 1) / scale in
  tail_exact m bg (s + dd) <= p /\ p <= tail_exact m bg (s - dd).
Proof.
  intros m bg d offset scale s p Hbg Hm Hb Ha Hlen Hp dd.
  destruct (build_Q_table m bg d Hbg Hm Hb) as (Hlsf & Hsf & Hok & Hld & [Hmin0 Hminle] & Hminz).
  pose proof (sf_nonempty m bg d Hbg Hb) as Hne.
  apply build_Q_inv in Hb.
  destruct Hb as (offset' & scale' & pdf & Ha' & _ & Hdata & _ & _ & Hscf & Hdoff & Hrows).
  assert (offset' = offset /\ scale' = scale) as [Eo Es] by (rewrite Ha in Ha'; inversion Ha'; auto).
  rewrite Eo, Es in *. clear Eo Es Ha' offset' scale'.
  pose proof (stage_a_Q m offset scale Ha) as Hspec.
  pose proof (cells_ok_of_spec m offset scale Hspec) as Hcells.
  assert (0 < scale) as Hsc by (destruct Hspec as (_ & H0 & _); exact H0).
  pose proof (tails_coupled offset scale Hsc bg m Hbg Hcells) as [Hanti Hlo Hhi].
  assert (map (map (disc offset scale)) m = d_data d) as Edata by (rewrite Hdata; reflexivity).
  rewrite Edata in Hlo, Hhi.
  pose proof (tailD_facts bg (d_data d) Hbg Hok) as [HTanti HTnn HTlow HThigh]. rewrite Hld in HThigh.
  (* the scaled score *)
  rewrite (d_pvalue_idx QOps) in Hp by exact Hne.
  apply rbind_ok in Hp. destruct Hp as (r & Hr & Ep). inversion Ep; subst p. clear Ep.
  apply d_scale_Q_value in Hr. rename Hr into Er.
  set (Mq := inject_Z (Z.of_nat (length m))) in *.
  set (y := (s - Mq * offset) * scale).
  assert ((s - inject_Z (d_rows d) * d_offset d) * d_scale_f d == y) as Ey.
  { unfold y, Mq. rewrite Hrows, Hdoff, Hscf. reflexivity. }
  set (r0 := Qround_away ((s - inject_Z (d_rows d) * d_offset d) * d_scale_f d)) in *.
  destruct (Qround_away_err ((s - inject_Z (d_rows d) * d_offset d) * d_scale_f d)) as [Hr1 Hr2].
  fold r0 in Hr1, Hr2. rewrite Ey in Hr1, Hr2.
  assert (~ scale == 0) as Hnz by lra.
  assert (s + dd == (y + Mq * (1 # 2) + 1) / scale + Mq * offset) as Esp by (unfold dd, y; field; exact Hnz).
  assert (s - dd == (y - Mq * (1 # 2) - 1) / scale + Mq * offset) as Esm by (unfold dd, y; field; exact Hnz).
  assert (forall k, inject_Z k <= y + 1 -> tail_exact m bg (s + dd) <= tailD (d_data d) bg k) as Hlow.
  { intros k Hk. eapply Qle_trans; [|apply Hlo]. apply Hanti. rewrite Esp. unfold lo_arg. fold Mq.
    apply Qplus_le_l. apply Qdiv_le_compat; [exact Hsc|]. lra. }
  assert (forall k, y - 1 <= inject_Z k -> tailD (d_data d) bg k <= tail_exact m bg (s - dd)) as Hupp.
  { intros k Hk. eapply Qle_trans; [apply Hhi|]. apply Hanti. rewrite Esm. unfold hi_arg. fold Mq.
    apply Qplus_le_l. apply Qdiv_le_compat; [exact Hsc|]. lra. }
  assert (Z.of_nat (length (d_sf d)) = Z.of_nat (length m) * 1000 + 1)%Z as Hlz.
  { rewrite Hlsf. rewrite Nat2Z.inj_add, Nat2Z.inj_mul, cdf_range_Z. reflexivity. }
  assert (0 < length (d_sf d))%nat as Hlen0 by (destruct (d_sf d); [contradiction|cbn; lia]).
  unfold pv_idx. cbn [n_one n_zero QOps].
  destruct (r <? d_min d)%Z eqn:E1.
  - (* below the minimum: sf[0] = P(D >= 0) = P(D >= r + 1) *)
    apply Z.ltb_lt in E1.
    assert (nth 0 (d_sf d) 0 == tailD (d_data d) bg 0) as E0 by (apply (Hsf 0%nat Hlen0)).
    rewrite E0.
    assert (tailD (d_data d) bg (Z.max 0 (r + 1)) == tailD (d_data d) bg 0) as Eflat.
    { destruct (Z.lt_ge_cases r 0) as [Hneg|Hpos].
      - replace (Z.max 0 (r + 1)) with 0%Z by lia. reflexivity.
      - replace (Z.max 0 (r + 1)) with (Z.of_nat (Z.to_nat (r + 1))) by lia.
        apply tail_flat. intros j Hj. apply Hminz. lia. }
    split.
    + destruct (Z.lt_ge_cases r0 0) as [Hneg|Hpos].
      * eapply Qle_trans; [apply (Hlow r0); lra|]. rewrite (HTlow r0) by lia. rewrite (HTlow 0%Z) by lia. apply Qle_refl.
      * eapply Qle_trans; [apply (Hlow r0); lra|]. apply HTanti. exact Hpos.
    + rewrite <- Eflat. apply Hupp.
      assert (r0 <= r)%Z as Hr0.
      { rewrite Er. unfold clamp_i32, i32_min, i32_max in *. lia. }
      assert (inject_Z r0 <= inject_Z (Z.max 0 (r + 1))) by (rewrite <- Zle_Qle; lia). lra.
  - apply Z.ltb_ge in E1. rewrite as_usize_nonneg by lia.
    destruct (Z.of_nat (length (d_sf d)) <=? r)%Z eqn:E2.
    + (* above the table: 0.0 *)
      apply Z.leb_le in E2.
      assert (r <= r0)%Z as Hr0.
      { rewrite Er. unfold clamp_i32, i32_min, i32_max in *. rewrite Er in E2. unfold clamp_i32 in E2. lia. }
      split.
      * assert (tailD (d_data d) bg r == 0) as E by (apply HThigh; rewrite Nat2Z.inj_mul, cdf_range_Z; lia).
        rewrite <- E. apply Hlow.
        assert (inject_Z r <= inject_Z r0) by (rewrite <- Zle_Qle; exact Hr0). lra.
      * apply tail_exact_nonneg. exact Hbg.
    + (* inside the table *)
      apply Z.leb_gt in E2.
      assert (r = r0) as Err.
      { rewrite Er. apply clamp_i32_id. rewrite Er in E1, E2. unfold clamp_i32, i32_min, i32_max in *. lia. }
      assert (nth (Z.to_nat r) (d_sf d) 0 == tailD (d_data d) bg r) as Esf.
      { rewrite Hsf by lia. rewrite Z2Nat.id by lia. reflexivity. }
      rewrite Esf. rewrite Err. split; [apply Hlow; lra|apply Hupp; lra].
Qed.

(* ====================================================================== *)
(* binary search and the round trip                                        *)
(* ====================================================================== *)

Section BSearch.
  Variables (sf : list Q) (p : Q).
  Hypothesis Hmono : forall i j, (i <= j < length sf)%nat -> nth j sf 0 <= nth i sf 0.

  Definition bs_inv (base size : nat) : Prop :=
    forall i, (base + size <= i < length sf)%nat -> nth i sf 0 < p.

  Lemma bs_loop_spec : forall fuel base size b,
    bs_inv base size -> bs_loop QOps sf p fuel base size = Ok b ->
    forall i, (b + 1 <= i < length sf)%nat -> nth i sf 0 < p.
  Proof.
    induction fuel as [|f IH]; intros base size b Hinv H.
    - cbn [bs_loop] in H. destruct (size <=? 1)%nat eqn:E; [|discriminate]. inversion H; subst.
      apply Nat.leb_le in E. intros i Hi. apply Hinv. lia.
    - cbn [bs_loop] in H. destruct (size <=? 1)%nat eqn:E.
      + inversion H; subst. apply Nat.leb_le in E. intros i Hi. apply Hinv. lia.
      + apply Nat.leb_gt in E.
        destruct (nth_error sf (base + size / 2)) as [x|] eqn:En; [|discriminate].
        cbn [n_cmp QOps] in H.
        assert (nth (base + size / 2) sf 0 = x) as Ex by (apply nth_error_nth; exact En).
        assert (base + size / 2 < length sf)%nat as Hlt by (apply nth_error_Some; congruence).
        assert (1 <= size / 2)%nat as Hhalf by (apply Nat.div_le_lower_bound; lia).
        assert (size / 2 <= size - size / 2)%nat as Hh2.
        { pose proof (Nat.div_mod size 2 ltac:(lia)). lia. }
        destruct (p ?= x) eqn:Ec; refine (IH _ _ _ _ H).
        * intros i Hi. apply Hinv. lia.
        * intros i Hi. apply Hinv. lia.
        * apply Qgt_alt in Ec. intros i Hi.
          eapply Qle_lt_trans; [apply (Hmono (base + size / 2)%nat i); lia|]. rewrite Ex. exact Ec.
  Qed.

  Lemma bsearch_spec : forall x, bsearch QOps sf p = Ok x ->
    (x <= length sf)%nat /\ ((x < length sf)%nat -> nth x sf 0 <= p).
  Proof.
    intros x H. unfold bsearch in H. destruct sf as [|y l] eqn:Esf.
    - inversion H; subst. cbn. split; [lia|]. intros C. lia.
    - rewrite <- Esf in *. apply rbind_ok in H. destruct H as (b & Hb & H).
      assert (bs_inv 0 (length sf)) as H0 by (intros i Hi; lia).
      pose proof (bs_loop_spec _ _ _ _ H0 Hb) as Hsp.
      destruct (nth_error sf b) as [v|] eqn:En; [|discriminate].
      assert (nth b sf 0 = v) as Ev by (apply nth_error_nth; exact En).
      assert (b < length sf)%nat as Hlt by (apply nth_error_Some; congruence).
      cbn [n_cmp QOps] in H. destruct (p ?= v) eqn:Ec; inversion H; subst x.
      + apply Qeq_alt in Ec. split; [lia|]. intros _. rewrite Ev, Ec. apply Qle_refl.
      + split; [lia|]. intros Hl. apply Qlt_le_weak. apply Hsp. lia.
      + apply Qgt_alt in Ec. split; [lia|]. intros _. rewrite Ev. apply Qlt_le_weak. exact Ec.
  Qed.
End BSearch.

Lemma Qround_away_comp : forall x y, x == y -> Qround_away x = Qround_away y.
Proof.
  intros x y E. apply Z.le_antisymm; apply Qround_away_mono; rewrite E; apply Qle_refl.
Qed.

Lemma Qround_away_nat : forall n : nat, Qround_away (inject_Z (Z.of_nat n)) = Z.of_nat n.
Proof.
  intros n. unfold Qround_away.
  assert (0 <= inject_Z (Z.of_nat n)) as H0 by (apply inject_Z_nonneg; lia).
  apply Qle_bool_iff in H0. rewrite H0. apply Qfloor_unique.
  - lra.
  - rewrite inject_Z_plus. change (inject_Z 1) with 1. lra.
Qed.

Theorem score_pvalue_roundtrip_Q : forall m bg d p s q,
  bg_nonneg bg -> Qsum bg <= 1 -> build QOps m bg = Ok d ->
  (Z.of_nat (length m) * 1000 < i32_max)%Z ->
  0 < p -> p < 1 ->
  d_score QOps d p = Ok s -> d_pvalue QOps d s = Ok q -> q <= p.
Proof.
  intros m bg d p s q Hbg Hm Hb Hlen Hp0 Hp1 Hs Hq.
  destruct (sf_monotone_range_Q m bg d Hbg Hb) as (Hlsf & Hnoninc & Hin01 & _).
  destruct (build_Q_table m bg d Hbg Hm Hb) as (_ & Hsf & Hok & Hld & [Hmin0 Hminle] & Hminz).
  pose proof (sf_nonempty m bg d Hbg Hb) as Hne.
  pose proof (build_Q_scale_pos m bg d Hb) as Hsc.
  assert (Z.of_nat (length (d_sf d)) = Z.of_nat (length m) * 1000 + 1)%Z as Hlz.
  { rewrite Hlsf. rewrite Nat2Z.inj_add, Nat2Z.inj_mul, cdf_range_Z. reflexivity. }
  (* score(p) = unscale(x), x from the binary search *)
  unfold d_score in Hs. cbn [n_one n_zero QOps] in Hs.
  assert (ge_n QOps p 1 = false) as Eg.
  { unfold ge_n. cbn [n_cmp QOps]. rewrite (proj1 (Qlt_alt p 1) Hp1). reflexivity. }
  assert (le_n QOps p 0 = false) as El.
  { unfold le_n. cbn [n_cmp QOps]. rewrite (proj1 (Qgt_alt p 0) Hp0). reflexivity. }
  rewrite Eg, El in Hs. apply rbind_ok in Hs. destruct Hs as (x & Hx & Hs).
  assert (forall i j, (i <= j < length (d_sf d))%nat -> nth j (d_sf d) 0 <= nth i (d_sf d) 0) as Hmono.
  { intros i j Hij.
    assert (Forall (in01 QOps Qle) (d_sf d)) as Hf'.
    { eapply Forall_impl; [|exact Hin01]. intros a Ha0. apply in01_Qin01. exact Ha0. }
    exact (noninc_nth QOps Qle (fun a b c => @Qle_trans a b c) (d_sf d) i j 0
             (fun a _ => Qle_refl a) Hnoninc Hf' Hij). }
  destruct (bsearch_spec (d_sf d) p Hmono x Hx) as [Hxl Hxp].
  unfold d_unscale in Hs. inversion Hs; subst s. clear Hs. cbn [n_unscale QOps] in Hq.
  (* pvalue of that score: the scaled score is x again *)
  rewrite (d_pvalue_idx QOps) in Hq by exact Hne.
  apply rbind_ok in Hq. destruct Hq as (r & Hr & Eq). inversion Eq; subst q. clear Eq.
  apply d_scale_Q_value in Hr. unfold d_wo in Hr. cbn [n_mul n_of_Z QOps] in Hr.
  assert (~ d_scale_f d == 0) as Hnz by lra.
  assert ((inject_Z (Z.of_nat x) / d_scale_f d + inject_Z (d_rows d) * d_offset d - inject_Z (d_rows d) * d_offset d) * d_scale_f d
          == inject_Z (Z.of_nat x)) as Ex by (field; exact Hnz).
  rewrite (Qround_away_comp _ _ Ex), Qround_away_nat in Hr.
  rewrite clamp_i32_id in Hr by (unfold i32_min, i32_max in *; lia). subst r.
  assert (0 < length (d_sf d))%nat as Hlen0 by (destruct (d_sf d); [contradiction|cbn; lia]).
  unfold pv_idx. cbn [n_one n_zero QOps].
  destruct (Z.of_nat x <? d_min d)%Z eqn:E1.
  - (* below min_score the table is flat: sf[0] = sf[x] <= p *)
    apply Z.ltb_lt in E1.
    assert (x < length (d_sf d))%nat as Hxlt by lia.
    specialize (Hxp Hxlt). rewrite (Hsf x Hxlt) in Hxp.
    rewrite tail_flat in Hxp by (intros j Hj; apply Hminz; lia).
    rewrite (Hsf 0%nat Hlen0). exact Hxp.
  - apply Z.ltb_ge in E1. rewrite as_usize_nonneg by lia.
    destruct (Z.of_nat (length (d_sf d)) <=? Z.of_nat x)%Z eqn:E2; [lra|].
    apply Z.leb_gt in E2. rewrite Nat2Z.id. apply Hxp. lia.
Qed.
