(* Proofs about the strict checker (DistStrictModel.v): its "cannot judge" verdict is unreachable inside
   the domain for an alphabet of at least two symbols, an empty failure list means that the brackets were
   really established (with the scale exhibited), and it adds nothing else to check_C11_fails. *)
From Coq Require Import List ZArith QArith Bool Arith Lia.
From LMBase Require Import Res ListX IEEE.
From LMDist Require Import DistModel DistInst DistGridModel DistProofs DistCheckProofs DistDyadic DistGrid DistStrictModel.
Import ListNotations.
Local Open Scope Q_scope.

(* stage A of the exact model fails only without a finite cell, and its scale is positive *)
Lemma stage_a_Q_ok : forall m, finite_cells QOps m <> [] ->
  exists off scale, stage_a QOps m = Ok (off, scale) /\ 0 < scale.
Proof.
  intros m Hne. rewrite stage_a_Q_eq. unfold small_of, large_of.
  destruct (finite_cells QOps m) as [|x0 r] eqn:E; [contradiction|].
  destruct (min_by_Q_ok r x0) as [small0 Hmin]. destruct (max_by_Q_ok r x0) as [large Hmax].
  assert (exists off scale, stage_a QOps m = Ok (off, scale)) as (off & scale & Ha).
  { rewrite stage_a_Q_eq. unfold small_of, large_of. rewrite E, Hmin, Hmax. cbn [rbind]. eexists. eexists. reflexivity. }
  rewrite stage_a_Q_eq in Ha. unfold small_of, large_of in Ha. rewrite E in Ha.
  exists off, scale. split; [exact Ha|].
  assert (stage_a QOps m = Ok (off, scale)) as Ha'.
  { rewrite stage_a_Q_eq. unfold small_of, large_of. rewrite E. exact Ha. }
  exact (proj1 (proj2 (stage_a_Q m off scale Ha'))).
Qed.

Lemma unjudged_iff : forall m br, br <> [] ->
  (c11_bracket_unjudged m br = true <-> finite_cells QOps (c11_qm m) = []).
Proof.
  intros m br Hbr. unfold c11_bracket_unjudged. destruct br as [|b0 br']; [contradiction|].
  unfold q_stage_a. split.
  - intros H. destruct (finite_cells QOps (c11_qm m)) eqn:E; [reflexivity|exfalso].
    destruct (stage_a_Q_ok (c11_qm m)) as (off & scale & Ha & Hs); [rewrite E; discriminate|].
    rewrite Ha in H. apply Qle_bool_true in H. apply (Qlt_irrefl 0). eapply Qlt_le_trans; eassumption.
  - intros E. unfold stage_a, small_of. rewrite E. reflexivity.
Qed.

(* a finite double is a finite cell of the exact matrix *)
Lemma finite_me : forall x : F64.t, F64.is_finite x = true -> exists me, f64_me x = Some me.
Proof. intros x H. destruct x; try discriminate; cbn; eexists; reflexivity. Qed.

Lemma finite_cells_has : forall m, c11_has_finite_cell m = true -> finite_cells QOps (c11_qm m) <> [].
Proof.
  intros m H. unfold c11_has_finite_cell in H. apply existsb_exists in H. destruct H as (row & Hrow & H).
  apply existsb_exists in H. destruct H as (x & Hx & Hf).
  destruct (finite_me x Hf) as (me & Hme).
  unfold c11_qm, c11_zc, dy_cells. set (k := c11_k m).
  intros Hnil. unfold finite_cells in Hnil.
  assert (In (CFin (dy_value k (at_k k me)))
             (map (qcell k) (map (option_map (at_k k)) (map f64_me row)))) as Hin.
  { apply in_map_iff. exists (Some (at_k k me)). split; [reflexivity|].
    apply in_map_iff. exists (Some me). split; [reflexivity|].
    apply in_map_iff. exists x. split; assumption. }
  assert (In (map (qcell k) (map (option_map (at_k k)) (map f64_me row)))
             (map (map (qcell k)) (map (map (option_map (at_k k))) (map (map f64_me) m)))) as Hinr.
  { apply in_map_iff. exists (map (option_map (at_k k)) (map f64_me row)). split; [reflexivity|].
    apply in_map_iff. exists (map f64_me row). split; [reflexivity|].
    apply in_map_iff. exists row. split; [reflexivity|exact Hrow]. }
  assert (In (dy_value k (at_k k me))
             (flat_map (fun row0 => flat_map (keep_cell QOps) row0)
                (map (map (qcell k)) (map (map (option_map (at_k k))) (map (map f64_me) m))))) as Hc.
  { apply in_flat_map. eexists. split; [exact Hinr|]. apply in_flat_map. eexists. split; [exact Hin|].
    cbn. left. reflexivity. }
  rewrite Hnil in Hc. destruct Hc.
Qed.

(* inside the domain with at least two symbols (one of them not the wildcard) there is a finite cell *)
Lemma scope_has_finite_cell : forall m bg, c11_in_scope m bg = true -> (2 <= length bg)%nat ->
  c11_has_finite_cell m = true.
Proof.
  intros m bg H HK. unfold c11_in_scope in H. apply andb_true_iff in H. destruct H as [H _].
  apply andb_true_iff in H. destruct H as [Hne Hrows].
  destruct m as [|row m']; [discriminate|]. cbn [forallb] in Hrows. apply andb_true_iff in Hrows. destruct Hrows as [Hr _].
  unfold scope_row in Hr. apply andb_true_iff in Hr. destruct Hr as [Hr _]. apply andb_true_iff in Hr. destruct Hr as [Hl Hi].
  apply Nat.eqb_eq in Hl.
  destruct row as [|x0 [|x1 r]]; cbn [length] in Hl; try lia.
  cbn [removelast forallb] in Hi. apply andb_true_iff in Hi. destruct Hi as [Hx0 _].
  unfold c11_has_finite_cell. cbn [existsb]. rewrite Hx0. reflexivity.
Qed.

Theorem bracket_always_judged : forall m bg br, c11_in_scope m bg = true -> (2 <= length bg)%nat ->
  c11_bracket_unjudged m br = false.
Proof.
  intros m bg br Hs HK. destruct br as [|b0 br'] eqn:Ebr; [reflexivity|]. rewrite <- Ebr.
  destruct (c11_bracket_unjudged m br) eqn:E; [exfalso|reflexivity].
  apply (unjudged_iff m br) in E; [|rewrite Ebr; discriminate].
  exact (finite_cells_has m (scope_has_finite_cell m bg Hs HK) E).
Qed.

(* hence no false alarm: on the domain the strict checker IS check_C11_fails *)
Theorem strict_eq_in_scope : forall grid m bg sf pv br rt, (2 <= length bg)%nat ->
  check_C11_strict_fails grid m bg sf pv br rt = check_C11_fails m bg sf pv br rt.
Proof.
  intros grid m bg sf pv br rt HK. unfold check_C11_strict_fails. rewrite check_C11_red_eq.
  destruct (c11_in_scope m bg) eqn:Hs; cbn [andb].
  - rewrite (bracket_always_judged m bg br Hs HK). apply app_nil_r.
  - apply app_nil_r.
Qed.

(* what an empty failure list of the strict checker establishes: Holds_C11, and -- when bracket probes
   were handed over -- the scale of the exact discretisation exists and is positive, so the bracket
   statement of Holds_brackets is not vacuous *)
Definition Holds_C11_strict (m : list (list F64.t)) (bg : list F64.t) (sf : list F64.t)
    (pv br rt : list (F64.t * F64.t)) : Prop :=
  Holds_C11 m bg sf pv br rt /\
  (c11_in_scope m bg = true -> br <> [] ->
   exists off scale, stage_a QOps (c11_qm m) = Ok (off, scale) /\ 0 < scale).

Theorem check_C11_strict_sound_lemma : forall grid m bg sf pv br rt,
  check_C11_strict grid m bg sf pv br rt = true -> Holds_C11_strict m bg sf pv br rt.
Proof.
  intros grid m bg sf pv br rt H. unfold check_C11_strict, check_C11_strict_fails in H.
  destruct (check_C11_red_fails grid m bg sf pv br rt ++
            (if c11_in_scope m bg && c11_bracket_unjudged m br then [(8%nat, 0%nat)] else [])) eqn:E; [|discriminate].
  apply app_eq_nil in E. destruct E as [E1 E2]. split.
  - apply check_C11_sound_lemma. unfold check_C11. rewrite <- (check_C11_red_eq grid), E1. reflexivity.
  - intros Hs Hbr. rewrite Hs in E2. cbn [andb] in E2.
    destruct (c11_bracket_unjudged m br) eqn:Eu; [discriminate|].
    apply stage_a_Q_ok. intros Hnil. apply (unjudged_iff m br Hbr) in Hnil. congruence.
Qed.
