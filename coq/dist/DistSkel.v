(* The source skeleton the hand-written model DistModel.v was written against (hand-owned:
   update it together with the model when dist.rs changes).  translate/dist_skel.py regenerates
   the same readings from the working tree into GenDist.v on every run; C11_source_skeleton and
   C11_source_parameters (C11.v) compare the two, so that an edit of a loop bound, an accumulation,
   a clip site, the rounding function or the skip marker of dist.rs breaks a proof obligation even
   when no generated input shows a difference.

   Correspondence of the readings with the model:
     model_round_fn "f64::round"            n_round_i32 (half away from zero) in disc_cell
     model_kloop_* "0" ..= "max", max = i*range   contrib: firstn (S maxk) old, maxk = i * cdf_range (row_step)
     model_skip_marker "i32::MIN"          add_symbol: if s =? i32_min then Ok new
     model_fill                             row_step: repeat zero (maxk + cdf_range + 1) ++ skipn ...
     model_accumulate, model_nonzero_test   contrib / zip_add (C11_kloop_is_rust_loop)
     model_scale_fallback                   stage_a: if eqb_n scale0 zero then quot else scale0
     model_clip_sites 2, model_sf_loop, model_sf_sum   survival (n_min1 last) and sf_loop (n_min1 (p_i + next)) *)
From Coq Require Import List String.
Import ListNotations.
Local Open Scope string_scope.

Definition model_round_fn : string := "f64::round".
Definition model_kloop_lo : string := "0".
Definition model_kloop_hi : string := "max".
Definition model_kloop_inclusive : bool := true.
Definition model_max_def : string := "i*range".
Definition model_skip_marker : string := "i32::MIN".
Definition model_fill : string := "pdf_new[..=max+range].fill(0.0)".
Definition model_accumulate : string := "pdf_new[k+sasusize]+=old*pssm.background[*a]asf64".
Definition model_nonzero_test : string := "old!=0.0".
Definition model_scale_fallback : string := "scale==0.0".
Definition model_clip_sites : nat := 2.
Definition model_sf_loop : string := "(0..=sf.len()-2).rev()".
Definition model_sf_sum : string := "p_i+p_iplus1".

Definition model_from_body : list string := [
    "letpssm=pssm.as_ref();";
    "letmutsmall=*pssm.matrix().iter().flatten().filter(|x|!x.is_infinite()).min_by(|x,y|x.partial_cmp(y).unwrap()).unwrap()asf64;";
    "letlarge=*pssm.matrix().iter().flatten().filter(|x|!x.is_infinite()).max_by(|x,y|x.partial_cmp(y).unwrap()).unwrap()asf64;";
    "ifsmall==large{";
    "small=large-1.0;";
    "}";
    "letoffset=small.floor();";
    "letmutscale=((CDF_RANGEasf64)/(large-offset)).floor();";
    "ifscale==0.0{";
    "scale=(CDF_RANGEasf64)/(large-offset);";
    "}";
    "letmutdata=DenseMatrix::<i32,A::K>::new(pssm.matrix().rows());";
    "for(src_row,dst_row)inpssm.matrix().iter().zip(data.iter_mut()){";
    "foriin0..A::K::USIZE{";
    "dst_row[i]=f64::round((src_row[i]asf64-offsetasf64)*scale)asi32;";
    "}";
    "}";
    "letpdf={";
    "letrange=CDF_RANGE;";
    "letsize=data.rows()*range+1;";
    "letmutpdf_old=vec![0.0;";
    "size];";
    "letmutpdf_new=vec![0.0;";
    "size];";
    "pdf_new[0]=1.0;";
    "for(i,row)indata.iter().enumerate(){";
    "letmax=i*range;";
    "std::mem::swap(&mutpdf_old,&mutpdf_new);";
    "pdf_new[..=max+range].fill(0.0);";
    "forainA::symbols().iter(){";
    "lets=row[a.as_index()];";
    "ifs!=i32::MIN{";
    "forkin0..=max{";
    "letold=pdf_old[k];";
    "ifold!=0.0{";
    "pdf_new[k+sasusize]+=old*pssm.background[*a]asf64;";
    "}";
    "}";
    "}";
    "}";
    "}";
    "pdf_new}";
    ";";
    "letmutmin_score=0;";
    "letmutmax_score=0;";
    "letsf={";
    "letmutsf=pdf;";
    "ifletSome(last)=sf.last_mut(){";
    "*last=last.min(1.0);";
    "}";
    "foriin(0..=sf.len()-2).rev(){";
    "letp_iplus1=sf[i+1];";
    "letp_i=sf[i];";
    "letp=p_i+p_iplus1;";
    "sf[i]=p.min(1.0);";
    "ifmax_score==0&&p_iplus1>0.0{";
    "max_score=iasi32+1;";
    "}";
    "ifp_i>0.0{";
    "min_score=iasi32;";
    "}";
    "}";
    "sf}";
    ";";
    "Self{";
    "scale,offset,range:CDF_RANGE,data,sf,min_score,max_score,}"
  ].

Definition model_methods : list string := [
    "scale:letw=self.data.rows()asf64;f64::round((scoreasf64-w*self.offset)*self.scale)asi32";
    "unscale:letw=self.data.rows()asf64;(scoreasf32)/(self.scaleasf32)+(w*self.offset)asf32";
    "pvalue:letscaled=self.scale(score);ifscaled<self.min_score{self.sf[0]}elseifscaledasusize>=self.sf.len(){0.0}else{self.sf[scaledasusize]}";
    "score:ifpvalue>=1.0{self.unscale(self.min_score)}elseifpvalue<=0.0{self.unscale(self.max_score)}else{matchself.sf.binary_search_by(|x|pvalue.partial_cmp(x).unwrap()){Ok(x)=>self.unscale(xasi32),Err(x)=>self.unscale(xasi32),}}";
    "min_pvalue:self.sf[self.max_scoreasusize]";
    "sample:lets=Uniform::new_inclusive(0.0,1.0);letp=s.sample(rng);self.score(p)"
  ].
