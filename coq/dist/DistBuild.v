(* The survival loop over exact rationals, min_score, the decomposition of [build],
   and the discretised cells. *)
From Coq Require Import List ZArith QArith Qround Qabs Bool Arith Lia Lqa.
From LMBase Require Import Res ListX.
From LMDist Require Import DistModel DistInst DistProofs DistConv DistTail.
Import ListNotations.
Local Open Scope Q_scope.

Opaque cdf_range.

Lemma sf_loop_Q : forall (P G : Z -> Q) revrest i next acc mn mx sf mn' mx',
  (forall k, G k == P k + G (k + 1)%Z) -> (forall k, G k <= 1) ->
  Z.of_nat (length revrest) = (i + 1)%Z ->
  (forall t, (t < length revrest)%nat -> nth t revrest 0 == P (i - Z.of_nat t)%Z) ->
  next == G (i + 1)%Z ->
  sf_loop QOps i revrest next acc mn mx = (sf, mn', mx') ->
  exists pre, sf = pre ++ acc /\ length pre = length revrest /\
    forall j, (j < length pre)%nat -> nth j pre 0 == G (Z.of_nat j).
Proof.
  intros P G revrest. induction revrest as [|p_i r IH]; intros i next acc mn mx sf mn' mx' HG H1 Hlen Hnth Hnext H.
  - cbn in H. inversion H; subst. exists []. repeat split; auto. intros j Hj. cbn in Hj. lia.
  - cbn [sf_loop] in H. cbn [length] in Hlen.
    change (n_min1 QOps (n_add QOps p_i next)) with (Qmin1 (p_i + next)) in H.
    assert (p_i == P i) as Hp.
    { pose proof (Hnth 0%nat) as H0. cbn [nth length] in H0. rewrite H0 by lia.
      replace (i - Z.of_nat 0)%Z with i by lia. reflexivity. }
    assert (Qmin1 (p_i + next) == G i) as Hv.
    { assert (p_i + next == G i) as E by (rewrite Hp, Hnext, (HG i); reflexivity).
      rewrite Qmin1_id; [exact E|]. rewrite E. apply H1. }
    apply IH in H; auto.
    + destruct H as (pre' & Hsf & Hl & Hn). exists (pre' ++ [Qmin1 (p_i + next)]).
      split; [rewrite <- app_assoc; exact Hsf|]. split; [rewrite app_length; cbn; lia|].
      intros j Hj. rewrite app_length in Hj. cbn [length] in Hj.
      destruct (Nat.lt_ge_cases j (length pre')) as [Hjl|Hjl].
      * rewrite app_nth1 by exact Hjl. apply Hn, Hjl.
      * rewrite app_nth2 by exact Hjl. replace (j - length pre')%nat with 0%nat by lia. cbn [nth].
        rewrite Hv. replace (Z.of_nat j) with i by lia. reflexivity.
    + lia.
    + intros t Ht. pose proof (Hnth (S t)) as Hs. cbn [nth length] in Hs. rewrite Hs by lia.
      replace (i - Z.of_nat (S t))%Z with (i - 1 - Z.of_nat t)%Z by lia. reflexivity.
    + replace (i - 1 + 1)%Z with i by lia. exact Hv.
Qed.

Lemma survival_Q : forall (P G : Z -> Q) pdf sf mn mx,
  (forall k, G k == P k + G (k + 1)%Z) -> (forall k, G k <= 1) ->
  (forall j, (j < length pdf)%nat -> nth j pdf 0 == P (Z.of_nat j)) ->
  G (Z.of_nat (length pdf)) == 0 ->
  survival QOps pdf = Ok (sf, mn, mx) ->
  length sf = length pdf /\ forall j, (j < length pdf)%nat -> nth j sf 0 == G (Z.of_nat j).
Proof.
  intros P G pdf sf mn mx HG H1 Hpdf Hend H. unfold survival in H.
  destruct (rev pdf) as [|lst revrest] eqn:E; [discriminate|].
  destruct revrest as [|y r]; [discriminate|].
  remember (y :: r) as revrest eqn:Erv.
  assert (sf_loop QOps (Z.of_nat (length pdf) - 2) revrest (Qmin1 lst) [Qmin1 lst] 0 0 = (sf, mn, mx)) as Hrun by (cbn [n_min1 QOps] in H; congruence).
  clear H.
  assert (pdf = rev revrest ++ [lst]) as Epdf.
  { rewrite <- (rev_involutive pdf), E. reflexivity. }
  assert (length pdf = S (length revrest)) as Hlen.
  { rewrite Epdf, app_length, rev_length. cbn. lia. }
  assert (Qmin1 lst == G (Z.of_nat (length revrest))) as Hlst.
  { assert (lst == G (Z.of_nat (length revrest))) as Hl0; [|rewrite Qmin1_id; [exact Hl0|rewrite Hl0; apply H1]].
    assert (nth (length revrest) pdf 0 = lst) as En.
    { rewrite Epdf. rewrite app_nth2 by (rewrite rev_length; lia). rewrite rev_length, Nat.sub_diag. reflexivity. }
    rewrite <- En. rewrite (Hpdf (length revrest)) by lia. rewrite (HG (Z.of_nat (length revrest))).
    replace (Z.of_nat (length revrest) + 1)%Z with (Z.of_nat (length pdf)) by lia. rewrite Hend. ring. }
  apply (sf_loop_Q P G) in Hrun; auto.
  - destruct Hrun as (pre & Hsf & Hl & Hn). split.
    + rewrite Hsf, app_length, Hl. cbn. lia.
    + intros j Hj. rewrite Hsf. destruct (Nat.lt_ge_cases j (length pre)) as [Hjl|Hjl].
      * rewrite app_nth1 by exact Hjl. apply Hn, Hjl.
      * rewrite app_nth2 by exact Hjl. replace (j - length pre)%nat with 0%nat by lia. cbn [nth].
        replace j with (length revrest) by lia. exact Hlst.
  - lia.
  - intros t Ht.
    assert (nth (length revrest - S t) pdf 0 = nth t revrest 0) as En.
    { rewrite Epdf. rewrite app_nth1 by (rewrite rev_length; lia). rewrite rev_nth by lia.
      f_equal. lia. }
    rewrite <- En. rewrite (Hpdf (length revrest - S t)%nat) by lia.
    replace (Z.of_nat (length revrest - S t)) with (Z.of_nat (length pdf) - 2 - Z.of_nat t)%Z by lia.
    reflexivity.
  - replace (Z.of_nat (length pdf) - 2 + 1)%Z with (Z.of_nat (length revrest)) by lia. exact Hlst.
Qed.

Lemma sf_loop_mn : forall revrest i next acc mn mx sf mn' mx',
  Z.of_nat (length revrest) = (i + 1)%Z ->
  sf_loop QOps i revrest next acc mn mx = (sf, mn', mx') ->
  (mn' = mn \/ (0 <= mn' <= i)%Z) /\
  forall t, (t < length revrest)%nat -> gt0 QOps (nth t revrest 0) = true -> (mn' <= i - Z.of_nat t)%Z.
Proof.
  induction revrest as [|p_i r IH]; intros i next acc mn mx sf mn' mx' Hlen H.
  - cbn in H. inversion H; subst. split; [left; reflexivity|]. intros t Ht. cbn in Ht. lia.
  - cbn [sf_loop] in H. cbn [length] in Hlen. apply IH in H; [|lia]. destruct H as [Hm Ht].
    split.
    + destruct (gt0 QOps p_i); destruct Hm as [Hm|Hm]; subst; try (right; lia); auto.
    + intros [|t] Hlt Hg; cbn [nth] in Hg.
      * rewrite Hg in Hm. destruct Hm as [Hm|Hm]; lia.
      * cbn [length] in Hlt. pose proof (Ht t ltac:(lia) Hg). lia.
Qed.

Lemma survival_min : forall pdf sf mn mx,
  survival QOps pdf = Ok (sf, mn, mx) ->
  (0 <= mn)%Z /\ forall j, (S j < length pdf)%nat -> 0 < nth j pdf 0 -> (mn <= Z.of_nat j)%Z.
Proof.
  intros pdf sf mn mx H. unfold survival in H.
  destruct (rev pdf) as [|lst revrest] eqn:E; [discriminate|].
  destruct revrest as [|y r]; [discriminate|].
  remember (y :: r) as revrest eqn:Erv.
  assert (sf_loop QOps (Z.of_nat (length pdf) - 2) revrest (Qmin1 lst) [Qmin1 lst] 0 0 = (sf, mn, mx)) as Hrun by (cbn [n_min1 QOps] in H; congruence).
  clear H.
  assert (pdf = rev revrest ++ [lst]) as Epdf.
  { rewrite <- (rev_involutive pdf), E. reflexivity. }
  assert (length pdf = S (length revrest)) as Hlen.
  { rewrite Epdf, app_length, rev_length. cbn. lia. }
  apply sf_loop_mn in Hrun; [|lia]. destruct Hrun as [Hm Ht]. split; [lia|].
  intros j Hj Hpos. pose proof (Ht (length revrest - S j)%nat) as Hl.
  assert (nth (length revrest - S j) revrest 0 = nth j pdf 0) as En.
  { rewrite Epdf. rewrite app_nth1 by (rewrite rev_length; lia). rewrite rev_nth by lia. reflexivity. }
  rewrite En in Hl. apply gt0_Q in Hpos. specialize (Hl ltac:(lia) Hpos). lia.
Qed.

Lemma survival_min_hi : forall pdf sf mn mx,
  survival QOps pdf = Ok (sf, mn, mx) -> (mn <= Z.of_nat (length pdf) - 2)%Z.
Proof.
  intros pdf sf mn mx H. unfold survival in H.
  destruct (rev pdf) as [|lst revrest] eqn:E; [discriminate|].
  destruct revrest as [|y r]; [discriminate|].
  assert (sf_loop QOps (Z.of_nat (length pdf) - 2) (y :: r) (Qmin1 lst) [Qmin1 lst] 0 0 = (sf, mn, mx)) as Hrun
    by (cbn [n_min1 QOps] in H; congruence).
  assert (length pdf = S (length (y :: r))) as Hl2.
  { rewrite <- (rev_involutive pdf), E. cbn [rev]. rewrite !app_length, rev_length. cbn. lia. }
  apply sf_loop_mn in Hrun; [|lia]. destruct Hrun as [[Hm0|Hm0] _]; cbn [length] in *; lia.
Qed.

(* ---------- decomposition of build ---------- *)

Lemma build_Q_inv : forall m bg d, build QOps m bg = Ok d ->
  exists offset scale pdf,
    stage_a QOps m = Ok (offset, scale) /\
    Forall (fun row : list (cell Q) => length row = length bg) m /\
    d_data d = map (map (disc_cell QOps offset scale)) m /\
    pdf_of QOps bg (d_data d) = Ok pdf /\
    survival QOps pdf = Ok (d_sf d, d_min d, d_max d) /\
    d_scale_f d = scale /\ d_offset d = offset /\ d_rows d = Z.of_nat (length m).
Proof.
  intros m bg d H. unfold build in H.
  destruct (forallb (fun row : list (cell Q) => (length row =? length bg)%nat) m) eqn:Ef; [|discriminate].
  cbn [negb] in H. apply rbind_ok in H. destruct H as ([offset scale] & Ha & H).
  apply rbind_ok in H. destruct H as (pdf & Hp & H).
  apply rbind_ok in H. destruct H as ([[sf mn] mx] & Hs & H). inversion H; subst d; clear H. cbn.
  exists offset, scale, pdf. repeat split; auto.
  rewrite forallb_forall in Ef. apply Forall_forall. intros row Hin. apply Nat.eqb_eq. apply Ef, Hin.
Qed.

(* ---------- the discretised cells ---------- *)

Lemma Qround_away_0 : Qround_away 0 = 0%Z. Proof. reflexivity. Qed.
Lemma Qround_away_1000 : Qround_away 1000 = 1000%Z. Proof. reflexivity. Qed.
Lemma cdf_range_Z : Z.of_nat cdf_range = 1000%Z. Proof. reflexivity. Qed.

Lemma in_finite_cells : forall (m : list (list (cell Q))) row x,
  In row m -> In (CFin x) row -> In x (finite_cells QOps m).
Proof.
  intros m row x Hr Hx. unfold finite_cells. apply in_flat_map. exists row. split; [exact Hr|].
  apply in_flat_map. exists (CFin x). split; [exact Hx|]. cbn. left. reflexivity.
Qed.

(* a finite cell: inside 0..1000 and within half a step of its scaled value *)
Lemma disc_cell_fin : forall m offset scale x,
  stage_a_spec m offset scale -> In x (finite_cells QOps m) ->
  let k := disc_cell QOps offset scale (CFin x) in
  (0 <= k <= 1000)%Z /\ Qabs (inject_Z k - (x - offset) * scale) <= 1 # 2.
Proof.
  intros m offset scale x (_ & Hsc & Hc) Hin. destruct (Hc x Hin) as [Hlo Hhi].
  cbn [disc_cell]. change (n_round_i32 QOps (n_mul QOps (n_sub QOps x offset) scale))
    with (clamp_i32 (Qround_away ((x - offset) * scale))).
  set (y := (x - offset) * scale) in *.
  assert (0 <= y) as Hy0 by (unfold y; apply Qmult_le_0_compat; lra).
  assert (0 <= Qround_away y <= 1000)%Z as Hr.
  { split.
    - rewrite <- Qround_away_0. apply Qround_away_mono. exact Hy0.
    - rewrite <- Qround_away_1000. apply Qround_away_mono. exact Hhi. }
  rewrite clamp_i32_id by (unfold i32_min, i32_max; lia). cbv zeta. split; [exact Hr|].
  destruct (Qround_away_err y) as [He1 He2]. apply Qabs_Qle_condition. split; lra.
Qed.

Lemma disc_ninf_Q : forall scale, 0 < scale -> disc_ninf QOps scale = i32_min.
Proof.
  intros scale H. unfold disc_ninf. cbn [n_cmp n_zero QOps]. rewrite (proj1 (Qgt_alt scale 0) H). reflexivity.
Qed.

Lemma data_row_ok : forall m offset scale,
  stage_a_spec m offset scale -> Forall row_ok (map (map (disc_cell QOps offset scale)) m).
Proof.
  intros m offset scale Hs. apply Forall_forall. intros drow Hin. apply in_map_iff in Hin.
  destruct Hin as (row & E & Hrow). subst drow. unfold row_ok. apply Forall_forall. intros s Hs'.
  apply in_map_iff in Hs'. destruct Hs' as (c & E & Hc). subst s. rewrite cdf_range_Z. destruct c as [x|].
  - right. destruct (disc_cell_fin m offset scale x Hs (in_finite_cells _ _ _ Hrow Hc)) as [Hk _]. exact Hk.
  - cbn [disc_cell]. destruct Hs as (_ & Hsc & _). rewrite disc_ninf_Q by exact Hsc. left. reflexivity.
Qed.

(* ---------- the table is the exact tail of the discretised score ---------- *)

Theorem build_Q_table : forall m bg d,
  bg_nonneg bg -> Qsum bg <= 1 -> build QOps m bg = Ok d ->
  length (d_sf d) = (length m * cdf_range + 1)%nat /\
  (forall j, (j < length (d_sf d))%nat -> nth j (d_sf d) 0 == tailD (d_data d) bg (Z.of_nat j)) /\
  Forall row_ok (d_data d) /\ length (d_data d) = length m /\
  (0 <= d_min d <= Z.of_nat (length m) * 1000 - 1)%Z /\
  (forall j, (Z.of_nat j < d_min d)%Z -> pmfD (d_data d) bg (Z.of_nat j) == 0).
Proof.
  intros m bg d Hbg Hm H. apply build_Q_inv in H.
  destruct H as (offset & scale & pdf & Ha & Hlen & Hdata & Hpdf & Hsurv & Hsc & Hoff & Hrows).
  apply stage_a_Q in Ha. pose proof (data_row_ok m offset scale Ha) as Hok. rewrite <- Hdata in Hok.
  assert (length (d_data d) = length m) as Hld by (rewrite Hdata, map_length; reflexivity).
  destruct (pdf_of_pointwise bg (d_data d) pdf Hok Hpdf) as (Hlp & Hpw & Hsup).
  rewrite Hld in Hlp, Hsup.
  pose proof (tailD_facts bg (d_data d) Hbg Hok) as [Hanti Hnn Hlow Hhigh]. rewrite Hld in Hhigh.
  destruct (survival_Q (pmf_of (d_data d) bg) (tailD (d_data d) bg) pdf (d_sf d) (d_min d) (d_max d)) as [Hls Hsf]; auto.
  - intros k. rewrite pmf_of_tailD. unfold pmfD. ring.
  - intros k. apply tailD_le1; assumption.
  - apply Hhigh. rewrite Hlp. lia.
  - destruct (survival_min pdf _ _ _ Hsurv) as [Hmn0 Hmn].
    split; [congruence|]. split; [rewrite Hls; exact Hsf|]. split; [exact Hok|]. split; [exact Hld|].
    split.
    { split; [exact Hmn0|]. pose proof (survival_min_hi pdf _ _ _ Hsurv) as Hhi.
      rewrite Hlp, Nat2Z.inj_add, Nat2Z.inj_mul, cdf_range_Z in Hhi. lia. }
    intros j Hj. rewrite <- pmf_of_tailD.
    destruct (Nat.lt_ge_cases (S j) (length pdf)) as [Hjl|Hjl].
    + assert (0 <= nth j pdf 0) as Hnn'.
      { rewrite Hpw by lia. rewrite pmf_of_tailD. unfold pmfD.
        assert (tailD (d_data d) bg (Z.of_nat j + 1) <= tailD (d_data d) bg (Z.of_nat j)) by (apply Hanti; lia). lra. }
      destruct (Qlt_le_dec 0 (nth j pdf 0)) as [Hp|Hp].
      * pose proof (Hmn j Hjl Hp). lia.
      * rewrite <- Hpw by lia. lra.
    + (* j is the last index or beyond: d_min <= len - 2 *)
      exfalso. unfold survival in Hsurv.
      destruct (rev pdf) as [|lst revrest] eqn:E; [discriminate|].
      destruct revrest as [|y r]; [discriminate|].
      assert (sf_loop QOps (Z.of_nat (length pdf) - 2) (y :: r) (Qmin1 lst) [Qmin1 lst] 0 0 = (d_sf d, d_min d, d_max d)) as Hrun by (cbn [n_min1 QOps] in Hsurv; congruence).
      assert (length pdf = S (length (y :: r))) as Hl2.
      { rewrite <- (rev_involutive pdf), E. cbn [rev]. rewrite !app_length, rev_length. cbn. lia. }
      apply sf_loop_mn in Hrun; [|lia]. destruct Hrun as [[Hm0|Hm0] _]; lia.
Qed.
