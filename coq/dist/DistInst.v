(* The two instances of the numeric carrier of DistModel, the exact (rational)
   specification of "probability of scoring at least t", and the executable
   checkers used by the correspondence run.  Definitions only. *)
From Coq Require Import List ZArith QArith Qround Qabs Bool Arith Lia.
From Flocq Require Import Core BinarySingleNaN.
From LMBase Require Import Res ListX IEEE.
From LMDist Require Import DistModel.
Import ListNotations.
Local Open Scope Q_scope.

(* ---------- binary64 (bit-exact replay) ---------- *)

Definition f64_is_inf (x : F64.t) : bool :=
  match x with B754_infinity _ => true | _ => false end.

Definition f64_one : F64.t := F64.of_Z 1%Z.

(* (i as f32) / (scale as f32) + (wo as f32), widened (exactly) to f64 *)
Definition f64_unscale (i : Z) (scale : F64.t) (wo : F64.t) : F64.t :=
  F64.of_f32 (F32.add (F32.div (F32.of_Z i) (F64.to_f32 scale)) (F64.to_f32 wo)).

Definition F64Ops : NumOps F64.t := {|
  n_zero := F64.zero;
  n_one := f64_one;
  n_add := F64.add;
  n_sub := F64.sub;
  n_mul := F64.mul;
  n_div := F64.div;
  n_of_Z := F64.of_Z;
  n_floor := F64.floor;
  n_round_i32 := fun x => F64.to_i32 (F64.round x);
  n_to_i32 := F64.to_i32;
  n_is_inf := f64_is_inf;
  n_cmp := F64.cmp;
  n_min1 := fun p => F64.min p f64_one;
  n_unscale := f64_unscale
|}.

(* ---------- exact rationals ---------- *)

Definition clamp_i32 (z : Z) : Z := Z.max i32_min (Z.min i32_max z).

(* round half away from zero *)
Definition Qround_away (x : Q) : Z :=
  if Qle_bool 0 x then Qfloor (x + (1 # 2)) else (- Qfloor (- x + (1 # 2)))%Z.

Definition Qtrunc (x : Q) : Z := if Qle_bool 0 x then Qfloor x else Qceiling x.

Definition Qmin1 (p : Q) : Q := match 1 ?= p with Lt => 1 | _ => p end.

Definition QOps : NumOps Q := {|
  n_zero := 0;
  n_one := 1;
  n_add := Qplus;
  n_sub := Qminus;
  n_mul := Qmult;
  n_div := Qdiv;
  n_of_Z := inject_Z;
  n_floor := fun x => inject_Z (Qfloor x);
  n_round_i32 := fun x => clamp_i32 (Qround_away x);
  n_to_i32 := fun x => clamp_i32 (Qtrunc x);
  n_is_inf := fun _ => false;
  n_cmp := fun a b => Some (a ?= b);
  n_min1 := Qmin1;
  n_unscale := fun i scale wo => inject_Z i / scale + wo
|}.

(* exact value of a finite binary float (0 for NaN and infinities) *)
Definition bsn_to_Q {prec emax : Z} (x : binary_float prec emax) : Q :=
  match x with
  | B754_finite s m e _ =>
      let z := cond_Zopp s (Zpos m) in
      if (0 <=? e)%Z then inject_Z (z * 2 ^ e) else Qred (z # Z.to_pos (2 ^ (- e)))
  | _ => 0
  end.

Definition f64_to_Q (x : F64.t) : Q := bsn_to_Q x.
Definition f32_to_Q (x : F32.t) : Q := bsn_to_Q x.

Definition f64_cell (x : F64.t) : cell Q :=
  match x with
  | B754_infinity true => CNInf
  | _ => CFin (f64_to_Q x)
  end.

(* ---------- exact specification ----------
   Symbols of a word are drawn independently with the weights [bg]; S is the sum of
   the selected cells (a word through a -inf cell scores -inf and never reaches a
   rational t); D is the sum of the selected discretised cells (i32::MIN = symbol
   skipped by the code).  Tails are defined by recursion over the rows, first row
   first (the order in which the code convolves):
     P(X_1 + ... + X_n + X_{n+1} >= t) = sum_a b_a * P(X_1 + ... + X_n >= t - x_{n+1,a}). *)

Fixpoint Qsum (l : list Q) : Q :=
  match l with [] => 0 | x :: r => x + Qsum r end.

Definition base_tail (t : Q) : Q := if Qle_bool t 0 then 1 else 0.

Definition tail_step (bg : list Q) (F : Q -> Q) (row : list (cell Q)) (t : Q) : Q :=
  Qsum (map (fun cb => match fst cb with
                       | CFin x => snd cb * F (t - x)
                       | CNInf => 0
                       end) (combine row bg)).

(* P(S >= t) *)
Definition tail_exact (m : list (list (cell Q))) (bg : list Q) : Q -> Q :=
  fold_left (tail_step bg) m base_tail.

(* weight of the symbols of a row whose cell is finite *)
Definition row_mass (bg : list Q) (row : list (cell Q)) : Q :=
  Qsum (map (fun cb => match fst cb with CFin _ => snd cb | CNInf => 0 end) (combine row bg)).

Definition base_tailD (k : Z) : Q := if (k <=? 0)%Z then 1 else 0.

Definition tailD_step (bg : list Q) (F : Z -> Q) (row : list Z) (k : Z) : Q :=
  Qsum (map (fun sb => if (fst sb =? i32_min)%Z then 0 else snd sb * F (k - fst sb)%Z) (combine row bg)).

(* P(D >= k) and P(D = k) *)
Definition tailD (data : list (list Z)) (bg : list Q) : Z -> Q :=
  fold_left (tailD_step bg) data base_tailD.
Definition pmfD (data : list (list Z)) (bg : list Q) (k : Z) : Q :=
  tailD data bg k - tailD data bg (k + 1).

(* the same tail through an explicit table of all words (score, weight); symbols of
   weight zero are dropped, values are kept reduced *)
Definition table_step (bg : list Q) (tab : list (Q * Q)) (row : list (cell Q)) : list (Q * Q) :=
  flat_map (fun cb => match fst cb with
                      | CFin x =>
                          if Qeq_bool (snd cb) 0 then []
                          else map (fun sp => (Qred (fst sp + x), Qred (snd cb * snd sp))) tab
                      | CNInf => []
                      end) (combine row bg).

Definition word_table (m : list (list (cell Q))) (bg : list Q) : list (Q * Q) :=
  fold_left (table_step bg) m [(0, 1)].

Fixpoint tail_tab (tab : list (Q * Q)) (t : Q) (acc : Q) : Q :=
  match tab with
  | [] => acc
  | (s, p) :: r => tail_tab r t (if Qle_bool t s then Qred (acc + p) else acc)
  end.

(* ---------- executable checkers (what the property says about observations) ---------- *)

Section Check.
  Context {T : Type} (N : NumOps T).

  Definition leb_n (a b : T) : bool := le_n N a b.

  (* the table is non-increasing with values in [0,1]:
     0 = yes, 1 = an entry outside [0,1], 2 = an increase *)
  Fixpoint chk_table (sf : list T) : nat :=
    match sf with
    | [] => 0%nat
    | x :: r =>
        if negb (leb_n (n_zero N) x && leb_n x (n_one N)) then 1%nat
        else match r with
             | [] => 0%nat
             | y :: _ => if leb_n y x then chk_table r else 2%nat
             end
    end.

  (* p-values are non-increasing in the score: probes = (score, pvalue) *)
  Definition chk_mono_pair (a b : T * T) : bool :=
    (* fst a <= fst b -> snd b <= snd a *)
    if leb_n (fst a) (fst b) then leb_n (snd b) (snd a) else true.

  Definition chk_mono (probes : list (T * T)) : bool :=
    forallb (fun a => forallb (fun b => chk_mono_pair a b) probes) probes.

  (* pvalue(score(p)) <= p for p in (0,1) *)
  Definition in_open01 (p : T) : bool :=
    match n_cmp N (n_zero N) p, n_cmp N p (n_one N) with
    | Some Lt, Some Lt => true
    | _, _ => false
    end.
  Definition chk_roundtrip (p rt : T) : bool :=
    if in_open01 p then leb_n rt p else true.
End Check.

(* P(S >= s + d) <= pv <= P(S >= s - d), d = (M/2 + 1) / scale, against the table of
   all words; [eps] (relative) and [delta] (absolute) are the stated tolerances for the
   binary64 summation error and for a background whose total weight is not exactly 1.
   0 = inside, 1 = below the lower bracket, 2 = above the upper bracket *)
Definition chk_bracket (tab : list (Q * Q)) (scale : Q) (M : Z) (eps delta : Q) (s pv : Q) : nat :=
  let d := (inject_Z M / 2 + 1) / scale in
  let lo := tail_tab tab (Qred (s + d)) 0 in
  let hi := tail_tab tab (Qred (s - d)) 0 in
  if Qle_bool (lo * (1 - eps) - delta) pv
  then (if Qle_bool pv (hi * (1 + eps) + delta) then 0%nat else 2%nat)
  else 1%nat.

(* ---------- the same tails on dyadic inputs, in integer arithmetic ----------
   Every f32 is m * 2^e.  With k >= -e for all cells, a cell is the integer
   z = m * 2^(e+k) over 2^k; likewise a background weight is n over 2^j.  Then
   P(S >= t) = (sum of the weights n_1..n_M of the words with z_1+..+z_M >= ceil(t * 2^k)) / 2^(j*M)
   (DistProofs.tail_dyadic_correct); no gcd is ever computed. *)

Definition bsn_me {prec emax : Z} (x : binary_float prec emax) : option (Z * Z) :=
  match x with
  | B754_finite s m e _ => Some (cond_Zopp s (Zpos m), e)
  | B754_zero _ => Some (0, 0)%Z
  | _ => None
  end.

Definition f64_me (x : F64.t) : option (Z * Z) := bsn_me x.

(* k = max(0, -e) over the list *)
Definition common_k (l : list (option (Z * Z))) : Z :=
  fold_left (fun a o => match o with Some me => Z.max a (- snd me) | None => a end) l 0%Z.

Definition at_k (k : Z) (me : Z * Z) : Z := (fst me * 2 ^ (snd me + k))%Z.

Definition dy_cells (k : Z) (m : list (list (option (Z * Z)))) : list (list (option Z)) :=
  map (map (option_map (at_k k))) m.

Definition dy_value (k : Z) (z : Z) : Q := inject_Z z / inject_Z (2 ^ k).

Definition table_stepZ (bg : list Z) (tab : list (Z * Z)) (row : list (option Z)) : list (Z * Z) :=
  flat_map (fun cb => match fst cb with
                      | Some x =>
                          if (snd cb =? 0)%Z then []
                          else map (fun sp => (fst sp + x, snd cb * snd sp)%Z) tab
                      | None => []
                      end) (combine row bg).

Definition word_tableZ (m : list (list (option Z))) (bg : list Z) : list (Z * Z) :=
  fold_left (table_stepZ bg) m [(0, 1)%Z].

Fixpoint tail_tabZ (tab : list (Z * Z)) (thr : Z) (acc : Z) : Z :=
  match tab with
  | [] => acc
  | (s, p) :: r => tail_tabZ r thr (if (thr <=? s)%Z then (acc + p)%Z else acc)
  end.

(* P(S >= t) from the integer table *)
Definition tail_dy (tab : list (Z * Z)) (k j : Z) (M : Z) (t : Q) : Q :=
  inject_Z (tail_tabZ tab (Qceiling (t * inject_Z (2 ^ k))) 0) / inject_Z (2 ^ (j * M)).

(* 0 = inside, 1 = below the lower bracket, 2 = above the upper bracket *)
Definition chk_bracket_dy (tab : list (Z * Z)) (k j : Z) (scale : Q) (M : Z) (eps delta : Q) (s pv : Q) : nat :=
  let d := (inject_Z M / 2 + 1) / scale in
  let lo := tail_dy tab k j M (s + d) in
  let hi := tail_dy tab k j M (s - d) in
  if Qle_bool (lo * (1 - eps) - delta) pv
  then (if Qle_bool pv (hi * (1 + eps) + delta) then 0%nat else 2%nat)
  else 1%nat.

(* pvalue(score(p)) <= p for p in (0,1), with the stated tolerances *)
Definition chk_roundtrip_q (eps delta : Q) (p rt : Q) : bool :=
  if Qlt_le_dec 0 p then (if Qlt_le_dec p 1 then Qle_bool rt (p * (1 + eps) + delta) else true) else true.

(* |1 - (sum of the background)^M| *)
Definition mass_defect (bg : list Q) (M : nat) : Q :=
  Qred (Qabs (1 - Qpower (Qred (Qsum bg)) (Z.of_nat M))).

(* instances used by the driver *)
Definition f64_build := build F64Ops.
Definition f64_pvalue := d_pvalue F64Ops.
Definition f64_score := d_score F64Ops.
Definition f64_scale := d_scale F64Ops.
Definition f64_unscale_m := d_unscale F64Ops.
Definition f64_min_pvalue := @d_min_pvalue F64.t.
Definition f64_roundtrip := d_roundtrip F64Ops.
Definition f64_sample := d_sample F64Ops.
Definition f64_chk_table := chk_table F64Ops.
Definition f64_chk_mono := chk_mono F64Ops.
Definition f64_chk_roundtrip := chk_roundtrip F64Ops.

(* the index found by score(p) and whether scale(unscale(i)) = i for it *)
Definition f64_bsearch (d : dist F64.t) (p : F64.t) : res nat := bsearch F64Ops (d_sf d) p.
Definition f64_index_exact (d : dist F64.t) (i : Z) : bool :=
  match d_unscale F64Ops d i with
  | Ok s => match d_scale F64Ops d s with Ok i' => (i' =? i)%Z | _ => false end
  | _ => false
  end.

(* exact (offset, scale) of the discretisation (stage A only, no table) *)
Definition q_stage_a := stage_a QOps.

(* the symbolic -inf cell and the IEEE value -inf discretise alike (self-check of
   [disc_ninf] run by the driver on every case) *)
Definition f64_ninf_agrees (m : list (list (cell F64.t))) : bool :=
  match stage_a F64Ops m with
  | Ok (offset, scale) =>
      (disc_cell F64Ops offset scale CNInf =? disc_cell F64Ops offset scale (CFin F64.ninf))%Z
  | _ => true
  end.

(* ---------- words (for the statement of the discretisation error) ----------
   a word selects one column index per row; its score is defined when every selected
   cell is finite, its discretised score when no selected cell is skipped *)
Fixpoint word_S (m : list (list (cell Q))) (w : list nat) : option Q :=
  match m, w with
  | [], [] => Some 0
  | row :: m', a :: w' =>
      match nth_error row a with
      | Some (CFin x) => option_map (Qplus x) (word_S m' w')
      | _ => None
      end
  | _, _ => None
  end.

Fixpoint word_D (data : list (list Z)) (w : list nat) : option Z :=
  match data, w with
  | [], [] => Some 0%Z
  | row :: d', a :: w' =>
      match nth_error row a with
      | Some s => if (s =? i32_min)%Z then None else option_map (Z.add s) (word_D d' w')
      | None => None
      end
  | _, _ => None
  end.

(* Background::new: every frequency in [0,1] and the f32 sum (from 0.0, in order) == 1.0 *)
Definition bg_new_ok (bg : list F32.t) : bool :=
  forallb (fun f => F32.le F32.zero f && F32.le f (F32.of_Z 1)) bg &&
  F32.eq (fold_left F32.add bg F32.zero) (F32.of_Z 1).

(* inputs of the binary64 model from f32 bit patterns (what the driver does) *)
Definition f32_cell (bits : Z) : cell F64.t := CFin (F64.of_f32 (F32.of_bits bits)).
Definition f32_val (bits : Z) : F64.t := F64.of_f32 (F32.of_bits bits).
Definition q_cell_of_bits (bits : Z) : cell Q := f64_cell (f32_val bits).

(* ---------- the executable checker of property C11 on observations ----------
   Inputs: the matrix [m] (cells: f32 widened to f64; -inf wildcard as IEEE -inf) and the
   background [bg] (f32 widened), the observed table [sf], the observed (score, pvalue)
   probes [pv], the subset [br] of them selected for the bracket check (finite scores;
   empty when the word table would be too large), the observed (p, pvalue(score(p)))
   round trips [rt].  The exact tails are those of the dyadic matrix [c11_qm m] under the
   weights [c11_qbg bg] (cell z / 2^k, weight n / 2^j: exactly the values of the floats). *)

Definition qcell (k : Z) (o : option Z) : cell Q :=
  match o with Some z => CFin (dy_value k z) | None => CNInf end.
Definition qweight (j : Z) (n : Z) : Q := inject_Z n / inject_Z (2 ^ j).

Definition c11_k (m : list (list F64.t)) : Z := common_k (concat (map (map f64_me) m)).
Definition c11_zc (m : list (list F64.t)) : list (list (option Z)) := dy_cells (c11_k m) (map (map f64_me) m).
Definition c11_j (bg : list F64.t) : Z := common_k (map f64_me bg).
Definition c11_zb (bg : list F64.t) : list Z :=
  map (fun x => match f64_me x with Some me => at_k (c11_j bg) me | None => 0%Z end) bg.
Definition c11_qm (m : list (list F64.t)) : list (list (cell Q)) := map (map (qcell (c11_k m))) (c11_zc m).
Definition c11_qbg (bg : list F64.t) : list Q := map (qweight (c11_j bg)) (c11_zb bg).

(* the property's domain: at least one row, rows as long as the background, every cell finite
   except that the last (wildcard) cell may be -inf; finite background weights *)
Definition scope_row (n : nat) (row : list F64.t) : bool :=
  (length row =? n)%nat && forallb F64.is_finite (removelast row) &&
  (let w := last row F64.nan in F64.is_finite w || F64.is_neg_inf w).
Definition c11_in_scope (m : list (list F64.t)) (bg : list F64.t) : bool :=
  match m with [] => false | _ => true end &&
  forallb (scope_row (length bg)) m && forallb F64.is_finite bg.

Definition eps30 : Q := 1 # 1073741824.
Definition c11_delta (m : list (list F64.t)) (bg : list F64.t) : Q := mass_defect (c11_qbg bg) (length m).

(* failure kinds: 1 table entry outside [0,1]; 2 table increases; 3 p-value below the lower
   bracket; 4 above the upper bracket; 5 p-value not finite; 6 p-values not monotone;
   7 round trip yields a larger p-value.  The second component is an index into the
   corresponding list (0 for kinds 1, 2, 6). *)
Definition c11_table_fails (sf : list F64.t) : list (nat * nat) :=
  match f64_chk_table sf with O => [] | S O => [(1, 0)%nat] | _ => [(2, 0)%nat] end.

Definition c11_bracket_one (tab : list (Z * Z)) (k j : Z) (scale : Q) (M : Z) (delta : Q) (sp : F64.t * F64.t) : nat :=
  if F64.is_finite (fst sp) && F64.is_finite (snd sp) then
    match chk_bracket_dy tab k j scale M eps30 delta (f64_to_Q (fst sp)) (f64_to_Q (snd sp)) with
    | O => 0 | S O => 3 | _ => 4
    end%nat
  else 5%nat.

Fixpoint c11_index_fails (i : nat) (codes : list nat) : list (nat * nat) :=
  match codes with
  | [] => []
  | O :: r => c11_index_fails (S i) r
  | c :: r => (c, i) :: c11_index_fails (S i) r
  end.

Definition c11_bracket_fails (m : list (list F64.t)) (bg : list F64.t) (br : list (F64.t * F64.t)) : list (nat * nat) :=
  match br with
  | [] => []
  | _ =>
    match q_stage_a (c11_qm m) with
    | Ok (_, scale) =>
        if Qle_bool scale 0 then []
        else
          let tab := word_tableZ (c11_zc m) (c11_zb bg) in
          c11_index_fails 0 (map (c11_bracket_one tab (c11_k m) (c11_j bg) scale (Z.of_nat (length m)) (c11_delta m bg)) br)
    | _ => []
    end
  end.

Definition c11_rt_one (delta : Q) (pr : F64.t * F64.t) : nat :=
  if in_open01 F64Ops (fst pr) then
    if leb_n F64Ops (snd pr) (fst pr) then 0%nat
    else if F64.is_finite (snd pr) &&
            Qle_bool (f64_to_Q (snd pr)) (f64_to_Q (fst pr) * (1 + eps30) + delta) then 0%nat
    else 7%nat
  else 0%nat.

Definition check_C11_fails (m : list (list F64.t)) (bg : list F64.t) (sf : list F64.t)
    (pv br rt : list (F64.t * F64.t)) : list (nat * nat) :=
  if c11_in_scope m bg then
    c11_table_fails sf ++ c11_bracket_fails m bg br ++
    (if f64_chk_mono pv then [] else [(6, 0)%nat]) ++
    c11_index_fails 0 (map (c11_rt_one (c11_delta m bg)) rt)
  else [].

Definition check_C11 (m : list (list F64.t)) (bg : list F64.t) (sf : list F64.t)
    (pv br rt : list (F64.t * F64.t)) : bool :=
  match check_C11_fails m bg sf pv br rt with [] => true | _ => false end.

(* ---------- the literal reading of "exact probability": a finite sum over all words ----------
   a word is a list of column indices, one per row; its weight is the product of the
   background weights of its symbols; P(S >= t) is the total weight of the words whose
   score is defined (no -inf cell) and at least t *)
Fixpoint all_words (K M : nat) : list (list nat) :=
  match M with
  | O => [[]]
  | S M' => flat_map (fun a => map (cons a) (all_words K M')) (seq 0 K)
  end.

Fixpoint word_weight (bg : list Q) (w : list nat) : Q :=
  match w with [] => 1 | a :: w' => nth a bg 0 * word_weight bg w' end.

Definition word_term (m : list (list (cell Q))) (bg : list Q) (t : Q) (w : list nat) : Q :=
  match word_S m w with
  | Some s => if Qle_bool t s then word_weight bg w else 0
  | None => 0
  end.

Definition tail_words (m : list (list (cell Q))) (bg : list Q) (t : Q) : Q :=
  Qsum (map (word_term m bg t) (all_words (length bg) (length m))).

(* the same for the discretised score D *)
Definition word_termD (data : list (list Z)) (bg : list Q) (k : Z) (w : list nat) : Q :=
  match word_D data w with
  | Some d => if (k <=? d)%Z then word_weight bg w else 0
  | None => 0
  end.

Definition tailD_words (data : list (list Z)) (bg : list Q) (k : Z) : Q :=
  Qsum (map (word_termD data bg k) (all_words (length bg) (length data))).

(* ---------- when does the f32 unscale keep the round trip?  a computable predicate ----------
   [f64_unscale_exact_on scale offset rows n]: scale(unscale(i)) = i for every index i in 0..n
   that score() can hand to unscale (n = table length: the binary search returns 0..n).  It
   depends on (scale, offset, rows, n) only.  [f64_roundtrip_pred d] adds what the table itself
   must satisfy (non-increasing in [0,1], flat below min_score, min_score >= 0): all of it is
   evaluated by the driver on the model of the case at hand. *)
Definition f64_unscale_exact_on (scale offset : F64.t) (rows : Z) (n : nat) : bool :=
  let d0 := {| d_scale_f := scale; d_offset := offset; d_rows := rows; d_data := [];
               d_sf := []; d_min := 0%Z; d_max := 0%Z |} in
  forallb (fun i => f64_index_exact d0 (Z.of_nat i)) (seq 0 (S n)).

Definition f64_flat_below_min (d : dist F64.t) : bool :=
  forallb (fun i => F64.eq (nth i (d_sf d) F64.zero) (nth 0 (d_sf d) F64.zero)) (seq 0 (Z.to_nat (d_min d))).

Definition f64_roundtrip_pred (d : dist F64.t) : bool :=
  match f64_chk_table (d_sf d) with O => true | _ => false end &&
  (0 <=? d_min d)%Z &&
  f64_flat_below_min d &&
  f64_unscale_exact_on (d_scale_f d) (d_offset d) (d_rows d) (length (d_sf d)).
