(* Totality: inside the property's domain the exact-rational model never reaches a panic
   site, so the conditional theorems of C11.v are not vacuous for any such input. *)
From Coq Require Import List ZArith QArith Qround Qabs Bool Arith Lia Lqa.
From LMBase Require Import Res ListX.
From LMDist Require Import DistModel DistInst DistProofs DistConv DistTail DistBuild.
Import ListNotations.
Local Open Scope Q_scope.

Opaque cdf_range.

Lemma zip_add_ok : forall (c : list (option Q)) new, (length c <= length new)%nat ->
  exists r, zip_add QOps c new = Ok r /\ length r = length new.
Proof.
  induction c as [|o c IH]; intros new H.
  - exists new. split; reflexivity.
  - destruct new as [|x n']; [cbn in H; lia|]. cbn [length] in H.
    destruct (IH n' ltac:(lia)) as (r & Hr & Hl). cbn [zip_add]. rewrite Hr. cbn [rbind].
    eexists. split; [reflexivity|]. cbn. lia.
Qed.

Lemma add_symbol_ok : forall old maxk s b new,
  cell_ok (length new) s -> (s = i32_min \/ (Z.to_nat s + maxk + 1 <= length new)%nat) ->
  exists new', add_symbol QOps old maxk s b new = Ok new' /\ length new' = length new.
Proof.
  intros old maxk s b new Hok Hfit. unfold add_symbol.
  destruct (s =? i32_min)%Z eqn:Emin; [exists new; split; reflexivity|].
  apply Z.eqb_neq in Emin. destruct Hok as [Hok|Hok]; [contradiction|]. destruct Hfit as [Hfit|Hfit]; [contradiction|].
  replace (s <? 0)%Z with false by (symmetry; apply Z.ltb_ge; lia).
  replace (Z.of_nat (length new) <=? s)%Z with false by (symmetry; apply Z.leb_gt; lia).
  cbn [orb].
  destruct (zip_add_ok (contrib QOps old maxk b) (skipn (Z.to_nat s) new)) as (r & Hr & Hl).
  { unfold contrib. rewrite map_length, firstn_length, skipn_length. lia. }
  rewrite Hr. cbn [rbind]. eexists. split; [reflexivity|].
  rewrite app_length, Hl, firstn_length, skipn_length. lia.
Qed.

Lemma add_symbols_ok : forall old maxk rowbg new,
  Forall (fun sb : Z * Q => cell_ok (length new) (fst sb) /\
            (fst sb = i32_min \/ (Z.to_nat (fst sb) + maxk + 1 <= length new)%nat)) rowbg ->
  exists new', add_symbols QOps old maxk rowbg new = Ok new' /\ length new' = length new.
Proof.
  intros old maxk rowbg. induction rowbg as [|[s b] r IH]; intros new H.
  - exists new. split; reflexivity.
  - inversion H as [|? ? [H1 H2] Hr]; subst. cbn [fst] in *.
    destruct (add_symbol_ok old maxk s b new H1 H2) as (n1 & Hn1 & Hl1).
    cbn [add_symbols]. rewrite Hn1. cbn [rbind].
    destruct (IH n1) as (n2 & Hn2 & Hl2); [rewrite Hl1; exact Hr|].
    exists n2. split; [exact Hn2|congruence].
Qed.

Lemma row_step_ok : forall bg size i row st,
  row_ok row -> length (fst st) = size -> length (snd st) = size ->
  (S i * cdf_range + 1 <= size)%nat ->
  exists st', row_step QOps bg i row st = Ok st' /\ length (fst st') = size /\ length (snd st') = size.
Proof.
  intros bg size i row [pold pnew] Hrow Hlo Hln Hsize. cbn [fst snd] in *. unfold row_step.
  change (n_zero QOps) with 0.
  set (maxk := (i * cdf_range)%nat). set (n0 := (maxk + cdf_range + 1)%nat).
  assert (n0 <= size)%nat as Hn0 by (unfold n0, maxk; cbn [Nat.mul] in Hsize; lia).
  replace (length pold <? n0)%nat with false by (symmetry; apply Nat.ltb_ge; lia).
  set (new0 := repeat 0 n0 ++ skipn n0 pold).
  assert (length new0 = size) as Hl0 by (unfold new0; rewrite app_length, repeat_length, skipn_length; lia).
  destruct (add_symbols_ok pnew maxk (combine row bg) new0) as (new' & Ha & Hl').
  { apply Forall_forall. intros [s b] Hin. cbn [fst]. apply in_combine_l in Hin.
    unfold row_ok in Hrow. rewrite Forall_forall in Hrow. rewrite Hl0.
    destruct (Hrow s Hin) as [E|E]; [split; left; exact E|].
    split; right; unfold n0 in Hn0; lia. }
  rewrite Ha. cbn [rbind]. eexists. split; [reflexivity|]. cbn [fst snd]. split; congruence.
Qed.

Lemma pdf_rows_ok : forall bg size rows i st,
  Forall row_ok rows -> length (fst st) = size -> length (snd st) = size ->
  ((i + length rows) * cdf_range + 1 <= size)%nat ->
  exists st', pdf_rows QOps bg i rows st = Ok st' /\ length (snd st') = size.
Proof.
  intros bg size rows. induction rows as [|row r IH]; intros i st Hrows Hlo Hln Hsize.
  - exists st. split; [reflexivity|exact Hln].
  - pose proof (Forall_inv Hrows) as Hrow. pose proof (Forall_inv_tail Hrows) as Hr. cbn [length] in Hsize.
    destruct (row_step_ok bg size i row st Hrow Hlo Hln) as (st1 & H1 & Hl1o & Hl1n).
    { cbn [Nat.mul]. assert (cdf_range + i * cdf_range <= (i + S (length r)) * cdf_range)%nat; [|lia].
      replace (cdf_range + i * cdf_range)%nat with (S i * cdf_range)%nat by reflexivity.
      apply Nat.mul_le_mono_r. lia. }
    cbn [pdf_rows]. rewrite H1. cbn [rbind]. apply IH; auto.
    replace (S i + length r)%nat with (i + S (length r))%nat by lia. exact Hsize.
Qed.

Theorem build_Q_total : forall m bg,
  Forall (fun row : list (cell Q) => length row = length bg) m ->
  finite_cells QOps m <> [] ->
  exists d, build QOps m bg = Ok d.
Proof.
  intros m bg Hlen Hfin. unfold build.
  assert (forallb (fun row : list (cell Q) => (length row =? length bg)%nat) m = true) as Ef.
  { apply forallb_forall. intros row Hin. rewrite Forall_forall in Hlen. apply Nat.eqb_eq, Hlen, Hin. }
  rewrite Ef. cbn [negb].
  assert (exists offset scale, stage_a QOps m = Ok (offset, scale)) as (offset & scale & Ha).
  { rewrite stage_a_Q_eq. unfold small_of, large_of.
    destruct (finite_cells QOps m) as [|x0 r]; [contradiction|].
    destruct (min_by_Q_ok r x0) as [s0 Hs0]. destruct (max_by_Q_ok r x0) as [l0 Hl0].
    rewrite Hs0, Hl0. cbn [rbind]. eauto. }
  rewrite Ha. cbn [rbind].
  pose proof (data_row_ok m offset scale (stage_a_Q m offset scale Ha)) as Hok.
  set (data := map (map (disc_cell QOps offset scale)) m) in *.
  assert (exists pdf, pdf_of QOps bg data = Ok pdf /\ length pdf = (length data * cdf_range + 1)%nat) as (pdf & Hpdf & Hlp).
  { unfold pdf_of. change (n_zero QOps) with 0. change (n_one QOps) with 1.
    set (size := (length data * cdf_range + 1)%nat).
    destruct (pdf_rows_ok bg size data 0 (repeat 0 size, 1 :: repeat 0 (size - 1)) Hok) as (st & Hst & Hl).
    - apply repeat_length.
    - cbn [snd length]. rewrite repeat_length. unfold size. lia.
    - cbn [Nat.add]. unfold size. lia.
    - rewrite Hst. cbn [rbind]. eexists. split; [reflexivity|exact Hl]. }
  rewrite Hpdf. cbn [rbind].
  assert (exists s, survival QOps pdf = Ok s) as (s & Hs).
  { unfold survival. assert (2 <= length pdf)%nat as H2.
    { rewrite Hlp. unfold data. rewrite map_length.
      destruct m as [|row0 m0]; [cbn in Hfin; contradiction|]. cbn [length].
      pose proof cdf_range_Z. lia. }
    rewrite <- rev_length in H2. destruct (rev pdf) as [|a [|b l]]; cbn [length] in H2; try lia. eauto. }
  rewrite Hs. cbn [rbind]. destruct s as [[sf mn] mx]. eauto.
Qed.

(* ---------- pvalue and score are total on a built distribution ---------- *)

Lemma bs_loop_ok : forall (sf : list Q) p fuel base size,
  (1 <= size)%nat -> (base + size <= length sf)%nat -> (size <= fuel + 1)%nat ->
  exists b, bs_loop QOps sf p fuel base size = Ok b /\ (b < length sf)%nat.
Proof.
  intros sf p. induction fuel as [|f IH]; intros base size H1 Hb Hf.
  - assert (size = 1)%nat by lia. subst. cbn [bs_loop Nat.leb]. exists base. split; [reflexivity|lia].
  - cbn [bs_loop]. destruct (size <=? 1)%nat eqn:E.
    + exists base. split; [reflexivity|lia].
    + apply Nat.leb_gt in E.
      assert (1 <= size / 2)%nat as Hhalf by (apply Nat.div_le_lower_bound; lia).
      assert (size / 2 < size)%nat as Hlt by (apply Nat.div_lt; lia).
      destruct (nth_error sf (base + size / 2)) as [x|] eqn:En.
      * cbn [n_cmp QOps]. destruct (p ?= x); apply IH; lia.
      * apply nth_error_None in En. lia.
Qed.

Lemma bsearch_ok : forall (sf : list Q) p, exists x, bsearch QOps sf p = Ok x.
Proof.
  intros sf p. unfold bsearch. destruct sf as [|y l] eqn:E; [eauto|]. rewrite <- E.
  assert (1 <= length sf)%nat as Hl by (rewrite E; cbn; lia).
  destruct (bs_loop_ok sf p (length sf) 0 (length sf) Hl ltac:(lia) ltac:(lia)) as (b & Hb & Hlt).
  rewrite Hb. cbn [rbind]. destruct (nth_error sf b) as [v|] eqn:En.
  - cbn [n_cmp QOps]. destruct (p ?= v); eauto.
  - apply nth_error_None in En. lia.
Qed.

Theorem methods_Q_total : forall (d : dist Q) s p, d_sf d <> [] ->
  (exists q, d_pvalue QOps d s = Ok q) /\ (exists sc, d_score QOps d p = Ok sc).
Proof.
  intros d s p Hne. split.
  - unfold d_pvalue, d_scale. cbn [rbind]. destruct (d_sf d) as [|x l] eqn:E; [contradiction|].
    destruct (_ <? d_min d)%Z; [eauto|]. destruct (_ <=? _)%Z; eauto.
  - unfold d_score, d_unscale. destruct (ge_n QOps p (n_one QOps)); [eauto|].
    destruct (le_n QOps p (n_zero QOps)); [eauto|].
    destruct (bsearch_ok (d_sf d) p) as [x Hx]. rewrite Hx. cbn [rbind]. eauto.
Qed.

(* Distribution<f32>::sample is score of the drawn p: total, and inside [unscale(max), unscale(min)]-indices
   of the table like every score (the draw itself, rand's Uniform, is an input of the model) *)
Theorem sample_Q_total : forall (d : dist Q) p, d_sf d <> [] ->
  exists s, d_sample QOps d p = Ok s /\ d_score QOps d p = Ok s.
Proof.
  intros d p Hne. destruct (methods_Q_total d 0 p Hne) as [_ [s Hs]]. exists s. split; exact Hs.
Qed.
