(* Lemmas about the score-distribution model. *)
From Coq Require Import List ZArith QArith Qround Qabs Bool Arith Lia Lqa.
From LMBase Require Import Res ListX IEEE.
From LMDist Require Import DistModel DistInst.
Import ListNotations.

(* ====================================================================== *)
(* Part 1.  The survival function is non-increasing with values in [0,1],
   for every carrier with an order for which the clipped cumulative sum of
   non-negative terms is monotone.                                           *)
(* ====================================================================== *)

Section SfGeneric.
  Context {T : Type} (N : NumOps T).
  Variable le : T -> T -> Prop.
  Hypothesis le_trans : forall a b c, le a b -> le b c -> le a c.
  Hypothesis min1_le_one : forall a b,
    le (n_zero N) a -> le (n_zero N) b -> le b (n_one N) -> le (n_min1 N (n_add N a b)) (n_one N).
  Hypothesis min1_range : forall p, le (n_zero N) p -> le (n_zero N) (n_min1 N p) /\ le (n_min1 N p) (n_one N).
  Hypothesis step_mono : forall a b,
    le (n_zero N) a -> le (n_zero N) b -> le b (n_one N) -> le b (n_min1 N (n_add N a b)).

  Fixpoint noninc (l : list T) : Prop :=
    match l with
    | x :: ((y :: _) as r) => le y x /\ noninc r
    | _ => True
    end.

  Definition in01 (x : T) : Prop := le (n_zero N) x /\ le x (n_one N).

  Lemma sf_loop_inv : forall revrest i next acc' mn mx sf mn' mx',
    Forall (le (n_zero N)) revrest ->
    noninc (next :: acc') -> Forall in01 (next :: acc') ->
    sf_loop N i revrest next (next :: acc') mn mx = (sf, mn', mx') ->
    length sf = (length revrest + S (length acc'))%nat /\ noninc sf /\ Forall in01 sf.
  Proof.
    induction revrest as [|p_i r IH]; intros i next acc' mn mx sf mn' mx' Hpos Hni H01 Hrun.
    - cbn in Hrun. inversion Hrun; subst. cbn. auto.
    - cbn [sf_loop] in Hrun.
      inversion Hpos as [|? ? Hp Hr]; subst.
      inversion H01 as [|? ? Hn Hacc]; subst. destruct Hn as [Hn0 Hn1].
      apply IH in Hrun; auto.
      + destruct Hrun as (Hl & Hn & Hf). split; [|split]; auto.
        rewrite Hl. cbn. lia.
      + split; auto.
      + constructor; auto. split.
        * eapply le_trans; [exact Hn0|]. apply step_mono; auto.
        * apply min1_le_one; auto.
  Qed.

  Lemma rev_cons_last : forall (l : list T) x r d, rev l = x :: r -> last l d = x /\ l = rev r ++ [x].
  Proof.
    intros l x r d H. assert (l = rev (x :: r)) as E by (rewrite <- H, rev_involutive; reflexivity).
    cbn in E. subst l. split; [apply last_last | reflexivity].
  Qed.

  Theorem survival_monotone_range : forall pdf sf mn mx,
    Forall (le (n_zero N)) pdf ->
    survival N pdf = Ok (sf, mn, mx) ->
    length sf = length pdf /\ noninc sf /\ Forall in01 sf.
  Proof.
    intros pdf sf mn mx Hpos Hs. unfold survival in Hs.
    destruct (rev pdf) as [|lst revrest] eqn:E; [discriminate|].
    destruct revrest as [|y r]; [discriminate|].
    assert (sf_loop N (Z.of_nat (length pdf) - 2) (y :: r) (n_min1 N lst) [n_min1 N lst] 0 0 = (sf, mn, mx)) as Hrun by congruence.
    clear Hs.
    destruct (rev_cons_last pdf lst (y :: r) (n_zero N) E) as [Hl Hpdf].
    assert (Forall (le (n_zero N)) (lst :: y :: r)) as Hall.
    { rewrite <- E. apply Forall_rev. exact Hpos. }
    inversion Hall as [|? ? Hlst Hrest]; subst x l.
    destruct (min1_range lst Hlst) as [Hm0 Hm1].
    apply sf_loop_inv in Hrun; auto.
    - destruct Hrun as (Hlen & Hn & Hf). split; [|split]; auto.
      rewrite Hlen. rewrite Hpdf. rewrite app_length, rev_length. cbn. lia.
    - cbn. exact I.
    - constructor; [|constructor]. split; assumption.
  Qed.

  (* adjacent order gives the order of any two entries *)
  Lemma noninc_head : forall l x j d,
    (forall x, le (n_zero N) x -> le x x) ->
    noninc (x :: l) -> Forall in01 (x :: l) -> (j < S (length l))%nat -> le (nth j (x :: l) d) x.
  Proof.
    induction l as [|y l IH]; intros x j d Hrefl Hn Hf Hj.
    - cbn in Hj. assert (j = 0)%nat by lia. subst. cbn. inversion Hf as [|? ? [H0 _] _]. apply Hrefl, H0.
    - inversion Hf as [|? ? [H0 _] Hl]; subst. destruct j; [cbn; apply Hrefl, H0|].
      destruct Hn as [Hyx Hn]. cbn [nth]. eapply le_trans; [|exact Hyx].
      apply IH; auto. cbn in Hj. lia.
  Qed.

  Lemma noninc_nth : forall l i j d,
    (forall x, le (n_zero N) x -> le x x) ->
    noninc l -> Forall in01 l -> (i <= j < length l)%nat -> le (nth j l d) (nth i l d).
  Proof.
    induction l as [|x l IH]; intros i j d Hrefl Hn Hf Hij; [cbn in Hij; lia|].
    destruct i.
    - change (nth 0 (x :: l) d) with x. apply noninc_head; auto. cbn in Hij. lia.
    - destruct j; [lia|]. cbn [nth]. inversion Hf; subst. apply IH; auto.
      + destruct l; [exact I|]. destruct Hn; assumption.
      + cbn in Hij. lia.
  Qed.

  (* ----- p-values are non-increasing in the scaled score ----- *)

  Definition pv_idx (d : dist T) (r : Z) : T :=
    if r <? d_min d then nth 0 (d_sf d) (n_zero N)
    else if Z.of_nat (length (d_sf d)) <=? as_usize r then n_zero N
    else nth (Z.to_nat r) (d_sf d) (n_zero N).

  Lemma d_pvalue_idx : forall d s, d_sf d <> [] ->
    d_pvalue N d s = (r <- d_scale N d s ;; Ok (pv_idx d r)).
  Proof.
    intros d s Hne. unfold d_pvalue, pv_idx. destruct (d_scale N d s) as [r| | |]; cbn; auto.
    destruct (d_sf d) as [|x l] eqn:E; [contradiction|].
    destruct (r <? d_min d); auto. destruct (Z.of_nat (length (x :: l)) <=? as_usize r); auto.
  Qed.

  Lemma pv_idx_mono : forall d r1 r2,
    (forall x, le (n_zero N) x -> le x x) ->
    le (n_zero N) (n_zero N) ->
    noninc (d_sf d) -> Forall in01 (d_sf d) -> d_sf d <> [] -> 0 <= d_min d ->
    r1 <= r2 -> le (pv_idx d r2) (pv_idx d r1).
  Proof.
    intros d r1 r2 Hrefl H00 Hn Hf Hne Hmin Hr.
    assert (forall r, 0 <= r -> as_usize r = r) as Hus.
    { intros r Hr0. unfold as_usize. destruct (r <? 0) eqn:E; [apply Z.ltb_lt in E; lia|reflexivity]. }
    assert (forall i, (i < length (d_sf d))%nat -> in01 (nth i (d_sf d) (n_zero N))) as Hin.
    { intros i Hi. rewrite Forall_forall in Hf. apply Hf, nth_In, Hi. }
    assert (0 < length (d_sf d))%nat as Hlen0.
    { destruct (d_sf d); [contradiction|cbn; lia]. }
    (* every value is at most the first entry *)
    assert (forall r, le (pv_idx d r) (nth 0 (d_sf d) (n_zero N))) as Hle0.
    { intros r. unfold pv_idx. destruct (r <? d_min d) eqn:E1.
      - apply Hrefl. apply (Hin 0%nat Hlen0).
      - apply Z.ltb_ge in E1. rewrite (Hus r) by lia.
        destruct (Z.of_nat (length (d_sf d)) <=? r) eqn:E2.
        + apply (Hin 0%nat Hlen0).
        + apply Z.leb_gt in E2. apply noninc_nth; auto. lia. }
    unfold pv_idx at 2. destruct (r1 <? d_min d) eqn:E1; [apply Hle0|].
    apply Z.ltb_ge in E1. rewrite (Hus r1) by lia.
    unfold pv_idx. destruct (r2 <? d_min d) eqn:E3; [apply Z.ltb_lt in E3; lia|].
    rewrite (Hus r2) by lia.
    destruct (Z.of_nat (length (d_sf d)) <=? r1) eqn:E2.
    - apply Z.leb_le in E2. destruct (Z.of_nat (length (d_sf d)) <=? r2) eqn:E4; [exact H00|].
      apply Z.leb_gt in E4. lia.
    - apply Z.leb_gt in E2. destruct (Z.of_nat (length (d_sf d)) <=? r2) eqn:E4.
      + apply Hin. lia.
      + apply Z.leb_gt in E4. apply noninc_nth; auto. lia.
  Qed.
End SfGeneric.

(* ====================================================================== *)
(* Part 2.  Exact rationals: rounding, the order hypotheses of Part 1,     *)
(* the discretisation error.                                               *)
(* ====================================================================== *)

Local Open Scope Q_scope.

Lemma Qle_bool_true : forall x y, Qle_bool x y = true -> x <= y.
Proof. intros. apply Qle_bool_iff. assumption. Qed.
Lemma Qle_bool_false : forall x y, Qle_bool x y = false -> y < x.
Proof.
  intros x y H. apply Qnot_le_lt. intros C. apply Qle_bool_iff in C. congruence.
Qed.

Lemma Qfloor_bounds : forall x, inject_Z (Qfloor x) <= x /\ x < inject_Z (Qfloor x) + 1.
Proof.
  intros x. split; [apply Qfloor_le|].
  pose proof (Qlt_floor x) as H. rewrite inject_Z_plus in H. exact H.
Qed.

Lemma Qfloor_nonneg : forall x, 0 <= x -> (0 <= Qfloor x)%Z.
Proof.
  intros x H. change 0%Z with (Qfloor 0). apply Qfloor_resp_le. exact H.
Qed.

Lemma inject_Z_nonneg : forall z, (0 <= z)%Z -> 0 <= inject_Z z.
Proof. intros z H. change 0 with (inject_Z 0). rewrite <- Zle_Qle. exact H. Qed.

(* |round(y) - y| <= 1/2 *)
Lemma Qround_away_err : forall y,
  y - (1#2) <= inject_Z (Qround_away y) /\ inject_Z (Qround_away y) <= y + (1#2).
Proof.
  intros y. unfold Qround_away. destruct (Qle_bool 0 y) eqn:E.
  - destruct (Qfloor_bounds (y + (1#2))) as [H1 H2].
    set (f := inject_Z (Qfloor (y + (1#2)))) in *. split; lra.
  - destruct (Qfloor_bounds (- y + (1#2))) as [H1 H2].
    rewrite inject_Z_opp. set (f := inject_Z (Qfloor (- y + (1#2)))) in *. split; lra.
Qed.

Lemma Qround_away_mono : forall y1 y2, y1 <= y2 -> (Qround_away y1 <= Qround_away y2)%Z.
Proof.
  intros y1 y2 H. unfold Qround_away.
  destruct (Qle_bool 0 y1) eqn:E1; destruct (Qle_bool 0 y2) eqn:E2.
  - apply Qfloor_resp_le. lra.
  - apply Qle_bool_true in E1. apply Qle_bool_false in E2. lra.
  - apply Qle_bool_false in E1. apply Qle_bool_true in E2.
    assert (0 <= Qfloor (- y1 + (1#2)))%Z by (apply Qfloor_nonneg; lra).
    assert (0 <= Qfloor (y2 + (1#2)))%Z by (apply Qfloor_nonneg; lra). lia.
  - assert (Qfloor (- y2 + (1#2)) <= Qfloor (- y1 + (1#2)))%Z by (apply Qfloor_resp_le; lra). lia.
Qed.

Lemma clamp_i32_mono : forall a b, (a <= b)%Z -> (clamp_i32 a <= clamp_i32 b)%Z.
Proof. intros a b H. unfold clamp_i32, i32_min, i32_max. lia. Qed.

Lemma clamp_i32_id : forall a, (i32_min <= a <= i32_max)%Z -> clamp_i32 a = a.
Proof. intros a H. unfold clamp_i32, i32_min, i32_max in *. lia. Qed.

(* the order hypotheses of Part 1 hold for Q *)
Lemma Qmin1_le_one : forall p, Qmin1 p <= 1.
Proof.
  intros p. unfold Qmin1. destruct (Qcompare_spec 1 p) as [E|E|E]; lra.
Qed.

Lemma Qmin1_step : forall a b, 0 <= a -> 0 <= b -> b <= 1 -> b <= Qmin1 (a + b).
Proof.
  intros a b Ha Hb H1. unfold Qmin1. destruct (Qcompare_spec 1 (a + b)) as [E|E|E]; lra.
Qed.

Lemma Qmin1_id : forall p, p <= 1 -> Qmin1 p == p.
Proof.
  intros p H. unfold Qmin1. destruct (Qcompare_spec 1 p) as [E|E|E]; lra.
Qed.

Lemma Qmin1_range : forall p, 0 <= p -> 0 <= Qmin1 p /\ Qmin1 p <= 1.
Proof.
  intros p H. unfold Qmin1. destruct (Qcompare_spec 1 p) as [E|E|E]; split; lra.
Qed.

(* ----- stage A over Q ----- *)

Lemma min_by_Q : forall l acc r,
  min_by QOps acc l = Ok r -> r <= acc /\ Forall (fun x => r <= x) l /\ In r (acc :: l).
Proof.
  induction l as [|y l IH]; intros acc r H; cbn in H.
  - inversion H; subst. repeat split; [lra | constructor | left; reflexivity].
  - destruct (Qcompare_spec acc y) as [E|E|E]; apply IH in H; destruct H as (H1 & H2 & H3).
    + repeat split; auto. constructor; [lra|auto]. destruct H3; [left|right; right]; auto.
    + repeat split; auto. constructor; [lra|auto]. destruct H3; [left|right; right]; auto.
    + repeat split; [lra| |]. constructor; [lra|auto]. right. exact H3.
Qed.

Lemma max_by_Q : forall l acc r,
  max_by QOps acc l = Ok r -> acc <= r /\ Forall (fun x => x <= r) l /\ In r (acc :: l).
Proof.
  induction l as [|y l IH]; intros acc r H; cbn in H.
  - inversion H; subst. repeat split; [lra | constructor | left; reflexivity].
  - destruct (Qcompare_spec acc y) as [E|E|E]; apply IH in H; destruct H as (H1 & H2 & H3).
    + repeat split; [lra| |]. constructor; [lra|auto]. right. exact H3.
    + repeat split; [lra| |]. constructor; [lra|auto]. right. exact H3.
    + repeat split; auto. constructor; [lra|auto]. destruct H3; [left|right; right]; auto.
Qed.

Lemma min_by_Q_ok : forall l acc, exists r, min_by QOps acc l = Ok r.
Proof.
  induction l as [|y l IH]; intros acc; cbn; [eauto|]. destruct (acc ?= y); apply IH.
Qed.
Lemma max_by_Q_ok : forall l acc, exists r, max_by QOps acc l = Ok r.
Proof.
  induction l as [|y l IH]; intros acc; cbn; [eauto|]. destruct (acc ?= y); apply IH.
Qed.

Lemma Qmult_le_1000 : forall u w s, 0 <= u -> u <= w -> 0 < w -> 0 <= s -> s <= 1000 / w -> u * s <= 1000.
Proof.
  intros u w s Hu Huw Hw Hs Hsw.
  apply Qle_trans with (w * s).
  - apply Qmult_le_compat_r; assumption.
  - apply Qle_trans with (w * (1000 / w)).
    + rewrite (Qmult_comm w s), (Qmult_comm w (1000 / w)). apply Qmult_le_compat_r; [assumption | lra].
    + rewrite Qmult_div_r; [lra|]. intros C. rewrite C in Hw. lra.
Qed.

(* what stage A guarantees in exact arithmetic *)
Definition stage_a_spec (m : list (list (cell Q))) (offset scale : Q) : Prop :=
  (exists z, offset = inject_Z z) /\ 0 < scale /\
  forall x, In x (finite_cells QOps m) -> offset <= x /\ (x - offset) * scale <= 1000.

Definition q_small (small0 large : Q) : Q := if eqb_n QOps small0 large then large - 1 else small0.
Definition q_scale (quot : Q) : Q := if eqb_n QOps (inject_Z (Qfloor quot)) 0 then quot else inject_Z (Qfloor quot).

Lemma stage_a_Q_eq : forall m,
  stage_a QOps m =
  (small0 <- small_of QOps m ;; large <- large_of QOps m ;;
   Ok (inject_Z (Qfloor (q_small small0 large)),
       q_scale (inject_Z 1000 / (large - inject_Z (Qfloor (q_small small0 large)))))).
Proof. reflexivity. Qed.

Lemma stage_a_Q : forall m offset scale,
  stage_a QOps m = Ok (offset, scale) -> stage_a_spec m offset scale.
Proof.
  intros m offset scale H. rewrite stage_a_Q_eq in H. unfold small_of, large_of in H.
  destruct (finite_cells QOps m) as [|x0 r] eqn:Ecells; [discriminate|].
  destruct (min_by_Q_ok r x0) as [small0 Hmin]. destruct (max_by_Q_ok r x0) as [large Hmax].
  rewrite Hmin, Hmax in H. cbn [rbind] in H.
  apply min_by_Q in Hmin. destruct Hmin as (Hm1 & Hm2 & Hm3).
  apply max_by_Q in Hmax. destruct Hmax as (HM1 & HM2 & HM3).
  assert (offset = inject_Z (Qfloor (q_small small0 large)) /\
          scale = q_scale (inject_Z 1000 / (large - inject_Z (Qfloor (q_small small0 large)))))
    as [Hoff Hsc] by (split; congruence).
  clear H. set (small := q_small small0 large) in *.
  assert (small <= small0 /\ small < large) as [Hs1 Hs2].
  { unfold small, q_small, eqb_n. cbn. destruct (Qcompare_spec small0 large) as [E|E|E]; split; lra. }
  destruct (Qfloor_bounds small) as [Hf1 Hf2].
  set (off := inject_Z (Qfloor small)) in *. subst offset scale.
  assert (0 < large - off) as Hpos by lra.
  set (quot := inject_Z 1000 / (large - off)) in *.
  destruct (Qfloor_bounds quot) as [Hg1 Hg2].
  assert (0 < quot) as Hq.
  { unfold quot. apply Qlt_shift_div_l; [exact Hpos|]. rewrite Qmult_0_l. reflexivity. }
  assert (0 <= inject_Z (Qfloor quot)) as Hfl by (apply inject_Z_nonneg, Qfloor_nonneg; lra).
  assert (0 < q_scale quot /\ q_scale quot <= quot) as [Hsc0 Hsc1].
  { unfold q_scale, eqb_n. cbn [n_cmp QOps].
    destruct (Qcompare_spec (inject_Z (Qfloor quot)) 0) as [E|E|E]; split; lra. }
  split; [eexists; reflexivity|]. split; [exact Hsc0|].
  intros x H. rewrite Ecells in H.
  assert (small0 <= x /\ x <= large) as [Hx1 Hx2].
  { destruct H as [Hx|Hx]; [subst; split; lra|]. rewrite Forall_forall in Hm2, HM2. split; auto. }
  split; [lra|].
  apply (Qmult_le_1000 _ (large - off)); try lra.
  exact Hsc1.
Qed.
