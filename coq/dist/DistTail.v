(* Properties of the exact distribution of the discretised score (tailD, pmf_of), the
   survival loop over exact rationals, and the decomposition of [build]. *)
From Coq Require Import List ZArith QArith Qround Qabs Bool Arith Lia Lqa.
From LMBase Require Import Res ListX.
From LMDist Require Import DistModel DistInst DistProofs DistConv.
Import ListNotations.
Local Open Scope Q_scope.

Opaque cdf_range.

(* ---------- functional lemmas about the recursion ---------- *)

Lemma tailD_step_ext : forall bg F G row k,
  (forall k, F k == G k) -> tailD_step bg F row k == tailD_step bg G row k.
Proof.
  intros bg F G row k H. unfold tailD_step. apply Qsum_map_ext. intros [s b] _. cbn [fst snd].
  destruct (s =? i32_min)%Z; [reflexivity|]. rewrite H. reflexivity.
Qed.

Lemma tailD_step_minus : forall bg P G row,
  (forall k, P k == G k - G (k + 1)%Z) ->
  forall k, tailD_step bg P row k == tailD_step bg G row k - tailD_step bg G row (k + 1)%Z.
Proof.
  intros bg P G row H k. unfold tailD_step. rewrite <- Qsum_map_minus.
  apply Qsum_map_ext. intros [s b] _. cbn [fst snd].
  destruct (s =? i32_min)%Z; [ring|]. rewrite H.
  replace (k + 1 - s)%Z with (k - s + 1)%Z by lia. ring.
Qed.

Lemma fold_step_minus : forall bg rows P G,
  (forall k, P k == G k - G (k + 1)%Z) ->
  forall k, fold_left (tailD_step bg) rows P k ==
            fold_left (tailD_step bg) rows G k - fold_left (tailD_step bg) rows G (k + 1)%Z.
Proof.
  intros bg rows. induction rows as [|row r IH]; intros P G H k; cbn [fold_left]; [apply H|].
  apply IH. apply tailD_step_minus. exact H.
Qed.

Theorem pmf_of_tailD : forall data bg k, pmf_of data bg k == pmfD data bg k.
Proof.
  intros data bg k. unfold pmf_of, pmfD, tailD. apply fold_step_minus.
  intros j. unfold base_pmf, base_tailD.
  destruct (j =? 0)%Z eqn:E0.
  - apply Z.eqb_eq in E0. subst j. cbn. ring.
  - apply Z.eqb_neq in E0. destruct (j <=? 0)%Z eqn:E1.
    + apply Z.leb_le in E1. replace (j + 1 <=? 0)%Z with true by (symmetry; apply Z.leb_le; lia). ring.
    + apply Z.leb_gt in E1. replace (j + 1 <=? 0)%Z with false by (symmetry; apply Z.leb_gt; lia). ring.
Qed.

Definition bg_nonneg (bg : list Q) : Prop := Forall (fun b => 0 <= b) bg.
Definition antitone (G : Z -> Q) : Prop := forall k k', (k <= k')%Z -> G k' <= G k.

Lemma in_combine_bg : forall (row : list Z) bg s b, bg_nonneg bg -> In (s, b) (combine row bg) -> 0 <= b.
Proof.
  intros row bg s b Hbg Hin. apply in_combine_r in Hin. unfold bg_nonneg in Hbg.
  rewrite Forall_forall in Hbg. apply Hbg. exact Hin.
Qed.

Lemma step_antitone : forall bg G row, bg_nonneg bg -> antitone G -> antitone (tailD_step bg G row).
Proof.
  intros bg G row Hbg HG k k' Hk. unfold tailD_step. apply Qsum_map_le. intros [s b] Hin. cbn [fst snd].
  destruct (s =? i32_min)%Z; [lra|]. pose proof (in_combine_bg _ _ _ _ Hbg Hin) as Hb.
  assert (G (k' - s)%Z <= G (k - s)%Z) as HGk by (apply HG; lia).
  rewrite (Qmult_comm b), (Qmult_comm b). apply Qmult_le_compat_r; assumption.
Qed.

Lemma step_nonneg : forall bg G row, bg_nonneg bg -> (forall k, 0 <= G k) -> forall k, 0 <= tailD_step bg G row k.
Proof.
  intros bg G row Hbg HG k. unfold tailD_step. apply Qsum_map_nonneg. intros [s b] Hin. cbn [fst snd].
  destruct (s =? i32_min)%Z; [lra|]. pose proof (in_combine_bg _ _ _ _ Hbg Hin) as Hb.
  apply Qmult_le_0_compat; [exact Hb|apply HG].
Qed.

Lemma Qsum_snd_combine_le : forall (row : list Z) bg, bg_nonneg bg ->
  Qsum (map (fun sb : Z * Q => snd sb) (combine row bg)) <= Qsum bg.
Proof.
  induction row as [|s row IH]; intros bg Hbg.
  - cbn. change (0 <= Qsum (map (fun b : Q => b) bg)) || idtac.
    assert (0 <= Qsum (map (fun b : Q => b) bg)) as H.
    { apply Qsum_map_nonneg. intros b Hb. unfold bg_nonneg in Hbg. rewrite Forall_forall in Hbg. apply Hbg, Hb. }
    rewrite map_id in H. exact H.
  - destruct bg as [|b bg]; [cbn; lra|]. inversion Hbg; subst. cbn [combine map Qsum snd].
    pose proof (IH bg H2). lra.
Qed.

Lemma step_le1 : forall bg G row, bg_nonneg bg -> Qsum bg <= 1 -> (forall k, 0 <= G k <= 1) ->
  forall k, tailD_step bg G row k <= 1.
Proof.
  intros bg G row Hbg Hm HG k. unfold tailD_step.
  apply Qle_trans with (Qsum (map (fun sb : Z * Q => snd sb) (combine row bg))).
  - apply Qsum_map_le. intros [s b] Hin. cbn [fst snd].
    pose proof (in_combine_bg _ _ _ _ Hbg Hin) as Hb.
    destruct (s =? i32_min)%Z; [exact Hb|]. destruct (HG (k - s)%Z) as [H0 H1].
    rewrite <- (Qmult_1_r b) at 2. rewrite (Qmult_comm b), (Qmult_comm b 1).
    apply Qmult_le_compat_r; assumption.
  - eapply Qle_trans; [apply Qsum_snd_combine_le; exact Hbg|exact Hm].
Qed.

(* mass of the symbols a row of the discretised matrix does not skip *)
Definition dmass (bg : list Q) (row : list Z) : Q :=
  Qsum (map (fun sb : Z * Q => if (fst sb =? i32_min)%Z then 0 else snd sb) (combine row bg)).

Lemma step_low : forall bg G row c, row_ok row -> (forall k, (k <= 0)%Z -> G k == c) ->
  forall k, (k <= 0)%Z -> tailD_step bg G row k == dmass bg row * c.
Proof.
  intros bg G row c Hrow HG k Hk. unfold tailD_step, dmass. rewrite <- Qsum_map_scal.
  apply Qsum_map_ext. intros [s b] Hin. cbn [fst snd].
  destruct (s =? i32_min)%Z eqn:Emin; [ring|].
  apply in_combine_l in Hin. unfold row_ok in Hrow. rewrite Forall_forall in Hrow.
  destruct (Hrow s Hin) as [E|E]; [apply Z.eqb_neq in Emin; contradiction|].
  rewrite HG by lia. reflexivity.
Qed.

Lemma step_high : forall bg G row n, row_ok row ->
  (forall k, (Z.of_nat (n * cdf_range) < k)%Z -> G k == 0) ->
  forall k, (Z.of_nat (S n * cdf_range) < k)%Z -> tailD_step bg G row k == 0.
Proof.
  intros bg G row n Hrow HG k Hk. unfold tailD_step. apply Qsum_map_zero. intros [s b] Hin. cbn [fst snd].
  destruct (s =? i32_min)%Z eqn:Emin; [reflexivity|].
  apply in_combine_l in Hin. unfold row_ok in Hrow. rewrite Forall_forall in Hrow.
  destruct (Hrow s Hin) as [E|E]; [apply Z.eqb_neq in Emin; contradiction|].
  rewrite HG; [ring|]. lia.
Qed.

(* ---------- the four facts about tailD, by induction over the rows ---------- *)

Record TailInv (n : nat) (c : Q) (G : Z -> Q) : Prop := {
  ti_anti : antitone G;
  ti_nonneg : forall k, 0 <= G k;
  ti_low : forall k, (k <= 0)%Z -> G k == c;
  ti_high : forall k, (Z.of_nat (n * cdf_range) < k)%Z -> G k == 0
}.

Fixpoint dmass_all (bg : list Q) (data : list (list Z)) : Q :=
  match data with [] => 1 | row :: r => dmass bg row * dmass_all bg r end.

Lemma fold_TailInv : forall bg rows n c G,
  bg_nonneg bg -> Forall row_ok rows -> TailInv n c G ->
  TailInv (n + length rows) (c * dmass_all bg rows) (fold_left (tailD_step bg) rows G).
Proof.
  intros bg rows. induction rows as [|row r IH]; intros n c G Hbg Hrows [Ha Hn Hl Hh].
  - cbn [fold_left length dmass_all]. rewrite Nat.add_0_r.
    constructor; auto. intros k Hk. rewrite Hl by exact Hk. ring.
  - inversion Hrows as [|? ? Hrow Hr]; subst. cbn [fold_left length dmass_all].
    replace (n + S (length r))%nat with (S n + length r)%nat by lia.
    assert (c * (dmass bg row * dmass_all bg r) == (dmass bg row * c) * dmass_all bg r) as Ec by ring.
    assert (TailInv (S n) (dmass bg row * c) (tailD_step bg G row)) as H1.
    { constructor.
      - apply step_antitone; assumption.
      - apply step_nonneg; assumption.
      - apply step_low; assumption.
      - apply step_high; assumption. }
    pose proof (IH (S n) _ _ Hbg Hr H1) as [Ha' Hn' Hl' Hh'].
    constructor; auto. intros k Hk. rewrite Hl' by exact Hk. rewrite Ec. reflexivity.
Qed.

Lemma base_TailInv : TailInv 0 1 base_tailD.
Proof.
  constructor.
  - intros k k' Hk. unfold base_tailD. destruct (k' <=? 0)%Z eqn:E1; destruct (k <=? 0)%Z eqn:E2; try lra.
    apply Z.leb_le in E1. apply Z.leb_gt in E2. lia.
  - intros k. unfold base_tailD. destruct (k <=? 0)%Z; lra.
  - intros k Hk. unfold base_tailD. replace (k <=? 0)%Z with true by (symmetry; apply Z.leb_le; lia). reflexivity.
  - intros k Hk. unfold base_tailD. replace (k <=? 0)%Z with false; [reflexivity|].
    symmetry. apply Z.leb_gt. cbn in Hk. lia.
Qed.

Theorem tailD_facts : forall bg data, bg_nonneg bg -> Forall row_ok data ->
  TailInv (length data) (dmass_all bg data) (tailD data bg).
Proof.
  intros bg data Hbg Hd. pose proof (fold_TailInv bg data 0 1 base_tailD Hbg Hd base_TailInv) as [Ha Hn Hl Hh].
  cbn [Nat.add] in *. constructor; auto. intros k Hk. rewrite (Hl k Hk). ring.
Qed.

Lemma fold_le1 : forall bg rows G, bg_nonneg bg -> Qsum bg <= 1 -> (forall k, 0 <= G k <= 1) ->
  forall k, 0 <= fold_left (tailD_step bg) rows G k <= 1.
Proof.
  intros bg rows. induction rows as [|row r IH]; intros G Hbg Hm HG k; cbn [fold_left]; [apply HG|].
  apply IH; auto. intros j. split; [apply step_nonneg; auto; intros; apply HG|apply step_le1; auto].
Qed.

Theorem tailD_le1 : forall bg data k, bg_nonneg bg -> Qsum bg <= 1 -> 0 <= tailD data bg k <= 1.
Proof.
  intros bg data k Hbg Hm. unfold tailD. apply fold_le1; auto.
  intros j. unfold base_tailD. destruct (j <=? 0)%Z; lra.
Qed.
