(* The density computed by the convolution loop of `From<ScoringMatrix> for ScoreDistribution` is
   finite and non-negative IN BINARY64 ITSELF (the hypothesis that DistIEEE.table_F64 left open):
   for a background of finite doubles in [0,1] (what `Background::new` / `from_counts` guarantee)
   every entry of both buffers after row i is a finite double in [0, 2^(c*i)], where 2^c > K bounds
   the number of symbols: a product old*b with 0 <= b <= 1 rounds into [0, old] (rounding is monotone
   and keeps representable numbers), and a partial sum of t such products is at most t * 2^(c*i), a
   representable number below the overflow threshold as long as c*M <= 1023.  Hence no NaN, no
   infinity, no negative entry; with DistIEEE.sf_monotone_range_F64 the table of every built
   distribution is non-increasing in [0,1] and finite -- no hypothesis about the pdf is left.
   (The bound is crude on purpose: it does not use the sum of the background; M <= 341 for DNA,
   M <= 204 for proteins, far above any motif the O(M^2) construction can handle.) *)
From Coq Require Import Reals ZArith List Bool Lia Lra.
From Flocq Require Import Core BinarySingleNaN.
From LMBase Require Import Res ListX IEEE.
From LMDist Require Import DistModel DistInst DistGridModel DistStrictModel DistProofs DistCheckProofs DistIEEE.
Import ListNotations.
Local Open Scope R_scope.

(* finite, inside [0, B] *)
Definition PB (B : R) (x : F64.t) : Prop := is_finite x = true /\ 0 <= B2R x <= B.

Lemma PB_weaken : forall B B' x, B <= B' -> PB B x -> PB B' x.
Proof. intros B B' x H (F & H0 & H1). repeat split; auto. lra. Qed.

Lemma PB_zero : forall B, 0 <= B -> PB B F64.zero.
Proof. intros B H. repeat split; change (B2R F64.zero) with 0; lra. Qed.

Lemma PB_one : PB 1 f64_one.
Proof. destruct f64_one_R as [F E]. repeat split; auto; rewrite E; lra. Qed.

Lemma finite_lt_EM : forall x : F64.t, is_finite x = true -> Rabs (B2R x) < bpow radix2 1024.
Proof. intros x F. apply abs_B2R_lt_emax. Qed.

Lemma rnd_le : forall x y, x <= y ->
  round radix2 (SpecFloat.fexp 53 1024) (round_mode mode_NE) x <=
  round radix2 (SpecFloat.fexp 53 1024) (round_mode mode_NE) y.
Proof. intros x y H. apply round_le; [apply fexp_correct; reflexivity|apply valid_rnd_N|exact H]. Qed.

Lemma rnd_id : forall x : F64.t,
  round radix2 (SpecFloat.fexp 53 1024) (round_mode mode_NE) (B2R x) = B2R x.
Proof. intros x. apply round_generic; [apply valid_rnd_N|apply generic_format_B2R]. Qed.

Lemma rnd_0 : round radix2 (SpecFloat.fexp 53 1024) (round_mode mode_NE) 0 = 0.
Proof. apply round_0. apply valid_rnd_N. Qed.

(* old * b with 0 <= b <= 1 *)
Lemma mul_PB : forall B x b, PB B x -> PB 1 b -> PB B (F64.mul x b).
Proof.
  intros B x b (Fx & Hx0 & HxB) (Fb & Hb0 & Hb1).
  unfold F64.mul, fmul.
  pose proof (Bmult_correct 53 1024 _ _ mode_NE x b) as H.
  set (r := round radix2 (SpecFloat.fexp 53 1024) (round_mode mode_NE) (B2R x * B2R b)) in *.
  assert (0 <= r <= B2R x) as Hr.
  { split.
    - unfold r. rewrite <- rnd_0. apply rnd_le. apply Rmult_le_pos; assumption.
    - unfold r. rewrite <- (rnd_id x) at 2. apply rnd_le.
      rewrite <- (Rmult_1_r (B2R x)) at 2. apply Rmult_le_compat_l; lra. }
  assert (Rabs r < bpow radix2 1024) as Hlt.
  { rewrite Rabs_pos_eq by lra. pose proof (finite_lt_EM x Fx) as Hx. rewrite Rabs_pos_eq in Hx by lra. lra. }
  rewrite (Rlt_bool_true _ _ Hlt) in H. destruct H as (HR & HF & _).
  repeat split.
  - rewrite HF, Fx, Fb. reflexivity.
  - rewrite HR. lra.
  - rewrite HR. lra.
Qed.

(* new + v when the sum of the two bounds is representable and below the overflow threshold *)
Lemma add_PB : forall S B s v, PB S s -> PB B v ->
  generic_format radix2 (SpecFloat.fexp 53 1024) (S + B) -> S + B < bpow radix2 1024 ->
  PB (S + B) (F64.add s v).
Proof.
  intros S B s v (Fs & Hs0 & HsS) (Fv & Hv0 & HvB) Hg Hlt.
  unfold F64.add, fadd.
  pose proof (Bplus_correct 53 1024 _ _ mode_NE s v Fs Fv) as H.
  set (r := round radix2 (SpecFloat.fexp 53 1024) (round_mode mode_NE) (B2R s + B2R v)) in *.
  assert (0 <= r <= S + B) as Hr.
  { split.
    - unfold r. rewrite <- rnd_0. apply rnd_le. lra.
    - assert (round radix2 (SpecFloat.fexp 53 1024) (round_mode mode_NE) (S + B) = S + B) as Eg.
      { apply round_generic; [apply valid_rnd_N|exact Hg]. }
      unfold r. rewrite <- Eg. apply rnd_le. lra. }
  assert (Rabs r < bpow radix2 1024) as Hab by (rewrite Rabs_pos_eq by lra; lra).
  rewrite (Rlt_bool_true _ _ Hab) in H. destruct H as (HR & HF & _).
  repeat split; [exact HF|rewrite HR; lra|rewrite HR; lra].
Qed.

(* t * 2^e is a double for 0 <= t <= 2^53, 0 <= e *)
Lemma int_pow_format : forall t e : Z, (0 <= t <= 2 ^ 53)%Z -> (0 <= e)%Z ->
  generic_format radix2 (SpecFloat.fexp 53 1024) (IZR t * bpow radix2 e).
Proof.
  intros t e Ht He.
  destruct (Z.eq_dec t (2 ^ 53)) as [E|NE].
  - subst t. change (IZR (2 ^ 53)) with (bpow radix2 53). rewrite <- bpow_plus.
    apply generic_format_bpow. unfold SpecFloat.fexp, SpecFloat.emin. lia.
  - change (IZR t * bpow radix2 e) with (F2R (Float radix2 t e)).
    apply generic_format_F2R. intros Hnz. unfold cexp, SpecFloat.fexp, SpecFloat.emin.
    assert (mag radix2 (F2R (Float radix2 t e)) <= 53 + e)%Z as Hm.
    { apply mag_le_bpow.
      - apply F2R_neq_0. exact Hnz.
      - unfold F2R. cbn [Fnum Fexp]. rewrite Rabs_mult, (Rabs_pos_eq (bpow radix2 e)) by apply bpow_ge_0.
        rewrite bpow_plus. apply Rmult_lt_compat_r; [apply bpow_gt_0|].
        rewrite <- abs_IZR. change (bpow radix2 53) with (IZR (2 ^ 53)). apply IZR_lt. lia. }
    lia.
Qed.

Lemma Forall_skipn_ : forall (A : Type) (P : A -> Prop) n (l : list A), Forall P l -> Forall P (skipn n l).
Proof.
  intros A P n. induction n as [|n IH]; intros l H; [exact H|].
  destruct l as [|x l]; [exact H|]. inversion H; subst. cbn [skipn]. apply IH. assumption.
Qed.

Lemma IZR_pow2 : forall n, (0 <= n)%Z -> IZR (2 ^ n) = bpow radix2 n.
Proof. intros n H. exact (IZR_Zpower radix2 n H). Qed.

Section Pdf.
  (* c: a number of bits with K + 1 <= 2^c (K = number of symbols, wildcard included); E = c * i
     is the exponent of the bound of the entries before row i *)
  Variable c : Z.
  Hypothesis c_pos : (0 <= c <= 52)%Z.

  Definition optPB (B : R) (o : option F64.t) : Prop :=
    match o with Some v => PB B v | None => True end.

  Lemma contrib_PB : forall B old maxk b, Forall (PB B) old -> PB 1 b ->
    Forall (optPB B) (contrib F64Ops old maxk b).
  Proof.
    intros B old maxk b Ho Hb. unfold contrib. apply Forall_forall. intros o Hin.
    apply in_map_iff in Hin. destruct Hin as (x & E & Hx). subst o.
    assert (PB B x) as Px.
    { pose proof (Forall_firstn (PB B) (S maxk) old Ho) as Hf. rewrite Forall_forall in Hf. apply Hf, Hx. }
    destruct (nonzero F64Ops x); [|exact I]. cbn [optPB n_mul F64Ops]. apply mul_PB; assumption.
  Qed.

  Lemma zip_add_PB : forall S B, generic_format radix2 (SpecFloat.fexp 53 1024) (S + B) ->
    S + B < bpow radix2 1024 -> 0 <= B ->
    forall cl new r, Forall (optPB B) cl -> Forall (PB S) new ->
    zip_add F64Ops cl new = Ok r -> Forall (PB (S + B)) r.
  Proof.
    intros S B Hg Hlt HB cl. induction cl as [|o cl IH]; intros new r Hc Hn H.
    - cbn in H. inversion H; subst r. eapply Forall_impl; [|exact Hn]. intros x. apply PB_weaken. lra.
    - cbn [zip_add] in H. destruct new as [|x n'].
      + destruct (any_some (o :: cl)); [discriminate|]. inversion H. constructor.
      + apply rbind_ok in H. destruct H as (r' & Hr' & E). inversion E; subst r. clear E.
        inversion Hc as [|? ? Ho Hc']; subst. inversion Hn as [|? ? Hx Hn']; subst.
        constructor; [|eapply IH; eassumption].
        destruct o as [v|].
        * cbn [n_add F64Ops]. apply add_PB; assumption.
        * eapply PB_weaken; [|exact Hx]. lra.
  Qed.

  Lemma add_symbol_PB : forall S B, generic_format radix2 (SpecFloat.fexp 53 1024) (S + B) ->
    S + B < bpow radix2 1024 -> 0 <= B ->
    forall old maxk s b new r, Forall (PB B) old -> PB 1 b -> Forall (PB S) new ->
    add_symbol F64Ops old maxk s b new = Ok r -> Forall (PB (S + B)) r.
  Proof.
    intros S B Hg Hlt HB old maxk s b new r Ho Hb Hn H. unfold add_symbol in H.
    assert (Forall (PB (S + B)) new) as Hn'.
    { eapply Forall_impl; [|exact Hn]. intros x. apply PB_weaken. lra. }
    destruct (s =? i32_min)%Z; [inversion H; subst; exact Hn'|].
    destruct ((s <? 0)%Z || (Z.of_nat (length new) <=? s)%Z).
    - destruct (any_some _); [discriminate|]. inversion H; subst. exact Hn'.
    - apply rbind_ok in H. destruct H as (r' & Hr' & E). inversion E; subst r. clear E.
      apply Forall_app. split.
      + apply Forall_firstn. exact Hn'.
      + eapply (zip_add_PB S B Hg Hlt HB); [apply contrib_PB; eassumption| |exact Hr'].
        apply Forall_skipn_. exact Hn.
  Qed.

  (* the symbols of one row: t symbols already added, bound (t+1) * 2^E, at most 2^c - 1 in all *)
  Lemma add_symbols_PB : forall E, (0 <= E)%Z -> (E + c <= 1023)%Z ->
    forall old maxk rowbg t new r,
    Forall (PB (bpow radix2 E)) old -> Forall (fun sb => PB 1 (snd sb)) rowbg ->
    (0 <= t)%Z -> (t + 1 + Z.of_nat (length rowbg) <= 2 ^ c)%Z ->
    Forall (PB (IZR (t + 1) * bpow radix2 E)) new ->
    add_symbols F64Ops old maxk rowbg new = Ok r ->
    Forall (PB (IZR (t + 1 + Z.of_nat (length rowbg)) * bpow radix2 E)) r.
  Proof.
    intros E HE HEc old maxk rowbg. induction rowbg as [|[s b] rb IH]; intros t new r Ho Hb Ht Hlen Hn H.
    - cbn in H. inversion H; subst r. cbn [length Z.of_nat]. rewrite Z.add_0_r. exact Hn.
    - cbn [add_symbols] in H. apply rbind_ok in H. destruct H as (new' & Hs & H).
      inversion Hb as [|? ? Hb1 Hb']; subst. cbn [snd] in Hb1.
      cbn [length] in Hlen. rewrite Nat2Z.inj_succ in Hlen.
      assert (2 ^ c <= 2 ^ 52)%Z as Hc52 by (apply Z.pow_le_mono_r; lia).
      assert (IZR (t + 1) * bpow radix2 E + bpow radix2 E = IZR (t + 1 + 1) * bpow radix2 E) as Esum.
      { rewrite (plus_IZR (t + 1) 1). lra. }
      assert (Forall (PB (IZR (t + 1 + 1) * bpow radix2 E)) new') as Hn'.
      { rewrite <- Esum.
        apply (add_symbol_PB (IZR (t + 1) * bpow radix2 E) (bpow radix2 E)) with (old := old) (maxk := maxk) (s := s) (b := b) (new := new); auto.
        - rewrite Esum. apply int_pow_format; [|exact HE].
          change (2 ^ 53)%Z with (2 * 2 ^ 52)%Z. lia.
        - rewrite Esum.
          apply Rle_lt_trans with (bpow radix2 c * bpow radix2 E).
          + apply Rmult_le_compat_r; [apply bpow_ge_0|].
            rewrite <- IZR_pow2 by lia. apply IZR_le. lia.
          + rewrite <- bpow_plus. apply bpow_lt. lia.
        - apply bpow_ge_0. }
      cbn [length]. rewrite Nat2Z.inj_succ.
      replace (t + 1 + Z.succ (Z.of_nat (length rb)))%Z with ((t + 1) + 1 + Z.of_nat (length rb))%Z by lia.
      exact (IH (t + 1)%Z new' r Ho Hb' ltac:(lia) ltac:(lia) Hn' H).
  Qed.

  (* one row: both buffers stay finite and non-negative, the bound grows by the factor 2^c *)
  Lemma row_step_PB : forall E bg i row st st', (0 <= E)%Z -> (E + c <= 1023)%Z ->
    Forall (PB 1) bg -> (Z.of_nat (length bg) + 1 <= 2 ^ c)%Z ->
    Forall (PB (bpow radix2 E)) (fst st) -> Forall (PB (bpow radix2 E)) (snd st) ->
    row_step F64Ops bg i row st = Ok st' ->
    Forall (PB (bpow radix2 (E + c))) (fst st') /\ Forall (PB (bpow radix2 (E + c))) (snd st').
  Proof.
    intros E bg i row [pold pnew] st' HE HEc Hbg HK Ho Hn H. cbn [fst snd] in *.
    unfold row_step in H.
    destruct (length pold <? i * cdf_range + cdf_range + 1)%nat; [discriminate|].
    apply rbind_ok in H. destruct H as (new' & Hs & H). inversion H; subst st'. clear H. cbn [fst snd].
    assert (bpow radix2 E <= bpow radix2 (E + c)) as Hmono by (apply bpow_le; lia).
    split.
    - eapply Forall_impl; [|exact Hn]. intros x. apply PB_weaken. exact Hmono.
    - assert (Forall (fun sb : Z * F64.t => PB 1 (snd sb)) (combine row bg)) as Hrb.
      { apply Forall_forall. intros [s b] Hin. apply in_combine_r in Hin. rewrite Forall_forall in Hbg. apply Hbg, Hin. }
      assert (Z.of_nat (length (combine row bg)) <= Z.of_nat (length bg))%Z as Hl.
      { rewrite combine_length. lia. }
      pose proof (add_symbols_PB E HE HEc pnew (i * cdf_range)%nat (combine row bg) 0%Z
                    (repeat (n_zero F64Ops) (i * cdf_range + cdf_range + 1) ++ skipn (i * cdf_range + cdf_range + 1) pold)
                    new' Hn Hrb (Z.le_refl 0)) as HH.
      change (0 + 1)%Z with 1%Z in HH. rewrite Rmult_1_l in HH.
      assert (Forall (PB (bpow radix2 E))
                (repeat (n_zero F64Ops) (i * cdf_range + cdf_range + 1) ++ skipn (i * cdf_range + cdf_range + 1) pold)) as H0.
      { apply Forall_app. split.
        - apply Forall_forall. intros x Hx. apply repeat_spec in Hx. subst x. apply PB_zero. apply bpow_ge_0.
        - apply Forall_skipn_. exact Ho. }
      specialize (HH ltac:(lia) H0 Hs).
      eapply Forall_impl; [|exact HH]. intros x. apply PB_weaken.
      rewrite bpow_plus, Rmult_comm. apply Rmult_le_compat_l; [apply bpow_ge_0|].
      rewrite <- IZR_pow2 by lia. apply IZR_le. lia.
  Qed.

  Lemma pdf_rows_PB : forall bg, Forall (PB 1) bg -> (Z.of_nat (length bg) + 1 <= 2 ^ c)%Z ->
    forall rows i E st st', (0 <= E)%Z -> (E + c * Z.of_nat (length rows) <= 1023)%Z ->
    Forall (PB (bpow radix2 E)) (fst st) -> Forall (PB (bpow radix2 E)) (snd st) ->
    pdf_rows F64Ops bg i rows st = Ok st' ->
    Forall (PB (bpow radix2 (E + c * Z.of_nat (length rows)))) (snd st').
  Proof.
    intros bg Hbg HK rows. induction rows as [|row rows IH]; intros i E st st' HE HEc Ho Hn H.
    - cbn in H. inversion H; subst st'. cbn [length Z.of_nat]. rewrite Z.mul_0_r, Z.add_0_r. exact Hn.
    - cbn [pdf_rows] in H. apply rbind_ok in H. destruct H as (st1 & H1 & H).
      cbn [length] in *. rewrite Nat2Z.inj_succ in *.
      destruct (row_step_PB E bg i row st st1 HE ltac:(nia) Hbg HK Ho Hn H1) as [Ho1 Hn1].
      replace (E + c * Z.succ (Z.of_nat (length rows)))%Z with ((E + c) + c * Z.of_nat (length rows))%Z by lia.
      apply (IH (S i) (E + c)%Z st1 st'); auto; nia.
  Qed.

  Theorem pdf_of_PB : forall bg data pdf,
    Forall (PB 1) bg -> (Z.of_nat (length bg) + 1 <= 2 ^ c)%Z ->
    (c * Z.of_nat (length data) <= 1023)%Z ->
    pdf_of F64Ops bg data = Ok pdf ->
    Forall (PB (bpow radix2 (c * Z.of_nat (length data)))) pdf.
  Proof.
    intros bg data pdf Hbg HK HM H. unfold pdf_of in H.
    apply rbind_ok in H. destruct H as (st & Hst & H). inversion H; subst pdf. clear H.
    pose proof (fun st0 => pdf_rows_PB bg Hbg HK data 0%nat 0%Z st0 st (Z.le_refl 0)) as HH.
    rewrite Z.add_0_l in HH. apply HH in Hst; auto.
    - cbn [fst]. apply Forall_forall. intros x Hx. apply repeat_spec in Hx. subst x. apply PB_zero. cbn. lra.
    - cbn [snd]. constructor.
      + cbn [bpow]. apply PB_one.
      + apply Forall_forall. intros x Hx. apply repeat_spec in Hx. subst x. apply PB_zero. cbn. lra.
  Qed.
End Pdf.

Lemma f64_bg_ok_PB : forall bg, f64_bg_ok bg = true -> Forall (PB 1) bg.
Proof.
  intros bg H. unfold f64_bg_ok in H. rewrite forallb_forall in H. apply Forall_forall. intros b Hb.
  specialize (H b Hb). apply andb_true_iff in H. destruct H as [H H1]. apply andb_true_iff in H. destruct H as [F H0].
  destruct f64_one_R as [F1 E1].
  destruct (cmp_leR F64.zero b eq_refl F H0) as (_ & _ & L0). destruct (cmp_leR b f64_one F F1 H1) as (_ & _ & L1).
  change (B2R F64.zero) with 0 in L0. rewrite E1 in L1. repeat split; auto.
Qed.

Lemma PB_finite_nonneg : forall B x, PB B x -> F64.is_finite x = true /\ F64.le F64.zero x = true.
Proof.
  intros B x (F & H0 & _). split; [exact F|].
  assert (leR F64.zero x) as L by (repeat split; auto).
  pose proof (leR_cmp _ _ L) as H. unfold le_n in H. cbn [n_cmp F64Ops] in H. exact H.
Qed.

(* The pdf hypothesis of DistIEEE.table_F64, proved: *)
Theorem pdf_F64_finite_nonneg : forall bg data pdf,
  f64_bg_ok bg = true ->
  f64_dims_ok (length bg) (length data) = true ->
  pdf_of F64Ops bg data = Ok pdf ->
  Forall (fun x => F64.is_finite x = true /\ F64.le F64.zero x = true) pdf.
Proof.
  intros bg data pdf Hbg HM H.
  apply andb_true_iff in HM. destruct HM as [HM _]. apply andb_true_iff in HM. destruct HM as [Hc HM]. apply Z.leb_le in Hc, HM.
  destruct data as [|row0 data'] eqn:Ed.
  - (* no row: the pdf is [1.0] *)
    unfold pdf_of in H. cbn in H. inversion H; subst pdf. constructor; [|constructor].
    apply (PB_finite_nonneg 1), PB_one.
  - rewrite <- Ed in *. assert (1 <= Z.of_nat (length data))%Z as HM1 by (subst data; cbn [length]; lia).
    set (c := sym_bits (length bg)) in *.
    assert (0 <= c)%Z as Hc0 by apply Z.log2_up_nonneg.
    assert (Z.of_nat (length bg) + 1 <= 2 ^ c)%Z as HK.
    { unfold c, sym_bits. destruct (Z.eq_dec (Z.of_nat (length bg)) 0) as [E0|NE0].
      - rewrite E0. cbn. lia.
      - apply Z.log2_up_spec. lia. }
    pose proof (pdf_of_PB c (conj Hc0 Hc) bg data pdf (f64_bg_ok_PB bg Hbg) HK HM H) as HP.
    eapply Forall_impl; [|exact HP]. intros x. apply PB_finite_nonneg.
Qed.

(* The table of EVERY built distribution of the bit-exact model is non-increasing, inside [0,1] and
   finite: binary64 itself, nothing assumed about the pdf. *)
Theorem table_F64_built : forall m bg d,
  f64_bg_ok bg = true ->
  f64_dims_ok (length bg) (length m) = true ->
  f64_build m bg = Ok d ->
  noninc f64_leP (d_sf d) /\ Forall (in01 F64Ops f64_leP) (d_sf d) /\
  Forall (fun x => F64.is_finite x = true) (d_sf d).
Proof.
  intros m bg d Hbg HM H.
  destruct (build_inv_generic _ F64Ops m bg d H) as (pdf & Hp & Hs).
  assert (length (d_data d) = length m) as Hlen.
  { unfold f64_build, build in H.
    destruct (negb (forallb (fun row : list (cell F64.t) => (length row =? length bg)%nat) m)); [discriminate|].
    apply rbind_ok in H. destruct H as ([offset scale] & Ha & H).
    apply rbind_ok in H. destruct H as (pdf' & Hp' & H).
    apply rbind_ok in H. destruct H as ([[sf mn] mx] & Hs' & H). inversion H; subst d. cbn. apply map_length. }
  assert (Forall (fun x => F64.is_finite x = true /\ F64.le F64.zero x = true) pdf) as Hpdf.
  { apply (pdf_F64_finite_nonneg bg (d_data d) pdf Hbg); [rewrite Hlen; exact HM|exact Hp]. }
  destruct (sf_monotone_range_F64 pdf _ _ _ Hpdf Hs) as (Hl & Hn & Hf & Hfin).
  repeat split; auto.
Qed.
