(* First-pass property lemmas over the exact-rational model: the table is non-increasing
   in [0,1], p-values are non-increasing in the score, the discretisation error. *)
From Coq Require Import List ZArith QArith Qround Qabs Bool Arith Lia Lqa.
From LMBase Require Import Res ListX.
From LMDist Require Import DistModel DistInst DistProofs DistConv DistTail DistBuild.
Import ListNotations.
Local Open Scope Q_scope.

Opaque cdf_range.

Definition Qin01 (x : Q) : Prop := 0 <= x /\ x <= 1.

Lemma noninc_of_nth : forall l : list Q,
  (forall j, (S j < length l)%nat -> nth (S j) l 0 <= nth j l 0) -> noninc Qle l.
Proof.
  induction l as [|x l IH]; intros H; [exact I|].
  destruct l as [|y l]; [exact I|]. split.
  - apply (H 0%nat). cbn. lia.
  - apply IH. intros j Hj. apply (H (S j)). cbn in *. lia.
Qed.

Lemma in01_Qin01 : forall x, in01 QOps Qle x <-> Qin01 x.
Proof. intros x. unfold in01, Qin01. cbn. tauto. Qed.

(* the table is non-increasing in [0,1] for any non-negative weights (the last entry is
   clipped like the others since the repair) *)
Theorem sf_monotone_range_Q : forall m bg d,
  bg_nonneg bg -> build QOps m bg = Ok d ->
  length (d_sf d) = (length m * cdf_range + 1)%nat /\ noninc Qle (d_sf d) /\ Forall Qin01 (d_sf d) /\
  (0 <= d_min d)%Z.
Proof.
  intros m bg d Hbg H. apply build_Q_inv in H.
  destruct H as (offset & scale & pdf & Ha & Hlen & Hdata & Hpdf & Hsurv & Hsc & Hoff & Hrows).
  apply stage_a_Q in Ha. pose proof (data_row_ok m offset scale Ha) as Hok. rewrite <- Hdata in Hok.
  assert (length (d_data d) = length m) as Hld by (rewrite Hdata, map_length; reflexivity).
  destruct (pdf_of_pointwise bg (d_data d) pdf Hok Hpdf) as (Hlp & Hpw & Hsup). rewrite Hld in Hlp.
  pose proof (tailD_facts bg (d_data d) Hbg Hok) as [Hanti _ _ _].
  assert (Forall (Qle (n_zero QOps)) pdf) as Hpos.
  { apply Forall_nth. intros i x0 Hi. rewrite (nth_indep _ x0 0 Hi). cbn [n_zero QOps].
    rewrite (Hpw i Hi), pmf_of_tailD. unfold pmfD.
    assert (tailD (d_data d) bg (Z.of_nat i + 1) <= tailD (d_data d) bg (Z.of_nat i)) by (apply Hanti; lia). lra. }
  destruct (survival_monotone_range QOps Qle (fun a b c => @Qle_trans a b c)
              (fun a b Ha0 Hb0 Hb1 => Qmin1_le_one (a + b)) Qmin1_range
              (fun a b Ha0 Hb0 Hb1 => Qmin1_step a b Ha0 Hb0 Hb1)
              pdf (d_sf d) (d_min d) (d_max d) Hpos Hsurv) as (Hl & Hn & Hf).
  split; [congruence|]. split; [exact Hn|]. split.
  - eapply Forall_impl; [|exact Hf]. intros a Ha0. apply in01_Qin01. exact Ha0.
  - apply (survival_min pdf _ _ _ Hsurv).
Qed.

(* ---------- p-values are non-increasing in the score ---------- *)

Lemma d_scale_Q_mono : forall d s1 s2 r1 r2,
  0 <= d_scale_f d -> s1 <= s2 ->
  d_scale QOps d s1 = Ok r1 -> d_scale QOps d s2 = Ok r2 -> (r1 <= r2)%Z.
Proof.
  intros d s1 s2 r1 r2 Hsc Hs H1 H2. unfold d_scale in *.
  inversion H1; inversion H2; subst. cbn [n_round_i32 n_mul n_sub QOps].
  apply clamp_i32_mono, Qround_away_mono. apply Qmult_le_compat_r; [lra|exact Hsc].
Qed.

Lemma build_Q_scale_pos : forall m bg d, build QOps m bg = Ok d -> 0 < d_scale_f d.
Proof.
  intros m bg d H. apply build_Q_inv in H.
  destruct H as (offset & scale & pdf & Ha & _ & _ & _ & _ & Hsc & _). apply stage_a_Q in Ha.
  destruct Ha as (_ & H0 & _). rewrite Hsc. exact H0.
Qed.

Lemma sf_nonempty : forall m bg d, bg_nonneg bg -> build QOps m bg = Ok d -> d_sf d <> [].
Proof.
  intros m bg d Hbg H. destruct (sf_monotone_range_Q m bg d Hbg H) as (Hl & _).
  intros C. rewrite C in Hl. cbn in Hl. lia.
Qed.

Theorem pvalue_monotone_Q : forall m bg d s1 s2 p1 p2,
  bg_nonneg bg -> build QOps m bg = Ok d -> s1 <= s2 ->
  d_pvalue QOps d s1 = Ok p1 -> d_pvalue QOps d s2 = Ok p2 -> p2 <= p1.
Proof.
  intros m bg d s1 s2 p1 p2 Hbg H Hs H1 H2.
  destruct (sf_monotone_range_Q m bg d Hbg H) as (_ & Hn & Hf & Hmin).
  pose proof (sf_nonempty m bg d Hbg H) as Hne.
  pose proof (build_Q_scale_pos m bg d H) as Hsc.
  rewrite (d_pvalue_idx QOps) in H1, H2 by exact Hne.
  apply rbind_ok in H1. destruct H1 as (r1 & Hr1 & E1). apply rbind_ok in H2. destruct H2 as (r2 & Hr2 & E2).
  inversion E1; inversion E2; subst.
  assert (Forall (in01 QOps Qle) (d_sf d)) as Hf'.
  { eapply Forall_impl; [|exact Hf]. intros a Ha. apply in01_Qin01. exact Ha. }
  assert (r1 <= r2)%Z as Hr by exact (d_scale_Q_mono d s1 s2 r1 r2 (Qlt_le_weak _ _ Hsc) Hs Hr1 Hr2).
  apply (pv_idx_mono QOps Qle (fun a b c => @Qle_trans a b c) d r1 r2
           (fun x _ => Qle_refl x)); try assumption. cbn. lra.
Qed.

(* ---------- discretisation error ---------- *)

Lemma word_error : forall offset scale (m : list (list (cell Q))) w s,
  (forall row x, In row m -> In (CFin x) row ->
     let k := disc_cell QOps offset scale (CFin x) in
     (0 <= k <= 1000)%Z /\ Qabs (inject_Z k - (x - offset) * scale) <= 1 # 2) ->
  word_S m w = Some s ->
  exists k, word_D (map (map (disc_cell QOps offset scale)) m) w = Some k /\
    (0 <= k <= 1000 * Z.of_nat (length m))%Z /\
    let n := inject_Z (Z.of_nat (length m)) in
    (s - n * offset) * scale - n * (1 # 2) <= inject_Z k /\ inject_Z k <= (s - n * offset) * scale + n * (1 # 2).
Proof.
  intros offset scale m. induction m as [|row m IH]; intros w s Hc H.
  - destruct w; [|discriminate]. cbn in H. inversion H; subst. exists 0%Z. cbn. repeat split; try lia.
    all: change (inject_Z 0) with 0; assert ((0 - 0 * offset) * scale == 0) as E0 by ring; rewrite E0; lra.
  - destruct w as [|a w]; [discriminate|]. cbn [word_S] in H.
    destruct (nth_error row a) as [[x|]|] eqn:Ea; try discriminate.
    destruct (word_S m w) as [s'|] eqn:Es; [|discriminate]. cbn in H. inversion H; subst s. clear H.
    assert (forall row x, In row m -> In (CFin x) row ->
       let k := disc_cell QOps offset scale (CFin x) in
       (0 <= k <= 1000)%Z /\ Qabs (inject_Z k - (x - offset) * scale) <= 1 # 2) as Hc'.
    { intros r0 x0 Hr0 Hx0. apply (Hc r0 x0); [right; exact Hr0|exact Hx0]. }
    destruct (IH w s' Hc' Es) as (k' & Hk' & Hr' & Hlo' & Hhi').
    assert (In (CFin x) row) as Hin by (eapply nth_error_In; exact Ea).
    destruct (Hc row x (or_introl eq_refl) Hin) as [Hk1 He1]. cbv zeta in *.
    set (k1 := disc_cell QOps offset scale (CFin x)) in *.
    exists (k1 + k')%Z. split.
    + cbn [map word_D]. rewrite nth_error_map, Ea. cbn [option_map]. fold k1.
      replace (k1 =? i32_min)%Z with false by (symmetry; apply Z.eqb_neq; unfold i32_min; lia).
      rewrite Hk'. reflexivity.
    + split; [cbn [length]; lia|].
      apply Qabs_Qle_condition in He1. destruct He1 as [He1 He2].
      cbn [length]. rewrite Nat2Z.inj_succ. unfold Z.succ. rewrite !inject_Z_plus.
      set (n := inject_Z (Z.of_nat (length m))) in *. change (inject_Z 1) with 1.
      assert (((x + s') - (n + 1) * offset) * scale == (x - offset) * scale + (s' - n * offset) * scale) as E by ring.
      rewrite E. set (A := (x - offset) * scale) in *. set (B := (s' - n * offset) * scale) in *.
      split; lra.
Qed.

Theorem discretisation_error_Q : forall m offset scale w s,
  stage_a QOps m = Ok (offset, scale) -> word_S m w = Some s ->
  exists k, word_D (map (map (disc_cell QOps offset scale)) m) w = Some k /\
    (0 <= k <= 1000 * Z.of_nat (length m))%Z /\
    Qabs (inject_Z k - (s - inject_Z (Z.of_nat (length m)) * offset) * scale)
      <= inject_Z (Z.of_nat (length m)) / 2.
Proof.
  intros m offset scale w s Ha Hw. apply stage_a_Q in Ha.
  destruct (word_error offset scale m w s) as (k & Hk & Hr & Hlo & Hhi); auto.
  - intros row x Hrow Hx. apply (disc_cell_fin m offset scale x Ha). eapply in_finite_cells; eauto.
  - exists k. split; [exact Hk|]. split; [exact Hr|]. apply Qabs_Qle_condition. cbv zeta in *.
    unfold Qdiv. change (/ 2) with (1 # 2). split; lra.
Qed.
