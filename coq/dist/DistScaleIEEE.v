(* The scale part of the binary64 monotonicity theorem, DERIVED for the matrices that occur in
   practice: cells that are f32 values (finite doubles on the grid 2^-149 with |x| <= 2^128 -- every
   finite f32 widened to f64, [of_f32_G149]) and not all equal.  Then in binary64 itself
     small0 < large are cells (min_by / max_by), offset = floor(small0) is finite, an integer <= small0,
     large - offset is a positive multiple of 2^-149 (no cancellation to 0), at most 2^129 + 1,
     quot = fl(1000 / fl(large - offset)) is finite and positive (between 2^-121 and 2^159),
     scale = floor(quot), or quot when that is 0: finite and positive,
     w * offset is finite for every w = M < 2^53
   i.e. [f64_scale_pred d = true].  For a CONSTANT matrix the same holds only while |cell| < 2^53
   (C11.ex_scale_pred_not_derivable: cells 2^60 give scale = +inf); that case is not covered here. *)
From Coq Require Import Reals ZArith List Bool Lia Lra.
From Flocq Require Import Core BinarySingleNaN.
From LMBase Require Import Res ListX IEEE.
From LMDist Require Import DistModel DistInst DistGridModel DistStrictModel DistProofs DistCheckProofs DistIEEE DistMonoIEEE DistPdfIEEE DistMonoBuilt.
Import ListNotations.
Local Open Scope R_scope.

(* a finite double on the f32 grid *)
Definition G149 (x : F64.t) : Prop :=
  is_finite x = true /\ Rabs (B2R x) <= bpow radix2 128 /\ exists n : Z, B2R x = IZR n * bpow radix2 (-149).

Lemma floor_R : forall x : F64.t, is_finite x = true ->
  is_finite (F64.floor x) = true /\ B2R (F64.floor x) = IZR (Zfloor (B2R x)).
Proof.
  intros x F. unfold F64.floor, ffloor.
  destruct (Bnearbyint_correct 53 1024 _ mode_DN x) as (HR & HF & _).
  split; [rewrite HF; exact F|]. rewrite HR. cbn [round_mode]. apply round_FIX_IZR.
Qed.

Lemma cmp_finite : forall a b : F64.t, is_finite a = true -> is_finite b = true ->
  F64.cmp a b = Some (Rcompare (B2R a) (B2R b)).
Proof. intros a b Fa Fb. unfold F64.cmp, fcmp. apply Bcompare_correct; assumption. Qed.

Lemma min_by_F64 : forall l acc, is_finite acc = true -> Forall (fun x : F64.t => is_finite x = true) l ->
  exists r, min_by F64Ops acc l = Ok r /\ In r (acc :: l) /\ B2R r <= B2R acc /\ Forall (fun x => B2R r <= B2R x) l.
Proof.
  induction l as [|y l IH]; intros acc Fa Fl.
  - exists acc. cbn. repeat split; auto. lra.
  - inversion Fl as [|? ? Fy Fl']; subst. cbn [min_by n_cmp F64Ops]. rewrite (cmp_finite acc y Fa Fy).
    destruct (Rcompare_spec (B2R acc) (B2R y)) as [H|H|H].
    + destruct (IH acc Fa Fl') as (r & Hr & Hin & Hle & Hall). exists r. split; [exact Hr|]. split.
      * destruct Hin as [E|Hin]; [left; exact E|right; right; exact Hin].
      * split; [exact Hle|]. constructor; [lra|exact Hall].
    + destruct (IH acc Fa Fl') as (r & Hr & Hin & Hle & Hall). exists r. split; [exact Hr|]. split.
      * destruct Hin as [E|Hin]; [left; exact E|right; right; exact Hin].
      * split; [exact Hle|]. constructor; [lra|exact Hall].
    + destruct (IH y Fy Fl') as (r & Hr & Hin & Hle & Hall). exists r. split; [exact Hr|]. split.
      * right. exact Hin.
      * split; [lra|]. constructor; [exact Hle|exact Hall].
Qed.

Lemma max_by_F64 : forall l acc, is_finite acc = true -> Forall (fun x : F64.t => is_finite x = true) l ->
  exists r, max_by F64Ops acc l = Ok r /\ In r (acc :: l) /\ B2R acc <= B2R r /\ Forall (fun x => B2R x <= B2R r) l.
Proof.
  induction l as [|y l IH]; intros acc Fa Fl.
  - exists acc. cbn. repeat split; auto. lra.
  - inversion Fl as [|? ? Fy Fl']; subst. cbn [max_by n_cmp F64Ops]. rewrite (cmp_finite acc y Fa Fy).
    destruct (Rcompare_spec (B2R acc) (B2R y)) as [H|H|H].
    + destruct (IH y Fy Fl') as (r & Hr & Hin & Hle & Hall). exists r. split; [exact Hr|]. split.
      * right. exact Hin.
      * split; [lra|]. constructor; [exact Hle|exact Hall].
    + destruct (IH y Fy Fl') as (r & Hr & Hin & Hle & Hall). exists r. split; [exact Hr|]. split.
      * right. exact Hin.
      * split; [lra|]. constructor; [exact Hle|exact Hall].
    + destruct (IH acc Fa Fl') as (r & Hr & Hin & Hle & Hall). exists r. split; [exact Hr|]. split.
      * destruct Hin as [E|Hin]; [left; exact E|right; right; exact Hin].
      * split; [exact Hle|]. constructor; [lra|exact Hall].
Qed.

Lemma rnd64_bpow : forall e, (-1074 <= e)%Z -> rnd64 (bpow radix2 e) = bpow radix2 e.
Proof.
  intros e He. apply round_generic; [apply valid_rnd_N|]. apply generic_format_bpow.
  unfold SpecFloat.fexp, SpecFloat.emin. lia.
Qed.

(* a real squeezed between two powers of two rounds to a finite positive double *)
Lemma Repr_pos_finite : forall (X : F64.t) r lo hi, Repr X (rnd64 r) ->
  (-1074 <= lo)%Z -> (hi < 1024)%Z -> bpow radix2 lo <= r <= bpow radix2 hi ->
  is_finite X = true /\ bpow radix2 lo <= B2R X <= bpow radix2 hi.
Proof.
  intros X r lo hi HX Hlo Hhi [H1 H2].
  assert (lo <= hi)%Z as Hlh by (apply (le_bpow radix2); lra).
  assert (bpow radix2 lo <= rnd64 r <= bpow radix2 hi) as [R1 R2].
  { split.
    - rewrite <- (rnd64_bpow lo Hlo). apply rnd64_le. exact H1.
    - rewrite <- (rnd64_bpow hi) by lia. apply rnd64_le. exact H2. }
  pose proof (bpow_gt_0 radix2 lo) as Hp.
  assert (bpow radix2 hi < EM) as Hh by (apply bpow_lt; lia).
  destruct HX as [(A & F & E)|[(A & E)|(A & E)]].
  - split; [exact F|]. rewrite E. split; assumption.
  - exfalso. lra.
  - exfalso. unfold EM in *. pose proof (bpow_gt_0 radix2 1024). lra.
Qed.

Lemma B2R_of_Z_small : forall z : Z, (0 <= z <= 2 ^ 53)%Z ->
  is_finite (F64.of_Z z) = true /\ B2R (F64.of_Z z) = IZR z.
Proof.
  intros z Hz. unfold F64.of_Z, of_Z.
  pose proof (binary_normalize_correct 53 1024 _ _ mode_NE z 0 false) as H. cbv zeta in H.
  assert (F2R (Float radix2 z 0) = IZR z) as EF by (unfold F2R; cbn [Fnum Fexp bpow]; lra).
  rewrite EF in H.
  assert (rnd64 (IZR z) = IZR z) as ER.
  { apply round_generic; [apply valid_rnd_N|]. rewrite <- (Rmult_1_r (IZR z)). change 1 with (bpow radix2 0).
    apply int_pow_format; lia. }
  rewrite ER in H.
  assert (Rabs (IZR z) < bpow radix2 1024) as Hlt.
  { rewrite Rabs_pos_eq by (apply IZR_le; lia). apply Rle_lt_trans with (bpow radix2 53).
    - rewrite <- IZR_pow2 by lia. apply IZR_le. lia.
    - apply bpow_lt. lia. }
  rewrite (Rlt_bool_true _ _ Hlt) in H. destruct H as (HR & HF & _). split; assumption.
Qed.

Lemma pow2_le_sum : bpow radix2 128 + 1 <= bpow radix2 129.
Proof.
  replace (bpow radix2 129) with (2 * bpow radix2 128).
  - assert (1 <= bpow radix2 128) by (change 1 with (bpow radix2 0); apply bpow_le; lia). lra.
  - change 2 with (bpow radix2 1). rewrite <- bpow_plus. reflexivity.
Qed.

(* stage A in binary64 for a non-constant matrix of f32 values *)
Theorem stage_a_F64_scale : forall m offset scale,
  Forall G149 (finite_cells F64Ops m) ->
  (exists a b, In a (finite_cells F64Ops m) /\ In b (finite_cells F64Ops m) /\ B2R a <> B2R b) ->
  stage_a F64Ops m = Ok (offset, scale) ->
  is_finite offset = true /\ Rabs (B2R offset) <= bpow radix2 129 /\
  is_finite scale = true /\ 0 < B2R scale.
Proof.
  intros m offset scale HG (a & b & Ha & Hb & Hab) H.
  unfold stage_a, small_of, large_of in H.
  destruct (finite_cells F64Ops m) as [|x0 l] eqn:Ec; [destruct Ha|].
  assert (Forall (fun x : F64.t => is_finite x = true) (x0 :: l)) as Hfin.
  { eapply Forall_impl; [|exact HG]. intros x (F & _). exact F. }
  inversion Hfin as [|? ? F0 Fl]; subst.
  destruct (min_by_F64 l x0 F0 Fl) as (small0 & Emin & Hsin & Hs0 & Hsall).
  destruct (max_by_F64 l x0 F0 Fl) as (large & Emax & Hlin & Hl0 & Hlall).
  rewrite Emin, Emax in H. cbn [rbind] in H.
  assert (forall x, In x (x0 :: l) -> B2R small0 <= B2R x <= B2R large) as Hrange.
  { intros x [E|Hx]; [subst x; split; assumption|]. rewrite Forall_forall in Hsall, Hlall. split; auto. }
  assert (B2R small0 < B2R large) as Hlt.
  { destruct (Hrange a Ha) as [A1 A2]. destruct (Hrange b Hb) as [B1 B2].
    destruct (Rle_lt_or_eq_dec _ _ (Rle_trans _ _ _ A1 A2)) as [L|E]; [exact L|exfalso]. apply Hab. lra. }
  rewrite Forall_forall in HG. destruct (HG small0 Hsin) as (Fs & As & ns & Es). destruct (HG large Hlin) as (FL & AL & nl & EL).
  (* small0 <> large *)
  assert (eqb_n F64Ops small0 large = false) as Eeq.
  { unfold eqb_n. cbn [n_cmp F64Ops]. rewrite (cmp_finite small0 large Fs FL).
    rewrite (Rcompare_Lt _ _ Hlt). reflexivity. }
  rewrite Eeq in H.
  destruct (floor_R small0 Fs) as [Foff Eoff].
  set (off := F64.floor small0) in *. cbn [n_floor n_sub n_div n_of_Z F64Ops] in H. fold off in H.
  set (k := Zfloor (B2R small0)) in *.
  pose proof (Zfloor_lb (B2R small0)) as Hk1. pose proof (Zfloor_ub (B2R small0)) as Hk2. fold k in Hk1, Hk2.
  apply Rabs_le_inv in As. apply Rabs_le_inv in AL.
  pose proof pow2_le_sum as P129.
  assert (Rabs (B2R off) <= bpow radix2 129) as Aoff.
  { rewrite Eoff. apply Rabs_le. lra. }
  (* the difference *)
  pose proof (sub_Repr large off FL Foff) as Hd.
  set (diff := F64.sub large off) in *.
  assert (bpow radix2 (-149) <= B2R large - B2R off <= bpow radix2 130) as Hdr.
  { split.
    - rewrite Eoff, EL.
      assert (IZR k = IZR (k * 2 ^ 149) * bpow radix2 (-149)) as Ek.
      { rewrite mult_IZR, IZR_pow2 by lia. rewrite Rmult_assoc, <- bpow_plus.
        replace (149 + -149)%Z with 0%Z by reflexivity. change (bpow radix2 0) with 1. lra. }
      rewrite Ek, <- Rmult_minus_distr_r, <- minus_IZR.
      assert (0 < IZR (nl - k * 2 ^ 149) * bpow radix2 (-149)) as Hpos.
      { rewrite minus_IZR, Rmult_minus_distr_r, <- Ek, <- EL. lra. }
      pose proof (bpow_gt_0 radix2 (-149)) as Hb149.
      assert (0 < IZR (nl - k * 2 ^ 149)) as Hz.
      { destruct (Rlt_or_le 0 (IZR (nl - k * 2 ^ 149))) as [L|L]; [exact L|exfalso].
        assert (IZR (nl - k * 2 ^ 149) * bpow radix2 (-149) <= 0 * bpow radix2 (-149)) by (apply Rmult_le_compat_r; lra). lra. }
      apply lt_IZR in Hz. assert (1 <= IZR (nl - k * 2 ^ 149)) as H1 by (apply IZR_le; lia).
      rewrite <- (Rmult_1_l (bpow radix2 (-149))) at 1. apply Rmult_le_compat_r; lra.
    - rewrite Eoff.
      replace (bpow radix2 130) with (2 * bpow radix2 129) by (change 2 with (bpow radix2 1); rewrite <- bpow_plus; reflexivity).
      assert (bpow radix2 128 <= bpow radix2 129) by (apply bpow_le; lia). lra. }
  destruct (Repr_pos_finite diff _ (-149) 130 Hd ltac:(lia) ltac:(lia) Hdr) as (Fd & Hd1 & Hd2).
  (* the quotient *)
  destruct (B2R_of_Z_small 1000 ltac:(lia)) as [F1000 E1000].
  assert (B2R diff <> 0) as Hnz by (pose proof (bpow_gt_0 radix2 (-149)); lra).
  assert (Z.of_nat cdf_range = 1000%Z) as Ecdf by reflexivity.
  rewrite Ecdf in H.
  set (quot := F64.div (F64.of_Z 1000) diff) in *.
  assert (Repr quot (rnd64 (1000 / B2R diff))) as Hq.
  { unfold quot, F64.div, fdiv. pose proof (Bdiv_correct 53 1024 _ _ mode_NE (F64.of_Z 1000) diff Hnz) as HB.
    rewrite E1000 in HB. apply (Repr_of_round _ _ (xorb (Bsign (F64.of_Z 1000)) (Bsign diff))).
    destruct (Rlt_bool _ _).
    - destruct HB as (HR & HF & _). split; [exact HR|rewrite HF; exact F1000].
    - split; [exact HB|].
      assert (0 <= rnd64 (1000 / B2R diff)) as Hpos.
      { rewrite <- rnd64_0. apply rnd64_le. apply Rlt_le. apply Rdiv_lt_0_compat; [lra|]. pose proof (bpow_gt_0 radix2 (-149)); lra. }
      assert (Bsign (F64.of_Z 1000) = false) as S1 by (vm_compute; reflexivity).
      assert (Bsign diff = false) as S2.
      { apply pos_has_sign_false; [exact Fd|]. pose proof (bpow_gt_0 radix2 (-149)); lra. }
      rewrite S1, S2. cbn [xorb]. split; [discriminate|intros _; exact Hpos]. }
  assert (bpow radix2 (-121) <= 1000 / B2R diff <= bpow radix2 159) as Hqr.
  { pose proof (bpow_gt_0 radix2 (-149)) as Hb149'. assert (0 < B2R diff) as Hdp by lra. split.
    - apply Rle_trans with (bpow radix2 9 / bpow radix2 130).
      + unfold Rdiv. rewrite <- bpow_opp, <- bpow_plus. apply bpow_le. lia.
      + unfold Rdiv. apply Rmult_le_compat.
        * apply bpow_ge_0.
        * apply Rlt_le, Rinv_0_lt_compat, bpow_gt_0.
        * change (bpow radix2 9) with 512. lra.
        * apply Rinv_le_contravar; assumption.
    - apply Rle_trans with (bpow radix2 10 / bpow radix2 (-149)).
      + unfold Rdiv. apply Rmult_le_compat; try lra.
        * apply Rlt_le, Rinv_0_lt_compat. exact Hdp.
        * change (bpow radix2 10) with 1024. lra.
        * apply Rinv_le_contravar; assumption.
      + unfold Rdiv. rewrite <- bpow_opp, <- bpow_plus. apply bpow_le. lia. }
  destruct (Repr_pos_finite quot _ (-121) 159 Hq ltac:(lia) ltac:(lia) Hqr) as (Fq & Hq1 & Hq2).
  (* scale *)
  destruct (floor_R quot Fq) as [Ff Ef].
  set (sc0 := F64.floor quot) in *.
  pose proof (bpow_gt_0 radix2 (-121)) as Hb121.
  assert (0 <= B2R sc0) as Hsc0.
  { rewrite Ef. apply IZR_le. apply Zfloor_lub. cbn [IZR]. lra. }
  inversion H as [[Ho Hs]]. clear H.
  split; [exact Foff|]. split; [exact Aoff|].
  unfold eqb_n. cbn [n_cmp n_zero F64Ops]. rewrite (cmp_finite sc0 F64.zero Ff eq_refl).
  change (B2R F64.zero) with 0.
  destruct (Rcompare_spec (B2R sc0) 0) as [L|E|G].
  - exfalso. lra.
  - split; [exact Fq|lra].
  - split; [exact Ff|exact G].
Qed.


(* ---------- constant matrices with |cell| <= 2^52 ---------- *)

(* the scale computed from `large` and an integer-valued offset strictly below it *)
Definition scale_of (large off : F64.t) : F64.t :=
  let quot := F64.div (F64.of_Z 1000) (F64.sub large off) in
  let sc0 := F64.floor quot in
  if eqb_n F64Ops sc0 F64.zero then quot else sc0.

Lemma scale_tail : forall (large off : F64.t) (k nl : Z),
  is_finite large = true -> B2R large = IZR nl * bpow radix2 (-149) ->
  is_finite off = true -> B2R off = IZR k ->
  B2R off < B2R large -> B2R large - B2R off <= bpow radix2 130 ->
  is_finite (scale_of large off) = true /\ 0 < B2R (scale_of large off).
Proof.
  intros large off k nl FL EL Foff Eoff Hlt Hub. unfold scale_of.
  pose proof (sub_Repr large off FL Foff) as Hd.
  set (diff := F64.sub large off) in *.
  assert (bpow radix2 (-149) <= B2R large - B2R off <= bpow radix2 130) as Hdr.
  { split; [|exact Hub].
    assert (0 < B2R large - B2R off) as Hp0 by lra.
    rewrite Eoff, EL in *.
    assert (IZR k = IZR (k * 2 ^ 149) * bpow radix2 (-149)) as Ek.
    { rewrite mult_IZR, IZR_pow2 by lia. rewrite Rmult_assoc, <- bpow_plus.
      replace (149 + -149)%Z with 0%Z by reflexivity. change (bpow radix2 0) with 1. lra. }
    rewrite Ek, <- Rmult_minus_distr_r, <- minus_IZR in *.
    pose proof (bpow_gt_0 radix2 (-149)) as Hb149.
    assert (0 < IZR (nl - k * 2 ^ 149)) as Hz.
    { destruct (Rlt_or_le 0 (IZR (nl - k * 2 ^ 149))) as [L|L]; [exact L|exfalso].
      assert (IZR (nl - k * 2 ^ 149) * bpow radix2 (-149) <= 0 * bpow radix2 (-149)) by (apply Rmult_le_compat_r; lra). lra. }
    apply lt_IZR in Hz. assert (1 <= IZR (nl - k * 2 ^ 149)) as H1 by (apply IZR_le; lia).
    rewrite <- (Rmult_1_l (bpow radix2 (-149))) at 1. apply Rmult_le_compat_r; lra. }
  destruct (Repr_pos_finite diff _ (-149) 130 Hd ltac:(lia) ltac:(lia) Hdr) as (Fd & Hd1 & Hd2).
  destruct (B2R_of_Z_small 1000 ltac:(lia)) as [F1000 E1000].
  assert (B2R diff <> 0) as Hnz by (pose proof (bpow_gt_0 radix2 (-149)); lra).
  set (quot := F64.div (F64.of_Z 1000) diff) in *.
  assert (Repr quot (rnd64 (1000 / B2R diff))) as Hq.
  { unfold quot, F64.div, fdiv. pose proof (Bdiv_correct 53 1024 _ _ mode_NE (F64.of_Z 1000) diff Hnz) as HB.
    rewrite E1000 in HB. apply (Repr_of_round _ _ (xorb (Bsign (F64.of_Z 1000)) (Bsign diff))).
    destruct (Rlt_bool _ _).
    - destruct HB as (HR & HF & _). split; [exact HR|rewrite HF; exact F1000].
    - split; [exact HB|].
      assert (0 <= rnd64 (1000 / B2R diff)) as Hpos.
      { rewrite <- rnd64_0. apply rnd64_le. apply Rlt_le. apply Rdiv_lt_0_compat; [lra|]. pose proof (bpow_gt_0 radix2 (-149)); lra. }
      assert (Bsign (F64.of_Z 1000) = false) as S1 by (vm_compute; reflexivity).
      assert (Bsign diff = false) as S2.
      { apply pos_has_sign_false; [exact Fd|]. pose proof (bpow_gt_0 radix2 (-149)); lra. }
      rewrite S1, S2. cbn [xorb]. split; [discriminate|intros _; exact Hpos]. }
  assert (bpow radix2 (-121) <= 1000 / B2R diff <= bpow radix2 159) as Hqr.
  { pose proof (bpow_gt_0 radix2 (-149)) as Hb149'. assert (0 < B2R diff) as Hdp by lra. split.
    - apply Rle_trans with (bpow radix2 9 / bpow radix2 130).
      + unfold Rdiv. rewrite <- bpow_opp, <- bpow_plus. apply bpow_le. lia.
      + unfold Rdiv. apply Rmult_le_compat.
        * apply bpow_ge_0.
        * apply Rlt_le, Rinv_0_lt_compat, bpow_gt_0.
        * change (bpow radix2 9) with 512. lra.
        * apply Rinv_le_contravar; assumption.
    - apply Rle_trans with (bpow radix2 10 / bpow radix2 (-149)).
      + unfold Rdiv. apply Rmult_le_compat; try lra.
        * apply Rlt_le, Rinv_0_lt_compat. exact Hdp.
        * change (bpow radix2 10) with 1024. lra.
        * apply Rinv_le_contravar; assumption.
      + unfold Rdiv. rewrite <- bpow_opp, <- bpow_plus. apply bpow_le. lia. }
  destruct (Repr_pos_finite quot _ (-121) 159 Hq ltac:(lia) ltac:(lia) Hqr) as (Fq & Hq1 & Hq2).
  destruct (floor_R quot Fq) as [Ff Ef].
  set (sc0 := F64.floor quot) in *.
  pose proof (bpow_gt_0 radix2 (-121)) as Hb121.
  assert (0 <= B2R sc0) as Hsc0.
  { rewrite Ef. apply IZR_le. apply Zfloor_lub. cbn [IZR]. lra. }
  unfold eqb_n. cbn [n_cmp n_zero F64Ops]. rewrite (cmp_finite sc0 F64.zero Ff eq_refl).
  change (B2R F64.zero) with 0.
  destruct (Rcompare_spec (B2R sc0) 0) as [L|E|G].
  - exfalso. lra.
  - split; [exact Fq|lra].
  - split; [exact Ff|exact G].
Qed.

(* an integer of magnitude at most 2^53 is a double *)
Lemma int_format : forall z : Z, (Z.abs z <= 2 ^ 53)%Z -> rnd64 (IZR z) = IZR z.
Proof.
  intros z Hz. apply round_generic; [apply valid_rnd_N|].
  destruct (Z.le_gt_cases 0 z) as [P|Ng].
  - rewrite <- (Rmult_1_r (IZR z)). change 1 with (bpow radix2 0). apply int_pow_format; lia.
  - replace (IZR z) with (- IZR (- z)) by (rewrite opp_IZR; lra). apply generic_format_opp.
    rewrite <- (Rmult_1_r (IZR (- z))). change 1 with (bpow radix2 0). apply int_pow_format; lia.
Qed.

(* large - 1.0 in binary64 stays strictly below large while |large| <= 2^52: the integer ceil(large) - 1
   lies in [large - 1, large) and is a double *)
Lemma sub_one_below : forall large : F64.t, is_finite large = true -> Rabs (B2R large) <= bpow radix2 52 ->
  is_finite (F64.sub large f64_one) = true /\
  IZR (Zfloor (B2R large) - 1) <= B2R (F64.sub large f64_one) <= IZR (Zceil (B2R large) - 1).
Proof.
  intros large FL AL. destruct f64_one_R as [F1 E1].
  pose proof (sub_Repr large f64_one FL F1) as Hr. rewrite E1 in Hr.
  apply Rabs_le_inv in AL.
  assert (bpow radix2 52 = IZR (2 ^ 52)) as E52 by (rewrite IZR_pow2 by lia; reflexivity).
  pose proof (Zfloor_lb (B2R large)) as Hf1. pose proof (Zfloor_ub (B2R large)) as Hf2.
  pose proof (Zceil_ub (B2R large)) as Hc1. pose proof (Zceil_lb (B2R large)) as Hc2.
  assert (- 2 ^ 52 <= Zfloor (B2R large))%Z as Hfl.
  { apply Zfloor_lub. rewrite opp_IZR, <- E52. lra. }
  assert (Zceil (B2R large) <= 2 ^ 52)%Z as Hcl.
  { apply Zceil_glb. rewrite <- E52. lra. }
  assert (Zfloor (B2R large) <= Zceil (B2R large))%Z as Hfc.
  { apply le_IZR. lra. }
  assert (IZR (Zfloor (B2R large) - 1) <= rnd64 (B2R large - 1) <= IZR (Zceil (B2R large) - 1)) as [R1 R2].
  { split.
    - rewrite <- (int_format (Zfloor (B2R large) - 1)) by lia. apply rnd64_le. rewrite minus_IZR. lra.
    - rewrite <- (int_format (Zceil (B2R large) - 1)) by lia. apply rnd64_le. rewrite minus_IZR. lra. }
  assert (Rabs (rnd64 (B2R large - 1)) < EM) as Hab.
  { apply Rle_lt_trans with (bpow radix2 53); [|apply bpow_lt; lia].
    assert (bpow radix2 53 = IZR (2 ^ 53)) as E53 by (rewrite IZR_pow2 by lia; reflexivity).
    rewrite E53. apply Rabs_le. split.
    - eapply Rle_trans; [|exact R1]. rewrite <- opp_IZR. apply IZR_le. lia.
    - eapply Rle_trans; [exact R2|]. apply IZR_le. lia. }
  destruct Hr as [(A & F & E)|[(A & E)|(A & E)]].
  - split; [exact F|]. rewrite E. split; assumption.
  - exfalso. apply Rabs_def2 in Hab. lra.
  - exfalso. apply Rabs_def2 in Hab. lra.
Qed.

(* stage A in binary64 for a CONSTANT matrix of f32 values of magnitude at most 2^52 *)
Theorem stage_a_F64_scale_const : forall m offset scale,
  Forall G149 (finite_cells F64Ops m) ->
  Forall (fun x => Rabs (B2R x) <= bpow radix2 52) (finite_cells F64Ops m) ->
  (forall a b, In a (finite_cells F64Ops m) -> In b (finite_cells F64Ops m) -> B2R a = B2R b) ->
  stage_a F64Ops m = Ok (offset, scale) ->
  is_finite offset = true /\ Rabs (B2R offset) <= bpow radix2 129 /\
  is_finite scale = true /\ 0 < B2R scale.
Proof.
  intros m offset scale HG H52 Hconst H.
  unfold stage_a, small_of, large_of in H.
  destruct (finite_cells F64Ops m) as [|x0 l] eqn:Ec; [discriminate|].
  assert (Forall (fun x : F64.t => is_finite x = true) (x0 :: l)) as Hfin.
  { eapply Forall_impl; [|exact HG]. intros x (F & _). exact F. }
  inversion Hfin as [|? ? F0 Fl]; subst.
  destruct (min_by_F64 l x0 F0 Fl) as (small0 & Emin & Hsin & _).
  destruct (max_by_F64 l x0 F0 Fl) as (large & Emax & Hlin & _).
  rewrite Emin, Emax in H. cbn [rbind] in H.
  rewrite Forall_forall in HG, H52.
  destruct (HG small0 Hsin) as (Fs & _). destruct (HG large Hlin) as (FL & _ & nl & EL).
  pose proof (H52 large Hlin) as A52.
  assert (eqb_n F64Ops small0 large = true) as Eeq.
  { unfold eqb_n. cbn [n_cmp F64Ops]. rewrite (cmp_finite small0 large Fs FL).
    rewrite (Rcompare_Eq _ _ (Hconst small0 large Hsin Hlin)). reflexivity. }
  rewrite Eeq in H. cbn [n_floor n_sub n_div n_of_Z n_one F64Ops] in H.
  destruct (sub_one_below large FL A52) as (Fsm & Hsm1 & Hsm2).
  set (small := F64.sub large f64_one) in *.
  destruct (floor_R small Fsm) as [Foff Eoff].
  set (off := F64.floor small) in *.
  set (k := Zfloor (B2R small)) in *.
  pose proof (Zfloor_lb (B2R small)) as Hk1. fold k in Hk1.
  assert (Zfloor (B2R large) - 1 <= k)%Z as Hk2 by (apply Zfloor_lub; exact Hsm1).
  pose proof (Zceil_lb (B2R large)) as Hc2. pose proof (Zfloor_ub (B2R large)) as Hf2.
  assert (B2R off < B2R large) as Hlt.
  { rewrite Eoff. rewrite minus_IZR in Hsm2. lra. }
  apply Rabs_le_inv in A52.
  assert (1 <= bpow radix2 52) as P52 by (change 1 with (bpow radix2 0); apply bpow_le; lia).
  assert (bpow radix2 52 + 2 <= bpow radix2 129) as P129.
  { apply Rle_trans with (bpow radix2 54); [|apply bpow_le; lia].
    replace (bpow radix2 54) with (4 * bpow radix2 52) by (change 4 with (bpow radix2 2); rewrite <- bpow_plus; reflexivity). lra. }
  assert (IZR k >= B2R large - 2) as Hk3.
  { apply IZR_le in Hk2. rewrite minus_IZR in Hk2. lra. }
  assert (Rabs (B2R off) <= bpow radix2 129) as Aoff.
  { rewrite Eoff. apply Rabs_le. lra. }
  assert (B2R large - B2R off <= bpow radix2 130) as Hub.
  { rewrite Eoff. apply Rle_trans with 2; [lra|]. change 2 with (bpow radix2 1). apply bpow_le. lia. }
  assert (Z.of_nat cdf_range = 1000%Z) as Ecdf by reflexivity. rewrite Ecdf in H.
  destruct (scale_tail large off k nl FL EL Foff Eoff Hlt Hub) as [Fsc Psc].
  unfold scale_of in Fsc, Psc. fold off in H.
  inversion H as [[Ho Hs]]. clear H.
  split; [exact Foff|]. split; [exact Aoff|]. split; assumption.
Qed.

(* ---------- every finite f32, widened to f64, is on the grid ---------- *)

Notation B2R32 := (@BinarySingleNaN.B2R 24 128).

Lemma fexp_incl : forall e : Z, (SpecFloat.fexp 53 1024 e <= SpecFloat.fexp 24 128 e)%Z.
Proof. intros e. unfold SpecFloat.fexp, SpecFloat.emin. lia. Qed.

Lemma of_f32_G149 : forall f : F32.t, F32.is_finite f = true -> G149 (F64.of_f32 f).
Proof.
  intros f Ff. destruct f as [s| | |s m e pf]; try discriminate.
  - (* zero *) unfold F64.of_f32, f32_to_f64. split; [reflexivity|].
    change (B2R (B754_zero s)) with 0. split.
    + rewrite Rabs_R0. apply bpow_ge_0.
    + exists 0%Z. lra.
  - unfold F64.of_f32, f32_to_f64.
    set (x := F2R (Float radix2 (cond_Zopp s (Zpos m)) e)).
    assert (x = B2R32 (B754_finite s m e pf)) as Ex by reflexivity.
    pose proof (binary_normalize_correct 53 1024 _ _ mode_NE (cond_Zopp s (Zpos m)) e s) as H. cbv zeta in H. fold x in H.
    assert (generic_format radix2 (SpecFloat.fexp 53 1024) x) as Hg.
    { apply (generic_inclusion_mag radix2 (SpecFloat.fexp 24 128)).
      - intros _. apply fexp_incl.
      - rewrite Ex. apply generic_format_B2R. }
    assert (rnd64 x = x) as ER by (apply round_generic; [apply valid_rnd_N|exact Hg]).
    rewrite ER in H.
    assert (Rabs x < bpow radix2 128) as A128 by (rewrite Ex; apply abs_B2R_lt_emax).
    assert (Rabs x < bpow radix2 1024) as A1024.
    { eapply Rlt_trans; [exact A128|]. apply bpow_lt. lia. }
    rewrite (Rlt_bool_true _ _ A1024) in H. destruct H as (HR & HF & _).
    split; [exact HF|]. rewrite HR. split; [lra|].
    (* e >= -149 *)
    assert (-149 <= e)%Z as He.
    { pose proof pf as pf'. unfold SpecFloat.bounded in pf'. apply andb_true_iff in pf'. destruct pf' as [pc _].
      unfold SpecFloat.canonical_mantissa in pc. apply Zeq_bool_eq in pc.
      unfold SpecFloat.fexp, SpecFloat.emin in pc. lia. }
    exists (cond_Zopp s (Zpos m) * 2 ^ (e + 149))%Z.
    unfold x, F2R. cbn [Fnum Fexp]. rewrite mult_IZR, IZR_pow2 by lia.
    rewrite Rmult_assoc, <- bpow_plus. replace (e + 149 + -149)%Z with e by lia. reflexivity.
Qed.

(* ---------- the distribution object ---------- *)

Lemma build_inv_stage_a : forall (T : Type) (N : NumOps T) m bg d, build N m bg = Ok d ->
  stage_a N m = Ok (d_offset d, d_scale_f d) /\ d_rows d = Z.of_nat (length m).
Proof.
  intros T N m bg d H. unfold build in H.
  destruct (negb (forallb (fun row : list (cell T) => (length row =? length bg)%nat) m)); [discriminate|].
  apply rbind_ok in H. destruct H as ([offset scale] & Ha & H).
  apply rbind_ok in H. destruct H as (pdf & Hp & H).
  apply rbind_ok in H. destruct H as ([[sf mn] mx] & Hs & H). inversion H; subst d; clear H. cbn.
  split; [exact Ha|reflexivity].
Qed.

Lemma wo_finite : forall (rows : Z) (off : F64.t), (0 <= rows <= 2 ^ 53)%Z ->
  is_finite off = true -> Rabs (B2R off) <= bpow radix2 129 ->
  is_finite (F64.mul (F64.of_Z rows) off) = true.
Proof.
  intros rows off Hr Fo Ao. destruct (B2R_of_Z_small rows Hr) as [Fr Er].
  unfold F64.mul, fmul. pose proof (Bmult_correct 53 1024 _ _ mode_NE (F64.of_Z rows) off) as H.
  rewrite Er in H.
  assert (Rabs (IZR rows * B2R off) <= bpow radix2 182) as Hb.
  { rewrite Rabs_mult. replace (bpow radix2 182) with (bpow radix2 53 * bpow radix2 129) by (rewrite <- bpow_plus; reflexivity).
    apply Rmult_le_compat; try apply Rabs_pos; [|exact Ao].
    rewrite Rabs_pos_eq by (apply IZR_le; lia). rewrite <- IZR_pow2 by lia. apply IZR_le. lia. }
  assert (Rabs (rnd64 (IZR rows * B2R off)) < bpow radix2 1024) as Hlt.
  { apply Rle_lt_trans with (bpow radix2 182); [|apply bpow_lt; lia].
    apply Rabs_le_inv in Hb. apply Rabs_le. split.
    - assert (rnd64 (- bpow radix2 182) = - bpow radix2 182) as En.
      { apply round_generic; [apply valid_rnd_N|]. apply generic_format_opp, generic_format_bpow.
        unfold SpecFloat.fexp, SpecFloat.emin. lia. }
      rewrite <- En. apply rnd64_le. lra.
    - rewrite <- (rnd64_bpow 182) by lia. apply rnd64_le. lra. }
  rewrite (Rlt_bool_true _ _ Hlt) in H. destruct H as (_ & HF & _). rewrite HF, Fr, Fo. reflexivity.
Qed.

(* ---------- matrices given as f32 bit patterns ---------- *)

Lemma Forall_flat_map_ : forall (A B : Type) (P : B -> Prop) (f : A -> list B) l,
  (forall a, In a l -> Forall P (f a)) -> Forall P (flat_map f l).
Proof.
  intros A B P f l H. apply Forall_forall. intros b Hb. apply in_flat_map in Hb. destruct Hb as (a & Ha & Hb).
  specialize (H a Ha). rewrite Forall_forall in H. apply H, Hb.
Qed.

Lemma f32_cells_G149 : forall mb, f32_no_nan mb = true ->
  Forall G149 (finite_cells F64Ops (map (map f32_cell) mb)).
Proof.
  intros mb H. unfold finite_cells. apply Forall_flat_map_. intros row Hrow.
  apply in_map_iff in Hrow. destruct Hrow as (rb & Er & Hrb). subst row.
  apply Forall_flat_map_. intros c Hc. apply in_map_iff in Hc. destruct Hc as (b & Ec & Hb). subst c.
  unfold f32_no_nan in H. rewrite forallb_forall in H. specialize (H rb Hrb). rewrite forallb_forall in H.
  specialize (H b Hb). apply negb_true_iff in H.
  unfold f32_cell, keep_cell. cbn [n_is_inf F64Ops].
  destruct (F32.of_bits b) as [s|s| |s m e pf] eqn:Ef.
  - (* zero *) cbn [F64.of_f32 f32_to_f64 f64_is_inf]. constructor; [|constructor].
    change (B754_zero s : F64.t) with (F64.of_f32 (B754_zero s)). apply of_f32_G149. reflexivity.
  - (* infinity *) cbn. constructor.
  - (* NaN *) discriminate.
  - destruct (f64_is_inf (F64.of_f32 (B754_finite s m e pf))); [constructor|].
    constructor; [|constructor]. apply of_f32_G149. reflexivity.
Qed.

Lemma nonconst_witness : forall cells, Forall G149 cells -> f64_nonconst cells = true ->
  exists a b, In a cells /\ In b cells /\ B2R a <> B2R b.
Proof.
  intros cells HG H. destruct cells as [|x r]; [discriminate|]. cbn [f64_nonconst] in H.
  apply existsb_exists in H. destruct H as (y & Hy & Hne). apply negb_true_iff in Hne.
  exists x, y. split; [left; reflexivity|]. split; [right; exact Hy|].
  rewrite Forall_forall in HG. destruct (HG x (or_introl eq_refl)) as (Fx & _). destruct (HG y (or_intror Hy)) as (Fy & _).
  unfold F64.eq, feq, fcmp in Hne. rewrite (Bcompare_correct _ _ x y Fx Fy) in Hne.
  intros E. rewrite E in Hne. rewrite Rcompare_Eq in Hne by reflexivity. discriminate.
Qed.

(* The scale part of f64_mono_pred, derived: for a matrix of f32 values without NaN and with two different
   non-infinite cells, of at most 2^53 rows, every distribution built by the bit-exact model has a finite
   w*offset and a finite positive scale. *)
Theorem scale_pred_f32 : forall mb bg d,
  f32_matrix_ok mb = true -> (Z.of_nat (length mb) <= 2 ^ 53)%Z ->
  f64_build (map (map f32_cell) mb) bg = Ok d -> f64_scale_pred d = true.
Proof.
  intros mb bg d Hok Hlen Hb. unfold f32_matrix_ok in Hok. apply andb_true_iff in Hok. destruct Hok as [Hnan Hnc].
  pose proof (f32_cells_G149 mb Hnan) as HG.
  pose proof (nonconst_witness _ HG Hnc) as Hw.
  destruct (build_inv_stage_a _ F64Ops _ bg d Hb) as [Ha Hrows].
  destruct (stage_a_F64_scale _ _ _ HG Hw Ha) as (Fo & Ao & Fs & Ps).
  assert (F64.is_finite (d_wo F64Ops d) = true) as Hwo.
  { unfold d_wo. cbn [n_mul n_of_Z F64Ops]. rewrite Hrows, map_length.
    exact (wo_finite (Z.of_nat (length mb)) (d_offset d) ltac:(lia) Fo Ao). }
  assert (F64.is_finite (d_scale_f d) = true) as Hfs by exact Fs.
  unfold f64_scale_pred. rewrite Hwo, Hfs. cbn [andb].
  unfold F64.lt, flt, fcmp. rewrite (Bcompare_correct _ _ F64.zero (d_scale_f d) eq_refl Fs).
  change (B2R F64.zero) with 0. rewrite (Rcompare_Lt _ _ Ps). reflexivity.
Qed.

(* the constant case at the level of bit patterns *)
Lemma const_all_equal : forall cells, Forall G149 cells -> f64_nonconst cells = false ->
  forall a b, In a cells -> In b cells -> B2R a = B2R b.
Proof.
  intros cells HG H. destruct cells as [|x r]; [intros a b []|]. cbn [f64_nonconst] in H.
  rewrite Forall_forall in HG. destruct (HG x (or_introl eq_refl)) as (Fx & _).
  assert (forall y, In y (x :: r) -> B2R y = B2R x) as Hx.
  { intros y [E|Hy]; [subst; reflexivity|].
    destruct (HG y (or_intror Hy)) as (Fy & _).
    destruct (existsb (fun y0 : F64.t => negb (F64.eq x y0)) r) eqn:Ee; [discriminate|].
    assert (negb (F64.eq x y) = false) as Hn.
    { destruct (negb (F64.eq x y)) eqn:En; [|reflexivity]. exfalso.
      assert (existsb (fun y0 : F64.t => negb (F64.eq x y0)) r = true) as Ht by (apply existsb_exists; exists y; split; assumption).
      congruence. }
    apply negb_false_iff in Hn. unfold F64.eq, feq, fcmp in Hn. rewrite (Bcompare_correct _ _ x y Fx Fy) in Hn.
    destruct (Rcompare_spec (B2R x) (B2R y)) as [L|E|G]; try discriminate. symmetry. exact E. }
  intros a b Ha Hb. rewrite (Hx a Ha), (Hx b Hb). reflexivity.
Qed.

Lemma small52_R : forall x : F64.t, is_finite x = true -> f64_small52 x = true -> Rabs (B2R x) <= bpow radix2 52.
Proof.
  intros x Fx H. unfold f64_small52 in H.
  destruct (B2R_of_Z_small (2 ^ 52) ltac:(lia)) as [F52 E52].
  assert (is_finite (F64.abs x) = true) as Fa by (unfold F64.abs, fabs; rewrite is_finite_Babs; exact Fx).
  destruct (cmp_leR (F64.abs x) (F64.of_Z (2 ^ 52)) Fa F52 H) as (_ & _ & L).
  unfold F64.abs, fabs in L. rewrite B2R_Babs, E52, IZR_pow2 in L by lia. exact L.
Qed.

Theorem scale_pred_f32_const : forall mb bg d,
  f32_matrix_ok_const mb = true -> (Z.of_nat (length mb) <= 2 ^ 53)%Z ->
  f64_build (map (map f32_cell) mb) bg = Ok d -> f64_scale_pred d = true.
Proof.
  intros mb bg d Hok Hlen Hb. unfold f32_matrix_ok_const in Hok.
  apply andb_true_iff in Hok. destruct Hok as [Hok _]. apply andb_true_iff in Hok. destruct Hok as [Hok H52].
  apply andb_true_iff in Hok. destruct Hok as [Hnan Hc]. apply negb_true_iff in Hc.
  pose proof (f32_cells_G149 mb Hnan) as HG.
  assert (Forall (fun x => Rabs (B2R x) <= bpow radix2 52) (finite_cells F64Ops (map (map f32_cell) mb))) as HS.
  { apply Forall_forall. intros x Hx. rewrite Forall_forall in HG. destruct (HG x Hx) as (Fx & _).
    rewrite forallb_forall in H52. apply small52_R; [exact Fx|apply H52, Hx]. }
  destruct (build_inv_stage_a _ F64Ops _ bg d Hb) as [Ha Hrows].
  destruct (stage_a_F64_scale_const _ _ _ HG HS (const_all_equal _ HG Hc) Ha) as (Fo & Ao & Fs & Ps).
  assert (F64.is_finite (d_wo F64Ops d) = true) as Hwo.
  { unfold d_wo. cbn [n_mul n_of_Z F64Ops]. rewrite Hrows, map_length.
    exact (wo_finite (Z.of_nat (length mb)) (d_offset d) ltac:(lia) Fo Ao). }
  assert (F64.is_finite (d_scale_f d) = true) as Hfs by exact Fs.
  unfold f64_scale_pred. rewrite Hwo, Hfs. cbn [andb].
  unfold F64.lt, flt, fcmp. rewrite (Bcompare_correct _ _ F64.zero (d_scale_f d) eq_refl Fs).
  change (B2R F64.zero) with 0. rewrite (Rcompare_Lt _ _ Ps). reflexivity.
Qed.

Theorem scale_pred_f32_any : forall mb bg d,
  f32_matrix_ok_any mb = true -> (Z.of_nat (length mb) <= 2 ^ 53)%Z ->
  f64_build (map (map f32_cell) mb) bg = Ok d -> f64_scale_pred d = true.
Proof.
  intros mb bg d H Hlen Hb. unfold f32_matrix_ok_any in H. apply orb_true_iff in H.
  destruct H as [H|H]; [exact (scale_pred_f32 mb bg d H Hlen Hb)|exact (scale_pred_f32_const mb bg d H Hlen Hb)].
Qed.

(* p-values non-increasing in binary64 itself with NO hypothesis about the distribution object: matrix of f32
   values (no NaN, not constant), background inside [0,1], dimensions inside f64_dims_ok *)
Theorem pvalue_monotone_F64_f32 : forall mb bg (d : dist F64.t) s1 s2 p1 p2,
  f32_matrix_ok_any mb = true -> f64_bg_ok bg = true -> f64_dims_ok (length bg) (length mb) = true ->
  f64_build (map (map f32_cell) mb) bg = Ok d ->
  F64.le s1 s2 = true ->
  d_pvalue F64Ops d s1 = Ok p1 -> d_pvalue F64Ops d s2 = Ok p2 ->
  le_n F64Ops p2 p1 = true.
Proof.
  intros mb bg d s1 s2 p1 p2 Hm Hbg Hdim Hb Hle H1 H2.
  assert (Z.of_nat (length mb) <= 2 ^ 53)%Z as Hlen.
  { unfold f64_dims_ok in Hdim. apply andb_true_iff in Hdim. destruct Hdim as [_ HM]. apply Z.leb_le in HM. lia. }
  pose proof (scale_pred_f32_any mb bg d Hm Hlen Hb) as Hp.
  refine (DistMonoBuilt.pvalue_monotone_F64_built (map (map f32_cell) mb) bg d s1 s2 p1 p2 Hbg _ Hb Hp Hle H1 H2).
  rewrite map_length. exact Hdim.
Qed.
