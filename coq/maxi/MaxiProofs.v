(* Lemmas about the generic (scalar) maximum / arg-maximum / threshold model and the
   executable property checker (property C07). *)
From Coq Require Import List Arith Bool NArith ZArith Lia Permutation.
From LMBase Require Import Res ListX.
From LMMaxi Require Import MaxiModel.
Import ListNotations.

(* ---------- order hypotheses: a total preorder on the "good" values ---------- *)

Record preorder_on {T : Type} (good : T -> Prop) (le : T -> T -> bool) : Prop := {
  po_refl : forall a, good a -> le a a = true;
  po_trans : forall a b c, good a -> good b -> good c -> le a b = true -> le b c = true -> le a c = true;
  po_total : forall a b, good a -> good b -> le a b = true \/ le b a = true
}.

(* ---------- folds that keep the last / first greatest element ---------- *)

Section FoldPick.
  Context {T A : Type}.
  Variable le : T -> T -> bool.
  Variable good : T -> Prop.
  Hypothesis PO : preorder_on good le.
  Variable key : A -> T.

  (* [pk b x] is b or x, and its key is above both *)
  Definition picks (pk : A -> A -> A) : Prop :=
    forall b x, good (key b) -> good (key x) ->
      (pk b x = b \/ pk b x = x) /\ le (key b) (key (pk b x)) = true /\ le (key x) (key (pk b x)) = true.

  Lemma picks_ge : picks (fun b x => if le (key b) (key x) then x else b).
  Proof.
    intros b x Hb Hx. destruct (le (key b) (key x)) eqn:E.
    - repeat split; auto. apply (po_refl _ _ PO); auto.
    - destruct (po_total _ _ PO (key b) (key x) Hb Hx) as [H|H]; [congruence|].
      repeat split; auto. apply (po_refl _ _ PO); auto.
  Qed.

  Lemma picks_gt (lt : T -> T -> bool) :
    (forall a b, good a -> good b -> lt a b = negb (le b a)) ->
    picks (fun b x => if lt (key b) (key x) then x else b).
  Proof.
    intros Hlt b x Hb Hx. rewrite (Hlt _ _ Hb Hx). destruct (le (key x) (key b)) eqn:E; simpl.
    - repeat split; auto. apply (po_refl _ _ PO); auto.
    - destruct (po_total _ _ PO (key b) (key x) Hb Hx) as [H|H]; [|congruence].
      repeat split; auto. apply (po_refl _ _ PO); auto.
  Qed.

  Variable pk : A -> A -> A.
  Hypothesis Hpk : picks pk.

  Lemma fold_pick_in : forall l b,
    good (key b) -> Forall (fun x => good (key x)) l ->
    fold_left pk l b = b \/ In (fold_left pk l b) l.
  Proof.
    induction l as [|x l IH]; intros b Hb Hl; simpl; auto.
    inversion Hl as [|? ? Hx Hl']; subst.
    destruct (Hpk b x Hb Hx) as [[E|E] _]; rewrite E.
    - destruct (IH b Hb Hl'); auto.
    - destruct (IH x Hx Hl') as [H|H]; auto.
  Qed.

  Lemma fold_pick_ub : forall l b,
    good (key b) -> Forall (fun x => good (key x)) l ->
    good (key (fold_left pk l b)) /\
    le (key b) (key (fold_left pk l b)) = true /\
    forall x, In x l -> le (key x) (key (fold_left pk l b)) = true.
  Proof.
    induction l as [|x l IH]; intros b Hb Hl; simpl.
    - split; [auto|]. split; [apply (po_refl _ _ PO); auto|]. intros ? [].
    - inversion Hl as [|? ? Hx Hl']; subst.
      destruct (Hpk b x Hb Hx) as [Hsel [Hbk Hxk]].
      assert (Hg : good (key (pk b x))) by (destruct Hsel as [E|E]; rewrite E; auto).
      destruct (IH (pk b x) Hg Hl') as [Hgr [Hle Hall]].
      repeat split; auto.
      + eapply (po_trans _ _ PO); [| | |exact Hbk|exact Hle]; auto.
      + intros y [->|Hy]; auto.
        eapply (po_trans _ _ PO); [| | |exact Hxk|exact Hle]; auto.
  Qed.
End FoldPick.

(* ---------- matrices, enumeration of the cells in scan order ---------- *)

Section Generic.
  Context {T : Type}.
  Variable le : T -> T -> bool.
  Variable good : T -> Prop.
  Hypothesis PO : preorder_on good le.

  Notation matrix := (@matrix T).
  Notation tagged := (@tagged T).

  Definition wf (C : nat) (m : matrix) : Prop := Forall (fun row => length row = C) m.
  Definition all_good (m : matrix) : Prop := Forall good (cells m).

  Fixpoint enum_row (i j : nat) (row : list T) : list tagged :=
    match row with
    | [] => []
    | x :: rest => (i, j, x) :: enum_row i (S j) rest
    end.

  Fixpoint enum_rows (i : nat) (rows : matrix) : list tagged :=
    match rows with
    | [] => []
    | row :: rest => enum_row i 0 row ++ enum_rows (S i) rest
    end.

  Lemma scan_row_fold : forall row i j best,
    scan_row le i row j best = fold_left (pick_ge le) (enum_row i j row) best.
  Proof. induction row; intros; simpl; auto. Qed.

  Lemma scan_rows_fold : forall rows i best,
    scan_rows le i rows best = fold_left (pick_ge le) (enum_rows i rows) best.
  Proof.
    induction rows; intros; simpl; auto.
    rewrite fold_left_app, <- scan_row_fold. apply IHrows.
  Qed.

  Lemma in_enum_row : forall row i j r c x,
    In (r, c, x) (enum_row i j row) <-> r = i /\ j <= c /\ nth_error row (c - j) = Some x.
  Proof.
    induction row as [|y row IH]; intros i j r c x; simpl.
    - split; [intros []|]. intros (_ & _ & H). destruct (c - j); discriminate.
    - rewrite IH. split.
      + intros [H|(-> & Hj & H)].
        * inversion H; subst. rewrite Nat.sub_diag. simpl. auto.
        * repeat split; try lia. replace (c - j) with (S (c - S j)) by lia. exact H.
      + intros (-> & Hj & H). destruct (Nat.eq_dec j c) as [->|Hne].
        * rewrite Nat.sub_diag in H. simpl in H. inversion H. auto.
        * right. repeat split; try lia. replace (c - j) with (S (c - S j)) in H by lia. exact H.
  Qed.

  Lemma get_cons (row : list T) (rows : matrix) r c :
    get (row :: rows) (S r) c = get rows r c.
  Proof. reflexivity. Qed.

  Lemma get_ok_iff (m : matrix) r c x :
    get m r c = Ok x <-> exists row, nth_error m r = Some row /\ nth_error row c = Some x.
  Proof.
    unfold get. split.
    - destruct (nth_error m r) as [row|]; [|discriminate].
      destruct (nth_error row c) eqn:E; [|discriminate]. intros H; inversion H; subst. eauto.
    - intros (row & -> & ->). reflexivity.
  Qed.

  Lemma in_enum_rows : forall rows i r c x,
    In (r, c, x) (enum_rows i rows) <-> i <= r /\ get rows (r - i) c = Ok x.
  Proof.
    induction rows as [|row rows IH]; intros i r c x; simpl.
    - split; [intros []|]. intros (_ & H). unfold get in H. destruct (r - i); discriminate.
    - rewrite in_app_iff, in_enum_row, IH. split.
      + intros [(-> & _ & H)|(Hi & H)].
        * split; auto. rewrite Nat.sub_diag, Nat.sub_0_r in *. unfold get. simpl. rewrite H. auto.
        * split; try lia. replace (r - i) with (S (r - S i)) by lia. exact H.
      + intros (Hi & H). destruct (Nat.eq_dec i r) as [->|Hne].
        * left. rewrite Nat.sub_diag in H. unfold get in H. simpl in H.
          repeat split; try lia. rewrite Nat.sub_0_r. destruct (nth_error row c); congruence.
        * right. split; try lia. replace (r - i) with (S (r - S i)) in H by lia. exact H.
  Qed.

  Lemma in_enum (m : matrix) r c x : In (r, c, x) (enum_rows 0 m) <-> get m r c = Ok x.
  Proof. rewrite in_enum_rows, Nat.sub_0_r. split; [tauto|split; [lia|auto]]. Qed.

  Lemma map_tval_enum_row : forall row i j, map (@tval T) (enum_row i j row) = row.
  Proof. induction row; intros; simpl; f_equal; auto. Qed.

  Lemma map_tval_enum_rows : forall rows i, map (@tval T) (enum_rows i rows) = cells rows.
  Proof.
    induction rows; intros; simpl; auto.
    rewrite map_app, map_tval_enum_row, IHrows. reflexivity.
  Qed.

  Lemma in_cells_get (m : matrix) x : In x (cells m) <-> exists r c, get m r c = Ok x.
  Proof.
    rewrite <- (map_tval_enum_rows m 0), in_map_iff. split.
    - intros ([[r c] y] & E & H). simpl in E. subst. apply in_enum in H. eauto.
    - intros (r & c & H). exists (r, c, x). split; auto. apply in_enum; auto.
  Qed.

  Lemma get_ok_range C (m : matrix) r c x :
    wf C m -> get m r c = Ok x -> r < length m /\ c < C.
  Proof.
    intros Hwf H. apply get_ok_iff in H. destruct H as (row & Hr & Hc).
    split. { apply nth_error_Some. congruence. }
    assert (Hl : length row = C).
    { unfold wf in Hwf. rewrite Forall_forall in Hwf. apply Hwf. eapply nth_error_In; eauto. }
    rewrite <- Hl. apply nth_error_Some. congruence.
  Qed.

  Lemma get_in_range C (m : matrix) r c :
    wf C m -> r < length m -> c < C -> exists x, get m r c = Ok x.
  Proof.
    intros Hwf Hr Hc. unfold get.
    destruct (nth_error m r) as [row|] eqn:E.
    - assert (Hl : length row = C).
      { unfold wf in Hwf. rewrite Forall_forall in Hwf. apply Hwf. eapply nth_error_In; eauto. }
      destruct (nth_error row c) eqn:E2; eauto.
      apply nth_error_None in E2. lia.
    - apply nth_error_None in E. lia.
  Qed.

  Lemma all_good_enum (m : matrix) i : all_good m -> Forall (fun x : tagged => good (tval x)) (enum_rows i m).
  Proof.
    unfold all_good. rewrite <- (map_tval_enum_rows m i). rewrite Forall_map. auto.
  Qed.

  (* ---------- specifications ---------- *)

  (* v is a cell value and every cell is <= v *)
  Definition is_max (m : matrix) (v : T) : Prop :=
    In v (cells m) /\ forall x, In x (cells m) -> le x v = true.

  Definition max_spec (m : matrix) (o : option T) : Prop :=
    match o with
    | None => m = []
    | Some v => m <> [] /\ is_max m v
    end.

  (* rc designates an in-range cell whose value is >= every cell *)
  Definition is_argmax (m : matrix) (rc : coord) : Prop :=
    exists v, get m (fst rc) (snd rc) = Ok v /\ forall x, In x (cells m) -> le x v = true.

  Definition argmax_spec (C : nat) (m : matrix) (o : option coord) : Prop :=
    match o with
    | None => m = []
    | Some rc => m <> [] /\ fst rc < length m /\ snd rc < C /\ is_argmax m rc
    end.

  Definition threshold_spec (m : matrix) (t : T) (l : list coord) : Prop :=
    NoDup l /\
    forall r c, In (r, c) l <-> exists v, get m r c = Ok v /\ le t v = true.

  Lemma is_argmax_is_max (m : matrix) rc v :
    is_argmax m rc -> get m (fst rc) (snd rc) = Ok v -> is_max m v.
  Proof.
    intros (v' & H1 & H2) H. rewrite H in H1. inversion H1; subst. split; auto.
    apply in_cells_get. eauto.
  Qed.

  (* ---------- generic argmax / max ---------- *)

  Lemma first_cell C (m : matrix) :
    0 < C -> wf C m -> m <> [] -> exists b0, index_usize m 0 = Ok b0 /\ get m 0 0 = Ok b0.
  Proof.
    intros HC Hwf Hne. destruct m as [|row m]; [congruence|].
    unfold index_usize. cbn [length]. rewrite Nat.mod_0_l, Nat.div_0_l by lia.
    destruct (get_in_range C (row :: m) 0 0 Hwf) as [x Hx]; simpl; try lia. eauto.
  Qed.

  Theorem argmax_generic_ok C (m : matrix) :
    0 < C -> wf C m -> all_good m ->
    exists o, argmax_generic le m = Ok o /\ argmax_spec C m o.
  Proof.
    intros HC Hwf Hg. destruct m as [|row m'].
    - exists None. simpl. auto.
    - assert (Hne : row :: m' <> []) by discriminate.
      destruct (first_cell C _ HC Hwf Hne) as (b0 & Hi & H0).
      unfold argmax_generic. rewrite Hi. cbn [rbind].
      remember (row :: m') as m eqn:Em.
      eexists. split; [reflexivity|].
      rewrite scan_rows_fold.
      assert (Hb0 : good b0).
      { unfold all_good in Hg. rewrite Forall_forall in Hg. apply Hg. apply in_cells_get. eauto. }
      pose proof (all_good_enum m 0 Hg) as Hge.
      pose proof (picks_ge le good PO (@tval T)) as Hpk.
      destruct (fold_pick_ub le good PO (@tval T) _ Hpk (enum_rows 0 m) (0, 0, b0) Hb0 Hge) as (_ & Hub0 & Hub).
      destruct (fold_pick_in le good (@tval T) _ Hpk (enum_rows 0 m) (0, 0, b0) Hb0 Hge) as [E|Hin];
        fold (pick_ge le) in *; set (res := fold_left (pick_ge le) (enum_rows 0 m) (0, 0, b0)) in *.
      + assert (Hget : get m (fst (tpos res)) (snd (tpos res)) = Ok (tval res)) by (rewrite E; exact H0).
        destruct (get_ok_range C m _ _ _ Hwf Hget) as [Hr Hc].
        cbn [argmax_spec]. repeat split; auto.
        exists (tval res). split; auto.
        intros x Hx. rewrite <- (map_tval_enum_rows m 0) in Hx. apply in_map_iff in Hx.
        destruct Hx as (y & <- & Hy). apply Hub; auto.
      + destruct res as [[r c] v] eqn:Er. apply in_enum in Hin.
        destruct (get_ok_range C m _ _ _ Hwf Hin) as [Hr Hc].
        cbn [argmax_spec tpos fst snd]. repeat split; auto.
        exists v. split; auto.
        intros x Hx. rewrite <- (map_tval_enum_rows m 0) in Hx. apply in_map_iff in Hx.
        destruct Hx as (y & <- & Hy). apply (Hub y Hy).
  Qed.

  (* Maximum::max default impl on top of any argmax that meets its specification *)
  Lemma max_of_argmax_ok C (m : matrix) (am : res (option coord)) o :
    am = Ok o -> argmax_spec C m o ->
    exists o', max_of_argmax am m = Ok o' /\ max_spec m o'.
  Proof.
    intros -> Hs. unfold max_of_argmax. cbn [rbind]. destruct o as [rc|].
    - destruct Hs as (Hne & _ & _ & Ham). destruct Ham as (v & Hv & Hub) eqn:E.
      rewrite Hv. cbn [rbind]. eexists. split; [reflexivity|]. split; auto.
      eapply is_argmax_is_max; eauto.
    - eexists. split; [reflexivity|]. exact Hs.
  Qed.

  Theorem max_generic_ok C (m : matrix) :
    0 < C -> wf C m -> all_good m ->
    exists o, max_generic le m = Ok o /\ max_spec m o.
  Proof.
    intros HC Hwf Hg. destruct (argmax_generic_ok C m HC Hwf Hg) as (o & Ho & Hs).
    unfold max_generic. eapply max_of_argmax_ok; eauto.
  Qed.

  (* any two maxima are equal as values *)
  Lemma is_max_unique (m : matrix) v w :
    is_max m v -> is_max m w -> le v w = true /\ le w v = true.
  Proof. intros [Hv Hvu] [Hw Hwu]. split; auto. Qed.

  (* ---------- threshold ---------- *)

  Lemma thr_row_filter t : forall row i j,
    thr_row le t i row j = map (@tpos T) (filter (fun e => le t (tval e)) (enum_row i j row)).
  Proof.
    induction row as [|x row IH]; intros i j; simpl; auto.
    unfold tval at 1. simpl. destruct (le t x); simpl; rewrite IH; auto.
  Qed.

  Lemma thr_rows_filter t : forall rows i,
    thr_rows le t i rows = map (@tpos T) (filter (fun e => le t (tval e)) (enum_rows i rows)).
  Proof.
    induction rows as [|row rows IH]; intros i; simpl; auto.
    rewrite filter_app, map_app, <- thr_row_filter, IH. reflexivity.
  Qed.

  Lemma NoDup_app_intro {A} (a b : list A) :
    NoDup a -> NoDup b -> (forall x, In x a -> ~ In x b) -> NoDup (a ++ b).
  Proof.
    induction a as [|x a IH]; simpl; intros Ha Hb Hd; auto.
    inversion Ha; subst. constructor.
    - rewrite in_app_iff. intros [H|H]; auto. apply (Hd x); auto.
    - apply IH; auto.
  Qed.

  Lemma NoDup_map_filter {A B} (f : A -> B) (p : A -> bool) (l : list A) :
    NoDup (map f l) -> NoDup (map f (filter p l)).
  Proof.
    induction l as [|x l IH]; simpl; intros H; auto.
    inversion H; subst. destruct (p x); simpl; auto.
    constructor; auto. intros Hin. apply H2.
    apply in_map_iff in Hin. destruct Hin as (y & E & Hy). apply filter_In in Hy.
    apply in_map_iff. exists y. tauto.
  Qed.

  Lemma in_map_tpos (l : list tagged) rc : In rc (map (@tpos T) l) <-> exists x, In (fst rc, snd rc, x) l.
  Proof.
    rewrite in_map_iff. split.
    - intros ([[r c] x] & <- & H). simpl. eauto.
    - intros (x & H). exists (fst rc, snd rc, x). split; auto. destruct rc; reflexivity.
  Qed.

  Lemma NoDup_enum_row : forall row i j, NoDup (map (@tpos T) (enum_row i j row)).
  Proof.
    induction row as [|x row IH]; intros i j; simpl; constructor; auto.
    intros H. apply in_map_tpos in H. destruct H as (y & H). simpl in H.
    apply in_enum_row in H. lia.
  Qed.

  Lemma NoDup_enum_rows : forall rows i, NoDup (map (@tpos T) (enum_rows i rows)).
  Proof.
    induction rows as [|row rows IH]; intros i; simpl; [constructor|].
    rewrite map_app. apply NoDup_app_intro; auto using NoDup_enum_row.
    intros rc H1 H2. apply in_map_tpos in H1. apply in_map_tpos in H2.
    destruct H1 as (x & H1). destruct H2 as (y & H2).
    apply in_enum_row in H1. apply in_enum_rows in H2. lia.
  Qed.

  Theorem threshold_generic_ok (m : matrix) (t : T) : threshold_spec m t (threshold_generic le m t).
  Proof.
    unfold threshold_generic. rewrite thr_rows_filter. split.
    - apply NoDup_map_filter. apply NoDup_enum_rows.
    - intros r c. rewrite in_map_tpos. cbn [fst snd]. split.
      + intros (x & H). apply filter_In in H. destruct H as [H Ht]. apply in_enum in H. eauto.
      + intros (v & H & Ht). exists v. apply filter_In. split; auto. apply in_enum; auto.
  Qed.

  Lemma threshold_spec_perm (m : matrix) t l l' :
    Permutation l l' -> threshold_spec m t l -> threshold_spec m t l'.
  Proof.
    intros Hp [Hn Hi]. split.
    - eapply Permutation_NoDup; eauto.
    - intros r c. rewrite <- Hi. split; apply Permutation_in; auto using Permutation_sym.
  Qed.

  (* two lists meeting the specification hold the same set *)
  Lemma threshold_spec_same_set (m : matrix) t l l' :
    threshold_spec m t l -> threshold_spec m t l' -> forall rc, In rc l <-> In rc l'.
  Proof. intros [_ H] [_ H'] [r c]. rewrite H, H'. tauto. Qed.

  (* ---------- offsets (StripedScores::offset, Index<usize>) ---------- *)

  Theorem argmax_offset (m : matrix) r c :
    r < length m ->
    offset m (r, c) = c * length m + r /\ index_usize m (offset m (r, c)) = get m r c.
  Proof.
    intros Hr. unfold offset, index_usize. cbn [fst snd]. split; auto.
    destruct (length m) as [|n] eqn:E; [lia|].
    rewrite Nat.add_comm, Nat.mod_add, Nat.div_add by lia.
    rewrite Nat.mod_small, Nat.div_small by lia. reflexivity.
  Qed.

  Lemma offset_inj (m : matrix) r c r' c' :
    r < length m -> r' < length m -> offset m (r, c) = offset m (r', c') -> (r, c) = (r', c').
  Proof.
    unfold offset. cbn [fst snd]. intros Hr Hr' E.
    assert (c = c') by nia. subst. f_equal. lia.
  Qed.

  Lemma offset_lt C (m : matrix) r c : r < length m -> c < C -> offset m (r, c) < length m * C.
  Proof. unfold offset. cbn [fst snd]. intros. nia. Qed.

  (* StripedScores::threshold: each qualifying cell once, as its column-major index *)
  Theorem ss_threshold_ok C (m : matrix) t :
    wf C m ->
    NoDup (ss_threshold le m t) /\
    forall i, In i (ss_threshold le m t) <->
      exists r c v, r < length m /\ c < C /\ i = c * length m + r /\ get m r c = Ok v /\ le t v = true.
  Proof.
    intros Hwf. destruct (threshold_generic_ok m t) as [Hn Hi]. unfold ss_threshold. split.
    - assert (Hr : forall rc, In rc (threshold_generic le m t) -> fst rc < length m).
      { intros [r c] H. apply Hi in H. destruct H as (v & H & _).
        apply (get_ok_range C) in H; auto. simpl. tauto. }
      revert Hn Hr. generalize (threshold_generic le m t). induction l as [|rc l IH]; simpl; intros Hn Hr.
      + constructor.
      + inversion Hn; subst. constructor; auto.
        intros H. apply in_map_iff in H. destruct H as (rc' & E & H').
        destruct rc as [r c], rc' as [r' c'].
        apply offset_inj in E; [congruence| |]; [apply (Hr (r', c'))|apply (Hr (r, c))]; auto.
    - intros i. rewrite in_map_iff. split.
      + intros ([r c] & <- & H). apply Hi in H. destruct H as (v & H & Ht).
        destruct (get_ok_range C m r c v Hwf H). exists r, c, v. unfold offset. simpl. auto.
      + intros (r & c & v & _ & _ & -> & H & Ht). exists (r, c). split; auto.
        apply Hi. eauto.
  Qed.

  (* ---------- executable checker: soundness and completeness ---------- *)

  (* what the checker establishes for a reported maximum (value equality instead of
     identity: -0.0 and +0.0 are the same value) *)
  Definition max_holds (m : matrix) (o : option T) : Prop :=
    match o with
    | None => m = []
    | Some v => m <> [] /\ (exists x, In x (cells m) /\ le x v = true /\ le v x = true) /\
                forall x, In x (cells m) -> le x v = true
    end.

  Definition argmax_holds (m : matrix) (o : option coord) : Prop :=
    match o with
    | None => m = []
    | Some rc => m <> [] /\ is_argmax m rc
    end.

  Lemma all_le_spec (m : matrix) v : all_le le m v = true <-> forall x, In x (cells m) -> le x v = true.
  Proof. unfold all_le. apply forallb_forall. Qed.

  Theorem check_max_sound (m : matrix) o : check_max le m o = true -> max_holds m o.
  Proof.
    unfold check_max, max_holds. destruct o as [v|]; destruct m as [|row m']; try discriminate; auto.
    intros H. apply andb_true_iff in H. destruct H as [He Ha]. split; [discriminate|]. split.
    - apply existsb_exists in He. destruct He as (x & Hx & H). apply andb_true_iff in H. exists x. tauto.
    - apply all_le_spec; auto.
  Qed.

  Theorem check_argmax_sound (m : matrix) o : check_argmax le m o = true -> argmax_holds m o.
  Proof.
    unfold check_argmax, argmax_holds. destruct o as [rc|].
    - destruct (get m (fst rc) (snd rc)) as [v| | |] eqn:E; try discriminate. intros H. split.
      + intros ->. unfold get in E. destruct (fst rc); discriminate.
      + exists v. split; auto. apply all_le_spec; auto.
    - destruct m; [auto|discriminate].
  Qed.

  Lemma coords_eqb_eq : forall a b, coords_eqb a b = true -> a = b.
  Proof.
    induction a as [|[r1 c1] a IH]; intros [|[r2 c2] b]; simpl; try discriminate; auto.
    intros H. apply andb_true_iff in H. destruct H as [H H3]. apply andb_true_iff in H. destruct H as [H1 H2].
    apply Nat.eqb_eq in H1, H2. subst. f_equal. auto.
  Qed.

  Lemma coords_eqb_refl : forall a, coords_eqb a a = true.
  Proof. induction a as [|[r c] a IH]; simpl; auto. rewrite !Nat.eqb_refl. auto. Qed.

  (* the reported list may come in any order: the caller sorts it *)
  Theorem check_threshold_sound (m : matrix) t reported sorted :
    Permutation reported sorted -> check_threshold le m t sorted = true -> threshold_spec m t reported.
  Proof.
    intros Hp H. apply coords_eqb_eq in H. apply (threshold_spec_perm m t sorted); auto using Permutation_sym.
    rewrite H. apply threshold_generic_ok.
  Qed.

  Theorem check_max_complete (m : matrix) o : all_good m -> max_spec m o -> check_max le m o = true.
  Proof.
    intros Hg. unfold max_spec, check_max. destruct o as [v|].
    - intros (Hne & Hin & Hub). destruct m as [|row m']; [congruence|].
      apply andb_true_iff. split.
      + apply existsb_exists. exists v. split; auto.
        assert (good v) by (unfold all_good in Hg; rewrite Forall_forall in Hg; auto).
        rewrite (po_refl _ _ PO); auto.
      + apply all_le_spec; auto.
    - intros ->. reflexivity.
  Qed.

  Theorem check_argmax_complete C (m : matrix) o : argmax_spec C m o -> check_argmax le m o = true.
  Proof.
    unfold argmax_spec, check_argmax. destruct o as [rc|].
    - intros (_ & _ & _ & v & Hv & Hub). rewrite Hv. apply all_le_spec; auto.
    - intros ->. reflexivity.
  Qed.

  Lemma max_spec_holds (m : matrix) o : all_good m -> max_spec m o -> max_holds m o.
  Proof. intros Hg H. apply check_max_sound, check_max_complete; auto. Qed.

  (* ---------- linear Scores ---------- *)

  Definition lpick (b x : nat * T) : nat * T := if le (snd b) (snd x) then x else b.

  Lemma lin_fold_good : forall l acc i,
    good (snd acc) -> Forall good l ->
    lin_fold le acc i l = Ok (fold_left lpick (combine (seq i (length l)) l) acc).
  Proof.
    induction l as [|y l IH]; intros acc i Ha Hl; simpl; auto.
    inversion Hl; subst. unfold lpick at 2. cbn [snd].
    destruct (le (snd acc) y) eqn:E.
    - apply IH; auto.
    - destruct (po_total _ _ PO (snd acc) y Ha H1) as [H|H]; [congruence|]. rewrite H. apply IH; auto.
  Qed.

  Lemma in_combine_seq : forall (l : list T) i k x,
    In (k, x) (combine (seq i (length l)) l) <-> i <= k /\ nth_error l (k - i) = Some x.
  Proof.
    induction l as [|y l IH]; intros i k x; simpl.
    - split; [intros []|]. intros [_ H]. destruct (k - i); discriminate.
    - rewrite IH. split.
      + intros [H|[Hi H]].
        * inversion H; subst. rewrite Nat.sub_diag. auto.
        * split; try lia. replace (k - i) with (S (k - S i)) by lia. exact H.
      + intros [Hi H]. destruct (Nat.eq_dec i k) as [->|Hne].
        * rewrite Nat.sub_diag in H. simpl in H. inversion H. auto.
        * right. split; try lia. replace (k - i) with (S (k - S i)) in H by lia. exact H.
  Qed.

  Definition lin_spec (l : list T) (o : option (nat * T)) : Prop :=
    match o with
    | None => l = []
    | Some (i, v) => nth_error l i = Some v /\ forall x, In x l -> le x v = true
    end.

  Theorem lin_best_ok (l : list T) :
    Forall good l -> exists o, lin_best le l = Ok o /\ lin_spec l o.
  Proof.
    intros Hg. destruct l as [|x l]; simpl.
    - exists None. split; reflexivity.
    - inversion Hg; subst. rewrite lin_fold_good; auto. cbn [rbind]. eexists. split; [reflexivity|].
      pose proof (picks_ge le good PO (@snd nat T)) as Hpk. fold lpick in Hpk.
      assert (Hgl : Forall (fun y : nat * T => good (snd y)) (combine (seq 1 (length l)) l)).
      { apply Forall_forall. intros [k y] Hy. apply in_combine_r in Hy. rewrite Forall_forall in H2. auto. }
      destruct (fold_pick_ub le good PO (@snd nat T) _ Hpk _ (0, x) H1 Hgl) as (_ & Hb & Hub).
      destruct (fold_pick_in le good (@snd nat T) _ Hpk _ (0, x) H1 Hgl) as [E|Hin];
        set (res := fold_left lpick (combine (seq 1 (length l)) l) (0, x)) in *.
      + rewrite E. cbn [lin_spec]. split; auto. intros y [<-|Hy].
        * rewrite E in Hb. exact Hb.
        * destruct (In_nth_error _ _ Hy) as [k Hk].
          assert (Hin : In (S k, y) (combine (seq 1 (length l)) l)).
          { apply in_combine_seq. split; [lia|]. replace (S k - 1) with k by lia. auto. }
          specialize (Hub _ Hin). rewrite E in Hub. exact Hub.
      + destruct res as [k v] eqn:Er. apply in_combine_seq in Hin. destruct Hin as [Hk Hn].
        cbn [lin_spec]. split.
        * destruct k; [lia|]. simpl. replace (S k - 1) with k in Hn by lia. exact Hn.
        * intros y [<-|Hy]; [exact Hb|].
          destruct (In_nth_error _ _ Hy) as [k' Hk'].
          assert (Hin : In (S k', y) (combine (seq 1 (length l)) l)).
          { apply in_combine_seq. split; [lia|]. replace (S k' - 1) with k' by lia. auto. }
          apply (Hub _ Hin).
  Qed.

  Lemma lin_thr_spec t : forall l i k,
    In k (lin_thr le t i l) <-> i <= k /\ exists v, nth_error l (k - i) = Some v /\ le t v = true.
  Proof.
    induction l as [|x l IH]; intros i k; simpl.
    - split; [intros []|]. intros [_ (v & H & _)]. destruct (k - i); discriminate.
    - rewrite in_app_iff, IH. split.
      + intros [H|[Hi (v & H & Ht)]].
        * destruct (le t x) eqn:E; [|destruct H]. destruct H as [<-|[]].
          split; auto. rewrite Nat.sub_diag. simpl. eauto.
        * split; try lia. exists v. replace (k - i) with (S (k - S i)) by lia. auto.
      + intros [Hi (v & H & Ht)]. destruct (Nat.eq_dec i k) as [->|Hne].
        * left. rewrite Nat.sub_diag in H. simpl in H. inversion H; subst. rewrite Ht. simpl. auto.
        * right. split; try lia. exists v. replace (k - i) with (S (k - S i)) in H by lia. auto.
  Qed.

  Lemma lin_thr_nodup t : forall l i, NoDup (lin_thr le t i l).
  Proof.
    induction l as [|x l IH]; intros i; simpl; [constructor|].
    destruct (le t x); simpl; auto. constructor; auto.
    intros H. apply lin_thr_spec in H. lia.
  Qed.

  Theorem lin_threshold_ok (l : list T) t :
    NoDup (lin_threshold le t l) /\
    forall k, In k (lin_threshold le t l) <-> exists v, nth_error l k = Some v /\ le t v = true.
  Proof.
    split. apply lin_thr_nodup.
    intros k. unfold lin_threshold. rewrite lin_thr_spec, Nat.sub_0_r. split; [tauto|split; [lia|auto]].
  Qed.

End Generic.
