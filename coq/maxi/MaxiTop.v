(* Top-level lemmas of property C07: the dispatcher arm tables, agreement between arms,
   the StripedScores level (offsets), linear Scores, unstripe, the padding claim and the
   soundness / completeness of the extracted checker [check_C07]. *)
From Coq Require Import List Arith Bool NArith ZArith Lia Permutation.
From LMBase Require Import Res ListX IEEE.
From LMMaxi Require Import MaxiModel MaxiProofs MaxiKernels MaxiIEEE.
Import ListNotations.

(* boolean sweep -> Forall (used by the non-vacuity examples) *)
Lemma forallb_Forall {A} (p : A -> bool) (P : A -> Prop) (l : list A) :
  (forall x, p x = true -> P x) -> forallb p l = true -> Forall P l.
Proof.
  intros Hp H. apply Forall_forall. intros x Hx. apply Hp. rewrite forallb_forall in H. auto.
Qed.

Section Top.
  Context {T : Type}.
  Variable le : T -> T -> bool.
  Variable lt : T -> T -> bool.
  Variable good : T -> Prop.
  Hypothesis PO : preorder_on good le.
  Hypothesis Hlt : forall a b, good a -> good b -> lt a b = negb (le b a).
  Variable vmax : T -> T -> T.
  Variable smax : T -> T -> T.
  Hypothesis Hvmax : maxlike le good vmax.
  Hypothesis Hsmax : maxlike le good smax.
  Variable ninf : T.
  Hypothesis Hninf_good : good ninf.
  Hypothesis Hninf_bot : forall x, good x -> le ninf x = true.

  Notation matrix := (@matrix T).

  Definition rows_fit32 (m : matrix) : Prop := (N.of_nat (length m) <= 4294967296)%N.
  Definition index_fits32 (max_index : N) : Prop := (max_index <= 4294967295)%N.

  (* ---------- dispatcher arm tables (f32) ---------- *)

  Theorem dispatch_argmax_f32_ok (a : arm) (max_index : N) (m : matrix) :
    wf 32 m -> all_good good m -> rows_fit32 m -> index_fits32 max_index ->
    exists o, dispatch_argmax_f32 le lt ninf a max_index m = Ok o /\ argmax_spec le 32 m o.
  Proof.
    intros Hwf Hg Hr Hi. destruct a; cbn [dispatch_argmax_f32].
    - apply (argmax_generic_ok le good PO 32 m); auto. lia.
    - change 32 with (2 * 16). apply (argmax_sse2_ok le good PO ninf Hninf_good Hninf_bot 2); auto.
    - apply (argmax_f32_avx2_ok le good PO lt Hlt); auto.
  Qed.

  (* the generic arm has no guard at all *)
  Theorem dispatch_argmax_f32_generic_ok (max_index : N) (m : matrix) :
    wf 32 m -> all_good good m ->
    exists o, dispatch_argmax_f32 le lt ninf AGeneric max_index m = Ok o /\ argmax_spec le 32 m o.
  Proof. intros Hwf Hg. apply (argmax_generic_ok le good PO 32 m); auto. lia. Qed.

  (* the explicit guards of the vector arms *)
  Theorem dispatch_argmax_f32_guard (a : arm) (max_index : N) (m : matrix) :
    a <> AGeneric -> (4294967295 < max_index)%N ->
    dispatch_argmax_f32 le lt ninf a max_index m = Panic 20.
  Proof.
    intros Ha Hi. apply N.ltb_lt in Hi.
    destruct a; [congruence| |]; cbn [dispatch_argmax_f32]; unfold argmax_sse2, argmax_f32_avx2; rewrite Hi; reflexivity.
  Qed.

  Theorem dispatch_max_f32_ok (a : arm) (m : matrix) :
    wf 32 m -> all_good good m ->
    exists o, dispatch_max_f32 le vmax smax a m = Ok o /\ max_spec le m o.
  Proof.
    intros Hwf Hg. destruct a; cbn [dispatch_max_f32].
    - apply (max_generic_ok le good PO 32 m); auto. lia.
    - apply (max_generic_ok le good PO 32 m); auto. lia.
    - apply (max_f32_avx2_ok le good PO vmax Hvmax smax Hsmax); auto.
  Qed.

  Theorem dispatch_threshold_ok (a : arm) (m : matrix) (t : T) :
    threshold_spec le m t (dispatch_threshold le a m t).
  Proof. apply threshold_generic_ok. Qed.

  (* Pipeline<_, Sse2>: max is the default implementation on top of the SSE2 arg-max *)
  Theorem pipeline_sse2_max_ok (B : nat) (max_index : N) (m : matrix) :
    0 < B -> wf (B * 16) m -> all_good good m -> rows_fit32 m -> index_fits32 max_index ->
    exists o, pipeline_sse2_max le ninf (B * 16) max_index m = Ok o /\ max_spec le m o.
  Proof.
    intros HB Hwf Hg Hr Hi.
    destruct (argmax_sse2_ok le good PO ninf Hninf_good Hninf_bot B max_index m HB Hwf Hg Hr Hi) as (o & Ho & Hs).
    unfold pipeline_sse2_max. eapply max_of_argmax_ok; eauto.
  Qed.

  (* ---------- agreement ---------- *)

  (* two answers meeting [max_spec] are both None or hold equal values *)
  Theorem max_spec_agree (m : matrix) (o1 o2 : option T) :
    max_spec le m o1 -> max_spec le m o2 ->
    match o1, o2 with
    | None, None => m = []
    | Some v, Some w => le v w = true /\ le w v = true
    | _, _ => False
    end.
  Proof.
    destruct o1 as [v|], o2 as [w|]; cbn [max_spec].
    - intros [_ H1] [_ H2]. eapply is_max_unique; eauto.
    - intros [H1 _] H2. congruence.
    - intros H1 [H2 _]. congruence.
    - auto.
  Qed.

  (* the cell designated by an arg-maximum holds the value any maximum reports *)
  Theorem argmax_max_agree (C : nat) (m : matrix) (rc : coord) (w : T) :
    argmax_spec le C m (Some rc) -> max_spec le m (Some w) ->
    exists v, get m (fst rc) (snd rc) = Ok v /\ le v w = true /\ le w v = true.
  Proof.
    intros (_ & _ & _ & Ham) [_ Hw]. destruct Ham as (v & Hv & Hub) eqn:E.
    exists v. split; auto.
    eapply is_max_unique; eauto. eapply is_argmax_is_max; eauto.
  Qed.

  Theorem dispatch_max_f32_agree (a b : arm) (m : matrix) :
    wf 32 m -> all_good good m ->
    exists o1 o2, dispatch_max_f32 le vmax smax a m = Ok o1 /\ dispatch_max_f32 le vmax smax b m = Ok o2 /\
      match o1, o2 with
      | None, None => m = []
      | Some v, Some w => le v w = true /\ le w v = true
      | _, _ => False
      end.
  Proof.
    intros Hwf Hg.
    destruct (dispatch_max_f32_ok a m Hwf Hg) as (o1 & H1 & S1).
    destruct (dispatch_max_f32_ok b m Hwf Hg) as (o2 & H2 & S2).
    exists o1, o2. repeat split; auto. apply max_spec_agree; auto.
  Qed.

  Theorem dispatch_threshold_agree (a b : arm) (m : matrix) (t : T) :
    dispatch_threshold le a m t = dispatch_threshold le b m t.
  Proof. reflexivity. Qed.

  (* ---------- StripedScores level ---------- *)

  Definition ss_argmax_spec (C : nat) (m : matrix) (o : option nat) : Prop :=
    match o with
    | None => m = []
    | Some i => m <> [] /\ i < length m * C /\
                exists v, index_usize m i = Ok v /\ forall x, In x (cells m) -> le x v = true
    end.

  Theorem ss_argmax_ok (C : nat) (m : matrix) (am : res (option coord)) (o : option coord) :
    am = Ok o -> argmax_spec le C m o ->
    exists o', ss_argmax am m = Ok o' /\ o' = option_map (offset m) o /\ ss_argmax_spec C m o'.
  Proof.
    intros -> Hs. unfold ss_argmax. cbn [rbind]. eexists. split; [reflexivity|]. split; [reflexivity|].
    destruct o as [[r c]|]; cbn [option_map ss_argmax_spec]; auto.
    destruct Hs as (Hne & Hr & Hc & v & Hv & Hub). cbn [fst snd] in *.
    split; auto. split; [apply offset_lt; auto|].
    exists v. split; auto. destruct (argmax_offset m r c Hr) as [_ E]. rewrite E. exact Hv.
  Qed.

  (* the binary-number offsets evaluated by the driver are the same offsets *)
  Lemma offsetN_offset (m : matrix) (rc : coord) : offsetN (N.of_nat (length m)) rc = N.of_nat (offset m rc).
  Proof. unfold offsetN, offset. rewrite Nat2N.inj_add, Nat2N.inj_mul. reflexivity. Qed.

  Theorem ss_N_agree (am : res (option coord)) (m : matrix) (t : T) :
    ss_thresholdN le m t = map N.of_nat (ss_threshold le m t) /\
    ss_argmaxN am m = (o <- ss_argmax am m ;; Ok (option_map N.of_nat o)).
  Proof.
    split.
    - unfold ss_thresholdN, ss_threshold. rewrite map_map. apply map_ext. intros rc. apply offsetN_offset.
    - unfold ss_argmaxN, ss_argmax. destruct am as [o| | |]; cbn [rbind]; auto.
      destruct o as [rc|]; cbn [option_map]; auto. rewrite offsetN_offset. reflexivity.
  Qed.

  Lemma index_usize_in_cells (m : matrix) i x : index_usize m i = Ok x -> In x (cells m).
  Proof.
    unfold index_usize. destruct (length m); [discriminate|]. intros H. apply in_cells_get. eauto.
  Qed.

  Lemma in_cells_index C (m : matrix) x :
    wf C m -> In x (cells m) -> exists i, i < length m * C /\ index_usize m i = Ok x.
  Proof.
    intros Hwf Hx. apply in_cells_get in Hx. destruct Hx as (r & c & H).
    destruct (get_ok_range C m r c x Hwf H) as [Hr Hc].
    exists (offset m (r, c)). split; [apply offset_lt; auto|].
    destruct (argmax_offset m r c Hr) as [_ E]. rewrite E. exact H.
  Qed.

  (* StripedScores::threshold in terms of scores[i]: exactly the positions below rows * C
     whose score is >= t *)
  Theorem ss_threshold_index (C : nat) (m : matrix) (t : T) :
    wf C m ->
    forall i, In i (ss_threshold le m t) <->
              i < length m * C /\ exists v, index_usize m i = Ok v /\ le t v = true.
  Proof.
    intros Hwf i. destruct (ss_threshold_ok le C m t Hwf) as [_ H]. rewrite H. split.
    - intros (r & c & v & Hr & Hc & -> & Hg & Ht). split.
      + exact (offset_lt C m r c Hr Hc).
      + exists v. split; auto. destruct (argmax_offset m r c Hr) as [E1 E2].
        unfold offset in E2. cbn [fst snd] in E2. rewrite E2. exact Hg.
    - intros (Hi & v & Hv & Ht). unfold index_usize in Hv.
      destruct (length m) as [|R'] eqn:ER; [discriminate|]. set (R := S R') in *.
      destruct (get_ok_range C m _ _ _ Hwf Hv) as [Hr Hc].
      rewrite ER in Hr. exists (i mod R), (i / R), v. repeat split; auto.
      rewrite Nat.mul_comm. apply Nat.div_mod. unfold R. lia.
  Qed.

  (* ---------- linear Scores ---------- *)

  Theorem lin_argmax_ok (l : list T) :
    Forall good l ->
    exists o, lin_argmax le l = Ok o /\
      match o with
      | None => l = []
      | Some i => exists v, nth_error l i = Some v /\ forall x, In x l -> le x v = true
      end.
  Proof.
    intros Hg. destruct (lin_best_ok le good PO l Hg) as (o & Ho & Hs).
    unfold lin_argmax. rewrite Ho. cbn [rbind]. eexists. split; [reflexivity|].
    destruct o as [[i v]|]; cbn [option_map fst lin_spec] in *; eauto.
  Qed.

  Theorem lin_max_ok (l : list T) :
    Forall good l ->
    exists o, lin_max le l = Ok o /\
      match o with
      | None => l = []
      | Some v => In v l /\ forall x, In x l -> le x v = true
      end.
  Proof.
    intros Hg. destruct (lin_best_ok le good PO l Hg) as (o & Ho & Hs).
    unfold lin_max. rewrite Ho. cbn [rbind]. eexists. split; [reflexivity|].
    destruct o as [[i v]|]; cbn [option_map snd lin_spec] in *; auto.
    destruct Hs as [Hn Hub]. split; auto. eapply nth_error_In; eauto.
  Qed.

  Lemma lin_thrN_thr (t : T) : forall l i, lin_thrN le t (N.of_nat i) l = map N.of_nat (lin_thr le t i l).
  Proof.
    induction l as [|x l IH]; intros i; cbn [lin_thrN lin_thr map]; auto.
    rewrite map_app, <- IH, Nat2N.inj_succ. destruct (le t x); reflexivity.
  Qed.

  Theorem lin_thresholdN_agree (t : T) (l : list T) :
    lin_thresholdN le t l = map N.of_nat (lin_threshold le t l).
  Proof. exact (lin_thrN_thr t l 0). Qed.

  (* ---------- the padding claim, order part ---------- *)

  (* If every cell whose column-major index is >= V holds -inf and some valid cell is
     not below -inf, then a maximum of the whole matrix is held by a valid position and
     is the maximum over the valid positions; an arg-maximum designates a valid position. *)
  Theorem padding_max (C V : nat) (m : matrix) (v : T) :
    wf C m ->
    (forall i, V <= i -> i < length m * C -> index_usize m i = Ok ninf) ->
    (exists i x, i < V /\ index_usize m i = Ok x /\ le x ninf = false) ->
    is_max le m v ->
    (exists i, i < V /\ index_usize m i = Ok v) /\
    (forall j y, j < V -> index_usize m j = Ok y -> le y v = true).
  Proof.
    intros Hwf Hpad (i0 & x & Hi0 & Hx & Hxn) [Hin Hub]. split.
    - destruct (in_cells_index C m v Hwf Hin) as (i & Hi & Hv).
      exists i. split; auto.
      destruct (Nat.lt_ge_cases i V) as [|Hge]; auto. exfalso.
      rewrite (Hpad i Hge Hi) in Hv. inversion Hv; subst v.
      rewrite (Hub x) in Hxn; [discriminate|]. eapply index_usize_in_cells; eauto.
    - intros j y _ Hy. apply Hub. eapply index_usize_in_cells; eauto.
  Qed.

  Theorem padding_argmax (C V : nat) (m : matrix) (rc : coord) :
    wf C m ->
    (forall i, V <= i -> i < length m * C -> index_usize m i = Ok ninf) ->
    (exists i x, i < V /\ index_usize m i = Ok x /\ le x ninf = false) ->
    argmax_spec le C m (Some rc) ->
    offset m rc < V.
  Proof.
    intros Hwf Hpad (i0 & x & Hi0 & Hx & Hxn) (_ & Hr & Hc & v & Hv & Hub).
    destruct rc as [r c]. cbn [fst snd] in *.
    destruct (Nat.lt_ge_cases (offset m (r, c)) V) as [|Hge]; auto. exfalso.
    destruct (argmax_offset m r c Hr) as [_ E].
    rewrite (Hpad _ Hge (offset_lt C m r c Hr Hc)) in E. rewrite Hv in E. inversion E; subst v.
    rewrite (Hub x) in Hxn; [discriminate|]. eapply index_usize_in_cells; eauto.
  Qed.

  (* ---------- the extracted checker ---------- *)

  Definition Holds_C07 (C : nat) (m : matrix) (t : T) (omax : option T) (oam : option coord)
             (reported : list coord) : Prop :=
    max_holds le m omax /\ argmax_spec le C m oam /\ threshold_spec le m t reported.

  Lemma check_argmax_sound_wf (C : nat) (m : matrix) (o : option coord) :
    wf C m -> check_argmax le m o = true -> argmax_spec le C m o.
  Proof.
    intros Hwf H. apply check_argmax_sound in H. destruct o as [rc|]; cbn [argmax_holds argmax_spec] in *; auto.
    destruct H as [Hne Ham]. destruct Ham as (v & Hv & Hub) eqn:E.
    destruct (get_ok_range C m _ _ _ Hwf Hv) as [Hr Hc]. repeat split; auto.
  Qed.

  Theorem check_C07_sound (C : nat) (m : matrix) (t : T) omax oam reported sorted :
    wf C m -> Permutation reported sorted ->
    check_C07 le m t omax oam sorted = true -> Holds_C07 C m t omax oam reported.
  Proof.
    intros Hwf Hp H. unfold check_C07 in H.
    apply andb_true_iff in H. destruct H as [H H3]. apply andb_true_iff in H. destruct H as [H1 H2].
    split; [|split].
    - apply check_max_sound; auto.
    - apply check_argmax_sound_wf; auto.
    - eapply check_threshold_sound; eauto.
  Qed.

  (* the generic model passes its own checker: the property theorem in executable form *)
  Theorem model_passes_C07 (C : nat) (m : matrix) (t : T) :
    0 < C -> wf C m -> all_good good m ->
    exists omax oam, max_generic le m = Ok omax /\ argmax_generic le m = Ok oam /\
      check_C07 le m t omax oam (threshold_generic le m t) = true.
  Proof.
    intros HC Hwf Hg.
    destruct (max_generic_ok le good PO C m HC Hwf Hg) as (omax & Hm & Sm).
    destruct (argmax_generic_ok le good PO C m HC Hwf Hg) as (oam & Ha & Sa).
    exists omax, oam. repeat split; auto. unfold check_C07.
    rewrite (check_max_complete le good PO m omax Hg Sm), (check_argmax_complete le C m oam Sa).
    unfold check_threshold. rewrite coords_eqb_refl. reflexivity.
  Qed.

  (* any answers meeting the specifications pass the checker (no false alarm) *)
  Theorem check_C07_complete (C : nat) (m : matrix) (t : T) omax oam :
    all_good good m -> max_spec le m omax -> argmax_spec le C m oam ->
    check_C07 le m t omax oam (threshold_generic le m t) = true.
  Proof.
    intros Hg Sm Sa. unfold check_C07.
    rewrite (check_max_complete le good PO m omax Hg Sm), (check_argmax_complete le C m oam Sa).
    unfold check_threshold. rewrite coords_eqb_refl. reflexivity.
  Qed.

End Top.

(* ---------- u8 dispatcher ---------- *)

Section TopU8.
  Local Open Scope Z_scope.

  Definition rows_fit16 (m : zmatrix) : Prop := (N.of_nat (length m) <= 65536)%N.

  Theorem dispatch_argmax_u8_ok (a : arm) (m : zmatrix) :
    wf 32%nat m -> u8_matrix m -> rows_fit16 m ->
    exists o, dispatch_argmax_u8 a m = Ok o /\ argmax_spec Z.leb 32%nat m o.
  Proof.
    intros Hwf Hu Hr. destruct a; cbn [dispatch_argmax_u8].
    - apply (argmax_generic_ok Z.leb zgood zle_preorder 32%nat m); auto using zall_good. lia.
    - apply (argmax_generic_ok Z.leb zgood zle_preorder 32%nat m); auto using zall_good. lia.
    - apply argmax_u8_avx2_ok; auto.
  Qed.

  Theorem dispatch_argmax_u8_guard (m : zmatrix) :
    (65536 < N.of_nat (length m))%N -> dispatch_argmax_u8 AAvx2 m = Panic 21.
  Proof. intros H. apply N.ltb_lt in H. cbn [dispatch_argmax_u8]. unfold argmax_u8_avx2. rewrite H. reflexivity. Qed.

  Theorem dispatch_max_u8_ok (a : arm) (m : zmatrix) :
    wf 32%nat m -> u8_matrix m ->
    exists o, dispatch_max_u8 a m = Ok o /\ max_spec Z.leb m o.
  Proof.
    intros Hwf Hu. destruct a; cbn [dispatch_max_u8].
    - apply (max_generic_ok Z.leb zgood zle_preorder 32%nat m); auto using zall_good. lia.
    - apply (max_generic_ok Z.leb zgood zle_preorder 32%nat m); auto using zall_good. lia.
    - apply max_u8_avx2_ok; auto.
  Qed.

  (* on integers, equal values are equal *)
  Theorem dispatch_max_u8_agree (a b : arm) (m : zmatrix) :
    wf 32%nat m -> u8_matrix m ->
    exists o, dispatch_max_u8 a m = Ok o /\ dispatch_max_u8 b m = Ok o.
  Proof.
    intros Hwf Hu.
    destruct (dispatch_max_u8_ok a m Hwf Hu) as (o1 & H1 & S1).
    destruct (dispatch_max_u8_ok b m Hwf Hu) as (o2 & H2 & S2).
    exists o1. split; auto. rewrite H2. f_equal.
    pose proof (max_spec_agree Z.leb m o1 o2 S1 S2) as H.
    destruct o1 as [v|], o2 as [w|]; try contradiction; auto.
    destruct H as [Ha Hb]. apply Z.leb_le in Ha, Hb. f_equal. lia.
  Qed.
End TopU8.

(* ---------- the padding claim, arithmetic part ---------- *)

Section Padding.
  Context {T : Type}.
  Variable add : T -> T -> T.
  Variable zero : T.
  Variable ninf : T.
  Variable dflt : T.
  Variable wild : nat.
  Variable okv : T -> bool.
  Hypothesis Hadd_r : forall x, okv x = true -> add x ninf = ninf.
  Hypothesis Hadd_l : forall x, okv x = true -> add ninf x = ninf.

  Lemma fold_from_ninf : forall l, prefix_ok add okv ninf l = true -> fold_left add l ninf = ninf.
  Proof.
    induction l as [|x l IH]; cbn [prefix_ok fold_left]; auto.
    intros H. apply andb_true_iff in H. destruct H as [_ H]. apply andb_true_iff in H. destruct H as [Hx H].
    rewrite (Hadd_l x Hx) in *. auto.
  Qed.

  Lemma fold_hits_ninf : forall l1 l2 acc,
    prefix_ok add okv acc (l1 ++ ninf :: l2) = true -> fold_left add (l1 ++ ninf :: l2) acc = ninf.
  Proof.
    induction l1 as [|x l1 IH]; intros l2 acc H; cbn [app prefix_ok fold_left] in *.
    - apply andb_true_iff in H. destruct H as [Ha H]. apply andb_true_iff in H. destruct H as [_ H].
      rewrite (Hadd_r acc Ha) in *. apply fold_from_ninf; auto.
    - apply andb_true_iff in H. destruct H as [Ha H]. apply andb_true_iff in H. destruct H as [_ H].
      apply IH; auto.
  Qed.

  (* a window that reaches past the end of the sequence reads the wildcard, whose column is
     -inf: the defined score is -inf as long as no term / partial sum is NaN or +inf *)
  Theorem padding_score_ninf (pssm : list (list T)) (s : list nat) (i : nat) :
    (forall row, In row pssm -> nth wild row dflt = ninf) ->
    0 < length pssm -> length s < i + length pssm ->
    terms_ok add zero wild dflt okv pssm s i = true ->
    score_def add zero wild dflt pssm s i = ninf.
  Proof.
    intros Hw HM HL Hok. unfold score_def, terms_ok in *.
    assert (Hin : In ninf (terms wild dflt pssm s i)).
    { remember (length pssm - 1) as j eqn:Ej.
      destruct (nth_error pssm j) as [row|] eqn:Er; [|apply nth_error_None in Er; lia].
      unfold terms. apply in_map_iff. exists (j, row). split.
      - cbn [fst snd]. unfold sym. rewrite (nth_overflow s wild) by lia. apply Hw. eapply nth_error_In; eauto.
      - apply in_enumerate; auto. }
    apply in_split in Hin. destruct Hin as (l1 & l2 & E). rewrite E in *.
    apply fold_hits_ninf; auto.
  Qed.

  (* cells = defined scores (property C01)  ==>  every cell past the last valid position is -inf *)
  Theorem padding_cells (C : nat) (m : @matrix T) (pssm : list (list T)) (s : list nat) :
    (forall i, i < length m * C -> index_usize m i = Ok (score_def add zero wild dflt pssm s i)) ->
    (forall row, In row pssm -> nth wild row dflt = ninf) ->
    0 < length pssm ->
    (forall i, i < length m * C -> terms_ok add zero wild dflt okv pssm s i = true) ->
    forall i, length s < i + length pssm -> i < length m * C -> index_usize m i = Ok ninf.
  Proof.
    intros Hcell Hw HM Hok i HL Hi. rewrite (Hcell i Hi). f_equal.
    apply padding_score_ninf; auto.
  Qed.

  (* the executable padding check used by the driver is sound *)
  Theorem check_padding_sound (is_ninf : T -> bool) (m : @matrix T) (V n : nat) :
    check_padding is_ninf m V n = true ->
    forall i, V <= i -> i < n -> exists x, index_usize m i = Ok x /\ is_ninf x = true.
  Proof.
    unfold check_padding. intros H i Hv Hn. rewrite forallb_forall in H.
    specialize (H i). destruct (index_usize m i) as [x| | |].
    - exists x. split; auto. apply H. apply in_seq. lia.
    - assert (false = true) by (apply H; apply in_seq; lia). discriminate.
    - assert (false = true) by (apply H; apply in_seq; lia). discriminate.
    - assert (false = true) by (apply H; apply in_seq; lia). discriminate.
  Qed.
End Padding.

(* ---------- the order facts the kernels rely on, as one record ---------- *)

Record order_facts {T : Type} (good : T -> Prop) (le lt : T -> T -> bool)
       (vmax smax : T -> T -> T) (ninf : T) : Prop := {
  of_preorder : preorder_on good le;                                         (* <= is a total preorder *)
  of_lt : forall a b, good a -> good b -> lt a b = negb (le b a);             (* a < b  iff  not (b <= a) *)
  of_vmax : maxlike le good vmax;                                             (* _mm256_max_ps *)
  of_smax : maxlike le good smax;                                             (* f32::max *)
  of_ninf_good : good ninf;
  of_ninf_bot : forall x, good x -> le ninf x = true                          (* -inf is the least value *)
}.

Theorem f32_order_facts : order_facts f32_good F32.le F32.lt F32.max_x86 F32.max F32.ninf.
Proof.
  split.
  - exact f32_preorder.
  - exact f32_lt_negb_le.
  - exact f32_max_x86_maxlike.
  - exact f32_max_maxlike.
  - exact f32_ninf_good.
  - exact f32_ninf_bottom.
Qed.

(* ---------- StripedScores::unstripe / iter: the linear view of a striped matrix ---------- *)

Section Unstripe.
  Context {T : Type}.
  Notation matrix := (@matrix T).

  Lemma nth_error_flat_blocks {X} (f : nat -> list X) (n : nat) : forall B s b j,
    (forall b, b < B -> length (f (s + b)) = n) -> b < B -> j < n ->
    nth_error (flat_map f (seq s B)) (b * n + j) = nth_error (f (s + b)) j.
  Proof.
    induction B as [|B IH]; intros s b j Hlen Hb Hj; [lia|].
    cbn [seq flat_map]. destruct b as [|b].
    - rewrite Nat.add_0_r. simpl. rewrite nth_error_app1; auto.
      specialize (Hlen 0). rewrite Nat.add_0_r in Hlen. rewrite Hlen; lia.
    - assert (H0 : length (f s) = n) by (specialize (Hlen 0); rewrite Nat.add_0_r in Hlen; apply Hlen; lia).
      rewrite nth_error_app2 by (rewrite H0; simpl; lia).
      replace (S b * n + j - length (f s)) with (b * n + j) by (rewrite H0; simpl; lia).
      rewrite IH; auto; try lia.
      + f_equal. f_equal. lia.
      + intros b' Hb'. replace (S s + b') with (s + S b') by lia. apply Hlen. lia.
  Qed.

  Lemma length_flat_blocks {X} (f : nat -> list X) (n : nat) : forall B s,
    (forall b, b < B -> length (f (s + b)) = n) -> length (flat_map f (seq s B)) = B * n.
  Proof.
    induction B as [|B IH]; intros s Hlen; [reflexivity|].
    cbn [seq flat_map]. rewrite app_length, IH.
    - specialize (Hlen 0). rewrite Nat.add_0_r in Hlen. rewrite Hlen; simpl; lia.
    - intros b Hb. replace (S s + b) with (s + S b) by lia. apply Hlen. lia.
  Qed.

  Lemma somes_all_some : forall (l : list (option T)),
    (forall o, In o l -> o <> None) -> map Some (somes l) = l.
  Proof.
    induction l as [|[x|] l IH]; intros H; cbn [somes map]; auto.
    - f_equal. apply IH. intros o Ho. apply H. right; auto.
    - exfalso. apply (H None); [left|]; auto.
  Qed.

  Lemma column_length (c : nat) (m : matrix) : length (column c m) = length m.
  Proof. unfold column. apply map_length. Qed.

  Lemma nth_error_column (c : nat) (m : matrix) r row :
    nth_error m r = Some row -> nth_error (column c m) r = Some (nth_error row c).
  Proof. intros H. unfold column. apply (map_nth_error (fun row => nth_error row c) r m H). Qed.

  Theorem unstripe_spec (C max_index : nat) (m : matrix) :
    wf C m ->
    length (unstripe C max_index m) = Nat.min max_index (length m * C) /\
    forall i, i < Nat.min max_index (length m * C) ->
      exists x, nth_error (unstripe C max_index m) i = Some x /\ index_usize m i = Ok x.
  Proof.
    intros Hwf. unfold unstripe.
    set (F := flat_map (fun c => column c m) (seq 0 C)).
    assert (HlenF : length F = C * length m).
    { apply (length_flat_blocks (fun c => column c m) (length m)). intros; apply column_length. }
    assert (Hall : forall o, In o F -> o <> None).
    { intros o Ho. apply in_flat_map in Ho. destruct Ho as (c & Hc & Ho). apply in_seq in Hc.
      unfold column in Ho. apply in_map_iff in Ho. destruct Ho as (row & <- & Hrow).
      unfold wf in Hwf. rewrite Forall_forall in Hwf. specialize (Hwf row Hrow).
      intros E. apply nth_error_None in E. lia. }
    pose proof (somes_all_some F Hall) as HS.
    assert (HlenS : length (somes F) = length m * C).
    { rewrite <- (map_length Some), HS, HlenF. lia. }
    split.
    - rewrite firstn_length, HlenS. lia.
    - intros i Hi.
      assert (HiR : i < length m * C) by lia.
      destruct (length m) as [|R'] eqn:ER; [lia|]. set (R := S R') in *.
      assert (Hd : i = (i / R) * R + i mod R) by (rewrite Nat.mul_comm; apply Nat.div_mod; lia).
      assert (Hr : i mod R < R) by (apply Nat.mod_upper_bound; lia).
      assert (Hc : i / R < C) by (apply Nat.div_lt_upper_bound; lia).
      destruct (nth_error m (i mod R)) as [row|] eqn:Erow; [|apply nth_error_None in Erow; lia].
      assert (Hlr : length row = C).
      { unfold wf in Hwf. rewrite Forall_forall in Hwf. apply Hwf. eapply nth_error_In; eauto. }
      destruct (nth_error row (i / R)) as [x|] eqn:Ex; [|apply nth_error_None in Ex; lia].
      assert (HF : nth_error F i = Some (Some x)).
      { rewrite Hd. unfold F.
        rewrite (nth_error_flat_blocks (fun c => column c m) R C 0 (i / R) (i mod R)); auto.
        - cbn [Nat.add]. rewrite (nth_error_column (i / R) m (i mod R) row Erow), Ex. reflexivity.
        - intros b _. rewrite column_length. exact ER. }
      exists x. split.
      + rewrite nth_error_firstn by lia.
        rewrite <- HS in HF. rewrite nth_error_map in HF.
        destruct (nth_error (somes F) i); cbn in HF; congruence.
      + unfold index_usize. rewrite ER. subst R. cbv beta iota. unfold get. rewrite Erow, Ex. reflexivity.
  Qed.
End Unstripe.

(* linear Scores of the unstriped matrix speak about the positions below
   min(max_index, rows * C) of the striped matrix *)
Section LinearOfStriped.
  Context {T : Type}.
  Variable le : T -> T -> bool.
  Variable good : T -> Prop.
  Hypothesis PO : preorder_on good le.
  Notation matrix := (@matrix T).

  Lemma unstripe_good (C max_index : nat) (m : matrix) :
    wf C m -> all_good good m -> Forall good (unstripe C max_index m).
  Proof.
    intros Hwf Hg. destruct (unstripe_spec C max_index m Hwf) as [Hlen Hnth].
    apply Forall_forall. intros x Hx. apply In_nth_error in Hx. destruct Hx as [i Hi].
    assert (Hlt : i < length (unstripe C max_index m)) by (apply nth_error_Some; congruence).
    rewrite Hlen in Hlt. destruct (Hnth i Hlt) as (y & Hy & Hidx). rewrite Hi in Hy. inversion Hy; subst y.
    unfold all_good in Hg. rewrite Forall_forall in Hg. apply Hg. eapply index_usize_in_cells; eauto.
  Qed.

  Theorem linear_of_striped (C max_index : nat) (m : matrix) (t : T) :
    wf C m -> all_good good m ->
    let n := Nat.min max_index (length m * C) in
    let l := unstripe C max_index m in
    (exists o, lin_argmax le l = Ok o /\
       match o with
       | None => n = 0
       | Some i => i < n /\ exists v, index_usize m i = Ok v /\
                   forall j y, j < n -> index_usize m j = Ok y -> le y v = true
       end) /\
    (exists o, lin_max le l = Ok o /\
       match o with
       | None => n = 0
       | Some v => (exists i, i < n /\ index_usize m i = Ok v) /\
                   forall j y, j < n -> index_usize m j = Ok y -> le y v = true
       end) /\
    (forall k, In k (lin_threshold le t l) <-> k < n /\ exists v, index_usize m k = Ok v /\ le t v = true).
  Proof.
    intros Hwf Hg n l.
    destruct (unstripe_spec C max_index m Hwf) as [Hlen Hnth]. fold n l in Hlen, Hnth.
    pose proof (unstripe_good C max_index m Hwf Hg) as Hgl. fold l in Hgl.
    assert (Hin : forall j y, j < n -> index_usize m j = Ok y -> In y l).
    { intros j y Hj Hy. destruct (Hnth j Hj) as (x & Hx & Hidx). rewrite Hy in Hidx. inversion Hidx; subst.
      eapply nth_error_In; eauto. }
    split; [|split].
    - destruct (lin_argmax_ok le good PO l Hgl) as (o & Ho & Hs). exists o. split; auto.
      destruct o as [i|].
      + destruct Hs as (v & Hv & Hub).
        assert (Hi : i < n) by (rewrite <- Hlen; apply nth_error_Some; congruence).
        split; auto. destruct (Hnth i Hi) as (x & Hx & Hidx). rewrite Hv in Hx. inversion Hx; subst x.
        exists v. split; auto. intros j y Hj Hy. apply Hub. eapply Hin; eauto.
      + rewrite <- Hlen, Hs. reflexivity.
    - destruct (lin_max_ok le good PO l Hgl) as (o & Ho & Hs). exists o. split; auto.
      destruct o as [v|].
      + destruct Hs as [Hv Hub]. split.
        * apply In_nth_error in Hv. destruct Hv as [i Hi].
          assert (Hlt : i < n) by (rewrite <- Hlen; apply nth_error_Some; congruence).
          destruct (Hnth i Hlt) as (x & Hx & Hidx). rewrite Hi in Hx. inversion Hx; subst x. eauto.
        * intros j y Hj Hy. apply Hub. eapply Hin; eauto.
      + rewrite <- Hlen, Hs. reflexivity.
    - intros k. destruct (lin_threshold_ok le l t) as [_ Hth]. rewrite Hth. split.
      + intros (v & Hv & Ht).
        assert (Hk : k < n) by (rewrite <- Hlen; apply nth_error_Some; congruence).
        split; auto. destruct (Hnth k Hk) as (x & Hx & Hidx). rewrite Hv in Hx. inversion Hx; subst x. eauto.
      + intros (Hk & v & Hv & Ht). destruct (Hnth k Hk) as (x & Hx & Hidx).
        rewrite Hv in Hidx. inversion Hidx; subst x. eauto.
  Qed.
End LinearOfStriped.

(* ---------- the end-to-end padding checker is sound ---------- *)

Section PaddingCheck.
  Context {T : Type}.
  Variable le : T -> T -> bool.
  Notation matrix := (@matrix T).

  Lemma in_somes (l : list (option T)) x : In x (somes l) <-> In (Some x) l.
  Proof.
    induction l as [|[y|] l IH]; cbn [somes In].
    - tauto.
    - rewrite IH. split; intros [H|H]; auto; left; congruence.
    - rewrite IH. split; auto. intros [H|H]; [discriminate|auto].
  Qed.

  Lemma in_valid_cells (m : matrix) (V : nat) x :
    In x (valid_cells m V) <-> exists i, i < V /\ index_usize m i = Ok x.
  Proof.
    unfold valid_cells. rewrite in_somes, in_map_iff. split.
    - intros (i & Hc & Hi). apply in_seq in Hi. exists i. split; [lia|].
      unfold cell_at in Hc. destruct (index_usize m i); congruence.
    - intros (i & Hi & Hc). exists i. split; [unfold cell_at; rewrite Hc; reflexivity|apply in_seq; lia].
  Qed.

  (* what a passing check establishes, in terms of positions of the matrix *)
  Definition padding_holds (is_ninf is_fin : T -> bool) (m : matrix) (V n : nat)
             (omax : option T) (oam : option nat) : Prop :=
    (forall i, V <= i -> i < n -> exists x, index_usize m i = Ok x /\ is_ninf x = true) /\
    ((exists i x, i < V /\ index_usize m i = Ok x /\ is_fin x = true) ->
     (exists v, omax = Some v /\
        (exists i x, i < V /\ index_usize m i = Ok x /\ le x v = true /\ le v x = true) /\
        (forall j y, j < V -> index_usize m j = Ok y -> le y v = true)) /\
     (exists off, oam = Some off /\ off < V)).

  Theorem check_padding_max_sound (is_ninf is_fin : T -> bool) (m : matrix) (V n : nat) omax oam :
    check_padding_max le is_ninf is_fin m V n omax oam = true ->
    padding_holds is_ninf is_fin m V n omax oam.
  Proof.
    unfold check_padding_max. intros H. apply andb_true_iff in H. destruct H as [Hp H]. split.
    - exact (check_padding_sound is_ninf m V n Hp).
    - intros (i0 & x0 & Hi0 & Hx0 & Hf0).
      assert (Hex : existsb is_fin (valid_cells m V) = true).
      { apply existsb_exists. exists x0. split; auto. apply in_valid_cells. eauto. }
      rewrite Hex in H. apply andb_true_iff in H. destruct H as [Hm Ha]. split.
      + apply check_max_sound in Hm. destruct omax as [v|]; cbn [max_holds] in Hm; [|discriminate].
        destruct Hm as (_ & (x & Hx & Hle1 & Hle2) & Hub).
        unfold cells in Hx, Hub. cbn [concat] in Hx, Hub. rewrite app_nil_r in Hx, Hub.
        exists v. split; auto. split.
        * apply in_valid_cells in Hx. destruct Hx as (i & Hi & Hc). exists i, x. auto.
        * intros j y Hj Hy. apply Hub. apply in_valid_cells. eauto.
      + destruct oam as [off|]; [|discriminate]. exists off. split; auto. apply Nat.ltb_lt. exact Ha.
  Qed.

  (* no false alarm: under the conclusion of the padding theorem, answers meeting their
     specifications pass the check *)
  Variable good : T -> Prop.
  Hypothesis PO : preorder_on good le.

  Theorem check_padding_max_complete (is_ninf is_fin : T -> bool) (ninf : T) (C : nat) (m : matrix) (V : nat)
          (omax : option T) (o : option coord) :
    wf C m -> all_good good m ->
    is_ninf ninf = true -> (forall x, is_fin x = true -> le x ninf = false) ->
    (forall i, V <= i -> i < length m * C -> index_usize m i = Ok ninf) ->
    max_spec le m omax -> argmax_spec le C m o ->
    check_padding_max le is_ninf is_fin m V (length m * C) omax (option_map (offset m) o) = true.
  Proof.
    intros Hwf Hg Hn Hfin Hpad Hmax Ham. unfold check_padding_max. apply andb_true_iff. split.
    - unfold check_padding. apply forallb_forall. intros i Hi. apply in_seq in Hi.
      rewrite (Hpad i) by lia. exact Hn.
    - destruct (existsb is_fin (valid_cells m V)) eqn:Hex; auto.
      apply existsb_exists in Hex. destruct Hex as (x0 & Hx0 & Hf0).
      apply in_valid_cells in Hx0. destruct Hx0 as (i0 & Hi0 & Hc0).
      assert (Hexv : exists i x, i < V /\ index_usize m i = Ok x /\ le x ninf = false).
      { exists i0, x0. auto. }
      assert (Hne : m <> []).
      { intros ->. unfold index_usize in Hc0. discriminate. }
      apply andb_true_iff. split.
      + destruct omax as [v|]; cbn [max_spec] in Hmax; [|contradiction].
        destruct Hmax as [_ Hv].
        destruct (padding_max le ninf C V m v Hwf Hpad Hexv Hv) as [(i & Hi & Hc) Hub].
        unfold check_max. destruct (valid_cells m V) as [|y l] eqn:El.
        { exfalso. assert (Hin : In v (valid_cells m V)) by (apply in_valid_cells; eauto).
          rewrite El in Hin. destruct Hin. }
        rewrite <- El. apply andb_true_iff. split.
        * apply existsb_exists. exists v. split.
          -- unfold cells. cbn [concat]. rewrite app_nil_r. apply in_valid_cells. eauto.
          -- assert (Hgv : good v).
             { unfold all_good in Hg. rewrite Forall_forall in Hg. apply Hg. exact (proj1 Hv). }
             rewrite (po_refl _ _ PO v Hgv). reflexivity.
        * unfold all_le, cells. cbn [concat]. rewrite app_nil_r. apply forallb_forall.
          intros y' Hy'. apply in_valid_cells in Hy'. destruct Hy' as (j & Hj & Hcj). eapply Hub; eauto.
      + destruct o as [rc|]; cbn [argmax_spec option_map] in *; [|contradiction].
        apply Nat.ltb_lt. exact (padding_argmax le ninf C V m rc Hwf Hpad Hexv Ham).
  Qed.
End PaddingCheck.

(* ---------- bridge to property C01 ----------
   C01_score_generic_cell (coq/score) states every cell of the score matrix of any backend as
     nth c (nth r mat []) zero =
       fold_left add (map (fun j => nth (nth (c*R + r + j) s (K-1)) (nth j pssm []) zero) (seq 0 M)) zero.
   That formula is exactly the hypothesis "cell = defined score" of the padding theorem
   (wildcard K-1, default cell value zero); the groups are not linked at the Coq level. *)
Section BridgeC01.
  Context {T : Type}.
  Variable add : T -> T -> T.
  Variable zero : T.

  Lemma map_enum_seq {A B} (g : nat -> A -> B) (d : A) : forall (l : list A) (a : nat),
    map (fun jr => g (fst jr) (snd jr)) (combine (seq a (length l)) l) =
    map (fun j => g j (nth (j - a) l d)) (seq a (length l)).
  Proof.
    induction l as [|x l IH]; intros a; cbn [length seq combine map]; auto. f_equal.
    - rewrite Nat.sub_diag. reflexivity.
    - rewrite IH. apply map_ext_in. intros j Hj. apply in_seq in Hj.
      replace (j - a) with (S (j - S a)) by lia. reflexivity.
  Qed.

  Lemma terms_seq_form (wild : nat) (dflt : T) (pssm : list (list T)) (s : list nat) (i : nat) :
    terms wild dflt pssm s i =
    map (fun j => nth (nth (i + j) s wild) (nth j pssm []) dflt) (seq 0 (length pssm)).
  Proof.
    unfold terms, enumerate, sym.
    rewrite (map_enum_seq (fun j row => nth (nth (i + j) s wild) row dflt) [] pssm 0).
    apply map_ext. intros j. rewrite Nat.sub_0_r. reflexivity.
  Qed.

  Theorem cells_from_C01_shape (C K : nat) (m : @matrix T) (pssm : list (list T)) (s : list nat) :
    wf C m ->
    (forall r c, r < length m -> c < C ->
       nth c (nth r m []) zero =
       fold_left add (map (fun j => nth (nth (c * length m + r + j) s (K - 1)) (nth j pssm []) zero)
                          (seq 0 (length pssm))) zero) ->
    forall i, i < length m * C ->
      index_usize m i = Ok (score_def add zero (K - 1) zero pssm s i).
  Proof.
    intros Hwf Hcell i Hi. unfold index_usize.
    destruct (length m) as [|R'] eqn:ER; [lia|]. set (R := S R') in *.
    assert (Hr : i mod R < R) by (apply Nat.mod_upper_bound; unfold R; lia).
    assert (Hc : i / R < C) by (apply Nat.div_lt_upper_bound; unfold R; lia).
    assert (Hd : i = (i / R) * R + i mod R) by (rewrite Nat.mul_comm; apply Nat.div_mod; unfold R; lia).
    unfold get.
    destruct (nth_error m (i mod R)) as [row|] eqn:Erow; [|apply nth_error_None in Erow; lia].
    assert (Hlr : length row = C).
    { unfold wf in Hwf. rewrite Forall_forall in Hwf. apply Hwf. eapply nth_error_In; eauto. }
    destruct (nth_error row (i / R)) as [x|] eqn:Ex; [|apply nth_error_None in Ex; lia].
    f_equal. unfold score_def. rewrite terms_seq_form.
    assert (Hx : x = nth (i / R) (nth (i mod R) m []) zero).
    { rewrite (nth_error_nth _ _ [] Erow). symmetry. apply nth_error_nth. exact Ex. }
    rewrite Hx, (Hcell (i mod R) (i / R)) by (rewrite ?ER; auto). fold R. rewrite <- Hd. reflexivity.
  Qed.
End BridgeC01.

(* ---------- the cheaply evaluated f32 kernels are the kernels ---------- *)

Section FastKernels.
  Context {T : Type}.
  Variable le : T -> T -> bool.
  Variable lt : T -> T -> bool.
  Variable ninf : T.

  Lemma fold_left_ext_in {A B} (f g : A -> B -> A) (l : list B) :
    (forall a x, In x l -> f a x = g a x) -> forall a, fold_left f l a = fold_left g l a.
  Proof.
    induction l as [|x l IH]; intros H a; cbn [fold_left]; auto.
    rewrite (H a x (or_introl eq_refl)). apply IH. intros a' y Hy. apply H. right; auto.
  Qed.

  Lemma vstep_id_eq (width : nat) (load : list T -> list (list T)) (st : @vstate T) (irow : nat * list T) :
    wrap32 (fst irow) = fst irow ->
    argmax_vstep le width load st irow = argmax_vstep_id le width load st irow.
  Proof. intros H. unfold argmax_vstep, argmax_vstep_id. destruct st as [s p]. rewrite H. reflexivity. Qed.

  Lemma fold_vstep_id (width : nat) (load : list T -> list (list T)) (m : list (list T)) (st : @vstate T) :
    rows_fit32b m = true ->
    fold_left (argmax_vstep le width load) (enumerate m) st =
    fold_left (argmax_vstep_id le width load) (enumerate m) st.
  Proof.
    intros Hfit. apply fold_left_ext_in. intros a [i row] Hin. apply vstep_id_eq. cbn [fst].
    apply wrap32_small. apply in_enumerate_lt in Hin.
    unfold rows_fit32b in Hfit. apply N.leb_le in Hfit. lia.
  Qed.

  Lemma argmax_f32_avx2_x_fast_eq (m : list (list T)) (row0 : list T) :
    argmax_f32_avx2_x_fast le m row0 = argmax_f32_avx2_x le m row0.
  Proof.
    unfold argmax_f32_avx2_x_fast. destruct (rows_fit32b m) eqn:E; auto.
    unfold argmax_f32_avx2_x. rewrite (fold_vstep_id 8 load4x8 m _ E). reflexivity.
  Qed.

  Lemma sse2_block_fast_eq (m : list (list T)) (off : nat) :
    sse2_block_fast le ninf m off = sse2_block le ninf m off.
  Proof.
    unfold sse2_block_fast. destruct (rows_fit32b m) eqn:E; auto.
    unfold sse2_block. rewrite (fold_vstep_id 4 (load4x4 off) m _ E). reflexivity.
  Qed.

  Theorem fast_kernels_eq (C : nat) (a : arm) (max_index : N) (m : list (list T)) :
    argmax_f32_avx2_fast le lt max_index m = argmax_f32_avx2 le lt max_index m /\
    argmax_sse2_fast le ninf C max_index m = argmax_sse2 le ninf C max_index m /\
    pipeline_sse2_max_fast le ninf C max_index m = pipeline_sse2_max le ninf C max_index m /\
    dispatch_argmax_f32_fast le lt ninf a max_index m = dispatch_argmax_f32 le lt ninf a max_index m.
  Proof.
    assert (H1 : forall mi, argmax_f32_avx2_fast le lt mi m = argmax_f32_avx2 le lt mi m).
    { intros mi. unfold argmax_f32_avx2_fast, argmax_f32_avx2. destruct m as [|row0 rest]; auto.
      rewrite argmax_f32_avx2_x_fast_eq. reflexivity. }
    assert (H2 : forall C' mi, argmax_sse2_fast le ninf C' mi m = argmax_sse2 le ninf C' mi m).
    { intros C' mi. unfold argmax_sse2_fast, argmax_sse2. destruct m as [|row0 rest]; auto.
      replace (flat_map (fun b => sse2_block_fast le ninf (row0 :: rest) (b * 16)) (seq 0 (C' / 16)))
        with (flat_map (fun b => sse2_block le ninf (row0 :: rest) (b * 16)) (seq 0 (C' / 16))); auto.
      apply flat_map_ext. intros b. symmetry. apply sse2_block_fast_eq. }
    split; [apply H1|]. split; [apply H2|]. split.
    - unfold pipeline_sse2_max_fast, pipeline_sse2_max. rewrite H2. reflexivity.
    - destruct a; cbn [dispatch_argmax_f32_fast dispatch_argmax_f32]; auto.
  Qed.
End FastKernels.
