(* Lemmas about the vectorised kernels (property C07): each register-level model is shown
   equal to a lane-wise ("flat", one lane per column) scan by symbolic evaluation on
   vectors of 32 / 16 named lanes, the flat scan is characterised lane by lane, and the
   scalar reduction over the columns is shown to pick a global maximum. *)
From Coq Require Import List Arith Bool NArith ZArith Lia Permutation.
From LMBase Require Import Res ListX.
From LMMaxi Require Import MaxiModel MaxiProofs.
Import ListNotations.

(* turn a list of known length into named lanes *)
Ltac explode l H :=
  repeat (destruct l as [|? l]; [discriminate H|]; simpl in H; apply eq_add_S in H);
  destruct l; [clear H|discriminate H].

(* ---------- vectors ---------- *)

Section Vec.
  Context {A B C : Type}.

  Lemma map2_length (f : A -> B -> C) : forall a b, length (map2 f a b) = Nat.min (length a) (length b).
  Proof. induction a; intros [|y b]; simpl; auto. Qed.

  Lemma nth_error_map2 (f : A -> B -> C) : forall a b j x y,
    nth_error a j = Some x -> nth_error b j = Some y -> nth_error (map2 f a b) j = Some (f x y).
  Proof.
    induction a as [|x0 a IH]; intros [|y0 b] [|j] x y Ha Hb; simpl in *; try discriminate.
    - inversion Ha; inversion Hb; subst; auto.
    - eauto.
  Qed.

  Lemma nth_error_combine : forall (a : list A) (b : list B) j x y,
    nth_error a j = Some x -> nth_error b j = Some y -> nth_error (combine a b) j = Some (x, y).
  Proof.
    induction a as [|x0 a IH]; intros [|y0 b] [|j] x y Ha Hb; simpl in *; try discriminate.
    - inversion Ha; inversion Hb; subst; auto.
    - eauto.
  Qed.

  Lemma fold_left_map_list (f : A -> C -> A) (h : B -> C) : forall l a,
    fold_left f (map h l) a = fold_left (fun a x => f a (h x)) l a.
  Proof. induction l; intros; simpl; auto. Qed.
End Vec.

Lemma nth_error_blendv {A} (a b : list A) (c : list bool) j x y m :
  nth_error a j = Some x -> nth_error b j = Some y -> nth_error c j = Some m ->
  nth_error (blendv a b c) j = Some (if m then y else x).
Proof.
  intros Ha Hb Hc. unfold blendv.
  rewrite (nth_error_map2 _ _ _ j (x, y) m); auto. apply nth_error_combine; auto.
Qed.

Lemma blendv_length {A} (a b : list A) c :
  length a = length b -> length a = length c -> length (blendv a b c) = length a.
Proof. intros H1 H2. unfold blendv. rewrite map2_length, combine_length. lia. Qed.

Lemma nth_error_skipn {A} : forall n (l : list A) i, nth_error (skipn n l) i = nth_error l (n + i).
Proof. induction n; intros [|x l] i; simpl; auto. destruct i; auto. Qed.

Lemma nth_error_firstn {A} : forall n (l : list A) i, i < n -> nth_error (firstn n l) i = nth_error l i.
Proof. induction n; intros [|x l] [|i] H; simpl; auto; try lia. apply IHn. lia. Qed.

Lemma nth_error_slice {A} off n (l : list A) j : j < n -> nth_error (slice off n l) j = nth_error l (off + j).
Proof. intros H. unfold slice. rewrite nth_error_firstn, nth_error_skipn; auto. Qed.

Lemma slice_length {A} off n (l : list A) : off + n <= length l -> length (slice off n l) = n.
Proof. intros H. unfold slice. rewrite firstn_length_le; auto. rewrite skipn_length. lia. Qed.

Lemma skipn_skipn' {A} : forall a b (l : list A), skipn a (skipn b l) = skipn (b + a) l.
Proof. intros a b; revert a. induction b; intros a l; simpl; auto. destruct l; simpl; auto. destruct a; auto. Qed.

Lemma slice_slice {A} off w a n (l : list A) : a + n <= w -> slice a n (slice off w l) = slice (off + a) n l.
Proof.
  intros H. unfold slice. replace w with (a + (w - a)) by lia.
  rewrite <- firstn_skipn_comm, firstn_firstn, skipn_skipn'.
  f_equal. lia.
Qed.

Lemma in_enumerate {A} (l : list A) i x : In (i, x) (enumerate l) <-> nth_error l i = Some x.
Proof.
  unfold enumerate. rewrite in_combine_seq, Nat.sub_0_r. split; [tauto|split; [lia|auto]].
Qed.

Lemma wrap32_small i : (N.of_nat i < 4294967296)%N -> wrap32 i = i.
Proof. intros H. unfold wrap32. apply N.ltb_lt in H. rewrite H. reflexivity. Qed.

Lemma two16_N : N.of_nat two16 = 65536%N.
Proof. unfold two16. rewrite Nat2N.inj_pow. reflexivity. Qed.

Lemma wrap16_small i : (N.of_nat i < 65536)%N -> wrap16 i = i.
Proof.
  intros H. unfold wrap16. destruct (Nat.leb_spec two16 i) as [Hle|Hlt]; auto.
  exfalso. pose proof two16_N as E. generalize dependent two16. intros t Hle E. lia.
Qed.

(* the stored lane is the row index modulo 2^32 / 2^16 (`i as i32` / `i as i16` read back unsigned) *)
Lemma wrap32_mod i : wrap32 i = N.to_nat (N.modulo (N.of_nat i) 4294967296).
Proof.
  unfold wrap32. destruct (N.ltb_spec (N.of_nat i) 4294967296) as [H|H]; auto.
  rewrite N.mod_small by exact H. symmetry. apply Nat2N.id.
Qed.

Lemma wrap16_mod i : wrap16 i = N.to_nat (N.modulo (N.of_nat i) 65536).
Proof.
  unfold wrap16. destruct (Nat.leb_spec two16 i) as [Hle|Hlt]; auto.
  assert (H : (N.of_nat i < 65536)%N).
  { pose proof two16_N as E. generalize dependent two16. intros t Hlt E. lia. }
  rewrite N.mod_small by exact H. symmetry. apply Nat2N.id.
Qed.

(* ---------- the lane-wise arg-max scan of the f32 kernels ---------- *)

Section FlatArgmax.
  Context {T : Type}.
  Variable le : T -> T -> bool.
  Variable good : T -> Prop.
  Hypothesis PO : preorder_on good le.

  Notation matrix := (@matrix T).

  (* all lanes at once *)
  Definition flat_step (n : nat) (st : list T * list nat) (irow : nat * list T) : list T * list nat :=
    let c := map2 le (fst st) (snd irow) in
    (blendv (fst st) (snd irow) c, blendv (snd st) (repeat (wrap32 (fst irow)) n) c).

  (* one lane: (running best, its row) *)
  Definition lstep (z : T * nat) (ix : nat * T) : T * nat :=
    if le (fst z) (snd ix) then (snd ix, wrap32 (fst ix)) else z.

  (* the values seen by lane j *)
  Definition lane (j : nat) (rows : list (nat * list T)) : list (nat * T) :=
    flat_map (fun ir => match nth_error (snd ir) j with Some x => [(fst ir, x)] | None => [] end) rows.

  Lemma flat_step_lane n S P i row j s p x :
    nth_error S j = Some s -> nth_error P j = Some p -> nth_error row j = Some x -> j < n ->
    nth_error (fst (flat_step n (S, P) (i, row))) j = Some (fst (lstep (s, p) (i, x))) /\
    nth_error (snd (flat_step n (S, P) (i, row))) j = Some (snd (lstep (s, p) (i, x))).
  Proof.
    intros HS HP Hr Hj. unfold flat_step, lstep. cbn [fst snd].
    assert (Hc : nth_error (map2 le S row) j = Some (le s x)) by (apply nth_error_map2; auto).
    split.
    - rewrite (nth_error_blendv S row _ j s x (le s x)); auto. destruct (le s x); auto.
    - rewrite (nth_error_blendv P _ _ j p (wrap32 i) (le s x)); auto.
      + destruct (le s x); auto.
      + apply nth_error_repeat; auto.
  Qed.

  Lemma flat_fold_lane n j : forall rows S P s p,
    nth_error S j = Some s -> nth_error P j = Some p -> j < n ->
    (forall ir, In ir rows -> j < length (snd ir)) ->
    nth_error (fst (fold_left (flat_step n) rows (S, P))) j = Some (fst (fold_left lstep (lane j rows) (s, p))) /\
    nth_error (snd (fold_left (flat_step n) rows (S, P))) j = Some (snd (fold_left lstep (lane j rows) (s, p))).
  Proof.
    induction rows as [|[i row] rows IH]; intros S P s p HS HP Hj Hl; simpl; auto.
    assert (Hlen : j < length row) by (apply (Hl (i, row)); simpl; auto).
    destruct (nth_error row j) as [x|] eqn:Ex; [|apply nth_error_None in Ex; lia].
    destruct (flat_step_lane n S P i row j s p x HS HP Ex Hj) as [H1 H2].
    destruct (flat_step n (S, P) (i, row)) as [S' P'] eqn:E. cbn [fst snd] in *.
    simpl. destruct (lstep (s, p) (i, x)) as [s' p'] eqn:E2. cbn [fst snd] in *.
    apply IH; auto. intros ir Hir. apply Hl. simpl. auto.
  Qed.

  Lemma in_lane j rows i x :
    In (i, x) (lane j rows) <-> exists row, In (i, row) rows /\ nth_error row j = Some x.
  Proof.
    unfold lane. rewrite in_flat_map. split.
    - intros ([i' row] & Hin & H). cbn [fst snd] in H. destruct (nth_error row j) eqn:E; [|destruct H].
      destruct H as [H|[]]. inversion H; subst. eauto.
    - intros (row & Hin & H). exists (i, row). split; auto. cbn [fst snd]. rewrite H. simpl. auto.
  Qed.

  Lemma in_lane_enumerate (m : matrix) j i x : In (i, x) (lane j (enumerate m)) <-> get m i j = Ok x.
  Proof.
    rewrite in_lane, get_ok_iff. split; intros (row & H1 & H2); exists row; split; auto; apply in_enumerate; auto.
  Qed.

  (* the lane scan keeps the last greatest value it has seen *)
  Lemma lane_scan (l : list (nat * T)) (z0 : T * nat) :
    good (fst z0) -> Forall (fun ix => good (snd ix)) l ->
    let z := fold_left lstep l z0 in
    good (fst z) /\ le (fst z0) (fst z) = true /\
    (forall ix, In ix l -> le (snd ix) (fst z) = true) /\
    (z = z0 \/ exists ix, In ix l /\ z = (snd ix, wrap32 (fst ix))).
  Proof.
    intros Hz Hl z.
    set (conv := fun ix : nat * T => (snd ix, wrap32 (fst ix))).
    assert (E : z = fold_left (fun b e : T * nat => if le (fst b) (fst e) then e else b) (map conv l) z0).
    { subst z. rewrite fold_left_map_list. reflexivity. }
    pose proof (picks_ge le good PO (@fst T nat)) as Hpk.
    assert (Hg : Forall (fun e : T * nat => good (fst e)) (map conv l)).
    { rewrite Forall_map. exact Hl. }
    destruct (fold_pick_ub le good PO (@fst T nat) _ Hpk (map conv l) z0 Hz Hg) as (H1 & H2 & H3).
    destruct (fold_pick_in le good (@fst T nat) _ Hpk (map conv l) z0 Hz Hg) as [H4|H4];
      rewrite <- E in *.
    - repeat split; auto. intros ix Hix. apply (H3 (conv ix)). apply in_map; auto.
    - repeat split; auto.
      + intros ix Hix. apply (H3 (conv ix)). apply in_map; auto.
      + right. apply in_map_iff in H4. destruct H4 as (ix & Hc & Hix). exists ix. split; auto.
  Qed.

  (* ---------- column winners and the scalar reductions ---------- *)

  (* row p holds a greatest value of column j *)
  Definition col_winner (m : matrix) (j p : nat) : Prop :=
    exists v, get m p j = Ok v /\ forall i w, get m i j = Ok w -> le w v = true.

  Definition col_winners (C : nat) (m : matrix) (x : list nat) : Prop :=
    length x = C /\ forall j, j < C -> exists p, nth_error x j = Some p /\ col_winner m j p.

  Lemma good_get (m : matrix) r c v : all_good good m -> get m r c = Ok v -> good v.
  Proof.
    intros Hg H. unfold all_good in Hg. rewrite Forall_forall in Hg. apply Hg.
    apply in_cells_get. eauto.
  Qed.

  Definition holds (m : matrix) (b : @tagged T) : Prop :=
    get m (fst (tpos b)) (snd (tpos b)) = Ok (tval b).

  (* a tagged cell that dominates the winners of all columns is an arg-max *)
  Lemma winners_argmax C (m : matrix) x (b : @tagged T) :
    wf C m -> all_good good m -> m <> [] -> col_winners C m x -> holds m b ->
    (forall j p v, nth_error x j = Some p -> get m p j = Ok v -> le v (tval b) = true) ->
    argmax_spec le C m (Some (tpos b)).
  Proof.
    intros Hwf Hg Hne [Hlen Hw] Hb Hdom.
    destruct (get_ok_range C m _ _ _ Hwf Hb) as [Hr Hc].
    cbn [argmax_spec]. repeat split; auto. exists (tval b). split; auto.
    intros y Hy. apply in_cells_get in Hy. destruct Hy as (i & j & Hij).
    destruct (get_ok_range C m _ _ _ Hwf Hij) as [_ Hj].
    destruct (Hw j Hj) as (p & Hp & v & Hv & Hub).
    eapply (po_trans _ _ PO); [| | |apply (Hub i y Hij)|apply (Hdom j p v Hp Hv)];
      eauto using good_get.
  Qed.

  (* AVX2 f32: strict > from cell (0,0) *)
  Variable lt : T -> T -> bool.
  Hypothesis Hlt : forall a b, good a -> good b -> lt a b = negb (le b a).

  Lemma avx2_f32_reduce_ok (m : matrix) : all_good good m ->
    forall x col best,
    holds m best ->
    (forall k p, nth_error x k = Some p -> exists v, get m p (col + k) = Ok v) ->
    exists b, avx2_f32_reduce lt m col x best = Ok b /\ holds m b /\
      le (tval best) (tval b) = true /\
      forall k p v, nth_error x k = Some p -> get m p (col + k) = Ok v -> le v (tval b) = true.
  Proof.
    intros Hg. induction x as [|p x IH]; intros col best Hb Hx; simpl.
    - exists best. repeat split; auto.
      + apply (po_refl _ _ PO). eapply good_get; eauto.
      + intros [|k] ? ? H; discriminate.
    - destruct (Hx 0 p eq_refl) as [v Hv]. rewrite Nat.add_0_r in Hv. rewrite Hv. cbn [rbind].
      assert (Hgb : good (tval best)) by (eapply good_get; eauto).
      assert (Hgv : good v) by (eapply good_get; eauto).
      pose proof (picks_gt le good PO (@tval T) lt Hlt best (p, col, v) Hgb Hgv) as (Hsel & Hle1 & Hle2).
      cbn [tval snd] in *.
      set (best' := if lt (tval best) v then _ else _) in *.
      assert (Hb' : holds m best') by (destruct Hsel as [E|E]; rewrite E; auto).
      destruct (IH (S col) best' Hb') as (b & Hred & Hhold & Hle & Hall).
      { intros k q Hq. specialize (Hx (S k) q Hq). rewrite Nat.add_succ_r in Hx. exact Hx. }
      exists b. repeat split; auto.
      + eapply (po_trans _ _ PO); [| | |exact Hle1|exact Hle]; eauto using good_get.
      + intros [|k] q w Hq Hw; simpl in Hq.
        * inversion Hq; subst. rewrite Nat.add_0_r in Hw. rewrite Hv in Hw. inversion Hw; subst.
          eapply (po_trans _ _ PO); [| | |exact Hle2|exact Hle]; eauto using good_get.
        * rewrite Nat.add_succ_r in Hw. apply (Hall k q w Hq Hw).
  Qed.

  (* ---------- AVX2 f32 arg-max ---------- *)

  Lemma avx2_step_flat (S : list T) (P : list nat) (i : nat) (row : list T) :
    length S = 32 -> length P = 32 -> length row = 32 ->
    argmax_vstep le 8 load4x8 (load4x8 S, load4x8 P) (i, row) =
    (load4x8 (fst (flat_step 32 (S, P) (i, row))), load4x8 (snd (flat_step 32 (S, P) (i, row)))).
  Proof.
    intros HS HP Hr. explode S HS. explode P HP. explode row Hr. reflexivity.
  Qed.

  Lemma flat_step_length n S P i row :
    length S = n -> length P = n -> length row = n ->
    length (fst (flat_step n (S, P) (i, row))) = n /\ length (snd (flat_step n (S, P) (i, row))) = n.
  Proof.
    intros HS HP Hr. unfold flat_step. cbn [fst snd]. split.
    - rewrite blendv_length; auto; try congruence. rewrite map2_length. lia.
    - rewrite blendv_length; auto. rewrite repeat_length; auto. rewrite map2_length. lia.
  Qed.

  Lemma avx2_fold_flat : forall (rows : list (nat * list T)) S P,
    length S = 32 -> length P = 32 -> (forall ir, In ir rows -> length (snd ir) = 32) ->
    fold_left (argmax_vstep le 8 load4x8) rows (load4x8 S, load4x8 P) =
    (load4x8 (fst (fold_left (flat_step 32) rows (S, P))), load4x8 (snd (fold_left (flat_step 32) rows (S, P)))).
  Proof.
    induction rows as [|[i row] rows IH]; intros S P HS HP Hl; [reflexivity|].
    cbn [fold_left].
    assert (Hr : length row = 32) by (apply (Hl (i, row)); simpl; auto).
    rewrite avx2_step_flat; auto.
    destruct (flat_step_length 32 S P i row HS HP Hr) as [H1 H2].
    destruct (flat_step 32 (S, P) (i, row)) as [S' P'] eqn:E. cbn [fst snd] in *.
    apply IH; auto. intros ir Hir. apply Hl. simpl; auto.
  Qed.

  Lemma concat_load4x8 {A} (v : list A) : length v = 32 -> concat (load4x8 v) = v.
  Proof. intros H. explode v H. reflexivity. Qed.

  Lemma fold_flat_length n : forall (rows : list (nat * list T)) S P,
    length S = n -> length P = n -> (forall ir, In ir rows -> length (snd ir) = n) ->
    length (fst (fold_left (flat_step n) rows (S, P))) = n /\
    length (snd (fold_left (flat_step n) rows (S, P))) = n.
  Proof.
    induction rows as [|[i row] rows IH]; intros S P HS HP Hl; simpl; auto.
    assert (Hr : length row = n) by (apply (Hl (i, row)); simpl; auto).
    destruct (flat_step_length n S P i row HS HP Hr) as [H1 H2].
    destruct (flat_step n (S, P) (i, row)) as [S' P'] eqn:E. cbn [fst snd] in *.
    apply IH; auto. intros ir Hir. apply Hl. simpl; auto.
  Qed.

  Lemma wf_enumerate C (m : matrix) : wf C m -> forall ir, In ir (enumerate m) -> length (snd ir) = C.
  Proof.
    intros Hwf [i row] H. apply in_enumerate in H. unfold wf in Hwf. rewrite Forall_forall in Hwf.
    apply Hwf. eapply nth_error_In; eauto.
  Qed.

  Lemma argmax_f32_avx2_x_flat (m : matrix) row0 :
    wf 32 m -> length row0 = 32 ->
    argmax_f32_avx2_x le m row0 = snd (fold_left (flat_step 32) (enumerate m) (row0, repeat 0 32)).
  Proof.
    intros Hwf H0. unfold argmax_f32_avx2_x.
    change (repeat (repeat 0 8) 4) with (load4x8 (repeat 0 32)).
    rewrite avx2_fold_flat; auto using repeat_length; [|apply (wf_enumerate 32); auto].
    cbn [snd]. apply concat_load4x8.
    apply (fold_flat_length 32); auto using repeat_length. apply (wf_enumerate 32); auto.
  Qed.

  Lemma in_enumerate_lt (m : matrix) i row : In (i, row) (enumerate m) -> i < length m.
  Proof. intros H. apply in_enumerate in H. apply nth_error_Some. congruence. Qed.

  Lemma avx2_f32_winners (m : matrix) row0 rest :
    m = row0 :: rest -> wf 32 m -> all_good good m -> (N.of_nat (length m) <= 4294967296)%N ->
    col_winners 32 m (argmax_f32_avx2_x le m row0).
  Proof.
    intros Em Hwf Hg Hbound.
    assert (H0 : length row0 = 32).
    { unfold wf in Hwf. rewrite Forall_forall in Hwf. apply Hwf. subst. simpl. auto. }
    rewrite argmax_f32_avx2_x_flat; auto.
    destruct (fold_flat_length 32 (enumerate m) row0 (repeat 0 32) H0 (repeat_length _ _) (wf_enumerate 32 m Hwf)) as [_ HL].
    split; auto. intros j Hj.
    destruct (nth_error row0 j) as [s0|] eqn:Es; [|apply nth_error_None in Es; lia].
    assert (Hp0 : nth_error (repeat 0 32) j = Some 0) by (apply nth_error_repeat; auto).
    destruct (flat_fold_lane 32 j (enumerate m) row0 (repeat 0 32) s0 0 Es Hp0 Hj) as [HS HP].
    { intros ir Hir. rewrite (wf_enumerate 32 m Hwf ir Hir). exact Hj. }
    assert (Hget0 : get m 0 j = Ok s0) by (subst m; unfold get; simpl; rewrite Es; auto).
    assert (Hgl : Forall (fun ix : nat * T => good (snd ix)) (lane j (enumerate m))).
    { apply Forall_forall. intros [i x] Hix. apply in_lane_enumerate in Hix. eapply good_get; eauto. }
    destruct (lane_scan (lane j (enumerate m)) (s0, 0) (good_get m 0 j s0 Hg Hget0) Hgl) as (Hgz & Hz0 & Hub & Hsel).
    set (z := fold_left lstep (lane j (enumerate m)) (s0, 0)) in *.
    exists (snd z). split; auto.
    exists (fst z). split.
    - destruct Hsel as [E|((i & x) & Hix & E)].
      + rewrite E. exact Hget0.
      + rewrite E. cbn [fst snd]. apply in_lane_enumerate in Hix.
        rewrite wrap32_small; auto.
        apply get_ok_iff in Hix. destruct Hix as (row & Hrow & _).
        assert (i < length m) by (apply nth_error_Some; congruence). lia.
    - intros i w Hw. apply (Hub (i, w)). apply in_lane_enumerate; auto.
  Qed.

  Theorem argmax_f32_avx2_ok (max_index : N) (m : matrix) :
    wf 32 m -> all_good good m -> (N.of_nat (length m) <= 4294967296)%N ->
    (max_index <= 4294967295)%N ->
    exists o, argmax_f32_avx2 le lt max_index m = Ok o /\ argmax_spec le 32 m o.
  Proof.
    intros Hwf Hg Hbound Hmi. unfold argmax_f32_avx2.
    assert (E : (4294967295 <? max_index)%N = false) by (apply N.ltb_ge; exact Hmi). rewrite E.
    destruct m as [|row0 rest] eqn:Em.
    - exists None. split; reflexivity.
    - rewrite <- Em in *.
      assert (Hne : m <> []) by (subst; discriminate).
      destruct (first_cell 32 m) as (b0 & _ & H00); auto; try lia.
      rewrite H00. cbn [rbind].
      pose proof (avx2_f32_winners m row0 rest Em Hwf Hg Hbound) as Hw.
      set (x := argmax_f32_avx2_x le m row0) in *.
      destruct (avx2_f32_reduce_ok m Hg x 0 (0, 0, b0) H00) as (b & Hred & Hhold & _ & Hall).
      { intros k p Hk. destruct Hw as [Hlen Hw].
        assert (k < 32) by (rewrite <- Hlen; apply nth_error_Some; congruence).
        destruct (Hw k H) as (p' & Hp' & v & Hv & _). rewrite Hk in Hp'. inversion Hp'; subst. simpl. eauto. }
      rewrite Hred. cbn [rbind]. eexists. split; [reflexivity|].
      eapply winners_argmax; eauto.
  Qed.

  (* ---------- SSE2 f32 arg-max (any C = 16 * B) ---------- *)

  Variable ninf : T.
  Hypothesis Hninf_good : good ninf.
  Hypothesis Hninf_bot : forall x, good x -> le ninf x = true.

  Lemma load4x4_slice {A} off (row : list A) : load4x4 off row = load4x4 0 (slice off 16 row).
  Proof.
    unfold load4x4. rewrite !slice_slice by lia. cbn [Nat.add]. rewrite Nat.add_0_r. reflexivity.
  Qed.

  Definition sliced (off : nat) (rows : list (nat * list T)) : list (nat * list T) :=
    map (fun ir => (fst ir, slice off 16 (snd ir))) rows.

  Lemma sse2_fold_slice off : forall (rows : list (nat * list T)) st,
    fold_left (argmax_vstep le 4 (load4x4 off)) rows st =
    fold_left (argmax_vstep le 4 (load4x4 0)) (sliced off rows) st.
  Proof.
    induction rows as [|[i row] rows IH]; intros st; [reflexivity|].
    cbn [fold_left sliced map fst snd]. rewrite <- IH. f_equal.
    unfold argmax_vstep. destruct st as [s p]. cbn [fst snd]. rewrite load4x4_slice. reflexivity.
  Qed.

  Lemma sse2_step_flat (S : list T) (P : list nat) (i : nat) (row : list T) :
    length S = 16 -> length P = 16 -> length row = 16 ->
    argmax_vstep le 4 (load4x4 0) (load4x4 0 S, load4x4 0 P) (i, row) =
    (load4x4 0 (fst (flat_step 16 (S, P) (i, row))), load4x4 0 (snd (flat_step 16 (S, P) (i, row)))).
  Proof.
    intros HS HP Hr. explode S HS. explode P HP. explode row Hr. reflexivity.
  Qed.

  Lemma sse2_fold_flat : forall (rows : list (nat * list T)) S P,
    length S = 16 -> length P = 16 -> (forall ir, In ir rows -> length (snd ir) = 16) ->
    fold_left (argmax_vstep le 4 (load4x4 0)) rows (load4x4 0 S, load4x4 0 P) =
    (load4x4 0 (fst (fold_left (flat_step 16) rows (S, P))), load4x4 0 (snd (fold_left (flat_step 16) rows (S, P)))).
  Proof.
    induction rows as [|[i row] rows IH]; intros S P HS HP Hl; [reflexivity|].
    cbn [fold_left].
    assert (Hr : length row = 16) by (apply (Hl (i, row)); simpl; auto).
    rewrite sse2_step_flat; auto.
    destruct (flat_step_length 16 S P i row HS HP Hr) as [H1 H2].
    destruct (flat_step 16 (S, P) (i, row)) as [S' P'] eqn:E. cbn [fst snd] in *.
    apply IH; auto. intros ir Hir. apply Hl. simpl; auto.
  Qed.

  Lemma concat_load4x4 {A} (v : list A) : length v = 16 -> concat (load4x4 0 v) = v.
  Proof. intros H. explode v H. reflexivity. Qed.

  Lemma sliced_length C (m : matrix) off :
    wf C m -> off + 16 <= C -> forall ir, In ir (sliced off (enumerate m)) -> length (snd ir) = 16.
  Proof.
    intros Hwf Hoff ir H. unfold sliced in H. apply in_map_iff in H. destruct H as (ir' & <- & H').
    cbn [snd]. apply slice_length. rewrite (wf_enumerate C m Hwf ir' H'). exact Hoff.
  Qed.

  Lemma sse2_block_flat C (m : matrix) off :
    wf C m -> off + 16 <= C ->
    sse2_block le ninf m off =
    snd (fold_left (flat_step 16) (sliced off (enumerate m)) (repeat ninf 16, repeat 0 16)).
  Proof.
    intros Hwf Hoff. unfold sse2_block.
    change (repeat (repeat ninf 4) 4) with (load4x4 0 (repeat ninf 16)).
    change (repeat (repeat 0 4) 4) with (load4x4 0 (repeat 0 16)).
    rewrite sse2_fold_slice, sse2_fold_flat; auto using repeat_length; [|apply (sliced_length C); auto].
    cbn [snd]. apply concat_load4x4.
    apply (fold_flat_length 16); auto using repeat_length. apply (sliced_length C); auto.
  Qed.

  Lemma in_lane_sliced (m : matrix) off j i x :
    j < 16 -> (In (i, x) (lane j (sliced off (enumerate m))) <-> get m i (off + j) = Ok x).
  Proof.
    intros Hj. rewrite in_lane, get_ok_iff. unfold sliced. split.
    - intros (r16 & Hin & Hx). apply in_map_iff in Hin. destruct Hin as ([i' row] & E & Hin).
      cbn [fst snd] in E. inversion E; subst. apply in_enumerate in Hin.
      rewrite nth_error_slice in Hx by exact Hj. eauto.
    - intros (row & Hrow & Hx). exists (slice off 16 row). split.
      + apply in_map_iff. exists (i, row). split; auto. apply in_enumerate; auto.
      + rewrite nth_error_slice by exact Hj. exact Hx.
  Qed.

  Lemma sse2_block_winners C (m : matrix) off :
    wf C m -> all_good good m -> m <> [] -> (N.of_nat (length m) <= 4294967296)%N -> off + 16 <= C ->
    length (sse2_block le ninf m off) = 16 /\
    forall j, j < 16 -> exists p, nth_error (sse2_block le ninf m off) j = Some p /\ col_winner m (off + j) p.
  Proof.
    intros Hwf Hg Hne Hbound Hoff. rewrite (sse2_block_flat C); auto.
    pose proof (sliced_length C m off Hwf Hoff) as Hsl.
    destruct (fold_flat_length 16 (sliced off (enumerate m)) (repeat ninf 16) (repeat 0 16)
                (repeat_length _ _) (repeat_length _ _) Hsl) as [_ HL].
    split; auto. intros j Hj.
    assert (Hs0 : nth_error (repeat ninf 16) j = Some ninf) by (apply nth_error_repeat; auto).
    assert (Hp0 : nth_error (repeat 0 16) j = Some 0) by (apply nth_error_repeat; auto).
    destruct (flat_fold_lane 16 j (sliced off (enumerate m)) _ _ ninf 0 Hs0 Hp0 Hj) as [_ HP].
    { intros ir Hir. rewrite (Hsl ir Hir). exact Hj. }
    assert (Hgl : Forall (fun ix : nat * T => good (snd ix)) (lane j (sliced off (enumerate m)))).
    { apply Forall_forall. intros [i x] Hix. apply in_lane_sliced in Hix; auto. eapply good_get; eauto. }
    destruct (lane_scan (lane j (sliced off (enumerate m))) (ninf, 0) Hninf_good Hgl) as (Hgz & _ & Hub & Hsel).
    set (z := fold_left lstep (lane j (sliced off (enumerate m))) (ninf, 0)) in *.
    exists (snd z). split; auto.
    destruct Hsel as [E|((i & x) & Hix & E)].
    - (* the lane never moved: every value of the column is equivalent to -inf, row 0 wins *)
      destruct (get_in_range C m 0 (off + j) Hwf) as [x0 Hx0]; try lia.
      { destruct m; [congruence|simpl; lia]. }
      rewrite E. cbn [snd]. exists x0. split; auto.
      intros i w Hw.
      assert (Hle : le w ninf = true).
      { replace ninf with (fst z) by (rewrite E; reflexivity). apply (Hub (i, w)). apply in_lane_sliced; auto. }
      eapply (po_trans _ _ PO); [| | |exact Hle|apply Hninf_bot]; eauto using good_get.
    - rewrite E. cbn [fst snd]. apply in_lane_sliced in Hix; auto.
      exists x. split.
      + rewrite wrap32_small; auto.
        apply get_ok_iff in Hix. destruct Hix as (row & Hrow & _).
        assert (i < length m) by (apply nth_error_Some; congruence). lia.
      + intros i' w Hw. replace x with (fst z) by (rewrite E; reflexivity).
        apply (Hub (i', w)). apply in_lane_sliced; auto.
  Qed.

  Lemma nth_error_blocks {X} (f : nat -> list X) : forall B s b j,
    (forall b, b < B -> length (f (s + b)) = 16) -> b < B -> j < 16 ->
    nth_error (flat_map f (seq s B)) (b * 16 + j) = nth_error (f (s + b)) j.
  Proof.
    induction B as [|B IH]; intros s b j Hlen Hb Hj; [lia|].
    cbn [seq flat_map]. destruct b as [|b].
    - rewrite Nat.add_0_r. simpl. rewrite nth_error_app1; auto.
      specialize (Hlen 0). rewrite Nat.add_0_r in Hlen. rewrite Hlen; lia.
    - assert (H0 : length (f s) = 16) by (specialize (Hlen 0); rewrite Nat.add_0_r in Hlen; apply Hlen; lia).
      rewrite nth_error_app2 by (rewrite H0; simpl; lia).
      replace (S b * 16 + j - length (f s)) with (b * 16 + j) by (rewrite H0; simpl; lia).
      rewrite IH; auto; try lia.
      + f_equal. f_equal. lia.
      + intros b' Hb'. replace (S s + b') with (s + S b') by lia. apply Hlen. lia.
  Qed.

  Lemma length_blocks {X} (f : nat -> list X) : forall B s,
    (forall b, b < B -> length (f (s + b)) = 16) -> length (flat_map f (seq s B)) = B * 16.
  Proof.
    induction B as [|B IH]; intros s Hlen; [reflexivity|].
    cbn [seq flat_map]. rewrite app_length, IH.
    - specialize (Hlen 0). rewrite Nat.add_0_r in Hlen. rewrite Hlen; simpl; lia.
    - intros b Hb. replace (S s + b) with (s + S b) by lia. apply Hlen. lia.
  Qed.

  Lemma sse2_winners B (m : matrix) :
    wf (B * 16) m -> all_good good m -> m <> [] -> (N.of_nat (length m) <= 4294967296)%N ->
    col_winners (B * 16) m (flat_map (fun b => sse2_block le ninf m (b * 16)) (seq 0 B)).
  Proof.
    intros Hwf Hg Hne Hbound.
    assert (Hblk : forall b, b < B ->
              length (sse2_block le ninf m (b * 16)) = 16 /\
              forall j, j < 16 -> exists p, nth_error (sse2_block le ninf m (b * 16)) j = Some p /\
                                            col_winner m (b * 16 + j) p).
    { intros b Hb. apply (sse2_block_winners (B * 16)); auto. nia. }
    split.
    - apply (length_blocks (fun b => sse2_block le ninf m (b * 16))). intros b Hb. apply Hblk; auto.
    - intros col Hcol.
      assert (Hd : col = (col / 16) * 16 + col mod 16) by (rewrite Nat.mul_comm; apply Nat.div_mod; lia).
      assert (Hb : col / 16 < B) by (apply Nat.div_lt_upper_bound; lia).
      assert (Hj : col mod 16 < 16) by (apply Nat.mod_upper_bound; lia).
      set (b := col / 16) in *. set (j := col mod 16) in *. clearbody b j. subst col.
      rewrite (nth_error_blocks (fun b => sse2_block le ninf m (b * 16)) B 0 b j); auto.
      + cbn [Nat.add]. destruct (Hblk b Hb) as [_ Hw]. destruct (Hw j Hj) as (p & Hp & Hwin).
        exists p. split; auto.
      + intros b' Hb'. apply Hblk; auto.
  Qed.

  Lemma sse2_reduce_ok (m : matrix) output : all_good good m ->
    forall n col best,
    holds m best ->
    (forall k, k < n -> exists p v, nth_error output (col + k) = Some p /\ get m p (col + k) = Ok v) ->
    exists b, sse2_reduce le m output col n best = Ok b /\ holds m b /\
      le (tval best) (tval b) = true /\
      forall k p v, k < n -> nth_error output (col + k) = Some p -> get m p (col + k) = Ok v ->
                    le v (tval b) = true.
  Proof.
    intros Hg. induction n as [|n IH]; intros col best Hb Hx; simpl.
    - exists best. repeat split; auto.
      + apply (po_refl _ _ PO). eapply good_get; eauto.
      + intros; lia.
    - destruct (Hx 0) as (p & v & Hp & Hv); [lia|]. rewrite Nat.add_0_r in Hp, Hv.
      rewrite Hp, Hv. cbn [rbind].
      assert (Hgb : good (tval best)) by (eapply good_get; eauto).
      assert (Hgv : good v) by (eapply good_get; eauto).
      pose proof (picks_ge le good PO (@tval T) best (p, col, v) Hgb Hgv) as (Hsel & Hle1 & Hle2).
      fold (pick_ge le best (p, col, v)) in *.
      set (best' := pick_ge le best (p, col, v)) in *.
      assert (Hb' : holds m best') by (destruct Hsel as [E|E]; rewrite E; auto).
      destruct (IH (S col) best' Hb') as (b & Hred & Hhold & Hle & Hall).
      { intros k Hk. destruct (Hx (S k)) as (q & w & Hq & Hw); [lia|].
        rewrite Nat.add_succ_r in Hq, Hw. eauto. }
      exists b. repeat split; auto.
      + eapply (po_trans _ _ PO); [| | |exact Hle1|exact Hle]; eauto using good_get.
      + intros [|k] q w Hk Hq Hw.
        * rewrite Nat.add_0_r in Hq, Hw. rewrite Hp in Hq. inversion Hq; subst.
          rewrite Hv in Hw. inversion Hw; subst.
          eapply (po_trans _ _ PO); [| | |exact Hle2|exact Hle]; eauto using good_get.
        * rewrite Nat.add_succ_r in Hq, Hw. apply (Hall k q w); auto. lia.
  Qed.

  Theorem argmax_sse2_ok B (max_index : N) (m : matrix) :
    0 < B -> wf (B * 16) m -> all_good good m -> (N.of_nat (length m) <= 4294967296)%N ->
    (max_index <= 4294967295)%N ->
    exists o, argmax_sse2 le ninf (B * 16) max_index m = Ok o /\ argmax_spec le (B * 16) m o.
  Proof.
    intros HB Hwf Hg Hbound Hmi. unfold argmax_sse2.
    assert (E : (4294967295 <? max_index)%N = false) by (apply N.ltb_ge; exact Hmi). rewrite E.
    destruct m as [|row0 rest] eqn:Em.
    - exists None. split; reflexivity.
    - rewrite <- Em in *.
      assert (Hne : m <> []) by (subst; discriminate).
      rewrite Nat.div_mul by lia.
      pose proof (sse2_winners B m Hwf Hg Hne Hbound) as Hw.
      set (output := flat_map (fun b => sse2_block le ninf m (b * 16)) (seq 0 B)) in *.
      destruct Hw as [Hlen Hw].
      (* first column: -inf is below its winner, so the running best becomes a real cell *)
      destruct (B * 16) as [|n] eqn:EC; [lia|].
      cbn [sse2_reduce].
      destruct (Hw 0) as (p0 & Hp0 & v0 & Hv0 & Hub0); [lia|].
      rewrite Hp0, Hv0. cbn [rbind].
      assert (Hgv0 : good v0) by (eapply good_get; eauto).
      assert (E0 : pick_ge le (0, 0, ninf) (p0, 0, v0) = (p0, 0, v0)).
      { unfold pick_ge, tval. cbn [snd]. rewrite Hninf_bot; auto. }
      rewrite E0.
      destruct (sse2_reduce_ok m output Hg n 1 (p0, 0, v0)) as (b & Hred & Hhold & Hle & Hall).
      { exact Hv0. }
      { intros k Hk. destruct (Hw (1 + k)) as (p & Hp & v & Hv & _); [lia|]. eauto. }
      rewrite Hred. cbn [rbind]. eexists. split; [reflexivity|].
      apply (winners_argmax (S n) m output b); auto.
      + split; auto.
      + intros j p v Hp Hv.
        assert (Hj : j < S n) by (rewrite <- Hlen; apply nth_error_Some; congruence).
        destruct j as [|j].
        * rewrite Hp0 in Hp. inversion Hp; subst. rewrite Hv0 in Hv. inversion Hv; subst. exact Hle.
        * apply (Hall j p v); auto. lia.
  Qed.

End FlatArgmax.

(* ---------- maxima without positions: max_f32_avx2, max_u8_avx2 ---------- *)

Section MaxKernels.
  Context {T : Type}.
  Variable le : T -> T -> bool.
  Variable good : T -> Prop.
  Hypothesis PO : preorder_on good le.

  Notation matrix := (@matrix T).

  (* an operation that returns one of its operands, above both (max_ps, f32::max, max_epu8) *)
  Definition maxlike (mx : T -> T -> T) : Prop :=
    forall a b, good a -> good b ->
      (mx a b = a \/ mx a b = b) /\ le a (mx a b) = true /\ le b (mx a b) = true.

  (* W is drawn from U and every element of U is below some element of W *)
  Definition covers (W U : list T) : Prop :=
    (forall w, In w W -> In w U) /\ (forall u, In u U -> exists w, In w W /\ le u w = true).

  Lemma covers_refl U : Forall good U -> covers U U.
  Proof.
    intros Hg. split; auto. intros u Hu. exists u. split; auto.
    apply (po_refl _ _ PO). rewrite Forall_forall in Hg. auto.
  Qed.

  Lemma covers_trans W V U : Forall good U -> covers W V -> covers V U -> covers W U.
  Proof.
    intros Hg [H1 H2] [H3 H4]. rewrite Forall_forall in Hg. split; auto.
    intros u Hu. destruct (H4 u Hu) as (v & Hv & Huv). destruct (H2 v Hv) as (w & Hw & Hvw).
    exists w. split; auto. eapply (po_trans _ _ PO); [| | |exact Huv|exact Hvw]; auto.
  Qed.

  Lemma covers_app W1 U1 W2 U2 : covers W1 U1 -> covers W2 U2 -> covers (W1 ++ W2) (U1 ++ U2).
  Proof.
    intros [H1 H2] [H3 H4]. split.
    - intros w Hw. apply in_app_iff in Hw. apply in_app_iff. destruct Hw; auto.
    - intros u Hu. apply in_app_iff in Hu. destruct Hu as [Hu|Hu].
      + destruct (H2 u Hu) as (w & Hw & Hle). exists w. split; auto. apply in_app_iff; auto.
      + destruct (H4 u Hu) as (w & Hw & Hle). exists w. split; auto. apply in_app_iff; auto.
  Qed.

  Lemma covers_set_eq W U U' : (forall x, In x U <-> In x U') -> covers W U -> covers W U'.
  Proof.
    intros He [H1 H2]. split.
    - intros w Hw. apply He; auto.
    - intros u Hu. apply He in Hu. auto.
  Qed.

  Section WithMax.
  Variable mx : T -> T -> T.
  Hypothesis Hmx : maxlike mx.

  Lemma covers_map2 : forall A B, length A = length B -> Forall good A -> Forall good B ->
    covers (map2 mx A B) (A ++ B).
  Proof.
    induction A as [|a A IH]; intros [|b B] Hl HA HB; simpl in *; try discriminate.
    - split; auto. intros ? [].
    - inversion HA; inversion HB; subst.
      destruct (Hmx a b) as (Hsel & Hla & Hlb); auto.
      destruct (IH B) as [K1 K2]; auto. split.
      + intros w [<-|Hw].
        * destruct Hsel as [E|E]; rewrite E; [left; auto|right; apply in_app_iff; right; left; auto].
        * apply K1 in Hw. apply in_app_iff in Hw. destruct Hw; [right; apply in_app_iff; auto|].
          right. apply in_app_iff. right. right. auto.
      + intros u [<-|Hu].
        * exists (mx a b). split; auto. left; auto.
        * apply in_app_iff in Hu. destruct Hu as [Hu|[<-|Hu]].
          -- destruct (K2 u) as (w & Hw & Hle); [apply in_app_iff; auto|]. exists w. split; auto. right; auto.
          -- exists (mx a b). split; auto. left; auto.
          -- destruct (K2 u) as (w & Hw & Hle); [apply in_app_iff; auto|]. exists w. split; auto. right; auto.
  Qed.

  Lemma good_map2 : forall A B, Forall good A -> Forall good B -> Forall good (map2 mx A B).
  Proof.
    induction A as [|a A IH]; intros [|b B] HA HB; simpl; auto.
    inversion HA; inversion HB; subst. constructor; auto.
    destruct (Hmx a b) as ([E|E] & _); auto; rewrite E; auto.
  Qed.

  Lemma covers_fold : forall rest x0, good x0 -> Forall good rest ->
    good (fold_left mx rest x0) /\ covers [fold_left mx rest x0] (x0 :: rest).
  Proof.
    induction rest as [|y rest IH]; intros x0 H0 Hr; simpl.
    - split; auto. apply covers_refl. constructor; auto.
    - inversion Hr as [|? ? Hy Hrest]; subst. destruct (Hmx x0 y) as (Hsel & Hl0 & Hly); auto.
      assert (Hg : good (mx x0 y)) by (destruct Hsel as [E|E]; rewrite E; auto).
      destruct (IH (mx x0 y) Hg Hrest) as [Hgf [K3 K4]]. split; auto. split.
      + intros w Hw. apply K3 in Hw. destruct Hw as [<-|Hw]; [|right; right; auto].
        destruct Hsel as [E|E]; rewrite E; [left|right; left]; auto.
      + intros u Hu.
        assert (Hcase : u = x0 \/ u = y \/ In u rest) by (destruct Hu as [<-|[<-|Hu]]; auto).
        destruct (K4 (mx x0 y)) as (w & Hw & Hle); [left; auto|].
        destruct Hw as [<-|[]].
        destruct Hcase as [->|[->|Hu']].
        * exists (fold_left mx rest (mx x0 y)). split; [left; auto|].
          eapply (po_trans _ _ PO); [| | |exact Hl0|exact Hle]; auto.
        * exists (fold_left mx rest (mx x0 y)). split; [left; auto|].
          eapply (po_trans _ _ PO); [| | |exact Hly|exact Hle]; auto.
        * apply (K4 u). right; auto.
  Qed.

  (* the running lane-wise maximum over the rows *)
  Lemma covers_rows n : forall (rows : list (list T)) V,
    length V = n -> Forall good V -> Forall (fun row => length row = n /\ Forall good row) rows ->
    let Vf := fold_left (fun acc row => map2 mx acc row) rows V in
    length Vf = n /\ Forall good Vf /\ covers Vf (V ++ concat rows).
  Proof.
    induction rows as [|row rows IH]; intros V HV Hg Hrows; simpl.
    - split; [|split]; auto. rewrite app_nil_r. apply covers_refl; auto.
    - inversion Hrows as [|? ? [Hl Hgr] Hrest]; subst.
      assert (HV1 : length (map2 mx V row) = length V) by (rewrite map2_length; lia).
      destruct (IH (map2 mx V row) HV1 (good_map2 V row Hg Hgr) Hrest) as (Hlen & Hgf & Hc).
      split; [|split]; auto.
      eapply covers_trans; [| exact Hc |].
      + apply Forall_app. split; auto. apply Forall_app. split; auto.
        apply Forall_concat. eapply Forall_impl; [|exact Hrest]. simpl. tauto.
      + rewrite app_assoc. apply covers_app.
        * apply covers_map2; auto.
        * apply covers_refl. apply Forall_concat. eapply Forall_impl; [|exact Hrest]. simpl. tauto.
  Qed.

  End WithMax.

  Lemma wf_good_rows C (m : matrix) :
    wf C m -> all_good good m -> Forall (fun row => length row = C /\ Forall good row) m.
  Proof.
    unfold wf, all_good, cells. induction m as [|row m IH]; intros Hwf Hg; constructor.
    - inversion Hwf; subst. split; auto. simpl in Hg. apply Forall_app in Hg. tauto.
    - inversion Hwf; subst. simpl in Hg. apply Forall_app in Hg. apply IH; tauto.
  Qed.

  (* ---------- max_f32_avx2 ---------- *)

  Variable mx : T -> T -> T.
  Hypothesis Hmx : maxlike mx.
  Variable smax : T -> T -> T.
  Hypothesis Hsmax : maxlike smax.

  Lemma max_avx2_step_flat (V row : list T) :
    length V = 32 -> length row = 32 ->
    map2 (map2 mx) (load4x8 V) (load4x8 row) = load4x8 (map2 mx V row).
  Proof. intros HV Hr. explode V HV. explode row Hr. reflexivity. Qed.

  Lemma max_avx2_fold_flat : forall (rows : list (list T)) V,
    length V = 32 -> Forall (fun row => length row = 32) rows ->
    fold_left (fun acc row => map2 (map2 mx) acc (load4x8 row)) rows (load4x8 V) =
    load4x8 (fold_left (fun acc row => map2 mx acc row) rows V).
  Proof.
    induction rows as [|row rows IH]; intros V HV Hrows; [reflexivity|].
    inversion Hrows; subst. cbn [fold_left]. rewrite max_avx2_step_flat; auto.
    apply IH; auto. rewrite map2_length. lia.
  Qed.

  Lemma in_row_cells (m : matrix) row x : In row m -> In x row -> In x (cells m).
  Proof. intros Hr Hx. unfold cells. apply in_concat. eauto. Qed.

  Theorem max_f32_avx2_ok (m : matrix) :
    wf 32 m -> all_good good m ->
    exists o, max_f32_avx2 mx smax m = Ok o /\ max_spec le m o.
  Proof.
    intros Hwf Hg. unfold max_f32_avx2. destruct m as [|row0 rest] eqn:Em.
    - exists None. split; reflexivity.
    - rewrite <- Em in *.
      assert (Hne : m <> []) by (subst; discriminate).
      pose proof (wf_good_rows 32 m Hwf Hg) as Hrows.
      assert (H0 : length row0 = 32 /\ Forall good row0).
      { rewrite Forall_forall in Hrows. apply Hrows. subst; simpl; auto. }
      destruct H0 as [H0 Hg0].
      rewrite max_avx2_fold_flat; auto.
      destruct (covers_rows mx Hmx 32 m row0 H0 Hg0 Hrows) as (Hlen & Hgf & Hc).
      set (Vf := fold_left (fun acc row => map2 mx acc row) m row0) in *.
      cbn [load4x8].
      set (m1 := slice 0 8 Vf). set (m2 := slice 8 8 Vf). set (m3 := slice 16 8 Vf). set (m4 := slice 24 8 Vf).
      assert (HVf : Vf = m1 ++ m2 ++ m3 ++ m4).
      { rewrite <- (concat_load4x8 Vf Hlen) at 1. cbn [load4x8 concat]. rewrite app_nil_r. reflexivity. }
      assert (Hl1 : length m1 = 8) by (apply slice_length; lia).
      assert (Hl2 : length m2 = 8) by (apply slice_length; lia).
      assert (Hl3 : length m3 = 8) by (apply slice_length; lia).
      assert (Hl4 : length m4 = 8) by (apply slice_length; lia).
      assert (Hgs : Forall good m1 /\ Forall good m2 /\ Forall good m3 /\ Forall good m4).
      { rewrite HVf in Hgf. repeat (apply Forall_app in Hgf; destruct Hgf as [? Hgf]). auto. }
      destruct Hgs as (Hg1 & Hg2 & Hg3 & Hg4).
      set (mm := map2 mx (map2 mx m1 m2) (map2 mx m3 m4)).
      assert (Hcmm : covers mm Vf).
      { eapply covers_trans; [exact Hgf| |].
        - apply covers_map2; auto using good_map2. rewrite !map2_length. lia.
        - rewrite HVf. rewrite app_assoc. apply covers_app; apply covers_map2; auto; congruence. }
      assert (Hgmm : Forall good mm) by (unfold mm; auto using good_map2).
      assert (Hlmm : length mm = 8) by (unfold mm; rewrite !map2_length; lia).
      destruct mm as [|x0 rest'] eqn:Emm; [discriminate|].
      eexists. split; [reflexivity|]. split; auto.
      pose proof (Forall_inv Hgmm) as Hgx0. pose proof (Forall_inv_tail Hgmm) as Hgrest'.
      destruct (covers_fold smax Hsmax rest' x0 Hgx0 Hgrest') as [_ Hcf].
      assert (Hgall : Forall good (row0 ++ concat m)).
      { apply Forall_app. split; auto. }
      assert (Hcov : covers [fold_left smax rest' x0] (cells m)).
      { apply (covers_set_eq _ (row0 ++ concat m)).
        - intros x. rewrite in_app_iff. unfold cells. split; [|auto].
          intros [H|H]; auto. apply (in_row_cells m row0); auto. rewrite Em; simpl; auto.
        - eapply covers_trans; [exact Hgall|exact Hcf|].
          eapply covers_trans; [exact Hgall|exact Hcmm|exact Hc]. }
      destruct Hcov as [H1 H2]. split.
      + apply H1. left; auto.
      + intros x Hx. destruct (H2 x Hx) as (w & [<-|[]] & Hle). exact Hle.
  Qed.

End MaxKernels.

(* ---------- u8 kernels (cells are integers 0..255) ---------- *)

Section U8.
  Local Open Scope Z_scope.

  Definition zgood (x : Z) : Prop := True.

  Lemma zle_preorder : preorder_on zgood Z.leb.
  Proof.
    split.
    - intros a _. apply Z.leb_refl.
    - intros a b c _ _ _ H1 H2. apply Z.leb_le in H1, H2. apply Z.leb_le. lia.
    - intros a b _ _. destruct (Z.leb_spec a b); auto. right. apply Z.leb_le. lia.
  Qed.

  Lemma zmax_maxlike : maxlike Z.leb zgood Z.max.
  Proof.
    intros a b _ _. repeat split.
    - destruct (Z.max_spec a b) as [[_ E]|[_ E]]; rewrite E; auto.
    - apply Z.leb_le. lia.
    - apply Z.leb_le. lia.
  Qed.

  Definition u8_matrix (m : zmatrix) : Prop := Forall (fun x => 0 <= x <= 255) (cells m).

  Lemma zall_good (m : zmatrix) : all_good zgood m.
  Proof. unfold all_good. apply Forall_forall. intros; exact I. Qed.

  Lemma slice_0_all {A} n (l : list A) : length l = n -> slice 0 n l = l.
  Proof. intros <-. unfold slice. simpl. apply firstn_all. Qed.

  (* ----- max_u8_avx2 ----- *)

  Theorem max_u8_avx2_ok (m : zmatrix) :
    wf 32%nat m -> u8_matrix m ->
    exists o, max_u8_avx2 m = Ok o /\ max_spec Z.leb m o.
  Proof.
    intros Hwf Hu8. unfold max_u8_avx2. destruct m as [|row0 rest] eqn:Em.
    - exists None. split; reflexivity.
    - rewrite <- Em in *.
      assert (Hne : m <> []) by (subst; discriminate).
      assert (Hfold : fold_left (fun acc row => map2 Z.max acc (slice 0 32 row)) m (repeat 0 32%nat) =
                      fold_left (fun acc row => map2 Z.max acc row) m (repeat 0 32%nat)).
      { clear Em Hne Hu8. generalize (repeat 0 32%nat). induction m as [|row m' IH]; intros V; [reflexivity|].
        inversion Hwf; subst. cbn [fold_left]. rewrite slice_0_all; auto. }
      rewrite Hfold.
      pose proof (wf_good_rows zgood 32%nat m Hwf (zall_good m)) as Hrows.
      assert (HgV : Forall zgood (repeat 0 32%nat)) by (apply Forall_forall; intros; exact I).
      destruct (covers_rows Z.leb zgood zle_preorder Z.max zmax_maxlike 32%nat m (repeat 0 32%nat)
                  (repeat_length _ _) HgV Hrows) as (Hlen & _ & Hc).
      set (Vf := fold_left (fun acc row => map2 Z.max acc row) m (repeat 0 32%nat)) in *.
      destruct Vf as [|x0 rest'] eqn:EV; [discriminate|].
      eexists. split; [reflexivity|]. split; auto.
      assert (Hgl : Forall zgood (x0 :: rest')) by (apply Forall_forall; intros; exact I).
      destruct (covers_fold Z.leb zgood zle_preorder Z.max zmax_maxlike rest' x0 I (Forall_inv_tail Hgl)) as [_ Hcf].
      assert (Hgall : Forall zgood (repeat 0 32%nat ++ concat m)) by (apply Forall_forall; intros; exact I).
      pose proof (covers_trans Z.leb zgood zle_preorder _ _ _ Hgall Hcf Hc) as [H1 H2].
      set (v := fold_left Z.max rest' x0) in *.
      assert (Hub : forall x, In x (cells m) -> Z.leb x v = true).
      { intros x Hx. destruct (H2 x) as (w & [<-|[]] & Hle); auto. apply in_app_iff. right. exact Hx. }
      split; auto.
      specialize (H1 v (or_introl eq_refl)). apply in_app_iff in H1. destruct H1 as [H1|H1]; auto.
      apply repeat_spec in H1.
      (* v = 0 comes from the initial accumulator: then every cell is 0 and the first cell is v *)
      destruct (get_in_range 32%nat m 0 0 Hwf) as [c0 Hc0]; try lia. { rewrite Em. simpl. lia. }
      assert (Hin0 : In c0 (cells m)) by (apply in_cells_get; eauto).
      assert (0 <= c0 <= 255) by (unfold u8_matrix in Hu8; rewrite Forall_forall in Hu8; auto).
      specialize (Hub c0 Hin0). apply Z.leb_le in Hub. replace v with c0 by lia. exact Hin0.
  Qed.

  (* ----- argmax_u8_avx2 ----- *)

  Definition uflat_step (st : list Z * list nat) (irow : nat * list Z) : list Z * list nat :=
    let c := map2 Z.gtb (snd irow) (fst st) in
    (blendv (fst st) (map (fun x => sub_epi16 x 1) (snd irow)) c,
     blendv (snd st) (repeat (wrap16 (fst irow)) 32) c).

  Definition ulstep (z : Z * nat) (ix : nat * Z) : Z * nat :=
    if Z.gtb (snd ix) (fst z) then (sub_epi16 (snd ix) 1, wrap16 (fst ix)) else z.

  Lemma u8_step_flat (S : list Z) (P : list nat) (i : nat) (row : list Z) :
    length S = 32%nat -> length P = 32%nat -> length row = 32%nat ->
    argmax_u8_vstep ((unpacklo_epi8_zero S, unpackhi_epi8_zero S), (unpacklo_epi8_zero P, unpackhi_epi8_zero P)) (i, row) =
    ((unpacklo_epi8_zero (fst (uflat_step (S, P) (i, row))), unpackhi_epi8_zero (fst (uflat_step (S, P) (i, row)))),
     (unpacklo_epi8_zero (snd (uflat_step (S, P) (i, row))), unpackhi_epi8_zero (snd (uflat_step (S, P) (i, row))))).
  Proof.
    intros HS HP Hr. explode S HS. explode P HP. explode row Hr. reflexivity.
  Qed.

  Lemma uflat_step_length S P i row :
    length S = 32%nat -> length P = 32%nat -> length row = 32%nat ->
    length (fst (uflat_step (S, P) (i, row))) = 32%nat /\ length (snd (uflat_step (S, P) (i, row))) = 32%nat.
  Proof.
    intros HS HP Hr. unfold uflat_step. cbn [fst snd]. split.
    - rewrite blendv_length; rewrite ?map_length, ?map2_length; lia.
    - rewrite blendv_length; rewrite ?repeat_length, ?map2_length; lia.
  Qed.

  Lemma u8_fold_flat : forall (rows : list (nat * list Z)) S P,
    length S = 32%nat -> length P = 32%nat -> (forall ir, In ir rows -> length (snd ir) = 32%nat) ->
    fold_left argmax_u8_vstep rows
      ((unpacklo_epi8_zero S, unpackhi_epi8_zero S), (unpacklo_epi8_zero P, unpackhi_epi8_zero P)) =
    let R := fold_left uflat_step rows (S, P) in
    ((unpacklo_epi8_zero (fst R), unpackhi_epi8_zero (fst R)), (unpacklo_epi8_zero (snd R), unpackhi_epi8_zero (snd R))).
  Proof.
    induction rows as [|[i row] rows IH]; intros S P HS HP Hl; [reflexivity|].
    cbn [fold_left].
    assert (Hr : length row = 32%nat) by (apply (Hl (i, row)); simpl; auto).
    rewrite u8_step_flat; auto.
    destruct (uflat_step_length S P i row HS HP Hr) as [H1 H2].
    destruct (uflat_step (S, P) (i, row)) as [S' P'] eqn:E. cbn [fst snd] in *.
    apply IH; auto. intros ir Hir. apply Hl. simpl; auto.
  Qed.

  Lemma ufold_flat_length : forall (rows : list (nat * list Z)) S P,
    length S = 32%nat -> length P = 32%nat -> (forall ir, In ir rows -> length (snd ir) = 32%nat) ->
    length (fst (fold_left uflat_step rows (S, P))) = 32%nat /\
    length (snd (fold_left uflat_step rows (S, P))) = 32%nat.
  Proof.
    induction rows as [|[i row] rows IH]; intros S P HS HP Hl; simpl; auto.
    assert (Hr : length row = 32%nat) by (apply (Hl (i, row)); simpl; auto).
    destruct (uflat_step_length S P i row HS HP Hr) as [H1 H2].
    destruct (uflat_step (S, P) (i, row)) as [S' P'] eqn:E. cbn [fst snd] in *.
    apply IH; auto. intros ir Hir. apply Hl. simpl; auto.
  Qed.

  Lemma permute_unpack {A} (v : list A) : length v = 32%nat ->
    permute2x128_0x20 (unpacklo_epi8_zero v) (unpackhi_epi8_zero v) ++
    permute2x128_0x31 (unpacklo_epi8_zero v) (unpackhi_epi8_zero v) = v.
  Proof. intros H. explode v H. reflexivity. Qed.

  Lemma argmax_u8_avx2_x_flat (m : zmatrix) :
    wf 32%nat m ->
    argmax_u8_avx2_x m = snd (fold_left uflat_step (enumerate m) (repeat (-1) 32%nat, repeat O 32%nat)).
  Proof.
    intros Hwf. unfold argmax_u8_avx2_x.
    change (repeat (-1) 16%nat) with (unpacklo_epi8_zero (repeat (-1) 32%nat)) at 1.
    change (repeat (-1) 16%nat) with (unpackhi_epi8_zero (repeat (-1) 32%nat)).
    change (repeat O 16%nat) with (unpacklo_epi8_zero (repeat O 32%nat)) at 1.
    change (repeat O 16%nat) with (unpackhi_epi8_zero (repeat O 32%nat)).
    rewrite u8_fold_flat; auto using repeat_length; [|apply (wf_enumerate 32%nat); auto].
    cbv zeta. apply permute_unpack.
    apply ufold_flat_length; auto using repeat_length. apply (wf_enumerate 32%nat); auto.
  Qed.

  Lemma uflat_step_lane S P i row j s p x :
    nth_error S j = Some s -> nth_error P j = Some p -> nth_error row j = Some x -> (j < 32)%nat ->
    nth_error (fst (uflat_step (S, P) (i, row))) j = Some (fst (ulstep (s, p) (i, x))) /\
    nth_error (snd (uflat_step (S, P) (i, row))) j = Some (snd (ulstep (s, p) (i, x))).
  Proof.
    intros HS HP Hr Hj. unfold uflat_step, ulstep. cbn [fst snd].
    assert (Hc : nth_error (map2 Z.gtb row S) j = Some (Z.gtb x s)) by (apply nth_error_map2; auto).
    split.
    - rewrite (nth_error_blendv S _ _ j s (sub_epi16 x 1) (Z.gtb x s)); auto.
      + destruct (Z.gtb x s); auto.
      + apply (map_nth_error (fun y => sub_epi16 y 1) j row Hr).
    - rewrite (nth_error_blendv P _ _ j p (wrap16 i) (Z.gtb x s)); auto.
      + destruct (Z.gtb x s); auto.
      + apply nth_error_repeat; auto.
  Qed.

  Lemma uflat_fold_lane j : forall rows S P s p,
    nth_error S j = Some s -> nth_error P j = Some p -> (j < 32)%nat ->
    (forall ir, In ir rows -> (j < length (snd ir))%nat) ->
    nth_error (snd (fold_left uflat_step rows (S, P))) j = Some (snd (fold_left ulstep (lane j rows) (s, p))).
  Proof.
    induction rows as [|[i row] rows IH]; intros S P s p HS HP Hj Hl; simpl; auto.
    assert (Hlen : (j < length row)%nat) by (apply (Hl (i, row)); simpl; auto).
    destruct (nth_error row j) as [x|] eqn:Ex; [|apply nth_error_None in Ex; lia].
    destruct (uflat_step_lane S P i row j s p x HS HP Ex Hj) as [H1 H2].
    destruct (uflat_step (S, P) (i, row)) as [S' P'] eqn:E. cbn [fst snd] in *.
    simpl. destruct (ulstep (s, p) (i, x)) as [s' p'] eqn:E2. cbn [fst snd] in *.
    apply IH; auto. intros ir Hir. apply Hl. simpl. auto.
  Qed.

  Lemma sub_epi16_small x : 0 <= x <= 255 -> sub_epi16 x 1 = x - 1.
  Proof. intros H. unfold sub_epi16. rewrite Z.mod_small; lia. Qed.

  (* s is "best - 1": the lane keeps the last greatest value it has seen *)
  Lemma ulane_scan : forall (l : list (nat * Z)) (z0 : Z * nat),
    Forall (fun ix => 0 <= snd ix <= 255) l -> -1 <= fst z0 <= 254 ->
    let z := fold_left ulstep l z0 in
    fst z0 <= fst z /\
    (forall ix, In ix l -> snd ix <= fst z + 1) /\
    (z = z0 \/ exists ix, In ix l /\ z = (snd ix - 1, wrap16 (fst ix))).
  Proof.
    induction l as [|[i x] l IH]; intros z0 Hl Hz; simpl.
    - split; [lia|]. split; [intros ? []|auto].
    - inversion Hl as [|? ? Hx Hl']; subst. cbn [snd] in Hx.
      assert (Estep : ulstep z0 (i, x) = if x >? fst z0 then (sub_epi16 x 1, wrap16 i) else z0) by reflexivity.
      rewrite Estep. clear Estep. destruct (Z.gtb_spec x (fst z0)) as [Hgt|Hle].
      + rewrite sub_epi16_small by exact Hx.
        destruct (IH (x - 1, wrap16 i) Hl') as (H1 & H2 & H3); [cbn [fst]; lia|].
        cbn [fst] in *. repeat split; try lia.
        * intros ix [<-|Hix]; [cbn [snd]; lia|auto].
        * destruct H3 as [E|(ix & Hix & E)].
          -- right. exists (i, x). split; auto.
          -- right. exists ix. split; auto.
      + destruct (IH z0 Hl' Hz) as (H1 & H2 & H3). repeat split; auto.
        * intros ix [<-|Hix]; [cbn [snd]; lia|auto].
        * destruct H3 as [E|(ix & Hix & E)]; auto. right. exists ix. split; auto.
  Qed.

  Lemma u8_winners (m : zmatrix) :
    wf 32%nat m -> u8_matrix m -> m <> [] -> (N.of_nat (length m) <= 65536)%N ->
    col_winners Z.leb 32%nat m (argmax_u8_avx2_x m).
  Proof.
    intros Hwf Hu8 Hne Hbound. rewrite argmax_u8_avx2_x_flat; auto.
    destruct (ufold_flat_length (enumerate m) (repeat (-1) 32%nat) (repeat O 32%nat)
                (repeat_length _ _) (repeat_length _ _) (wf_enumerate 32%nat m Hwf)) as [_ HL].
    split; auto. intros j Hj.
    assert (Hs0 : nth_error (repeat (-1) 32%nat) j = Some (-1)) by (apply nth_error_repeat; auto).
    assert (Hp0 : nth_error (repeat O 32%nat) j = Some O) by (apply nth_error_repeat; auto).
    pose proof (uflat_fold_lane j (enumerate m) _ _ (-1) O Hs0 Hp0 Hj) as HP.
    rewrite HP; [|intros ir Hir; rewrite (wf_enumerate 32%nat m Hwf ir Hir); exact Hj].
    assert (Hgl : Forall (fun ix : nat * Z => 0 <= snd ix <= 255) (lane j (enumerate m))).
    { apply Forall_forall. intros [i x] Hix. apply in_lane_enumerate in Hix. cbn [snd].
      unfold u8_matrix in Hu8. rewrite Forall_forall in Hu8. apply Hu8. apply in_cells_get. eauto. }
    destruct (ulane_scan (lane j (enumerate m)) (-1, O) Hgl) as (_ & Hub & Hsel); [cbn [fst]; lia|].
    set (z := fold_left ulstep (lane j (enumerate m)) (-1, O)) in *.
    exists (snd z). split; auto.
    destruct Hsel as [E|((i & x) & Hix & E)].
    - destruct (get_in_range 32%nat m 0 j Hwf) as [x0 Hx0]; auto.
      { destruct m; [congruence|simpl; lia]. }
      rewrite E. cbn [snd]. exists x0. split; auto.
      intros i w Hw. apply Z.leb_le.
      assert (Hw1 : w <= fst z + 1) by (apply (Hub (i, w)); apply in_lane_enumerate; auto).
      rewrite E in Hw1. cbn [fst snd] in Hw1.
      assert (0 <= x0 <= 255).
      { unfold u8_matrix in Hu8. rewrite Forall_forall in Hu8. apply Hu8. apply in_cells_get. eauto. }
      lia.
    - rewrite E. cbn [fst snd]. apply in_lane_enumerate in Hix.
      exists x. split.
      + rewrite wrap16_small; auto.
        apply get_ok_iff in Hix. destruct Hix as (row & Hrow & _).
        assert (i < length m)%nat by (apply nth_error_Some; congruence). lia.
      + intros i' w Hw. apply Z.leb_le.
        assert (Hw1 : w <= fst z + 1) by (apply (Hub (i', w)); apply in_lane_enumerate; auto).
        rewrite E in Hw1. cbn [fst snd] in Hw1. lia.
  Qed.

  Lemma u8_keys_ok (m : zmatrix) : forall x col,
    (forall k p, nth_error x k = Some p -> exists v, get m p (col + k) = Ok v) ->
    exists ks, u8_keys m col x = Ok ks /\ length ks = length x /\
      Forall (holds m) ks /\
      forall k p v, nth_error x k = Some p -> get m p (col + k) = Ok v -> In (p, (col + k)%nat, v) ks.
  Proof.
    induction x as [|p x IH]; intros col Hx; simpl.
    - exists []. repeat split; auto. intros [|k] ? ? H; discriminate.
    - destruct (Hx O p eq_refl) as [v Hv]. rewrite Nat.add_0_r in Hv. rewrite Hv. cbn [rbind].
      destruct (IH (S col)) as (ks & Hks & Hlen & Hhold & Hin).
      { intros k q Hq. specialize (Hx (S k) q Hq). rewrite Nat.add_succ_r in Hx. exact Hx. }
      rewrite Hks. cbn [rbind]. eexists. split; [reflexivity|]. repeat split.
      + simpl. lia.
      + constructor; auto.
      + intros [|k] q w Hq Hw; simpl in Hq.
        * inversion Hq; subst. rewrite Nat.add_0_r in *. rewrite Hv in Hw. inversion Hw; subst. left; auto.
        * right. rewrite Nat.add_succ_r in *. apply (Hin k q w); auto.
  Qed.

  Theorem argmax_u8_avx2_ok (m : zmatrix) :
    wf 32%nat m -> u8_matrix m -> (N.of_nat (length m) <= 65536)%N ->
    exists o, argmax_u8_avx2 m = Ok o /\ argmax_spec Z.leb 32%nat m o.
  Proof.
    intros Hwf Hu8 Hbound. unfold argmax_u8_avx2.
    assert (E : (65536 <? N.of_nat (length m))%N = false) by (apply N.ltb_ge; exact Hbound). rewrite E.
    destruct m as [|row0 rest] eqn:Em.
    - exists None. split; reflexivity.
    - rewrite <- Em in *.
      assert (Hne : m <> []) by (subst; discriminate).
      pose proof (u8_winners m Hwf Hu8 Hne Hbound) as Hw.
      set (x := argmax_u8_avx2_x m) in *.
      destruct (u8_keys_ok m x O) as (ks & Hks & Hlen & Hhold & Hin).
      { intros k p Hk. destruct Hw as [Hl Hw].
        assert (k < 32)%nat by (rewrite <- Hl; apply nth_error_Some; congruence).
        destruct (Hw k H) as (p' & Hp' & v & Hv & _). rewrite Hk in Hp'. inversion Hp'; subst. simpl. eauto. }
      rewrite Hks. cbn [rbind].
      destruct ks as [|k0 rest'] eqn:Eks.
      { destruct Hw as [Hl _]. rewrite Hl in Hlen. discriminate. }
      eexists. split; [reflexivity|].
      pose proof (picks_ge Z.leb zgood zle_preorder (@tval Z)) as Hpk. fold (pick_ge Z.leb) in Hpk.
      assert (Hgr : Forall (fun e : @tagged Z => zgood (tval e)) rest') by (apply Forall_forall; intros; exact I).
      destruct (fold_pick_ub Z.leb zgood zle_preorder (@tval Z) _ Hpk rest' k0 I Hgr) as (_ & Hb0 & Hub).
      destruct (fold_pick_in Z.leb zgood (@tval Z) _ Hpk rest' k0 I Hgr) as [Er|Hr];
        set (b := fold_left (pick_ge Z.leb) rest' k0) in *.
      + apply (winners_argmax Z.leb zgood zle_preorder 32%nat m x b); auto using zall_good.
        * rewrite Er. rewrite Forall_forall in Hhold. apply Hhold. left; auto.
        * intros j p v Hp Hv. specialize (Hin j p v Hp Hv). simpl in Hin. destruct Hin as [Ek|Hin].
          -- rewrite Ek in Hb0. exact Hb0.
          -- apply (Hub _ Hin).
      + apply (winners_argmax Z.leb zgood zle_preorder 32%nat m x b); auto using zall_good.
        * rewrite Forall_forall in Hhold. apply Hhold. right; auto.
        * intros j p v Hp Hv. specialize (Hin j p v Hp Hv). simpl in Hin. destruct Hin as [Ek|Hin].
          -- rewrite Ek in Hb0. exact Hb0.
          -- apply (Hub _ Hin).
  Qed.

End U8.
