(* Model of a REUSED score buffer (property C07, round 3): the state of
     dense.rs   DenseMatrix { data: Vec<Row<T,C>>, rows: usize }  (new / resize / Index / iter)
     scores.rs  StripedScores { data: DenseMatrix<T,C>, max_index }  (empty / resize / matrix_mut)
   as two separate fields -- the backing vector and the logical row count -- so that "what
   `matrix().iter()` walks" ([b_iter], the whole backing vector: Iter::new takes `matrix.data.iter()`)
   and "the rows of the matrix" ([b_logical], rows 0 .. rows()) are different things.
   The default scalar Maximum::{argmax,max} and Threshold::threshold iterate with
   `scores.matrix().iter()`; the vector kernels loop `for i in 0..scores.matrix().rows()`.
   Executable definitions only (no proofs).  Panic sites as in MaxiModel.v (1 row index, 2 column
   index, 3 Index<usize> with rows() = 0). *)
From Coq Require Import List Arith Bool NArith ZArith.
From LMBase Require Import Res.
From LMMaxi Require Import MaxiModel.
Import ListNotations.

Section Buffer.
  Context {T : Type}.
  Variable le : T -> T -> bool.
  Variable dflt : T.                  (* T::default() : 0.0 / 0 *)
  Variable C : nat.                   (* C::USIZE *)

  Record buffer := { bdata : list (list T); brows : nat; bmi : N }.

  Definition row0 : list T := repeat dflt C.

  (* Vec::resize_with(n, Default::default): truncates, or appends default rows *)
  Definition vec_resize (d : list (list T)) (n : nat) : list (list T) :=
    firstn n d ++ repeat row0 (n - length d).

  (* the seeded variant (seeded/C07/6): only ever grows the backing storage *)
  Definition vec_resize_grow_only (d : list (list T)) (n : nat) : list (list T) :=
    if length d <? n then vec_resize d n else d.

  (* StripedScores::empty() = DenseMatrix::new(0), max_index 0 *)
  Definition b_empty : buffer := {| bdata := []; brows := 0; bmi := 0%N |}.

  Inductive bop :=
  | BResize (rows : nat) (mi : N)     (* scores.resize(rows, max_index) *)
  | BDResize (rows : nat)             (* scores.matrix_mut().resize(rows) *)
  | BSet (r c : nat) (v : T)          (* scores.matrix_mut()[r][c] = v *)
  | BWrite (rows : list (list T)).    (* for r < len, c < C: scores.matrix_mut()[r][c] = rows[r][c] *)

  Section Step.
    (* the body of DenseMatrix::resize is `self.data.<rz>(rows, ..); self.rows = rows` *)
    Variable rz : list (list T) -> nat -> list (list T).

    Definition dm_resize (b : buffer) (n : nat) : buffer :=
      {| bdata := rz (bdata b) n; brows := n; bmi := bmi b |}.

    Definition b_step (b : buffer) (o : bop) : res buffer :=
      match o with
      | BResize n mi => let b' := dm_resize b n in
                        Ok {| bdata := bdata b'; brows := brows b'; bmi := mi |}
      | BDResize n => Ok (dm_resize b n)
      | BSet r c v =>
          (* IndexMut<usize> of DenseMatrix indexes the backing vector, then the row slice *)
          match nth_error (bdata b) r with
          | None => Panic 1
          | Some row =>
              if c <? length row
              then Ok {| bdata := firstn r (bdata b) ++ (firstn c row ++ v :: skipn (S c) row) :: skipn (S r) (bdata b);
                         brows := brows b; bmi := bmi b |}
              else Panic 2
          end
      | BWrite rows =>
          if length (bdata b) <? length rows then Panic 1
          else if forallb (fun row => length row =? C) rows
               then Ok {| bdata := rows ++ skipn (length rows) (bdata b); brows := brows b; bmi := bmi b |}
               else Panic 2
      end.

    Fixpoint b_run (b : buffer) (ops : list bop) : res buffer :=
      match ops with
      | [] => Ok b
      | o :: rest => b' <- b_step b o ;; b_run b' rest
      end.
  End Step.

  (* ---- the views the code has of a buffer ---- *)
  Definition b_iter (b : buffer) : list (list T) := bdata b.                      (* matrix().iter() *)
  Definition b_logical (b : buffer) : list (list T) := firstn (brows b) (bdata b).  (* rows 0..rows() *)

  (* ---- the entry points, as written, on a buffer ---- *)

  (* StripedScores: Index<usize>: col = i / data.rows(), row = i % data.rows(); data[row][col]
     (DenseMatrix::Index<usize> indexes the backing vector) *)
  Definition buf_index_usize (b : buffer) (i : nat) : res T :=
    match brows b with
    | O => Panic 3
    | R => get (bdata b) (i mod R) (i / R)
    end.

  (* Maximum::argmax (default impl): is_empty() tests rows(); the scan walks matrix().iter() *)
  Definition buf_argmax_generic (b : buffer) : res (option coord) :=
    match brows b with
    | O => Ok None
    | _ => b0 <- buf_index_usize b 0 ;; Ok (Some (tpos (scan_rows le 0 (b_iter b) (0, 0, b0))))
    end.

  (* Maximum::max (default impl): self.argmax(scores).map(|c| scores.matrix()[c])
     (Index<MatrixCoordinates> indexes the backing vector) *)
  Definition buf_max_generic (b : buffer) : res (option T) :=
    max_of_argmax (buf_argmax_generic b) (bdata b).

  (* Threshold::threshold (default impl) *)
  Definition buf_threshold_generic (b : buffer) (t : T) : list coord := thr_rows le t 0 (b_iter b).

  (* StripedScores::offset uses rows() *)
  Definition buf_offset (b : buffer) (rc : coord) : nat := snd rc * brows b + fst rc.
End Buffer.

(* ---- the dispatcher on a buffer ---- *)
Section BufDispatch.
  Context {T : Type}.
  Variable le lt : T -> T -> bool.
  Variable vmax smax : T -> T -> T.
  Variable ninf : T.

  (* Pipeline<_, Dispatch> on a buffer: the Generic arm (and every arm without a kernel of its
     own) runs the default scans over matrix().iter(); the SSE2 / AVX2 kernels walk rows
     0..rows() from data[0].as_ptr() *)
  Definition buf_dispatch_argmax_f32 (a : arm) (max_index : N) (b : @buffer T) : res (option coord) :=
    match a with
    | AGeneric => buf_argmax_generic le b
    | _ => dispatch_argmax_f32 le lt ninf a max_index (b_logical b)
    end.

  Definition buf_dispatch_max_f32 (a : arm) (b : @buffer T) : res (option T) :=
    match a with
    | AAvx2 => max_f32_avx2 vmax smax (b_logical b)
    | _ => buf_max_generic le b
    end.

  Definition buf_dispatch_threshold (a : arm) (b : @buffer T) (t : T) : list coord :=
    buf_threshold_generic le b t.
End BufDispatch.

Definition buf_dispatch_argmax_u8 (a : arm) (b : @buffer Z) : res (option coord) :=
  match a with
  | AAvx2 => argmax_u8_avx2 (b_logical b)
  | _ => buf_argmax_generic Z.leb b
  end.

Definition buf_dispatch_max_u8 (a : arm) (b : @buffer Z) : res (option Z) :=
  match a with
  | AAvx2 => max_u8_avx2 (b_logical b)
  | _ => buf_max_generic Z.leb b
  end.


(* ---- statement skeletons read from the source (translate/maxi_tables.py -> GenMaxi.v) ---- *)

(* the statements of `DenseMatrix::resize(&mut self, rows)` *)
Inductive dense_stmt :=
| DResizeWithDefault           (* self.data.resize_with(rows, Default::default); *)
| DResizeWithDefaultIfLonger   (* if rows > self.data.len() { self.data.resize_with(rows, ..) } *)
| DTruncate                    (* self.data.truncate(rows); *)
| DSetRows.                    (* self.rows = rows; *)

(* what `dense::Iter::new(matrix)` iterates over *)
Inductive iter_source :=
| IterData                     (* matrix.data.iter() *)
| IterDataTakeRows.            (* matrix.data[..matrix.rows].iter() / .iter().take(matrix.rows) *)

(* the statements of `StripedScores::resize(&mut self, rows, max_index)` *)
Inductive scores_stmt :=
| SDataResize                  (* self.data.resize(rows); *)
| SSetMaxIndex.                (* self.max_index = max_index; *)

(* what the default scalar scans (Maximum::argmax, Threshold::threshold) loop over *)
Inductive scan_source :=
| ScanMatrixIter               (* for (i, row) in scores.matrix().iter().enumerate() *)
| ScanRowsIndex.               (* for i in 0..scores.matrix().rows() { let row = &scores.matrix()[i]; *)

Section Skeleton.
  Context {T : Type}.
  Variable dflt : T.
  Variable C : nat.

  Definition dense_stmt_exec (n : nat) (b : @buffer T) (s : dense_stmt) : @buffer T :=
    match s with
    | DResizeWithDefault => {| bdata := vec_resize dflt C (bdata b) n; brows := brows b; bmi := bmi b |}
    | DResizeWithDefaultIfLonger =>
        {| bdata := vec_resize_grow_only dflt C (bdata b) n; brows := brows b; bmi := bmi b |}
    | DTruncate => {| bdata := firstn n (bdata b); brows := brows b; bmi := bmi b |}
    | DSetRows => {| bdata := bdata b; brows := n; bmi := bmi b |}
    end.

  Definition dm_resize_of (stmts : list dense_stmt) (b : @buffer T) (n : nat) : @buffer T :=
    fold_left (dense_stmt_exec n) stmts b.

  Definition scores_stmt_exec (dense : list dense_stmt) (n : nat) (mi : N) (b : @buffer T) (s : scores_stmt)
    : @buffer T :=
    match s with
    | SDataResize => dm_resize_of dense b n
    | SSetMaxIndex => {| bdata := bdata b; brows := brows b; bmi := mi |}
    end.

  Definition ss_resize_of (dense : list dense_stmt) (stmts : list scores_stmt) (b : @buffer T) (n : nat) (mi : N)
    : @buffer T :=
    fold_left (scores_stmt_exec dense n mi) stmts b.

  Definition b_iter_of (src : iter_source) (b : @buffer T) : list (list T) :=
    match src with
    | IterData => bdata b
    | IterDataTakeRows => firstn (brows b) (bdata b)
    end.

  Definition scan_rows_of (it : iter_source) (src : scan_source) (b : @buffer T) : list (list T) :=
    match src with
    | ScanMatrixIter => b_iter_of it b
    | ScanRowsIndex => firstn (brows b) (bdata b)
    end.
End Skeleton.

