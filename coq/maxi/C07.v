(* Property C07 — maximum, arg-maximum and thresholding of striped scores match their
   definitions.  Property theorems only. *)
From Coq Require Import List Arith Bool NArith ZArith Lia Permutation.
From LMBase Require Import Res ListX.
From LMMaxi Require Import MaxiModel MaxiProofs.
Import ListNotations.

Theorem C07_argmax_spec :
  forall (T : Type) (le : T -> T -> bool) (good : T -> Prop), preorder_on good le ->
  forall (C : nat) (m : list (list T)), 0 < C -> wf C m -> all_good good m ->
  exists o, argmax_generic le m = Ok o /\ argmax_spec le C m o.
Proof. intros T le good PO C m. exact (argmax_generic_ok le good PO C m). Qed.
