(* Property C07 — maximum, arg-maximum and thresholding of striped scores match their
   definitions.  Property theorems only (closed by lemmas of MaxiProofs / MaxiKernels /
   MaxiIEEE / MaxiTop), statement pins and non-vacuity examples.

   Vocabulary (MaxiProofs.v):
     wf C m             every row of m has C cells
     all_good good m    every cell satisfies [good] (f32: not NaN; u8: 0..255 via u8_matrix)
     max_spec le m o    o = None and m = [],  or  o = Some v with m <> [], v a cell of m and
                        every cell <= v
     argmax_spec le C m o   o = None and m = [],  or  o = Some (r, c) with r < rows, c < C,
                        and cell (r, c) >= every cell
     threshold_spec le m t l   NoDup l  and  (r, c) in l  <->  cell (r, c) exists and t <= cell
   A kernel "equals its specification" when it returns [Ok o] (no panic) with o meeting the
   specification; every statement quantifies over all matrices (any number of rows). *)
From Coq Require Import List Arith Bool NArith ZArith Lia Permutation.
From LMBase Require Import Res ListX IEEE.
From LMMaxi Require Import MaxiModel MaxiProofs MaxiKernels MaxiIEEE MaxiTop MaxiBuffer MaxiBufferProofs.
Import ListNotations.

(* ================= order facts (discharged for binary32 and for u8) ================= *)

(* IEEE binary32 (Flocq Bcompare / LMBase.IEEE): <= is a total preorder on the non-NaN
   values, < is its strict part, MAXPS and f32::max return an operand above both, -inf is
   the least value *)
Theorem C07_f32_order : order_facts f32_good F32.le F32.lt F32.max_x86 F32.max F32.ninf.
Proof. exact f32_order_facts. Qed.

(* equal as values = identical, or zeros of either sign *)
Theorem C07_f32_value_eq : forall x y, f32_good x -> f32_good y ->
  F32.le x y = true -> F32.le y x = true ->
  x = y \/ (IEEE.is_zero 24 128 x = true /\ IEEE.is_zero 24 128 y = true).
Proof. exact f32_le_antisym. Qed.

Theorem C07_u8_order : preorder_on zgood Z.leb /\ maxlike Z.leb zgood Z.max.
Proof. split; [exact zle_preorder|exact zmax_maxlike]. Qed.

(* ================= generic scans (pli/mod.rs default impls) ================= *)

Theorem C07_max_spec :
  forall (T : Type) (le : T -> T -> bool) (good : T -> Prop), preorder_on good le ->
  forall (C : nat) (m : list (list T)), 0 < C -> wf C m -> all_good good m ->
  exists o, max_generic le m = Ok o /\ max_spec le m o.
Proof. intros T le good PO C m. exact (max_generic_ok le good PO C m). Qed.

Theorem C07_argmax_spec :
  forall (T : Type) (le : T -> T -> bool) (good : T -> Prop), preorder_on good le ->
  forall (C : nat) (m : list (list T)), 0 < C -> wf C m -> all_good good m ->
  exists o, argmax_generic le m = Ok o /\ argmax_spec le C m o.
Proof. intros T le good PO C m. exact (argmax_generic_ok le good PO C m). Qed.

(* no hypothesis at all: each qualifying cell once, nothing else *)
Theorem C07_threshold_spec :
  forall (T : Type) (le : T -> T -> bool) (m : list (list T)) (t : T),
  threshold_spec le m t (threshold_generic le m t).
Proof. intros T le m t. exact (threshold_generic_ok le m t). Qed.

(* None exactly on the matrix without rows, for every answer meeting its specification;
   and every entry point of the model answers None there *)
Theorem C07_none_iff_empty :
  forall (T : Type) (le : T -> T -> bool) (C : nat) (m : list (list T)),
  (forall o, max_spec le m o -> (o = None <-> m = [])) /\
  (forall o, argmax_spec le C m o -> (o = None <-> m = [])).
Proof.
  intros T le C m. split; intros [x|]; cbn [max_spec argmax_spec]; intros H; split; intros E;
    try discriminate; try tauto; try (destruct H as [H _]; contradiction).
Qed.

Theorem C07_empty_matrix :
  forall (T : Type) (le lt : T -> T -> bool) (vmax smax : T -> T -> T) (ninf : T) (a : arm) (t : T)
         (max_index : N), index_fits32 max_index ->
  dispatch_argmax_f32 le lt ninf a max_index [] = Ok None /\
  dispatch_max_f32 le vmax smax a [] = Ok None /\
  dispatch_threshold le a [] t = [] /\
  dispatch_argmax_u8 a [] = Ok None /\ dispatch_max_u8 a [] = Ok None /\
  lin_max le [] = Ok None /\ lin_argmax le [] = Ok None.
Proof.
  intros T le lt vmax smax ninf a t mi Hi.
  assert (E : (4294967295 <? mi)%N = false) by (apply N.ltb_ge; exact Hi).
  destruct a; cbn [dispatch_argmax_f32]; unfold argmax_sse2, argmax_f32_avx2; rewrite ?E;
    repeat split; reflexivity.
Qed.

(* Beyond the guard of C07_empty_matrix (review round 3, C07 finding 2), AS CODED: "on an empty matrix
   maximum and arg-maximum are None" holds without any hypothesis for every entry point EXCEPT the
   arg-maximum of the SSE2 / AVX2 arms, whose explicit `max_index > u32::MAX` guard (avx2.rs argmax,
   sse2.rs argmax_sse2: tested BEFORE the emptiness test) panics on an empty matrix too.  Such a value is
   a StripedScores without rows but with max_index >= 2^32 -- `StripedScores::resize(0, 2^32)` through the
   public API; scoring never builds it (score_rows_into gives resize(0, 0) for an empty result).  The
   corpus line `k=f32 R=0 mi=4294967296 m=-` observes exactly this: g / dG None, s / a / dS / dA panic. *)
Theorem C07_empty_matrix_any_index :
  forall (T : Type) (le lt : T -> T -> bool) (vmax smax : T -> T -> T) (ninf : T) (a : arm) (t : T)
         (max_index : N),
  dispatch_argmax_f32 le lt ninf AGeneric max_index [] = Ok None /\
  dispatch_max_f32 le vmax smax a [] = Ok None /\
  dispatch_threshold le a [] t = [] /\
  dispatch_argmax_u8 a [] = Ok None /\ dispatch_max_u8 a [] = Ok None /\
  lin_max le [] = Ok None /\ lin_argmax le [] = Ok None /\
  (a <> AGeneric ->
   (index_fits32 max_index -> dispatch_argmax_f32 le lt ninf a max_index [] = Ok None) /\
   (~ index_fits32 max_index -> dispatch_argmax_f32 le lt ninf a max_index [] = Panic 20)).
Proof.
  intros T le lt vmax smax ninf a t mi.
  split; [reflexivity|]. split; [destruct a; reflexivity|]. split; [reflexivity|].
  split; [destruct a; reflexivity|]. split; [destruct a; reflexivity|].
  split; [reflexivity|]. split; [reflexivity|].
  intros Ha. split.
  - intros Hi. exact (proj1 (C07_empty_matrix T le lt vmax smax ninf a t mi Hi)).
  - intros Hn. apply (dispatch_argmax_f32_guard le lt ninf a mi [] Ha).
    unfold index_fits32 in Hn. lia.
Qed.

(* the row-count / max_index hypotheses of C07_dispatch_f32 / C07_dispatch_u8 are needed by the vector
   arms only (review round 3, C07 finding 3): the Generic arm of both dispatchers, and the SSE2 arm of the
   8-bit one (no 8-bit SSE2 kernel: default scans), meet the arg-maximum specification on EVERY matrix *)
Theorem C07_dispatch_unguarded_arms :
  (forall (T : Type) (le lt : T -> T -> bool) (good : T -> Prop) (ninf : T), preorder_on good le ->
   forall (max_index : N) (m : list (list T)), wf 32 m -> all_good good m ->
   exists o, dispatch_argmax_f32 le lt ninf AGeneric max_index m = Ok o /\ argmax_spec le 32 m o) /\
  (forall (a : arm) (m : list (list Z)), a <> AAvx2 -> wf 32 m ->
   exists o, dispatch_argmax_u8 a m = Ok o /\ argmax_spec Z.leb 32 m o).
Proof.
  split.
  - intros T le lt good ninf PO mi m Hwf Hg. exact (dispatch_argmax_f32_generic_ok le lt good PO ninf mi m Hwf Hg).
  - intros a m Ha Hwf.
    assert (E : dispatch_argmax_u8 a m = argmax_generic Z.leb m) by (destruct a; try reflexivity; congruence).
    rewrite E. apply (argmax_generic_ok Z.leb zgood zle_preorder 32 m); [lia|exact Hwf|exact (zall_good m)].
Qed.

(* ================= the vector kernels equal their specifications ================= *)

Theorem C07_argmax_f32_avx2_eq_spec :
  forall (T : Type) (good : T -> Prop) (le lt : T -> T -> bool) (vmax smax : T -> T -> T) (ninf : T),
  order_facts good le lt vmax smax ninf ->
  forall (max_index : N) (m : list (list T)),
  wf 32 m -> all_good good m -> rows_fit32 m -> index_fits32 max_index ->
  exists o, argmax_f32_avx2 le lt max_index m = Ok o /\ argmax_spec le 32 m o.
Proof.
  intros T good le lt vmax smax ninf [PO Hlt _ _ _ _] mi m.
  exact (argmax_f32_avx2_ok le good PO lt Hlt mi m).
Qed.

(* repaired kernel: the accumulators start from the first row *)
Theorem C07_max_f32_avx2_eq_spec :
  forall (T : Type) (good : T -> Prop) (le lt : T -> T -> bool) (vmax smax : T -> T -> T) (ninf : T),
  order_facts good le lt vmax smax ninf ->
  forall (m : list (list T)), wf 32 m -> all_good good m ->
  exists o, max_f32_avx2 vmax smax m = Ok o /\ max_spec le m o.
Proof.
  intros T good le lt vmax smax ninf [PO _ Hv Hs _ _] m.
  exact (max_f32_avx2_ok le good PO vmax Hv smax Hs m).
Qed.

(* any column count that is a multiple of 16 *)
Theorem C07_argmax_sse2_eq_spec :
  forall (T : Type) (good : T -> Prop) (le lt : T -> T -> bool) (vmax smax : T -> T -> T) (ninf : T),
  order_facts good le lt vmax smax ninf ->
  forall (B : nat) (max_index : N) (m : list (list T)),
  0 < B -> wf (B * 16) m -> all_good good m -> rows_fit32 m -> index_fits32 max_index ->
  (exists o, argmax_sse2 le ninf (B * 16) max_index m = Ok o /\ argmax_spec le (B * 16) m o) /\
  (exists o, pipeline_sse2_max le ninf (B * 16) max_index m = Ok o /\ max_spec le m o).
Proof.
  intros T good le lt vmax smax ninf [PO _ _ _ Hg Hb] B mi m HB Hwf Hgood Hr Hi. split.
  - exact (argmax_sse2_ok le good PO ninf Hg Hb B mi m HB Hwf Hgood Hr Hi).
  - exact (pipeline_sse2_max_ok le good PO ninf Hg Hb B mi m HB Hwf Hgood Hr Hi).
Qed.

(* repaired kernel: column order restored after unpacklo/unpackhi *)
Theorem C07_argmax_u8_avx2_eq_spec :
  forall (m : list (list Z)), wf 32 m -> u8_matrix m -> rows_fit16 m ->
  exists o, argmax_u8_avx2 m = Ok o /\ argmax_spec Z.leb 32 m o.
Proof. exact argmax_u8_avx2_ok. Qed.

Theorem C07_max_u8_avx2_eq_spec :
  forall (m : list (list Z)), wf 32 m -> u8_matrix m ->
  exists o, max_u8_avx2 m = Ok o /\ max_spec Z.leb m o.
Proof. exact max_u8_avx2_ok. Qed.

(* the f32 vector arg-max kernels as the driver evaluates them (row index not rebuilt for every
   row when the matrix has at most 2^32 rows) are the kernels, for every input *)
Theorem C07_fast_kernels_eq :
  forall (T : Type) (le lt : T -> T -> bool) (ninf : T) (C : nat) (a : arm) (max_index : N) (m : list (list T)),
  argmax_f32_avx2_fast le lt max_index m = argmax_f32_avx2 le lt max_index m /\
  argmax_sse2_fast le ninf C max_index m = argmax_sse2 le ninf C max_index m /\
  pipeline_sse2_max_fast le ninf C max_index m = pipeline_sse2_max le ninf C max_index m /\
  dispatch_argmax_f32_fast le lt ninf a max_index m = dispatch_argmax_f32 le lt ninf a max_index m.
Proof. intros T le lt ninf C a mi m. exact (fast_kernels_eq le lt ninf C a mi m). Qed.

(* ================= dispatcher: every arm ================= *)

Theorem C07_dispatch_f32 :
  forall (T : Type) (good : T -> Prop) (le lt : T -> T -> bool) (vmax smax : T -> T -> T) (ninf : T),
  order_facts good le lt vmax smax ninf ->
  forall (a : arm) (max_index : N) (m : list (list T)) (t : T),
  wf 32 m -> all_good good m ->
  (rows_fit32 m -> index_fits32 max_index ->
   exists o, dispatch_argmax_f32 le lt ninf a max_index m = Ok o /\ argmax_spec le 32 m o) /\
  (exists o, dispatch_argmax_f32 le lt ninf AGeneric max_index m = Ok o /\ argmax_spec le 32 m o) /\
  (exists o, dispatch_max_f32 le vmax smax a m = Ok o /\ max_spec le m o) /\
  threshold_spec le m t (dispatch_threshold le a m t).
Proof.
  intros T good le lt vmax smax ninf [PO Hlt Hv Hs Hg Hb] a mi m t Hwf Hgood.
  split; [|split; [|split]].
  - intros Hr Hi. exact (dispatch_argmax_f32_ok le lt good PO Hlt ninf Hg Hb a mi m Hwf Hgood Hr Hi).
  - exact (dispatch_argmax_f32_generic_ok le lt good PO ninf mi m Hwf Hgood).
  - exact (dispatch_max_f32_ok le good PO vmax smax Hv Hs a m Hwf Hgood).
  - exact (threshold_generic_ok le m t).
Qed.

(* the only panics of the vector arms are their explicit guards *)
Theorem C07_dispatch_guards :
  forall (T : Type) (le lt : T -> T -> bool) (ninf : T) (a : arm) (max_index : N) (m : list (list T)) (mz : list (list Z)),
  (a <> AGeneric -> (4294967295 < max_index)%N -> dispatch_argmax_f32 le lt ninf a max_index m = Panic 20) /\
  ((65536 < N.of_nat (length mz))%N -> dispatch_argmax_u8 AAvx2 mz = Panic 21).
Proof.
  intros T le lt ninf a mi m mz. split.
  - exact (dispatch_argmax_f32_guard le lt ninf a mi m).
  - exact (dispatch_argmax_u8_guard mz).
Qed.

Theorem C07_dispatch_u8 :
  forall (a : arm) (m : list (list Z)) (t : Z), wf 32 m -> u8_matrix m ->
  (rows_fit16 m -> exists o, dispatch_argmax_u8 a m = Ok o /\ argmax_spec Z.leb 32 m o) /\
  (exists o, dispatch_max_u8 a m = Ok o /\ max_spec Z.leb m o) /\
  threshold_spec Z.leb m t (dispatch_threshold Z.leb a m t).
Proof.
  intros a m t Hwf Hu. split; [|split].
  - intros Hr. exact (dispatch_argmax_u8_ok a m Hwf Hu Hr).
  - exact (dispatch_max_u8_ok a m Hwf Hu).
  - exact (threshold_generic_ok Z.leb m t).
Qed.

(* the dispatcher as compiled on Arm hosts (variants Generic and Neon; 16 columns there, stated
   for any column count): every arm meets the specifications and there is no guard at all.
   Modelled from the source: these arms are not compiled on the x86_64 host of the checks. *)
Theorem C07_dispatch_armhost :
  forall (T : Type) (le : T -> T -> bool) (good : T -> Prop), preorder_on good le ->
  forall (a b : neon_arm) (C : nat) (m : list (list T)) (t : T), 0 < C -> wf C m -> all_good good m ->
  (exists o, armhost_dispatch_argmax le a m = Ok o /\ argmax_spec le C m o) /\
  (exists o, armhost_dispatch_max le a m = Ok o /\ max_spec le m o) /\
  threshold_spec le m t (armhost_dispatch_threshold le a m t) /\
  armhost_dispatch_argmax le a m = armhost_dispatch_argmax le b m /\
  armhost_dispatch_max le a m = armhost_dispatch_max le b m /\
  armhost_dispatch_threshold le a m t = armhost_dispatch_threshold le b m t.
Proof.
  intros T le good PO a b C m t HC Hwf Hg.
  split; [|split; [|split; [|split; [|split]]]].
  - destruct a; exact (argmax_generic_ok le good PO C m HC Hwf Hg).
  - destruct a; exact (max_generic_ok le good PO C m HC Hwf Hg).
  - exact (threshold_generic_ok le m t).
  - destruct a, b; reflexivity.
  - destruct a, b; reflexivity.
  - reflexivity.
Qed.

(* all arms agree on the maximum value and on the threshold list *)
Theorem C07_arms_agree :
  forall (T : Type) (good : T -> Prop) (le lt : T -> T -> bool) (vmax smax : T -> T -> T) (ninf : T),
  order_facts good le lt vmax smax ninf ->
  forall (a b : arm) (m : list (list T)) (t : T), wf 32 m -> all_good good m ->
  (exists o1 o2, dispatch_max_f32 le vmax smax a m = Ok o1 /\ dispatch_max_f32 le vmax smax b m = Ok o2 /\
     match o1, o2 with
     | None, None => m = []
     | Some v, Some w => le v w = true /\ le w v = true
     | _, _ => False
     end) /\
  dispatch_threshold le a m t = dispatch_threshold le b m t.
Proof.
  intros T good le lt vmax smax ninf [PO _ Hv Hs _ _] a b m t Hwf Hgood. split.
  - exact (dispatch_max_f32_agree le good PO vmax smax Hv Hs a b m Hwf Hgood).
  - reflexivity.
Qed.

(* any two answers meeting [max_spec] (whatever entry point produced them: pipelines,
   dispatcher arms, StripedScores::max) are both None or equal as values *)
Theorem C07_max_unique :
  forall (T : Type) (le : T -> T -> bool) (m : list (list T)) (o1 o2 : option T),
  max_spec le m o1 -> max_spec le m o2 ->
  match o1, o2 with
  | None, None => m = []
  | Some v, Some w => le v w = true /\ le w v = true
  | _, _ => False
  end.
Proof. intros T le m o1 o2. exact (max_spec_agree le m o1 o2). Qed.

Theorem C07_arms_agree_u8 :
  forall (a b : arm) (m : list (list Z)), wf 32 m -> u8_matrix m ->
  exists o, dispatch_max_u8 a m = Ok o /\ dispatch_max_u8 b m = Ok o.
Proof. exact dispatch_max_u8_agree. Qed.

(* the value at a reported arg-maximum is the value any reported maximum holds *)
Theorem C07_argmax_holds_max :
  forall (T : Type) (le : T -> T -> bool) (C : nat) (m : list (list T)) (rc : nat * nat) (w : T),
  argmax_spec le C m (Some rc) -> max_spec le m (Some w) ->
  exists v, get m (fst rc) (snd rc) = Ok v /\ le v w = true /\ le w v = true.
Proof. exact (@argmax_max_agree). Qed.

(* ================= binary32, concretely: every arm of the f32 dispatcher ================= *)

Theorem C07_f32_all_arms :
  forall (a : arm) (max_index : N) (m : list (list F32.t)) (t : F32.t),
  wf 32 m -> all_good f32_good m -> rows_fit32 m -> index_fits32 max_index ->
  (exists o, dispatch_argmax_f32 F32.le F32.lt F32.ninf a max_index m = Ok o /\ argmax_spec F32.le 32 m o) /\
  (exists o, dispatch_max_f32 F32.le F32.max_x86 F32.max a m = Ok o /\ max_spec F32.le m o) /\
  threshold_spec F32.le m t (dispatch_threshold F32.le a m t).
Proof.
  intros a mi m t Hwf Hg Hr Hi.
  destruct f32_order_facts as [PO Hlt Hv Hs Hgn Hb]. split; [|split].
  - exact (dispatch_argmax_f32_ok F32.le F32.lt f32_good PO Hlt F32.ninf Hgn Hb a mi m Hwf Hg Hr Hi).
  - exact (dispatch_max_f32_ok F32.le f32_good PO F32.max_x86 F32.max Hv Hs a m Hwf Hg).
  - exact (threshold_generic_ok F32.le m t).
Qed.

(* ================= StripedScores level: offsets ================= *)

(* offset of (r, c) is c * rows + r, and scores[offset] is cell (r, c) *)
Theorem C07_argmax_offset :
  forall (T : Type) (m : list (list T)) (r c : nat), r < length m ->
  offset m (r, c) = c * length m + r /\ index_usize m (offset m (r, c)) = get m r c.
Proof. intros T m r c. exact (argmax_offset m r c). Qed.

(* StripedScores::argmax on top of any arm meeting its specification *)
Theorem C07_striped_argmax :
  forall (T : Type) (le : T -> T -> bool) (C : nat) (m : list (list T)) (am : res (option (nat * nat))) o,
  am = Ok o -> argmax_spec le C m o ->
  exists o', ss_argmax am m = Ok o' /\ o' = option_map (offset m) o /\
    match o' with
    | None => m = []
    | Some i => m <> [] /\ i < length m * C /\
                exists v, index_usize m i = Ok v /\ forall x, In x (cells m) -> le x v = true
    end.
Proof. intros T le C m am o. exact (ss_argmax_ok le C m am o). Qed.

(* StripedScores::threshold: each qualifying cell once, as its column-major index *)
Theorem C07_striped_threshold :
  forall (T : Type) (le : T -> T -> bool) (C : nat) (m : list (list T)) (t : T), wf C m ->
  NoDup (ss_threshold le m t) /\
  forall i, In i (ss_threshold le m t) <->
    exists r c v, r < length m /\ c < C /\ i = c * length m + r /\ get m r c = Ok v /\ le t v = true.
Proof. intros T le C m t. exact (ss_threshold_ok le C m t). Qed.

(* ... that is: exactly the positions i below rows * C with scores[i] >= t *)
Theorem C07_striped_threshold_index :
  forall (T : Type) (le : T -> T -> bool) (C : nat) (m : list (list T)) (t : T), wf C m ->
  forall i, In i (ss_threshold le m t) <->
            i < length m * C /\ exists v, index_usize m i = Ok v /\ le t v = true.
Proof. intros T le C m t. exact (ss_threshold_index le C m t). Qed.

(* the offsets as binary numbers (the form evaluated by the extracted driver) are the same *)
Theorem C07_striped_offsets_N :
  forall (T : Type) (le : T -> T -> bool) (am : res (option (nat * nat))) (m : list (list T)) (t : T),
  ss_thresholdN le m t = map N.of_nat (ss_threshold le m t) /\
  ss_argmaxN am m = (o <- ss_argmax am m ;; Ok (option_map N.of_nat o)) /\
  (forall l, lin_thresholdN le t l = map N.of_nat (lin_threshold le t l)).
Proof.
  intros T le am m t. destruct (ss_N_agree le am m t) as [H1 H2]. split; [exact H1|]. split; [exact H2|].
  intros l. exact (lin_thresholdN_agree le t l).
Qed.

(* ================= linear Scores ================= *)

Theorem C07_linear_scores :
  forall (T : Type) (le : T -> T -> bool) (good : T -> Prop), preorder_on good le ->
  forall (l : list T) (t : T), Forall good l ->
  (exists o, lin_max le l = Ok o /\
     match o with None => l = [] | Some v => In v l /\ forall x, In x l -> le x v = true end) /\
  (exists o, lin_argmax le l = Ok o /\
     match o with
     | None => l = []
     | Some i => exists v, nth_error l i = Some v /\ forall x, In x l -> le x v = true
     end) /\
  NoDup (lin_threshold le t l) /\
  (forall k, In k (lin_threshold le t l) <-> exists v, nth_error l k = Some v /\ le t v = true).
Proof.
  intros T le good PO l t Hg. split; [|split].
  - exact (lin_max_ok le good PO l Hg).
  - exact (lin_argmax_ok le good PO l Hg).
  - exact (lin_threshold_ok le l t).
Qed.

(* StripedScores::unstripe / iter: position i of the linear view is scores[i], for
   i < min(max_index, rows * C) *)
Theorem C07_unstripe_spec :
  forall (T : Type) (C max_index : nat) (m : list (list T)), wf C m ->
  length (unstripe C max_index m) = Nat.min max_index (length m * C) /\
  forall i, i < Nat.min max_index (length m * C) ->
    exists x, nth_error (unstripe C max_index m) i = Some x /\ index_usize m i = Ok x.
Proof. intros T C mi m. exact (unstripe_spec C mi m). Qed.

(* Scores::{argmax,max,threshold} of scores.unstripe() are the arg-maximum / maximum /
   threshold set over the positions below min(max_index, rows * C) of the striped matrix *)
Theorem C07_linear_of_striped :
  forall (T : Type) (le : T -> T -> bool) (good : T -> Prop), preorder_on good le ->
  forall (C max_index : nat) (m : list (list T)) (t : T), wf C m -> all_good good m ->
  let n := Nat.min max_index (length m * C) in
  let l := unstripe C max_index m in
  (exists o, lin_argmax le l = Ok o /\
     match o with
     | None => n = 0
     | Some i => i < n /\ exists v, index_usize m i = Ok v /\
                 forall j y, j < n -> index_usize m j = Ok y -> le y v = true
     end) /\
  (exists o, lin_max le l = Ok o /\
     match o with
     | None => n = 0
     | Some v => (exists i, i < n /\ index_usize m i = Ok v) /\
                 forall j y, j < n -> index_usize m j = Ok y -> le y v = true
     end) /\
  (forall k, In k (lin_threshold le t l) <-> k < n /\ exists v, index_usize m k = Ok v /\ le t v = true).
Proof. intros T le good PO C mi m t. exact (linear_of_striped le good PO C mi m t). Qed.

(* ================= padding: wildcard column -inf ================= *)

(* the defined score of a window reaching past the end of the sequence is -inf
   (binary32 addition as it is; no term and no partial sum NaN or +inf) *)
Theorem C07_padding_score_neg_inf :
  forall (wild : nat) (dflt : F32.t) (pssm : list (list F32.t)) (s : list nat) (i : nat),
  (forall row, In row pssm -> nth wild row dflt = F32.ninf) ->
  0 < length pssm -> length s < i + length pssm ->
  terms_ok F32.add F32.zero wild dflt f32_okv pssm s i = true ->
  score_def F32.add F32.zero wild dflt pssm s i = F32.ninf.
Proof.
  intros wild dflt pssm s i.
  exact (padding_score_ninf F32.add F32.zero F32.ninf dflt wild f32_okv
           f32_add_ninf_r f32_add_ninf_l pssm s i).
Qed.

(* cells = defined scores (C01) ==> every cell past the last valid position holds -inf, and
   when some valid position is finite a maximum of the whole matrix is the maximum over the
   valid positions (held by one of them) and an arg-maximum designates a valid position.
   Valid positions: i + M <= L, i.e. i < L + 1 - M. *)
Theorem C07_padding_neg_inf :
  forall (wild : nat) (dflt : F32.t) (C : nat) (m : list (list F32.t)) (pssm : list (list F32.t)) (s : list nat),
  wf C m ->
  (forall i, i < length m * C -> index_usize m i = Ok (score_def F32.add F32.zero wild dflt pssm s i)) ->
  (forall row, In row pssm -> nth wild row dflt = F32.ninf) ->
  0 < length pssm ->
  (forall i, i < length m * C -> terms_ok F32.add F32.zero wild dflt f32_okv pssm s i = true) ->
  let V := length s + 1 - length pssm in
  (forall i, V <= i -> i < length m * C -> index_usize m i = Ok F32.ninf) /\
  ((exists i x, i < V /\ index_usize m i = Ok x /\ F32.is_finite x = true) ->
   (forall v, is_max F32.le m v ->
      (exists i, i < V /\ index_usize m i = Ok v) /\
      (forall j y, j < V -> index_usize m j = Ok y -> F32.le y v = true)) /\
   (forall rc, argmax_spec F32.le C m (Some rc) -> offset m rc < V)).
Proof.
  intros wild dflt C m pssm s Hwf Hcell Hw HM Hok V.
  assert (Hpad : forall i, V <= i -> i < length m * C -> index_usize m i = Ok F32.ninf).
  { intros i Hv Hi.
    apply (padding_cells F32.add F32.zero F32.ninf dflt wild f32_okv
             f32_add_ninf_r f32_add_ninf_l C m pssm s Hcell Hw HM Hok i); auto.
    unfold V in Hv. lia. }
  split; [exact Hpad|].
  intros (i0 & x & Hi0 & Hx & Hfin).
  assert (Hex : exists i x, i < V /\ index_usize m i = Ok x /\ F32.le x F32.ninf = false).
  { exists i0, x. repeat split; auto. apply f32_finite_not_le_ninf; auto. }
  split.
  - intros v Hv. exact (padding_max F32.le F32.ninf C V m v Hwf Hpad Hex Hv).
  - intros rc Hrc. exact (padding_argmax F32.le F32.ninf C V m rc Hwf Hpad Hex Hrc).
Qed.

(* the cell formula that C01_score_generic_cell (coq/score) proves for the score matrix of every
   backend is the hypothesis "cell = defined score" above (wildcard K-1, default value 0.0):
   C01's conclusion + a -inf wildcard column give the padding claim *)
Theorem C07_padding_from_C01_cells :
  forall (C K : nat) (m : list (list F32.t)) (pssm : list (list F32.t)) (s : list nat),
  wf C m ->
  (forall r c, r < length m -> c < C ->
     nth c (nth r m []) F32.zero =
     fold_left F32.add (map (fun j => nth (nth (c * length m + r + j) s (K - 1)) (nth j pssm []) F32.zero)
                            (seq 0 (length pssm))) F32.zero) ->
  (forall row, In row pssm -> nth (K - 1) row F32.zero = F32.ninf) ->
  0 < length pssm ->
  (forall i, i < length m * C -> terms_ok F32.add F32.zero (K - 1) F32.zero f32_okv pssm s i = true) ->
  let V := length s + 1 - length pssm in
  (forall i, V <= i -> i < length m * C -> index_usize m i = Ok F32.ninf) /\
  ((exists i x, i < V /\ index_usize m i = Ok x /\ F32.is_finite x = true) ->
   (forall v, is_max F32.le m v ->
      (exists i, i < V /\ index_usize m i = Ok v) /\
      (forall j y, j < V -> index_usize m j = Ok y -> F32.le y v = true)) /\
   (forall rc, argmax_spec F32.le C m (Some rc) -> offset m rc < V)).
Proof.
  intros C K m pssm s Hwf Hcell Hw HM Hok.
  exact (C07_padding_neg_inf (K - 1) F32.zero C m pssm s Hwf
           (cells_from_C01_shape F32.add F32.zero C K m pssm s Hwf Hcell) Hw HM Hok).
Qed.

(* ================= the extracted checker ================= *)

(* what [check_C07] establishes about the three answers of an entry point of the
   implementation (the threshold list may be reported in any order; the driver sorts it) *)
Theorem check_C07_sound :
  forall (T : Type) (le : T -> T -> bool) (C : nat) (m : list (list T)) (t : T)
         (omax : option T) (oam : option (nat * nat)) (reported sorted : list (nat * nat)),
  wf C m -> Permutation reported sorted ->
  check_C07 le m t omax oam sorted = true ->
  max_holds le m omax /\ argmax_spec le C m oam /\ threshold_spec le m t reported.
Proof. intros T le C m t omax oam reported sorted. exact (MaxiTop.check_C07_sound le C m t omax oam reported sorted). Qed.

(* answers meeting the specifications always pass (no false alarm), in particular the model's *)
Theorem check_C07_complete :
  forall (T : Type) (le : T -> T -> bool) (good : T -> Prop), preorder_on good le ->
  forall (C : nat) (m : list (list T)) (t : T) omax oam,
  all_good good m -> max_spec le m omax -> argmax_spec le C m oam ->
  check_C07 le m t omax oam (threshold_generic le m t) = true.
Proof. intros T le good PO C m t omax oam. exact (MaxiTop.check_C07_complete le good PO C m t omax oam). Qed.

Theorem model_passes_C07 :
  forall (T : Type) (le : T -> T -> bool) (good : T -> Prop), preorder_on good le ->
  forall (C : nat) (m : list (list T)) (t : T), 0 < C -> wf C m -> all_good good m ->
  exists omax oam, max_generic le m = Ok omax /\ argmax_generic le m = Ok oam /\
    check_C07 le m t omax oam (threshold_generic le m t) = true.
Proof. intros T le good PO C m t. exact (MaxiTop.model_passes_C07 le good PO C m t). Qed.

Theorem check_padding_sound :
  forall (T : Type) (is_ninf : T -> bool) (m : list (list T)) (V n : nat),
  check_padding is_ninf m V n = true ->
  forall i, V <= i -> i < n -> exists x, index_usize m i = Ok x /\ is_ninf x = true.
Proof. intros T is_ninf m V n. exact (MaxiTop.check_padding_sound is_ninf m V n). Qed.

(* the end-to-end padding checker: every cell with index in V .. n-1 is -inf and, when some
   valid cell is finite, the reported maximum is the maximum of the valid cells (equal as a value
   to one of them, above all of them) and the reported arg-maximum offset is a valid position *)
Theorem check_padding_max_sound :
  forall (T : Type) (le : T -> T -> bool) (is_ninf is_fin : T -> bool) (m : list (list T)) (V n : nat)
         (omax : option T) (oam : option nat),
  check_padding_max le is_ninf is_fin m V n omax oam = true ->
  (forall i, V <= i -> i < n -> exists x, index_usize m i = Ok x /\ is_ninf x = true) /\
  ((exists i x, i < V /\ index_usize m i = Ok x /\ is_fin x = true) ->
   (exists v, omax = Some v /\
      (exists i x, i < V /\ index_usize m i = Ok x /\ le x v = true /\ le v x = true) /\
      (forall j y, j < V -> index_usize m j = Ok y -> le y v = true)) /\
   (exists off, oam = Some off /\ off < V)).
Proof. intros T le is_ninf is_fin m V n omax oam. exact (MaxiTop.check_padding_max_sound le is_ninf is_fin m V n omax oam). Qed.

(* ... and it raises no false alarm: when the padding cells are -inf, a maximum and an
   arg-maximum meeting their specifications pass it *)
Theorem check_padding_max_complete :
  forall (T : Type) (le : T -> T -> bool) (good : T -> Prop), preorder_on good le ->
  forall (is_ninf is_fin : T -> bool) (ninf : T) (C : nat) (m : list (list T)) (V : nat)
         (omax : option T) (o : option (nat * nat)),
  wf C m -> all_good good m ->
  is_ninf ninf = true -> (forall x, is_fin x = true -> le x ninf = false) ->
  (forall i, V <= i -> i < length m * C -> index_usize m i = Ok ninf) ->
  max_spec le m omax -> argmax_spec le C m o ->
  check_padding_max le is_ninf is_fin m V (length m * C) omax (option_map (offset m) o) = true.
Proof.
  intros T le good PO is_ninf is_fin ninf C m V omax o.
  exact (MaxiTop.check_padding_max_complete le good PO is_ninf is_fin ninf C m V omax o).
Qed.

(* ================= reused score buffers (round 3, seeded/C07/6) =================
   A StripedScores buffer is a backing vector of rows + a row count (MaxiBuffer.v: dense.rs
   DenseMatrix { data, rows }).  The default scalar scans walk `matrix().iter()` -- the whole
   backing vector -- while the vector kernels, Index and offset() use rows().  Whatever the buffer
   held before (any sequence of StripedScores::resize / DenseMatrix::resize to more or fewer rows
   and of cell writes, from the empty buffer), iter() yields exactly rows 0..rows(), so every
   answer is the answer of MaxiModel.v's function on the logical rows alone. *)
Theorem C07_history_independent :
  forall (T : Type) (le : T -> T -> bool) (dflt : T) (C : nat) (ops : list (@bop T)) (b : @buffer T),
  b_run C (vec_resize dflt C) b_empty ops = Ok b ->
  length (b_iter b) = brows b /\
  b_iter b = b_logical b /\
  buf_argmax_generic le b = argmax_generic le (b_logical b) /\
  buf_max_generic le b = max_generic le (b_logical b) /\
  (forall t, buf_threshold_generic le b t = threshold_generic le (b_logical b) t) /\
  (forall rc, buf_offset b rc = offset (b_logical b) rc) /\
  (forall i, buf_index_usize b i = index_usize (b_logical b) i).
Proof. intros T le dflt C. exact (history_independent le dflt C). Qed.

(* two buffers with different pasts and the same rows 0..rows() give the same answers *)
Theorem C07_history_same_logical :
  forall (T : Type) (le : T -> T -> bool) (dflt : T) (C : nat) (ops1 ops2 : list (@bop T)) (b1 b2 : @buffer T),
  b_run C (vec_resize dflt C) b_empty ops1 = Ok b1 ->
  b_run C (vec_resize dflt C) b_empty ops2 = Ok b2 ->
  b_logical b1 = b_logical b2 ->
  buf_argmax_generic le b1 = buf_argmax_generic le b2 /\
  buf_max_generic le b1 = buf_max_generic le b2 /\
  (forall t, buf_threshold_generic le b1 t = buf_threshold_generic le b2 t) /\
  (forall rc, buf_offset b1 rc = buf_offset b2 rc).
Proof. intros T le dflt C. exact (same_logical_same_answers le dflt C). Qed.

(* the property itself on a reused buffer: maximum / arg-maximum / threshold of the default
   implementations meet the specifications of the matrix made of rows 0..rows() *)
Theorem C07_history_answers_meet_spec :
  forall (T : Type) (le : T -> T -> bool) (dflt : T) (C : nat) (good : T -> Prop),
  preorder_on good le -> 0 < C ->
  forall (ops : list (@bop T)) (b : @buffer T),
  b_run C (vec_resize dflt C) b_empty ops = Ok b -> all_good good (b_logical b) ->
  wf C (b_logical b) /\ length (b_logical b) = brows b /\
  (exists o, buf_max_generic le b = Ok o /\ max_spec le (b_logical b) o) /\
  (exists o, buf_argmax_generic le b = Ok o /\ argmax_spec le C (b_logical b) o) /\
  (forall t, threshold_spec le (b_logical b) t (buf_threshold_generic le b t)).
Proof. intros T le dflt C. exact (history_answers_meet_spec le dflt C). Qed.

Theorem C07_history_f32 :
  forall (C : nat), 0 < C -> forall (ops : list (@bop F32.t)) (b : @buffer F32.t),
  b_run C (vec_resize F32.zero C) b_empty ops = Ok b -> all_good f32_good (b_logical b) ->
  (exists o, buf_max_generic F32.le b = Ok o /\ max_spec F32.le (b_logical b) o) /\
  (exists o, buf_argmax_generic F32.le b = Ok o /\ argmax_spec F32.le C (b_logical b) o) /\
  (forall t, threshold_spec F32.le (b_logical b) t (buf_threshold_generic F32.le b t)).
Proof.
  intros C HC ops b H G.
  exact (proj2 (proj2 (history_answers_meet_spec F32.le F32.zero C f32_good
                         (of_preorder _ _ _ _ _ _ f32_order_facts) HC ops b H G))).
Qed.

Theorem C07_history_u8 :
  forall (C : nat), 0 < C -> forall (ops : list (@bop Z)) (b : @buffer Z),
  b_run C (vec_resize 0%Z C) b_empty ops = Ok b -> all_good zgood (b_logical b) ->
  (exists o, buf_max_generic Z.leb b = Ok o /\ max_spec Z.leb (b_logical b) o) /\
  (exists o, buf_argmax_generic Z.leb b = Ok o /\ argmax_spec Z.leb C (b_logical b) o) /\
  (forall t, threshold_spec Z.leb (b_logical b) t (buf_threshold_generic Z.leb b t)).
Proof.
  intros C HC ops b H G.
  exact (proj2 (proj2 (history_answers_meet_spec Z.leb 0%Z C zgood zle_preorder HC ops b H G))).
Qed.

(* every arm of the dispatcher on a reused buffer (the Generic arm and the arms without a kernel
   of their own run the default scans over matrix().iter(), the SSE2 / AVX2 kernels walk rows
   0..rows()): the same answers as on the logical rows, hence the specification -- Threshold has
   only the default implementation, on every arm *)
Theorem C07_history_dispatch_f32 :
  forall (T : Type) (le lt : T -> T -> bool) (vmax smax : T -> T -> T) (ninf dflt : T) (C : nat)
         (ops : list (@bop T)) (b : @buffer T),
  b_run C (vec_resize dflt C) b_empty ops = Ok b ->
  forall (a : arm) (mi : N) (t : T),
  buf_dispatch_argmax_f32 le lt ninf a mi b = dispatch_argmax_f32 le lt ninf a mi (b_logical b) /\
  buf_dispatch_max_f32 le vmax smax a b = dispatch_max_f32 le vmax smax a (b_logical b) /\
  buf_dispatch_threshold le a b t = dispatch_threshold le a (b_logical b) t.
Proof. intros T le lt vmax smax ninf dflt C. exact (history_dispatch_f32 le lt vmax smax ninf dflt C). Qed.

Theorem C07_history_dispatch_u8 :
  forall (C : nat) (ops : list (@bop Z)) (b : @buffer Z),
  b_run C (vec_resize 0%Z C) b_empty ops = Ok b ->
  forall (a : arm),
  buf_dispatch_argmax_u8 a b = dispatch_argmax_u8 a (b_logical b) /\
  buf_dispatch_max_u8 a b = dispatch_max_u8 a (b_logical b).
Proof. exact history_dispatch_u8. Qed.

Theorem C07_history_all_arms_f32 :
  forall (ops : list (@bop F32.t)) (b : @buffer F32.t) (a : arm) (max_index : N) (t : F32.t),
  b_run 32 (vec_resize F32.zero 32) b_empty ops = Ok b ->
  all_good f32_good (b_logical b) -> rows_fit32 (b_logical b) -> index_fits32 max_index ->
  (exists o, buf_dispatch_argmax_f32 F32.le F32.lt F32.ninf a max_index b = Ok o /\ argmax_spec F32.le 32 (b_logical b) o) /\
  (exists o, buf_dispatch_max_f32 F32.le F32.max_x86 F32.max a b = Ok o /\ max_spec F32.le (b_logical b) o) /\
  threshold_spec F32.le (b_logical b) t (buf_dispatch_threshold F32.le a b t).
Proof. exact history_all_arms_f32. Qed.

Theorem C07_history_all_arms_u8 :
  forall (ops : list (@bop Z)) (b : @buffer Z) (a : arm) (t : Z),
  b_run 32 (vec_resize 0%Z 32) b_empty ops = Ok b -> u8_matrix (b_logical b) ->
  (rows_fit16 (b_logical b) -> exists o, buf_dispatch_argmax_u8 a b = Ok o /\ argmax_spec Z.leb 32 (b_logical b) o) /\
  (exists o, buf_dispatch_max_u8 a b = Ok o /\ max_spec Z.leb (b_logical b) o) /\
  threshold_spec Z.leb (b_logical b) t (buf_dispatch_threshold Z.leb a b t).
Proof. exact history_all_arms_u8. Qed.

(* shrinking drops the last rows for good: growing again exposes default rows, never what the
   buffer held before (resize to n <= rows, then to k >= n) *)
Theorem C07_history_shrink_then_grow :
  forall (T : Type) (dflt : T) (C : nat) (ops : list (@bop T)) (b : @buffer T) (n k : nat),
  b_run C (vec_resize dflt C) b_empty ops = Ok b -> n <= brows b -> n <= k ->
  b_logical (dm_resize (vec_resize dflt C) (dm_resize (vec_resize dflt C) b n) k)
  = firstn n (b_logical b) ++ repeat (repeat dflt C) (k - n).
Proof.
  intros T dflt C ops b n k H. apply (shrink_then_grow dflt C).
  eapply (b_run_inv dflt C); [apply binv_empty | exact H].
Qed.

(* a resize that only ever grows the backing vector (seeded/C07/6) is refuted: 2 rows of 9s,
   shrunk to 1 row rewritten with 1s -- maximum 9 at cell (1,1) and two threshold hits in row 1 of
   a one-row matrix whose largest value is 1; the code as it is answers 1 at (0,1), no hit *)
Theorem C07_resize_grow_only_refuted :
  exists b, b_run 2 (vec_resize_grow_only 0%Z 2) b_empty stale_ops = Ok b /\
            b_logical b = [[1; 1]]%Z /\
            buf_max_generic Z.leb b = Ok (Some 9%Z) /\
            buf_argmax_generic Z.leb b = Ok (Some (1, 1)) /\
            buf_threshold_generic Z.leb b 5%Z = [(1, 0); (1, 1)] /\
            max_generic Z.leb (b_logical b) = Ok (Some 1%Z).
Proof. exact grow_only_refuted. Qed.

Theorem C07_history_example :
  exists b, b_run 2 (vec_resize 0%Z 2) b_empty stale_ops = Ok b /\
            b_logical b = [[1; 1]]%Z /\
            buf_max_generic Z.leb b = Ok (Some 1%Z) /\
            buf_argmax_generic Z.leb b = Ok (Some (0, 1)) /\
            buf_threshold_generic Z.leb b 5%Z = [].
Proof. exact as_coded_on_stale_ops. Qed.

(* ================= statement pins ================= *)

Check C07_max_spec :
  forall (T : Type) (le : T -> T -> bool) (good : T -> Prop), preorder_on good le ->
  forall (C : nat) (m : list (list T)), 0 < C -> wf C m -> all_good good m ->
  exists o, max_generic le m = Ok o /\ max_spec le m o.
Check C07_argmax_spec :
  forall (T : Type) (le : T -> T -> bool) (good : T -> Prop), preorder_on good le ->
  forall (C : nat) (m : list (list T)), 0 < C -> wf C m -> all_good good m ->
  exists o, argmax_generic le m = Ok o /\ argmax_spec le C m o.
Check C07_threshold_spec :
  forall (T : Type) (le : T -> T -> bool) (m : list (list T)) (t : T),
  threshold_spec le m t (threshold_generic le m t).
Check C07_max_f32_avx2_eq_spec :
  forall (T : Type) (good : T -> Prop) (le lt : T -> T -> bool) (vmax smax : T -> T -> T) (ninf : T),
  order_facts good le lt vmax smax ninf ->
  forall (m : list (list T)), wf 32 m -> all_good good m ->
  exists o, max_f32_avx2 vmax smax m = Ok o /\ max_spec le m o.
Check C07_argmax_u8_avx2_eq_spec :
  forall (m : list (list Z)), wf 32 m -> u8_matrix m -> rows_fit16 m ->
  exists o, argmax_u8_avx2 m = Ok o /\ argmax_spec Z.leb 32 m o.
Check C07_f32_order : order_facts f32_good F32.le F32.lt F32.max_x86 F32.max F32.ninf.
Check C07_f32_all_arms :
  forall (a : arm) (max_index : N) (m : list (list F32.t)) (t : F32.t),
  wf 32 m -> all_good f32_good m -> rows_fit32 m -> index_fits32 max_index ->
  (exists o, dispatch_argmax_f32 F32.le F32.lt F32.ninf a max_index m = Ok o /\ argmax_spec F32.le 32 m o) /\
  (exists o, dispatch_max_f32 F32.le F32.max_x86 F32.max a m = Ok o /\ max_spec F32.le m o) /\
  threshold_spec F32.le m t (dispatch_threshold F32.le a m t).
Check check_C07_sound :
  forall (T : Type) (le : T -> T -> bool) (C : nat) (m : list (list T)) (t : T)
         (omax : option T) (oam : option (nat * nat)) (reported sorted : list (nat * nat)),
  wf C m -> Permutation reported sorted ->
  check_C07 le m t omax oam sorted = true ->
  max_holds le m omax /\ argmax_spec le C m oam /\ threshold_spec le m t reported.

Check C07_history_independent :
  forall (T : Type) (le : T -> T -> bool) (dflt : T) (C : nat) (ops : list (@bop T)) (b : @buffer T),
  b_run C (vec_resize dflt C) b_empty ops = Ok b ->
  length (b_iter b) = brows b /\
  b_iter b = b_logical b /\
  buf_argmax_generic le b = argmax_generic le (b_logical b) /\
  buf_max_generic le b = max_generic le (b_logical b) /\
  (forall t, buf_threshold_generic le b t = threshold_generic le (b_logical b) t) /\
  (forall rc, buf_offset b rc = offset (b_logical b) rc) /\
  (forall i, buf_index_usize b i = index_usize (b_logical b) i).
(* the buffer model, spelled out: resize_with truncates / appends default rows; iter() is the
   whole backing vector; the logical rows are its first rows() rows *)
Check (fun (T : Type) (dflt : T) (C : nat) (d : list (list T)) (n : nat) =>
  eq_refl : vec_resize dflt C d n = firstn n d ++ repeat (repeat dflt C) (n - length d)).
Check (fun (T : Type) (b : @buffer T) =>
  conj eq_refl eq_refl : b_iter b = bdata b /\ b_logical b = firstn (brows b) (bdata b)).

(* the specifications, spelled out (so that a change of a definition is visible here) *)
Check (fun (T : Type) (le : T -> T -> bool) (m : list (list T)) (v : T) =>
  eq_refl : max_spec le m (Some v) =
            (m <> [] /\ (In v (cells m) /\ forall x, In x (cells m) -> le x v = true))).
Check (fun (T : Type) (le : T -> T -> bool) (C : nat) (m : list (list T)) (rc : nat * nat) =>
  eq_refl : argmax_spec le C m (Some rc) =
            (m <> [] /\ fst rc < length m /\ snd rc < C /\
             exists v, get m (fst rc) (snd rc) = Ok v /\ forall x, In x (cells m) -> le x v = true)).
Check (fun (T : Type) (le : T -> T -> bool) (m : list (list T)) (t : T) (l : list (nat * nat)) =>
  eq_refl : threshold_spec le m t l =
            (NoDup l /\ forall r c, In (r, c) l <-> exists v, get m r c = Ok v /\ le t v = true)).
Check (fun (T : Type) (le : T -> T -> bool) (C : nat) (m : list (list T)) =>
  conj eq_refl eq_refl : max_spec le m None = (m = []) /\ argmax_spec le C m None = (m = [])).

(* ================= non-vacuity ================= *)

Definition f32b (z : Z) : F32.t := F32.of_bits z.
(* -1.0 = 0xBF800000, -7.5 = 0xC0F00000, -0.25 = 0xBE800000 *)
Definition neg1 := f32b 3212836864.
Definition neg7_5 := f32b 3236954112.
Definition neg0_25 := f32b 3196059648.

(* an all-negative matrix of 3 rows whose unique maximum -0.25 is at (1, 17): the witness
   family of the two repaired AVX2 defects (max_f32 started from 0.0; argmax_u8 lanes) *)
Definition ex_row (v : F32.t) (c : nat) : list F32.t := repeat neg7_5 c ++ v :: repeat neg7_5 (31 - c).
Definition ex_m : list (list F32.t) := [ex_row neg1 3; ex_row neg0_25 17; repeat neg7_5 32].

Example C07_hypotheses_satisfiable :
  wf 32 ex_m /\ all_good f32_good ex_m /\ rows_fit32 ex_m /\ index_fits32 96.
Proof.
  split; [|split; [|split]].
  - repeat constructor.
  - apply (forallb_Forall (fun y => negb (F32.is_nan y))).
    + intros x Hx. unfold f32_good. destruct (F32.is_nan x); [discriminate|reflexivity].
    + vm_compute. reflexivity.
  - unfold rows_fit32. cbn. discriminate.
  - unfold index_fits32. cbn. discriminate.
Qed.

(* all three arms on it: arg-maximum (1, 17), maximum -0.25 (bits 0xBE800000), cells >= -1.0 *)
Example C07_f32_arms_on_example :
  forall a,
    dispatch_argmax_f32 F32.le F32.lt F32.ninf a 96 ex_m = Ok (Some (1, 17)) /\
    match dispatch_max_f32 F32.le F32.max_x86 F32.max a ex_m with
    | Ok (Some v) => F32.to_bits v = 3196059648%Z
    | _ => False
    end /\
    dispatch_threshold F32.le a ex_m neg1 = [(0, 3); (1, 17)].
Proof. intros a; destruct a; vm_compute; repeat split; reflexivity. Qed.

Definition ex_u8 : list (list Z) :=
  [repeat 3%Z 32; repeat 3%Z 17 ++ 200%Z :: repeat 3%Z 14; repeat 3%Z 31 ++ [200%Z]].

Example C07_u8_arms_on_example :
  wf 32 ex_u8 /\ u8_matrix ex_u8 /\ rows_fit16 ex_u8 /\
  forall a, dispatch_argmax_u8 a ex_u8 = Ok (Some (2, 31)) /\ dispatch_max_u8 a ex_u8 = Ok (Some 200%Z).
Proof.
  split; [repeat constructor|]. split.
  - apply (forallb_Forall (fun y => Z.leb 0 y && Z.leb y 255)).
    + intros x Hx. apply andb_true_iff in Hx. destruct Hx as [H1 H2]. apply Z.leb_le in H1, H2. lia.
    + vm_compute. reflexivity.
  - split; [unfold rows_fit16; cbn; discriminate|].
    intros a; destruct a; vm_compute; split; reflexivity.
Qed.

(* the padding theorem's hypotheses hold for a real instance: motif of width 2 with a -inf
   wildcard column, sequence ACGT (symbols A=0 C=1 T=2 G=3), one row of 32 cells *)
Definition ex_pssm : list (list F32.t) :=
  [[neg1; neg0_25; neg7_5; neg1; F32.ninf]; [neg0_25; neg1; neg1; neg7_5; F32.ninf]].
Definition ex_seq : list nat := [0; 1; 3; 2].
Definition ex_score (i : nat) : F32.t := score_def F32.add F32.zero 4 F32.nan ex_pssm ex_seq i.
Definition ex_scores : list (list F32.t) := [map ex_score (seq 0 32)].

Example C07_padding_instance :
  wf 32 ex_scores /\
  (forall i, i < length ex_scores * 32 ->
     index_usize ex_scores i = Ok (score_def F32.add F32.zero 4 F32.nan ex_pssm ex_seq i)) /\
  (forall row, In row ex_pssm -> nth 4 row F32.nan = F32.ninf) /\
  0 < length ex_pssm /\
  (forall i, i < length ex_scores * 32 -> terms_ok F32.add F32.zero 4 F32.nan f32_okv ex_pssm ex_seq i = true) /\
  (exists i x, i < length ex_seq + 1 - length ex_pssm /\ index_usize ex_scores i = Ok x /\ F32.is_finite x = true) /\
  check_padding f32_is_ninf ex_scores 3 32 = true /\
  F32.to_bits (ex_score 0) = 3221225472%Z.                      (* -1.0 + -1.0 = -2.0 *)
Proof.
  assert (Hidx : forall i, i < 32 -> index_usize ex_scores i = Ok (ex_score i)).
  { intros i Hi. unfold ex_scores, index_usize, get. cbn [length].
    rewrite Nat.mod_1_r, Nat.div_1_r. cbn [nth_error].
    assert (E : nth_error (seq 0 32) i = Some i).
    { rewrite (nth_error_nth' _ 0) by (rewrite seq_length; lia). rewrite seq_nth by lia. reflexivity. }
    rewrite (map_nth_error ex_score i (seq 0 32) E). reflexivity. }
  split; [repeat constructor|].
  split; [intros i Hi; apply Hidx; exact Hi|].
  split; [intros row [<-|[<-|[]]]; reflexivity|].
  split; [cbn; lia|].
  split.
  { intros i Hi.
    assert (H : forallb (fun i => terms_ok F32.add F32.zero 4 F32.nan f32_okv ex_pssm ex_seq i) (seq 0 32) = true)
      by (vm_compute; reflexivity).
    rewrite forallb_forall in H. apply H. apply in_seq. cbn in Hi. lia. }
  split.
  { exists 0, (ex_score 0). split; [cbn; lia|]. split; [apply Hidx; lia|]. vm_compute. reflexivity. }
  split; vm_compute; reflexivity.
Qed.

(* ================= the specifications discriminate: the two repaired defects ================= *)

(* max_f32_avx2 as it was before the fix (accumulators start from 0.0 instead of the first
   row): on the all-negative example it answers 0.0, which [max_spec] rejects *)
Definition max_f32_avx2_zero_init (m : list (list F32.t)) : res (option F32.t) :=
  match m with
  | [] => Ok None
  | _ :: _ =>
      let regs := fold_left (fun acc row => map2 (map2 F32.max_x86) acc (load4x8 row)) m
                            (load4x8 (repeat F32.zero 32)) in
      match regs with
      | [m1; m2; m3; m4] =>
          match map2 F32.max_x86 (map2 F32.max_x86 m1 m2) (map2 F32.max_x86 m3 m4) with
          | [] => Panic 23
          | x0 :: rest => Ok (Some (fold_left F32.max rest x0))
          end
      | _ => Panic 23
      end
  end.

Example C07_max_f32_zero_init_refuted :
  max_f32_avx2_zero_init ex_m = Ok (Some F32.zero) /\ ~ max_spec F32.le ex_m (Some F32.zero).
Proof.
  split; [vm_compute; reflexivity|]. intros H.
  destruct C07_hypotheses_satisfiable as (_ & Hg & _).
  apply (check_max_complete F32.le f32_good f32_preorder ex_m _ Hg) in H.
  vm_compute in H. discriminate.
Qed.

(* argmax_u8_avx2 as it was before the fix (p1 / p2 stored without restoring the column
   order): on a matrix whose maximum is at (0, 17) it designates another cell *)
Definition argmax_u8_avx2_unpermuted (m : list (list Z)) : res (option (nat * nat)) :=
  match m with
  | [] => Ok None
  | _ =>
      let st0 : u8_vstate := ((repeat (-1)%Z 16, repeat (-1)%Z 16), (repeat O 16, repeat O 16)) in
      let '(_, (p1, p2)) := fold_left argmax_u8_vstep (enumerate m) st0 in
      ks <- u8_keys m 0 (p1 ++ p2) ;;
      match ks with
      | [] => Panic 23
      | k0 :: rest => Ok (Some (fst (fold_left (pick_ge Z.leb) rest k0)))
      end
  end.

Definition ex_u8_17 : list (list Z) := [repeat 3%Z 17 ++ 200%Z :: repeat 3%Z 14; repeat 3%Z 32].

Example C07_argmax_u8_unpermuted_refuted :
  argmax_u8_avx2 ex_u8_17 = Ok (Some (0, 17)) /\
  exists rc, argmax_u8_avx2_unpermuted ex_u8_17 = Ok (Some rc) /\ rc <> (0, 17) /\
             ~ argmax_spec Z.leb 32 ex_u8_17 (Some rc).
Proof.
  split; [vm_compute; reflexivity|]. eexists. split; [vm_compute; reflexivity|]. split; [discriminate|].
  intros H. apply (check_argmax_complete Z.leb 32) in H. vm_compute in H. discriminate.
Qed.
