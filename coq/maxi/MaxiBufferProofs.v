(* Proofs about the reused score buffer of MaxiBuffer.v: whatever the history of a buffer
   (resize to more / fewer rows, cell writes, in any order), the backing vector holds exactly
   rows() rows, so that the default scalar scans (which walk matrix().iter()) see the logical
   rows only and every answer is a function of the logical rows. *)
From Coq Require Import List Arith Bool NArith ZArith Lia.
From LMBase Require Import Res.
From LMBase Require Import IEEE.
From LMMaxi Require Import MaxiModel MaxiProofs MaxiKernels MaxiIEEE MaxiTop MaxiBuffer.
Import ListNotations.

Section BufferProofs.
  Context {T : Type}.
  Variable le : T -> T -> bool.
  Variable dflt : T.
  Variable C : nat.

  Notation buffer := (@buffer T).
  Notation vec_resize := (@vec_resize T dflt C).
  Notation b_step := (@b_step T C vec_resize).
  Notation b_run := (@b_run T C vec_resize).

  Definition binv (b : buffer) : Prop :=
    length (bdata b) = brows b /\ Forall (fun r => length r = C) (bdata b).

  Lemma In_firstn_incl_local : forall (A : Type) n (l : list A) x, In x (firstn n l) -> In x l.
  Proof.
    intros A n l x H. rewrite <- (firstn_skipn n l). apply in_or_app. now left.
  Qed.

  Lemma vec_resize_length : forall d n, length (vec_resize d n) = n.
  Proof.
    intros d n. unfold MaxiBuffer.vec_resize.
    rewrite app_length, firstn_length, repeat_length. lia.
  Qed.

  Lemma vec_resize_rows : forall d n,
    Forall (fun r => length r = C) d -> Forall (fun r => length r = C) (vec_resize d n).
  Proof.
    intros d n H. unfold MaxiBuffer.vec_resize. apply Forall_app. split.
    - rewrite Forall_forall in *. intros x Hx. apply H. eapply In_firstn_incl_local; eauto.
    - rewrite Forall_forall. intros x Hx. apply repeat_spec in Hx. subst x.
      unfold row0. apply repeat_length.
  Qed.

  Lemma binv_empty : binv (@b_empty T).
  Proof. split; [reflexivity | constructor]. Qed.

  Lemma forallb_rows_len : forall (rows : list (list T)),
    forallb (fun row => length row =? C) rows = true -> Forall (fun r => length r = C) rows.
  Proof.
    intros rows H. rewrite forallb_forall in H. rewrite Forall_forall. intros x Hx.
    apply H in Hx. now apply Nat.eqb_eq in Hx.
  Qed.

  Lemma b_step_inv : forall b o b', binv b -> b_step b o = Ok b' -> binv b'.
  Proof.
    intros b o b' [Hl Hr] H. destruct o as [n mi | n | r c v | rows]; unfold MaxiBuffer.b_step, dm_resize in H.
    - inversion H; subst; clear H. split; cbn [bdata brows bmi].
      + apply vec_resize_length.
      + now apply vec_resize_rows.
    - inversion H; subst; clear H. split; cbn [bdata brows bmi].
      + apply vec_resize_length.
      + now apply vec_resize_rows.
    - destruct (nth_error (bdata b) r) as [row|] eqn:Er; [|discriminate].
      destruct (c <? length row) eqn:Ec; [|discriminate].
      inversion H; subst; clear H. apply Nat.ltb_lt in Ec.
      change (match bdata b with [] => [] | _ :: l => skipn r l end) with (skipn (S r) (bdata b)).
      change (match row with [] => [] | _ :: l => skipn c l end) with (skipn (S c) row).
      assert (Hrl : r < length (bdata b)) by (apply nth_error_Some; congruence).
      split; cbn [bdata brows bmi].
      + rewrite app_length, firstn_length. cbn [length]. rewrite skipn_length. lia.
      + apply Forall_app. split.
        * rewrite Forall_forall in *. intros x Hx. apply Hr. eapply In_firstn_incl_local; eauto.
        * constructor.
          -- assert (Hrow : length row = C).
             { rewrite Forall_forall in Hr. apply Hr. eapply nth_error_In; eauto. }
             rewrite app_length, firstn_length. cbn [length]. rewrite skipn_length. lia.
          -- rewrite Forall_forall in *. intros x Hx. apply Hr.
             rewrite <- (firstn_skipn (S r) (bdata b)). apply in_or_app. now right.
    - destruct (length (bdata b) <? length rows) eqn:El; [discriminate|].
      destruct (forallb (fun row => length row =? C) rows) eqn:Ef; [|discriminate].
      inversion H; subst; clear H. apply Nat.ltb_ge in El. split; cbn [bdata brows bmi].
      + rewrite app_length, skipn_length. lia.
      + apply Forall_app. split.
        * now apply forallb_rows_len.
        * rewrite Forall_forall in *. intros x Hx. apply Hr.
          rewrite <- (firstn_skipn (length rows) (bdata b)). apply in_or_app. now right.
  Qed.

  Lemma b_run_inv : forall ops b b', binv b -> b_run b ops = Ok b' -> binv b'.
  Proof.
    induction ops as [|o rest IH]; intros b b' Hb H; cbn in H.
    - inversion H; subst. exact Hb.
    - destruct (b_step b o) as [b1| | |] eqn:E; cbn in H; try discriminate.
      eapply IH; [|exact H]. eapply b_step_inv; eauto.
  Qed.

  (* matrix().iter() yields exactly the rows 0..rows() *)
  Lemma iter_is_logical : forall b, binv b -> b_iter b = b_logical b.
  Proof.
    intros b [Hl _]. unfold b_iter, b_logical. rewrite <- Hl. now rewrite firstn_all.
  Qed.

  Lemma logical_length : forall b, binv b -> length (b_logical b) = brows b.
  Proof.
    intros b Hb. rewrite <- iter_is_logical by exact Hb. apply Hb.
  Qed.

  (* the entry points as written = the functions of MaxiModel.v on the logical rows *)
  Lemma buf_argmax_generic_logical : forall b, binv b ->
    buf_argmax_generic le b = argmax_generic le (b_logical b).
  Proof.
    intros b Hb. pose proof (iter_is_logical b Hb) as Hi. pose proof Hb as [Hl _].
    unfold buf_argmax_generic, buf_index_usize, argmax_generic, index_usize.
    rewrite <- Hi. unfold b_iter in *. rewrite Hl.
    destruct (brows b) as [|k] eqn:Ek.
    - destruct (bdata b); [reflexivity | cbn in Hl; discriminate].
    - destruct (bdata b) as [|row rest] eqn:Ed; [cbn in Hl; discriminate|]. reflexivity.
  Qed.

  Lemma buf_max_generic_logical : forall b, binv b ->
    buf_max_generic le b = max_generic le (b_logical b).
  Proof.
    intros b Hb. unfold buf_max_generic, max_generic.
    rewrite buf_argmax_generic_logical by exact Hb.
    rewrite <- (iter_is_logical b Hb). reflexivity.
  Qed.

  Lemma buf_threshold_generic_logical : forall b t, binv b ->
    buf_threshold_generic le b t = threshold_generic le (b_logical b) t.
  Proof.
    intros b t Hb. unfold buf_threshold_generic, threshold_generic.
    now rewrite (iter_is_logical b Hb).
  Qed.

  Lemma buf_offset_logical : forall b rc, binv b -> buf_offset b rc = offset (b_logical b) rc.
  Proof.
    intros b rc Hb. unfold buf_offset, offset. now rewrite logical_length.
  Qed.

  Lemma buf_index_usize_logical : forall b i, binv b ->
    buf_index_usize b i = index_usize (b_logical b) i.
  Proof.
    intros b i Hb. unfold buf_index_usize, index_usize.
    rewrite logical_length by exact Hb. now rewrite <- (iter_is_logical b Hb).
  Qed.

  (* the main statement: after ANY history from the empty buffer *)
  Theorem history_independent : forall ops b,
    b_run (@b_empty T) ops = Ok b ->
    length (b_iter b) = brows b /\
    b_iter b = b_logical b /\
    buf_argmax_generic le b = argmax_generic le (b_logical b) /\
    buf_max_generic le b = max_generic le (b_logical b) /\
    (forall t, buf_threshold_generic le b t = threshold_generic le (b_logical b) t) /\
    (forall rc, buf_offset b rc = offset (b_logical b) rc) /\
    (forall i, buf_index_usize b i = index_usize (b_logical b) i).
  Proof.
    intros ops b H. assert (Hb : binv b) by (eapply b_run_inv; [apply binv_empty | exact H]).
    split; [apply Hb|]. split; [now apply iter_is_logical|].
    split; [now apply buf_argmax_generic_logical|].
    split; [now apply buf_max_generic_logical|].
    split; [intro t; now apply buf_threshold_generic_logical|].
    split; [intro rc; now apply buf_offset_logical | intro i; now apply buf_index_usize_logical].
  Qed.

  (* two buffers with different pasts and the same logical rows answer alike *)
  Theorem same_logical_same_answers : forall ops1 ops2 b1 b2,
    b_run (@b_empty T) ops1 = Ok b1 -> b_run (@b_empty T) ops2 = Ok b2 ->
    b_logical b1 = b_logical b2 ->
    buf_argmax_generic le b1 = buf_argmax_generic le b2 /\
    buf_max_generic le b1 = buf_max_generic le b2 /\
    (forall t, buf_threshold_generic le b1 t = buf_threshold_generic le b2 t) /\
    (forall rc, buf_offset b1 rc = buf_offset b2 rc).
  Proof.
    intros ops1 ops2 b1 b2 H1 H2 E.
    destruct (history_independent _ _ H1) as (_ & _ & A1 & M1 & T1 & O1 & _).
    destruct (history_independent _ _ H2) as (_ & _ & A2 & M2 & T2 & O2 & _).
    rewrite A1, A2, M1, M2, E. repeat split; try reflexivity.
    - intro t. now rewrite T1, T2, E.
    - intro rc. now rewrite O1, O2, E.
  Qed.

  (* shrinking drops the last rows for good: growing again exposes default rows, never the
     content the buffer held before *)
  Lemma vec_resize_shrink : forall d n, n <= length d -> vec_resize d n = firstn n d.
  Proof.
    intros d n H. unfold MaxiBuffer.vec_resize. replace (n - length d) with 0 by lia.
    cbn [repeat]. apply app_nil_r.
  Qed.

  Lemma vec_resize_grow : forall d k, length d <= k ->
    vec_resize d k = d ++ repeat (repeat dflt C) (k - length d).
  Proof.
    intros d k H. unfold MaxiBuffer.vec_resize, row0. now rewrite firstn_all2 by lia.
  Qed.

  Theorem shrink_then_grow : forall b n k, binv b -> n <= brows b -> n <= k ->
    b_logical (dm_resize vec_resize (dm_resize vec_resize b n) k)
    = firstn n (b_logical b) ++ repeat (repeat dflt C) (k - n).
  Proof.
    intros b n k [Hl _] Hn Hk. unfold b_logical, dm_resize; cbn [bdata brows].
    rewrite (firstn_all2 (n := k)) by (rewrite vec_resize_length; lia).
    rewrite (vec_resize_shrink (bdata b) n) by lia.
    rewrite vec_resize_grow by (rewrite firstn_length; lia).
    rewrite firstn_length, firstn_firstn.
    replace (Nat.min n (length (bdata b))) with n by lia.
    replace (Nat.min n (brows b)) with n by lia. reflexivity.
  Qed.
  (* the property on a reused buffer: whatever it held before, the default scalar answers meet
     the specifications of the matrix made of rows 0..rows() *)
  Theorem history_answers_meet_spec :
    forall (good : T -> Prop), preorder_on good le -> 0 < C ->
    forall ops b, b_run (@b_empty T) ops = Ok b -> all_good good (b_logical b) ->
    wf C (b_logical b) /\ length (b_logical b) = brows b /\
    (exists o, buf_max_generic le b = Ok o /\ max_spec le (b_logical b) o) /\
    (exists o, buf_argmax_generic le b = Ok o /\ argmax_spec le C (b_logical b) o) /\
    (forall t, threshold_spec le (b_logical b) t (buf_threshold_generic le b t)).
  Proof.
    intros good PO HC ops b H G.
    assert (Hb : binv b) by (eapply b_run_inv; [apply binv_empty | exact H]).
    assert (W : wf C (b_logical b)).
    { rewrite <- (iter_is_logical b Hb). apply Hb. }
    split; [exact W|]. split; [now apply logical_length|].
    rewrite buf_max_generic_logical, buf_argmax_generic_logical by exact Hb.
    split; [exact (max_generic_ok le good PO C (b_logical b) HC W G)|].
    split; [exact (argmax_generic_ok le good PO C (b_logical b) HC W G)|].
    intro t. rewrite buf_threshold_generic_logical by exact Hb. apply threshold_generic_ok.
  Qed.
End BufferProofs.

(* ---- the statement skeletons read from the source (GenMaxi.v) against the model ---- *)
Section SkeletonProofs.
  Context {T : Type}.
  Variable dflt : T.
  Variable C : nat.

  Lemma vec_resize_firstn : forall (d : list (list T)) n,
    vec_resize dflt C (firstn n d) n = vec_resize dflt C d n.
  Proof.
    intros d n. unfold vec_resize. rewrite firstn_firstn, Nat.min_id, firstn_length.
    destruct (Nat.le_ge_cases n (length d)) as [H|H].
    - replace (n - Nat.min n (length d)) with 0 by lia. replace (n - length d) with 0 by lia. reflexivity.
    - rewrite Nat.min_r by lia. reflexivity.
  Qed.

  Lemma vec_resize_idem : forall (d : list (list T)) n,
    vec_resize dflt C (vec_resize dflt C d n) n = vec_resize dflt C d n.
  Proof.
    intros d n. unfold vec_resize at 1. rewrite (vec_resize_length dflt C).
    rewrite Nat.sub_diag. cbn [repeat]. rewrite app_nil_r.
    apply firstn_all2. rewrite (vec_resize_length dflt C). lia.
  Qed.

  Lemma firstn_vec_resize : forall (d : list (list T)) n,
    firstn n (vec_resize dflt C d n) = vec_resize dflt C d n.
  Proof. intros d n. apply firstn_all2. rewrite (vec_resize_length dflt C). lia. Qed.

  Lemma grow_only_after_truncate : forall (d : list (list T)) n,
    vec_resize_grow_only dflt C (firstn n d) n = vec_resize dflt C d n.
  Proof.
    intros d n. unfold vec_resize_grow_only. rewrite firstn_length.
    destruct (Nat.min n (length d) <? n) eqn:E.
    - apply vec_resize_firstn.
    - apply Nat.ltb_ge in E. unfold vec_resize. replace (n - length d) with 0 by lia.
      cbn [repeat]. now rewrite app_nil_r.
  Qed.

  (* every view the code has of the rows is the logical rows, whichever of the recognised
     sources Iter::new and the scans use *)
  Lemma views_are_logical : forall (it : iter_source) (src : scan_source) (b : @buffer T),
    binv C b -> b_iter_of it b = b_logical b /\ scan_rows_of it src b = b_logical b.
  Proof.
    intros it src b Hb. pose proof (iter_is_logical C b Hb) as Hi. unfold b_iter in Hi.
    destruct it, src; cbn [b_iter_of scan_rows_of]; split; try exact Hi; reflexivity.
  Qed.
End SkeletonProofs.

(* tactic for C07_source_buffer: normalises the recognised equivalent statement orders *)
Ltac resize_norm dflt C :=
  cbv [dm_resize_of ss_resize_of scores_stmt_exec fold_left dense_stmt_exec dm_resize b_step];
  cbn [bdata brows bmi];
  rewrite ?(grow_only_after_truncate dflt C), ?(vec_resize_firstn dflt C), ?(vec_resize_idem dflt C),
          ?(firstn_vec_resize dflt C);
  reflexivity.

(* the seeded variant is refuted: a 2-row buffer filled with 9, shrunk to 1 row and rewritten
   with 1s answers 9 at row 1 -- a value and a cell that are not in the 1-row matrix *)
Definition stale_ops : list (@bop Z) :=
  [BResize 2 4%N; BWrite [[9; 9]; [9; 9]]; BResize 1 2%N; BWrite [[1; 1]]]%Z.

Lemma grow_only_refuted :
  exists b, b_run 2 (vec_resize_grow_only 0%Z 2) b_empty stale_ops = Ok b /\
            b_logical b = [[1; 1]]%Z /\
            buf_max_generic Z.leb b = Ok (Some 9%Z) /\
            buf_argmax_generic Z.leb b = Ok (Some (1, 1)) /\
            buf_threshold_generic Z.leb b 5%Z = [(1, 0); (1, 1)] /\
            max_generic Z.leb (b_logical b) = Ok (Some 1%Z).
Proof. eexists. split; [reflexivity|]. vm_compute. repeat split. Qed.

Lemma as_coded_on_stale_ops :
  exists b, b_run 2 (vec_resize 0%Z 2) b_empty stale_ops = Ok b /\
            b_logical b = [[1; 1]]%Z /\
            buf_max_generic Z.leb b = Ok (Some 1%Z) /\
            buf_argmax_generic Z.leb b = Ok (Some (0, 1)) /\
            buf_threshold_generic Z.leb b 5%Z = [].
Proof. eexists. split; [reflexivity|]. vm_compute. repeat split. Qed.

(* ---- the dispatcher on a reused buffer ---- *)
Section BufDispatchProofs.
  Context {T : Type}.
  Variable le lt : T -> T -> bool.
  Variable vmax smax : T -> T -> T.
  Variable ninf : T.
  Variable dflt : T.
  Variable C : nat.

  Theorem history_dispatch_f32 : forall ops (b : @buffer T),
    b_run C (vec_resize dflt C) b_empty ops = Ok b ->
    forall (a : arm) (mi : N) (t : T),
    buf_dispatch_argmax_f32 le lt ninf a mi b = dispatch_argmax_f32 le lt ninf a mi (b_logical b) /\
    buf_dispatch_max_f32 le vmax smax a b = dispatch_max_f32 le vmax smax a (b_logical b) /\
    buf_dispatch_threshold le a b t = dispatch_threshold le a (b_logical b) t.
  Proof.
    intros ops b H a mi t.
    assert (Hb : binv C b) by (eapply (b_run_inv dflt C); [apply binv_empty | exact H]).
    split; [|split].
    - destruct a; cbn [buf_dispatch_argmax_f32 dispatch_argmax_f32]; try reflexivity.
      now apply (buf_argmax_generic_logical le C).
    - destruct a; cbn [buf_dispatch_max_f32 dispatch_max_f32]; try reflexivity;
        now apply (buf_max_generic_logical le C).
    - unfold buf_dispatch_threshold, dispatch_threshold. now apply (buf_threshold_generic_logical le C).
  Qed.
End BufDispatchProofs.

Theorem history_dispatch_u8 : forall (C : nat) ops (b : @buffer Z),
  b_run C (vec_resize 0%Z C) b_empty ops = Ok b ->
  forall (a : arm),
  buf_dispatch_argmax_u8 a b = dispatch_argmax_u8 a (b_logical b) /\
  buf_dispatch_max_u8 a b = dispatch_max_u8 a (b_logical b).
Proof.
  intros C ops b H a.
  assert (Hb : binv C b) by (eapply (b_run_inv 0%Z C); [apply binv_empty | exact H]).
  split; destruct a; cbn [buf_dispatch_argmax_u8 dispatch_argmax_u8 buf_dispatch_max_u8 dispatch_max_u8];
    try reflexivity; (now apply (buf_argmax_generic_logical Z.leb C)) || (now apply (buf_max_generic_logical Z.leb C)).
Qed.



Theorem history_all_arms_f32 :
  forall (ops : list (@bop F32.t)) (b : @buffer F32.t) (a : arm) (max_index : N) (t : F32.t),
  b_run 32 (vec_resize F32.zero 32) b_empty ops = Ok b ->
  all_good f32_good (b_logical b) -> rows_fit32 (b_logical b) -> index_fits32 max_index ->
  (exists o, buf_dispatch_argmax_f32 F32.le F32.lt F32.ninf a max_index b = Ok o /\ argmax_spec F32.le 32 (b_logical b) o) /\
  (exists o, buf_dispatch_max_f32 F32.le F32.max_x86 F32.max a b = Ok o /\ max_spec F32.le (b_logical b) o) /\
  threshold_spec F32.le (b_logical b) t (buf_dispatch_threshold F32.le a b t).
Proof.
  intros ops b a mi t H G R I.
  destruct (history_dispatch_f32 F32.le F32.lt F32.max_x86 F32.max F32.ninf F32.zero 32 ops b H a mi t) as (E1 & E2 & E3).
  rewrite E1, E2, E3.
  assert (W : wf 32 (b_logical b)).
  { assert (Hb : binv 32 b) by (eapply (b_run_inv F32.zero 32); [apply binv_empty | exact H]).
    rewrite <- (iter_is_logical 32 b Hb). apply Hb. }
  destruct f32_order_facts as [PO Hlt Hv Hs Hgn Hbt]. split; [|split].
  - exact (dispatch_argmax_f32_ok F32.le F32.lt f32_good PO Hlt F32.ninf Hgn Hbt a mi (b_logical b) W G R I).
  - exact (dispatch_max_f32_ok F32.le f32_good PO F32.max_x86 F32.max Hv Hs a (b_logical b) W G).
  - exact (threshold_generic_ok F32.le (b_logical b) t).
Qed.

Theorem history_all_arms_u8 :
  forall (ops : list (@bop Z)) (b : @buffer Z) (a : arm) (t : Z),
  b_run 32 (vec_resize 0%Z 32) b_empty ops = Ok b -> u8_matrix (b_logical b) ->
  (rows_fit16 (b_logical b) -> exists o, buf_dispatch_argmax_u8 a b = Ok o /\ argmax_spec Z.leb 32 (b_logical b) o) /\
  (exists o, buf_dispatch_max_u8 a b = Ok o /\ max_spec Z.leb (b_logical b) o) /\
  threshold_spec Z.leb (b_logical b) t (buf_dispatch_threshold Z.leb a b t).
Proof.
  intros ops b a t H U.
  destruct (history_dispatch_u8 32 ops b H a) as (E1 & E2). rewrite E1, E2.
  assert (Hb : binv 32 b) by (eapply (b_run_inv 0%Z 32); [apply binv_empty | exact H]).
  assert (W : wf 32 (b_logical b)) by (rewrite <- (iter_is_logical 32 b Hb); apply Hb).
  split; [|split].
  - intros Hr. exact (dispatch_argmax_u8_ok a (b_logical b) W U Hr).
  - exact (dispatch_max_u8_ok a (b_logical b) W U).
  - unfold buf_dispatch_threshold. rewrite (buf_threshold_generic_logical Z.leb 32 b t Hb).
    exact (threshold_generic_ok Z.leb (b_logical b) t).
Qed.

