(* Extraction of the executable C07 models and property checkers (binary32 cells
   through LMBase.IEEE on Flocq, 8-bit cells as Z).  ExtrOcamlBasic only. *)
From Coq Require Import List ZArith NArith Extraction ExtrOcamlBasic.
From LMBase Require Import Res IEEE.
From LMMaxi Require Import MaxiModel MaxiBuffer.

(* ----- f32 ----- *)
Definition mk_f32 := F32.of_bits.
Definition bits_f32 := F32.to_bits.
Definition f32_is_nan := F32.is_nan.
Definition f32_le := F32.le.
Definition f32_argmax_generic := @argmax_generic F32.t F32.le.
Definition f32_max_generic := @max_generic F32.t F32.le.
Definition f32_threshold := @threshold_generic F32.t F32.le.
Definition f32_argmax_avx2 := @argmax_f32_avx2_fast F32.t F32.le F32.lt.
Definition f32_max_avx2 := @max_f32_avx2 F32.t F32.max_x86 F32.max.
Definition f32_argmax_sse2 := @argmax_sse2_fast F32.t F32.le F32.ninf.
Definition f32_max_sse2 := @pipeline_sse2_max_fast F32.t F32.le F32.ninf.
Definition f32_dispatch_argmax := @dispatch_argmax_f32_fast F32.t F32.le F32.lt F32.ninf.
Definition f32_dispatch_max := @dispatch_max_f32 F32.t F32.le F32.max_x86 F32.max.
Definition f32_dispatch_threshold := @dispatch_threshold F32.t F32.le.
Definition f32_ss_argmax := @ss_argmaxN F32.t.
Definition f32_ss_threshold := @ss_thresholdN F32.t F32.le.
Definition f32_unstripe := @unstripe F32.t.
Definition f32_lin_argmax := @lin_argmax F32.t F32.le.
Definition f32_lin_max := @lin_max F32.t F32.le.
Definition f32_lin_threshold := @lin_thresholdN F32.t F32.le.
Definition f32_check_max := @check_max F32.t F32.le.
Definition f32_check_argmax := @check_argmax F32.t F32.le.
Definition f32_check_threshold := @check_threshold F32.t F32.le.
Definition f32_check_C07 := @check_C07 F32.t F32.le.
Definition f32_index_usize := @index_usize F32.t.
Definition f32_get := @get F32.t.
Definition f32_max_of_argmax := @max_of_argmax F32.t.
Definition u8_max_of_argmax := @max_of_argmax Z.
(* DNA: wildcard N has index 4; an out-of-range symbol index would read NaN *)
Definition f32_score_def := @score_def F32.t F32.add F32.zero 4 F32.nan.
Definition f32_terms_ok := @terms_ok F32.t F32.add F32.zero 4 F32.nan f32_okv.
Definition f32_check_padding := @check_padding F32.t f32_is_ninf.
Definition f32_check_padding_max := @check_padding_max F32.t F32.le f32_is_ninf F32.is_finite.
Definition f32_ninf := F32.ninf.
Definition f32_is_finite := F32.is_finite.

(* ----- u8 (Z) ----- *)
Definition u8_argmax_generic := @argmax_generic Z Z.leb.
Definition u8_max_generic := @max_generic Z Z.leb.
Definition u8_threshold := @threshold_generic Z Z.leb.
Definition u8_argmax_avx2 := argmax_u8_avx2.
Definition u8_max_avx2 := max_u8_avx2.
Definition u8_dispatch_argmax := dispatch_argmax_u8.
Definition u8_dispatch_max := dispatch_max_u8.
Definition u8_ss_argmax := @ss_argmaxN Z.
Definition u8_ss_threshold := @ss_thresholdN Z Z.leb.
Definition u8_unstripe := @unstripe Z.
Definition u8_lin_argmax := @lin_argmax Z Z.leb.
Definition u8_lin_max := @lin_max Z Z.leb.
Definition u8_lin_threshold := @lin_thresholdN Z Z.leb.
Definition u8_check_max := @check_max Z Z.leb.
Definition u8_check_argmax := @check_argmax Z Z.leb.
Definition u8_check_threshold := @check_threshold Z Z.leb.
Definition u8_check_C07 := @check_C07 Z Z.leb.
Definition u8_index_usize := @index_usize Z.
Definition u8_get := @get Z.

(* ----- reused buffers (MaxiBuffer.v) ----- *)
Definition f32_buf_run (C : nat) := @b_run F32.t C (@vec_resize F32.t F32.zero C) (@b_empty F32.t).
Definition u8_buf_run (C : nat) := @b_run Z C (@vec_resize Z 0%Z C) (@b_empty Z).
Definition f32_buf_argmax_generic := @buf_argmax_generic F32.t F32.le.
Definition f32_buf_max_generic := @buf_max_generic F32.t F32.le.
Definition f32_buf_threshold_generic := @buf_threshold_generic F32.t F32.le.
Definition u8_buf_argmax_generic := @buf_argmax_generic Z Z.leb.
Definition u8_buf_max_generic := @buf_max_generic Z Z.leb.
Definition u8_buf_threshold_generic := @buf_threshold_generic Z Z.leb.

Definition f32_buf_dispatch_argmax := @buf_dispatch_argmax_f32 F32.t F32.le F32.lt F32.ninf.
Definition f32_buf_dispatch_max := @buf_dispatch_max_f32 F32.t F32.le F32.max_x86 F32.max.
Definition f32_buf_dispatch_threshold := @buf_dispatch_threshold F32.t F32.le.
Definition u8_buf_dispatch_argmax := buf_dispatch_argmax_u8.
Definition u8_buf_dispatch_max := buf_dispatch_max_u8.
Definition u8_buf_dispatch_threshold := @buf_dispatch_threshold Z Z.leb.

Extraction Language OCaml.
Extraction "maxi_model.ml"
  mk_f32 bits_f32 f32_is_nan f32_le f32_argmax_generic f32_max_generic f32_threshold
  f32_argmax_avx2 f32_max_avx2 f32_argmax_sse2 f32_max_sse2 f32_dispatch_argmax f32_dispatch_max
  f32_dispatch_threshold f32_ss_argmax f32_ss_threshold f32_unstripe f32_lin_argmax f32_lin_max
  f32_lin_threshold f32_check_max f32_check_argmax f32_check_threshold f32_check_C07 f32_index_usize f32_get f32_max_of_argmax u8_max_of_argmax
  f32_score_def f32_terms_ok f32_check_padding f32_check_padding_max f32_okv f32_is_ninf f32_ninf f32_is_finite
  u8_argmax_generic u8_max_generic u8_threshold u8_argmax_avx2 u8_max_avx2 u8_dispatch_argmax
  u8_dispatch_max u8_ss_argmax u8_ss_threshold u8_unstripe u8_lin_argmax u8_lin_max u8_lin_threshold
  u8_check_max u8_check_argmax u8_check_threshold u8_check_C07 u8_index_usize u8_get offset
  f32_buf_run u8_buf_run b_logical b_iter brows bmi
  f32_buf_argmax_generic f32_buf_max_generic f32_buf_threshold_generic
  u8_buf_argmax_generic u8_buf_max_generic u8_buf_threshold_generic
  f32_buf_dispatch_argmax f32_buf_dispatch_max f32_buf_dispatch_threshold
  u8_buf_dispatch_argmax u8_buf_dispatch_max u8_buf_dispatch_threshold.
