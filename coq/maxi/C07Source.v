(* Property C07 — the tables read from the source on every run (translate/maxi_tables.py ->
   GenMaxi.v) are the ones the model uses.  Property theorems only.  A change of the
   dispatcher's arm table, of a pipeline's overriding methods, of the immediates / store
   offsets that restore the column order in argmax_u8_avx2, or of the load / store offsets
   of the f32 kernels makes one of these statements false: the check then reports the
   broken obligation and searches for a failing input. *)
From Coq Require Import List Arith Bool NArith ZArith Lia.
From LMBase Require Import Res.
From LMMaxi Require Import MaxiModel MaxiBuffer MaxiBufferProofs MaxiKernels GenMaxi.
Import ListNotations.

(* every arm of the dispatcher of the model is wired as in dispatch.rs *)
Theorem C07_source_dispatch_table :
  forall (T : Type) (le lt : T -> T -> bool) (vmax smax : T -> T -> T) (ninf : T)
         (a : arm) (max_index : N) (m : list (list T)) (mz : list (list Z)),
  dispatch_argmax_f32 le lt ninf a max_index m = run_argmax_f32 le lt ninf (gen_dispatch_argmax_f32 a) max_index m /\
  dispatch_max_f32 le vmax smax a m =
    run_max_f32 le vmax smax (gen_dispatch_max_f32 a) (dispatch_argmax_f32 le lt ninf a max_index m) m /\
  dispatch_argmax_u8 a mz = run_argmax_u8 (gen_dispatch_argmax_u8 a) mz /\
  dispatch_max_u8 a mz = run_max_u8 (gen_dispatch_max_u8 a) (dispatch_argmax_u8 a mz) mz.
Proof. intros. destruct a; repeat split; reflexivity. Qed.

(* Pipeline<_, Sse2> overrides argmax (f32) only; Pipeline<_, Avx2> overrides argmax and max
   for both element types: the models the driver compares `Pipeline::sse2()` / `avx2()` with *)
Theorem C07_source_pipeline_table :
  gen_pipeline_sse2_f32 = (KArgmaxSse2, KDefaultMax) /\
  gen_pipeline_sse2_u8 = (KDefaultArgmax, KDefaultMax) /\
  gen_pipeline_avx2_f32 = (KArgmaxF32Avx2, KMaxF32Avx2) /\
  gen_pipeline_avx2_u8 = (KArgmaxU8Avx2, KMaxU8Avx2) /\
  (forall (T : Type) (le : T -> T -> bool) (ninf : T) (C : nat) (mi : N) (m : list (list T)),
     pipeline_sse2_max le ninf C mi m = max_of_argmax (argmax_sse2 le ninf C mi m) m).
Proof. repeat split; reflexivity. Qed.

(* argmax_u8_avx2: with the operands, immediates and store offsets of the source, the two
   permute2x128 + stores put the winner of column j at x[j] (the model's reconstruction) *)
Theorem C07_source_u8_column_order :
  forall (p1 p2 : list nat), length p1 = 16 -> length p2 = 16 ->
  reconstruct_u8 gen_argmax_u8_q p1 p2 = permute2x128_0x20 p1 p2 ++ permute2x128_0x31 p1 p2.
Proof. intros p1 p2 H1 H2. explode p1 H1. explode p2 H2. reflexivity. Qed.

(* ... and that reconstruction undoes unpacklo / unpackhi: x[j] is lane j *)
Theorem C07_source_u8_lanes :
  forall (v : list nat), length v = 32 ->
  reconstruct_u8 gen_argmax_u8_q (unpacklo_epi8_zero v) (unpackhi_epi8_zero v) = v.
Proof. intros v H. explode v H. reflexivity. Qed.

(* f32 kernels: register k is loaded from / stored to the element offset the model uses
   (AVX2: 8 lanes per register, SSE2: 4 lanes per register within a block of 16 columns) *)
Theorem C07_source_lane_tables :
  gen_argmax_f32_avx2_init = [(1, 0); (2, 8); (3, 16); (4, 24)] /\
  gen_argmax_f32_avx2_rows = [(1, 0); (2, 8); (3, 16); (4, 24)] /\
  gen_argmax_f32_avx2_stores = [(1, 0); (2, 8); (3, 16); (4, 24)] /\
  gen_max_f32_avx2_init = [(1, 0); (2, 8); (3, 16); (4, 24)] /\
  gen_max_f32_avx2_rows = [(1, 0); (2, 8); (3, 16); (4, 24)] /\
  gen_argmax_sse2_rows = [(1, 0); (2, 4); (3, 8); (4, 12)] /\
  gen_argmax_sse2_stores = [(1, 0); (2, 4); (3, 8); (4, 12)].
Proof. repeat split; reflexivity. Qed.

(* argmax_u8_avx2: the running maxima start below every 8-bit value (-1 in both 16-bit
   registers) and a new maximum is stored minus one (the model's [argmax_u8_vstep]) *)
Theorem C07_source_u8_accumulators :
  gen_argmax_u8_s_init = [(1, (-1)%Z); (2, (-1)%Z)] /\ gen_argmax_u8_ones = 1%Z /\
  (forall x : Z, (0 <= x <= 255)%Z ->
     Forall (fun ks : nat * Z => (snd ks < x)%Z /\ Z.gtb x (snd ks) = true) gen_argmax_u8_s_init).
Proof.
  split; [reflexivity|]. split; [reflexivity|].
  intros x Hx. repeat constructor; cbn [snd]; try lia; apply Z.gtb_lt; lia.
Qed.

(* the dispatcher tables as compiled on Arm hosts (cfg(arm/aarch64) arms of dispatch.rs, variants
   Generic and Neon) are those of the model [armhost_dispatch_*]; Pipeline<_, Neon> overrides
   nothing and the dispatcher has <Neon as Backend>::Lanes = 16 columns there.  (Read from the
   source only: not compiled on the x86_64 host of the checks.) *)
Theorem C07_source_armhost_tables :
  gen_armhost_lanes = 16 /\
  gen_pipeline_neon_f32 = (KDefaultArgmax, KDefaultMax) /\
  gen_pipeline_neon_u8 = (KDefaultArgmax, KDefaultMax) /\
  (forall (T : Type) (le : T -> T -> bool) (a : neon_arm) (m : list (list T)) (mz : list (list Z)),
     armhost_dispatch_argmax le a m = run_argmax_armhost le (gen_armhost_dispatch_argmax_f32 a) m /\
     armhost_dispatch_max le a m =
       run_max_armhost le (gen_armhost_dispatch_max_f32 a) (armhost_dispatch_argmax le a m) m /\
     armhost_dispatch_argmax Z.leb a mz = run_argmax_armhost Z.leb (gen_armhost_dispatch_argmax_u8 a) mz /\
     armhost_dispatch_max Z.leb a mz =
       run_max_armhost Z.leb (gen_armhost_dispatch_max_u8 a) (armhost_dispatch_argmax Z.leb a mz) mz).
Proof.
  split; [reflexivity|]. split; [reflexivity|]. split; [reflexivity|].
  intros T le a m mz. destruct a; repeat split; reflexivity.
Qed.

(* reused score buffers (round 3): with the statements of DenseMatrix::resize and
   StripedScores::resize read from dense.rs / scores.rs, the buffer operations are those of the
   model the history theorems speak about (C07_history_independent ...): resize truncates or
   appends default rows and sets the row count (also when written as truncate + guarded grow).
   With the source of dense::Iter::new and the outer loops of the default Maximum::argmax /
   Threshold::threshold read from pli/mod.rs, what iter() yields and what the scans walk are the
   logical rows of any buffer that satisfies the invariant those operations maintain.  A resize
   that only grows (seeded/C07/6) makes the first part false; an iterator / loop the translator
   does not recognise (seeded/C07/5: `scores.iter()`) is reported as unparsable. *)
Theorem C07_source_buffer :
  forall (T : Type) (dflt : T) (C : nat) (b : @buffer T) (n : nat) (mi : N),
  dm_resize_of dflt C gen_dense_resize b n = dm_resize (vec_resize dflt C) b n /\
  Ok (ss_resize_of dflt C gen_dense_resize gen_scores_resize b n mi) = b_step C (vec_resize dflt C) b (BResize n mi) /\
  Ok (dm_resize_of dflt C gen_dense_resize b n) = b_step C (vec_resize dflt C) b (BDResize n).
Proof.
  intros T dflt C b n mi. unfold gen_dense_resize, gen_scores_resize.
  split; [|split]; resize_norm dflt C.
Qed.

Theorem C07_source_buffer_views :
  forall (T : Type) (le : T -> T -> bool) (C : nat) (b : @buffer T) (t : T), binv C b ->
  b_iter_of gen_dense_iter b = b_logical b /\
  scan_rows_of gen_dense_iter gen_scan_argmax b = b_logical b /\
  scan_rows_of gen_dense_iter gen_scan_threshold b = b_logical b /\
  buf_threshold_generic le b t = thr_rows le t 0 (scan_rows_of gen_dense_iter gen_scan_threshold b).
Proof.
  intros T le C b t Hb.
  destruct (views_are_logical C gen_dense_iter gen_scan_argmax b Hb) as [H1 H2].
  destruct (views_are_logical C gen_dense_iter gen_scan_threshold b Hb) as [_ H3].
  split; [exact H1|]. split; [exact H2|]. split; [exact H3|].
  rewrite H3. unfold buf_threshold_generic. now rewrite (iter_is_logical C b Hb).
Qed.

(* the comparisons of the two f32 arg-max kernels and the block walk of argmax_sse2, read from
   avx2.rs / sse2.rs: each vector step compares running maximum k with row register k by <=
   (_mm_cmple_ps / _CMP_LE_OS: a later row wins a tie), the SSE2 reduction takes a column when
   score >= best (the last column wins a tie: the model's pick_ge), the AVX2 reduction when
   score > best (the first column wins), the SSE2 backend has 16 lanes and the kernel walks the
   blocks at offsets i * 16 for i < C / 16 -- the model's [argmax_sse2] *)
Theorem C07_source_compares :
  forall (T : Type) (le lt : T -> T -> bool) (ninf : T) (C : nat) (m : list (list T)) (best x : nat * nat * T),
  vcmp_fn le lt gen_argmax_sse2_vcmp = le /\
  vcmp_fn le lt gen_argmax_f32_avx2_vcmp = le /\
  rcmp_pick le lt gen_argmax_sse2_rcmp best x = pick_ge le best x /\
  rcmp_pick le lt gen_argmax_f32_avx2_rcmp best x = (if lt (tval best) (tval x) then x else best) /\
  gen_sse2_lanes = 16 /\
  flat_map (fun b => sse2_block le ninf m (b * 16)) (seq 0 (C / 16))
  = flat_map (sse2_block le ninf m) (gen_argmax_sse2_block_offsets (C / gen_sse2_lanes)).
Proof.
  intros. repeat split; try reflexivity.
  unfold gen_argmax_sse2_block_offsets, gen_sse2_lanes.
  rewrite !flat_map_concat_map, map_map. reflexivity.
Qed.

