(* Order facts of IEEE binary32 (Flocq's BinarySingleNaN, through LMBase.IEEE) that the
   maximum / arg-maximum / threshold code relies on (property C07), proved from the
   definition of [Bcompare] / [Bplus] without real-number reasoning (closed under the
   global context):

     - [<=] is a total preorder on the non-NaN values ([f32_preorder]);
     - [a < b] is [not (b <= a)] on non-NaN values ([f32_lt_negb_le]);
     - MAXPS ([max_x86]) and [f32::max] return one of their operands, above both;
     - -inf is below every non-NaN value; a finite value is not below -inf;
     - [x + -inf = -inf] and [-inf + x = -inf] unless x is NaN or +inf.

   The same facts for u8 (cells as [Z]) are [zle_preorder] / [zmax_maxlike] in MaxiKernels. *)
From Coq Require Import ZArith Bool List Lia.
From Flocq Require Import Core BinarySingleNaN.
From LMBase Require Import Res IEEE.
From LMMaxi Require Import MaxiModel MaxiProofs MaxiKernels.
Import ListNotations.

Section Order.
  Variable prec emax : Z.
  Notation bf := (binary_float prec emax).

  Local Open Scope Z_scope.

  (* a key whose lexicographic order is the order of the non-NaN floats *)
  Definition fkey (x : bf) : Z * Z * Z :=
    match x with
    | B754_nan => (3, 0, 0)
    | B754_infinity true => (-2, 0, 0)
    | B754_infinity false => (2, 0, 0)
    | B754_zero _ => (0, 0, 0)
    | B754_finite true m e _ => (-1, - e, - Zpos m)
    | B754_finite false m e _ => (1, e, Zpos m)
    end.

  Definition lex_le (a b : Z * Z * Z) : Prop :=
    fst (fst a) < fst (fst b) \/
    (fst (fst a) = fst (fst b) /\
     (snd (fst a) < snd (fst b) \/ (snd (fst a) = snd (fst b) /\ snd a <= snd b))).

  Definition lex_lt (a b : Z * Z * Z) : Prop :=
    fst (fst a) < fst (fst b) \/
    (fst (fst a) = fst (fst b) /\
     (snd (fst a) < snd (fst b) \/ (snd (fst a) = snd (fst b) /\ snd a < snd b))).

  Definition notnan (x : bf) : Prop := BinarySingleNaN.is_nan x = false.

  Lemma fle_key (x y : bf) : notnan x -> notnan y ->
    (fle prec emax x y = true <-> lex_le (fkey x) (fkey y)).
  Proof.
    unfold notnan, fle, fcmp, Bcompare, lex_le.
    destruct x as [sx|sx| |sx mx ex Hx]; destruct y as [sy|sy| |sy my ey Hy];
      try discriminate; intros _ _;
      repeat match goal with s : bool |- _ => destruct s end; cbn;
      try (split; intros H; solve [reflexivity | discriminate | lia]).
    - (* both negative *)
      change (Pos.compare_cont Eq mx my) with (Pos.compare mx my).
      destruct (Z.compare_spec ex ey); destruct (Pos.compare_spec mx my); cbn;
        split; intros H'; solve [reflexivity | discriminate | lia].
    - (* both positive *)
      change (Pos.compare_cont Eq mx my) with (Pos.compare mx my).
      destruct (Z.compare_spec ex ey); destruct (Pos.compare_spec mx my); cbn;
        split; intros H'; solve [reflexivity | discriminate | lia].
  Qed.

  Lemma flt_key (x y : bf) : notnan x -> notnan y ->
    (flt prec emax x y = true <-> lex_lt (fkey x) (fkey y)).
  Proof.
    unfold notnan, flt, fcmp, Bcompare, lex_lt.
    destruct x as [sx|sx| |sx mx ex Hx]; destruct y as [sy|sy| |sy my ey Hy];
      try discriminate; intros _ _;
      repeat match goal with s : bool |- _ => destruct s end; cbn;
      try (split; intros H; solve [reflexivity | discriminate | lia]).
    - change (Pos.compare_cont Eq mx my) with (Pos.compare mx my).
      destruct (Z.compare_spec ex ey); destruct (Pos.compare_spec mx my); cbn;
        split; intros H'; solve [reflexivity | discriminate | lia].
    - change (Pos.compare_cont Eq mx my) with (Pos.compare mx my).
      destruct (Z.compare_spec ex ey); destruct (Pos.compare_spec mx my); cbn;
        split; intros H'; solve [reflexivity | discriminate | lia].
  Qed.

  Lemma lex_le_refl a : lex_le a a.
  Proof. unfold lex_le. lia. Qed.

  Lemma lex_le_trans a b c : lex_le a b -> lex_le b c -> lex_le a c.
  Proof. unfold lex_le. lia. Qed.

  Lemma lex_le_total a b : lex_le a b \/ lex_le b a.
  Proof. unfold lex_le. lia. Qed.

  Lemma lex_lt_not_le a b : lex_lt a b <-> ~ lex_le b a.
  Proof. unfold lex_lt, lex_le. lia. Qed.

  Theorem fle_preorder : preorder_on notnan (fle prec emax).
  Proof.
    split.
    - intros a Ha. apply fle_key; auto. apply lex_le_refl.
    - intros a b c Ha Hb Hc H1 H2. apply fle_key; auto.
      apply fle_key in H1; auto. apply fle_key in H2; auto. eapply lex_le_trans; eauto.
    - intros a b Ha Hb. destruct (lex_le_total (fkey a) (fkey b)); [left|right]; apply fle_key; auto.
  Qed.

  Theorem flt_negb_fle (a b : bf) : notnan a -> notnan b ->
    flt prec emax a b = negb (fle prec emax b a).
  Proof.
    intros Ha Hb.
    destruct (flt prec emax a b) eqn:E1; destruct (fle prec emax b a) eqn:E2; auto.
    - apply flt_key in E1; auto. apply fle_key in E2; auto. apply lex_lt_not_le in E1. tauto.
    - exfalso. assert (H : ~ lex_le (fkey b) (fkey a)).
      { intros H. apply fle_key in H; auto. congruence. }
      apply lex_lt_not_le in H. apply flt_key in H; auto. congruence.
  Qed.

  (* MAXPS and f32::max *)
  Theorem fmax_x86_maxlike : maxlike (fle prec emax) notnan (fmax_x86 prec emax).
  Proof.
    intros a b Ha Hb. unfold fmax_x86.
    rewrite (flt_negb_fle b a Hb Ha).
    destruct (fle prec emax a b) eqn:E; cbn.
    - repeat split; auto. apply (po_refl _ _ fle_preorder); auto.
    - destruct (po_total _ _ fle_preorder a b Ha Hb) as [H|H]; [congruence|].
      repeat split; auto. apply (po_refl _ _ fle_preorder); auto.
  Qed.

  Theorem fmax_maxlike : maxlike (fle prec emax) notnan (fmax prec emax).
  Proof.
    intros a b Ha Hb. unfold fmax. unfold notnan in Ha, Hb. fold (IEEE.is_nan prec emax a).
    unfold IEEE.is_nan. rewrite Ha, Hb.
    rewrite (flt_negb_fle a b Ha Hb).
    destruct (fle prec emax b a) eqn:E; cbn.
    - repeat split; auto. apply (po_refl _ _ fle_preorder); auto.
    - destruct (po_total _ _ fle_preorder a b Ha Hb) as [H|H]; [|congruence].
      repeat split; auto. apply (po_refl _ _ fle_preorder); auto.
  Qed.

  (* -inf *)
  Lemma fninf_notnan : notnan (fninf prec emax).
  Proof. reflexivity. Qed.

  Theorem fninf_bottom (x : bf) : notnan x -> fle prec emax (fninf prec emax) x = true.
  Proof.
    intros Hx. apply fle_key; auto using fninf_notnan.
    unfold lex_le, fninf. destruct x as [s|[|]| |[|] m e H]; try discriminate; cbn; lia.
  Qed.

  (* a value that is not -inf (and not NaN) is not below -inf *)
  Theorem not_le_fninf (x : bf) : notnan x -> is_neg_inf prec emax x = false ->
    fle prec emax x (fninf prec emax) = false.
  Proof.
    intros Hx Hn. destruct (fle prec emax x (fninf prec emax)) eqn:E; auto.
    apply fle_key in E; auto using fninf_notnan.
    unfold lex_le, fninf in E. destruct x as [s|[|]| |[|] m e H]; try discriminate; cbn in E; lia.
  Qed.

  (* value equality (<= both ways) of non-NaN floats: identical, or zeros of either sign *)
  Theorem fle_antisym (x y : bf) : notnan x -> notnan y ->
    fle prec emax x y = true -> fle prec emax y x = true ->
    x = y \/ (is_zero prec emax x = true /\ is_zero prec emax y = true).
  Proof.
    intros Hx Hy H1 H2. apply fle_key in H1; auto. apply fle_key in H2; auto.
    unfold lex_le in H1, H2.
    destruct x as [sx|sx| |sx mx ex Bx]; destruct y as [sy|sy| |sy my ey By];
      try discriminate;
      repeat match goal with s : bool |- _ => destruct s end; cbn in *;
      try (left; reflexivity); try (right; split; reflexivity); try lia.
    - left. assert (ex = ey) by lia. assert (mx = my) by lia. subst.
      f_equal. apply Eqdep_dec.UIP_dec. apply Bool.bool_dec.
    - left. assert (ex = ey) by lia. assert (mx = my) by lia. subst.
      f_equal. apply Eqdep_dec.UIP_dec. apply Bool.bool_dec.
  Qed.

  (* ---------- addition with -inf (the padding claim) ---------- *)

  Context {Hprec : Prec_gt_0 prec} {Hmax : Prec_lt_emax prec emax}.

  (* neither NaN nor +inf *)
  Definition okval (x : bf) : bool :=
    match x with
    | B754_nan => false
    | B754_infinity false => false
    | _ => true
    end.

  Theorem fadd_ninf_r (x : bf) : okval x = true -> fadd prec emax x (fninf prec emax) = fninf prec emax.
  Proof. destruct x as [s|[|]| |s m e H]; try discriminate; reflexivity. Qed.

  Theorem fadd_ninf_l (x : bf) : okval x = true -> fadd prec emax (fninf prec emax) x = fninf prec emax.
  Proof. destruct x as [s|[|]| |s m e H]; try discriminate; reflexivity. Qed.

End Order.

(* ---------- binary32 instances ---------- *)

Definition f32_good (x : F32.t) : Prop := F32.is_nan x = false.

Theorem f32_preorder : preorder_on f32_good F32.le.
Proof. exact (fle_preorder 24 128). Qed.

Theorem f32_lt_negb_le : forall a b, f32_good a -> f32_good b -> F32.lt a b = negb (F32.le b a).
Proof. exact (flt_negb_fle 24 128). Qed.

Theorem f32_max_x86_maxlike : maxlike F32.le f32_good F32.max_x86.
Proof. exact (fmax_x86_maxlike 24 128). Qed.

Theorem f32_max_maxlike : maxlike F32.le f32_good F32.max.
Proof. exact (fmax_maxlike 24 128). Qed.

Theorem f32_ninf_good : f32_good F32.ninf.
Proof. reflexivity. Qed.

Theorem f32_ninf_bottom : forall x, f32_good x -> F32.le F32.ninf x = true.
Proof. exact (fninf_bottom 24 128). Qed.

Theorem f32_not_le_ninf : forall x, f32_good x -> F32.is_neg_inf x = false -> F32.le x F32.ninf = false.
Proof. exact (not_le_fninf 24 128). Qed.

Theorem f32_finite_not_le_ninf : forall x, F32.is_finite x = true -> F32.le x F32.ninf = false.
Proof.
  intros x Hx. apply f32_not_le_ninf; destruct x as [s|s| |s m e H]; try discriminate; reflexivity.
Qed.

Theorem f32_add_ninf_r : forall x, f32_okv x = true -> F32.add x F32.ninf = F32.ninf.
Proof. intros x H. apply (fadd_ninf_r 24 128 x). destruct x as [s|[|]| |s m e B]; try discriminate; reflexivity. Qed.

Theorem f32_add_ninf_l : forall x, f32_okv x = true -> F32.add F32.ninf x = F32.ninf.
Proof. intros x H. apply (fadd_ninf_l 24 128 x). destruct x as [s|[|]| |s m e B]; try discriminate; reflexivity. Qed.

Theorem f32_le_antisym : forall x y, f32_good x -> f32_good y -> F32.le x y = true -> F32.le y x = true ->
  x = y \/ (IEEE.is_zero 24 128 x = true /\ IEEE.is_zero 24 128 y = true).
Proof. exact (fle_antisym 24 128). Qed.
