(* Model of the maximum / arg-maximum / threshold code of lightmotif (property C07).
   Executable definitions only (no proofs), following the structure of

     pli/mod.rs            Maximum::{argmax,max}, Threshold::threshold (default impls)
     pli/platform/avx2.rs  argmax_f32_avx2, max_f32_avx2, argmax_u8_avx2, max_u8_avx2
     pli/platform/sse2.rs  argmax_sse2
     pli/dispatch.rs       arm tables of Pipeline<_, Dispatch>
     scores.rs             StripedScores::{offset, Index<usize>, max, argmax, threshold,
                           unstripe}, Scores::{max, argmax, threshold}

   A score matrix (DenseMatrix<T,C>) is a list of rows, each a list of C cells.
   The element type is a parameter [T] with the boolean comparisons the code uses:
     [le a b]  a <= b      (PartialOrd; false when incomparable, i.e. NaN)
     [lt a b]  a <  b
   so that [x >= y] is [le y x] and [x > y] is [lt y x].
   Every place where the Rust code can panic is a [Panic n]:
     1  row index out of range            2  column index out of range
     3  Index<usize> on a matrix without rows (division by zero)
     10 partial_cmp(..).unwrap() on incomparable values (Scores::{max,argmax})
     20 max_index > u32::MAX (argmax_f32_avx2, argmax_sse2)
     21 rows > 65536 (argmax_u8_avx2)
     22 output[col] out of range   23 a fixed-size register array with another shape
        (22 and 23 cannot happen; they stand where a default value would otherwise hide a bound) *)
From Coq Require Import List Arith Bool NArith ZArith.
From Flocq Require Import BinarySingleNaN.
From LMBase Require Import Res IEEE.
Import ListNotations.

(* ---------- small vector toolkit (SIMD registers are lists of lanes) ---------- *)

Definition slice {A} (off n : nat) (l : list A) : list A := firstn n (skipn off l).

Fixpoint map2 {A B C} (f : A -> B -> C) (a : list A) (b : list B) : list C :=
  match a, b with
  | x :: a', y :: b' => f x y :: map2 f a' b'
  | _, _ => []
  end.

(* _mm256_blendv_ps / _mm256_blendv_epi8 / (andnot c a) | (and b c) with a mask whose
   lanes are all-ones or all-zeros: lane of [b] where the mask is set, else lane of [a] *)
Definition blendv {A} (a b : list A) (c : list bool) : list A :=
  map2 (fun ab (m : bool) => if m then snd ab else fst ab) (combine a b) c.

(* for (i, row) in rows.iter().enumerate() *)
Definition enumerate {A} (l : list A) : list (nat * A) := combine (seq 0 (length l)) l.

(* `i as i32` stored in a 32-bit lane and read back as u32 / `i as i16` read back as u16 *)
(* (the test only avoids rebuilding the unary number in the common case: both branches are
   i mod 2^32, resp. i mod 2^16) *)
Definition wrap32 (i : nat) : nat :=
  if (N.of_nat i <? 4294967296)%N then i else N.to_nat (N.modulo (N.of_nat i) 4294967296).
(* 2^16 as a unary number, computed once (the test [two16 <=? i] walks down both numbers
   without allocating, which keeps the model usable on matrices of 65536 rows) *)
Definition two16 : nat := Nat.pow 2 16.
Definition wrap16 (i : nat) : nat :=
  if Nat.leb two16 i then N.to_nat (N.modulo (N.of_nat i) 65536) else i.

Inductive arm := AGeneric | ASse2 | AAvx2.

Section Maxi.
  Context {T : Type}.
  Variable le : T -> T -> bool.
  Variable lt : T -> T -> bool.

  Definition matrix := list (list T).
  Definition coord := (nat * nat)%type.           (* MatrixCoordinates { row, col } *)
  Definition tagged := (nat * nat * T)%type.      (* (row, col, score) *)
  Definition tval (b : tagged) : T := snd b.
  Definition tpos (b : tagged) : coord := fst b.

  (* DenseMatrix: data[r][c] / data[MatrixCoordinates::new(r, c)] (bounds-checked) *)
  Definition get (m : matrix) (r c : nat) : res T :=
    match nth_error m r with
    | None => Panic 1
    | Some row => match nth_error row c with
                  | None => Panic 2
                  | Some x => Ok x
                  end
    end.

  (* StripedScores: Index<usize>  (col = i / rows, row = i % rows) *)
  Definition index_usize (m : matrix) (i : nat) : res T :=
    match length m with
    | O => Panic 3
    | R => get m (i mod R) (i / R)
    end.

  (* StripedScores::offset *)
  Definition offset (m : matrix) (rc : coord) : nat := snd rc * length m + fst rc.

  (* ---------- generic scans (pli/mod.rs) ---------- *)

  (* if row[j] >= best_score { best = (i, j, row[j]) } *)
  Definition pick_ge (best x : tagged) : tagged := if le (tval best) (tval x) then x else best.

  Fixpoint scan_row (i : nat) (row : list T) (j : nat) (best : tagged) : tagged :=
    match row with
    | [] => best
    | x :: rest => scan_row i rest (S j) (pick_ge best (i, j, x))
    end.

  Fixpoint scan_rows (i : nat) (rows : matrix) (best : tagged) : tagged :=
    match rows with
    | [] => best
    | row :: rest => scan_rows (S i) rest (scan_row i row 0 best)
    end.

  (* Maximum::argmax (default impl) *)
  Definition argmax_generic (m : matrix) : res (option coord) :=
    match m with
    | [] => Ok None
    | _ => b0 <- index_usize m 0 ;; Ok (Some (tpos (scan_rows 0 m (0, 0, b0))))
    end.

  (* Maximum::max (default impl): self.argmax(scores).map(|c| scores.matrix()[c]) *)
  Definition max_of_argmax (am : res (option coord)) (m : matrix) : res (option T) :=
    o <- am ;;
    match o with
    | None => Ok None
    | Some rc => v <- get m (fst rc) (snd rc) ;; Ok (Some v)
    end.

  Definition max_generic (m : matrix) : res (option T) := max_of_argmax (argmax_generic m) m.

  (* Threshold::threshold (default impl, used by every backend) *)
  Fixpoint thr_row (t : T) (i : nat) (row : list T) (j : nat) : list coord :=
    match row with
    | [] => []
    | x :: rest => (if le t x then [(i, j)] else []) ++ thr_row t i rest (S j)
    end.

  Fixpoint thr_rows (t : T) (i : nat) (rows : matrix) : list coord :=
    match rows with
    | [] => []
    | row :: rest => thr_row t i row 0 ++ thr_rows t (S i) rest
    end.

  Definition threshold_generic (m : matrix) (t : T) : list coord := thr_rows t 0 m.

  (* ---------- shared step of the vectorised arg-max kernels (f32) ----------
     registers: s = running best score per lane, p = row index of that score
       c = cmp_le(s, r); p = blendv(p, index, c); s = blendv(s, r, c)          *)
  Definition vstate := (list (list T) * list (list nat))%type.

  Definition argmax_vstep (width : nat) (load : list T -> list (list T))
             (st : vstate) (irow : nat * list T) : vstate :=
    let '(s, p) := st in
    let r := load (snd irow) in
    let index := repeat (wrap32 (fst irow)) width in
    let c := map2 (map2 le) s r in
    (map2 (fun sk rc => blendv sk (fst rc) (snd rc)) s (combine r c),
     map2 (fun pk ck => blendv pk index ck) p c).

  (* ---------- AVX2, f32 (avx2.rs) ---------- *)

  (* _mm256_load_ps(dataptr.add(0x00 / 0x08 / 0x10 / 0x18)) *)
  Definition load4x8 {A} (row : list A) : list (list A) :=
    [slice 0 8 row; slice 8 8 row; slice 16 8 row; slice 24 8 row].

  (* for (col, &row) in x.iter().enumerate(): if data[(row,col)] > best_score {..} *)
  Fixpoint avx2_f32_reduce (m : matrix) (col : nat) (x : list nat) (best : tagged) : res tagged :=
    match x with
    | [] => Ok best
    | row :: rest =>
        score <- get m row col ;;
        avx2_f32_reduce m (S col) rest (if lt (tval best) score then (row, col, score) else best)
    end.

  Definition argmax_f32_avx2_x (m : matrix) (row0 : list T) : list nat :=
    let st0 : vstate := (load4x8 row0, repeat (repeat 0 8) 4) in
    let st := fold_left (argmax_vstep 8 load4x8) (enumerate m) st0 in
    concat (snd st).                       (* storeu at x[0x00], x[0x08], x[0x10], x[0x18] *)

  Definition argmax_f32_avx2 (max_index : N) (m : matrix) : res (option coord) :=
    if (4294967295 <? max_index)%N then Panic 20 else
    match m with
    | [] => Ok None
    | row0 :: _ =>
        let x := argmax_f32_avx2_x m row0 in
        b0 <- get m 0 0 ;;
        b <- avx2_f32_reduce m 0 x (0, 0, b0) ;;
        Ok (Some (tpos b))
    end.

  (* max_f32_avx2: [vmax] = _mm256_max_ps, [smax] = f32::max *)
  Variable vmax : T -> T -> T.
  Variable smax : T -> T -> T.

  Definition max_f32_avx2 (m : matrix) : res (option T) :=
    match m with
    | [] => Ok None
    | row0 :: _ =>
        let regs := fold_left (fun acc row => map2 (map2 vmax) acc (load4x8 row)) m (load4x8 row0) in
        match regs with
        | [m1; m2; m3; m4] =>
            let mm := map2 vmax (map2 vmax m1 m2) (map2 vmax m3 m4) in
            match mm with
            | [] => Panic 23                      (* x is a [f32; 8] *)
            | x0 :: rest => Ok (Some (fold_left smax rest x0))
            end
        | _ => Panic 23                           (* there are four registers *)
        end
    end.

  (* ---------- SSE2, f32, any C multiple of 16 (sse2.rs) ---------- *)

  Variable ninf : T.                              (* -f32::INFINITY *)

  (* _mm_load_ps(dataptr.add(0x00 / 0x04 / 0x08 / 0x0c)), dataptr = row.as_ptr().add(offset) *)
  Definition load4x4 {A} (off : nat) (row : list A) : list (list A) :=
    [slice off 4 row; slice (off + 4) 4 row; slice (off + 8) 4 row; slice (off + 12) 4 row].

  Definition sse2_block (m : matrix) (off : nat) : list nat :=
    let st0 : vstate := (repeat (repeat ninf 4) 4, repeat (repeat 0 4) 4) in
    let st := fold_left (argmax_vstep 4 (load4x4 off)) (enumerate m) st0 in
    concat (snd st).                       (* storeu at outptr + 0x00, 0x04, 0x08, 0x0c *)

  (* for col in 0..C: row = output[col]; if data[row][col] >= best_score {..} *)
  Fixpoint sse2_reduce (m : matrix) (output : list nat) (col n : nat) (best : tagged) : res tagged :=
    match n with
    | O => Ok best
    | S n' =>
        match nth_error output col with
        | None => Panic 22
        | Some row =>
            score <- get m row col ;;
            sse2_reduce m output (S col) n' (pick_ge best (row, col, score))
        end
    end.

  Definition argmax_sse2 (C : nat) (max_index : N) (m : matrix) : res (option coord) :=
    if (4294967295 <? max_index)%N then Panic 20 else
    match m with
    | [] => Ok None
    | _ =>
        let output := flat_map (fun b => sse2_block m (b * 16)) (seq 0 (C / 16)) in
        b <- sse2_reduce m output 0 C (0, 0, ninf) ;;
        Ok (Some (tpos b))
    end.

  (* ---------- dispatcher arm tables, f32 (dispatch.rs) ---------- *)

  Definition dispatch_argmax_f32 (a : arm) (max_index : N) (m : matrix) : res (option coord) :=
    match a with
    | AAvx2 => argmax_f32_avx2 max_index m
    | ASse2 => argmax_sse2 32 max_index m
    | AGeneric => argmax_generic m
    end.

  Definition dispatch_max_f32 (a : arm) (m : matrix) : res (option T) :=
    match a with
    | AAvx2 => max_f32_avx2 m
    | _ => max_generic m
    end.

  Definition dispatch_threshold (a : arm) (m : matrix) (t : T) : list coord := threshold_generic m t.

  (* Pipeline<_, Sse2>: argmax overridden, max is the default impl on top of it *)
  Definition pipeline_sse2_max (C : nat) (max_index : N) (m : matrix) : res (option T) :=
    max_of_argmax (argmax_sse2 C max_index m) m.

  (* ---------- StripedScores level (scores.rs) ---------- *)

  Definition ss_argmax (am : res (option coord)) (m : matrix) : res (option nat) :=
    o <- am ;; Ok (option_map (offset m) o).

  Definition ss_threshold (m : matrix) (t : T) : list nat := map (offset m) (threshold_generic m t).

  (* the same offsets as binary numbers (what the driver evaluates: offsets reach rows * C,
     too large for unary naturals on matrices with thousands of rows) *)
  Definition offsetN (rows : N) (rc : coord) : N := (N.of_nat (snd rc) * rows + N.of_nat (fst rc))%N.
  Definition ss_argmaxN (am : res (option coord)) (m : matrix) : res (option N) :=
    o <- am ;; Ok (option_map (offsetN (N.of_nat (length m))) o).
  Definition ss_thresholdN (m : matrix) (t : T) : list N :=
    map (offsetN (N.of_nat (length m))) (threshold_generic m t).

  (* StripedScores::unstripe / iter: positions 0 .. min(max_index, rows*C) in
     column-major order *)
  Definition column (c : nat) (m : matrix) : list (option T) := map (fun row => nth_error row c) m.

  Fixpoint somes (l : list (option T)) : list T :=
    match l with
    | [] => []
    | Some x :: r => x :: somes r
    | None :: r => somes r
    end.

  Definition unstripe (C : nat) (max_index : nat) (m : matrix) : list T :=
    firstn (Nat.min max_index (length m * C))
           (somes (flat_map (fun c => column c m) (seq 0 C))).

  (* ---------- linear Scores (scores.rs) ---------- *)

  (* max_by(|x, y| x.partial_cmp(y).unwrap()): reduce with
     match compare(acc, y) { Greater => acc, _ => y } *)
  Fixpoint lin_fold (acc : nat * T) (i : nat) (l : list T) : res (nat * T) :=
    match l with
    | [] => Ok acc
    | y :: rest =>
        if le (snd acc) y then lin_fold (i, y) (S i) rest
        else if le y (snd acc) then lin_fold acc (S i) rest
        else Panic 10
    end.

  Definition lin_best (l : list T) : res (option (nat * T)) :=
    match l with
    | [] => Ok None
    | x :: rest => r <- lin_fold (0, x) 1 rest ;; Ok (Some r)
    end.

  Definition lin_argmax (l : list T) : res (option nat) := r <- lin_best l ;; Ok (option_map fst r).
  Definition lin_max (l : list T) : res (option T) := r <- lin_best l ;; Ok (option_map snd r).

  Fixpoint lin_thr (t : T) (i : nat) (l : list T) : list nat :=
    match l with
    | [] => []
    | x :: rest => (if le t x then [i] else []) ++ lin_thr t (S i) rest
    end.
  Definition lin_threshold (t : T) (l : list T) : list nat := lin_thr t 0 l.

  (* the same positions as binary numbers (evaluated by the driver) *)
  Fixpoint lin_thrN (t : T) (i : N) (l : list T) : list N :=
    match l with
    | [] => []
    | x :: rest => (if le t x then [i] else []) ++ lin_thrN t (N.succ i) rest
    end.
  Definition lin_thresholdN (t : T) (l : list T) : list N := lin_thrN t 0%N l.

  (* ---------- executable property checker (on the implementation's answers) ---------- *)

  Definition cells (m : matrix) : list T := concat m.

  Definition all_le (m : matrix) (v : T) : bool := forallb (fun x => le x v) (cells m).

  (* reported maximum: equal (as a value: v <= x <= v) to some cell, and >= every cell *)
  Definition check_max (m : matrix) (o : option T) : bool :=
    match o with
    | None => match m with [] => true | _ => false end
    | Some v => match m with
                | [] => false
                | _ => existsb (fun x => le x v && le v x) (cells m) && all_le m v
                end
    end.

  (* reported arg-maximum: an in-range cell that is >= every cell *)
  Definition check_argmax (m : matrix) (o : option coord) : bool :=
    match o with
    | None => match m with [] => true | _ => false end
    | Some rc => match get m (fst rc) (snd rc) with
                 | Ok v => all_le m v
                 | _ => false
                 end
    end.

  Fixpoint coords_eqb (a b : list coord) : bool :=
    match a, b with
    | [], [] => true
    | (r1, c1) :: a', (r2, c2) :: b' => Nat.eqb r1 r2 && Nat.eqb c1 c2 && coords_eqb a' b'
    | _, _ => false
    end.

  (* reported threshold list, sorted in row-major order by the caller *)
  Definition check_threshold (m : matrix) (t : T) (sorted : list coord) : bool :=
    coords_eqb sorted (threshold_generic m t).

  (* the property checker used by the driver on the three answers of one entry point
     (maximum, arg-maximum, threshold list sorted in row-major order by the caller) *)
  Definition check_C07 (m : matrix) (t : T) (omax : option T) (oam : option coord)
             (sorted : list coord) : bool :=
    check_max m omax && check_argmax m oam && check_threshold m t sorted.

  (* every cell whose column-major index is in V .. n-1 satisfies [is_ninf] *)
  Definition check_padding (is_ninf : T -> bool) (m : matrix) (V n : nat) : bool :=
    forallb (fun i => match index_usize m i with Ok x => is_ninf x | _ => false end) (seq V (n - V)).

  (* end-to-end padding check (on the implementation's cells and answers): every cell with
     column-major index in V .. n-1 is -inf, and when some valid cell (index < V) satisfies
     [is_fin] the reported maximum is the maximum of the valid cells and the reported
     arg-maximum offset is a valid position *)
  Definition cell_at (m : matrix) (i : nat) : option T :=
    match index_usize m i with Ok x => Some x | _ => None end.
  Definition valid_cells (m : matrix) (V : nat) : list T := somes (map (cell_at m) (seq 0 V)).

  Definition check_padding_max (is_ninf is_fin : T -> bool) (m : matrix) (V n : nat)
             (omax : option T) (oam : option nat) : bool :=
    check_padding is_ninf m V n &&
    (if existsb is_fin (valid_cells m V)
     then check_max [valid_cells m V] omax &&
          match oam with Some off => Nat.ltb off V | None => false end
     else true).

End Maxi.

(* ---------- AVX2, u8 (avx2.rs): cells are integers 0..255 ---------- *)

Section MaxiU8.
  Local Open Scope Z_scope.

  Definition zmatrix := list (list Z).

  (* _mm256_sub_epi16: wrapping 16-bit subtraction, lanes read as signed *)
  Definition sub_epi16 (a b : Z) : Z := (a - b + 32768) mod 65536 - 32768.

  (* _mm256_unpacklo_epi8(r, 0) / _mm256_unpackhi_epi8(r, 0): per 128-bit lane, the low /
     high 8 bytes zero-extended to 16-bit lanes *)
  Definition unpacklo_epi8_zero {A} (r : list A) : list A := slice 0 8 r ++ slice 16 8 r.
  Definition unpackhi_epi8_zero {A} (r : list A) : list A := slice 8 8 r ++ slice 24 8 r.

  (* _mm256_permute2x128_si256(a, b, 0x20) = [a.lo128; b.lo128], 0x31 = [a.hi128; b.hi128]
     on vectors of sixteen 16-bit lanes *)
  Definition permute2x128_0x20 {A} (a b : list A) : list A := firstn 8 a ++ firstn 8 b.
  Definition permute2x128_0x31 {A} (a b : list A) : list A := skipn 8 a ++ skipn 8 b.

  Definition u8_vstate := ((list Z * list Z) * (list nat * list nat))%type.

  Definition argmax_u8_vstep (st : u8_vstate) (irow : nat * list Z) : u8_vstate :=
    let '((s1, s2), (p1, p2)) := st in
    let index := repeat (wrap16 (fst irow)) 16 in
    let r := slice 0 32 (snd irow) in                     (* _mm256_load_si256 *)
    let r1 := unpacklo_epi8_zero r in
    let r2 := unpackhi_epi8_zero r in
    let c1 := map2 Z.gtb r1 s1 in                         (* _mm256_cmpgt_epi16(r1, s1) *)
    let c2 := map2 Z.gtb r2 s2 in
    ((blendv s1 (map (fun x => sub_epi16 x 1) r1) c1, blendv s2 (map (fun x => sub_epi16 x 1) r2) c2),
     (blendv p1 index c1, blendv p2 index c2)).

  Definition argmax_u8_avx2_x (m : zmatrix) : list nat :=
    let st0 : u8_vstate := ((repeat (-1) 16, repeat (-1) 16), (repeat O 16, repeat O 16)) in
    let '(_, (p1, p2)) := fold_left argmax_u8_vstep (enumerate m) st0 in
    permute2x128_0x20 p1 p2 ++ permute2x128_0x31 p1 p2.

  (* .enumerate().map(|(col,row)| pos).max_by_key(|&pos| &data[pos]): last maximal element *)
  Fixpoint u8_keys (m : zmatrix) (col : nat) (x : list nat) : res (list (nat * nat * Z)) :=
    match x with
    | [] => Ok []
    | row :: rest =>
        k <- get m row col ;; ks <- u8_keys m (S col) rest ;; Ok ((row, col, k) :: ks)
    end.

  Definition argmax_u8_avx2 (m : zmatrix) : res (option (nat * nat)) :=
    if (65536 <? N.of_nat (length m))%N then Panic 21 else
    match m with
    | [] => Ok None
    | _ =>
        ks <- u8_keys m 0 (argmax_u8_avx2_x m) ;;
        match ks with
        | [] => Panic 23                                  (* x is a [u16; 32] *)
        | k0 :: rest => Ok (Some (fst (fold_left (pick_ge Z.leb) rest k0)))
        end
    end.

  (* max_u8_avx2: _mm256_max_epu8 from zero, then x.into_iter().max() *)
  Definition max_u8_avx2 (m : zmatrix) : res (option Z) :=
    match m with
    | [] => Ok None
    | _ =>
        let v := fold_left (fun acc row => map2 Z.max acc (slice 0 32 row)) m (repeat 0 32) in
        match v with
        | [] => Panic 23                                  (* x is a [u8; 32] *)
        | x0 :: rest => Ok (Some (fold_left Z.max rest x0))
        end
    end.

  Definition dispatch_argmax_u8 (a : arm) (m : zmatrix) : res (option (nat * nat)) :=
    match a with
    | AAvx2 => argmax_u8_avx2 m
    | _ => argmax_generic Z.leb m
    end.

  Definition dispatch_max_u8 (a : arm) (m : zmatrix) : res (option Z) :=
    match a with
    | AAvx2 => max_u8_avx2 m
    | _ => max_generic Z.leb m
    end.
End MaxiU8.

(* ---------- the defined score and the padding claim (f32 sums) ---------- *)

Section Score.
  Context {T : Type}.
  Variable add : T -> T -> T.
  Variable zero : T.
  Variable wild : nat.                  (* index of the wildcard symbol (K-1) *)
  Variable dflt : T.

  (* symbol at sequence index k; indices past the end read the wildcard (Striped) *)
  Definition sym (s : list nat) (k : nat) : nat := nth k s wild.

  (* terms pssm[j][sym(i+j)], j < M *)
  Definition terms (pssm : list (list T)) (s : list nat) (i : nat) : list T :=
    map (fun jr => nth (sym s (i + fst jr)) (snd jr) dflt) (enumerate pssm).

  (* score = 0.0; for j: score += pssm[j][..] *)
  Definition score_def (pssm : list (list T)) (s : list nat) (i : nat) : T :=
    fold_left add (terms pssm s i) zero.

  (* hypothesis of the padding claim, executable: the running sum and the terms are
     "ordinary" ([okv]: neither NaN nor +inf) all along *)
  Variable okv : T -> bool.
  Fixpoint prefix_ok (acc : T) (l : list T) : bool :=
    okv acc && match l with
               | [] => true
               | x :: r => okv x && prefix_ok (add acc x) r
               end.
  Definition terms_ok (pssm : list (list T)) (s : list nat) (i : nat) : bool :=
    prefix_ok zero (terms pssm s i).
End Score.

(* binary32: neither NaN nor +inf / exactly -inf *)
Definition f32_okv (x : IEEE.F32.t) : bool :=
  match x with
  | BinarySingleNaN.B754_nan => false
  | BinarySingleNaN.B754_infinity false => false
  | _ => true
  end.
Definition f32_is_ninf (x : IEEE.F32.t) : bool := IEEE.F32.is_neg_inf x.

(* ---------- source tables (translate/maxi_tables.py -> GenMaxi.v) ---------- *)

(* the kernels an arm of the dispatcher / a method of a pipeline can be wired to *)
Inductive kernel_id :=
  | KGenericArgmax | KGenericMax          (* <Generic as Maximum>::{argmax,max} *)
  | KDefaultArgmax | KDefaultMax          (* method not overridden: default impl of the trait *)
  | KArgmaxSse2 | KArgmaxF32Avx2 | KMaxF32Avx2 | KArgmaxU8Avx2 | KMaxU8Avx2.

(* arms of the dispatcher on Arm hosts (cfg(arm/aarch64): variants Generic and Neon) *)
Inductive neon_arm := NGeneric | NNeon.

Section RunKernel.
  Context {T : Type}.
  Variable le : T -> T -> bool.
  Variable lt : T -> T -> bool.
  Variable vmax : T -> T -> T.
  Variable smax : T -> T -> T.
  Variable ninf : T.

  (* 99: a kernel of another element type / operation (cannot be wired: it would not type-check) *)
  Definition run_argmax_f32 (k : kernel_id) (max_index : N) (m : list (list T)) : res (option (nat * nat)) :=
    match k with
    | KGenericArgmax | KDefaultArgmax => argmax_generic le m
    | KArgmaxSse2 => argmax_sse2 le ninf 32 max_index m
    | KArgmaxF32Avx2 => argmax_f32_avx2 le lt max_index m
    | _ => Panic 99
    end.

  (* [own]: the arg-maximum of the same pipeline (for the default max on top of it) *)
  Definition run_max_f32 (k : kernel_id) (own : res (option (nat * nat))) (m : list (list T)) : res (option T) :=
    match k with
    | KGenericMax => max_generic le m
    | KDefaultMax => max_of_argmax own m
    | KMaxF32Avx2 => max_f32_avx2 vmax smax m
    | _ => Panic 99
    end.
End RunKernel.

Definition run_argmax_u8 (k : kernel_id) (m : zmatrix) : res (option (nat * nat)) :=
  match k with
  | KGenericArgmax | KDefaultArgmax => argmax_generic Z.leb m
  | KArgmaxU8Avx2 => argmax_u8_avx2 m
  | _ => Panic 99
  end.

Definition run_max_u8 (k : kernel_id) (own : res (option (nat * nat))) (m : zmatrix) : res (option Z) :=
  match k with
  | KGenericMax => max_generic Z.leb m
  | KDefaultMax => max_of_argmax own m
  | KMaxU8Avx2 => max_u8_avx2 m
  | _ => Panic 99
  end.

(* _mm256_permute2x128_si256(a, b, imm) on vectors of sixteen 16-bit lanes, any immediate:
   each 128-bit half of the result is selected by a nibble (bits 1:0 pick a.lo / a.hi / b.lo /
   b.hi, bit 3 zeroes) *)
Definition sel128 {A} (z : A) (a b : list A) (s : Z) : list A :=
  if Z.testbit s 3 then repeat z 8 else
  match Z.land s 3 with
  | 0%Z => firstn 8 a
  | 1%Z => skipn 8 a
  | 2%Z => firstn 8 b
  | _ => skipn 8 b
  end.
Definition permute2x128 {A} (z : A) (a b : list A) (imm : Z) : list A :=
  sel128 z a b (Z.land imm 15) ++ sel128 z a b (Z.land (Z.shiftr imm 4) 15).

(* _mm256_storeu_si256(x[off..].as_mut_ptr(), v) *)
Definition storeu {A} (x : list A) (off : nat) (v : list A) : list A :=
  firstn off x ++ v ++ skipn (off + length v) x.

(* the column reconstruction of argmax_u8_avx2 from the (a, b, imm, offset) list of the source *)
Definition reconstruct_u8 (q : list (nat * nat * Z * nat)) (p1 p2 : list nat) : list nat :=
  fold_left (fun x e => let '(a, b, imm, off) := e in
                        let reg k := if Nat.eqb k 1 then p1 else p2 in
                        storeu x off (permute2x128 O (reg a) (reg b) imm))
            q (repeat O 32).

(* ---------- the dispatcher as compiled on Arm hosts ----------
   Not compiled (and not executable) on the x86_64 host of the checks: modelled from the source.
   dispatch.rs has no cfg(arm) arm in Maximum / Threshold, so both variants take the default
   arm (<Generic as Maximum>::{argmax,max}, default threshold); neon.rs has no arg-max / max
   kernel; the dispatcher's column count there is <Neon as Backend>::Lanes = 16. *)
Section ArmHost.
  Context {T : Type}.
  Variable le : T -> T -> bool.
  Definition armhost_dispatch_argmax (a : neon_arm) (m : list (list T)) : res (option (nat * nat)) :=
    match a with NGeneric | NNeon => argmax_generic le m end.
  Definition armhost_dispatch_max (a : neon_arm) (m : list (list T)) : res (option T) :=
    match a with NGeneric | NNeon => max_generic le m end.
  Definition armhost_dispatch_threshold (a : neon_arm) (m : list (list T)) (t : T) : list (nat * nat) :=
    threshold_generic le m t.
  (* interpretation of a generated table entry on an Arm host: only the generic kernels exist *)
  Definition run_argmax_armhost (k : kernel_id) (m : list (list T)) : res (option (nat * nat)) :=
    match k with KGenericArgmax | KDefaultArgmax => argmax_generic le m | _ => Panic 99 end.
  Definition run_max_armhost (k : kernel_id) (own : res (option (nat * nat))) (m : list (list T)) : res (option T) :=
    match k with KGenericMax => max_generic le m | KDefaultMax => max_of_argmax own m | _ => Panic 99 end.
End ArmHost.

(* ---------- the f32 vector arg-max kernels, evaluated without rebuilding the row index ----------
   [wrap32 i] costs a conversion of the unary row index for every row, which makes the model
   quadratic in the number of rows.  When the matrix has at most 2^32 rows (one test on the
   row count) no index wraps and the lanes can store [i] itself; otherwise the original model
   is used.  Proved equal to the original kernels for every input (MaxiTop.fast_kernels_eq);
   these are the functions the driver evaluates. *)
Section MaxiFast.
  Context {T : Type}.
  Variable le : T -> T -> bool.
  Variable lt : T -> T -> bool.
  Variable ninf : T.

  Definition argmax_vstep_id (width : nat) (load : list T -> list (list T))
             (st : @vstate T) (irow : nat * list T) : @vstate T :=
    let '(s, p) := st in
    let r := load (snd irow) in
    let index := repeat (fst irow) width in
    let c := map2 (map2 le) s r in
    (map2 (fun sk rc => blendv sk (fst rc) (snd rc)) s (combine r c),
     map2 (fun pk ck => blendv pk index ck) p c).

  Definition rows_fit32b (m : list (list T)) : bool := (N.of_nat (length m) <=? 4294967296)%N.

  Definition argmax_f32_avx2_x_fast (m : list (list T)) (row0 : list T) : list nat :=
    if rows_fit32b m then
      concat (snd (fold_left (argmax_vstep_id 8 load4x8) (enumerate m) (load4x8 row0, repeat (repeat 0 8) 4)))
    else argmax_f32_avx2_x le m row0.

  Definition argmax_f32_avx2_fast (max_index : N) (m : list (list T)) : res (option (nat * nat)) :=
    if (4294967295 <? max_index)%N then Panic 20 else
    match m with
    | [] => Ok None
    | row0 :: _ =>
        let x := argmax_f32_avx2_x_fast m row0 in
        b0 <- get m 0 0 ;;
        b <- avx2_f32_reduce lt m 0 x (0, 0, b0) ;;
        Ok (Some (tpos b))
    end.

  Definition sse2_block_fast (m : list (list T)) (off : nat) : list nat :=
    if rows_fit32b m then
      concat (snd (fold_left (argmax_vstep_id 4 (load4x4 off)) (enumerate m)
                             (repeat (repeat ninf 4) 4, repeat (repeat 0 4) 4)))
    else sse2_block le ninf m off.

  Definition argmax_sse2_fast (C : nat) (max_index : N) (m : list (list T)) : res (option (nat * nat)) :=
    if (4294967295 <? max_index)%N then Panic 20 else
    match m with
    | [] => Ok None
    | _ =>
        let output := flat_map (fun b => sse2_block_fast m (b * 16)) (seq 0 (C / 16)) in
        b <- sse2_reduce le m output 0 C (0, 0, ninf) ;;
        Ok (Some (tpos b))
    end.

  Definition pipeline_sse2_max_fast (C : nat) (max_index : N) (m : list (list T)) : res (option T) :=
    max_of_argmax (argmax_sse2_fast C max_index m) m.

  Definition dispatch_argmax_f32_fast (a : arm) (max_index : N) (m : list (list T)) : res (option (nat * nat)) :=
    match a with
    | AAvx2 => argmax_f32_avx2_fast max_index m
    | ASse2 => argmax_sse2_fast 32 max_index m
    | AGeneric => argmax_generic le m
    end.
End MaxiFast.

(* ---------- comparisons read from the source (translate/maxi_tables.py -> GenMaxi.v) ---------- *)
Inductive vcmp := VCmpLe | VCmpLt.       (* _mm_cmple_ps, _CMP_LE_OS | _mm_cmplt_ps, _CMP_LT_OS *)
Inductive rcmp := RCmpGe | RCmpGt.       (* if score >= best {..} | if score > best {..} *)

Definition vcmp_fn {T : Type} (le lt : T -> T -> bool) (c : vcmp) : T -> T -> bool :=
  match c with VCmpLe => le | VCmpLt => lt end.

Definition rcmp_pick {T : Type} (le lt : T -> T -> bool) (c : rcmp) (best x : nat * nat * T) : nat * nat * T :=
  match c with
  | RCmpGe => if le (snd best) (snd x) then x else best
  | RCmpGt => if lt (snd best) (snd x) then x else best
  end.
