(* The element comparison of the f32 instance of the C19 check: `<f32 as PartialEq>::eq` on the
   codes the harness uses for f32 cells (harness/src/bin/dense.rs, `impl Val for f32`):
     an integer i with |i| <= 2^24, except -0.0      <->  the code i
     every other value (NaN, -0.0, infinities, ...)  <->  the code 2^40 + its IEEE-754 bit pattern
   The coding is injective on values (bit patterns), so identity of cells is Z.eqb on codes;
   == is NOT identity: a NaN is unequal to everything including itself, and 0.0 == -0.0.
   Executable definitions only. *)
From Coq Require Import ZArith Bool.
Local Open Scope Z_scope.

Definition F32_BASE : Z := 2 ^ 40.

(* the bit pattern of a value coded by its bits *)
Definition f32c_bits (c : Z) : option Z := if F32_BASE <=? c then Some (c - F32_BASE) else None.

Definition f32c_is_nan (c : Z) : bool :=
  match f32c_bits c with
  | Some b => 2139095040 <? Z.land b 2147483647      (* exponent all ones, mantissa non-zero *)
  | None => false
  end.

Definition f32c_is_zero (c : Z) : bool :=
  (c =? 0) || (c =? F32_BASE) || (c =? F32_BASE + 2147483648).   (* 0.0, 0.0 by its bits, -0.0 *)

Definition f32c_eqb (a b : Z) : bool :=
  if f32c_is_nan a || f32c_is_nan b then false
  else if f32c_is_zero a && f32c_is_zero b then true
  else a =? b.
