(* Property C19 — dense matrix storage keeps rows aligned and contents intact
   across operations.  This file contains only the property theorems (closed by
   [exact] of lemmas from DenseProofs), statement pins and assumption audits. *)
From Coq Require Import List Arith Bool Lia Permutation ZArith.
From LMBase Require Import Res ListX.
From LMDense Require Import DenseModel DenseProofs DenseReg DenseRegProofs DenseCheck DenseCheckProofs.
From LMDense Require Import DenseSteps DenseStepsProofs.
Import ListNotations.

(* Stride: at least the column count, a whole number of alignment units, minimal. *)
Theorem C19_stride_spec : forall size C align,
  0 < size -> 0 < align -> align mod size = 0 ->
  C <= stride size C align /\
  (stride size C align * size) mod align = 0 /\
  stride size C align * size < C * size + align.
Proof.
  intros size C align Hs Ha Hd. repeat split.
  - exact (stride_ge size C align Hs Ha).
  - exact (stride_mod_align size C align Hs Ha Hd).
  - rewrite (stride_bytes size C align Hs Ha Hd). exact (row_bytes_minimal size C align Ha).
Qed.

(* Every row starts on an alignment boundary and rows do not overlap. *)
Theorem C19_rows_aligned_disjoint : forall base size C align r r',
  0 < align -> base mod align = 0 ->
  row_addr base size C align r mod align = 0 /\
  (r < r' -> row_addr base size C align r + C * size <= row_addr base size C align r').
Proof.
  intros base size C align r r' Ha Hb. split.
  - exact (row_addr_aligned base size C align r Ha Hb).
  - exact (rows_disjoint base size C align r r' Ha).
Qed.

(* Any operation sequence on the storage (rows with padding holding arbitrary,
   per-step different junk) behaves like the same sequence on a rows x columns
   table; it panics exactly when the table does, with the same site. *)
Theorem C19_storage_refines_table :
  forall (T : Type) (dflt : T) (C S : nat), C <= S ->
  forall (pads : nat -> nat -> T) (ops : list (op T)) (k : nat) (st : storage),
    s_wf C S st ->
    match s_run_pads dflt C S pads k st ops, t_run dflt C (abs st) ops with
    | Ok st', Ok t' => abs st' = t' /\ s_wf C S st'
    | Panic a, Panic b => a = b
    | _, _ => False
    end.
Proof. intros T dflt C S H pads ops k st Hwf. exact (s_run_refines dflt C S H pads ops k st Hwf). Qed.

(* The flat view: length rows*stride, logical cell (r,c) at offset r*stride+c,
   and re-chunking the flat view gives back the rows. *)
Theorem C19_ravel_layout :
  forall (T : Type) (C S : nat), C <= S -> forall (st : @storage T), s_wf C S st ->
    length (ravel st) = length st * S /\
    (forall r c d, r < length st -> c < C ->
       nth (r * S + c) (ravel st) d = nth c (nth r (abs st) []) d) /\
    unravel C S (length st) (ravel st) = st.
Proof.
  intros T C S H st Hwf. repeat split.
  - exact (ravel_length C S H st Hwf).
  - intros r c d Hr Hc. rewrite (ravel_index C S H st r c d Hwf Hr Hc).
    unfold abs. change (@nil T) with (ra (@srow0 T)). rewrite map_nth. reflexivity.
  - exact (unravel_ravel C S H st Hwf).
Qed.

(* fill() writes every storage cell (padding included) and the logical view is the filled table. *)
Theorem C19_fill :
  forall (T : Type) (C S : nat), C <= S -> forall (st : @storage T) (v : T), s_wf C S st ->
    (forall x, In x (ravel (s_fill C S st v)) -> x = v) /\
    abs (s_fill C S st v) = t_fill C (abs st) v.
Proof.
  intros T C S H st v Hwf. split.
  - intros x. exact (s_fill_all C S H st v x Hwf).
  - pose proof (abs_step v C S H (fun _ => v) st (OFill v) Hwf) as A. exact A.
Qed.

(* resize: reports the requested row count, keeps existing rows, new rows are default. *)
Theorem C19_resize :
  forall (T : Type) (dflt : T) (C : nat) (t : @table T) (rows : nat),
    t_rows (t_resize dflt C t rows) = rows /\
    (forall r, r < rows -> r < length t -> nth r (t_resize dflt C t rows) [] = nth r t []) /\
    (forall r, length t <= r -> r < rows -> nth r (t_resize dflt C t rows) [] = repeat dflt C).
Proof.
  intros T dflt C t rows. repeat split.
  - exact (t_resize_rows dflt C C (le_n C) t rows).
  - intros r. exact (t_resize_keeps dflt C C (le_n C) t rows r).
  - intros r. exact (t_resize_new dflt C C (le_n C) t rows r).
Qed.

(* Equality and clone depend on the logical cells only. *)
Theorem C19_eq_clone_logical :
  forall (T : Type) (C S : nat) (eqT : T -> T -> bool) (a b : @storage T) (pad : nat -> T),
    s_eqb eqT a b = table_eqb eqT (abs a) (abs b) /\
    abs (s_clone C S pad a) = abs a /\
    ((forall x, eqT x x = true) -> s_eqb eqT (s_clone C S pad a) a = true).
Proof.
  intros T C S eqT a b pad. repeat split.
  - exact (s_eqb_abs eqT a b).
  - exact (abs_clone C S pad a).
  - intros Hr. exact (clone_eq C S eqT Hr pad a).
Qed.

(* Forward / reverse / interleaved double-ended iteration visits exactly the rows:
   all-front = the rows in order, all-back = the rows in reverse order, any
   interleaving of next() / next_back() of total length rows = every row once. *)
Theorem C19_iteration :
  forall (T : Type) (t : @table T),
    take_mixed (repeat true (length t)) t = t /\
    take_mixed (repeat false (length t)) t = rev t /\
    (forall pat, length pat = length t -> Permutation (take_mixed pat t) t).
Proof.
  intros T t. repeat split.
  - exact (take_mixed_front t).
  - exact (take_mixed_back (length t) t eq_refl).
  - intros pat. exact (take_mixed_perm pat t).
Qed.

(* ---------- several matrices with different histories (register file) ---------- *)

(* The struct as it is (data vector, SEPARATE rows field, capacity) refines the
   rows x columns tables for every operation sequence over a register file of
   matrices: single-matrix operations on any register, from_rows with an iterator
   whose len() is wrong, reserve, clone_from / clone between registers, swap, move.
   The struct invariant rows == data.len() <= capacity is preserved, rows() of every
   register is the row count of its table, and a panic happens exactly where the
   tables panic (same site). *)
Theorem C19_regfile_refines_table :
  forall (T : Type) (dflt : T) (C S : nat), C <= S ->
  forall (pads : nat -> nat -> T) (ops : list (rop T)) (k : nat) (regs : list (@smat T)),
    Forall (m_wf C S) regs ->
    match rs_run_pads dflt C S pads k regs ops, rt_run dflt C (map mabs regs) ops with
    | Ok rs', Ok ts' =>
        map mabs rs' = ts' /\ Forall (m_wf C S) rs' /\ map (@m_rows T) rs' = map (@length _) ts'
    | Panic a, Panic b => a = b
    | _, _ => False
    end.
Proof. intros T dflt C S H pads ops k regs Hwf. exact (rs_run_refines dflt C S H pads ops k regs Hwf). Qed.

(* In every reachable (well-formed) state the observers that read DIFFERENT fields
   agree: rows() (the rows field) is the number of rows Index/iter() see (the data
   vector), ravel() (rows*stride cells) is the whole buffer, and the derived ==
   (data and rows field) between two matrices with any capacities / paddings /
   histories is equality of the logical cells. *)
Theorem C19_struct_observers_agree :
  forall (T : Type) (C S : nat) (eqT : T -> T -> bool), C <= S ->
  forall a b : @smat T, m_wf C S a -> m_wf C S b ->
    m_rows a = length (mabs a) /\
    m_ravel S a = ravel (sd a) /\ length (m_ravel S a) = m_rows a * S /\
    m_eqb eqT a b = table_eqb eqT (mabs a) (mabs b).
Proof.
  intros T C S eqT H a b Ha Hb. split; [|split; [|split]].
  - exact (m_rows_abs C S a Ha).
  - exact (m_ravel_whole C S H a Ha).
  - rewrite (m_ravel_whole C S H a Ha). destruct Ha as [H1 [H2 _]].
    rewrite (ravel_length C S H (sd a) H1). unfold m_rows. rewrite H2. reflexivity.
  - exact (m_eqb_abs C S H eqT a b Ha Hb).
Qed.

(* from_rows does not trust ExactSizeIterator::len(): the result holds exactly the rows
   the iterator yielded (never an unwritten row) when it yields at most len() rows, all
   of C cells; it panics when a row has another length or when more rows than len()
   arrive; with an honest len() it is from_rows of the single-matrix model.  The
   struct-level execution (uninitialized buffer, indexed writes, resize(written))
   refines it and re-establishes the invariant. *)
Theorem C19_from_rows_untrusted_len :
  forall (T : Type) (dflt : T) (C S : nat), C <= S ->
  forall (pad : nat -> T) (claimed : nat) (rows : list (list T)),
    match m_from_rows_len dflt C S pad claimed rows, t_from_rows_len C claimed rows with
    | Ok m', Ok t' => mabs m' = t' /\ m_wf C S m'
    | Panic a, Panic b => a = b
    | _, _ => False
    end /\
    (forall t', t_from_rows_len C claimed rows = Ok t' ->
       t' = rows /\ length rows <= claimed /\ Forall (fun r => length r = C) rows) /\
    (claimed < length rows -> exists site, t_from_rows_len C claimed rows = Panic site) /\
    t_from_rows_len C (length rows) rows = t_from_rows C rows.
Proof.
  intros T dflt C S H pad claimed rows. split; [|split; [|split]].
  - exact (m_from_rows_len_spec dflt C S H pad claimed rows).
  - intros t'. unfold t_from_rows_len.
    destruct (from_rows_scan C claimed 0 rows) as [u| | |] eqn:E; simpl; intros K; try discriminate.
    injection K as K'. subst t'.
    apply (from_rows_scan_ok C S H) in E. destruct E as [H1 H2]. simpl in H1. auto.
  - intros Hlt.
    assert (X : exists site, from_rows_scan C claimed 0 rows = Panic site)
      by (apply (from_rows_scan_more C S H); [lia | exact Hlt]).
    destruct X as [site E].
    exists site. unfold t_from_rows_len. rewrite E. reflexivity.
  - apply (t_from_rows_len_honest C S H).
Qed.

(* Double-ended iteration continued past exhaustion: the first rows() calls of any
   next()/next_back() pattern hand out every row exactly once, every later call
   returns None (the iterator is fused). *)
Theorem C19_iteration_fused :
  forall (T : Type) (pat : list bool) (t : @table T), length t <= length pat ->
    take_mixed_o pat t =
      map Some (take_mixed (firstn (length t) pat) t) ++ repeat None (length pat - length t) /\
    Permutation (take_mixed (firstn (length t) pat) t) t.
Proof.
  intros T pat t H. split.
  - exact (take_mixed_o_spec pat t).
  - apply take_mixed_perm. rewrite firstn_length. lia.
Qed.

(* Positional iteration (next / next_back / nth / nth_back, i.e. what skip, step_by, rev().skip,
   rev().step_by are made of), for any interleaving of the four calls, continued past exhaustion:
   call j hands out exactly the row whose index the shrinking window [lo, hi) of all rows
   designates (front calls take lo + k and move lo past it, back calls take hi - 1 - k and
   move hi down to it), every index lies inside the table, no row is handed out twice, and
   len() after each call is the size of the window. *)
Theorem C19_iteration_steps :
  forall (T : Type) (pat : list istep) (t : list (list T)),
    take_steps pat t = map (pick t) (steps_idx pat 0 (length t)) /\
    (forall i, In (Some i) (steps_idx pat 0 (length t)) -> i < length t) /\
    NoDup (somes (steps_idx pat 0 (length t))) /\
    steps_lens pat (length t) = steps_idx_lens pat 0 (length t).
Proof.
  intros T pat t. split; [exact (take_steps_idx pat t)|]. split; [|split].
  - intros i Hi. apply (steps_idx_in_range pat 0 (length t) i (Nat.le_0_l _)) in Hi. lia.
  - exact (steps_idx_nodup pat 0 (length t) (Nat.le_0_l _)).
  - rewrite <- (steps_lens_idx pat 0 (length t) (Nat.le_0_l _)). now rewrite Nat.sub_0_r.
Qed.

(* skip(k) and rev().skip(k) as std implements them (one nth(k) / nth_back(k) call, then plain
   next() / next_back()): the rows from k on, in forward respectively reverse order. *)
Theorem C19_iteration_skip_adaptors :
  forall (T : Type) (k : nat) (t : list (list T)),
    somes (take_steps (SNth k :: repeat SNext (length t)) t) = skipn k t /\
    somes (take_steps (SNthBack k :: repeat SBack (length t)) t) = skipn k (rev t).
Proof. intros T k t. split; [exact (take_steps_skip k t)|exact (take_steps_rev_skip k t)]. Qed.

Example C19_iteration_steps_nonvacuous :
  take_steps [SNthBack 1; SNth 1; SBack; SNext; SNext] [[1]; [2]; [3]; [4]; [5]; [6]]
  = [Some [5]; Some [2]; Some [4]; Some [3]; None].
Proof. reflexivity. Qed.

(* The extracted checker used by the driver for PROPFAIL decides exactly the
   specification relation trace_ok (DenseCheck.v): it is sound and complete. *)
Theorem C19_check_sound :
  forall (T : Type) (dflt : T) (C S : nat) (eqT : T -> T -> bool),
    (forall x y, eqT x y = true <-> x = y) ->
  forall pat regs ops ob fin,
    check_C19 dflt C S eqT pat regs ops ob fin = true -> trace_ok dflt C S pat regs ops ob fin.
Proof. intros T dflt C S eqT He pat regs ops ob fin. apply (check_C19_iff dflt C S eqT He pat ops). Qed.

Theorem C19_check_complete :
  forall (T : Type) (dflt : T) (C S : nat) (eqT : T -> T -> bool),
    (forall x y, eqT x y = true <-> x = y) ->
  forall pat regs ops ob fin,
    trace_ok dflt C S pat regs ops ob fin -> check_C19 dflt C S eqT pat regs ops ob fin = true.
Proof. intros T dflt C S eqT He pat regs ops ob fin. apply (check_C19_iff dflt C S eqT He pat ops). Qed.

(* The instance that is extracted and run by the driver (cells as Z, compared by Z.eqb). *)
Theorem C19_check_extracted_instance :
  forall (C S : nat) pat regs ops ob fin,
    check_C19 0%Z C S Z.eqb pat regs ops ob fin = true <-> trace_ok 0%Z C S pat regs ops ob fin.
Proof. intros C S pat regs ops ob fin. apply (check_C19_iff 0%Z C S Z.eqb Z.eqb_eq pat ops). Qed.

(* The specification is met by the struct-level model: in every well-formed state the
   observations the model's own observers make (each reading the field the code
   reads) are accepted by the property. *)
Theorem C19_struct_model_meets_spec :
  forall (T : Type) (C S : nat) (eqT : T -> T -> bool),
    (forall x y, eqT x y = true <-> x = y) -> C <= S ->
  forall regs : list (@smat T), Forall (m_wf C S) regs ->
    robs_ok S (map mabs regs) (m_observe S eqT regs).
Proof. intros T C S eqT He H regs Hwf. exact (m_observe_ok C S eqT He H regs Hwf). Qed.

(* Every state the struct-level model reaches, from well-formed registers and by any
   operation sequence (hence after every prefix of it), corresponds to the tables the
   same sequence produces and is observed as the property demands. *)
Theorem C19_every_reachable_state_meets_spec :
  forall (T : Type) (dflt : T) (C S : nat) (eqT : T -> T -> bool),
    (forall x y, eqT x y = true <-> x = y) -> C <= S ->
  forall (pads : nat -> nat -> T) (ops : list (rop T)) (k : nat) (regs rs' : list (@smat T)),
    Forall (m_wf C S) regs ->
    rs_run_pads dflt C S pads k regs ops = Ok rs' ->
    rt_run dflt C (map mabs regs) ops = Ok (map mabs rs') /\
    robs_ok S (map mabs rs') (m_observe S eqT rs').
Proof.
  intros T dflt C S eqT He H pads ops k regs rs' Hwf E.
  pose proof (rs_run_refines dflt C S H pads ops k regs Hwf) as R. rewrite E in R.
  destruct (rt_run dflt C (map mabs regs) ops) as [ts'| | |]; try contradiction.
  destruct R as [R1 [R2 _]]. subst ts'. split; [reflexivity|].
  exact (m_observe_ok C S eqT He H rs' R2).
Qed.

(* Non-vacuity of the register-file theorems: three fresh matrices are well formed; a
   clone_from into a shrunk matrix of larger capacity reports the source's rows; the
   checker accepts the right observation of that sequence and rejects the one with a
   stale row count. *)
Definition ex_ops : list (rop nat) :=
  [RLocal 0 (ONew 8); RLocal 0 (OResize 2); RLocal 1 (OFromRows [[1]; [2]; [3]; [4]; [5]]); RCloneFrom 0 1].

Example C19_nonvacuous_regfile :
  Forall (m_wf 1 32) (repeat (m_resize 0 1 32 (fun i => i) (m_empty 0) 0) 3) /\
  match rs_run_pads 0 1 32 (fun k i => k + i) 0 (repeat (m_resize 0 1 32 (fun i => i) (m_empty 0) 0) 3) ex_ops with
  | Ok rs => map (@m_rows nat) rs = [5; 5; 0] /\
             m_eqb Nat.eqb (nth 0 rs (m_empty 0)) (nth 1 rs (m_empty 0)) = true /\
             scap (nth 0 rs (m_empty 0)) = 5
  | _ => False
  end.
Proof.
  split.
  - repeat constructor.
  - vm_compute. repeat split.
Qed.

Definition ex_obs (rows0 : nat) : list (obs nat) :=
  let mk r cells := {| ob_rows := r; ob_stride := 32; ob_aligned := true; ob_ravel := true; ob_cells := cells |} in
  let z8 := repeat [0] 8 in let z2 := repeat [0] 2 in let f5 := [[1]; [2]; [3]; [4]; [5]] in
  let eqs (a b c : bool) := [true; a; b; a; true; c; b; c; true] in
  let ob m0 m1 a b c := ObsOk {| ob_regs := [m0; m1; mk 0 []]; ob_eq := eqs a b c; ob_ne := map negb (eqs a b c) |} in
  [ob (mk 8 z8) (mk 0 []) false false true;
   ob (mk 2 z2) (mk 0 []) false false true;
   ob (mk 2 z2) (mk 5 f5) false false false;
   ob (mk rows0 f5) (mk 5 f5) true false false].

Definition ex_fin : list (fobs nat) :=
  let mk t := {| f_iter := t; f_rev := rev t; f_into := t; f_into_mut := t;
                 f_mixed := take_mixed_o [true; false] t; f_mixed_mut := take_mixed_o [true; false] t;
                 f_mixed_into := take_mixed_o [true; false] t; f_lens := mixed_lens [true; false] (length t);
                 f_eqclone := true; f_eqpad := true; f_eqmod := match t with [] => true | _ => false end |} in
  [mk [[1]; [2]; [3]; [4]; [5]]; mk [[1]; [2]; [3]; [4]; [5]]; mk []].

Example C19_check_nonvacuous :
  check_C19 0 1 32 Nat.eqb [true; false] [[]; []; []] ex_ops (ex_obs 5) (Some ex_fin) = true /\
  check_C19 0 1 32 Nat.eqb [true; false] [[]; []; []] ex_ops (ex_obs 2) (Some ex_fin) = false.
Proof. vm_compute. split; reflexivity. Qed.

(* Non-vacuity: the hypotheses are met by the matrices the code builds, and the
   layout of the element types / column counts named by the property. *)
Example C19_nonvacuous_wf :
  s_wf 5 32 (s_new 0 5 32 (fun i => i) 3) /\ 5 <= stride 1 5 32.
Proof. split; [apply s_new_wf | vm_compute; lia]. Qed.

Example C19_strides_x86 :
  map (fun C => (stride 1 C 32, stride 4 C 32, stride 8 C 32)) [1; 5; 7; 16; 21; 32; 43]
  = [(32, 8, 4); (32, 8, 8); (32, 8, 8); (32, 16, 16); (32, 24, 24); (32, 32, 32); (64, 48, 44)].
Proof. vm_compute. reflexivity. Qed.

Check C19_stride_spec : forall size C align,
  0 < size -> 0 < align -> align mod size = 0 ->
  C <= stride size C align /\
  (stride size C align * size) mod align = 0 /\
  stride size C align * size < C * size + align.
Check C19_storage_refines_table :
  forall (T : Type) (dflt : T) (C S : nat), C <= S ->
  forall (pads : nat -> nat -> T) (ops : list (op T)) (k : nat) (st : storage),
    s_wf C S st ->
    match s_run_pads dflt C S pads k st ops, t_run dflt C (abs st) ops with
    | Ok st', Ok t' => abs st' = t' /\ s_wf C S st'
    | Panic a, Panic b => a = b
    | _, _ => False
    end.
Check C19_regfile_refines_table :
  forall (T : Type) (dflt : T) (C S : nat), C <= S ->
  forall (pads : nat -> nat -> T) (ops : list (rop T)) (k : nat) (regs : list (@smat T)),
    Forall (m_wf C S) regs ->
    match rs_run_pads dflt C S pads k regs ops, rt_run dflt C (map mabs regs) ops with
    | Ok rs', Ok ts' =>
        map mabs rs' = ts' /\ Forall (m_wf C S) rs' /\ map (@m_rows T) rs' = map (@length _) ts'
    | Panic a, Panic b => a = b
    | _, _ => False
    end.
Check C19_check_sound :
  forall (T : Type) (dflt : T) (C S : nat) (eqT : T -> T -> bool),
    (forall x y, eqT x y = true <-> x = y) ->
  forall pat regs ops ob fin,
    check_C19 dflt C S eqT pat regs ops ob fin = true -> trace_ok dflt C S pat regs ops ob fin.
Check C19_check_complete :
  forall (T : Type) (dflt : T) (C S : nat) (eqT : T -> T -> bool),
    (forall x y, eqT x y = true <-> x = y) ->
  forall pat regs ops ob fin,
    trace_ok dflt C S pat regs ops ob fin -> check_C19 dflt C S eqT pat regs ops ob fin = true.
