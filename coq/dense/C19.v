(* Property C19 — dense matrix storage keeps rows aligned and contents intact
   across operations.  This file contains only the property theorems (closed by
   [exact] of lemmas from DenseProofs), statement pins and assumption audits. *)
From Coq Require Import List Arith Bool Lia Permutation.
From LMBase Require Import Res ListX.
From LMDense Require Import DenseModel DenseProofs.
Import ListNotations.

(* Stride: at least the column count, a whole number of alignment units, minimal. *)
Theorem C19_stride_spec : forall size C align,
  0 < size -> 0 < align -> align mod size = 0 ->
  C <= stride size C align /\
  (stride size C align * size) mod align = 0 /\
  stride size C align * size < C * size + align.
Proof.
  intros size C align Hs Ha Hd. repeat split.
  - exact (stride_ge size C align Hs Ha).
  - exact (stride_mod_align size C align Hs Ha Hd).
  - rewrite (stride_bytes size C align Hs Ha Hd). exact (row_bytes_minimal size C align Ha).
Qed.

(* Every row starts on an alignment boundary and rows do not overlap. *)
Theorem C19_rows_aligned_disjoint : forall base size C align r r',
  0 < align -> base mod align = 0 ->
  row_addr base size C align r mod align = 0 /\
  (r < r' -> row_addr base size C align r + C * size <= row_addr base size C align r').
Proof.
  intros base size C align r r' Ha Hb. split.
  - exact (row_addr_aligned base size C align r Ha Hb).
  - exact (rows_disjoint base size C align r r' Ha).
Qed.

(* Any operation sequence on the storage (rows with padding holding arbitrary,
   per-step different junk) behaves like the same sequence on a rows x columns
   table; it panics exactly when the table does, with the same site. *)
Theorem C19_storage_refines_table :
  forall (T : Type) (dflt : T) (C S : nat), C <= S ->
  forall (pads : nat -> nat -> T) (ops : list (op T)) (k : nat) (st : storage),
    s_wf C S st ->
    match s_run_pads dflt C S pads k st ops, t_run dflt C (abs st) ops with
    | Ok st', Ok t' => abs st' = t' /\ s_wf C S st'
    | Panic a, Panic b => a = b
    | _, _ => False
    end.
Proof. intros T dflt C S H pads ops k st Hwf. exact (s_run_refines dflt C S H pads ops k st Hwf). Qed.

(* The flat view: length rows*stride, logical cell (r,c) at offset r*stride+c,
   and re-chunking the flat view gives back the rows. *)
Theorem C19_ravel_layout :
  forall (T : Type) (C S : nat), C <= S -> forall (st : @storage T), s_wf C S st ->
    length (ravel st) = length st * S /\
    (forall r c d, r < length st -> c < C ->
       nth (r * S + c) (ravel st) d = nth c (nth r (abs st) []) d) /\
    unravel C S (length st) (ravel st) = st.
Proof.
  intros T C S H st Hwf. repeat split.
  - exact (ravel_length C S H st Hwf).
  - intros r c d Hr Hc. rewrite (ravel_index C S H st r c d Hwf Hr Hc).
    unfold abs. change (@nil T) with (ra (@srow0 T)). rewrite map_nth. reflexivity.
  - exact (unravel_ravel C S H st Hwf).
Qed.

(* fill() writes every storage cell (padding included) and the logical view is the filled table. *)
Theorem C19_fill :
  forall (T : Type) (C S : nat), C <= S -> forall (st : @storage T) (v : T), s_wf C S st ->
    (forall x, In x (ravel (s_fill C S st v)) -> x = v) /\
    abs (s_fill C S st v) = t_fill C (abs st) v.
Proof.
  intros T C S H st v Hwf. split.
  - intros x. exact (s_fill_all C S H st v x Hwf).
  - pose proof (abs_step v C S H (fun _ => v) st (OFill v) Hwf) as A. exact A.
Qed.

(* resize: reports the requested row count, keeps existing rows, new rows are default. *)
Theorem C19_resize :
  forall (T : Type) (dflt : T) (C : nat) (t : @table T) (rows : nat),
    t_rows (t_resize dflt C t rows) = rows /\
    (forall r, r < rows -> r < length t -> nth r (t_resize dflt C t rows) [] = nth r t []) /\
    (forall r, length t <= r -> r < rows -> nth r (t_resize dflt C t rows) [] = repeat dflt C).
Proof.
  intros T dflt C t rows. repeat split.
  - exact (t_resize_rows dflt C C (le_n C) t rows).
  - intros r. exact (t_resize_keeps dflt C C (le_n C) t rows r).
  - intros r. exact (t_resize_new dflt C C (le_n C) t rows r).
Qed.

(* Equality and clone depend on the logical cells only. *)
Theorem C19_eq_clone_logical :
  forall (T : Type) (C S : nat) (eqT : T -> T -> bool) (a b : @storage T) (pad : nat -> T),
    s_eqb eqT a b = table_eqb eqT (abs a) (abs b) /\
    abs (s_clone C S pad a) = abs a /\
    ((forall x, eqT x x = true) -> s_eqb eqT (s_clone C S pad a) a = true).
Proof.
  intros T C S eqT a b pad. repeat split.
  - exact (s_eqb_abs eqT a b).
  - exact (abs_clone C S pad a).
  - intros Hr. exact (clone_eq C S eqT Hr pad a).
Qed.

(* Forward / reverse / interleaved double-ended iteration visits exactly the rows:
   all-front = the rows in order, all-back = the rows in reverse order, any
   interleaving of next() / next_back() of total length rows = every row once. *)
Theorem C19_iteration :
  forall (T : Type) (t : @table T),
    take_mixed (repeat true (length t)) t = t /\
    take_mixed (repeat false (length t)) t = rev t /\
    (forall pat, length pat = length t -> Permutation (take_mixed pat t) t).
Proof.
  intros T t. repeat split.
  - exact (take_mixed_front t).
  - exact (take_mixed_back (length t) t eq_refl).
  - intros pat. exact (take_mixed_perm pat t).
Qed.

(* Non-vacuity: the hypotheses are met by the matrices the code builds, and the
   layout of the element types / column counts named by the property. *)
Example C19_nonvacuous_wf :
  s_wf 5 32 (s_new 0 5 32 (fun i => i) 3) /\ 5 <= stride 1 5 32.
Proof. split; [apply s_new_wf | vm_compute; lia]. Qed.

Example C19_strides_x86 :
  map (fun C => (stride 1 C 32, stride 4 C 32, stride 8 C 32)) [1; 5; 7; 16; 21; 32; 43]
  = [(32, 8, 4); (32, 8, 8); (32, 8, 8); (32, 16, 16); (32, 24, 24); (32, 32, 32); (64, 48, 44)].
Proof. vm_compute. reflexivity. Qed.

Check C19_stride_spec : forall size C align,
  0 < size -> 0 < align -> align mod size = 0 ->
  C <= stride size C align /\
  (stride size C align * size) mod align = 0 /\
  stride size C align * size < C * size + align.
Check C19_storage_refines_table :
  forall (T : Type) (dflt : T) (C S : nat), C <= S ->
  forall (pads : nat -> nat -> T) (ops : list (op T)) (k : nat) (st : storage),
    s_wf C S st ->
    match s_run_pads dflt C S pads k st ops, t_run dflt C (abs st) ops with
    | Ok st', Ok t' => abs st' = t' /\ s_wf C S st'
    | Panic a, Panic b => a = b
    | _, _ => False
    end.
